//go:build verif && (c16 || allprops)

package main

import (
	"bytes"
	"encoding/csv"
	"encoding/json"
	"errors"
	"fmt"
	"io"
	"math/rand"
	"strings"
	"sync"
	"time"
	"unsafe"

	"github.com/go-openapi/runtime"
)

// C16 — CSV codec. Cases:
//   consume  CSVConsumer: text through an io.Reader into one of the 8 destination kinds
//   produce  CSVProducer: one of the 8 source kinds into an io.Writer
//   pair     CSVProducer(source kind) into a buffer, then CSVConsumer from that buffer into a destination kind
//            (all 64 kind pairs); checked as the two steps it consists of
// encoding/csv is the oracle: every case carries the real csv.Reader's answer on (options, text) and the real
// csv.Writer's rendering of (options, records) for the queries the model and the specification make.

type c16Opts struct {
	Comma   int  `json:"comma,omitempty"`   // reader separator (rune), 0 = not set
	Comment int  `json:"comment,omitempty"` // reader comment rune, 0 = not set
	FPR     int  `json:"fpr,omitempty"`     // FieldsPerRecord
	Lazy    bool `json:"lazy,omitempty"`
	Trim    bool `json:"trim,omitempty"`
	Reuse   bool `json:"reuse,omitempty"`
	WComma  int  `json:"wcomma,omitempty"` // writer separator, 0 = not set
	CRLF    bool `json:"crlf,omitempty"`
	Skip    int  `json:"skip,omitempty"`
}

type c16In struct {
	Mode   string  `json:"mode"` // consume | produce | pair | hist
	Text   Bs      `json:"text"`
	Opts   c16Opts `json:"opts"`
	Dst    string  `json:"dst,omitempty"`
	Src    string  `json:"src,omitempty"`
	Nil    bool    `json:"nil,omitempty"`     // the destination (consume) / source (produce) is a typed nil pointer
	Ptr    bool    `json:"ptr,omitempty"`     // produce: [][]string, []byte, string passed by pointer
	PreLen int     `json:"prelen,omitempty"`  // record-table destination before the call
	PreCap int     `json:"precap,omitempty"`
	Share  string  `json:"share,omitempty"`   // how the rows of a pre-populated table are stored: "" one-field rows, each its own array | separate | same | grid | gridcap | windows | spare
	PreW   int     `json:"prew,omitempty"`    // width of those rows (Share != "")
	Elem   string  `json:"elem,omitempty"`    // record table (dst in consume/pair, src in produce): "" [][]string | named | mystr | row
	Stress int     `json:"stress,omitempty"`  // produce: repeat the call this many times concurrently; any run that differs is the observable
	Chunk  int     `json:"chunk,omitempty"`   // reader / WriterTo hands the text over in pieces of this size (0 = at once)
	Calls  []c16In `json:"calls,omitempty"`   // hist: the calls made through ONE consumer value and ONE producer value built with Opts
	Had    *c16Had `json:"had,omitempty"`     // what the caller's own *csv.Reader (source csvreader) / *csv.Writer (destination csvwriter) was set to BEFORE the call
}

// c16Had: the state a caller-supplied *csv.Reader / *csv.Writer carries from an earlier use. It is independent of the
// option set of the codec; the option set decides what the call delivers (flags are taken as given, a separator /
// comment rune / field count given in the option set replaces the one the reader or writer had).
type c16Had struct {
	Lazy    bool `json:"lazy,omitempty"`
	Trim    bool `json:"trim,omitempty"`
	Reuse   bool `json:"reuse,omitempty"`
	Comma   int  `json:"comma,omitempty"`
	Comment int  `json:"comment,omitempty"`
	FPR     int  `json:"fpr,omitempty"`
	CRLF    bool `json:"crlf,omitempty"`
	WComma  int  `json:"wcomma,omitempty"`
}

func (h *c16Had) reader(r *csv.Reader) {
	if h == nil {
		return
	}
	r.LazyQuotes, r.TrimLeadingSpace, r.ReuseRecord = h.Lazy, h.Trim, h.Reuse
	if h.Comma != 0 {
		r.Comma = rune(h.Comma)
	}
	if h.Comment != 0 {
		r.Comment = rune(h.Comment)
	}
	if h.FPR != 0 {
		r.FieldsPerRecord = h.FPR
	}
}

func (h *c16Had) writer(w *csv.Writer) {
	if h == nil {
		return
	}
	w.UseCRLF = h.CRLF
	if h.WComma != 0 {
		w.Comma = rune(h.WComma)
	}
}

func (h *c16Had) label() string {
	var p []string
	for _, x := range []struct {
		b bool
		s string
	}{{h.Lazy, "lazy"}, {h.Trim, "trim"}, {h.Reuse, "reuse"}, {h.Comma != 0, "comma"}, {h.Comment != 0, "comment"}, {h.FPR != 0, "fpr"}, {h.CRLF, "crlf"}, {h.WComma != 0, "wcomma"}} {
		if x.b {
			p = append(p, x.s)
		}
	}
	return "had:" + strings.Join(p, "+")
}

// c16GenHad: state on the caller's reader / writer, drawn independently of the option set. The flags are free; a
// separator, comment rune or field count is only pre-set where the option set names its own (a zero in the option set
// leaves the caller's value in place: noted in notes/C16.md, not judged).
func c16GenHad(r *rand.Rand, o c16Opts) *c16Had {
	h := &c16Had{}
	switch r.Intn(5) {
	case 0:
		h.Lazy = true
	case 1:
		h.Trim = true
	case 2:
		h.Lazy, h.Trim, h.Reuse, h.CRLF = true, true, true, true
	default:
		h.Lazy, h.Trim, h.Reuse, h.CRLF = r.Intn(2) == 0, r.Intn(2) == 0, r.Intn(2) == 0, r.Intn(2) == 0
	}
	h.CRLF = h.CRLF || r.Intn(3) == 0
	if o.Comma != 0 && r.Intn(2) == 0 {
		h.Comma = []int{';', '\t', '|', ','}[r.Intn(4)]
	}
	if o.Comment != 0 && r.Intn(2) == 0 {
		h.Comment = []int{'#', 'a', '/'}[r.Intn(3)]
	}
	if o.FPR != 0 && r.Intn(2) == 0 {
		h.FPR = []int{-1, 1, 2, 3}[r.Intn(4)]
	}
	if o.WComma != 0 && r.Intn(2) == 0 {
		h.WComma = []int{';', '\t', '|'}[r.Intn(3)]
	}
	return h
}

type c16PEntry struct {
	RO   c16Opts `json:"ro"` // only the reader fields are meaningful; effective values (comma never 0)
	Text Bs      `json:"text"`
	Recs [][]Bs  `json:"recs"`
	End  *Bs     `json:"end,omitempty"`
}

type c16REntry struct {
	WComma int    `json:"wcomma"`
	CRLF   bool   `json:"crlf"`
	Recs   [][]Bs `json:"recs"`
	Out    Bs     `json:"out"`
}

type c16Step struct {
	Kind      string      `json:"kind"` // panic | err | bytes | recs
	Panic     string      `json:"panic,omitempty"`
	Err       Bs          `json:"err,omitempty"`
	ErrClass  string      `json:"err_class,omitempty"` // parser | nil | other
	Bytes     Bs          `json:"bytes,omitempty"`
	Rows      [][]Bs      `json:"rows,omitempty"`
	Len       int         `json:"len,omitempty"`
	Cap       int         `json:"cap,omitempty"`
	Aliased   bool        `json:"aliased,omitempty"`
	Untouched bool        `json:"untouched"`
	Rep       string      `json:"rep"` // none | fail | ok
	RepRows   [][]Bs      `json:"rep_rows,omitempty"`
	PT        []c16PEntry `json:"pt,omitempty"`
	RT        []c16REntry `json:"rt,omitempty"`
	Own       *c16PEntry  `json:"own,omitempty"`  // produce, CSVReader source: what the caller's reader yields
	SrcRows   [][]Bs      `json:"src_rows,omitempty"` // produce, record-table source
	Text      Bs          `json:"text,omitempty"` // the text this step ran on (pair: the producer's output for the consumer)
	Hung      bool        `json:"hung,omitempty"`
	Varied    bool        `json:"varied,omitempty"` // stress: some run answered differently from the first; that run is reported
}

type c16Obs struct {
	Steps []c16Step `json:"steps"`
	Fin   []c16Step `json:"fin,omitempty"` // hist: the steps again, every destination re-read after the last call
}

type c16 struct{}

func init() { register(c16{}) }

func (c16) ID() string        { return "C16" }
func (c16) CoqModule() string { return "Check_C16" }
func (c16) Rule() string {
	return "CSV texts from a row grammar (plain/quoted fields, embedded separators, newlines, doubled quotes, empty fields and lines, " +
		"ragged rows, comment lines, leading blanks, CRLF) plus malformed quoting (bare and unterminated quotes) and arbitrary bytes; texts beginning with a UTF-8 byte order mark " +
		"(before an unquoted field, a quoted field, a comment line, nothing), with a truncated / doubled mark, a UTF-16/32 mark, NUL, a lone CR, line ends, non-ASCII blanks; " +
		"option sets over Comma/Comment/LazyQuotes/TrimLeadingSpace/FieldsPerRecord/ReuseRecord/writer Comma/UseCRLF; skip counts from -1 to n+2 and huge; " +
		"consume x 8 destination kinds, produce x 8 source kinds (value, pointer), pair x 64 kind pairs; record-table destinations fresh or " +
		"pre-populated with (len, cap) shorter and longer than the input; typed nil pointers; a caller's own *csv.Reader / *csv.Writer arriving with flags (and, where the option set names its own, separator / comment / field count) set from an earlier use. Non-trivial: the parse yields >= 2 records or an " +
		"error, or the destination is pre-populated or nil, or some option differs from the default."
}

func (c16) Decode(raw json.RawMessage) (any, error) {
	var in c16In
	err := json.Unmarshal(raw, &in)
	return in, err
}

var c16Dsts = []string{"csvwriter", "CSVWriter", "writer", "readerfrom", "binaryunmarshaler", "records", "bytes", "string"}
var c16Srcs = []string{"csvreader", "CSVReader", "reader", "writerto", "binarymarshaler", "records", "bytes", "string"}

// ---------- oracle ----------

func c16Eff(o c16Opts) c16Opts { // the reader options a hand-configured csv.Reader would carry
	e := c16Opts{Comma: o.Comma, Comment: o.Comment, FPR: o.FPR, Lazy: o.Lazy, Trim: o.Trim, Reuse: o.Reuse}
	if e.Comma == 0 {
		e.Comma = ','
	}
	return e
}

func c16EffW(o c16Opts) (int, bool) {
	if o.WComma == 0 {
		return ',', o.CRLF
	}
	return o.WComma, o.CRLF
}

func c16Configure(r *csv.Reader, e c16Opts) {
	r.Comma = rune(e.Comma)
	r.Comment = rune(e.Comment)
	r.FieldsPerRecord = e.FPR
	r.LazyQuotes = e.Lazy
	r.TrimLeadingSpace = e.Trim
	r.ReuseRecord = e.Reuse
}

func c16Rows(recs [][]string) [][]Bs {
	out := make([][]Bs, len(recs))
	for i, r := range recs {
		out[i] = toBs(r)
	}
	return out
}

func c16Strs(rows [][]Bs) [][]string {
	out := make([][]string, len(rows))
	for i, r := range rows {
		out[i] = bsList(r)
	}
	return out
}

// c16Parse is the parser oracle: the real csv.Reader with exactly these options, read to its first error.
func c16Parse(e c16Opts, text string) c16PEntry {
	r := csv.NewReader(strings.NewReader(text))
	c16Configure(r, e)
	r.ReuseRecord = false
	ent := c16PEntry{RO: e, Text: Bs(text), Recs: [][]Bs{}}
	for {
		rec, err := r.Read()
		if err != nil {
			if !errors.Is(err, io.EOF) {
				m := Bs(err.Error())
				ent.End = &m
			}
			return ent
		}
		ent.Recs = append(ent.Recs, toBs(rec))
	}
}

// c16Render is the writer oracle: the real csv.Writer with exactly these options.
func c16Render(wcomma int, crlf bool, recs [][]Bs) c16REntry {
	var buf bytes.Buffer
	w := csv.NewWriter(&buf)
	w.Comma = rune(wcomma)
	w.UseCRLF = crlf
	_ = w.WriteAll(c16Strs(recs))
	return c16REntry{WComma: wcomma, CRLF: crlf, Recs: recs, Out: Bs(buf.String())}
}

func c16Drop(k int, recs [][]Bs) [][]Bs {
	if k <= 0 {
		return recs
	}
	if k >= len(recs) {
		return nil
	}
	return recs[k:]
}

// ---------- destinations and sources of the caller ----------

type c16RecWriter struct { // a caller's CSVWriter: keeps a copy of every record, and the very slice it was handed
	rows [][]string
	kept [][]string
}

func (w *c16RecWriter) Write(r []string) error {
	w.rows = append(w.rows, append([]string(nil), r...))
	w.kept = append(w.kept, r)
	return nil
}
func (w *c16RecWriter) Flush()       {}
func (w *c16RecWriter) Error() error { return nil }

type c16OnlyWriter struct{ b *bytes.Buffer }

func (w c16OnlyWriter) Write(p []byte) (int, error) { return w.b.Write(p) }

type c16ReaderFrom struct{ b bytes.Buffer }

func (d *c16ReaderFrom) ReadFrom(r io.Reader) (int64, error) { return d.b.ReadFrom(r) }

type c16Unmarshaler struct {
	b      []byte
	called bool
}

func (d *c16Unmarshaler) UnmarshalBinary(p []byte) error {
	d.b = append([]byte(nil), p...)
	d.called = true
	return nil
}

type c16Table [][]string // named table type: rows are []string
type c16Str string
type c16Row []string

func c16Compat(elem string) bool { return elem == "" || elem == "named" }

type c16RecReader struct{ r *csv.Reader } // a caller's CSVReader

func (s *c16RecReader) Read() ([]string, error) { return s.r.Read() }

type c16ChunkReader struct { // io.Reader only, hands out at most chunk bytes per call
	s     string
	chunk int
}

func (c *c16ChunkReader) Read(p []byte) (int, error) {
	if len(c.s) == 0 {
		return 0, io.EOF
	}
	n := len(p)
	if c.chunk > 0 && n > c.chunk {
		n = c.chunk
	}
	if n > len(c.s) {
		n = len(c.s)
	}
	copy(p, c.s[:n])
	c.s = c.s[n:]
	return n, nil
}

type c16WriterTo struct { // writes the text in pieces of chunk bytes (at once when 0) and stops at the first failed Write, like bytes.Buffer.WriteTo
	s     string
	chunk int
}

func (s c16WriterTo) WriteTo(w io.Writer) (int64, error) {
	var n int64
	rest := s.s
	for len(rest) > 0 {
		k := len(rest)
		if s.chunk > 0 && k > s.chunk {
			k = s.chunk
		}
		m, err := io.WriteString(w, rest[:k])
		n += int64(m)
		if err != nil {
			return n, err
		}
		rest = rest[k:]
	}
	return n, nil
}

type c16Marshaler struct{ s string }

func (s c16Marshaler) MarshalBinary() ([]byte, error) { return []byte(s.s), nil }

// ---------- running the real code ----------

func c16GoOpts(o c16Opts) []runtime.CSVOpt {
	var opts []runtime.CSVOpt
	rd := csv.Reader{Comma: rune(o.Comma), Comment: rune(o.Comment), FieldsPerRecord: o.FPR,
		LazyQuotes: o.Lazy, TrimLeadingSpace: o.Trim, ReuseRecord: o.Reuse}
	opts = append(opts, runtime.WithCSVReaderOpts(rd))
	opts = append(opts, runtime.WithCSVWriterOpts(csv.Writer{Comma: rune(o.WComma), UseCRLF: o.CRLF}))
	if o.Skip != 0 {
		opts = append(opts, runtime.WithCSVSkipLines(o.Skip))
	}
	return opts
}

// c16Guard runs f with recover and a watchdog.
func c16Guard(f func() error) (err error, panicked bool, msg string, hung bool) {
	done := make(chan struct{})
	go func() {
		defer close(done)
		panicked, msg = recoverTo(func() { err = f() })
	}()
	select {
	case <-done:
	case <-time.After(5 * time.Second):
		hung = true
	}
	return
}

func c16ErrClass(err error, st *c16Step) {
	st.Kind = "err"
	st.Err = Bs(err.Error())
	st.ErrClass = "other"
	for _, p := range st.PT {
		if p.End != nil && *p.End == st.Err {
			st.ErrClass = "parser"
		}
	}
	if st.Own != nil && st.Own.End != nil && *st.Own.End == st.Err {
		st.ErrClass = "parser"
	}
	if st.ErrClass == "other" && strings.Contains(string(st.Err), "not supported") {
		st.ErrClass = "unsupported"
	} else if st.ErrClass == "other" && strings.Contains(strings.ToLower(string(st.Err)), "nil") {
		st.ErrClass = "nil"
	}
}

func c16Reparse(st *c16Step, out string, wcomma int) {
	r := csv.NewReader(strings.NewReader(out))
	r.Comma = rune(wcomma)
	r.FieldsPerRecord = -1
	recs, err := r.ReadAll()
	if err != nil {
		st.Rep = "fail"
		return
	}
	st.Rep = "ok"
	st.RepRows = c16Rows(recs)
}

// c16Oracles records the oracle answers for the queries model and specification can make on this text.
func c16Oracles(st *c16Step, o c16Opts, text string, alsoDefault bool) {
	e := c16Eff(o)
	st.PT = append(st.PT, c16Parse(e, text))
	def := c16Opts{Comma: ','}
	if alsoDefault && e != def {
		st.PT = append(st.PT, c16Parse(def, text))
	}
}

func c16RenderFor(st *c16Step, o c16Opts, recs [][]Bs) {
	recs = c16Drop(o.Skip, recs)
	if len(recs) == 0 {
		return
	}
	wc, crlf := c16EffW(o)
	for _, e := range st.RT {
		if fmt.Sprint(e.Recs) == fmt.Sprint(recs) {
			return
		}
	}
	st.RT = append(st.RT, c16Render(wc, crlf, recs))
}

// c16Overlaps: the backing arrays of a and b, each taken up to its full capacity (not only its length), have a slot in
// common. Spare capacity counts: it is what a caller's append or reslice writes to.
func c16Overlaps(a, b []string) bool {
	if cap(a) == 0 || cap(b) == 0 {
		return false
	}
	sz := unsafe.Sizeof("")
	a0 := uintptr(unsafe.Pointer(unsafe.SliceData(a)))
	b0 := uintptr(unsafe.Pointer(unsafe.SliceData(b)))
	return a0 < b0+uintptr(cap(b))*sz && b0 < a0+uintptr(cap(a))*sz
}

// c16CrossTalk is the caller's view of the same thing, without looking at addresses: whatever a caller may do to one
// delivered record (overwrite its fields, append to it, reslice it up to its capacity) must leave every other delivered
// record reading as before. The rows are put back as they were.
func c16CrossTalk(rows [][]string) bool {
	snap := make([][]string, len(rows))
	for i, r := range rows {
		snap[i] = append([]string(nil), r...)
	}
	othersSame := func(skip int) bool {
		for k, r := range rows {
			if k == skip {
				continue
			}
			if len(r) != len(snap[k]) {
				return false
			}
			for j := range r {
				if r[j] != snap[k][j] {
					return false
				}
			}
		}
		return true
	}
	talk := false
	for i, r := range rows {
		full := r[:cap(r)]
		keep := append([]string(nil), full...)
		for j := range full {
			full[j] = "\x00c16-probe"
		}
		_ = append(r, "\x00c16-extra") // lands in slot len(r) of the same array when there is spare capacity
		if !othersSame(i) {
			talk = true
		}
		copy(full, keep)
	}
	return talk
}

// c16Aliased: some two of these record slices share storage (by address, up to capacity, or as a caller would notice).
func c16Aliased(rows [][]string) bool {
	for i := range rows {
		for j := i + 1; j < len(rows); j++ {
			if c16Overlaps(rows[i], rows[j]) {
				return true
			}
		}
	}
	return c16CrossTalk(rows)
}

func c16SameRows(a, b [][]string) bool {
	if len(a) != len(b) {
		return false
	}
	for i := range a {
		if len(a[i]) != len(b[i]) {
			return false
		}
		for j := range a[i] {
			if a[i][j] != b[i][j] {
				return false
			}
		}
	}
	return true
}

// c16Shares: how the rows a caller's table already holds may be stored. separate: every row its own array, no spare
// capacity; same: one template row repeated; grid: rows carved one after the other out of one flat array, the capacity of
// each running to the end of it; gridcap: the same with the capacity cut at the row's end; windows: overlapping windows
// of one array; spare: own arrays with spare capacity.
var c16Shares = []string{"separate", "same", "grid", "gridcap", "windows", "spare"}

// c16PreTable builds the table a pre-populated record destination holds before the call (PreLen rows, capacity PreCap).
func c16PreTable(in c16In) [][]string {
	table := make([][]string, in.PreLen, in.PreCap)
	w := in.PreW
	if w < 0 {
		w = 0
	}
	var flat []string
	switch in.Share {
	case "same":
		flat = make([]string, w)
	case "grid", "gridcap":
		flat = make([]string, in.PreLen*w)
	case "windows":
		flat = make([]string, in.PreLen+w)
	}
	for j := range flat {
		flat[j] = fmt.Sprintf("old.%d", j)
	}
	for i := range table {
		switch in.Share {
		case "":
			table[i] = []string{fmt.Sprintf("old%d", i)}
			continue
		case "same":
			table[i] = flat
			continue
		case "grid":
			table[i] = flat[i*w : (i+1)*w]
			continue
		case "gridcap":
			table[i] = flat[i*w : (i+1)*w : (i+1)*w]
			continue
		case "windows":
			table[i] = flat[i : i+w]
			continue
		}
		row := make([]string, w)
		if in.Share == "spare" {
			row = make([]string, w, w+1+i%3)
		}
		for j := range row {
			row[j] = fmt.Sprintf("old%d.%d", i, j)
		}
		table[i] = row
	}
	return table
}

// c16Deep: the text of the rows, each up to its full capacity (what the caller's storage reads as).
func c16Deep(t [][]string) string {
	var sb strings.Builder
	for _, r := range t {
		fmt.Fprintf(&sb, "%d:%q;", len(r), r[:cap(r)])
	}
	return sb.String()
}

func c16Consume(in c16In, text string) c16Step {
	st, _ := c16ConsumeWith(runtime.CSVConsumer(c16GoOpts(in.Opts)...), in, text)
	return st
}

// c16Retained: what a call of a history left in the caller's hands. again() observes the destination once more (the
// step as it reads NOW); rows are the record slices the caller holds.
type c16Retained struct {
	again func() c16Step
	rows  func() [][]string
}

// c16ConsumeWith makes one Consume call through the given consumer value (built with in.Opts).
func c16ConsumeWith(cons runtime.Consumer, in c16In, text string) (c16Step, c16Retained) {
	st := c16Step{Rep: "none", Text: Bs(text)}
	o := in.Opts
	c16Oracles(&st, o, text, false)
	for _, p := range st.PT {
		if p.End == nil {
			c16RenderFor(&st, o, p.Recs)
		}
	}
	src := &c16ChunkReader{s: text, chunk: in.Chunk}

	var data any
	var buf bytes.Buffer
	recw := &c16RecWriter{}
	rf := &c16ReaderFrom{}
	um := &c16Unmarshaler{}
	var table [][]string
	var pre [][]string
	var preDeep string
	var named c16Table
	var mystr [][]c16Str
	var rowt []c16Row
	bts := []byte("old")
	str := "old"
	switch in.Dst {
	case "csvwriter":
		cw := csv.NewWriter(&buf)
		in.Had.writer(cw)
		data = cw
		if in.Nil {
			data = (*csv.Writer)(nil)
		}
	case "CSVWriter":
		data = recw
	case "writer":
		data = c16OnlyWriter{&buf}
	case "readerfrom":
		data = rf
	case "binaryunmarshaler":
		data = um
	case "records":
		if in.PreCap > 0 {
			table = c16PreTable(in)
			pre = append([][]string(nil), table...)
			preDeep = c16Deep(pre)
			if in.Elem == "named" {
				named, table = c16Table(table), nil
			}
		}
		data = &table
		switch {
		case in.Nil:
			data = (*[][]string)(nil)
		case in.Elem == "named":
			data = &named
		case in.Elem == "mystr":
			data = &mystr
		case in.Elem == "row":
			data = &rowt
		}
	case "bytes":
		data = &bts
		if in.Nil {
			data = (*[]byte)(nil)
		}
	case "string":
		data = &str
		if in.Nil {
			data = (*string)(nil)
		}
	}
	err, panicked, msg, hung := c16Guard(func() error { return cons.Consume(src, data) })
	// observe reads the destination into a copy of the step; probe: also make the two later calls that look for
	// storage shared with what a later call delivers (only right after the call, not when re-reading)
	var aliased bool
	observe := func(probe bool) c16Step {
		st := st
		st.Untouched = true
		switch {
		case hung:
			st.Kind, st.Panic, st.Hung = "panic", "hung", true
			return st
		case panicked:
			st.Kind, st.Panic = "panic", msg
			return st
		case err != nil:
			c16ErrClass(err, &st)
			switch in.Dst {
			case "records":
				if !in.Nil && (in.Elem == "" || in.Elem == "named") {
					now := table
					if in.Elem == "named" {
						now = named
					}
					// same length, capacity, row slices and - row storage being the caller's - the same text in every slot of it
					st.Untouched = len(now) == in.PreLen && cap(now) == in.PreCap && fmt.Sprint(now) == fmt.Sprint(pre) && c16Deep(now[:len(now):len(now)]) == preDeep
					for i := range now {
						if i < len(pre) && (len(now[i]) != len(pre[i]) || cap(now[i]) != cap(pre[i]) || (cap(now[i]) > 0 && unsafe.SliceData(now[i]) != unsafe.SliceData(pre[i]))) {
							st.Untouched = false
						}
					}
				}
			case "bytes":
				st.Untouched = string(bts) == "old"
			case "string":
				st.Untouched = str == "old"
			case "readerfrom":
				st.Untouched = rf.b.Len() == 0
			case "binaryunmarshaler":
				st.Untouched = !um.called
			}
			return st
		}
		wc, _ := c16EffW(o)
		switch in.Dst {
		case "csvwriter", "writer":
			st.Kind, st.Bytes = "bytes", Bs(buf.String())
		case "CSVWriter":
			st.Kind, st.Rows = "recs", c16Rows(recw.rows)
			// a caller's writer may retain the slices it is handed. Unless the caller asked for ReuseRecord they are its own:
			// they still read as they did when handed over and no two of them share storage
			if !o.Reuse {
				st.Aliased = !c16SameRows(recw.kept, recw.rows) || c16Aliased(recw.kept)
			}
		case "readerfrom":
			st.Kind, st.Bytes = "bytes", Bs(rf.b.String())
		case "binaryunmarshaler":
			st.Kind, st.Bytes = "bytes", Bs(um.b)
		case "records":
			tbl := table
			switch in.Elem {
			case "named":
				tbl = named
			case "mystr":
				tbl = nil
				for _, r := range mystr {
					row := []string{}
					for _, f := range r {
						row = append(row, string(f))
					}
					tbl = append(tbl, row)
				}
			case "row":
				tbl = nil
				for _, r := range rowt {
					tbl = append(tbl, r)
				}
			}
			st.Kind, st.Rows, st.Len, st.Cap = "recs", c16Rows(tbl), len(tbl), cap(tbl)
			if (in.Elem == "" || in.Elem == "named") && probe {
				// the delivered records belong to the caller: no two of them share storage, up to their full capacity, and
				// neither do they share any with what a later call (of this consumer or of a new one) delivers or writes
				delivered := append([][]string(nil), tbl...)
				before := c16Strs(st.Rows)
				all := delivered
				for _, c := range []runtime.Consumer{cons, runtime.CSVConsumer(c16GoOpts(o)...)} {
					var later [][]string
					e2, p2, _, h2 := c16Guard(func() error { return c.Consume(&c16ChunkReader{s: text, chunk: in.Chunk}, &later) })
					if h2 {
						break // that call still runs: leave its destination alone
					}
					if e2 == nil && !p2 {
						all = append(all, later...)
					}
				}
				aliased = !c16SameRows(delivered, before) || c16Aliased(all)
			}
			st.Aliased = aliased
		case "bytes":
			st.Kind, st.Bytes = "bytes", Bs(bts)
		case "string":
			st.Kind, st.Bytes = "bytes", Bs(str)
		}
		if st.Kind == "bytes" {
			c16Reparse(&st, string(st.Bytes), wc)
		}
		return st
	}
	rows := func() [][]string {
		if hung || panicked || err != nil {
			return nil
		}
		switch {
		case in.Dst == "CSVWriter" && !o.Reuse:
			return recw.kept
		case in.Dst == "records" && in.Elem == "":
			return table
		case in.Dst == "records" && in.Elem == "named":
			return named
		}
		return nil
	}
	return observe(true), c16Retained{again: func() c16Step { return observe(false) }, rows: rows}
}

func c16Produce(in c16In, text string) (c16Step, string) {
	st, mid, _ := c16ProduceWith(runtime.CSVProducer(c16GoOpts(in.Opts)...), in, text)
	return st, mid
}

// c16ProduceWith makes one Produce call through the given producer value (built with in.Opts).
func c16ProduceWith(prod runtime.Producer, in c16In, text string) (c16Step, string, c16Retained) {
	st := c16Step{Rep: "none", Text: Bs(text), Untouched: true}
	o := in.Opts
	c16Oracles(&st, o, text, in.Src == "binarymarshaler")
	req := st.PT[0]
	var sink bytes.Buffer
	var data any
	switch in.Src {
	case "csvreader":
		cr := csv.NewReader(&c16ChunkReader{s: text, chunk: in.Chunk})
		in.Had.reader(cr)
		data = cr
		if in.Nil {
			data = (*csv.Reader)(nil)
		}
	case "CSVReader":
		r := csv.NewReader(strings.NewReader(text))
		c16Configure(r, c16Eff(o))
		data = &c16RecReader{r}
		own := req
		st.Own = &own
		st.PT = nil
		if own.End == nil {
			c16RenderFor(&st, o, own.Recs)
		}
	case "reader":
		data = &c16ChunkReader{s: text, chunk: in.Chunk}
	case "writerto":
		data = c16WriterTo{text, in.Chunk}
	case "binarymarshaler":
		data = c16Marshaler{text}
	case "records":
		rows := c16Strs(req.Recs)
		st.SrcRows = req.Recs
		st.PT = nil
		c16RenderFor(&st, o, req.Recs)
		switch {
		case in.Nil:
			data = (*[][]string)(nil)
		case in.Elem == "named":
			data = c16Table(rows)
		case in.Elem == "mystr":
			var t [][]c16Str
			for _, r := range rows {
				var row []c16Str
				for _, f := range r {
					row = append(row, c16Str(f))
				}
				t = append(t, row)
			}
			data = t
		case in.Elem == "row":
			var t []c16Row
			for _, r := range rows {
				t = append(t, r)
			}
			data = t
		case in.Ptr:
			data = &rows
		default:
			data = rows
		}
	case "bytes":
		b := []byte(text)
		switch {
		case in.Nil:
			data = (*[]byte)(nil)
		case in.Ptr:
			data = &b
		default:
			data = b
		}
	case "string":
		switch {
		case in.Nil:
			data = (*string)(nil)
		case in.Ptr:
			data = &text
		default:
			data = text
		}
	}
	for _, p := range st.PT {
		if p.End == nil {
			c16RenderFor(&st, o, p.Recs)
		}
	}
	err, panicked, msg, hung := c16Guard(func() error { return prod.Produce(c16OnlyWriter{&sink}, data) })
	if in.Stress > 0 && in.Src == "writerto" && !hung && !panicked {
		// the WriterTo source runs two goroutines: look for a schedule that answers differently
		want := fmt.Sprint(err) + "|" + sink.String()
		var mu sync.Mutex
		var wg sync.WaitGroup
		for g := 0; g < 32; g++ {
			wg.Add(1)
			go func() {
				defer wg.Done()
				for i := 0; i < in.Stress/32; i++ {
					var b bytes.Buffer
					var e error
					p, _ := recoverTo(func() { e = prod.Produce(c16OnlyWriter{&b}, data) })
					if got := fmt.Sprint(e) + "|" + b.String(); p || got != want {
						mu.Lock()
						if !st.Varied {
							st.Varied, err, panicked = true, e, p
							sink = b
						}
						mu.Unlock()
					}
				}
			}()
		}
		wg.Wait()
	}
	observe := func() c16Step {
		st := st
		switch {
		case hung:
			st.Kind, st.Panic, st.Hung = "panic", "hung", true
			return st
		case panicked:
			st.Kind, st.Panic = "panic", msg
			return st
		case err != nil:
			c16ErrClass(err, &st)
			return st
		}
		st.Kind, st.Bytes = "bytes", Bs(sink.String())
		wc, _ := c16EffW(o)
		c16Reparse(&st, sink.String(), wc)
		return st
	}
	mid := ""
	if !hung {
		mid = sink.String()
	}
	return observe(), mid, c16Retained{again: observe, rows: func() [][]string { return nil }}
}

// c16Hist: ONE consumer value and ONE producer value, built once with the options of the history, serve all its calls.
// Every call is observed right after it returned and once more after the last call returned; the record slices the
// calls left in the caller's hands must not share storage with one another either.
func c16Hist(in c16In) c16Obs {
	cons := runtime.CSVConsumer(c16GoOpts(in.Opts)...)
	prod := runtime.CSVProducer(c16GoOpts(in.Opts)...)
	var obs c16Obs
	var kept []c16Retained
	for _, call := range in.Calls {
		call.Opts = in.Opts
		var st c16Step
		var rt c16Retained
		switch call.Mode {
		case "consume":
			st, rt = c16ConsumeWith(cons, call, string(call.Text))
		case "produce":
			st, _, rt = c16ProduceWith(prod, call, string(call.Text))
		default:
			panic("hist: call mode " + call.Mode)
		}
		obs.Steps = append(obs.Steps, st)
		kept = append(kept, rt)
	}
	var all [][]string
	for _, rt := range kept {
		all = append(all, rt.rows()...)
	}
	cross := len(all) <= 400 && c16Aliased(all)
	for _, rt := range kept {
		st := rt.again()
		if st.Kind == "recs" && cross && len(rt.rows()) > 0 {
			st.Aliased = true
		}
		obs.Fin = append(obs.Fin, st)
	}
	return obs
}

func (c16) Run(x any) any {
	in := x.(c16In)
	switch in.Mode {
	case "hist":
		return c16Hist(in)
	case "consume":
		return c16Obs{Steps: []c16Step{c16Consume(in, string(in.Text))}}
	case "produce":
		st, _ := c16Produce(in, string(in.Text))
		return c16Obs{Steps: []c16Step{st}}
	default: // pair: the nil flag is not used here
		in.Nil = false
		pin := in
		pin.Elem = ""
		p, mid := c16Produce(pin, string(in.Text))
		c := c16Consume(in, mid)
		return c16Obs{Steps: []c16Step{p, c}}
	}
}

// ---------- Gallina ----------

func c16CoqRecs(rows [][]Bs) string {
	return coqList(rows, func(r []Bs) string { return coqBytesList(bsList(r)) })
}

func c16CoqR(e c16Opts) string {
	return fmt.Sprintf("(mkR %d %d %s %s %s %s)", e.Comma, e.Comment, coqZ(int64(e.FPR)), coqBool(e.Lazy), coqBool(e.Trim), coqBool(e.Reuse))
}

func c16CoqO(o c16Opts) string {
	return fmt.Sprintf("(mkO %s (mkW %d %s) %s)", c16CoqR(o), o.WComma, coqBool(o.CRLF), coqZ(int64(o.Skip)))
}

func c16CoqP(p c16PEntry) string {
	end := "None"
	if p.End != nil {
		end = "(Some " + coqBytes(string(*p.End)) + ")"
	}
	return fmt.Sprintf("(mkP %s %s)", c16CoqRecs(p.Recs), end)
}

func c16CoqPT(pt []c16PEntry) string {
	return coqList(pt, func(p c16PEntry) string {
		return fmt.Sprintf("(%s, %s, %s)", c16CoqR(p.RO), coqBytes(string(p.Text)), c16CoqP(p))
	})
}

func c16CoqRT(rt []c16REntry) string {
	return coqList(rt, func(e c16REntry) string {
		return fmt.Sprintf("(mkW %d %s, %s, %s)", e.WComma, coqBool(e.CRLF), c16CoqRecs(e.Recs), coqBytes(string(e.Out)))
	})
}

func c16CoqOutcome(st c16Step) string {
	switch st.Kind {
	case "panic":
		return "OPanic"
	case "err":
		switch st.ErrClass {
		case "nil":
			return "(OErr ENil)"
		case "unsupported":
			return "(OErr EUnsupported)"
		default: // an error that is not the parser's is printed with its text: it cannot equal the expected one by accident
			return "(OErr (EParser " + coqBytes(string(st.Err)) + "))"
		}
	case "bytes":
		return "(OBytes " + coqBytes(string(st.Bytes)) + ")"
	default:
		return fmt.Sprintf("(ORecs %s %d %d %s)", c16CoqRecs(st.Rows), st.Len, st.Cap, coqBool(st.Aliased))
	}
}

func c16CoqRep(st c16Step) string {
	switch st.Rep {
	case "fail":
		return "RFail"
	case "ok":
		return "(ROk " + c16CoqRecs(st.RepRows) + ")"
	}
	return "RNone"
}

var c16DK = map[string]string{"csvwriter": "DCsvWriter", "CSVWriter": "DCSVWriter", "writer": "DWriter", "readerfrom": "DReaderFrom",
	"binaryunmarshaler": "DBinaryUnmarshaler", "records": "DRecords", "bytes": "DBytes", "string": "DString"}
var c16SK = map[string]string{"csvreader": "SCsvReader", "CSVReader": "SCSVReader", "reader": "SReader", "writerto": "SWriterTo",
	"binarymarshaler": "SBinaryMarshaler", "records": "SRecords", "bytes": "SBytes", "string": "SString"}

func c16CoqCons(in c16In, st c16Step, nilDst bool) string {
	d := fmt.Sprintf("(mkD %s %s %s %d %d)", c16DK[in.Dst], coqBool(nilDst), coqBool(in.Dst != "records" || c16Compat(in.Elem)), in.PreLen, in.PreCap)
	return fmt.Sprintf("(CCons %s %s %s %s %s %s %s %s)", c16CoqO(in.Opts), d, coqBytes(string(st.Text)),
		c16CoqPT(st.PT), c16CoqRT(st.RT), c16CoqOutcome(st), coqBool(st.Untouched), c16CoqRep(st))
}

func c16CoqProd(in c16In, st c16Step, nilSrc bool) string {
	own := "(mkP [] None)"
	if st.Own != nil {
		own = c16CoqP(*st.Own)
	}
	s := fmt.Sprintf("(mkS %s %s %s %s %s %s)", c16SK[in.Src], coqBool(nilSrc), coqBool(in.Mode == "pair" || in.Src != "records" || c16Compat(in.Elem)), coqBytes(string(st.Text)), own, c16CoqRecs(st.SrcRows))
	return fmt.Sprintf("(CProd %s %s %s %s %s %s)", c16CoqO(in.Opts), s, c16CoqPT(st.PT), c16CoqRT(st.RT), c16CoqOutcome(st), c16CoqRep(st))
}

func (c16) Coq(x any, y any) string {
	in, obs := x.(c16In), y.(c16Obs)
	switch in.Mode {
	case "hist":
		list := func(steps []c16Step) string {
			var parts []string
			for i, st := range steps {
				call := in.Calls[i]
				call.Opts = in.Opts
				if call.Mode == "consume" {
					parts = append(parts, c16CoqCons(call, st, call.Nil))
				} else {
					parts = append(parts, c16CoqProd(call, st, call.Nil))
				}
			}
			return "[" + strings.Join(parts, "; ") + "]"
		}
		return "(CHist " + list(obs.Steps) + " " + list(obs.Fin) + ")"
	case "consume":
		return c16CoqCons(in, obs.Steps[0], in.Nil)
	case "produce":
		return c16CoqProd(in, obs.Steps[0], in.Nil)
	default:
		return "(CPair " + c16CoqProd(in, obs.Steps[0], false) + " " + c16CoqCons(in, obs.Steps[1], false) + ")"
	}
}

func (c16) Classify(x any, y any) []string { return nil }

func c16HistCategory(in c16In, obs c16Obs) (string, bool) {
	parts := []string{fmt.Sprintf("hist calls=%d", len(in.Calls))}
	var ops []string
	texts := map[string]bool{}
	for _, c := range in.Calls {
		if c.Mode == "consume" {
			ops = append(ops, ">"+c.Dst)
		} else {
			ops = append(ops, "<"+c.Src)
		}
		texts[string(c.Text)] = true
		if c.Had != nil && (c.Src == "csvreader" || c.Dst == "csvwriter") {
			ops[len(ops)-1] += "(" + c.Had.label() + ")"
		}
	}
	parts = append(parts, strings.Join(ops, ","))
	if len(texts) > 1 {
		parts = append(parts, "texts:different")
	} else {
		parts = append(parts, "texts:same")
	}
	switch {
	case in.Opts.Skip < 0:
		parts = append(parts, "skip<0")
	case in.Opts.Skip > 0:
		parts = append(parts, "skip>0")
	}
	if in.Opts.Reuse {
		parts = append(parts, "reuse")
	}
	kinds := ""
	for _, st := range obs.Steps {
		kinds += st.Kind[:1]
	}
	parts = append(parts, "->"+kinds)
	return strings.Join(parts, " "), true
}

func (c16) Category(x any, y any) (string, bool) {
	in, obs := x.(c16In), y.(c16Obs)
	if in.Mode == "hist" {
		return c16HistCategory(in, obs)
	}
	o := in.Opts
	var parts []string
	switch in.Mode {
	case "consume":
		parts = append(parts, "consume>"+in.Dst)
	case "produce":
		p := "produce<" + in.Src
		if in.Ptr {
			p += "*"
		}
		parts = append(parts, p)
	default:
		parts = append(parts, "pair:"+in.Src+">"+in.Dst)
	}
	nrec, perr := 0, false
	first := obs.Steps[0]
	if len(first.PT) > 0 {
		nrec, perr = len(first.PT[0].Recs), first.PT[0].End != nil
	} else if first.Own != nil {
		nrec, perr = len(first.Own.Recs), first.Own.End != nil
	} else {
		nrec = len(first.SrcRows)
	}
	if in.Nil {
		parts = append(parts, "nil")
	}
	if in.Stress > 0 {
		parts = append(parts, "stress")
	}
	if in.Elem != "" {
		parts = append(parts, "elem:"+in.Elem)
	}
	if in.Had != nil && (in.Src == "csvreader" || in.Dst == "csvwriter") {
		parts = append(parts, in.Had.label())
	}
	var os []string
	if o.Comma != 0 {
		os = append(os, "comma")
	}
	if o.Comment != 0 {
		os = append(os, "comment")
	}
	if o.FPR != 0 {
		os = append(os, "fpr")
	}
	if o.Lazy {
		os = append(os, "lazy")
	}
	if o.Trim {
		os = append(os, "trim")
	}
	if o.Reuse {
		os = append(os, "reuse")
	}
	if o.WComma != 0 {
		os = append(os, "wcomma")
	}
	if o.CRLF {
		os = append(os, "crlf")
	}
	if len(os) > 0 {
		parts = append(parts, "opts="+strings.Join(os, "+"))
	}
	switch {
	case o.Skip < 0:
		parts = append(parts, "skip<0")
	case o.Skip == 0:
	case o.Skip < nrec:
		parts = append(parts, "skip<n")
	case o.Skip == nrec:
		parts = append(parts, "skip=n")
	default:
		parts = append(parts, "skip>n")
	}
	if in.Dst == "records" && in.Mode != "produce" && in.PreCap > 0 {
		n := nrec
		if in.Mode == "pair" && len(obs.Steps) > 1 && len(obs.Steps[1].PT) > 0 {
			n = len(obs.Steps[1].PT[0].Recs)
		}
		n -= o.Skip
		switch {
		case in.PreLen > n:
			parts = append(parts, "pre:longer")
		case in.PreLen == 0:
			parts = append(parts, "pre:cap-only")
		default:
			parts = append(parts, "pre:shorter-or-equal")
		}
		if in.Share != "" {
			// row width against the field counts of the records landing on pre-populated rows
			rel := ""
			if len(first.PT) > 0 && in.Mode == "consume" {
				lt, eq, gt := false, false, false
				for i, rec := range first.PT[0].Recs {
					if i >= o.Skip && i-o.Skip < in.PreLen {
						lt, eq, gt = lt || in.PreW < len(rec), eq || in.PreW == len(rec), gt || in.PreW > len(rec)
					}
				}
				for _, x := range []struct {
					b bool
					s string
				}{{lt, "<"}, {eq, "="}, {gt, ">"}} {
					if x.b {
						rel += x.s
					}
				}
			}
			parts = append(parts, "share:"+in.Share+" w"+rel)
		}
	}
	if perr {
		parts = append(parts, "malformed")
	}
	if h := c16HeadClass(string(in.Text)); h != "" {
		parts = append(parts, h)
	}
	last := obs.Steps[len(obs.Steps)-1]
	parts = append(parts, "->"+last.Kind)
	nontrivial := nrec >= 2 || perr || in.Nil || in.Elem != "" || in.PreCap > 0 || len(os) > 0
	return strings.Join(parts, " "), nontrivial
}

// ---------- generators ----------

var c16Words = []string{"a", "b", "c", "x1", "hello", "", "", "0", "é", " lead", "trail ", "#hash", "q\"q", "a,b", "a;b", "l1\nl2", "\"\"", "tab\tbed", "cr\rlf"}

func c16Field(r *rand.Rand, sep string) string {
	w := c16Words[r.Intn(len(c16Words))]
	needs := strings.ContainsAny(w, "\"\n\r") || strings.Contains(w, sep) || strings.Contains(w, ",")
	switch {
	case needs || r.Intn(5) == 0:
		return "\"" + strings.ReplaceAll(w, "\"", "\"\"") + "\""
	default:
		return w
	}
}

var c16Bad = []string{"a\"b", "\"open", "\"x\"y", "\"", "a\"", "\"a\"\"", " \"sp\"", "\"q\" "}

func c16Text(r *rand.Rand, sep string, forceRagged bool) string {
	var sb strings.Builder
	nrows := r.Intn(7)
	width := 1 + r.Intn(4)
	ragged := r.Intn(8) == 0 // ragged rows are an error unless FieldsPerRecord < 0
	crlf := r.Intn(5) == 0
	ragged = ragged || forceRagged
	for i := 0; i < nrows; i++ {
		switch r.Intn(14) {
		case 0:
			sb.WriteString("\n") // empty line
			continue
		case 1:
			sb.WriteString("#comment" + sep + "x\n")
			continue
		}
		w := width
		if ragged {
			w = 1 + r.Intn(4)
		}
		for j := 0; j < w; j++ {
			if j > 0 {
				sb.WriteString(sep)
			}
			f := c16Field(r, sep)
			if r.Intn(4) == 0 && (!strings.HasPrefix(f, "\"") || r.Intn(8) == 0) {
				sb.WriteString(" ") // a blank before a quoted field is malformed unless LazyQuotes/TrimLeadingSpace
			}
			sb.WriteString(f)
		}
		if i == nrows-1 && r.Intn(3) == 0 {
			break // no newline at the end of the text
		}
		if crlf {
			sb.WriteString("\r\n")
		} else {
			sb.WriteString("\n")
		}
	}
	return sb.String()
}

// how a text may begin before its first record: byte order marks (a UTF-8 one is what spreadsheet exports start with: a
// standard parse keeps U+FEFF as part of the first field, and a quote after it is a bare quote), truncated and doubled marks,
// marks of the other encodings, NUL, a lone CR, line ends, blanks that are not ASCII blanks
var c16Heads = []string{"\xEF\xBB\xBF", "\xEF\xBB\xBF", "\xEF\xBB\xBF\xEF\xBB\xBF", "\xEF\xBB\xBF ", "\xEF\xBB\xBF\n", "\xEF\xBB\xBF\r\n", "\xEF\xBB\xBF\r",
	"\xEF\xBB", "\xEF", "\xEF\xBB\xBE", "\xBB\xBF", "\xFF\xFE", "\xFE\xFF", "\xFF\xFE\x00\x00", "\x00", "\x00\x00", "\r", "\r\r", "\r\n", "\n", " ", "\t",
	"\xC2\xA0", "\xE2\x80\x8B", "\x1F\x8B"}

// the texts the heads are put in front of: first field unquoted / quoted / a comment line / nothing at all / malformed
func c16HeadBodies(sep string) []string {
	return []string{"name" + sep + "age\nx" + sep + "1\n", "\"a\"" + sep + "b\nc" + sep + "d\n", "\"a\"\n", "#c" + sep + "1\nd" + sep + "2\n", "", "x", "\"", "\"q\"\"q\"" + sep + "z"}
}

func c16Headed(r *rand.Rand, sep string, text string) string {
	if r.Intn(3) == 0 {
		b := c16HeadBodies(sep)
		text = b[r.Intn(len(b))]
	}
	return c16Heads[r.Intn(len(c16Heads))] + text
}

func c16HeadClass(text string) string {
	switch {
	case strings.HasPrefix(text, "\xEF\xBB\xBF"):
		return "head:utf8-bom"
	case strings.HasPrefix(text, "\xFF\xFE"), strings.HasPrefix(text, "\xFE\xFF"):
		return "head:utf16-bom"
	case strings.HasPrefix(text, "\x00"):
		return "head:nul"
	case strings.HasPrefix(text, "\r") && !strings.HasPrefix(text, "\r\n"):
		return "head:lone-cr"
	case strings.HasPrefix(text, "\xEF"), strings.HasPrefix(text, "\xBB"):
		return "head:bom-lookalike"
	}
	return ""
}

func c16BadText(r *rand.Rand, sep string) string {
	if r.Intn(4) == 0 {
		alpha := "a,;\"\n\r #\t\x00\xff"
		n := r.Intn(30)
		b := make([]byte, n)
		for i := range b {
			b[i] = alpha[r.Intn(len(alpha))]
		}
		return string(b)
	}
	t := c16Text(r, sep, false)
	lines := strings.SplitAfter(t, "\n")
	at := r.Intn(len(lines) + 1)
	bad := c16Bad[r.Intn(len(c16Bad))] + sep + "z\n"
	return strings.Join(lines[:at], "") + bad + strings.Join(lines[at:], "")
}

func c16GenOpts(r *rand.Rand) (c16Opts, string) {
	var o c16Opts
	sep := ","
	if r.Intn(3) == 0 {
		o.Comma = []int{';', '\t', '|', ',', ';', 0x3b1, '"', ' '}[r.Intn(8)]
		sep = string(rune(o.Comma))
		if o.Comma == '"' {
			sep = ","
		}
	}
	if r.Intn(4) == 0 {
		o.Comment = '#'
		if r.Intn(10) == 0 {
			o.Comment = o.Comma // invalid when equal to the separator
		}
	}
	if r.Intn(4) == 0 {
		o.FPR = []int{-1, -1, -1, 1, 2, 3, 4}[r.Intn(7)]
	}
	o.Lazy = r.Intn(4) == 0
	o.Trim = r.Intn(4) == 0
	o.Reuse = r.Intn(3) == 0
	if r.Intn(4) == 0 {
		o.WComma = []int{';', '\t', '|', ','}[r.Intn(4)]
	}
	o.CRLF = r.Intn(5) == 0
	return o, sep
}

func c16GenSkip(r *rand.Rand, o c16Opts, text string) int {
	n := len(c16Parse(c16Eff(o), text).Recs)
	switch r.Intn(12) {
	case 0:
		return -1 - r.Intn(3)
	case 1:
		return 1 << 30
	case 2, 3, 4, 5:
		return 0
	case 6, 7:
		return n + r.Intn(3)
	default:
		return r.Intn(n + 1)
	}
}

// c16GenPre: a pre-populated record table: (len, cap), how its rows are stored and how wide they are (narrower than, as
// wide as and wider than the records of the generated texts, which have 1 to 4 fields).
func c16GenPre(r *rand.Rand, c *c16In) {
	c.PreCap = 1 + r.Intn(9)
	c.PreLen = r.Intn(c.PreCap + 1)
	if r.Intn(4) != 0 {
		c.Share = c16Shares[r.Intn(len(c16Shares))]
		c.PreW = r.Intn(6)
		if c.PreLen < 2 && r.Intn(3) != 0 { // sharing needs two rows
			c.PreLen = 2 + r.Intn(c.PreCap)
			if c.PreLen > c.PreCap {
				c.PreCap = c.PreLen
			}
		}
	}
}

// c16GenHist: one option set, 2 to 4 calls through the same consumer / producer value. Neighbouring calls differ in the
// text only, in the destination / source kind only, or in everything.
func c16GenHist(r *rand.Rand) c16In {
	var o c16Opts
	sep := ","
	if r.Intn(2) == 0 {
		o, sep = c16GenOpts(r)
	}
	text := func() string {
		if r.Intn(8) == 0 {
			return c16BadText(r, sep)
		}
		if r.Intn(8) == 0 {
			return c16Headed(r, sep, c16Text(r, sep, false))
		}
		return c16Text(r, sep, o.FPR < 0 && r.Intn(2) == 0)
	}
	first := text()
	switch r.Intn(5) {
	case 0:
		o.Skip = c16GenSkip(r, o, first)
	case 1:
		o.Skip = 0
	default: // header lines
		o.Skip = 1 + r.Intn(2)
	}
	buffered := []string{"bytes", "bytes", "string", "readerfrom", "binaryunmarshaler"}
	one := func(t string) c16In {
		c := c16In{Text: Bs(t)}
		if r.Intn(4) == 0 {
			c.Chunk = 1 + r.Intn(8)
		}
		if r.Intn(10) < 7 {
			c.Mode = "consume"
			switch r.Intn(3) {
			case 0:
				c.Dst = buffered[r.Intn(len(buffered))]
			case 1:
				c.Dst = "records"
			default:
				c.Dst = c16Dsts[r.Intn(8)]
			}
			if c.Dst == "records" && r.Intn(3) == 0 {
				c16GenPre(r, &c)
			}
		} else {
			c.Mode = "produce"
			c.Src = c16Srcs[r.Intn(8)]
			c.Ptr = r.Intn(3) == 0 && (c.Src == "records" || c.Src == "bytes" || c.Src == "string")
		}
		if (c.Src == "csvreader" || c.Dst == "csvwriter") && r.Intn(2) == 0 {
			c.Had = c16GenHad(r, o)
		}
		return c
	}
	in := c16In{Mode: "hist", Opts: o}
	n := 2 + r.Intn(3)
	in.Calls = append(in.Calls, one(first))
	for len(in.Calls) < n {
		prev := in.Calls[len(in.Calls)-1]
		var next c16In
		switch r.Intn(4) {
		case 0: // the same call again
			next = prev
		case 1: // same destination / source kind, another text
			next = prev
			next.Text = Bs(text())
		case 2: // same text, another kind
			next = one(string(prev.Text))
		default:
			next = one(text())
		}
		in.Calls = append(in.Calls, next)
	}
	return in
}

func (c16) Gen(r *rand.Rand, tier string, i int) any {
	if r.Intn(9) == 0 {
		return c16GenHist(r)
	}
	var o c16Opts
	sep := ","
	if r.Intn(3) != 0 {
		o, sep = c16GenOpts(r)
	}
	var text string
	if r.Intn(7) == 0 {
		text = c16BadText(r, sep)
	} else {
		text = c16Text(r, sep, o.FPR < 0 && r.Intn(2) == 0)
	}
	if r.Intn(6) == 0 {
		text = c16Headed(r, sep, text)
	}
	o.Skip = c16GenSkip(r, o, text)
	in := c16In{Text: Bs(text), Opts: o}
	if r.Intn(4) == 0 {
		in.Chunk = 1 + r.Intn(8)
	}
	switch k := r.Intn(10); {
	case k < 4:
		in.Mode = "consume"
		in.Dst = c16Dsts[r.Intn(8)]
		if r.Intn(3) == 0 {
			in.Dst = "records"
		}
	case k < 7:
		in.Mode = "produce"
		in.Src = c16Srcs[r.Intn(8)]
		in.Ptr = r.Intn(3) == 0 && (in.Src == "records" || in.Src == "bytes" || in.Src == "string")
	default:
		in.Mode = "pair"
		in.Src = c16Srcs[r.Intn(8)]
		in.Dst = c16Dsts[r.Intn(8)]
	}
	if in.Dst == "records" && r.Intn(2) == 0 {
		c16GenPre(r, &in)
		if in.Share != "" && r.Intn(4) == 0 {
			in.Elem = "named"
		}
	}
	if ((in.Mode != "produce" && in.Dst == "records") || (in.Mode == "produce" && in.Src == "records")) && in.PreCap == 0 && !in.Ptr && r.Intn(5) == 0 {
		in.Elem = []string{"named", "mystr", "row"}[r.Intn(3)]
	}
	if (in.Src == "csvreader" || in.Dst == "csvwriter") && r.Intn(2) == 0 {
		in.Had = c16GenHad(r, o)
	}
	if in.Mode != "pair" && in.Elem == "" && r.Intn(12) == 0 {
		nilable := map[string]bool{"csvwriter": true, "records": true, "bytes": true, "string": true, "csvreader": true}
		if nilable[in.Dst] || nilable[in.Src] {
			in.Nil = true
		}
	}
	return in
}

func (c16) Enumerate(tier string) []any {
	var out []any
	text := "h1,h2\na,\"b,1\"\n\"c\nd\",\"e\"\"f\"\n"
	// all 64 kind pairs, all 8+8 single steps, default options and one option set, on one text
	osets := []c16Opts{{}, {Reuse: true, Skip: 1, WComma: ';', CRLF: true}}
	for _, o := range osets {
		for _, d := range c16Dsts {
			out = append(out, c16In{Mode: "consume", Text: Bs(text), Opts: o, Dst: d})
		}
		for _, s := range c16Srcs {
			out = append(out, c16In{Mode: "produce", Text: Bs(text), Opts: o, Src: s})
			for _, d := range c16Dsts {
				out = append(out, c16In{Mode: "pair", Text: Bs(text), Opts: o, Src: s, Dst: d})
			}
		}
	}
	// every destination pre-state (len <= cap <= 5) x skip 0..n+2 for the record table
	for cp := 0; cp <= 5; cp++ {
		for ln := 0; ln <= cp; ln++ {
			for sk := 0; sk <= 5; sk++ {
				out = append(out, c16In{Mode: "consume", Text: Bs(text), Opts: c16Opts{Skip: sk, Reuse: sk%2 == 1}, Dst: "records", PreLen: ln, PreCap: cp})
			}
		}
	}
	// how the rows of a pre-populated table are stored x how wide they are (0..4; the records have 1, 2 and 3 fields) x
	// more / as many / fewer rows than records, [][]string and the named table type, with and without a skipped line
	for si, sh := range c16Shares {
		for w := 0; w <= 4; w++ {
			for li, ln := range []int{2, 3, 5} {
				in := c16In{Mode: "consume", Text: Bs("a,b\nc,d\ne,f\n"), Dst: "records", PreLen: ln, PreCap: ln + (w+li)%2, Share: sh, PreW: w}
				switch (si + w + li) % 4 {
				case 1:
					in.Text, in.Opts = Bs("a,b,c\nd,e,f\ng,h\n"), c16Opts{FPR: -1}
				case 2:
					in.Text, in.Opts = Bs("h\na,b,c\nd\ne,f\n"), c16Opts{FPR: -1, Skip: 1, Reuse: w%2 == 0}
				case 3:
					in.Elem = "named"
				}
				out = append(out, in)
			}
		}
	}
	// how the text begins: every head x every body, the kinds and five option sets taking turns; a UTF-8 byte order mark
	// with every destination and source kind
	hopts := []c16Opts{{}, {Lazy: true}, {Comment: '#'}, {Trim: true}, {Skip: 1, Reuse: true}}
	hn := 0
	for hi, head := range c16Heads {
		if hi > 0 && head == c16Heads[hi-1] {
			continue
		}
		for bi, body := range c16HeadBodies(",") {
			t := Bs(head + body)
			o := hopts[hn%len(hopts)]
			out = append(out, c16In{Mode: "consume", Text: t, Opts: o, Dst: c16Dsts[hn%8], Chunk: hn % 4})
			out = append(out, c16In{Mode: "produce", Text: t, Opts: o, Src: c16Srcs[hn%8], Chunk: hn % 4})
			out = append(out, c16In{Mode: "pair", Text: t, Opts: o, Src: c16Srcs[(hn/8)%8], Dst: c16Dsts[hn%8]})
			if hi == 0 && bi < 4 {
				for k := 0; k < 8; k++ {
					for _, o := range hopts[:3] {
						out = append(out, c16In{Mode: "consume", Text: t, Opts: o, Dst: c16Dsts[k]})
						out = append(out, c16In{Mode: "produce", Text: t, Opts: o, Src: c16Srcs[k]})
					}
				}
			}
			hn++
		}
	}
	// a caller's own *csv.Reader / *csv.Writer that carries settings from an earlier use: every flag alone and all together x
	// option sets that leave the flag off / turn it on / name their own separator, comment rune and field count, on texts where
	// each flag decides the outcome (misplaced quote, leading blanks, line ends); as single calls, pairs and inside a history
	// next to the io.Reader source on the same text
	hadTexts := []string{"a,b\nx\"y,z\n", "a, b\nc,  d\n", "h1,h2\n \"q\",w\nlast,row\n", "a;b\n#c;d\ne;f;g\n"}
	hads := []c16Had{{Lazy: true}, {Trim: true}, {Reuse: true}, {CRLF: true}, {Lazy: true, Trim: true, Reuse: true, CRLF: true}, {}}
	hadOpts := []c16Opts{{}, {Skip: 1}, {Lazy: true}, {Trim: true}, {Reuse: true, CRLF: true}, {Comma: ';', Comment: '#', FPR: -1, WComma: '|'}}
	for hi := range hads {
		for oi, o := range hadOpts {
			h := hads[hi]
			if o.Comma != 0 {
				h.Comma, h.Comment, h.FPR, h.WComma = '|', 'a', 2, '\t'
			}
			for ti, t := range hadTexts {
				out = append(out, c16In{Mode: "produce", Text: Bs(t), Opts: o, Src: "csvreader", Had: &h, Chunk: (hi + ti) % 3})
				out = append(out, c16In{Mode: "consume", Text: Bs(t), Opts: o, Dst: "csvwriter", Had: &h})
				if (hi+oi+ti)%3 == 0 {
					out = append(out, c16In{Mode: "pair", Text: Bs(t), Opts: o, Src: "csvreader", Dst: c16Dsts[(hi+oi+ti)%8], Had: &h})
					out = append(out, c16In{Mode: "hist", Opts: o, Calls: []c16In{
						{Mode: "produce", Text: Bs(t), Src: "csvreader", Had: &h}, {Mode: "produce", Text: Bs(t), Src: "reader"},
						{Mode: "consume", Text: Bs(t), Dst: "csvwriter", Had: &h}, {Mode: "produce", Text: Bs(t), Src: "csvreader"}}})
				}
			}
		}
	}
	for _, e := range []string{"named", "mystr", "row"} {
		out = append(out, c16In{Mode: "consume", Text: Bs(text), Dst: "records", Elem: e})
		out = append(out, c16In{Mode: "produce", Text: Bs(text), Src: "records", Elem: e})
	}
	// typed nil pointers
	for _, d := range []string{"csvwriter", "records", "bytes", "string"} {
		out = append(out, c16In{Mode: "consume", Text: Bs(text), Dst: d, Nil: true})
	}
	for _, s := range []string{"csvreader", "records", "bytes", "string"} {
		out = append(out, c16In{Mode: "produce", Text: Bs(text), Src: s, Nil: true})
	}
	// histories: every destination kind followed by every destination kind (another text, shorter and longer), then the
	// first call again; every source kind three times; with header lines to skip and without
	text2 := "k\nv1\nv2\n"
	text3 := "h1,h2,h3\nlonger,than,\"the first, text\"\nrow3,b,c\nrow4,e,f\nrow5,h,i\n"
	for hi, o := range []c16Opts{{Skip: 1}, {Reuse: true, WComma: ';'}} {
		for i, d1 := range c16Dsts {
			for j, d2 := range c16Dsts {
				if tier == "quick" && hi == 1 && (i+j)%2 == 1 {
					continue
				}
				other := text2
				if (i+j)%2 == 1 {
					other = text3
				}
				out = append(out, c16In{Mode: "hist", Opts: o, Calls: []c16In{
					{Mode: "consume", Text: Bs(text), Dst: d1}, {Mode: "consume", Text: Bs(other), Dst: d2}, {Mode: "consume", Text: Bs(text), Dst: d1}}})
				if d1 == "bytes" || d1 == "records" { // the destinations that may keep looking at the codec's storage: the other text too
					if other == text2 {
						other = text3
					} else {
						other = text2
					}
					out = append(out, c16In{Mode: "hist", Opts: o, Calls: []c16In{
						{Mode: "consume", Text: Bs(text), Dst: d1}, {Mode: "consume", Text: Bs(other), Dst: d2}}})
				}
			}
		}
		for _, sk := range c16Srcs {
			out = append(out, c16In{Mode: "hist", Opts: o, Calls: []c16In{
				{Mode: "produce", Text: Bs(text), Src: sk}, {Mode: "produce", Text: Bs(text2), Src: sk}, {Mode: "consume", Text: Bs(text3), Dst: "bytes"},
				{Mode: "produce", Text: Bs(text), Src: sk}}})
		}
	}
	for sk := 1; sk <= 4; sk++ {
		out = append(out, c16In{Mode: "hist", Opts: c16Opts{Skip: sk}, Calls: []c16In{
			{Mode: "consume", Text: Bs(text3), Dst: "records"}, {Mode: "consume", Text: Bs(text3), Dst: "string"},
			{Mode: "produce", Text: Bs(text3), Src: "string"}, {Mode: "consume", Text: Bs(text3), Dst: "records", PreLen: 1, PreCap: 3}}})
	}
	return out
}
