//go:build verif && (c19 || allprops)

package main

import (
	"encoding/json"
	"fmt"
	"io"
	"math/rand"
	"net/http/httptest"
	"path"
	"sort"
	"strings"

	"github.com/go-openapi/analysis"
	"github.com/go-openapi/errors"
	"github.com/go-openapi/loads"
	"github.com/go-openapi/runtime"
	"github.com/go-openapi/runtime/middleware"
	"github.com/go-openapi/runtime/middleware/untyped"
	"github.com/go-openapi/runtime/security"
)

// C19 — API validation passes exactly when the registrations match the description. One case =
// a generated description (global and per-operation consumes/produces, security definitions and
// requirements, operations) + a list of Register* calls; observed: the real analyzer's required sets,
// API.Validate()'s answer, and — when it is nil — what happens when every operation is sent a
// well-formed request through the real handler.

type c19Op struct {
	Method   string      `json:"method"` // upper case
	Path     string      `json:"path"`
	Consumes []Bs        `json:"consumes,omitempty"`
	Produces []Bs        `json:"produces,omitempty"`
	Security *[][]string `json:"security,omitempty"` // nil: not stated
}

type c19Def struct {
	Name string `json:"name"`
	Type string `json:"type"` // basic | apiKey
}

type c19Reg struct {
	Kind string `json:"kind"` // consumer | producer | operation | auth | nojson
	A    Bs     `json:"a,omitempty"`
	B    Bs     `json:"b,omitempty"`
}

type c19In struct {
	BasePath  string     `json:"base_path,omitempty"` // basePath of the description, as written
	GConsumes []Bs       `json:"consumes,omitempty"`
	GProduces []Bs       `json:"produces,omitempty"`
	GSecurity [][]string `json:"security,omitempty"`
	Defs      []c19Def   `json:"defs,omitempty"`
	Ops       []c19Op    `json:"ops"`
	Regs      []c19Reg   `json:"regs"`
	Variant   string     `json:"variant"`
}

type c19Fail struct {
	Section      string `json:"section"`
	Unspecified  []Bs   `json:"unspecified"`
	Unregistered []Bs   `json:"unregistered"`
}

type c19Served struct {
	Op      int    `json:"op"`
	CT      Bs     `json:"ct,omitempty"`
	Outcome int    `json:"outcome"` // 0 handler ran, 1 500 no consumer registered, 2 panic can't find a producer, 3 other, 4 not routed (404/405)
	Target  string `json:"target,omitempty"`
	Detail  string `json:"detail,omitempty"`
}

type c19Obs struct {
	Panicked   bool        `json:"panicked,omitempty"`
	Panic      string      `json:"panic,omitempty"`
	AnConsumes []Bs        `json:"an_consumes"`
	AnProduces []Bs        `json:"an_produces"`
	AnSchemes  []Bs        `json:"an_schemes"`
	AnOps      []Bs        `json:"an_ops"`
	Err        *c19Fail    `json:"err,omitempty"`
	OtherErr   string      `json:"other_err,omitempty"`
	Default    Bs          `json:"api_default"`
	Routed     []c19Routed `json:"routed,omitempty"`
	Served     []c19Served `json:"served,omitempty"`
}

type c19Routed struct {
	Op    int  `json:"op"`
	Found bool `json:"found"`
}

type c19 struct{}

func init() { register(c19{}) }

func (c19) ID() string        { return "C19" }
func (c19) CoqModule() string { return "Check_C19" }
func (c19) Rule() string {
	return "generated descriptions (0-2 global consumes/produces, 1-4 operations over GET/POST/PUT/DELETE x 4 path templates with 0-2 own consumes/produces, " +
		"base path absent or one of 8 spellings (root, trailing slash, dots, dashes, nested); templates of 1-3 segments with dots, dashes, underscores, tildes, at most one placeholder, or built around the base path (repeated as leading/trailing segments, substring of a segment); " +
		"0-3 security definitions basic/apiKey, global and per-operation requirements incl. empty, anonymous, AND/OR alternatives, undefined or unused schemes; media types lower-case mostly, " +
		"rarely with upper-case letters or parameters) x registration sets: exact, each single omission, each single addition, case variants of media types/methods/paths, JSON defaults kept or dropped, an operation registered under its full route, random subsets; " +
		"every declared operation of each validated API is looked up in the real router under base path + template, and (simple descriptions) sent a well-formed request (body with an admitted content type for POST/PUT, credentials for every scheme). " +
		"Non-trivial: at least two categories are non-empty, or validation fails, or an operation is exercised."
}

func (c19) Decode(raw json.RawMessage) (any, error) {
	var in c19In
	err := json.Unmarshal(raw, &in)
	return in, err
}

func (c19) Enumerate(tier string) []any { return nil }

// ---- description ----

func c19Doc(in c19In) string {
	paths := map[string]map[string]any{}
	for _, o := range in.Ops {
		op := map[string]any{"responses": map[string]any{"200": map[string]any{"description": "ok"}}}
		if len(o.Consumes) > 0 {
			op["consumes"] = bsList(o.Consumes)
		}
		if len(o.Produces) > 0 {
			op["produces"] = bsList(o.Produces)
		}
		if o.Security != nil {
			op["security"] = c19Sec(*o.Security)
		}
		if strings.Contains(o.Path, "{id}") {
			op["parameters"] = []any{map[string]any{"name": "id", "in": "path", "required": true, "type": "string"}}
		}
		if paths[o.Path] == nil {
			paths[o.Path] = map[string]any{}
		}
		paths[o.Path][strings.ToLower(o.Method)] = op
	}
	doc := map[string]any{"swagger": "2.0", "info": map[string]any{"title": "t", "version": "1"}, "paths": paths}
	if in.BasePath != "" {
		doc["basePath"] = in.BasePath
	}
	if len(in.GConsumes) > 0 {
		doc["consumes"] = bsList(in.GConsumes)
	}
	if len(in.GProduces) > 0 {
		doc["produces"] = bsList(in.GProduces)
	}
	if in.GSecurity != nil {
		doc["security"] = c19Sec(in.GSecurity)
	}
	if len(in.Defs) > 0 {
		defs := map[string]any{}
		for _, d := range in.Defs {
			if d.Type == "basic" {
				defs[d.Name] = map[string]any{"type": "basic"}
			} else {
				defs[d.Name] = map[string]any{"type": "apiKey", "in": "header", "name": "X-" + d.Name}
			}
		}
		doc["securityDefinitions"] = defs
	}
	b, _ := json.Marshal(doc)
	return string(b)
}

// the request target under which the description places an operation: base path followed by the template as
// written (the way a client builds it, not through the library's path.Join), the placeholder filled in
func c19Target(in c19In, o c19Op) string {
	return strings.ReplaceAll(strings.TrimSuffix(in.BasePath, "/")+o.Path, "{id}", "1")
}

func c19Sec(alts [][]string) []any {
	out := []any{}
	for _, alt := range alts {
		m := map[string]any{}
		for _, s := range alt {
			m[s] = []string{}
		}
		out = append(out, m)
	}
	return out
}

func c19AllMedia(in c19In) [][]Bs {
	out := [][]Bs{in.GConsumes, in.GProduces}
	for _, o := range in.Ops {
		out = append(out, o.Consumes, o.Produces)
	}
	return out
}

type c19Producer struct{}

func (c19Producer) Produce(w io.Writer, v interface{}) error { _, err := w.Write([]byte("ok")); return err }

func c19Sorted(xs []string) []Bs {
	ys := append([]string{}, xs...)
	sort.Strings(ys)
	return toBs(ys)
}

func (c19) Run(inAny any) any {
	in := inAny.(c19In)
	var obs c19Obs
	obs.Panicked, obs.Panic = recoverTo(func() {
		doc, err := loads.Analyzed(json.RawMessage(c19Doc(in)), "")
		if err != nil {
			panic(err)
		}
		an := analysis.New(doc.Spec())
		obs.AnConsumes = c19Sorted(an.RequiredConsumes())
		obs.AnProduces = c19Sorted(an.RequiredProduces())
		obs.AnSchemes = c19Sorted(an.RequiredSecuritySchemes())
		obs.AnOps = c19Sorted(an.OperationMethodPaths())

		api := untyped.NewAPI(doc)
		ran, ranKey := -1, ""
		for _, r := range in.Regs {
			switch r.Kind {
			case "consumer":
				api.RegisterConsumer(string(r.A), runtime.ByteStreamConsumer())
			case "producer":
				api.RegisterProducer(string(r.A), c19Producer{})
			case "operation":
				key := strings.ToUpper(string(r.A)) + " " + string(r.B)
				api.RegisterOperation(string(r.A), string(r.B), runtime.OperationHandlerFunc(func(interface{}) (interface{}, error) {
					ran++
					ranKey = key
					return "v", nil
				}))
			case "auth":
				name := string(r.A)
				typ := "basic"
				for _, d := range in.Defs {
					if d.Name == name {
						typ = d.Type
					}
				}
				if typ == "basic" {
					api.RegisterAuth(name, security.BasicAuth(func(u, p string) (interface{}, error) { return "principal", nil }))
				} else {
					api.RegisterAuth(name, security.APIKeyAuth("X-"+name, "header", func(string) (interface{}, error) { return "principal", nil }))
				}
			case "nojson":
				api.WithoutJSONDefaults()
			}
		}
		obs.Default = Bs(api.DefaultProduces)
		verr := api.Validate()
		if verr != nil {
			if f, ok := verr.(*errors.APIVerificationFailed); ok {
				obs.Err = &c19Fail{Section: f.Section, Unspecified: toBs(f.MissingSpecification), Unregistered: toBs(f.MissingRegistration)}
			} else {
				obs.OtherErr = verr.Error()
			}
			return
		}
		// every declared operation of a validated API must have a route (any description), ...
		ctx := middleware.NewContext(doc, api, nil)
		h := ctx.APIHandler(nil)
		for i, o := range in.Ops {
			req := httptest.NewRequest(o.Method, c19Target(in, o), nil)
			m, ok := ctx.LookupRoute(req)
			// the route of this very operation, not a placeholder route of another one that happens to fit
			obs.Routed = append(obs.Routed, c19Routed{Op: i, Found: ok && m != nil && m.PathPattern == path.Join(in.BasePath, o.Path)})
		}
		// ... and is then sent a well-formed request (the serving clause speaks about descriptions whose
		// media types are lower-case, parameter-free and wildcard-free only)
		for _, l := range c19AllMedia(in) {
			for _, mt := range l {
				m := string(mt)
				if m == "" || m != strings.ToLower(m) || strings.ContainsAny(m, ";*") {
					return
				}
			}
		}
		for i, o := range in.Ops {
			sv := c19Served{Op: i, Target: c19Target(in, o)}
			var body io.Reader
			if o.Method == "POST" || o.Method == "PUT" {
				cons := o.Consumes
				if len(cons) == 0 {
					cons = in.GConsumes
				}
				if len(cons) > 0 {
					sv.CT = cons[0]
				} else if api.DefaultConsumes != "" {
					sv.CT = Bs(api.DefaultConsumes)
				}
				if sv.CT != "" {
					body = strings.NewReader("{}")
				}
			}
			req := httptest.NewRequest(o.Method, sv.Target, body)
			if sv.CT != "" {
				req.Header.Set("Content-Type", string(sv.CT))
			}
			req.SetBasicAuth("u", "p")
			for _, d := range in.Defs {
				if d.Type == "apiKey" {
					req.Header.Set("X-"+d.Name, "k")
				}
			}
			rec := httptest.NewRecorder()
			before := ran
			p, msg := recoverTo(func() { h.ServeHTTP(rec, req) })
			switch {
			case p && strings.Contains(msg, "can't find a producer for"):
				sv.Outcome = 2
			case p:
				sv.Outcome, sv.Detail = 3, "panic: "+msg
			case rec.Code == 500 && strings.Contains(rec.Body.String(), "no consumer registered"):
				sv.Outcome = 1
			case ran == before+1 && ranKey == o.Method+" "+o.Path:
				sv.Outcome = 0
			case ran == before+1:
				sv.Outcome, sv.Detail = 3, "the handler of another operation ran: "+ranKey
			case ran == before && (rec.Code == 404 || rec.Code == 405):
				// the request never reached an operation: the router has no route for a declared operation
				sv.Outcome, sv.Detail = 4, fmt.Sprintf("status %d %s", rec.Code, strings.TrimSpace(rec.Body.String()))
			default:
				sv.Outcome, sv.Detail = 3, fmt.Sprintf("status %d %s", rec.Code, strings.TrimSpace(rec.Body.String()))
			}
			obs.Served = append(obs.Served, sv)
		}
	})
	return obs
}

// ---- Gallina ----

var c19Sections = map[string]int{"consumes": 0, "produces": 1, "operation": 2, "auth scheme": 3, "security definitions": 4}

func c19Alts(alts [][]string) string {
	return coqList(alts, func(a []string) string { return coqBytesList(a) })
}

func (c19) Coq(inAny any, obsAny any) string {
	in, obs := inAny.(c19In), obsAny.(c19Obs)
	regs := coqList(in.Regs, func(r c19Reg) string {
		switch r.Kind {
		case "consumer":
			return "RConsumer " + coqBytes(string(r.A))
		case "producer":
			return "RProducer " + coqBytes(string(r.A))
		case "operation":
			return "ROperation " + coqBytes(string(r.A)) + " " + coqBytes(string(r.B))
		case "auth":
			return "RAuth " + coqBytes(string(r.A))
		default:
			return "RWithoutJSON"
		}
	})
	ops := coqList(in.Ops, func(o c19Op) string {
		sec := "None"
		if o.Security != nil {
			sec = "(Some " + c19Alts(*o.Security) + ")"
		}
		return fmt.Sprintf("mkop %s %s %s %s %s", coqBytes(o.Method), coqBytes(o.Path), coqBytesList(bsList(o.Consumes)), coqBytesList(bsList(o.Produces)), sec)
	})
	defs := coqList(in.Defs, func(d c19Def) string { return coqBytes(d.Name) })
	desc := fmt.Sprintf("(mkdesc %s %s %s %s %s %s)", coqBytes(in.BasePath), coqBytesList(bsList(in.GConsumes)), coqBytesList(bsList(in.GProduces)), c19Alts(in.GSecurity), defs, ops)
	errT := "None"
	if obs.Err != nil {
		sec, ok := c19Sections[obs.Err.Section]
		if !ok {
			sec = 9
		}
		errT = fmt.Sprintf("(Some (mkfail %d %s %s))", sec, coqBytesList(bsList(obs.Err.Unspecified)), coqBytesList(bsList(obs.Err.Unregistered)))
	}
	if obs.Panicked || obs.OtherErr != "" {
		errT = "(Some (mkfail 9 [] []))"
	}
	served := coqList(obs.Served, func(s c19Served) string {
		return fmt.Sprintf("(%d, %s, %d)", s.Op, coqBytes(string(s.CT)), s.Outcome)
	})
	routed := coqList(obs.Routed, func(s c19Routed) string { return fmt.Sprintf("(%d, %s)", s.Op, coqBool(s.Found)) })
	return fmt.Sprintf("CValidate %s %s %s %s %s %s %s %s %s", regs, desc, coqBytesList(bsList(obs.AnConsumes)), coqBytesList(bsList(obs.AnProduces)),
		coqBytesList(bsList(obs.AnSchemes)), coqBytesList(bsList(obs.AnOps)), errT, routed, served)
}

func (c19) Classify(inAny any, obsAny any) []string {
	in, obs := inAny.(c19In), obsAny.(c19Obs)
	if obs.Err != nil || obs.Panicked || obs.OtherErr != "" {
		return nil
	}
	// a validated API: every operation that was not routed or not served must be explained by one of the open findings,
	// else the case is a new violation
	unrouted := map[int]bool{}
	for _, rt := range obs.Routed {
		if !rt.Found {
			unrouted[rt.Op] = true
		}
	}
	outcome := map[int]int{}
	for _, sv := range obs.Served {
		outcome[sv.Op] = sv.Outcome
	}
	kf := map[string]bool{}
	for i, o := range in.Ops {
		k, served := outcome[i]
		switch {
		case !unrouted[i] && k == 0:
		case !unrouted[i] && k == 2 && obs.Default == "":
			kf["validate.no_produces_no_default_producer"] = true
		case unrouted[i] && (!served || k == 4) && path.Clean(o.Path) != o.Path:
			kf["validate.template_not_clean"] = true
		default:
			return nil
		}
	}
	var out []string
	for k := range kf {
		out = append(out, k)
	}
	sort.Strings(out)
	return out
}

func (c19) Category(inAny any, obsAny any) (string, bool) {
	in, obs := inAny.(c19In), obsAny.(c19Obs)
	res := "valid"
	if obs.Err != nil {
		res = "fails-" + strings.ReplaceAll(obs.Err.Section, " ", "-")
		switch {
		case len(obs.Err.Unspecified) > 0 && len(obs.Err.Unregistered) > 0:
			res += "/both"
		case len(obs.Err.Unspecified) > 0:
			res += "/superfluous"
		default:
			res += "/missing"
		}
	} else {
		worst := 0
		for _, s := range obs.Served {
			if s.Outcome > worst {
				worst = s.Outcome
			}
		}
		unrouted, dots := 0, 0
		for _, rt := range obs.Routed {
			if !rt.Found {
				unrouted++
			}
		}
		b := strings.Trim(in.BasePath, "/")
		for _, o := range in.Ops {
			if strings.Contains(o.Path, ".") {
				dots = 1
			}
			if b != "" && strings.Contains(o.Path, b) {
				dots |= 2 // the base path occurs inside a template
			}
		}
		bc := "none"
		switch {
		case in.BasePath == "":
		case in.BasePath == "/":
			bc = "root"
		case strings.HasSuffix(in.BasePath, "/"):
			bc = "trailing-slash"
		case strings.Contains(in.BasePath, "."):
			bc = "dotted"
		default:
			bc = "plain"
		}
		res = fmt.Sprintf("valid/served-%d/worst-%d/base-%s/dots-or-base-in-template-%d", len(obs.Served), worst, bc, dots)
		if unrouted > 0 {
			res += fmt.Sprintf("/unrouted-%d", unrouted)
		}
	}
	if obs.Panicked {
		res = "panic"
	}
	return in.Variant + "/" + res, true
}

// ---- generation ----

var c19Media = []string{"application/json", "text/plain", "application/xml", "text/csv", "application/octet-stream"}
var c19Odd = []string{"Text/Plain", "text/plain; charset=utf-8", "application/JSON", "text/*"}
var c19Paths = []string{"/a", "/b/{id}", "/c/d", "/e"}

// base paths as a description may write them: absent, the root, with and without a trailing slash, with dots,
// dashes and underscores, nested
var c19Bases = []string{"", "/", "/api", "/api/", "/a.b", "/v1.0", "/api/v2", "/x-y_z/"}

// literal segments of operation paths: plain letters, dots (extension, version, leading, several), dashes,
// underscores, tildes, and the words the base paths are made of
var c19Segs = []string{"a", "b", "c", "d", "e", "items", "items.json", "v1.0", "x.y.z", ".well-known", "a-b", "c_d", "~u", "t~", "api", "a.b", "v2", "x-y_z", "apiary", "a.bc"}

// c19Template draws the path template of an operation: one of the four plain ones, or 1-3 segments of which at most one
// is the placeholder, or a template built around the base path (the base path repeated as leading segments, as
// trailing segments, or as a substring of a segment)
func c19Template(r *rand.Rand, base string) string {
	t := c19CleanTemplate(r, base)
	if r.Intn(30) == 0 {
		return "/" // the root template
	}
	if r.Intn(40) == 0 { // rarely a template that path.Clean would change (F-C19-2)
		switch r.Intn(4) {
		case 0:
			return t + "/" + "/x"
		case 1:
			return t + "/./y"
		default:
			return t + "/"
		}
	}
	return t
}

func c19CleanTemplate(r *rand.Rand, base string) string {
	seg := func() string { return c19Segs[r.Intn(len(c19Segs))] }
	switch v := r.Intn(10); {
	case v < 3:
		return c19Paths[r.Intn(len(c19Paths))]
	case v < 8:
		n := 1 + r.Intn(3)
		ph := -1
		if r.Intn(3) == 0 {
			ph = r.Intn(n)
		}
		t := ""
		for k := 0; k < n; k++ {
			if k == ph {
				t += "/{id}"
			} else {
				t += "/" + seg()
			}
		}
		return t
	default:
		b := strings.Trim(base, "/")
		if b == "" {
			b = []string{"api", "a.b", "v1.0"}[r.Intn(3)]
		}
		switch r.Intn(5) {
		case 0:
			return "/" + b
		case 1:
			return "/" + b + "/" + seg()
		case 2:
			return "/" + seg() + "/" + b
		case 3:
			return "/" + seg() + b + "/{id}"
		default:
			return "/" + b + "/{id}/" + b
		}
	}
}
var c19Meths = []string{"GET", "POST", "PUT", "DELETE"}
var c19Schemes = []string{"basic", "key", "other"}

func c19MediaList(r *rand.Rand, max int) []Bs {
	n := r.Intn(max + 1)
	var out []Bs
	for i := 0; i < n; i++ {
		mt := c19Media[r.Intn(len(c19Media))]
		if r.Intn(25) == 0 {
			mt = c19Odd[r.Intn(len(c19Odd))]
		}
		out = append(out, Bs(mt))
	}
	return out
}

func c19Security(r *rand.Rand, names []string) [][]string {
	n := r.Intn(3)
	out := [][]string{}
	for i := 0; i < n; i++ {
		alt := []string{}
		switch r.Intn(6) {
		case 0: // anonymous
		default:
			k := 1 + r.Intn(2)
			seen := map[string]bool{}
			for j := 0; j < k; j++ {
				s := names[r.Intn(len(names))]
				if !seen[s] {
					seen[s] = true
					alt = append(alt, s)
				}
			}
		}
		out = append(out, alt)
	}
	return out
}

func c19Set(xs ...[]Bs) []string {
	seen := map[string]bool{}
	var out []string
	for _, l := range xs {
		for _, x := range l {
			if !seen[string(x)] {
				seen[string(x)] = true
				out = append(out, string(x))
			}
		}
	}
	sort.Strings(out)
	return out
}

func (c19) Gen(r *rand.Rand, tier string, i int) any {
	var in c19In
	if r.Intn(5) >= 2 { // two in five descriptions have no base path
		in.BasePath = c19Bases[r.Intn(len(c19Bases))]
	}
	in.GConsumes = c19MediaList(r, 2)
	in.GProduces = c19MediaList(r, 2)
	nd := r.Intn(4)
	for j := 0; j < nd; j++ {
		in.Defs = append(in.Defs, c19Def{Name: c19Schemes[j], Type: []string{"basic", "apiKey"}[j%2]})
	}
	names := []string{}
	for _, d := range in.Defs {
		names = append(names, d.Name)
	}
	if r.Intn(10) == 0 || len(names) == 0 {
		names = append(names, "ghost") // a requirement naming an undefined scheme
	}
	if r.Intn(2) == 0 {
		in.GSecurity = c19Security(r, names)
	}
	nops := 1 + r.Intn(4)
	seen := map[string]bool{}
	for j := 0; j < nops; j++ {
		o := c19Op{Method: c19Meths[r.Intn(4)], Path: c19Template(r, in.BasePath)}
		if seen[o.Method+o.Path] {
			continue
		}
		seen[o.Method+o.Path] = true
		if r.Intn(2) == 0 {
			o.Consumes = c19MediaList(r, 2)
		}
		if r.Intn(2) == 0 {
			o.Produces = c19MediaList(r, 2)
		}
		if r.Intn(3) == 0 {
			s := c19Security(r, names)
			o.Security = &s
		}
		in.Ops = append(in.Ops, o)
	}
	// make most descriptions use every definition (else validation always fails in the last category)
	if r.Intn(4) != 0 && len(in.Defs) > 0 {
		all := []string{}
		for _, d := range in.Defs {
			all = append(all, d.Name)
		}
		in.GSecurity = append(in.GSecurity, all)
	}

	// exact registrations
	cons := c19Set(in.GConsumes)
	prods := c19Set(in.GProduces)
	var allC, allP [][]Bs
	allC, allP = append(allC, in.GConsumes), append(allP, in.GProduces)
	schemes := map[string]bool{}
	for _, alt := range in.GSecurity {
		for _, s := range alt {
			schemes[s] = true
		}
	}
	for _, o := range in.Ops {
		allC, allP = append(allC, o.Consumes), append(allP, o.Produces)
		if o.Security != nil {
			for _, alt := range *o.Security {
				for _, s := range alt {
					schemes[s] = true
				}
			}
		}
	}
	cons, prods = c19Set(allC...), c19Set(allP...)
	var regs []c19Reg
	regs = append(regs, c19Reg{Kind: "nojson"})
	for _, c := range cons {
		regs = append(regs, c19Reg{Kind: "consumer", A: Bs(c)})
	}
	for _, p := range prods {
		regs = append(regs, c19Reg{Kind: "producer", A: Bs(p)})
	}
	for _, o := range in.Ops {
		regs = append(regs, c19Reg{Kind: "operation", A: Bs(o.Method), B: Bs(o.Path)})
	}
	var sn []string
	for s := range schemes {
		sn = append(sn, s)
	}
	sort.Strings(sn)
	for _, s := range sn {
		regs = append(regs, c19Reg{Kind: "auth", A: Bs(s)})
	}
	in.Variant = "exact"
	switch v := r.Intn(24); {
	case v < 8: // exact
	case v < 12: // single omission
		in.Variant = "omit"
		k := r.Intn(len(regs))
		in.Variant += "-" + regs[k].Kind
		regs = append(append([]c19Reg{}, regs[:k]...), regs[k+1:]...)
	case v < 16: // single addition
		in.Variant = "add"
		switch r.Intn(4) {
		case 0:
			regs = append(regs, c19Reg{Kind: "consumer", A: Bs(c19Media[r.Intn(len(c19Media))])})
		case 1:
			regs = append(regs, c19Reg{Kind: "producer", A: Bs(c19Media[r.Intn(len(c19Media))])})
		case 2:
			regs = append(regs, c19Reg{Kind: "operation", A: Bs(c19Meths[r.Intn(4)]), B: Bs(c19Template(r, in.BasePath))})
		default:
			regs = append(regs, c19Reg{Kind: "auth", A: Bs([]string{"basic", "key", "other", "extra"}[r.Intn(4)])})
		}
	case v < 19: // case variants
		in.Variant = "case"
		k := r.Intn(len(regs))
		switch regs[k].Kind {
		case "consumer", "producer":
			regs[k].A = Bs(strings.ToUpper(string(regs[k].A)))
		case "operation":
			if r.Intn(3) == 0 {
				regs[k].B = Bs(strings.ToUpper(string(regs[k].B)))
			} else {
				regs[k].A = Bs(strings.ToLower(string(regs[k].A)))
			}
		case "auth":
			regs[k].A = Bs(strings.ToUpper(string(regs[k].A)))
		}
	case v < 21: // JSON defaults kept
		in.Variant = "keepjson"
		regs = regs[1:]
	case v < 22: // one operation registered under its full route (base path included) instead of its template
		in.Variant = "fullpath"
		for k := range regs {
			if regs[k].Kind == "operation" {
				regs[k].B = Bs(path.Join(in.BasePath, string(regs[k].B)))
				break
			}
		}
	default: // random subset + duplicates
		in.Variant = "random"
		var out []c19Reg
		for _, g := range regs {
			if r.Intn(5) != 0 {
				out = append(out, g)
			}
			if r.Intn(8) == 0 {
				out = append(out, g)
			}
		}
		if len(out) == 0 {
			out = regs[:1]
		}
		regs = out
	}
	in.Regs = regs
	return in
}
