//go:build verif && (c19 || allprops)

package main

import (
	"encoding/json"
	"fmt"
	"io"
	"math/rand"
	"mime"
	"net/http"
	"net/http/httptest"
	"path"
	"reflect"
	"sort"
	"strings"

	"github.com/go-openapi/analysis"
	"github.com/go-openapi/errors"
	"github.com/go-openapi/loads"
	"github.com/go-openapi/runtime"
	"github.com/go-openapi/runtime/middleware"
	"github.com/go-openapi/runtime/middleware/untyped"
	"github.com/go-openapi/runtime/security"
)

// C19 — API validation passes exactly when the registrations match the description. One case =
// a generated description (global and per-operation consumes/produces, security definitions and
// requirements, operations) + a list of Register* calls; observed: the real analyzer's required sets,
// API.Validate()'s answer, and — when it is nil — what happens when every operation is sent a
// well-formed request through the real handler.

type c19Op struct {
	Method   string      `json:"method"` // upper case
	Path     string      `json:"path"`
	Consumes []Bs        `json:"consumes,omitempty"`
	Produces []Bs        `json:"produces,omitempty"`
	Security *[][]string `json:"security,omitempty"` // nil: not stated
	// the operation declares an (optional) formData parameter: its consumes list holds form media types only and every
	// request to it posts a well-formed non-empty form of one of them
	Form bool `json:"form,omitempty"`
}

type c19Def struct {
	Name string `json:"name"`
	Type string `json:"type"` // basic | apiKey
}

type c19Reg struct {
	Kind string `json:"kind"` // consumer | producer | operation | auth | nojson
	A    Bs     `json:"a,omitempty"`
	B    Bs     `json:"b,omitempty"`
}

// one request of the history sent to ONE handler of a validated API
type c19Req struct {
	Op     int      `json:"op"`               // index of the operation addressed
	CT     Bs       `json:"ct,omitempty"`     // Content-Type header as sent; empty: no body
	Accept []Bs     `json:"accept,omitempty"` // Accept header lines; none: header absent
	Creds  []string `json:"creds,omitempty"`  // schemes for which the request carries valid credentials
}

type c19In struct {
	BasePath  string     `json:"base_path,omitempty"` // basePath of the description, as written
	GConsumes []Bs       `json:"consumes,omitempty"`
	GProduces []Bs       `json:"produces,omitempty"`
	GSecurity [][]string `json:"security,omitempty"`
	Defs      []c19Def   `json:"defs,omitempty"`
	Ops       []c19Op    `json:"ops"`
	Regs      []c19Reg   `json:"regs"`
	// the history of requests served by one handler when the API validates (absent: one plain request per operation)
	Reqs []c19Req `json:"reqs,omitempty"`
	// later batches of registrations made on the SAME API value, Validate() called again after each
	Steps   [][]c19Reg `json:"steps,omitempty"`
	Variant string     `json:"variant"`
}

type c19Fail struct {
	Section      string `json:"section"`
	Unspecified  []Bs   `json:"unspecified"`
	Unregistered []Bs   `json:"unregistered"`
}

// what came back for one request
type c19Res struct {
	// 0 the handler of that operation ran and 200 was written, 1 500 no consumer registered, 2 panic can't find a producer, 3 other,
	// 4 not routed (404/405), 5 415, 6 406, 7 401
	Outcome  int    `json:"outcome"`
	CType    Bs     `json:"ctype,omitempty"`    // outcome 0: Content-Type of the response
	Producer Bs     `json:"producer,omitempty"` // outcome 0: key of the producer that wrote the body
	Ran      string `json:"ran,omitempty"`      // METHOD template of the operation whose handler ran, when it is not the one addressed
	Detail   string `json:"detail,omitempty"`
}

type c19Served struct {
	Req    c19Req `json:"req"`
	Target string `json:"target,omitempty"`
	Shared c19Res `json:"shared"` // on the handler that serves the whole history
	Fresh  c19Res `json:"fresh"`  // the same request on a fresh API value + context + handler
}

// Validate() after a later batch of registrations: on the API value that has the history, and on a fresh value
// given every registration made so far
type c19Ans struct {
	Err      *c19Fail `json:"err,omitempty"`
	OtherErr string   `json:"other_err,omitempty"`
}

type c19More struct {
	Shared c19Ans `json:"shared"`
	Fresh  c19Ans `json:"fresh"`
}

type c19Obs struct {
	Panicked   bool        `json:"panicked,omitempty"`
	Panic      string      `json:"panic,omitempty"`
	AnConsumes []Bs        `json:"an_consumes"`
	AnProduces []Bs        `json:"an_produces"`
	AnSchemes  []Bs        `json:"an_schemes"`
	AnOps      []Bs        `json:"an_ops"`
	Err        *c19Fail    `json:"err,omitempty"`
	OtherErr   string      `json:"other_err,omitempty"`
	Default    Bs          `json:"api_default"`
	Routed     []c19Routed `json:"routed,omitempty"`
	Served     []c19Served `json:"served,omitempty"`
	More       []c19More   `json:"more,omitempty"`
}

type c19Routed struct {
	Op    int  `json:"op"`
	Found bool `json:"found"`
}

type c19 struct{}

func init() { register(c19{}) }

func (c19) ID() string        { return "C19" }
func (c19) CoqModule() string { return "Check_C19" }
func (c19) Rule() string {
	return "generated descriptions (0-2 global consumes/produces, 1-4 operations over all seven methods GET/POST/PUT/DELETE/OPTIONS/HEAD/PATCH x path templates with 0-2 own consumes/produces, " +
		"base path absent or one of 8 spellings (root, trailing slash, dots, dashes, nested); templates of 1-3 segments with dots, dashes, underscores, tildes, at most one placeholder, or built around the base path (repeated as leading/trailing segments, substring of a segment), one template in seven next to a path the standard entry point answers itself ({base}/docs, swagger.json: below it, above it, a near spelling - never the reserved path itself); " +
		"0-3 security definitions basic/apiKey, global and per-operation requirements incl. empty, anonymous, AND/OR alternatives, undefined or unused schemes; media types lower-case mostly, " +
		"rarely with upper-case letters or parameters) x registration sets: exact, each single omission, each single addition, case variants of media types/methods/paths, in half of the descriptions every operation registered under a spelling of its method of its own (upper, lower, capitalised, random case), JSON defaults kept or dropped, an operation registered under its full route, random subsets; " +
		"every declared operation of each validated API is looked up in the real router under base path + template, and (simple descriptions) ONE handler is sent a history of requests: 2-3 rounds over all operations, each round in another order, " +
		"in round k the k-th alternative requirement satisfied (exactly its schemes), the body's content type one the route admits spelled as declared / in mixed case / with parameters, the Accept header absent, the wildcard, an offer, its type wildcard, weighted lists, two lines - in half of the rounds the same for all operations; " +
		"one operation in four is a form operation (an optional formData parameter, consumes application/x-www-form-urlencoded and/or multipart/form-data; the exact registrations hold the consumers Validate demands for them) and is always posted a well-formed non-empty form of a media type it lists (multipart under the boundary of the header), one in eight lists a form media type next to its other types; " +
		"every operation is requested with its own method (a HEAD answer carries no body: status, Content-Type, the handler that ran, and an EMPTY body are required); one operation in three shares its path with another one (other method, own produces); after the first round 1 request in 12 comes without credentials; every request is repeated on a fresh API value + context + handler, and the responses of the history are read again at its end; " +
		"2 cases in 5 go on with 1-3 further batches of registrations on the SAME API value (nothing, a superfluous authenticator/consumer/producer/operation, the JSON defaults dropped, a registration repeated, the exact set), Validate() after each, compared with a fresh API value given all registrations so far. " +
		"Non-trivial: at least two categories are non-empty, or validation fails, or an operation is exercised."
}

func (c19) Decode(raw json.RawMessage) (any, error) {
	var in c19In
	err := json.Unmarshal(raw, &in)
	return in, err
}

func (c19) Enumerate(tier string) []any { return nil }

// ---- description ----

func c19Doc(in c19In) string {
	paths := map[string]map[string]any{}
	for _, o := range in.Ops {
		op := map[string]any{"responses": map[string]any{"200": map[string]any{"description": "ok"}}}
		if len(o.Consumes) > 0 {
			op["consumes"] = bsList(o.Consumes)
		}
		if len(o.Produces) > 0 {
			op["produces"] = bsList(o.Produces)
		}
		if o.Security != nil {
			op["security"] = c19Sec(*o.Security)
		}
		var params []any
		if strings.Contains(o.Path, "{id}") {
			params = append(params, map[string]any{"name": "id", "in": "path", "required": true, "type": "string"})
		}
		if o.Form {
			params = append(params, map[string]any{"name": "f", "in": "formData", "type": "string"})
		}
		if len(params) > 0 {
			op["parameters"] = params
		}
		if paths[o.Path] == nil {
			paths[o.Path] = map[string]any{}
		}
		paths[o.Path][strings.ToLower(o.Method)] = op
	}
	doc := map[string]any{"swagger": "2.0", "info": map[string]any{"title": "t", "version": "1"}, "paths": paths}
	if in.BasePath != "" {
		doc["basePath"] = in.BasePath
	}
	if len(in.GConsumes) > 0 {
		doc["consumes"] = bsList(in.GConsumes)
	}
	if len(in.GProduces) > 0 {
		doc["produces"] = bsList(in.GProduces)
	}
	if in.GSecurity != nil {
		doc["security"] = c19Sec(in.GSecurity)
	}
	if len(in.Defs) > 0 {
		defs := map[string]any{}
		for _, d := range in.Defs {
			if d.Type == "basic" {
				defs[d.Name] = map[string]any{"type": "basic"}
			} else {
				defs[d.Name] = map[string]any{"type": "apiKey", "in": "header", "name": "X-" + d.Name}
			}
		}
		doc["securityDefinitions"] = defs
	}
	b, _ := json.Marshal(doc)
	return string(b)
}

// the request target under which the description places an operation: base path followed by the template as
// written (the way a client builds it, not through the library's path.Join), the placeholder filled in
func c19Target(in c19In, o c19Op) string {
	return strings.ReplaceAll(strings.TrimSuffix(in.BasePath, "/")+o.Path, "{id}", "1")
}

func c19Sec(alts [][]string) []any {
	out := []any{}
	for _, alt := range alts {
		m := map[string]any{}
		for _, s := range alt {
			m[s] = []string{}
		}
		out = append(out, m)
	}
	return out
}

func c19AllMedia(in c19In) [][]Bs {
	out := [][]Bs{in.GConsumes, in.GProduces}
	for _, o := range in.Ops {
		out = append(out, o.Consumes, o.Produces)
	}
	return out
}

// a producer that writes the key it was registered under
type c19Producer struct{ key string }

func (p c19Producer) Produce(w io.Writer, v interface{}) error { _, err := w.Write([]byte(p.key)); return err }

func c19Sorted(xs []string) []Bs {
	ys := append([]string{}, xs...)
	sort.Strings(ys)
	return toBs(ys)
}

// one API value with its registrations, and (once built) the context and handler serving it
type c19Inst struct {
	api    *untyped.API
	ctx    *middleware.Context
	h      http.Handler
	ran    int
	ranKey string
}

func c19DefType(in c19In, name string) string {
	for _, d := range in.Defs {
		if d.Name == name {
			return d.Type
		}
	}
	return "basic"
}

func (x *c19Inst) register(in c19In, regs []c19Reg) {
	for _, r := range regs {
		switch r.Kind {
		case "consumer":
			x.api.RegisterConsumer(string(r.A), runtime.ByteStreamConsumer())
		case "producer":
			x.api.RegisterProducer(string(r.A), c19Producer{strings.ToLower(string(r.A))})
		case "operation":
			key := strings.ToUpper(string(r.A)) + " " + string(r.B)
			x.api.RegisterOperation(string(r.A), string(r.B), runtime.OperationHandlerFunc(func(interface{}) (interface{}, error) {
				x.ran++
				x.ranKey = key
				return "v", nil
			}))
		case "auth":
			name := string(r.A)
			if c19DefType(in, name) == "basic" {
				// one Authorization header serves every basic scheme: the user name lists the schemes it is good for
				x.api.RegisterAuth(name, security.BasicAuth(func(u, p string) (interface{}, error) {
					for _, s := range strings.Split(u, "+") {
						if s == name {
							return "principal", nil
						}
					}
					return nil, nil
				}))
			} else {
				x.api.RegisterAuth(name, security.APIKeyAuth("X-"+name, "header", func(string) (interface{}, error) { return "principal", nil }))
			}
		case "nojson":
			x.api.WithoutJSONDefaults()
		}
	}
}

func c19NewInst(doc *loads.Document, in c19In, batches ...[]c19Reg) *c19Inst {
	x := &c19Inst{api: untyped.NewAPI(doc), ran: -1}
	for _, b := range batches {
		x.register(in, b)
	}
	return x
}

func (x *c19Inst) serve(doc *loads.Document) {
	x.ctx = middleware.NewContext(doc, x.api, nil)
	x.h = x.ctx.APIHandler(nil)
}

func c19Answer(verr error) c19Ans {
	var a c19Ans
	if verr != nil {
		if f, ok := verr.(*errors.APIVerificationFailed); ok {
			a.Err = &c19Fail{Section: f.Section, Unspecified: toBs(f.MissingSpecification), Unregistered: toBs(f.MissingRegistration)}
		} else {
			a.OtherErr = verr.Error()
		}
	}
	return a
}

// the media types the route of an operation admits / offers: its own or the global ones, then the API default
func c19RouteMedia(own, global []Bs, def string) []string {
	l := own
	if len(l) == 0 {
		l = global
	}
	out := c19Set(l)
	if def != "" {
		for _, m := range out {
			if strings.EqualFold(m, def) {
				return out
			}
		}
		out = append(out, def)
	}
	return out
}

func c19Alternatives(in c19In, o c19Op) [][]string {
	if o.Security != nil {
		return *o.Security
	}
	return in.GSecurity
}

// the plain history: every operation once, in order; a body with the first admitted content type for POST/PUT, credentials for every scheme
func c19DefaultReqs(in c19In, def string) []c19Req {
	var out []c19Req
	for i, o := range in.Ops {
		rq := c19Req{Op: i}
		if c19BodyMethod(o.Method) || o.Form {
			if adm := c19RouteMedia(o.Consumes, in.GConsumes, def); len(adm) > 0 {
				l := o.Consumes
				if len(l) == 0 {
					l = in.GConsumes
				}
				if len(l) > 0 {
					rq.CT = l[0]
				} else {
					rq.CT = Bs(adm[0])
				}
			}
		}
		for _, d := range in.Defs {
			rq.Creds = append(rq.Creds, d.Name)
		}
		out = append(out, rq)
	}
	return out
}

func c19Request(in c19In, rq c19Req) (*http.Request, string) {
	o := in.Ops[rq.Op]
	target := c19Target(in, o)
	var body io.Reader
	ct := string(rq.CT)
	if rq.CT != "" {
		ct, body = c19Body(ct)
	}
	req := httptest.NewRequest(o.Method, target, body)
	if rq.CT != "" {
		req.Header.Set("Content-Type", ct)
	}
	for _, a := range rq.Accept {
		req.Header.Add("Accept", string(a))
	}
	var basics []string
	for _, s := range rq.Creds {
		known := false
		for _, d := range in.Defs {
			known = known || d.Name == s
		}
		switch {
		case !known:
		case c19DefType(in, s) == "basic":
			basics = append(basics, s)
		default:
			req.Header.Set("X-"+s, "k")
		}
	}
	if len(basics) > 0 {
		req.SetBasicAuth(strings.Join(basics, "+"), "p")
	}
	return req, target
}

var c19FormMedia = []string{"application/x-www-form-urlencoded", "multipart/form-data"}

func c19IsForm(mt string) bool { return mt == c19FormMedia[0] || mt == c19FormMedia[1] }

// c19Body: the Content-Type header as sent and the body for a request that announces ct. A form media type gets a
// well-formed non-empty form (a multipart one under the boundary the header names; a header without one is given one),
// anything else a small JSON document.
func c19Body(ct string) (string, io.Reader) {
	mt, ps, err := mime.ParseMediaType(ct)
	switch {
	case err == nil && mt == "multipart/form-data":
		b := ps["boundary"]
		if b == "" {
			b = "xyz"
			ct += "; boundary=xyz"
		}
		return ct, strings.NewReader("--" + b + "\r\nContent-Disposition: form-data; name=\"f\"\r\n\r\nv1\r\n--" + b +
			"\r\nContent-Disposition: form-data; name=\"g\"\r\n\r\nv2\r\n--" + b + "--\r\n")
	case err == nil && mt == "application/x-www-form-urlencoded":
		return ct, strings.NewReader("f=v1&g=v2")
	}
	return ct, strings.NewReader("{}")
}

// what a recorder holds for a request the handler of which ran
func c19Produced(rec *httptest.ResponseRecorder) (Bs, Bs) {
	body := rec.Body.String()
	if body == "\"v\"\n" { // the JSON producer NewAPI loads by default
		body = "application/json"
	}
	return Bs(rec.Header().Get("Content-Type")), Bs(body)
}

func (x *c19Inst) do(in c19In, rq c19Req) (c19Res, *httptest.ResponseRecorder, string) {
	var res c19Res
	if rq.Op < 0 || rq.Op >= len(in.Ops) {
		return c19Res{Outcome: 3, Detail: "no such operation"}, nil, ""
	}
	o := in.Ops[rq.Op]
	req, target := c19Request(in, rq)
	rec := httptest.NewRecorder()
	before := x.ran
	p, msg := recoverTo(func() { x.h.ServeHTTP(rec, req) })
	status := fmt.Sprintf("status %d %s", rec.Code, strings.TrimSpace(rec.Body.String()))
	switch {
	case p && strings.Contains(msg, "can't find a producer for"):
		res.Outcome, res.Detail = 2, msg
	case p:
		res.Outcome, res.Detail = 3, "panic: "+msg
	case rec.Code == 500 && strings.Contains(rec.Body.String(), "no consumer registered"):
		res.Outcome, res.Detail = 1, status
	case x.ran == before+1 && x.ranKey == o.Method+" "+o.Path && rec.Code == 200:
		res.Outcome = 0
		res.CType, res.Producer = c19Produced(rec)
	case x.ran == before+1 && x.ranKey == o.Method+" "+o.Path:
		res.Outcome, res.Detail = 3, "the handler ran, then "+status
	case x.ran != before:
		res.Outcome, res.Ran, res.Detail = 3, x.ranKey, "the handler of another operation ran: "+x.ranKey
	case rec.Code == 404 || rec.Code == 405:
		// the request never reached an operation: the router has no route for a declared operation
		res.Outcome, res.Detail = 4, status
	case rec.Code == 415:
		res.Outcome, res.Detail = 5, status
	case rec.Code == 406:
		res.Outcome, res.Detail = 6, status
	case rec.Code == 401:
		res.Outcome, res.Detail = 7, status
	default:
		res.Outcome, res.Detail = 3, status
	}
	return res, rec, target
}

func (c19) Run(inAny any) any {
	in := inAny.(c19In)
	var obs c19Obs
	obs.Panicked, obs.Panic = recoverTo(func() {
		doc, err := loads.Analyzed(json.RawMessage(c19Doc(in)), "")
		if err != nil {
			panic(err)
		}
		an := analysis.New(doc.Spec())
		obs.AnConsumes = c19Sorted(an.RequiredConsumes())
		obs.AnProduces = c19Sorted(an.RequiredProduces())
		obs.AnSchemes = c19Sorted(an.RequiredSecuritySchemes())
		obs.AnOps = c19Sorted(an.OperationMethodPaths())

		x := c19NewInst(doc, in, in.Regs)
		obs.Default = Bs(x.api.DefaultProduces)
		first := c19Answer(x.api.Validate())
		obs.Err, obs.OtherErr = first.Err, first.OtherErr
		if obs.Err == nil && obs.OtherErr == "" {
			c19Serve(doc, in, x, &obs)
		}
		// the same API value goes on: more registrations, Validate() again after each batch; a fresh value given
		// all the registrations so far must answer the same
		batches := [][]c19Reg{in.Regs}
		for _, step := range in.Steps {
			x.register(in, step)
			batches = append(batches, step)
			obs.More = append(obs.More, c19More{Shared: c19Answer(x.api.Validate()), Fresh: c19Answer(c19NewInst(doc, in, batches...).api.Validate())})
		}
	})
	return obs
}

// a validated API: the route table, then the history of requests
func c19Serve(doc *loads.Document, in c19In, x *c19Inst, obs *c19Obs) {
	// every declared operation of a validated API must have a route (any description), ...
	x.serve(doc)
	for i, o := range in.Ops {
		req := httptest.NewRequest(o.Method, c19Target(in, o), nil)
		m, ok := x.ctx.LookupRoute(req)
		// the route of this very operation, not a placeholder route of another one that happens to fit
		obs.Routed = append(obs.Routed, c19Routed{Op: i, Found: ok && m != nil && m.PathPattern == path.Join(in.BasePath, o.Path)})
	}
	// ... and is then sent well-formed requests (the serving clause speaks about descriptions whose
	// media types are lower-case, parameter-free and wildcard-free only)
	for _, l := range c19AllMedia(in) {
		for _, mt := range l {
			m := string(mt)
			if m == "" || m != strings.ToLower(m) || strings.ContainsAny(m, ";*") {
				return
			}
		}
	}
	reqs := in.Reqs
	if reqs == nil {
		reqs = c19DefaultReqs(in, x.api.DefaultConsumes)
	}
	// the whole history on ONE handler; every request also on a fresh API value + context + handler
	var recs []*httptest.ResponseRecorder
	for _, rq := range reqs {
		sv := c19Served{Req: rq}
		var rec *httptest.ResponseRecorder
		sv.Shared, rec, sv.Target = x.do(in, rq)
		recs = append(recs, rec)
		y := c19NewInst(doc, in, in.Regs)
		y.serve(doc)
		sv.Fresh, _, _ = y.do(in, rq)
		obs.Served = append(obs.Served, sv)
	}
	// the responses handed out earlier must still read the same after the later requests
	for i := range obs.Served {
		if sh := &obs.Served[i].Shared; sh.Outcome == 0 && recs[i] != nil {
			if ct, prod := c19Produced(recs[i]); ct != sh.CType || prod != sh.Producer {
				sh.Outcome, sh.Detail = 3, fmt.Sprintf("the response changed after later requests: %q by %q, was %q by %q", ct, prod, sh.CType, sh.Producer)
				sh.CType, sh.Producer = "", ""
			}
		}
	}
}

// ---- Gallina ----

var c19Sections = map[string]int{"consumes": 0, "produces": 1, "operation": 2, "auth scheme": 3, "security definitions": 4}

func c19Alts(alts [][]string) string {
	return coqList(alts, func(a []string) string { return coqBytesList(a) })
}

func c19Regs(regs []c19Reg) string {
	return coqList(regs, func(r c19Reg) string {
		switch r.Kind {
		case "consumer":
			return "RConsumer " + coqBytes(string(r.A))
		case "producer":
			return "RProducer " + coqBytes(string(r.A))
		case "operation":
			return "ROperation " + coqBytes(string(r.A)) + " " + coqBytes(string(r.B))
		case "auth":
			return "RAuth " + coqBytes(string(r.A))
		default:
			return "RWithoutJSON"
		}
	})
}

func (c19) Coq(inAny any, obsAny any) string {
	in, obs := inAny.(c19In), obsAny.(c19Obs)
	regs := c19Regs(in.Regs)
	ops := coqList(in.Ops, func(o c19Op) string {
		sec := "None"
		if o.Security != nil {
			sec = "(Some " + c19Alts(*o.Security) + ")"
		}
		return fmt.Sprintf("mkop %s %s %s %s %s", coqBytes(o.Method), coqBytes(o.Path), coqBytesList(bsList(o.Consumes)), coqBytesList(bsList(o.Produces)), sec)
	})
	defs := coqList(in.Defs, func(d c19Def) string { return coqBytes(d.Name) })
	desc := fmt.Sprintf("(mkdesc %s %s %s %s %s %s)", coqBytes(in.BasePath), coqBytesList(bsList(in.GConsumes)), coqBytesList(bsList(in.GProduces)), c19Alts(in.GSecurity), defs, ops)
	errT := "None"
	if obs.Err != nil {
		sec, ok := c19Sections[obs.Err.Section]
		if !ok {
			sec = 9
		}
		errT = fmt.Sprintf("(Some (mkfail %d %s %s))", sec, coqBytesList(bsList(obs.Err.Unspecified)), coqBytesList(bsList(obs.Err.Unregistered)))
	}
	if obs.Panicked || obs.OtherErr != "" {
		errT = "(Some (mkfail 9 [] []))"
	}
	res := func(r c19Res) string {
		return fmt.Sprintf("(mkres %d %s %s)", r.Outcome, coqBytes(string(r.CType)), coqBytes(string(r.Producer)))
	}
	served := coqList(obs.Served, func(s c19Served) string {
		return fmt.Sprintf("(mkreq %d %s %s %s, %s, %s)", s.Req.Op, coqBytes(string(s.Req.CT)), coqBytesList(bsList(s.Req.Accept)), coqBytesList(s.Req.Creds),
			res(s.Shared), res(s.Fresh))
	})
	routed := coqList(obs.Routed, func(s c19Routed) string { return fmt.Sprintf("(%d, %s)", s.Op, coqBool(s.Found)) })
	ans := func(a c19Ans) string {
		switch {
		case a.OtherErr != "":
			return "(Some (mkfail 9 [] []))"
		case a.Err != nil:
			sec, ok := c19Sections[a.Err.Section]
			if !ok {
				sec = 9
			}
			return fmt.Sprintf("(Some (mkfail %d %s %s))", sec, coqBytesList(bsList(a.Err.Unspecified)), coqBytesList(bsList(a.Err.Unregistered)))
		}
		return "None"
	}
	var more []string
	for i, m := range obs.More {
		if i < len(in.Steps) {
			more = append(more, fmt.Sprintf("(%s, %s, %s)", c19Regs(in.Steps[i]), ans(m.Shared), ans(m.Fresh)))
		}
	}
	return fmt.Sprintf("CValidate %s %s %s %s %s %s %s %s %s %s", regs, desc, coqBytesList(bsList(obs.AnConsumes)), coqBytesList(bsList(obs.AnProduces)),
		coqBytesList(bsList(obs.AnSchemes)), coqBytesList(bsList(obs.AnOps)), errT, routed, served, "["+strings.Join(more, "; ")+"]")
}

// do the credentials of a request cover one of the alternative requirements (or is there nothing to satisfy)
func c19Covered(alts [][]string, creds []string) bool {
	if len(alts) == 0 {
		return true
	}
	has := map[string]bool{}
	for _, c := range creds {
		has[c] = true
	}
	for _, alt := range alts {
		ok := true
		for _, s := range alt {
			ok = ok && has[s]
		}
		if ok {
			return true
		}
	}
	return false
}

func c19Same(a, b c19Res) bool { return a.Outcome == b.Outcome && a.CType == b.CType && a.Producer == b.Producer }

func (c19) Classify(inAny any, obsAny any) []string {
	in, obs := inAny.(c19In), obsAny.(c19Obs)
	if obs.Err != nil || obs.Panicked || obs.OtherErr != "" {
		return nil
	}
	// a validated API: every operation that was not routed and every request that was not served must be explained by one of
	// the open findings, and nothing may depend on what the API value or the handler did before, else the case is a new violation
	for _, m := range obs.More {
		if !reflect.DeepEqual(m.Shared, m.Fresh) {
			return nil
		}
	}
	unrouted := map[int]bool{}
	for _, rt := range obs.Routed {
		if !rt.Found {
			unrouted[rt.Op] = true
		}
	}
	// F-C19-2, the colliding sub-case: two operations of one method whose templates path.Clean maps to one route. other[i] = the
	// operation that shares the route of operation i
	other := map[int]int{}
	for i, o := range in.Ops {
		for j, q := range in.Ops {
			// (exactly one of the two is in normal form and has its handler registered under the route; two unclean ones are both unrouted)
			if i != j && o.Method == q.Method && path.Join(in.BasePath, o.Path) == path.Join(in.BasePath, q.Path) &&
				(path.Clean(o.Path) == o.Path) != (path.Clean(q.Path) == q.Path) {
				other[i] = j
			}
		}
	}
	kf := map[string]bool{}
	requested := map[int]bool{}
	for _, sv := range obs.Served {
		i := sv.Req.Op
		if i < 0 || i >= len(in.Ops) {
			return nil
		}
		o := in.Ops[i]
		requested[i] = true
		if j, ok := other[i]; ok {
			q := in.Ops[j]
			switch {
			case path.Clean(o.Path) != o.Path && path.Clean(q.Path) == q.Path:
				// the template that is not clean: AddRoute gave its route the handler of the colliding operation, exactly that one runs
				// (or the request is refused before, under the rules of whichever of the two records the router kept)
				for _, r := range []c19Res{sv.Shared, sv.Fresh} {
					switch {
					case r.Outcome == 3 && r.Ran == q.Method+" "+q.Path:
					case r.Outcome == 5 || r.Outcome == 6 || r.Outcome == 7 || r.Outcome == 1:
					case r.Outcome == 2 && obs.Default == "" && len(in.GProduces) == 0 && (len(o.Produces) == 0 || len(q.Produces) == 0):
						kf["validate.no_produces_no_default_producer"] = true
					default:
						return nil
					}
				}
				kf["validate.template_not_clean"] = true
			case path.Clean(o.Path) == o.Path:
				// the clean one: its own handler runs, under the consumes, produces and security of whichever record the router kept
				for _, r := range []c19Res{sv.Shared, sv.Fresh} {
					switch {
					case r.Outcome == 0 || r.Outcome == 1 || r.Outcome == 5 || r.Outcome == 6 || r.Outcome == 7:
					case r.Outcome == 2 && obs.Default == "" && len(in.GProduces) == 0 && (len(o.Produces) == 0 || len(q.Produces) == 0):
						kf["validate.no_produces_no_default_producer"] = true
					case r.Outcome == 3 && r.Ran == "" && strings.HasPrefix(r.Detail, "status 500") && obs.Default == "" && len(q.Consumes) == 0 && len(in.GConsumes) == 0 && sv.Req.CT != "":
						// the router kept the record of the colliding operation, which consumes nothing, and there is no default media
						// type: no consumer for the body this operation's own consumes list admits (found by the thorough tier)
					default:
						return nil
					}
				}
				kf["validate.template_not_clean"] = true
			default:
				return nil
			}
			continue
		}
		if !c19Same(sv.Shared, sv.Fresh) {
			return nil
		}
		switch k := sv.Shared.Outcome; {
		case unrouted[i] && k == 4 && path.Clean(o.Path) != o.Path:
			kf["validate.template_not_clean"] = true
		case unrouted[i]:
			return nil
		case k == 0:
		case k == 3 && c19TakenByDocs(in, o, sv):
			// F-C19-3: the operation's route IS the path of the documentation page / the description document
			kf["validate.operation_on_reserved_ui_path"] = true
		case k == 2 && obs.Default == "" && len(o.Produces) == 0 && len(in.GProduces) == 0:
			// nothing to offer and no default producer
			kf["validate.no_produces_no_default_producer"] = true
		case k == 7 && !c19Covered(c19Alternatives(in, o), sv.Req.Creds):
			// a request without the credentials of any alternative is rightly refused
		default:
			return nil
		}
	}
	for i, o := range in.Ops {
		if unrouted[i] && !requested[i] {
			if path.Clean(o.Path) == o.Path {
				return nil
			}
			kf["validate.template_not_clean"] = true
		}
	}
	var out []string
	for k := range kf {
		out = append(out, k)
	}
	sort.Strings(out)
	return out
}

// c19TakenByDocs (F-C19-3): the route of the operation is exactly the path at which Context.APIHandler serves the documentation
// page ({base}/docs) or the description document (/swagger.json), no handler ran, and the answer is that page / that document
func c19TakenByDocs(in c19In, o c19Op, sv c19Served) bool {
	if sv.Shared.Ran != "" || path.Clean(o.Path) != o.Path || strings.Contains(o.Path, "{") {
		return false
	}
	route := path.Join("/", in.BasePath, o.Path)
	if path.Clean(sv.Target) != route {
		return false
	}
	switch {
	case route == path.Join("/", in.BasePath, "docs"):
		return strings.HasPrefix(sv.Shared.Detail, "status 200 <!DOCTYPE html>") && strings.Contains(sv.Shared.Detail, "<redoc spec-url=")
	case route == "/swagger.json":
		return strings.HasPrefix(sv.Shared.Detail, "status 200 {") && strings.Contains(sv.Shared.Detail, `"swagger":"2.0"`)
	}
	return false
}

func (c19) Category(inAny any, obsAny any) (string, bool) {
	in, obs := inAny.(c19In), obsAny.(c19Obs)
	res := "valid"
	if obs.Err != nil {
		res = "fails-" + strings.ReplaceAll(obs.Err.Section, " ", "-")
		switch {
		case len(obs.Err.Unspecified) > 0 && len(obs.Err.Unregistered) > 0:
			res += "/both"
		case len(obs.Err.Unspecified) > 0:
			res += "/superfluous"
		default:
			res += "/missing"
		}
	} else {
		worst := 0
		for _, s := range obs.Served {
			if s.Shared.Outcome > worst {
				worst = s.Shared.Outcome
			}
		}
		unrouted, dots := 0, 0
		for _, rt := range obs.Routed {
			if !rt.Found {
				unrouted++
			}
		}
		b := strings.Trim(in.BasePath, "/")
		for _, o := range in.Ops {
			if strings.Contains(o.Path, ".") {
				dots = 1
			}
			if b != "" && strings.Contains(o.Path, b) {
				dots |= 2 // the base path occurs inside a template
			}
			if strings.Contains(o.Path, "docs") || strings.Contains(o.Path, "swagger") {
				dots |= 4 // a template next to a path the entry point serves itself ({base}/docs, swagger.json)
			}
		}
		bc := "none"
		switch {
		case in.BasePath == "":
		case in.BasePath == "/":
			bc = "root"
		case strings.HasSuffix(in.BasePath, "/"):
			bc = "trailing-slash"
		case strings.Contains(in.BasePath, "."):
			bc = "dotted"
		default:
			bc = "plain"
		}
		res = fmt.Sprintf("valid/base-%s/dots-or-base-in-template-%d", bc, dots)
		if unrouted > 0 {
			res += fmt.Sprintf("/unrouted-%d", unrouted)
		}
		if len(obs.Served) > 0 {
			// the dimensions of the request history: mixed-case / parameterised content types, alternatives satisfied other than the
			// last, requests to two operations of one path with different offers under one Accept header
			mixed, param, alt, samePath := 0, 0, 0, 0
			type pa struct{ path, accept string }
			seen := map[pa]string{}
			for _, s := range obs.Served {
				ct := string(s.Req.CT)
				if i := strings.Index(ct, ";"); i >= 0 {
					param = 1
					ct = ct[:i]
				}
				if ct != strings.ToLower(ct) {
					mixed = 1
				}
				o := in.Ops[s.Req.Op]
				if alts := c19Alternatives(in, o); len(alts) > 1 && c19Covered(alts, s.Req.Creds) && !c19Covered(alts[len(alts)-1:], s.Req.Creds) {
					alt = 1
				}
				k := pa{o.Path, strings.Join(bsList(s.Req.Accept), ",")}
				offers := strings.Join(c19RouteMedia(o.Produces, in.GProduces, string(obs.Default)), ",")
				if prev, ok := seen[k]; ok && prev != offers {
					samePath = 1
				}
				seen[k] = offers
			}
			// forms posted: 1 = url-encoded, 2 = multipart, 3 = both
			forms := 0
			for _, s := range obs.Served {
				switch mt, _, _ := mime.ParseMediaType(string(s.Req.CT)); mt {
				case c19FormMedia[0]:
					forms |= 1
				case c19FormMedia[1]:
					forms |= 2
				}
			}
			// methods served: 1 = HEAD, 2 = OPTIONS, 4 = PATCH; spelling of an operation registration other than upper case: 1 = of any
			// method, 2 = of HEAD or OPTIONS
			meths, spelt := 0, 0
			for _, o := range in.Ops {
				switch o.Method {
				case "HEAD":
					meths |= 1
				case "OPTIONS":
					meths |= 2
				case "PATCH":
					meths |= 4
				}
			}
			for _, g := range in.Regs {
				if m := string(g.A); g.Kind == "operation" && m != strings.ToUpper(m) {
					spelt |= 1
					if u := strings.ToUpper(m); u == "HEAD" || u == "OPTIONS" {
						spelt |= 2
					}
				}
			}
			res += fmt.Sprintf("/served/worst-%d/ct-mixed-%d/ct-param-%d/non-last-alternative-%d/same-path-and-accept-other-offers-%d/forms-%d/head-options-patch-%d/method-spelt-%d",
				worst, mixed, param, alt, samePath, forms, meths, spelt)
		}
	}
	if len(obs.More) > 0 {
		// the history of Validate() answers on the one API value: n = nil, f = a failure
		h := "n"
		if obs.Err != nil {
			h = "f"
		}
		for _, m := range obs.More {
			if m.Shared.Err == nil && m.Shared.OtherErr == "" {
				h += "n"
			} else {
				h += "f"
			}
		}
		res += "/validate-history-" + h
	}
	if obs.Panicked {
		res = "panic"
	}
	return in.Variant + "/" + res, true
}

// ---- generation ----

var c19Media = []string{"application/json", "text/plain", "application/xml", "text/csv", "application/octet-stream"}
var c19Odd = []string{"Text/Plain", "text/plain; charset=utf-8", "application/JSON", "text/*"}
var c19Paths = []string{"/a", "/b/{id}", "/c/d", "/e"}

// base paths as a description may write them: absent, the root, with and without a trailing slash, with dots,
// dashes and underscores, nested
var c19Bases = []string{"", "/", "/api", "/api/", "/a.b", "/v1.0", "/api/v2", "/x-y_z/"}

// literal segments of operation paths: plain letters, dots (extension, version, leading, several), dashes,
// underscores, tildes, and the words the base paths are made of
var c19Segs = []string{"a", "b", "c", "d", "e", "items", "items.json", "v1.0", "x.y.z", ".well-known", "a-b", "c_d", "~u", "t~", "api", "a.b", "v2", "x-y_z", "apiary", "a.bc"}

// c19Template draws the path template of an operation: one of the four plain ones, or 1-3 segments of which at most one
// is the placeholder, or a template built around the base path (the base path repeated as leading segments, as
// trailing segments, or as a substring of a segment)
func c19Template(r *rand.Rand, base string) string {
	t := c19CleanTemplate(r, base)
	if r.Intn(30) == 0 {
		return "/" // the root template
	}
	if r.Intn(40) == 0 { // rarely a template that path.Clean would change (F-C19-2)
		switch r.Intn(4) {
		case 0:
			return t + "/" + "/x"
		case 1:
			return t + "/./y"
		default:
			return t + "/"
		}
	}
	return t
}

// the paths the standard entry point (Serve / Context.APIHandler) answers itself under the base path: the
// documentation page and the description document. A declared operation NEXT TO them - below them, above them, or
// named almost like them - is an operation like any other and must reach its handler.
var c19Reserved = []string{"docs", "swagger.json"}

// near spellings of the reserved words (a longer word, a shorter one, another extension, another case)
var c19NearReserved = []string{"docs.json", "documents", "doc", "docs2", "docs-v2", "Docs", "DOCS", "swagger", "swagger.yaml", "swagger.json.bak",
	"Swagger.json", "swagger.jsonl", "redoc", "swagger-ui", "docs~"}

// c19ReservedTemplate: a template around a reserved word - never the reserved path itself (one segment equal to the
// word), which the documentation middleware takes from the router on the unchanged library too
func c19ReservedTemplate(r *rand.Rand) string {
	seg := func() string { return c19Segs[r.Intn(len(c19Segs))] }
	w := c19Reserved[r.Intn(len(c19Reserved))]
	if r.Intn(4) != 0 {
		w = "docs"
	}
	switch r.Intn(12) {
	case 0, 1:
		return "/" + w + "/{id}"
	case 2:
		return "/" + w + "/" + seg()
	case 3:
		return "/" + w + "/{id}/" + seg()
	case 4:
		return "/" + w + "/" + seg() + "/{id}"
	case 5:
		return "/" + w + "/" + c19Reserved[r.Intn(len(c19Reserved))]
	case 6:
		return "/" + seg() + "/" + w
	case 7:
		return "/{id}/" + w
	case 8:
		return "/" + w + "/" + seg() + "/" + seg() + "/" + seg()
	default:
		n := c19NearReserved[r.Intn(len(c19NearReserved))]
		switch r.Intn(3) {
		case 0:
			return "/" + n
		case 1:
			return "/" + n + "/{id}"
		default:
			return "/" + w + "/" + n
		}
	}
}

func c19CleanTemplate(r *rand.Rand, base string) string {
	seg := func() string { return c19Segs[r.Intn(len(c19Segs))] }
	if r.Intn(7) == 0 {
		return c19ReservedTemplate(r)
	}
	switch v := r.Intn(10); {
	case v < 3:
		return c19Paths[r.Intn(len(c19Paths))]
	case v < 8:
		n := 1 + r.Intn(3)
		ph := -1
		if r.Intn(3) == 0 {
			ph = r.Intn(n)
		}
		t := ""
		for k := 0; k < n; k++ {
			if k == ph {
				t += "/{id}"
			} else {
				t += "/" + seg()
			}
		}
		return t
	default:
		b := strings.Trim(base, "/")
		if b == "" {
			b = []string{"api", "a.b", "v1.0"}[r.Intn(3)]
		}
		switch r.Intn(5) {
		case 0:
			return "/" + b
		case 1:
			return "/" + b + "/" + seg()
		case 2:
			return "/" + seg() + "/" + b
		case 3:
			return "/" + seg() + b + "/{id}"
		default:
			return "/" + b + "/{id}/" + b
		}
	}
}
// all seven methods a Swagger 2.0 path item can declare
var c19Meths = []string{"GET", "POST", "PUT", "DELETE", "OPTIONS", "HEAD", "PATCH"}

// does a request of this method normally carry a body
func c19BodyMethod(m string) bool { return m == "POST" || m == "PUT" || m == "PATCH" }

// c19SpellMethod: a method name as an application may hand it to RegisterOperation: upper case, lower case, capitalised,
// or letters in random case
func c19SpellMethod(r *rand.Rand, m string) string {
	switch r.Intn(4) {
	case 0:
		return m
	case 1:
		return strings.ToLower(m)
	case 2:
		return m[:1] + strings.ToLower(m[1:])
	default:
		b := []byte(strings.ToLower(m))
		for i := range b {
			if r.Intn(2) == 0 {
				b[i] -= 'a' - 'A'
			}
		}
		return string(b)
	}
}
var c19Schemes = []string{"basic", "key", "other"}

func c19MediaList(r *rand.Rand, max int) []Bs {
	n := r.Intn(max + 1)
	var out []Bs
	for i := 0; i < n; i++ {
		mt := c19Media[r.Intn(len(c19Media))]
		if r.Intn(25) == 0 {
			mt = c19Odd[r.Intn(len(c19Odd))]
		}
		out = append(out, Bs(mt))
	}
	return out
}

func c19Security(r *rand.Rand, names []string) [][]string {
	n := r.Intn(3)
	out := [][]string{}
	for i := 0; i < n; i++ {
		alt := []string{}
		switch r.Intn(6) {
		case 0: // anonymous
		default:
			k := 1 + r.Intn(2)
			seen := map[string]bool{}
			for j := 0; j < k; j++ {
				s := names[r.Intn(len(names))]
				if !seen[s] {
					seen[s] = true
					alt = append(alt, s)
				}
			}
		}
		out = append(out, alt)
	}
	return out
}

func c19Set(xs ...[]Bs) []string {
	seen := map[string]bool{}
	var out []string
	for _, l := range xs {
		for _, x := range l {
			if !seen[string(x)] {
				seen[string(x)] = true
				out = append(out, string(x))
			}
		}
	}
	sort.Strings(out)
	return out
}

func (c19) Gen(r *rand.Rand, tier string, i int) any {
	var in c19In
	if r.Intn(5) >= 2 { // two in five descriptions have no base path
		in.BasePath = c19Bases[r.Intn(len(c19Bases))]
	}
	in.GConsumes = c19MediaList(r, 2)
	in.GProduces = c19MediaList(r, 2)
	nd := r.Intn(4)
	for j := 0; j < nd; j++ {
		in.Defs = append(in.Defs, c19Def{Name: c19Schemes[j], Type: []string{"basic", "apiKey"}[j%2]})
	}
	names := []string{}
	for _, d := range in.Defs {
		names = append(names, d.Name)
	}
	if r.Intn(10) == 0 || len(names) == 0 {
		names = append(names, "ghost") // a requirement naming an undefined scheme
	}
	if r.Intn(2) == 0 {
		in.GSecurity = c19Security(r, names)
	}
	nops := 1 + r.Intn(4)
	seen := map[string]bool{}
	for j := 0; j < nops; j++ {
		o := c19Op{Method: c19Meths[r.Intn(len(c19Meths))], Path: c19Template(r, in.BasePath)}
		if len(in.Ops) > 0 && r.Intn(3) == 0 { // another method of a path that already has an operation
			o.Path = in.Ops[r.Intn(len(in.Ops))].Path
		}
		if len(in.Ops) > 0 && r.Intn(60) == 0 {
			// F-C19-2, the colliding sub-case: the template of an earlier operation of the same method with a trailing slash
			if q := in.Ops[r.Intn(len(in.Ops))]; q.Path != "/" {
				o.Method, o.Path = q.Method, q.Path+"/"
			}
		}
		if seen[o.Method+o.Path] {
			continue
		}
		seen[o.Method+o.Path] = true
		if r.Intn(2) == 0 {
			o.Consumes = c19MediaList(r, 2)
		}
		switch r.Intn(8) {
		case 0, 1: // a form operation: formData parameter, consumes one or both form media types
			o.Form = true
			o.Consumes = [][]Bs{{Bs(c19FormMedia[0])}, {Bs(c19FormMedia[1])}, {Bs(c19FormMedia[0]), Bs(c19FormMedia[1])}, {Bs(c19FormMedia[1]), Bs(c19FormMedia[0])}}[r.Intn(4)]
		case 2: // a form media type among the others, no formData parameter (nothing reads the body)
			o.Consumes = append(o.Consumes, Bs(c19FormMedia[r.Intn(2)]))
		}
		if r.Intn(2) == 0 {
			o.Produces = c19MediaList(r, 2)
		}
		if r.Intn(3) == 0 {
			s := c19Security(r, names)
			o.Security = &s
		}
		in.Ops = append(in.Ops, o)
	}
	// make most descriptions use every definition (else validation always fails in the last category)
	if r.Intn(4) != 0 && len(in.Defs) > 0 {
		all := []string{}
		for _, d := range in.Defs {
			all = append(all, d.Name)
		}
		in.GSecurity = append(in.GSecurity, all)
	}

	// exact registrations
	cons := c19Set(in.GConsumes)
	prods := c19Set(in.GProduces)
	var allC, allP [][]Bs
	allC, allP = append(allC, in.GConsumes), append(allP, in.GProduces)
	schemes := map[string]bool{}
	for _, alt := range in.GSecurity {
		for _, s := range alt {
			schemes[s] = true
		}
	}
	for _, o := range in.Ops {
		allC, allP = append(allC, o.Consumes), append(allP, o.Produces)
		if o.Security != nil {
			for _, alt := range *o.Security {
				for _, s := range alt {
					schemes[s] = true
				}
			}
		}
	}
	cons, prods = c19Set(allC...), c19Set(allP...)
	var regs []c19Reg
	regs = append(regs, c19Reg{Kind: "nojson"})
	for _, c := range cons {
		regs = append(regs, c19Reg{Kind: "consumer", A: Bs(c)})
	}
	for _, p := range prods {
		regs = append(regs, c19Reg{Kind: "producer", A: Bs(p)})
	}
	// the method of an operation registration: in one description of two every one in upper case, else each in a spelling of its own
	// (the library folds the name to upper case: the spelling must make no difference to validation, routing and serving)
	spell := r.Intn(2) == 0
	for _, o := range in.Ops {
		m := o.Method
		if spell {
			m = c19SpellMethod(r, m)
		}
		regs = append(regs, c19Reg{Kind: "operation", A: Bs(m), B: Bs(o.Path)})
	}
	var sn []string
	for s := range schemes {
		sn = append(sn, s)
	}
	sort.Strings(sn)
	for _, s := range sn {
		regs = append(regs, c19Reg{Kind: "auth", A: Bs(s)})
	}
	exact := append([]c19Reg{}, regs...)
	in.Variant = "exact"
	switch v := r.Intn(24); {
	case v < 8: // exact
	case v < 12: // single omission
		in.Variant = "omit"
		k := r.Intn(len(regs))
		in.Variant += "-" + regs[k].Kind
		regs = append(append([]c19Reg{}, regs[:k]...), regs[k+1:]...)
	case v < 16: // single addition
		in.Variant = "add"
		switch r.Intn(4) {
		case 0:
			regs = append(regs, c19Reg{Kind: "consumer", A: Bs(c19Media[r.Intn(len(c19Media))])})
		case 1:
			regs = append(regs, c19Reg{Kind: "producer", A: Bs(c19Media[r.Intn(len(c19Media))])})
		case 2:
			regs = append(regs, c19Reg{Kind: "operation", A: Bs(c19SpellMethod(r, c19Meths[r.Intn(len(c19Meths))])), B: Bs(c19Template(r, in.BasePath))})
		default:
			regs = append(regs, c19Reg{Kind: "auth", A: Bs([]string{"basic", "key", "other", "extra"}[r.Intn(4)])})
		}
	case v < 19: // case variants
		in.Variant = "case"
		k := r.Intn(len(regs))
		switch regs[k].Kind {
		case "consumer", "producer":
			regs[k].A = Bs(strings.ToUpper(string(regs[k].A)))
		case "operation":
			if r.Intn(3) == 0 {
				regs[k].B = Bs(strings.ToUpper(string(regs[k].B)))
			} else {
				m := strings.ToUpper(string(regs[k].A))
				for string(regs[k].A) == m { // a spelling other than upper case
					regs[k].A = Bs(c19SpellMethod(r, m))
				}
			}
		case "auth":
			regs[k].A = Bs(strings.ToUpper(string(regs[k].A)))
		}
	case v < 21: // JSON defaults kept
		in.Variant = "keepjson"
		regs = regs[1:]
	case v < 22: // one operation registered under its full route (base path included) instead of its template
		in.Variant = "fullpath"
		for k := range regs {
			if regs[k].Kind == "operation" {
				regs[k].B = Bs(path.Join(in.BasePath, string(regs[k].B)))
				break
			}
		}
	default: // random subset + duplicates
		in.Variant = "random"
		var out []c19Reg
		for _, g := range regs {
			if r.Intn(5) != 0 {
				out = append(out, g)
			}
			if r.Intn(8) == 0 {
				out = append(out, g)
			}
		}
		if len(out) == 0 {
			out = regs[:1]
		}
		regs = out
	}
	in.Regs = regs
	if r.Intn(5) < 2 {
		in.Steps = c19GenSteps(r, in, exact)
	}
	in.Reqs = c19GenReqs(r, in)
	return in
}

// later batches of registrations on the same API value: nothing, something superfluous of each kind (an authenticator, a consumer, a
// producer, an operation), the JSON defaults dropped, something registered again, the exact set registered (repairs omissions)
func c19GenSteps(r *rand.Rand, in c19In, exact []c19Reg) [][]c19Reg {
	n := 1 + r.Intn(3)
	var steps [][]c19Reg
	for k := 0; k < n; k++ {
		var b []c19Reg
		for j := 1 + r.Intn(2); j > 0; j-- {
			switch r.Intn(9) {
			case 0: // nothing
			case 1:
				b = append(b, c19Reg{Kind: "auth", A: Bs([]string{"basic", "key", "other", "extra"}[r.Intn(4)])})
			case 2:
				b = append(b, c19Reg{Kind: "nojson"})
			case 3:
				b = append(b, c19Reg{Kind: "consumer", A: Bs(c19Media[r.Intn(len(c19Media))])})
			case 4:
				b = append(b, c19Reg{Kind: "producer", A: Bs(c19Media[r.Intn(len(c19Media))])})
			case 5:
				b = append(b, c19Reg{Kind: "operation", A: Bs(c19SpellMethod(r, c19Meths[r.Intn(len(c19Meths))])), B: Bs(c19Template(r, in.BasePath))})
			case 6:
				b = append(b, in.Regs[r.Intn(len(in.Regs))])
			case 7:
				b = append(b, exact[r.Intn(len(exact))])
			default:
				b = append(b, exact[1:]...)
			}
		}
		steps = append(steps, b)
	}
	return steps
}

// spellings of a media type in a Content-Type header: as declared, in mixed case, with parameters, both
func c19SpellCT(r *rand.Rand, mt string) string {
	mixed := func(s string) string {
		switch r.Intn(3) {
		case 0:
			return strings.ToUpper(s)
		case 1:
			return strings.ToUpper(s[:1]) + s[1:]
		default:
			b := []byte(s)
			for i := range b {
				if r.Intn(2) == 0 && b[i] >= 'a' && b[i] <= 'z' {
					b[i] -= 'a' - 'A'
				}
			}
			if string(b) == s {
				return strings.ToUpper(s)
			}
			return string(b)
		}
	}
	params := []string{"; charset=utf-8", ";charset=UTF-8", " ; Charset=utf-8", "; charset=utf-8; boundary=x"}
	switch r.Intn(5) {
	case 0, 1:
		return mt
	case 2, 3:
		return mixed(mt)
	default:
		if r.Intn(2) == 0 {
			mt = mixed(mt)
		}
		return mt + params[r.Intn(len(params))]
	}
}

// Accept headers that the offers of a route satisfy: absent, the full wildcard, an offer, its type wildcard, lists with weights
func c19AcceptFor(r *rand.Rand, offers []string) []Bs {
	if len(offers) == 0 {
		return [][]Bs{nil, {"*/*"}, {"text/plain"}}[r.Intn(3)]
	}
	p := offers[r.Intn(len(offers))]
	q := offers[r.Intn(len(offers))]
	typ := p[:strings.Index(p+"/", "/")]
	switch r.Intn(9) {
	case 0:
		return nil
	case 1:
		return []Bs{"*/*"}
	case 2:
		return []Bs{Bs(p)}
	case 3:
		return []Bs{Bs(typ + "/*")}
	case 4:
		return []Bs{Bs("text/html, " + p + ";q=0.8, */*;q=0.1")}
	case 5:
		return []Bs{Bs(p + ";q=0.4, " + q + ";q=0.7")}
	case 6:
		return []Bs{Bs("image/png"), Bs(p)} // two header lines
	case 7:
		return []Bs{Bs("application/x-none;q=1.0, " + typ + "/*;q=0.5")}
	default:
		return []Bs{Bs(p + "; charset=utf-8")}
	}
}

// the history of requests for one handler: 2-3 rounds over all operations, each round in another order; in round k the
// k-th alternative requirement of the operation is satisfied (exactly its schemes), the content type is one the route admits in a
// random spelling, the Accept header is one the route satisfies - in half of the rounds the same for every operation (absent or
// the full wildcard), so that operations of one path meet under one header. After the first round a request may come without
// any credentials.
func c19GenReqs(r *rand.Rand, in c19In) []c19Req {
	def := "application/json"
	for _, g := range in.Regs {
		if g.Kind == "nojson" {
			def = ""
		}
	}
	rounds := 2 + r.Intn(2)
	for _, o := range in.Ops {
		if len(c19Alternatives(in, o)) > 2 {
			rounds = 3
		}
	}
	var out []c19Req
	for k := 0; k < rounds; k++ {
		var common []Bs
		shared := r.Intn(2) == 0
		if shared && r.Intn(2) == 0 {
			common = []Bs{"*/*"}
		}
		for _, i := range r.Perm(len(in.Ops)) {
			o := in.Ops[i]
			rq := c19Req{Op: i}
			if alts := c19Alternatives(in, o); len(alts) > 0 && !(k > 0 && r.Intn(12) == 0) {
				rq.Creds = append([]string{}, alts[(k+i)%len(alts)]...)
			} else if len(alts) == 0 && r.Intn(4) == 0 && len(in.Defs) > 0 {
				rq.Creds = []string{in.Defs[r.Intn(len(in.Defs))].Name} // credentials nobody asked for
			}
			body := c19BodyMethod(o.Method)
			if r.Intn(8) == 0 {
				body = !body
			}
			if adm := c19RouteMedia(o.Consumes, in.GConsumes, def); o.Form {
				// a form operation is always posted a form, of a media type it lists (the API default is no form)
				var forms []string
				for _, m := range adm {
					if c19IsForm(m) {
						forms = append(forms, m)
					}
				}
				if len(forms) > 0 {
					rq.CT = Bs(c19SpellCT(r, forms[r.Intn(len(forms))]))
				}
			} else if body && len(adm) > 0 {
				rq.CT = Bs(c19SpellCT(r, adm[r.Intn(len(adm))]))
			}
			if shared {
				rq.Accept = common
			} else {
				rq.Accept = c19AcceptFor(r, c19RouteMedia(o.Produces, in.GProduces, def))
			}
			out = append(out, rq)
		}
	}
	return out
}
