//go:build verif && (c11 || allprops)

package main

import (
	"bytes"
	"crypto/sha256"
	"encoding/json"
	"errors"
	"fmt"
	"io"
	"math/rand"
	"mime"
	"mime/multipart"
	"net/http"
	"net/url"
	"os"
	"path/filepath"
	goruntime "runtime"
	"sort"
	"bufio"
	"strings"
	"sync"
	"testing/iotest"
	"time"

	"github.com/go-openapi/runtime"
	"github.com/go-openapi/runtime/client"
	"github.com/go-openapi/strfmt"
)

// C11 — client bodies. Cases:
//   body    one request built by the real Runtime.CreateHttpRequest (-> request.buildHTTP with the auth writer),
//           the outgoing *http.Request read back: raw bytes, mime/multipart parts, url.ParseQuery pairs,
//           the []byte values GetBody returned inside the auth writer
//   escape  escapeQuotes / filepath.Base on one string

type c11File struct {
	Name     Bs   `json:"name"`
	Chunks   []Bs `json:"chunks"`             // what successive Reads deliver
	Declared *Bs  `json:"declared,omitempty"` // ContentType() when not nil (only a source of kind "" can declare one)
	// how the caller made the NamedReadCloser (c11FileSources): "" = a caller type with its own Name();
	// the others go through runtime.NamedReader(Name, inner) or hand over an *os.File
	Src   string `json:"src,omitempty"`
	Inner Bs     `json:"inner,omitempty"` // the name the wrapped reader has of its own (named-own, renamed)
	// a big upload, described instead of spelled out: BigLen bytes derived from BigSeed (c11BigBytes), delivered in Reads of
	// BigChunk bytes (0 = one Read); Chunks is then left empty in the stored input and filled in by c11Expand
	BigLen   int `json:"big_len,omitempty"`
	BigSeed  int `json:"big_seed,omitempty"`
	BigChunk int `json:"big_chunk,omitempty"`
	// how the source's Reads end (c11ReadStyles): "" = the data, then (0, io.EOF); "eof-with-data" = the last bytes come TOGETHER
	// with io.EOF in one Read (allowed by the io.Reader contract: HTTP bodies of known length, iotest.DataErrReader, limited and
	// decompressing readers do it); "empty-reads" = a (0, nil) Read before every chunk (allowed too, if discouraged).
	// An *os.File source ignores it.
	Reads string `json:"reads,omitempty"`
}

var c11ReadStyles = []string{"", "eof-with-data", "empty-reads"}

type c11Field struct {
	Name   Bs   `json:"name"`
	Values []Bs `json:"values"`
}

type c11FileField struct {
	Name  Bs        `json:"name"`
	Files []c11File `json:"files"`
}

type c11In struct {
	Kind    string         `json:"kind"`
	S       Bs             `json:"s,omitempty"`
	Method  string         `json:"method,omitempty"`
	Media   Bs             `json:"media,omitempty"`
	Preset  *Bs            `json:"preset,omitempty"`  // Content-Type set by the parameter writer itself
	Payload string         `json:"payload,omitempty"` // nil | value | reader | readcloser
	VType   string         `json:"vtype,omitempty"`   // dynamic type of a value payload (c11ValueTypes); "" = string
	Consumed Bs            `json:"consumed,omitempty"` // reader payloads: what the caller read from the reader before handing it over
	SeekTo  bool           `json:"seek_to,omitempty"` // ... or skipped with Seek(len(Consumed), SeekStart) when the reader can seek
	RType   string         `json:"rtype,omitempty"`   // dynamic type of a reader / readcloser payload (c11ReaderTypes, c11ReadCloserTypes); "" = a type with Read (and Close) only
	Content Bs             `json:"content,omitempty"`
	// a big payload, described instead of spelled out: Content = c11BigBytes(BigLen, BigSeed) (filled in by c11Expand)
	BigLen  int            `json:"big_len,omitempty"`
	BigSeed int            `json:"big_seed,omitempty"`
	Form    []c11Field     `json:"form,omitempty"`
	Files   []c11FileField `json:"files,omitempty"`
	Auth    int            `json:"auth"` // -1: no auth writer; k >= 0: an auth writer calling GetBody k times
	// other requests of the same shape (other contents, see c11Neighbour) on the SAME Runtime: BuiltBefore of them are built and
	// sent (their bodies read to the end) before this request is built; BuiltAfter of them are built after this request and
	// before its body is read (requests in flight together), and read afterwards. What this request sends must not depend on them.
	BuiltBefore int `json:"built_before,omitempty"`
	BuiltAfter  int `json:"built_after,omitempty"`
	// data that quotes an earlier request of the same process: another request of the same shape (c11Neighbour) is built and sent
	// first on the same Runtime, and its dump (request line, Content-Type header with the boundary, the body as sent) is appended to
	// this request's first upload ("file") or first form-field value ("value") - uploading a debug log, a proxy capture, a server
	// echo. The dump is read at run time (obs.Dump). Whatever an earlier request looked like, this one must carry its data whole.
	Dump string `json:"dump,omitempty"`
	// the case runs on one processor (GOMAXPROCS 1): every goroutine the requests start shares it, so anything recycled per
	// processor (sync.Pool) goes straight from one request to the next
	OneP bool `json:"one_p,omitempty"`
	// how the request gets out: "" = built by Runtime.CreateHttpRequest and read back by the harness; "submit" = sent by the real
	// Runtime.Submit through a RoundTripper of the harness that records the header it is handed and reads the body to its end,
	// as a transport does. Debug = Runtime.Debug (request logging: SetDebug(true), SWAGGER_DEBUG / DEBUG in the environment) is on
	// for that call. What the transport receives has to be what the property says, logging or not.
	Via   string `json:"via,omitempty"`
	Debug bool   `json:"debug,omitempty"`
}

type c11RTFunc func(*http.Request) (*http.Response, error)

func (f c11RTFunc) RoundTrip(q *http.Request) (*http.Response, error) { return f(q) }

type c11NoLog struct{}

func (c11NoLog) Printf(string, ...interface{}) {}
func (c11NoLog) Debugf(string, ...interface{}) {}

type c11Part struct {
	Disp        Bs   `json:"disp"`
	Name        Bs   `json:"name"`
	HasFilename bool `json:"has_filename"`
	Filename    Bs   `json:"filename"`
	HasCT       bool `json:"has_ct"`
	CT          Bs   `json:"ct"`
	Data        Bs   `json:"-"`
	DataLen     int  `json:"data_len"`
	DataHead    Bs   `json:"data_head"`
}

type c11Pair struct{ K, V Bs }

type c11Obs struct {
	Panicked  bool      `json:"panicked,omitempty"`
	Panic     string    `json:"panic,omitempty"`
	Err       int       `json:"err"`
	ErrText   string    `json:"err_text,omitempty"`
	HasCT     bool      `json:"has_ct"`
	CT        Bs        `json:"ct"`
	HasMedia  bool      `json:"has_media"`
	CTMedia   Bs        `json:"ct_media"`
	Boundary  Bs        `json:"boundary"`
	SentOK    bool      `json:"sent_ok"`
	Sent      Bs        `json:"-"`
	SentLen   int       `json:"sent_len"`
	SentHead  Bs        `json:"sent_head"`
	HasParts  bool      `json:"has_parts"`
	Parts     []c11Part `json:"parts,omitempty"`
	HasQuery  bool      `json:"has_query"`
	Query     []c11Pair `json:"query,omitempty"`
	Answers   []Bs      `json:"-"`
	AnswerLen []int     `json:"answer_lens,omitempty"`
	// oracles and bookkeeping recorded with the case
	Registered bool       `json:"registered"`
	ProdReg    bool       `json:"prod_reg"`
	ProdOK     bool       `json:"prod_ok"`
	ProdOut    Bs         `json:"-"`
	Sniff      [][2]Bs    `json:"-"`
	FormOrder  []c11Field `json:"-"`
	FileOrder  []c11FileField `json:"-"`
	Escaped    Bs         `json:"escaped,omitempty"`
	Base       Bs         `json:"base,omitempty"`
	OSNames    map[string]string `json:"-"` // "<file field>/<index>" -> the path of the *os.File behind that upload
	ValueGo    string     `json:"value_go,omitempty"` // %T of the value payload
	Dump       Bs         `json:"-"`                  // the dump of the earlier request that in.Dump put into this request's data
	HasDump    bool       `json:"has_dump,omitempty"`
	DumpLen    int        `json:"dump_len,omitempty"`
}

type c11 struct{}

func init() { register(c11{}) }

func (c11) ID() string        { return "C11" }
func (c11) CoqModule() string { return "Check_C11" }
func (c11) Rule() string {
	return "requests built by the real Runtime.CreateHttpRequest: payload kinds nil/value (real JSON, text, XML, byte-stream producers and tagging/failing/unregistered ones)/io.Reader/io.ReadCloser, " +
		"form fields only, files only, both, with 0-3 values and files per field; media types incl. the two form types, case variants and unregistered ones; " +
		"file names with quotes, backslashes, directories; file contents of lengths 0,1,511,512,513,4096,70000 and random, uploads and streamed reader payloads of 128 KiB to 8 MiB (at, just below and just above 1 MiB and the other powers of two; in Reads of 1000 bytes to 1 MiB; with the auth writer absent, not asking, asking once or twice; such contents are described by length and seed in the input and stand in the Coq terms as fingerprints: length and SHA-256), text and binary signatures, delivered whole or in short reads, declared or sniffed type; " +
		"auth writer absent or calling GetBody 0,1,2,3 times; value payloads of 18 dynamic types (string, []byte, named/pointer variants, map, struct, slice, numbers, bool, typed nil pointer, json.RawMessage, marshalers) under every producer; " +
		"reader payloads of 20 dynamic types, fresh or handed over after a prefix was read or seeked past; uploads made from an own type, through runtime.NamedReader (over plain, named, renamed readers, *os.File) or an *os.File itself. The outgoing request is read back with mime/multipart and url.ParseQuery. " +
		"A third of the multipart / form / value cases are built with 1-4 other requests of the same shape and other contents in flight on the same Runtime (built after it, before its body is read), a sixth after 1-2 others were sent, half of these on one processor (GOMAXPROCS 1). " +
		"Upload sources end their Reads in three ways (a quarter with the last bytes TOGETHER with io.EOF, a twelfth with a (0, nil) Read before every chunk; enumerated x the lengths around the sniffing window x chunkings x plain / NamedReader sources); " +
		"two file names in five carry an extension (known to mime.TypeByExtension, known to system tables only, unknown, odd spellings; enumerated x text / unrecognised binary / PNG / PDF / HTML contents: the type comes from the declaration or the content, never from the name); " +
		"one multipart / form case in eight quotes an earlier request of the same process: a request of the same shape is sent first on the same Runtime and its dump (Content-Type header with the boundary, body as sent) is appended to the first upload or form value. " +
		"One case in four is not read back from CreateHttpRequest but sent by the real Runtime.Submit through a recording transport, two thirds of these with request logging (Runtime.Debug) on; enumerated: every reader type x logging off/on x auth writer absent / not asking / asking, multipart, url-encoded, value payloads under every media type, streamed bodies above 1 MiB. " +
		"Non-trivial: a request that was built without error and carries a body."
}

func (c11) Decode(raw json.RawMessage) (any, error) {
	var in c11In
	if err := json.Unmarshal(raw, &in); err != nil {
		return nil, err
	}
	in.Form, in.Files = c11DedupFields(in.Form), c11DedupFiles(in.Files)
	return c11Norm(in), nil
}

func c11In1(s string, set []string) bool {
	for _, x := range set {
		if x == s {
			return true
		}
	}
	return false
}

// ---------- big bodies ----------
// Bodies of several MiB are part of the input space (an upload, a streamed payload); anything the client buffers, limits or
// splits by size shows only there. They are kept out of the stored inputs (described by length and seed) and out of the Coq
// terms: every byte string of a case that is longer than c11BigThreshold - payload content, file content, the producer's
// output, the bytes sent, a part's data, a GetBody answer - is replaced, consistently on the input and on the observed side,
// by its fingerprint (a tag, the length, the SHA-256). The model never looks into a content (it moves it around whole; the
// sniffing oracle is keyed by the fingerprint for such a file), so it runs on fingerprints as it runs on contents.
const c11BigThreshold = 100000
const c11BigMax = 80 << 20

func c11BigBytes(n, seed int) []byte {
	b := make([]byte, n)
	rr := rand.New(rand.NewSource(int64(seed)*7919 + int64(n)))
	_, _ = rr.Read(b)
	sig := c11Signatures[(seed%len(c11Signatures)+len(c11Signatures))%len(c11Signatures)]
	copy(b, sig)
	return b
}

func c11FP(s string) string {
	if len(s) <= c11BigThreshold {
		return s
	}
	h := sha256.Sum256([]byte(s))
	return fmt.Sprintf("\x00big:%d:", len(s)) + string(h[:])
}

func c11IsBig(in c11In) bool {
	if in.BigLen > 0 {
		return true
	}
	for _, ff := range in.Files {
		for _, f := range ff.Files {
			if f.BigLen > 0 {
				return true
			}
		}
	}
	return false
}

// c11Expand spells the described contents out (on a copy: the stored input stays small)
func c11Expand(in c11In) c11In {
	if !c11IsBig(in) {
		return in
	}
	if in.BigLen > 0 {
		in.Content = Bs(c11BigBytes(in.BigLen, in.BigSeed))
	}
	files := make([]c11FileField, len(in.Files))
	for i, ff := range in.Files {
		files[i] = c11FileField{Name: ff.Name, Files: append([]c11File(nil), ff.Files...)}
		for j := range files[i].Files {
			f := &files[i].Files[j]
			if f.BigLen <= 0 {
				continue
			}
			b := c11BigBytes(f.BigLen, f.BigSeed)
			f.Chunks = nil
			step := f.BigChunk
			if step <= 0 {
				step = len(b)
			}
			for len(b) > 0 {
				k := c11Min(step, len(b))
				f.Chunks = append(f.Chunks, Bs(b[:k]))
				b = b[k:]
			}
		}
	}
	in.Files = files
	return in
}

// c11Norm drops the fields that have no meaning for the chosen kinds, so that the category of a case tells the truth
func c11Norm(in c11In) c11In {
	if in.BuiltBefore < 0 || in.BuiltBefore > 8 {
		in.BuiltBefore = 0
	}
	if in.BuiltAfter < 0 || in.BuiltAfter > 8 {
		in.BuiltAfter = 0
	}
	if in.Via != "submit" || in.Kind != "body" {
		in.Via, in.Debug = "", false
	}
	if in.Via == "submit" {
		in.BuiltAfter = 0 // Submit builds and sends in one go: nothing can be built in between
	}
	if in.BuiltBefore == 0 && in.BuiltAfter == 0 {
		in.OneP = false
	}
	switch {
	case in.Kind != "body" || c11IsBig(in):
		in.Dump = ""
	case in.Dump == "file" && len(in.Files) > 0 && len(in.Files[0].Files) > 0 && !c11In1(in.Files[0].Files[0].Src, []string{"osfile", "named-osfile"}):
	case in.Dump == "value" && len(in.Form) > 0 && len(in.Form[0].Values) > 0:
	default:
		in.Dump = ""
	}
	if in.Payload != "value" || !c11In1(in.VType, c11ValueTypes) {
		in.VType = ""
	}
	stream := in.Payload == "reader" || in.Payload == "readcloser"
	if in.BigLen < 0 || in.BigLen > c11BigMax || in.Payload == "nil" || in.Payload == "" {
		in.BigLen = 0
	}
	if in.BigLen > 0 { // a described content stands at offset 0
		in.Content, in.Consumed, in.SeekTo = "", "", false
	}
	if !stream {
		in.Consumed, in.SeekTo, in.RType = "", false, ""
	}
	if (in.Payload == "reader" && !c11In1(in.RType, c11ReaderTypes)) || (in.Payload == "readcloser" && !c11In1(in.RType, c11ReadCloserTypes)) {
		in.RType = ""
	}
	if len(in.Consumed) > 900 {
		in.Consumed = in.Consumed[:900]
	}
	if !c11In1(in.RType, c11SeekableTypes) || len(in.Consumed) == 0 {
		in.SeekTo = false
	}
	for i := range in.Files {
		for j := range in.Files[i].Files {
			f := &in.Files[i].Files[j]
			if f.BigLen < 0 || f.BigLen > c11BigMax {
				f.BigLen = 0
			}
			if f.BigLen > 0 {
				f.Chunks = nil
				if f.BigChunk < 0 || (f.BigChunk > 0 && f.BigLen/f.BigChunk > 20000) {
					f.BigChunk = 0
				}
			}
			if !c11In1(f.Src, c11FileSources) {
				f.Src = ""
			}
			if !c11In1(f.Reads, c11ReadStyles) || f.Src == "osfile" || f.Src == "named-osfile" {
				f.Reads = ""
			}
			if f.Src != "" {
				f.Declared = nil // runtime.NamedReader's result and *os.File have no ContentType()
			}
			if f.Src != "named-own" && f.Src != "renamed" {
				f.Inner = ""
			}
		}
	}
	return in
}

// a Go map keeps one entry per name: the last one set wins
func c11DedupFields(fs []c11Field) []c11Field {
	var out []c11Field
	for i, f := range fs {
		last := true
		for _, g := range fs[i+1:] {
			if g.Name == f.Name {
				last = false
			}
		}
		if last {
			out = append(out, f)
		}
	}
	return out
}

func c11DedupFiles(fs []c11FileField) []c11FileField {
	var out []c11FileField
	for i, f := range fs {
		last := true
		for _, g := range fs[i+1:] {
			if g.Name == f.Name {
				last = false
			}
		}
		if last {
			out = append(out, f)
		}
	}
	return out
}

// ---------- upload sources ----------

type c11Src struct {
	name   string
	chunks [][]byte
	closed int
	reads  string // c11ReadStyles
	empty  bool   // empty-reads: the (0, nil) Read before the next data was given
}

func (s *c11Src) Read(p []byte) (int, error) {
	for len(s.chunks) > 0 && len(s.chunks[0]) == 0 {
		s.chunks = s.chunks[1:]
	}
	if len(s.chunks) == 0 {
		return 0, io.EOF
	}
	if s.reads == "empty-reads" && !s.empty {
		s.empty = true
		return 0, nil
	}
	s.empty = false
	n := copy(p, s.chunks[0])
	s.chunks[0] = s.chunks[0][n:]
	if s.reads == "eof-with-data" && n > 0 {
		rest := 0
		for _, c := range s.chunks {
			rest += len(c)
		}
		if rest == 0 { // these were the last bytes: they come with io.EOF
			s.chunks = nil
			return n, io.EOF
		}
	}
	return n, nil
}
func (s *c11Src) Close() error { s.closed++; return nil }
func (s *c11Src) Name() string { return s.name }

// the same chunked source without a name of its own: Read and Close only
type c11PlainSrc struct{ src *c11Src }

func (s c11PlainSrc) Read(p []byte) (int, error) { return s.src.Read(p) }
func (s c11PlainSrc) Close() error               { return s.src.Close() }

// Read only
type c11BareSrc struct{ src *c11Src }

func (s c11BareSrc) Read(p []byte) (int, error) { return s.src.Read(p) }

// How the caller made the upload. The part must carry the base of the name the caller asked for:
//   ""             a caller type with its own Name() (and ContentType() when declared)
//   named          runtime.NamedReader(name, a reader with Read and Close)
//   named-bare     runtime.NamedReader(name, a reader with Read only)
//   named-own      runtime.NamedReader(name, a caller type whose own Name() says something else)
//   renamed        runtime.NamedReader(name, runtime.NamedReader(inner, reader)): an upload renamed
//   named-osfile   runtime.NamedReader(name, *os.File): a temporary file uploaded under another name
//   osfile         the *os.File itself: the name is the path it was created with
var c11FileSources = []string{"", "named", "named-bare", "named-own", "renamed", "named-osfile", "osfile"}

type c11SrcCT struct {
	*c11Src
	ct string
}

func (s c11SrcCT) ContentType() string { return s.ct }

type c11Reader struct{ r io.Reader }

func (r *c11Reader) Read(p []byte) (int, error) { return r.r.Read(p) }

type c11ReadCloser struct {
	r      io.Reader
	closed int
}

func (r *c11ReadCloser) Read(p []byte) (int, error) { return r.r.Read(p) }
func (r *c11ReadCloser) Close() error               { r.closed++; return nil }

// ---------- the dynamic type of a reader payload ----------
// buildHTTP tells *bytes.Buffer apart (the getBody override), net/http tells *bytes.Buffer, *bytes.Reader and
// *strings.Reader apart (ContentLength, GetBody), io.Copy tells io.WriterTo apart. The bytes sent and the bytes
// shown to the auth writer must be the same for all of them.
var c11ReaderTypes = []string{"", "bytes.Buffer", "bytes.Reader", "strings.Reader", "bufio.Reader", "writerto",
	"onebyte", "dataeof", "halfread-buffer", "multireader", "limited", "section"}
var c11ReadCloserTypes = []string{"", "os.File", "nopcloser-buffer", "nopcloser-strings", "nopcloser-bytesreader", "buffer+close",
	"writerto+close", "seeker+close"}

// the reader types that also are an io.Seeker
var c11SeekableTypes = []string{"bytes.Reader", "strings.Reader", "section", "os.File", "seeker+close"}

// the payload is the caller's own *bytes.Buffer
func c11IsBufferType(in c11In) bool {
	return in.Payload == "reader" && (in.RType == "bytes.Buffer" || in.RType == "halfread-buffer")
}

// Read and WriteTo, nothing else
type c11WriterTo struct{ r *strings.Reader }

func (w *c11WriterTo) Read(p []byte) (int, error)         { return w.r.Read(p) }
func (w *c11WriterTo) WriteTo(d io.Writer) (int64, error) { return w.r.WriteTo(d) }

type c11WriterToCloser struct {
	c11WriterTo
	closed int
}

func (w *c11WriterToCloser) Close() error { w.closed++; return nil }

// a struct around a *bytes.Buffer with a Close method: Read, WriteTo, Close - but not a *bytes.Buffer
type c11BufCloser struct {
	*bytes.Buffer
	closed int
}

func (b *c11BufCloser) Close() error { b.closed++; return nil }

// c11MakePayload builds the body parameter of a reader / readcloser payload with the requested dynamic type. The
// reader is made over Consumed + Content and the caller then consumes the prefix (by reading it, or with Seek when
// SeekTo is set and the type can seek): what is left, Content, is the body.
func c11MakePayload(in c11In) (payload any, cleanup func()) {
	payload, cleanup = c11MakeReader(in, string(in.Consumed)+string(in.Content))
	if n := len(in.Consumed); n > 0 {
		if sk, ok := payload.(io.Seeker); ok && in.SeekTo {
			_, _ = sk.Seek(int64(n), io.SeekStart)
		} else {
			_, _ = io.ReadFull(payload.(io.Reader), make([]byte, n))
		}
	}
	return payload, cleanup
}

func c11MakeReader(in c11In, content string) (payload any, cleanup func()) {
	cleanup = func() {}
	if in.Payload == "reader" {
		switch in.RType {
		case "bytes.Buffer":
			return bytes.NewBufferString(content), cleanup
		case "halfread-buffer": // a buffer the caller has already read from: what is left is the content
			b := bytes.NewBufferString("skip" + content)
			_, _ = b.Read(make([]byte, 4))
			return b, cleanup
		case "bytes.Reader":
			return bytes.NewReader([]byte(content)), cleanup
		case "strings.Reader":
			return strings.NewReader(content), cleanup
		case "bufio.Reader":
			return bufio.NewReaderSize(&c11Reader{strings.NewReader(content)}, 16), cleanup
		case "writerto":
			return &c11WriterTo{strings.NewReader(content)}, cleanup
		case "onebyte":
			return iotest.OneByteReader(strings.NewReader(content)), cleanup
		case "dataeof": // the last bytes come together with io.EOF
			return iotest.DataErrReader(&c11Reader{strings.NewReader(content)}), cleanup
		case "multireader":
			h := len(content) / 2
			return io.MultiReader(strings.NewReader(content[:h]), bytes.NewBufferString(content[h:])), cleanup
		case "limited":
			return io.LimitReader(strings.NewReader(content+"beyond the limit"), int64(len(content))), cleanup
		case "section": // a window into a larger file-like thing; it can seek
			return io.NewSectionReader(strings.NewReader("before "+content+" after"), 7, int64(len(content))), cleanup
		}
		return &c11Reader{strings.NewReader(content)}, cleanup
	}
	switch in.RType {
	case "os.File":
		f, err := os.CreateTemp("", "verif-c11-*")
		if err == nil {
			name := f.Name()
			_, _ = f.WriteString(content)
			_, _ = f.Seek(0, io.SeekStart)
			return f, func() { _ = f.Close(); _ = os.Remove(name) }
		}
	case "nopcloser-buffer": // io.NopCloser keeps the WriteTo of what it wraps
		return io.NopCloser(bytes.NewBufferString(content)), cleanup
	case "nopcloser-strings":
		return io.NopCloser(strings.NewReader(content)), cleanup
	case "nopcloser-bytesreader":
		return io.NopCloser(bytes.NewReader([]byte(content))), cleanup
	case "buffer+close":
		return &c11BufCloser{Buffer: bytes.NewBufferString(content)}, cleanup
	case "writerto+close":
		return &c11WriterToCloser{c11WriterTo: c11WriterTo{strings.NewReader(content)}}, cleanup
	case "seeker+close": // Read, Seek, Close: what an *os.File looks like to a type test, without the file
		return &c11SeekCloser{Reader: bytes.NewReader([]byte(content))}, cleanup
	}
	return &c11ReadCloser{r: strings.NewReader(content)}, cleanup
}

type c11SeekCloser struct {
	*bytes.Reader
	closed int
}

func (s *c11SeekCloser) Close() error { s.closed++; return nil }

// ---------- the dynamic type of a value payload ----------
// Whatever is not a reader goes to the producer registered for the media type, as it is. What the producer makes of
// it is the producer's business (an oracle: the same producer is called by the harness on an equal value).
var c11ValueTypes = []string{"", "bytes", "named-bytes", "ptr-bytes", "map", "struct", "ptr-struct", "slice", "int", "float",
	"bool", "nilptr", "rawmessage", "marshaljson", "marshaltext", "stringer", "error", "byte-array"}

type c11Blob []byte

type c11Rec struct {
	Name string `json:"name" xml:"name"`
	N    int    `json:"n" xml:"n,attr"`
}

type c11JSONer struct{ s string }

func (j c11JSONer) MarshalJSON() ([]byte, error) { return json.Marshal(map[string]string{"custom": j.s}) }

type c11Texter struct{ s string }

func (t c11Texter) MarshalText() ([]byte, error) { return []byte("text<" + t.s + ">"), nil }

type c11Stringer struct{ s string }

func (t c11Stringer) String() string { return "stringer<" + t.s + ">" }

// c11MakeValue builds a fresh value of the requested dynamic type out of the case's content
func c11MakeValue(vtype string, content []byte) any {
	c := append([]byte(nil), content...)
	switch vtype {
	case "bytes":
		return c
	case "named-bytes":
		return c11Blob(c)
	case "ptr-bytes":
		return &c
	case "map":
		return map[string]any{"k": string(c), "n": len(c)}
	case "struct":
		return c11Rec{Name: string(c), N: len(c)}
	case "ptr-struct":
		return &c11Rec{Name: string(c), N: len(c)}
	case "slice":
		return []string{string(c), "x"}
	case "int":
		return len(c)
	case "float":
		return float64(len(c)) / 4
	case "bool":
		return len(c)%2 == 0
	case "nilptr": // a typed nil pointer is not a nil payload
		return (*c11Rec)(nil)
	case "rawmessage":
		b, _ := json.Marshal(map[string]string{"raw": string(c)})
		return json.RawMessage(b)
	case "marshaljson":
		return c11JSONer{string(c)}
	case "marshaltext":
		return c11Texter{string(c)}
	case "stringer":
		return c11Stringer{string(c)}
	case "error":
		return errors.New(string(c))
	case "byte-array":
		var a [4]byte
		copy(a[:], c)
		return a
	}
	return string(c)
}

var errC11Produce = errors.New("c11: producer refuses")

func c11Producers() map[string]runtime.Producer {
	rt := client.New("example.com", "/", []string{"http"})
	p := rt.Producers
	tag := func(t string) runtime.Producer {
		return runtime.ProducerFunc(func(w io.Writer, v interface{}) error {
			_, err := fmt.Fprintf(w, "%s:%v", t, v)
			return err
		})
	}
	p["application/x-tag1"] = tag("tag1")
	p["multipart/form-data"] = tag("mp") // exotic, but then a value payload under it must be sent from the buffer
	p["application/x-tag2"] = tag("tag2")
	p["application/x-fail"] = runtime.ProducerFunc(func(io.Writer, interface{}) error { return errC11Produce })
	return p
}

// c11MakeFile builds the upload the way f.Src says; osPath is the path of the *os.File behind it, if any
// c11Neighbour derives the k-th other request from a case: the same media type, form field names, file field names and
// declared types, but other contents (a text that says whose it is, at least 600 bytes so that it fills every sniffing window),
// uploads from the harness's own type in two Reads, a value payload of the same dynamic type, no streamed payload.
func c11Neighbour(in c11In, k int) c11In {
	other := func(n int, what string) Bs {
		if n < 600 {
			n = 600
		}
		unit := fmt.Sprintf("<neighbour %d %s>", k, what)
		return Bs(strings.Repeat(unit, n/len(unit)+1)[:n])
	}
	out := c11In{Kind: in.Kind, Method: in.Method, Media: in.Media, Preset: in.Preset, Payload: "nil", Auth: in.Auth}
	if out.Auth > 1 {
		out.Auth = 1
	}
	if in.Payload == "value" {
		out.Payload, out.VType, out.Content = "value", in.VType, other(len(in.Content), "payload")
	}
	for _, f := range in.Form {
		nf := c11Field{Name: f.Name}
		for j := range f.Values {
			nf.Values = append(nf.Values, Bs(fmt.Sprintf("neighbour-%d-value-%d", k, j)))
		}
		out.Form = append(out.Form, nf)
	}
	for _, ff := range in.Files {
		nff := c11FileField{Name: ff.Name}
		for j, f := range ff.Files {
			n := len(c11Content(f))
			if n > 4096 {
				n = 4096
			}
			c := other(n, fmt.Sprintf("file %s/%d", string(ff.Name), j))
			nff.Files = append(nff.Files, c11File{Name: Bs(fmt.Sprintf("neighbour%d-%d.bin", k, j)), Chunks: []Bs{c[:100], c[100:]}, Declared: f.Declared})
		}
		out.Files = append(out.Files, nff)
	}
	return out
}

func c11MakeFile(f c11File, tmpdir func() string) (file runtime.NamedReadCloser, osPath string) {
	src := &c11Src{name: string(f.Name), reads: f.Reads}
	for _, c := range f.Chunks {
		src.chunks = append(src.chunks, []byte(c))
	}
	osFile := func() *os.File {
		fh, err := os.CreateTemp(tmpdir(), "upload-*.tmp")
		if err != nil {
			panic("c11: cannot create a temporary file: " + err.Error())
		}
		_, _ = fh.WriteString(c11Content(f))
		_, _ = fh.Seek(0, io.SeekStart)
		return fh
	}
	switch f.Src {
	case "named":
		return runtime.NamedReader(string(f.Name), c11PlainSrc{src}), ""
	case "named-bare":
		return runtime.NamedReader(string(f.Name), c11BareSrc{src}), ""
	case "named-own":
		src.name = string(f.Inner)
		return runtime.NamedReader(string(f.Name), src), ""
	case "renamed":
		return runtime.NamedReader(string(f.Name), runtime.NamedReader(string(f.Inner), c11PlainSrc{src})), ""
	case "named-osfile":
		fh := osFile()
		return runtime.NamedReader(string(f.Name), fh), fh.Name()
	case "osfile":
		fh := osFile()
		return fh, fh.Name()
	}
	if f.Declared != nil {
		return c11SrcCT{src, string(*f.Declared)}, ""
	}
	return src, ""
}

// c11ApplyDump puts the dump recorded in obs where in.Dump says (on a copy): at the end of the first upload's content (one more
// Read) or of the first form-field value
func c11ApplyDump(in c11In, obs c11Obs) c11In {
	if in.Dump == "" || !obs.HasDump {
		return in
	}
	switch in.Dump {
	case "file":
		if len(in.Files) == 0 || len(in.Files[0].Files) == 0 {
			return in
		}
		files := append([]c11FileField(nil), in.Files...)
		files[0] = c11FileField{Name: files[0].Name, Files: append([]c11File(nil), files[0].Files...)}
		f := files[0].Files[0]
		f.Chunks = append(append([]Bs(nil), f.Chunks...), obs.Dump)
		files[0].Files[0] = f
		in.Files = files
	case "value":
		if len(in.Form) == 0 || len(in.Form[0].Values) == 0 {
			return in
		}
		form := append([]c11Field(nil), in.Form...)
		form[0] = c11Field{Name: form[0].Name, Values: append([]Bs(nil), form[0].Values...)}
		form[0].Values[0] = form[0].Values[0] + obs.Dump
		in.Form = form
	}
	return in
}

func c11Content(f c11File) string {
	var sb strings.Builder
	for _, c := range f.Chunks {
		sb.WriteString(string(c))
	}
	return sb.String()
}

func (c11) Run(inAny any) any {
	in := c11Expand(inAny.(c11In))
	var obs c11Obs
	if in.Kind == "escape" {
		obs.Panicked, obs.Panic = recoverTo(func() {
			obs.Escaped = Bs(client.VerifEscapeQuotes(string(in.S)))
			obs.Base = Bs(filepath.Base(string(in.S)))
		})
		return obs
	}
	if in.OneP {
		old := goruntime.GOMAXPROCS(1)
		defer goruntime.GOMAXPROCS(old)
	}
	producers := c11Producers()
	_, obs.Registered = producers[string(in.Media)]
	// oracle: the registered producer's own encoding of the value
	var prodErr error
	if in.Payload == "value" {
		if p, ok := producers[string(in.Media)]; ok {
			obs.ProdReg = true
			var b bytes.Buffer
			// a value of its own, equal to the one the request is given
			pn, _ := recoverTo(func() { prodErr = p.Produce(&b, c11MakeValue(in.VType, []byte(in.Content))) })
			if pn && prodErr == nil {
				prodErr = errors.New("producer panicked")
			}
			obs.ProdOK = prodErr == nil
			obs.ProdOut = Bs(b.String())
		}
	}
	// oracle: DetectContentType on every buffer the code could reasonably hand to it
	seen := map[string]bool{}
	addSniff := func(b []byte) {
		if !seen[string(b)] {
			seen[string(b)] = true
			obs.Sniff = append(obs.Sniff, [2]Bs{Bs(b), Bs(http.DetectContentType(b))})
		}
	}
	pad := func(b []byte) []byte { return append(append([]byte{}, b...), make([]byte, 512-len(b))...) }
	recordSniff := func(files []c11FileField) {
	for _, ff := range files {
		for _, f := range ff.Files {
			if f.Declared != nil {
				continue
			}
			c := []byte(c11Content(f))
			if len(c) > 512 {
				c = c[:512]
			}
			addSniff(c)
			addSniff(pad(c))
			var first []byte
			for _, ch := range f.Chunks {
				if len(ch) > 0 {
					first = []byte(ch)
					break
				}
			}
			if len(first) > 512 {
				first = first[:512]
			}
			addSniff(first)
			addSniff(pad(first))
		}
	}
	}

	rt := client.New("example.com", "/", []string{"http"})
	rt.Producers = producers
	var streamPayload any
	if in.Payload == "reader" || in.Payload == "readcloser" {
		var cleanup func()
		streamPayload, cleanup = c11MakePayload(in)
		defer cleanup()
	}
	tmp := ""
	tmpdir := func() string {
		if tmp == "" {
			d, err := os.MkdirTemp("", "verif-c11-up-*")
			if err != nil {
				panic("c11: cannot create a temporary directory: " + err.Error())
			}
			tmp = d
		}
		return tmp
	}
	defer func() {
		if tmp != "" {
			_ = os.RemoveAll(tmp)
		}
	}()
	var valuePayload any
	if in.Payload == "value" {
		valuePayload = c11MakeValue(in.VType, []byte(in.Content))
		obs.ValueGo = fmt.Sprintf("%T", valuePayload)
	}
	mkWriter := func(in c11In, valuePayload, streamPayload any, record bool) runtime.ClientRequestWriter {
	return runtime.ClientRequestWriterFunc(func(req runtime.ClientRequest, _ strfmt.Registry) error {
		if in.Preset != nil {
			_ = req.SetHeaderParam("Content-Type", string(*in.Preset))
		}
		for _, f := range in.Form {
			_ = req.SetFormParam(string(f.Name), bsList(f.Values)...)
		}
		for _, ff := range in.Files {
			var fs []runtime.NamedReadCloser
			for j, f := range ff.Files {
				file, osPath := c11MakeFile(f, tmpdir)
				if osPath != "" && record {
					if obs.OSNames == nil {
						obs.OSNames = map[string]string{}
					}
					obs.OSNames[fmt.Sprintf("%s/%d", string(ff.Name), j)] = osPath
				}
				fs = append(fs, file)
			}
			_ = req.SetFileParam(string(ff.Name), fs...)
		}
		switch in.Payload {
		case "value":
			_ = req.SetBodyParam(valuePayload)
		case "reader", "readcloser":
			_ = req.SetBodyParam(streamPayload)
		}
		return nil
	})
	}
	// the other requests built on the same Runtime (c11Neighbour): built and, when asked, read to the end
	neighbour := func(k int) *http.Request {
		nin := c11Neighbour(in, k)
		var nv any
		if nin.Payload == "value" {
			nv = c11MakeValue(nin.VType, []byte(nin.Content))
		}
		var nauth runtime.ClientAuthInfoWriter
		if nin.Auth >= 0 {
			nauth = runtime.ClientAuthInfoWriterFunc(func(req runtime.ClientRequest, _ strfmt.Registry) error {
				for j := 0; j < nin.Auth; j++ {
					_ = req.GetBody()
				}
				return nil
			})
		}
		nop := &runtime.ClientOperation{
			ID: "neighbour", Method: nin.Method, PathPattern: "/x",
			ConsumesMediaTypes: []string{string(nin.Media)}, ProducesMediaTypes: []string{"application/json"},
			Params: mkWriter(nin, nv, nil, false), AuthInfo: nauth,
		}
		var nreq *http.Request
		ndone := make(chan struct{})
		go func() {
			defer close(ndone)
			_, _ = recoverTo(func() { nreq, _ = rt.CreateHttpRequest(nop) })
		}()
		select {
		case <-ndone:
		case <-time.After(10 * time.Second):
			return nil
		}
		return nreq
	}
	drain := func(reqs []*http.Request) {
		var wg sync.WaitGroup
		for _, nreq := range reqs {
			if nreq == nil || nreq.Body == nil {
				continue
			}
			wg.Add(1)
			go func(b io.ReadCloser) {
				defer wg.Done()
				_, _ = io.Copy(io.Discard, b)
				_ = b.Close()
			}(nreq.Body)
		}
		fin := make(chan struct{})
		go func() { wg.Wait(); close(fin) }()
		select {
		case <-fin:
		case <-time.After(10 * time.Second):
		}
	}
	if in.Dump != "" {
		// an earlier request of this process, sent; its dump becomes part of this request's data
		dump := []byte("POST /x HTTP/1.1\r\nHost: example.com\r\n")
		if nreq := neighbour(300); nreq != nil {
			dump = append(dump, "Content-Type: "+nreq.Header.Get("Content-Type")+"\r\n\r\n"...)
			if nreq.Body != nil {
				ch := make(chan []byte, 1)
				go func() {
					b, _ := io.ReadAll(nreq.Body)
					_ = nreq.Body.Close()
					ch <- b
				}()
				select {
				case b := <-ch:
					dump = append(dump, b...)
				case <-time.After(10 * time.Second):
				}
			}
		}
		obs.Dump, obs.HasDump, obs.DumpLen = Bs(dump), true, len(dump)
		in = c11ApplyDump(in, obs)
	}
	recordSniff(in.Files)
	writer := mkWriter(in, valuePayload, streamPayload, true)
	for k := 0; k < in.BuiltBefore; k++ {
		drain([]*http.Request{neighbour(100 + k)})
	}
	var auth runtime.ClientAuthInfoWriter
	if in.Auth >= 0 {
		auth = runtime.ClientAuthInfoWriterFunc(func(req runtime.ClientRequest, _ strfmt.Registry) error {
			for j := 0; j < in.Auth; j++ {
				b := req.GetBody()
				obs.Answers = append(obs.Answers, Bs(append([]byte(nil), b...)))
				obs.AnswerLen = append(obs.AnswerLen, len(b))
			}
			return nil
		})
	}
	op := &runtime.ClientOperation{
		ID: "op", Method: in.Method, PathPattern: "/x",
		ConsumesMediaTypes: []string{string(in.Media)}, ProducesMediaTypes: []string{"application/json"},
		Params: writer, AuthInfo: auth,
	}
	var req *http.Request
	var err error
	done := make(chan struct{})
	if in.Via == "submit" {
		// the real Submit; the transport of the harness records what it is handed and reads the body to its end
		var seen *http.Request
		var seenBody []byte
		rt.Transport = c11RTFunc(func(q *http.Request) (*http.Response, error) {
			seen = q
			if q.Body != nil {
				b, e := io.ReadAll(q.Body)
				_ = q.Body.Close()
				if e != nil {
					return nil, fmt.Errorf("transport: reading the request body: %w", e)
				}
				seenBody = b
				if seenBody == nil {
					seenBody = []byte{}
				}
			}
			return &http.Response{StatusCode: 204, Status: "204 No Content", Proto: "HTTP/1.1", ProtoMajor: 1, ProtoMinor: 1,
				Header: http.Header{}, Body: http.NoBody, Request: q}, nil
		})
		rt.Debug = in.Debug
		rt.SetLogger(c11NoLog{})
		op.Reader = runtime.ClientResponseReaderFunc(func(runtime.ClientResponse, runtime.Consumer) (interface{}, error) { return nil, nil })
		go func() {
			defer close(done)
			obs.Panicked, obs.Panic = recoverTo(func() { _, err = rt.Submit(op) })
		}()
		select {
		case <-done:
		case <-time.After(30 * time.Second):
			obs.Err, obs.ErrText = 2, "watchdog: Submit did not return"
			return obs
		}
		if !obs.Panicked && err == nil {
			if seen == nil {
				obs.Err, obs.ErrText = 2, "Submit succeeded without handing a request to the transport"
				return obs
			}
			req = &http.Request{Header: seen.Header}
			if seenBody != nil {
				req.Body = io.NopCloser(bytes.NewReader(seenBody))
			}
		}
	} else {
	go func() {
		defer close(done)
		obs.Panicked, obs.Panic = recoverTo(func() { req, err = rt.CreateHttpRequest(op) })
	}()
	select {
	case <-done:
	case <-time.After(20 * time.Second):
		obs.Err, obs.ErrText = 2, "watchdog: CreateHttpRequest did not return"
		return obs
	}
	}
	if obs.Panicked {
		return obs
	}
	if err != nil {
		obs.Err, obs.ErrText = 2, err.Error()
		if prodErr != nil && err.Error() == prodErr.Error() {
			obs.Err = 1
		}
		return obs
	}
	if vs, ok := req.Header["Content-Type"]; ok && len(vs) > 0 {
		obs.HasCT, obs.CT = true, Bs(vs[0])
		if mt, params, e := mime.ParseMediaType(vs[0]); e == nil {
			obs.HasMedia, obs.CTMedia, obs.Boundary = true, Bs(mt), Bs(params["boundary"])
		}
	}
	// the requests built while this one waits to be sent
	var inflight []*http.Request
	for k := 0; k < in.BuiltAfter; k++ {
		if k == 0 {
			time.Sleep(200 * time.Microsecond) // this request's writer goroutine gets to its first write
		}
		inflight = append(inflight, neighbour(k))
		time.Sleep(200 * time.Microsecond)
	}
	defer drain(inflight)
	// read what would be sent
	obs.SentOK = true
	if req.Body != nil {
		type res struct {
			b []byte
			e error
		}
		ch := make(chan res, 1)
		go func() {
			b, e := io.ReadAll(req.Body)
			ch <- res{b, e}
		}()
		select {
		case r := <-ch:
			obs.Sent = Bs(r.b)
			if r.e != nil {
				obs.SentOK = false
			}
		case <-time.After(10 * time.Second):
			obs.SentOK = false
			obs.ErrText = "watchdog: the request body never ended"
		}
	}
	obs.SentLen = len(obs.Sent)
	obs.SentHead = obs.Sent
	if len(obs.SentHead) > 120 {
		obs.SentHead = obs.SentHead[:120]
	}
	if obs.Boundary != "" && obs.SentOK {
		mr := multipart.NewReader(strings.NewReader(string(obs.Sent)), string(obs.Boundary))
		ok := true
		var parts []c11Part
		for {
			p, e := mr.NextRawPart()
			if e == io.EOF {
				break
			}
			if e != nil {
				ok = false
				break
			}
			var wp c11Part
			wp.Disp = Bs(p.Header.Get("Content-Disposition"))
			if _, params, e2 := mime.ParseMediaType(string(wp.Disp)); e2 == nil {
				wp.Name = Bs(params["name"])
				if fn, has := params["filename"]; has {
					wp.HasFilename, wp.Filename = true, Bs(fn)
				}
			} else {
				wp.Name = Bs("?unparsable disposition: " + e2.Error())
			}
			if vs, has := p.Header["Content-Type"]; has && len(vs) > 0 {
				wp.HasCT, wp.CT = true, Bs(vs[0])
			}
			data, e3 := io.ReadAll(p)
			if e3 != nil {
				ok = false
				break
			}
			wp.Data, wp.DataLen = Bs(data), len(data)
			wp.DataHead = wp.Data
			if len(wp.DataHead) > 40 {
				wp.DataHead = wp.DataHead[:40]
			}
			parts = append(parts, wp)
		}
		if ok {
			obs.HasParts, obs.Parts = true, parts
		}
	}
	if obs.SentOK && !obs.HasParts {
		if vals, e := url.ParseQuery(string(obs.Sent)); e == nil {
			obs.HasQuery = true
			keys := make([]string, 0, len(vals))
			for k := range vals {
				keys = append(keys, k)
			}
			sort.Strings(keys)
			for _, k := range keys {
				for _, v := range vals[k] {
					obs.Query = append(obs.Query, c11Pair{Bs(k), Bs(v)})
				}
			}
		}
	}
	// the order in which the two Go maps were iterated, read off the wire
	obs.FormOrder, obs.FileOrder = c11WireOrder(in, obs.Parts)
	return obs
}

func c11WireOrder(in c11In, parts []c11Part) ([]c11Field, []c11FileField) {
	formPos, filePos := map[string]int{}, map[string]int{}
	for i, p := range parts {
		m := formPos
		if p.HasFilename {
			m = filePos
		}
		if _, ok := m[string(p.Name)]; !ok {
			m[string(p.Name)] = i
		}
	}
	pos := func(m map[string]int, k Bs) int {
		if i, ok := m[string(k)]; ok {
			return i
		}
		return 1 << 30
	}
	form := append([]c11Field(nil), in.Form...)
	files := append([]c11FileField(nil), in.Files...)
	sort.SliceStable(form, func(a, b int) bool { return pos(formPos, form[a].Name) < pos(formPos, form[b].Name) })
	sort.SliceStable(files, func(a, b int) bool { return pos(filePos, files[a].Name) < pos(filePos, files[b].Name) })
	return form, files
}

// what a reader payload holds and how far the caller had read it
func c11Unread(in c11In) string {
	if len(in.Consumed) == 0 {
		return coqBytes(c11FP(string(in.Content)))
	}
	return fmt.Sprintf("(reader_at %s %s)", coqBytes(string(in.Consumed)+string(in.Content)), coqNat(len(in.Consumed)))
}

// the name of an upload: source_name of how the caller made it (ClientBody.v: fsource, named_reader)
func c11SourceTerm(f c11File, osPath string) string {
	name := coqBytes(string(f.Name))
	switch f.Src {
	case "named", "named-bare":
		return "(source_name (named_reader " + name + " FPlain))"
	case "named-own":
		return "(source_name (named_reader " + name + " (FOwn " + coqBytes(string(f.Inner)) + ")))"
	case "renamed":
		return "(source_name (named_reader " + name + " (named_reader " + coqBytes(string(f.Inner)) + " FPlain)))"
	case "named-osfile":
		return "(source_name (named_reader " + name + " (FOwn " + coqBytes(osPath) + ")))"
	case "osfile":
		return "(source_name (FOwn " + coqBytes(osPath) + "))"
	}
	return name
}

func c11OptBs(b *Bs) string {
	if b == nil {
		return "None"
	}
	return "(Some " + coqBytes(string(*b)) + ")"
}

func (c11) Coq(inAny any, obsAny any) string {
	in, obs := c11Expand(inAny.(c11In)), obsAny.(c11Obs)
	in = c11ApplyDump(in, obs)
	if in.Kind == "escape" {
		return fmt.Sprintf("CEscape %s %s %s", coqBytes(string(in.S)), coqBytes(string(obs.Escaped)), coqBytes(string(obs.Base)))
	}
	form, files := obs.FormOrder, obs.FileOrder
	if form == nil {
		form = in.Form
	}
	if files == nil {
		files = in.Files
	}
	payload := "PNil"
	switch in.Payload {
	case "value":
		payload = "PValue"
	case "reader":
		payload = "(PReader " + c11Unread(in) + ")"
		if c11IsBufferType(in) {
			payload = "(PBuffer " + c11Unread(in) + ")"
		}
	case "readcloser":
		payload = "(PReadCloser " + c11Unread(in) + ")"
	}
	formT := coqList(form, func(f c11Field) string { return coqPair(coqBytes(string(f.Name)), coqBytesList(bsList(f.Values))) })
	filesT := coqList(files, func(ff c11FileField) string {
		j := -1
		return coqPair(coqBytes(string(ff.Name)), coqList(ff.Files, func(f c11File) string {
			j++
			name := c11SourceTerm(f, obs.OSNames[fmt.Sprintf("%s/%d", string(ff.Name), j)])
			chunks := bsList(f.Chunks)
			if c := c11Content(f); len(c) > c11BigThreshold { // one fingerprint for the content, however it was chunked
				chunks = []string{c11FP(c)}
			}
			return fmt.Sprintf("(mkfile %s %s %s)", name, coqBytesList(chunks), c11OptBs(f.Declared))
		}))
	})
	prod := "None"
	if obs.ProdReg {
		if obs.ProdOK {
			prod = "(Some (Some " + coqBytes(c11FP(string(obs.ProdOut))) + "))"
		} else {
			prod = "(Some None)"
		}
	}
	bin := fmt.Sprintf("(mkbin %s %s %s %s %s %s %s)", coqBytes(string(in.Media)), c11OptBs(in.Preset), payload, formT, filesT, prod, coqBytes(string(obs.Boundary)))
	// the sniffing oracle for a big file: keyed by the fingerprint that stands for its content, answering what the real
	// function says about the content's first 512 bytes
	for _, ff := range in.Files {
		for _, f := range ff.Files {
			if c := c11Content(f); f.Declared == nil && len(c) > c11BigThreshold {
				obs.Sniff = append(obs.Sniff, [2]Bs{Bs(c11FP(c)), Bs(http.DetectContentType([]byte(c[:512])))})
			}
		}
	}
	tab := coqList(obs.Sniff, func(e [2]Bs) string { return coqPair(coqBytes(string(e[0])), coqBytes(string(e[1]))) })
	auth := "None"
	if in.Auth >= 0 {
		auth = fmt.Sprintf("(Some %d)", in.Auth)
	}
	parts := "None"
	if obs.HasParts {
		parts = "(Some " + coqList(obs.Parts, func(p c11Part) string {
			return fmt.Sprintf("(mkw %s %s %s %s %s)", coqBytes(string(p.Disp)), coqBytes(string(p.Name)),
				coqOpt(p.HasFilename, coqBytes(string(p.Filename))), coqOpt(p.HasCT, coqBytes(string(p.CT))), coqBytes(c11FP(string(p.Data))))
		}) + ")"
	}
	query := "None"
	if obs.HasQuery {
		query = "(Some " + coqList(obs.Query, func(p c11Pair) string { return coqPair(coqBytes(string(p.K)), coqBytes(string(p.V))) }) + ")"
	}
	sent := string(obs.Sent)
	if obs.HasParts {
		sent = "" // decoded into parts; the raw multipart text is not compared inside Coq
	}
	answers := coqList(obs.Answers, func(a Bs) string {
		if string(a) == string(obs.Sent) {
			return "None"
		}
		return "(Some " + coqBytes(c11FP(string(a))) + ")"
	})
	o := fmt.Sprintf("(mkobs %s %d %s %s %s %s %s %s %s)", coqBool(obs.Panicked), obs.Err,
		coqOpt(obs.HasCT, coqBytes(string(obs.CT))), coqOpt(obs.HasMedia, coqBytes(string(obs.CTMedia))),
		coqBool(obs.SentOK), coqBytes(c11FP(sent)), parts, query, answers)
	return fmt.Sprintf("CBody %s %s %s %s %s", bin, tab, coqBool(obs.Registered), auth, o)
}

func (c11) Classify(inAny any, obsAny any) []string {
	in, obs := inAny.(c11In), obsAny.(c11Obs)
	var kf []string
	if in.Kind == "body" && len(in.Files) > 0 && strings.ToLower(string(in.Media)) == runtime.URLencodedFormMime &&
		obs.Err == 0 && !obs.Panicked && strings.ToLower(string(obs.CTMedia)) == runtime.URLencodedFormMime && obs.HasParts {
		kf = append(kf, "clientbody.files_under_urlencoded_media_type")
	}
	return kf
}

func c11LenClass(n int) string {
	switch {
	case n == 0:
		return "0"
	case n == 1:
		return "1"
	case n < 511:
		return "<511"
	case n == 511:
		return "511"
	case n == 512:
		return "512"
	case n == 513:
		return "513"
	case n <= 4096:
		return "<=4096"
	default:
		return ">4096"
	}
}

func (c11) Category(inAny any, obsAny any) (string, bool) {
	in, obs := inAny.(c11In), obsAny.(c11Obs)
	if in.Kind == "escape" {
		return "escape", strings.ContainsAny(string(in.S), "\"\\/")
	}
	bigTag := ""
	if c11IsBig(in) {
		n := in.BigLen
		for _, ff := range in.Files {
			for _, f := range ff.Files {
				if f.BigLen > n {
					n = f.BigLen
				}
			}
		}
		switch {
		case n < 1<<20-4096:
			bigTag = "/big<1MiB"
		case n <= 1<<20+4096:
			bigTag = "/big~1MiB"
		case n <= 4<<20:
			bigTag = "/big<=4MiB"
		default:
			bigTag = "/big>4MiB"
		}
		in = c11Expand(in)
	}
	auth := "noauth"
	switch {
	case in.Auth == 0:
		auth = "getbody0"
	case in.Auth == 1:
		auth = "getbody1"
	case in.Auth > 1:
		auth = "getbodyN"
	}
	outcome := "ok"
	switch {
	case obs.Panicked:
		outcome = "panic"
	case obs.Err != 0:
		outcome = "error"
	}
	kind := in.Payload
	if (kind == "reader" || kind == "readcloser") && in.RType != "" {
		kind += ":" + in.RType
	}
	if kind == "value" && in.VType != "" {
		kind += ":" + in.VType
	}
	if len(in.Consumed) > 0 {
		if in.SeekTo {
			kind += "@seeked"
		} else {
			kind += "@partly-read"
		}
	}
	if len(in.Form) > 0 || len(in.Files) > 0 {
		mp := len(in.Files) > 0 || string(in.Media) == runtime.MultipartFormMime
		switch {
		case !mp:
			kind = "urlencoded"
		case len(in.Files) == 0:
			kind = "multipart-fields"
		default:
			kind = "multipart-files"
			if len(in.Form) > 0 {
				kind = "multipart-both"
			}
			// first sniffed file: length class, chunking
			for _, ff := range in.Files {
				for _, f := range ff.Files {
					if f.Declared == nil {
						ch := "whole"
						if len(f.Chunks) > 1 {
							ch = "chunked"
						}
						kind += "/sniff" + c11LenClass(len(c11Content(f))) + "/" + ch
						goto out
					}
				}
			}
			kind += "/declared"
		out:
			// how the first upload that is not a plain caller type was made
			for _, ff := range in.Files {
				for _, f := range ff.Files {
					if f.Src != "" {
						kind += "/src:" + f.Src
						goto out2
					}
				}
			}
		out2:
		}
		if in.Payload != "nil" {
			kind += "+payload"
		}
	}
	if in.Kind == "body" {
		styles, ext := map[string]bool{}, false
		for _, ff := range in.Files {
			for _, f := range ff.Files {
				if f.Reads != "" {
					styles[f.Reads] = true
				}
				if f.Declared == nil && mime.TypeByExtension(filepath.Ext(filepath.Base(string(f.Name)))) != "" {
					ext = true
				}
			}
		}
		for _, st := range c11ReadStyles {
			if styles[st] {
				bigTag += "/" + st
			}
		}
		if ext {
			bigTag += "/typed-extension"
		}
		if in.Dump != "" {
			bigTag += "/quotes-earlier-request-in-" + in.Dump
		}
	}
	if in.BuiltBefore > 0 {
		bigTag += "/after-other-requests"
	}
	if in.BuiltAfter > 0 {
		bigTag += "/others-in-flight"
	}
	if in.OneP {
		bigTag += "/one-processor"
	}
	if in.Via == "submit" {
		bigTag += "/via-submit"
		if in.Debug {
			bigTag += "+debug"
		}
	}
	return kind + bigTag + "/" + auth + "/" + outcome, outcome == "ok" && obs.SentLen > 0
}

// ---------- generator ----------

var c11Medias = []string{
	"application/json", "application/json", "text/plain", "application/octet-stream", "application/xml",
	"multipart/form-data", "multipart/form-data", "application/x-www-form-urlencoded", "application/x-www-form-urlencoded",
	"Application/X-WWW-Form-Urlencoded", "Multipart/Form-Data", "multipart/form-data; charset=utf-8",
	"application/x-tag1", "application/x-tag2", "application/x-fail", "application/x-unregistered", "text/csv",
}

var c11Signatures = []string{
	"", "", "", "\x89PNG\r\n\x1a\n", "GIF89a", "%PDF-1.4\n", "<html><body>", "<?xml version=\"1.0\"?>", "\xef\xbb\xbf", "\x1f\x8b\x08",
	"PK\x03\x04", "\xff\xd8\xff", "{\"a\":1}", "\x00\x01\x02",
}

func c11Bytes(r *rand.Rand, n int, binary bool) []byte {
	b := make([]byte, n)
	const text = "abcdefghijklmnopqrstuvwxyz ABCDEFG 0123456789 .,;:-_\n\t\"'\\/<>&=%+"
	for i := range b {
		if binary {
			b[i] = byte(r.Intn(256))
		} else {
			b[i] = text[r.Intn(len(text))]
		}
	}
	return b
}

func c11Min(a, b int) int {
	if a < b {
		return a
	}
	return b
}

func c11FileContent(r *rand.Rand, n int) []byte {
	sig := c11Signatures[r.Intn(len(c11Signatures))]
	b := c11Bytes(r, n, r.Intn(3) == 0)
	copy(b, sig)
	return b
}

func c11Chunk(r *rand.Rand, b []byte) []Bs {
	switch r.Intn(5) {
	case 0, 1:
		return []Bs{Bs(b)}
	case 2: // a short first read
		if len(b) < 2 {
			return []Bs{Bs(b)}
		}
		k := 1 + r.Intn(c11Min(len(b)-1, 40))
		return []Bs{Bs(b[:k]), Bs(b[k:])}
	case 3: // a first read of more than the window
		if len(b) < 700 {
			return []Bs{Bs(b)}
		}
		k := 513 + r.Intn(len(b)-600)
		return []Bs{Bs(b[:k]), Bs(b[k:])}
	default:
		var out []Bs
		for len(b) > 0 {
			k := 1 + r.Intn(c11Min(len(b), 300))
			out = append(out, Bs(b[:k]))
			b = b[k:]
		}
		if out == nil {
			out = []Bs{}
		}
		return out
	}
}

var c11NameParts = []string{"a", "file", "f 1", "x\"y", "back\\slash", "q\"\\\"", "semi;colon", "eq=val", "caf\xc3\xa9", "%41", "名", "'", "..", ".", "", "name*", "a,b"}

func c11Name(r *rand.Rand) string {
	if r.Intn(3) == 0 {
		return string(c11Bytes(r, 1+r.Intn(6), false))
	}
	return c11NameParts[r.Intn(len(c11NameParts))]
}

func c11CleanName(s string) string {
	// header text: no CR, LF, NUL (they would be a different finding class: header injection), no surrounding blanks
	s = strings.Map(func(c rune) rune {
		if c == '\r' || c == '\n' || c == 0 || c == '\t' {
			return '_'
		}
		return c
	}, s)
	return s
}

// file name extensions: the ones mime.TypeByExtension knows by itself, some the system tables may know, unknown ones, odd spellings
var c11Exts = []string{".pdf", ".png", ".json", ".html", ".htm", ".css", ".js", ".mjs", ".xml", ".svg", ".gif", ".jpg", ".jpeg", ".wasm", ".webp", ".avif",
	".txt", ".csv", ".zip", ".gz", ".tar.gz", ".mp4", ".bin", ".exe", ".PNG", ".Html", ".unknownext", ".", ".pdf ", ".p\"df"}

func c11FileName(r *rand.Rand) string {
	n := c11CleanName(c11Name(r))
	if r.Intn(5) < 2 { // a name with an extension
		n += c11Exts[r.Intn(len(c11Exts))]
	}
	switch r.Intn(6) {
	case 0:
		return "/tmp/dir/" + n
	case 1:
		return "rel/" + c11CleanName(c11Name(r)) + "/" + n
	case 2:
		return n + "/"
	case 3:
		return "///"
	case 4:
		return "C:\\dir\\" + n
	}
	return n
}

var c11Lens = []int{0, 1, 2, 11, 11, 100, 100, 511, 512, 513, 600, 1024, 4096}
var c11Declared = []string{"image/png", "text/plain; charset=utf-8", "application/octet-stream", "", "x", "text/html"}

func c11GenFile(r *rand.Rand, big bool) c11File {
	n := c11Lens[r.Intn(len(c11Lens))]
	if r.Intn(4) == 0 {
		n = r.Intn(700)
	}
	if big {
		n = 70000
	}
	f := c11File{Name: Bs(c11FileName(r)), Chunks: c11Chunk(r, c11FileContent(r, n))}
	if r.Intn(10) < 3 {
		d := Bs(c11Declared[r.Intn(len(c11Declared))])
		f.Declared = &d
	}
	if r.Intn(3) == 0 {
		f.Src = c11FileSources[r.Intn(len(c11FileSources))]
		if f.Src == "named-own" || f.Src == "renamed" {
			f.Inner = Bs(c11FileName(r))
		}
		if f.Src != "" {
			f.Declared = nil
		}
	}
	switch r.Intn(12) { // how the source's Reads end
	case 0, 1, 2:
		f.Reads = "eof-with-data"
	case 3:
		f.Reads = "empty-reads"
	}
	return f
}

// c11BigLen: a length between 100 kB and 5 MiB, half of them next to a power of two
func c11BigLen(r *rand.Rand) int {
	if r.Intn(2) == 0 {
		return (128<<10)<<r.Intn(6) + r.Intn(5) - 2
	}
	return c11BigThreshold + 1 + r.Intn(5<<20)
}

func c11GenForm(r *rand.Rand) []c11Field {
	var out []c11Field
	for j := r.Intn(4); j > 0; j-- {
		f := c11Field{Name: Bs(c11CleanName(c11Name(r))), Values: []Bs{}}
		for k := r.Intn(4); k > 0; k-- {
			f.Values = append(f.Values, Bs(c11Bytes(r, r.Intn(30), r.Intn(4) == 0)))
		}
		out = append(out, f)
	}
	return c11DedupFields(out)
}

func (c11) Gen(r *rand.Rand, tier string, i int) any {
	if r.Intn(12) == 0 {
		s := c11Name(r)
		if r.Intn(2) == 0 {
			s = c11FileName(r)
		}
		if r.Intn(3) == 0 {
			s = string(c11Bytes(r, r.Intn(12), true))
		}
		return c11In{Kind: "escape", S: Bs(s), Auth: -1}
	}
	in := c11In{Kind: "body", Method: []string{"POST", "PUT", "GET", "PATCH", "DELETE"}[r.Intn(5)], Auth: r.Intn(5) - 1}
	in.Media = Bs(c11Medias[r.Intn(len(c11Medias))])
	if r.Intn(6) == 0 {
		p := Bs([]string{"application/json", "text/plain", "application/x-preset"}[r.Intn(3)])
		in.Preset = &p
	}
	in.Payload = "nil"
	shape := r.Intn(10)
	if shape < 4 || r.Intn(5) == 0 {
		in.Payload = []string{"value", "value", "reader", "readcloser", "nil"}[r.Intn(5)]
		n := []int{0, 1, 5, 40, 40, 600, 3000}[r.Intn(7)]
		in.Content = Bs(c11Bytes(r, n, in.Payload != "value" && r.Intn(2) == 0))
		switch in.Payload {
		case "reader":
			in.RType = c11ReaderTypes[r.Intn(len(c11ReaderTypes))]
		case "readcloser":
			in.RType = c11ReadCloserTypes[r.Intn(len(c11ReadCloserTypes))]
		case "value":
			if r.Intn(3) > 0 {
				in.VType = c11ValueTypes[r.Intn(len(c11ValueTypes))]
			}
		}
		if (in.Payload == "reader" || in.Payload == "readcloser") && r.Intn(25) == 0 { // a body of up to 5 MiB
			in.Content, in.BigLen, in.BigSeed = "", c11BigLen(r), r.Intn(1000)
			if in.Auth < 0 && r.Intn(2) == 0 {
				in.Auth = 1 + r.Intn(2)
			}
		}
		if in.Payload != "value" && in.BigLen == 0 && r.Intn(3) == 0 { // the caller had read a prefix (or seeked past it)
			in.Consumed = Bs(c11Bytes(r, []int{1, 4, 4, 16, 100, 600}[r.Intn(6)], r.Intn(2) == 0))
			in.SeekTo = r.Intn(2) == 0
		}
	}
	if shape >= 4 && shape != 5 {
		in.Form = c11GenForm(r)
	}
	if shape >= 5 {
		big := r.Intn(400) == 0
		for j := 1 + r.Intn(2); j > 0; j-- {
			ff := c11FileField{Name: Bs(c11CleanName(c11Name(r))), Files: []c11File{}}
			for k := r.Intn(4); k > 0; k-- {
				ff.Files = append(ff.Files, c11GenFile(r, big && k == 1 && j == 1))
			}
			in.Files = append(in.Files, ff)
		}
		in.Files = c11DedupFiles(in.Files)
		if big && in.Auth > 1 {
			in.Auth = 1
		}
		if r.Intn(30) == 0 && len(in.Files) > 0 && len(in.Files[0].Files) > 0 { // an upload of up to 5 MiB
			f := &in.Files[0].Files[r.Intn(len(in.Files[0].Files))]
			f.Chunks, f.BigLen, f.BigSeed = nil, c11BigLen(r), r.Intn(1000)
			f.BigChunk = []int{0, 1000, 4096, 32 << 10, 64<<10 + 1, 1 << 20}[r.Intn(6)]
			if in.Auth < 0 && r.Intn(2) == 0 {
				in.Auth = 1 + r.Intn(2)
			}
		}
	}
	// data that quotes an earlier request sent by this process
	if r.Intn(8) == 0 {
		in.Dump = []string{"file", "value"}[r.Intn(2)]
		if len(in.Files) == 0 || len(in.Files[0].Files) == 0 {
			in.Dump = "value"
		} else if len(in.Form) == 0 || len(in.Form[0].Values) == 0 {
			in.Dump = "file"
		}
	}
	// requests in flight together / one after the other on the same Runtime (not next to a big content)
	if !c11IsBig(in) && !c11Big70k(in) && (len(in.Files) > 0 || in.Payload == "value" || len(in.Form) > 0) {
		if r.Intn(3) == 0 {
			in.BuiltAfter = 1 + r.Intn(4)
		}
		if r.Intn(6) == 0 {
			in.BuiltBefore = 1 + r.Intn(2)
		}
		in.OneP = r.Intn(2) == 0
	}
	// sent by the real Submit (one case in four), with request logging on for two in three of them
	if r.Intn(4) == 0 {
		in.Via, in.Debug = "submit", r.Intn(3) > 0
	}
	return c11Norm(in)
}

// c11EnumSubmit: requests sent by the real Runtime.Submit, with request logging off and on: every dynamic type of a reader payload
// (fresh, or handed over partly read) x the auth writer absent / not asking / asking, multipart documents, url-encoded forms,
// value payloads under every media type, no payload, and streamed bodies of more than a MiB.
func c11EnumSubmit(r *rand.Rand) []any {
	var out []any
	add := func(in c11In, dbg bool) {
		in.Kind, in.Via, in.Debug = "body", "submit", dbg
		out = append(out, c11Norm(in))
	}
	for _, dbg := range []bool{false, true} {
		for _, pl := range []string{"reader", "readcloser"} {
			types := c11ReaderTypes
			if pl == "readcloser" {
				types = c11ReadCloserTypes
			}
			for ti, rt := range types {
				for _, auth := range []int{-1, 0, 1} {
					for k, n := range []int{1, 3000} {
						add(c11In{Method: []string{"POST", "PUT"}[k], Media: "application/octet-stream", Payload: pl, RType: rt,
							Content: Bs(c11Bytes(r, n, k == 1)), Auth: auth}, dbg)
					}
				}
				add(c11In{Method: "PATCH", Media: "application/json", Payload: pl, RType: rt, Consumed: Bs(c11Bytes(r, 4, false)),
					SeekTo: ti%2 == 0, Content: Bs(c11Bytes(r, 40, false)), Auth: -1}, dbg)
				add(c11In{Method: "POST", Media: "application/octet-stream", Payload: pl, RType: rt, Content: "", Auth: -1}, dbg)
			}
		}
		png := Bs("image/png")
		files := []c11FileField{{Name: "up", Files: []c11File{{Name: "dir/a.txt", Chunks: []Bs{"plain ", "text"}}, {Name: "b.png", Chunks: []Bs{"\x89PNG\r\n\x1a\n....."}, Declared: &png}}},
			{Name: "other", Files: []c11File{{Name: "c.bin", Chunks: []Bs{Bs(c11Bytes(r, 700, true))}, Src: "named"}}}}
		form := []c11Field{{Name: "note", Values: []Bs{"v 1", "v&2"}}, {Name: "k", Values: []Bs{""}}}
		for _, auth := range []int{-1, 0, 1} {
			add(c11In{Method: "POST", Media: "multipart/form-data", Payload: "nil", Auth: auth, Files: files}, dbg)
			add(c11In{Method: "POST", Media: "multipart/form-data", Payload: "nil", Auth: auth, Form: form}, dbg)
			add(c11In{Method: "PUT", Media: "application/json", Payload: "reader", Content: "ignored", Auth: auth, Form: form, Files: files}, dbg)
			add(c11In{Method: "POST", Media: "multipart/form-data", Payload: "nil", Auth: auth, BuiltBefore: 1,
				Files: []c11FileField{{Name: "file", Files: []c11File{{Name: "f.bin", Chunks: []Bs{Bs(c11Bytes(r, 513, false))}, Reads: "eof-with-data"}}}}}, dbg)
			add(c11In{Method: "POST", Media: "application/x-www-form-urlencoded", Payload: "nil", Auth: auth, Form: form}, dbg)
			add(c11In{Method: "POST", Media: "application/json", Payload: "nil", Auth: auth}, dbg)
		}
		seenMedia := map[string]bool{}
		for mi, m := range c11Medias {
			if seenMedia[m] {
				continue
			}
			seenMedia[m] = true
			add(c11In{Method: "POST", Media: Bs(m), Payload: "value", VType: c11ValueTypes[mi%len(c11ValueTypes)], Content: "payload text", Auth: []int{-1, 1}[mi%2]}, dbg)
		}
		for ki, k := range []struct{ pl, rt string }{{"reader", ""}, {"readcloser", "os.File"}, {"reader", "bytes.Buffer"}} {
			add(c11In{Method: "POST", Media: "application/octet-stream", Payload: k.pl, RType: k.rt, BigLen: 1<<20 + 1 + ki, BigSeed: 40 + ki, Auth: []int{-1, -1, 1}[ki]}, dbg)
		}
		add(c11In{Method: "POST", Media: "multipart/form-data", Payload: "nil", Auth: -1,
			Files: []c11FileField{{Name: "file", Files: []c11File{{Name: "dir/big.bin", BigLen: 1<<20 + 300, BigSeed: 9, BigChunk: 32 << 10}}}}}, dbg)
	}
	return out
}

// c11Big70k: the case has an upload of tens of kilobytes
func c11Big70k(in c11In) bool {
	for _, ff := range in.Files {
		for _, f := range ff.Files {
			if len(c11Content(f)) > 20000 {
				return true
			}
		}
	}
	return false
}

// c11BigSizes: lengths around the powers of two a buffer limit is likely to be (128 KiB, 256 KiB, 1 MiB, 4 MiB, 8 MiB) and between
var c11BigSizes = []int{128<<10 + 1, 256<<10 + 1, 1<<20 - 1, 1 << 20, 1<<20 + 1, 3<<20 + 17, 4<<20 + 1, 8<<20 + 1}

// c11EnumBig: streamed bodies of several MiB (reader payloads of the main dynamic types, multipart documents with a big upload)
// x the auth writer absent / not asking / asking once / asking twice. What GetBody hands to the auth writer must be what is sent
// at every size; so must the sniffed type, the part's data and the caller's content.
func c11EnumBig(tier string) []any {
	var out []any
	sizes := c11BigSizes
	if tier == "thorough" {
		sizes = append(append([]int{}, sizes...), 32<<20+1, 33<<20)
	}
	auths := []int{-1, 0, 1, 2}
	kinds := []struct{ pl, rt string }{{"reader", ""}, {"readcloser", ""}, {"reader", "bytes.Buffer"}, {"readcloser", "os.File"},
		{"reader", "writerto"}, {"readcloser", "nopcloser-buffer"}, {"reader", "bufio.Reader"}}
	for ki, k := range kinds {
		for si, n := range sizes {
			for _, auth := range auths {
				if ki >= 2 && n > 4<<20 && auth != 2 { // the biggest ones: all auth variants only for the two plain kinds
					continue
				}
				out = append(out, c11Norm(c11In{Kind: "body", Method: []string{"POST", "PUT"}[si%2], Media: "application/octet-stream",
					Payload: k.pl, RType: k.rt, BigLen: n, BigSeed: ki*100 + si, Auth: auth}))
			}
		}
	}
	// multipart documents: the document is a little longer than the upload, so lengths just below a limit matter as well
	png := Bs("image/png")
	for si, n := range []int{128<<10 + 1, 1<<20 - 2000, 1<<20 - 300, 1 << 20, 1<<20 + 1, 3<<20 + 17, 8<<20 + 1} {
		for _, auth := range auths {
			one := c11File{Name: "dir/big.bin", BigLen: n, BigSeed: si, BigChunk: 32 << 10}
			out = append(out, c11Norm(c11In{Kind: "body", Method: "POST", Media: "multipart/form-data", Payload: "nil", Auth: auth,
				Files: []c11FileField{{Name: "file", Files: []c11File{one}}}}))
			if n > 4<<20 {
				continue
			}
			two := c11File{Name: "big.png", BigLen: n, BigSeed: si + 3, BigChunk: 0, Declared: &png}
			out = append(out, c11Norm(c11In{Kind: "body", Method: "POST", Media: "multipart/form-data", Payload: "nil", Auth: auth,
				Form:  []c11Field{{Name: "note", Values: []Bs{"v 1", "v2"}}},
				Files: []c11FileField{{Name: "up", Files: []c11File{{Name: "small.txt", Chunks: []Bs{"plain text"}}, two}}}}))
			three := c11File{Name: "named.dat", BigLen: n, BigSeed: si + 5, BigChunk: 4096 + 1, Src: "named"}
			out = append(out, c11Norm(c11In{Kind: "body", Method: "PUT", Media: "application/json", Payload: "reader", Content: "ignored payload", Auth: auth,
				Files: []c11FileField{{Name: "a", Files: []c11File{three}}, {Name: "b", Files: []c11File{{Name: "tail.txt", Chunks: []Bs{"t", "ail"}}}}}}))
		}
	}
	// a big value payload goes through the producer into the request's own buffer: no streaming, the same answers
	for _, auth := range []int{-1, 2} {
		out = append(out, c11Norm(c11In{Kind: "body", Method: "POST", Media: "text/plain", Payload: "value", BigLen: 1<<20 + 1, BigSeed: 2, Auth: auth}))
		out = append(out, c11Norm(c11In{Kind: "body", Method: "POST", Media: "application/octet-stream", Payload: "value", VType: "bytes", BigLen: 2<<20 + 5, BigSeed: 3, Auth: auth}))
	}
	return out
}

func (c11) Enumerate(tier string) []any {
	var out []any
	r := rand.New(rand.NewSource(11))
	// every length around the sniffing window x text/binary signatures x chunking x auth asking or not
	for _, n := range []int{0, 1, 11, 511, 512, 513, 4096, 70000} {
		for _, sig := range []string{"", "\x89PNG\r\n\x1a\n", "<html><body>", "\x00\x01\x02"} {
			if n == 70000 && sig != "" && sig != "\x89PNG\r\n\x1a\n" {
				continue
			}
			b := c11Bytes(r, n, false)
			copy(b, sig)
			for ch := 0; ch < 3; ch++ {
				chunks := []Bs{Bs(b)}
				if ch == 1 && n >= 2 {
					chunks = []Bs{Bs(b[:1]), Bs(b[1:])}
				} else if ch == 2 && n > 100 {
					chunks = []Bs{Bs(b[:100]), Bs(b[100:])}
				} else if ch > 0 {
					continue
				}
				for _, auth := range []int{-1, 1} {
					if n == 70000 && ch > 0 && auth == 1 {
						continue
					}
					out = append(out, c11In{Kind: "body", Method: "POST", Media: "multipart/form-data", Payload: "nil", Auth: auth,
						Files: []c11FileField{{Name: "file", Files: []c11File{{Name: Bs(fmt.Sprintf("dir/f%d.bin", n)), Chunks: chunks}}}}})
					if n != 70000 && ch == 0 && auth == -1 {
						// the same upload with three other requests built before its body is read, and after two others were sent
						two := []c11File{{Name: Bs(fmt.Sprintf("dir/f%d.bin", n)), Chunks: chunks}, {Name: "second.txt", Chunks: []Bs{"plain text of the second file"}}}
						out = append(out, c11In{Kind: "body", Method: "POST", Media: "multipart/form-data", Payload: "nil", Auth: auth, BuiltAfter: 3,
							Files: []c11FileField{{Name: "file", Files: two}}})
						out = append(out, c11In{Kind: "body", Method: "POST", Media: "multipart/form-data", Payload: "nil", Auth: auth, BuiltAfter: 2, OneP: true,
							Files: []c11FileField{{Name: "file", Files: two}}})
						out = append(out, c11In{Kind: "body", Method: "POST", Media: "multipart/form-data", Payload: "nil", Auth: auth, BuiltBefore: 2,
							Files: []c11FileField{{Name: "file", Files: two}}})
					}
				}
			}
		}
	}
	// how the source's Reads end x every length around the sniffing window x signatures x chunking
	for _, st := range c11ReadStyles[1:] {
		for _, n := range []int{0, 1, 11, 300, 511, 512, 513, 600, 1024, 4096} {
			for si, sig := range []string{"", "\x89PNG\r\n\x1a\n", "\x00\x01\x02"} {
				b := c11Bytes(r, n, false)
				copy(b, sig)
				for ch := 0; ch < 4; ch++ {
					chunks := []Bs{Bs(b)}
					switch {
					case ch == 0:
					case ch == 1 && n >= 2:
						chunks = []Bs{Bs(b[:1]), Bs(b[1:])}
					case ch == 2 && n > 100:
						chunks = []Bs{Bs(b[:100]), Bs(b[100:])}
					case ch == 3 && n > 512: // the last Read starts exactly at the end of the window
						chunks = []Bs{Bs(b[:512]), Bs(b[512:])}
					default:
						continue
					}
					src := []string{"", "named", "named-bare"}[(si+ch)%3]
					auth := []int{-1, 1}[(si+ch+n)%2]
					out = append(out, c11In{Kind: "body", Method: "POST", Media: "multipart/form-data", Payload: "nil", Auth: auth,
						Files: []c11FileField{{Name: "file", Files: []c11File{{Name: Bs(fmt.Sprintf("dir/f%d.bin", n)), Chunks: chunks, Reads: st, Src: src}}}}})
				}
			}
		}
		// next to a form field and a second file, with a declared type, with other requests in flight
		png := Bs("image/png")
		for _, n := range []int{5, 512, 700} {
			b := c11Bytes(r, n, false)
			out = append(out, c11In{Kind: "body", Method: "PUT", Media: "application/json", Payload: "nil", Auth: 1,
				Form: []c11Field{{Name: "note", Values: []Bs{"v"}}},
				Files: []c11FileField{{Name: "up", Files: []c11File{{Name: "a.txt", Chunks: []Bs{Bs(b)}, Reads: st}, {Name: "b.png", Chunks: []Bs{Bs(b)}, Reads: st, Declared: &png},
					{Name: "c.txt", Chunks: []Bs{"tail"}, Reads: st}}}}})
			out = append(out, c11In{Kind: "body", Method: "POST", Media: "multipart/form-data", Payload: "nil", Auth: -1, BuiltAfter: 2,
				Files: []c11FileField{{Name: "up", Files: []c11File{{Name: "a.txt", Chunks: []Bs{Bs(b)}, Reads: st}, {Name: "second.txt", Chunks: []Bs{"plain text"}}}}}})
		}
	}
	// file name extensions x contents (text, binary without a known signature, known signatures that agree or disagree with the
	// extension) x how the upload was made: the type is declared or sniffed from the content, whatever the name says
	for ei, ext := range c11Exts {
		for si, sig := range []string{"", "\x00\x01\x02", "\x89PNG\r\n\x1a\n", "%PDF-1.4\n", "<html><body>", "\xfe\xed\xfa\xce\x00\x00"} {
			n := []int{11, 600, 3}[(ei+si)%3]
			b := c11Bytes(r, n, si%2 == 1)
			copy(b, sig)
			if si == 1 || si == 5 { // binary, and nothing a sniffer knows
				for k := len(sig); k < len(b); k++ {
					b[k] = byte(1 + (k*7+ei)%8)
				}
			}
			src := []string{"", "named", "named-own"}[(ei+si)%3]
			f := c11File{Name: Bs("dir/report" + ext), Chunks: []Bs{Bs(b)}, Src: src}
			if src == "named-own" {
				f.Inner = Bs("inner" + c11Exts[(ei+7)%len(c11Exts)])
			}
			out = append(out, c11In{Kind: "body", Method: "POST", Media: "multipart/form-data", Payload: "nil", Auth: []int{-1, 1}[(ei+si)%2],
				Files: []c11FileField{{Name: "file", Files: []c11File{f}}}})
		}
	}
	// data that quotes an earlier request of the same process (its dump appended to an upload / a form value): files only, fields
	// only, both; the own content empty, short, longer than the sniffing window; other requests before / in flight
	for k, n := range []int{0, 11, 600} {
		own := Bs(c11Bytes(r, n, false))
		files := []c11FileField{{Name: "file", Files: []c11File{{Name: "capture.log", Chunks: []Bs{own}}, {Name: "second.txt", Chunks: []Bs{"plain text"}}}}}
		form := []c11Field{{Name: "note", Values: []Bs{own, "v2"}}}
		for _, auth := range []int{-1, 1} {
			out = append(out, c11In{Kind: "body", Method: "POST", Media: "multipart/form-data", Payload: "nil", Auth: auth, Files: files, Dump: "file"})
			out = append(out, c11In{Kind: "body", Method: "POST", Media: "multipart/form-data", Payload: "nil", Auth: auth, Form: form, Dump: "value"})
			out = append(out, c11In{Kind: "body", Method: "PUT", Media: "application/json", Payload: "nil", Auth: auth, Form: form, Files: files, Dump: []string{"file", "value", "file"}[k]})
			out = append(out, c11In{Kind: "body", Method: "POST", Media: "application/x-www-form-urlencoded", Payload: "nil", Auth: auth, Form: form, Dump: "value"})
		}
		out = append(out, c11In{Kind: "body", Method: "POST", Media: "multipart/form-data", Payload: "nil", Auth: -1, Form: form, Files: files, Dump: "value", BuiltBefore: 2})
		out = append(out, c11In{Kind: "body", Method: "POST", Media: "multipart/form-data", Payload: "nil", Auth: -1, Form: form, Files: files, Dump: "file", BuiltAfter: 2, OneP: true})
	}
	// a value payload under every media type, with and without form fields
	for _, m := range c11Medias {
		for _, pl := range []string{"value", "reader", "readcloser", "nil"} {
			for _, auth := range []int{-1, 0, 2} {
				out = append(out, c11In{Kind: "body", Method: "POST", Media: Bs(m), Payload: pl, Content: "payload text", Auth: auth})
			}
			out = append(out, c11In{Kind: "body", Method: "POST", Media: Bs(m), Payload: pl, Content: "payload text", Auth: 1,
				Form: []c11Field{{Name: "k", Values: []Bs{"v 1", "v&2"}}}})
		}
	}
	// every dynamic type of a reader payload x how often the auth writer asks for the body x content length;
	// once more with a form field next to it (the form wins, the reader must not matter)
	for _, pl := range []string{"reader", "readcloser"} {
		types := c11ReaderTypes
		if pl == "readcloser" {
			types = c11ReadCloserTypes
		}
		for _, rt := range types {
			for _, auth := range []int{-1, 0, 1, 2, 3} {
				for _, n := range []int{0, 1, 40, 3000} {
					out = append(out, c11In{Kind: "body", Method: []string{"POST", "PUT"}[n%2], Media: "application/octet-stream", Payload: pl, RType: rt,
						Content: Bs(c11Bytes(r, n, n == 40)), Auth: auth})
				}
			}
			out = append(out, c11In{Kind: "body", Method: "POST", Media: "application/x-www-form-urlencoded", Payload: pl, RType: rt, Content: "reader text", Auth: 2,
				Form: []c11Field{{Name: "k", Values: []Bs{"v"}}}})
			out = append(out, c11In{Kind: "body", Method: "POST", Media: "multipart/form-data", Payload: pl, RType: rt, Content: "reader text", Auth: 1,
				Form: []c11Field{{Name: "k", Values: []Bs{"v"}}}})
		}
	}
	// every reader type handed over after the caller consumed a prefix (read, or skipped with Seek where the type can
	// seek) x the auth writer asking or not x prefix / rest lengths
	for _, pl := range []string{"reader", "readcloser"} {
		types := c11ReaderTypes
		if pl == "readcloser" {
			types = c11ReadCloserTypes
		}
		for _, rt := range types {
			for _, auth := range []int{-1, 0, 1, 2} {
				for k, lens := range [][2]int{{1, 40}, {4, 0}, {16, 1}, {600, 3000}} {
					for _, seek := range []bool{false, true} {
						if seek && !c11In1(rt, c11SeekableTypes) {
							continue
						}
						out = append(out, c11In{Kind: "body", Method: []string{"POST", "PUT"}[k%2], Media: []Bs{"application/octet-stream", "application/json"}[k%2],
							Payload: pl, RType: rt, Consumed: Bs(c11Bytes(r, lens[0], k == 2)), SeekTo: seek, Content: Bs(c11Bytes(r, lens[1], k == 0)), Auth: auth})
					}
				}
			}
		}
	}
	// every dynamic type of a value payload x every media type (= every registered producer, and none)
	for _, vt := range c11ValueTypes {
		seenMedia := map[string]bool{}
		for _, m := range c11Medias {
			if seenMedia[m] {
				continue
			}
			seenMedia[m] = true
			for k, content := range []string{"payload text", "", "{\"a\":[1,2]}\n\x00\xff"} {
				out = append(out, c11In{Kind: "body", Method: "POST", Media: Bs(m), Payload: "value", VType: vt, Content: Bs(content), Auth: []int{-1, 1, 2}[k]})
			}
		}
	}
	// every way of making an upload x names with and without directories x the own name of what is wrapped
	for _, src := range c11FileSources {
		for _, name := range []string{"report.txt", "dir/sub/a \"b\".bin", "C:\\x\\y.dat", ""} {
			for _, inner := range []string{"other.bin", "/tmp/elsewhere/inner.txt"} {
				if inner != "other.bin" && src != "named-own" && src != "renamed" {
					continue
				}
				for _, auth := range []int{-1, 1} {
					b := c11Bytes(r, 700, false)
					copy(b, "%PDF-1.4\n")
					f := c11File{Name: Bs(name), Chunks: []Bs{Bs(b[:300]), Bs(b[300:])}, Src: src}
					if src == "named-own" || src == "renamed" {
						f.Inner = Bs(inner)
					}
					out = append(out, c11In{Kind: "body", Method: "POST", Media: "multipart/form-data", Payload: "nil", Auth: auth,
						Files: []c11FileField{{Name: "up", Files: []c11File{f, {Name: "second.txt", Chunks: []Bs{"plain"}}}}}})
				}
			}
		}
	}
	out = append(out, c11EnumBig(tier)...)
	out = append(out, c11EnumSubmit(r)...)
	// escapeQuotes / filepath.Base on every single byte and on byte pairs with the special ones
	for c := 0; c < 256; c++ {
		out = append(out, c11In{Kind: "escape", S: Bs([]byte{byte(c)}), Auth: -1})
	}
	for _, a := range []string{"\"", "\\", "/", "a"} {
		for _, b := range []string{"\"", "\\", "/", "a"} {
			for _, c := range []string{"\"", "\\", "/", "a", ""} {
				out = append(out, c11In{Kind: "escape", S: Bs(a + b + c), Auth: -1})
			}
		}
	}
	return out
}
