//go:build verif && (c14 || allprops)

package main

import (
	"bufio"
	"bytes"
	"context"
	"encoding/json"
	"errors"
	"fmt"
	"encoding/base64"
	"math/rand"
	"mime/multipart"
	"net/http"
	"net/url"
	"reflect"
	"sort"
	"strings"

	"github.com/go-openapi/runtime"
	"github.com/go-openapi/runtime/client"
	"github.com/go-openapi/runtime/security"
	"github.com/go-openapi/strfmt"
)

// C14 — credentials. Every case builds the request with the real client (writers of client/auth_info.go through
// Runtime.CreateHttpRequest), sends it over the wire (req.Write -> http.ReadRequest) and hands it to the real
// authenticator of security/authenticator.go with a recording callback.
//   basic     BasicAuth(u,p)            -> BasicAuthRealm / BasicAuthRealmCtx
//   basicraw  an arbitrary Authorization value -> BasicAuth
//   apikey    APIKeyAuth(name,in,v)     -> APIKeyAuth / APIKeyAuthCtx
//   bearer    Authorization value + access_token in query / form body -> BearerAuth / BearerAuthCtx
//   default   DefaultAuthentication vs operation AuthInfo vs a pre-set Authorization header
//   defaultx  DefaultAuthentication (any writer) vs operation AuthInfo (any writer: basic, bearer, key in header / query,
//             pass-through, compositions, nil) vs pre-set header and query parameters; every credential on the wire is observed
//   defhist   2-6 requests built one after the other on ONE Runtime (CreateHttpRequest or Submit), DefaultAuthentication being
//             reassigned between them (another credential, none, back), some requests with their own AuthInfo or a pre-set
//             Authorization header; every request is observed on the wire as in defaultx, and the client-side requests built
//             earlier are looked at again once all later ones have been built

type c14In struct {
	Kind    string `json:"kind"`
	U       Bs     `json:"u,omitempty"`
	P       Bs     `json:"p,omitempty"`
	Realm   Bs     `json:"realm,omitempty"`
	CbErr   bool   `json:"cberr,omitempty"`
	Ctx     bool   `json:"ctx,omitempty"` // context-aware variant of the authenticator
	Auth    Bs     `json:"auth,omitempty"`
	Name    Bs     `json:"name,omitempty"`
	InQuery bool   `json:"in_query,omitempty"`
	V       Bs     `json:"v,omitempty"`
	Hdr     Bs     `json:"hdr,omitempty"`
	QTok    Bs     `json:"qtok,omitempty"`
	FTok    Bs     `json:"ftok,omitempty"`
	Form    int    `json:"form,omitempty"` // 0 no form body, 1 urlencoded, 2 multipart, 3 form body under a JSON content type
	Scopes  []Bs   `json:"scopes,omitempty"`
	Op      bool   `json:"op,omitempty"`
	Def     bool   `json:"def,omitempty"`
	Preset  Bs     `json:"preset,omitempty"`
	// apikey: the URL the operation is built on. Base = the Runtime's base path (empty: "/"), Pat = the path pattern (empty: "/things");
	// either may carry static query parameters, also one with the key's own name. Def (apikey): the writer is the Runtime's
	// DefaultAuthentication instead of the operation's AuthInfo.
	Base Bs `json:"base,omitempty"`
	Pat  Bs `json:"pat,omitempty"`
	// how the request built by the client reaches the wire (all kinds that go through the client): "" = Runtime.CreateHttpRequest and
	// req.Write; "submit" = Runtime.Submit through a capturing round tripper; "debug" = the same on a Runtime whose Debug flag is on
	// (the request and the response are dumped to the logger on the way). The credential the server reads must not depend on it.
	Via string `json:"via,omitempty"`
	// kind "defaultx": the default credential crossed with every kind of writer
	OpW  *c14W   `json:"opw,omitempty"`  // the operation's own writer (nil: none)
	DefW *c14W   `json:"defw,omitempty"` // Runtime.DefaultAuthentication (nil: not configured)
	PreH []c14KV `json:"preh,omitempty"` // header parameters set by the operation's parameters
	PreQ []c14KV `json:"preq,omitempty"` // query parameters set by the operation's parameters
	// kind "defhist"
	Steps []c14Step `json:"steps,omitempty"`
	// kind "cross"
	Cross *c14Cross `json:"cross,omitempty"`
}

// c14Cross: a server authenticator of a declared kind facing a request that carries names and tokens in every place.
// The request is built directly (net/http), written out and read back as a server would read it.
type c14Cross struct {
	Cred   string   `json:"cred"`           // basic | keyh | keyq | bearer: what the authenticator is declared to read
	Name   Bs       `json:"name,omitempty"` // keyh / keyq: the key's name
	Method string   `json:"method"`
	Hdrs   []c14KV  `json:"hdrs,omitempty"`   // request headers, names distinct whatever their case; cookies are a Cookie header
	Qry    []c14KVs `json:"qry,omitempty"`    // query parameters, names distinct
	Form   int      `json:"form,omitempty"`   // 0 no body, 1 urlencoded, 2 multipart, 3 urlencoded body under a JSON content type
	Fields []c14KVs `json:"fields,omitempty"` // the fields of the body, names distinct
}

// c14Step is one request of a history on one Runtime: DefaultAuthentication is (re)assigned from DefW, then the request is built.
type c14Step struct {
	DefW   *c14W   `json:"defw,omitempty"` // Runtime.DefaultAuthentication in force for this request (nil: assigned nil)
	OpW    *c14W   `json:"opw,omitempty"`
	PreH   []c14KV `json:"preh,omitempty"`
	PreQ   []c14KV `json:"preq,omitempty"`
	Submit bool    `json:"submit,omitempty"` // through Runtime.Submit and a capturing round tripper instead of CreateHttpRequest
	Debug  bool    `json:"debug,omitempty"`  // Runtime.Debug is on for this request (off again for the next one unless it says so too)
}

type c14StepObs struct {
	Fail   string   `json:"fail,omitempty"`
	Stable bool     `json:"stable"`
	Note   string   `json:"note,omitempty"`
	Hdrs   []c14KVs `json:"hdrs,omitempty"`
	Qry    []c14KVs `json:"qry,omitempty"`
}

// c14W describes a credential writer of client/auth_info.go.
//   basic A=user B=password | bearer A=token | keyh / keyq A=name B=value (APIKeyAuth in header / query) |
//   badloc A=name B=value (APIKeyAuth with an unsupported location: a nil writer) | pass (PassThroughAuth) |
//   nil (a nil entry, only meaningful inside a composition) | compose Ws
type c14W struct {
	K  string `json:"k"`
	A  Bs     `json:"a,omitempty"`
	B  Bs     `json:"b,omitempty"`
	Ws []c14W `json:"ws,omitempty"`
}

type c14KV struct {
	K Bs `json:"k"`
	V Bs `json:"v"`
}

type c14KVs struct {
	K  Bs   `json:"k"`
	Vs []Bs `json:"vs"`
}

type c14Obs struct {
	Fail     string `json:"fail,omitempty"` // the request could not be built or sent (not an observable of the property)
	Panic    string `json:"panic,omitempty"`
	Applies  bool   `json:"applies"`
	Called   int    `json:"called"`
	GotU     Bs     `json:"got_u,omitempty"`
	GotP     Bs     `json:"got_p,omitempty"`
	GotTok   Bs     `json:"got_tok,omitempty"`
	Marker   Bs     `json:"marker,omitempty"`
	POK      bool   `json:"pok"`
	ScopesOK bool   `json:"scopes_ok"`
	MarkerOK bool   `json:"marker_ok"`
	Seen     Bs     `json:"seen,omitempty"`
	// defaultx: every header that is not the transport's own (lower-cased name) and every query parameter, as received
	Hdrs []c14KVs `json:"hdrs,omitempty"`
	Qry  []c14KVs `json:"qry,omitempty"`
	// defhist
	Steps []c14StepObs `json:"steps,omitempty"`
}

type c14 struct{}

func init() { register(c14{}) }

func (c14) ID() string        { return "C14" }
func (c14) CoqModule() string { return "Check_C14" }
func (c14) Rule() string {
	return "basic: users without and (a share) with a colon, passwords of arbitrary bytes incl. colon/non-ASCII/empty, realms incl. empty, failing callback, plain and Ctx variants; " +
		"basicraw: foreign schemes, case variants of the prefix, damaged base64, missing colon; apikey: header and query, names in several cases, values header-safe / arbitrary (query) / empty, a third on a base path / pattern with static query parameters (half of them with the key's own name), a third written by the Runtime's default writer; " +
		"bearer: every subset of {Authorization header, query, urlencoded form, multipart form, form under a JSON content type} with foreign schemes and lower-case prefix in the header, scopes lists; " +
		"default: all 8 combinations of operation writer / default writer / pre-set header; defaultx: the default credential crossed with every kind of operation writer " +
		"(none, nil from an unsupported key location, basic, bearer, key in header, key named Authorization, key in query, pass-through, compositions with and without an Authorization writer, nested, empty, with nil entries) " +
		"and of default writer, with Authorization / key header / query parameters pre-set by the parameters; observed: every non-transport header and every query parameter received; " +
		"defhist: 2-6 requests on one Runtime with DefaultAuthentication reassigned between them (every sequence of three settings out of {token A, token B, none} under nine patterns of plain / own AuthInfo / pre-set Authorization requests, " +
		"sequences over bearer / basic / key in header / key in query / none, random histories of random writers), built by CreateHttpRequest or Submit (a third of the steps with Runtime.Debug on); earlier client-side requests re-inspected at the end. " +
		"basic / basicraw / apikey / bearer / default / defaultx: one case in three is sent through Runtime.Submit and a capturing transport instead of CreateHttpRequest, half of those on a Runtime in debug mode (also enumerated per kind). " +
		"cross: each authenticator kind (basic, key in header, key in query, bearer; plain and Ctx) on a request that carries the key's name / access_token / Authorization and the token, or another token, " +
		"in its declared location and - also or only - in the other places: other headers, a cookie, query parameters, fields of a urlencoded or multipart form body (also under a JSON content type), for POST / PUT / PATCH / GET / DELETE; " +
		"Non-trivial: every case in which a credential is transmitted or configured."
}

func (c14) Decode(raw json.RawMessage) (any, error) {
	var in c14In
	err := json.Unmarshal(raw, &in)
	return in, err
}

func (c14) Enumerate(tier string) []any {
	var out []any
	for _, op := range []bool{false, true} {
		for _, def := range []bool{false, true} {
			for _, pre := range []Bs{"", "Bearer PRE", "Basic eDp5", " "} {
				out = append(out, c14In{Kind: "default", Op: op, Def: def, Preset: pre})
			}
		}
	}
	// the default credential crossed with every kind of operation writer and of default writer, and with what the
	// parameters have set before the credentials are written
	kh := func(n, v string) c14W { return c14W{K: "keyh", A: Bs(n), B: Bs(v)} }
	kq := func(n, v string) c14W { return c14W{K: "keyq", A: Bs(n), B: Bs(v)} }
	comp := func(ws ...c14W) c14W { return c14W{K: "compose", Ws: ws} }
	pw := func(w c14W) *c14W { return &w }
	ops := []*c14W{nil,
		pw(c14W{K: "badloc", A: "X-API-Key", B: "k"}),
		pw(c14W{K: "basic", A: "u", B: "p"}),
		pw(c14W{K: "bearer", A: "OP"}),
		pw(kh("X-API-Key", "opkey")),
		pw(kh("Authorization", "Token raw")),
		pw(kq("api_key", "opq")),
		pw(c14W{K: "pass"}),
		pw(comp()),
		pw(comp(c14W{K: "nil"})),
		pw(comp(c14W{K: "pass"})),
		pw(comp(kh("X-API-Key", "opkey"), kq("api_key", "opq"))),
		pw(comp(c14W{K: "bearer", A: "OP"}, kq("api_key", "opq"))),
		pw(comp(c14W{K: "nil"}, kh("X-Token", "t"))),
		pw(comp(comp(kq("api_key", "opq")), c14W{K: "pass"})),
		pw(comp(kh("X-API-Key", "first"), kh("x-api-key", "second"))),
	}
	defs := []*c14W{nil,
		pw(c14W{K: "bearer", A: "DEF"}),
		pw(c14W{K: "basic", A: "du", B: "dp"}),
		pw(kh("X-Default-Key", "dk")),
		pw(kq("default_key", "dq")),
		pw(kh("X-API-Key", "defkey")),
		pw(c14W{K: "pass"}),
		pw(comp(c14W{K: "bearer", A: "DEF"}, kq("default_key", "dq"))),
	}
	type c14Pre struct{ h, q []c14KV }
	pres := []c14Pre{{},
		{h: []c14KV{{"Authorization", "Bearer PRE"}}},
		{h: []c14KV{{"Authorization", " "}}},
		{h: []c14KV{{"X-API-Key", "prekey"}}},
		{q: []c14KV{{"api_key", "preq"}, {"other", "1"}}},
	}
	for _, op := range ops {
		for _, def := range defs {
			for _, pre := range pres {
				out = append(out, c14In{Kind: "defaultx", OpW: op, DefW: def, PreH: pre.h, PreQ: pre.q})
			}
		}
	}
	// histories on one Runtime. (a) every sequence of three settings out of {token A, token B, none} under nine patterns of
	// request kinds (p plain, o own AuthInfo, h pre-set Authorization header)
	tokA, tokB := pw(c14W{K: "bearer", A: "TOKEN-A"}), pw(c14W{K: "bearer", A: "TOKEN-B"})
	settings := []*c14W{tokA, tokB, nil}
	mkStep := func(def *c14W, kind byte, submit bool) c14Step {
		st := c14Step{DefW: def, Submit: submit}
		switch kind {
		case 'o':
			st.OpW = pw(kh("X-API-Key", "opkey"))
		case 'O':
			st.OpW = pw(c14W{K: "bearer", A: "OWN"})
		case 'h':
			st.PreH = []c14KV{{"Authorization", "Bearer PRE"}}
		}
		return st
	}
	for n, pat := range []string{"ppp", "opp", "hpp", "pop", "php", "Opp", "poh", "ohp", "pOp"} {
		for a := 0; a < 3; a++ {
			for b := 0; b < 3; b++ {
				for c := 0; c < 3; c++ {
					sub := (n+a+b+c)%4 == 0
					out = append(out, c14In{Kind: "defhist", Steps: []c14Step{mkStep(settings[a], pat[0], sub), mkStep(settings[b], pat[1], sub), mkStep(settings[c], pat[2], false)}})
				}
			}
		}
	}
	// (b) one kind of credential replaced by another, and back
	kinds := []*c14W{tokA, pw(c14W{K: "basic", A: "du", B: "dp"}), pw(kh("X-Default-Key", "dk")), pw(kq("default_key", "dq")), nil,
		pw(comp(c14W{K: "bearer", A: "DEF"}, kq("default_key", "dq")))}
	for i, a := range kinds {
		for j, b := range kinds {
			if i == j {
				continue
			}
			out = append(out, c14In{Kind: "defhist", Steps: []c14Step{mkStep(a, 'p', false), mkStep(b, 'p', false), mkStep(a, 'p', false), mkStep(b, 'o', false), mkStep(b, 'p', true)}})
		}
	}
	// (c) a token refreshed several times in a row; the default configured only after the first requests have been built
	out = append(out, c14In{Kind: "defhist", Steps: []c14Step{mkStep(tokA, 'p', true), mkStep(tokB, 'p', true), mkStep(pw(c14W{K: "bearer", A: "TOKEN-C"}), 'p', true), mkStep(tokA, 'p', true)}})
	out = append(out, c14In{Kind: "defhist", Steps: []c14Step{mkStep(nil, 'p', false), mkStep(nil, 'o', false), mkStep(tokA, 'p', false), mkStep(tokB, 'p', false), mkStep(nil, 'p', false), mkStep(tokB, 'p', false)}})
	// every subset of bearer placements
	for mask := 0; mask < 8; mask++ {
		for form := 0; form <= 3; form++ {
			for _, ctx := range []bool{false, true} {
				in := c14In{Kind: "bearer", Form: form, Ctx: ctx, Scopes: []Bs{"read", "write"}}
				if mask&1 != 0 {
					in.Hdr = "Bearer HDR"
				}
				if mask&2 != 0 {
					in.QTok = "QRY"
				}
				if mask&4 != 0 && form != 0 {
					in.FTok = "FRM"
				}
				out = append(out, in)
			}
		}
	}
	out = append(out, c14EnumCross()...)
	// an API key written by the client (operation writer / default writer) on a URL whose base path and/or pattern fixes static
	// query parameters - one of them with the key's own name: the server must receive the written key
	for _, loc := range []bool{true, false} {
		for _, def := range []bool{false, true} {
			for _, v := range []Bs{"s3cr3t", "", "a b&c"} {
				for i, bp := range [][2]string{{"/api?api_key=anonymous", ""}, {"/api", "/pets/7?api_key=anonymous"}, {"/api?api_key=base", "/pets/7?api_key=pat&x=1"},
					{"/api?other=1", "/pets/7?token=static"}, {"/?API_KEY=upper", "/things?api_key="}} {
					out = append(out, c14In{Kind: "apikey", Name: "api_key", InQuery: loc, V: v, Def: def, Ctx: i%2 == 0, Base: Bs(bp[0]), Pat: Bs(bp[1])})
				}
			}
		}
	}
	// the same credentials sent through Runtime.Submit, with the Runtime's debug mode off and on
	for _, via := range []string{"submit", "debug"} {
		for _, op := range []bool{false, true} {
			for _, def := range []bool{false, true} {
				for _, pre := range []Bs{"", "Bearer PRE"} {
					out = append(out, c14In{Kind: "default", Op: op, Def: def, Preset: pre, Via: via})
				}
			}
		}
		for i, up := range [][2]Bs{{"u", "p"}, {"", ""}, {"user@example.com", "p:w d"}, {"u", "\xff?>"}} {
			out = append(out, c14In{Kind: "basic", U: up[0], P: up[1], Ctx: i%2 == 0, Via: via})
		}
		for _, loc := range []bool{true, false} {
			for _, def := range []bool{false, true} {
				out = append(out, c14In{Kind: "apikey", Name: "X-API-Key", InQuery: loc, V: "s3cr3t", Def: def, Via: via})
				out = append(out, c14In{Kind: "apikey", Name: "Authorization", InQuery: loc, V: "Token raw", Def: def, Ctx: true, Via: via})
			}
		}
		for mask := 0; mask < 8; mask++ {
			form := mask % 4
			in := c14In{Kind: "bearer", Form: form, Ctx: mask >= 4, Scopes: []Bs{"read"}, Via: via}
			if mask&1 != 0 {
				in.Hdr = "Bearer HDR"
			}
			if mask&2 != 0 {
				in.QTok = "QRY"
			}
			if mask&4 != 0 && form != 0 {
				in.FTok = "FRM"
			}
			out = append(out, in)
		}
		for _, op := range ops {
			for _, def := range defs[:5] {
				out = append(out, c14In{Kind: "defaultx", OpW: op, DefW: def, Via: via})
			}
		}
	}
	// histories sent through Submit with the debug mode switched on and off between the requests
	for i, a := range kinds {
		b := kinds[(i+1)%len(kinds)]
		dbg := func(st c14Step, on bool) c14Step { st.Debug = on; return st }
		out = append(out, c14In{Kind: "defhist", Steps: []c14Step{dbg(mkStep(a, 'p', true), true), dbg(mkStep(b, 'p', true), false), dbg(mkStep(a, 'O', true), true),
			dbg(mkStep(b, 'h', true), true), dbg(mkStep(a, 'p', false), true), dbg(mkStep(a, 'p', true), false)}})
	}
	// every single byte as a password and as a query key value
	for c := 0; c < 256; c++ {
		out = append(out, c14In{Kind: "basic", U: "u", P: Bs([]byte{byte(c)}), Ctx: c%2 == 0})
		out = append(out, c14In{Kind: "apikey", Name: "k", InQuery: true, V: Bs([]byte{'a', byte(c), 'b'})})
	}
	return out
}

// c14StaticQ: a static query string for a base path or a pattern; half of them fix a parameter with the key's own name
func c14StaticQ(r *rand.Rand, name string) string {
	vals := []string{"anonymous", "", "public", "static key", "a&b", "0"}
	var parts []string
	if r.Intn(2) == 0 {
		parts = append(parts, url.QueryEscape(name)+"="+url.QueryEscape(vals[r.Intn(len(vals))]))
	}
	if r.Intn(2) == 0 {
		parts = append(parts, url.QueryEscape(c14QNames[r.Intn(len(c14QNames))])+"="+url.QueryEscape(vals[r.Intn(len(vals))]))
	}
	if r.Intn(3) == 0 {
		parts = append(parts, "v=2")
	}
	if r.Intn(2) == 0 {
		for a, b := 0, len(parts)-1; a < b; a, b = a+1, b-1 {
			parts[a], parts[b] = parts[b], parts[a]
		}
	}
	return strings.Join(parts, "&")
}

// c14GenKeyURL: a third of the api-key cases are built on a Runtime / operation whose base path or pattern has static query
// parameters; a third of the cases hand the writer over as the Runtime's default credential
func c14GenKeyURL(r *rand.Rand, in *c14In) {
	if r.Intn(3) == 0 {
		in.Def = true
	}
	if r.Intn(3) != 0 {
		return
	}
	bases := []string{"/", "/api", "/api/v1/", "api"}
	pats := []string{"/things", "/pets/7", "/a/b/"}
	where := r.Intn(3) // 0 base path, 1 pattern, 2 both
	b, p := bases[r.Intn(len(bases))], pats[r.Intn(len(pats))]
	if where != 1 {
		if q := c14StaticQ(r, string(in.Name)); q != "" {
			b += "?" + q
		}
	}
	if where != 0 {
		if q := c14StaticQ(r, string(in.Name)); q != "" {
			p += "?" + q
		}
	}
	in.Base, in.Pat = Bs(b), Bs(p)
}

func c14Bytes(r *rand.Rand, n int) string {
	b := make([]byte, n)
	for i := range b {
		b[i] = byte(r.Intn(256))
	}
	return string(b)
}

var c14Safe = "abcXYZ019-._~+/=:;,!@#$%^&*()[]{}<>?|\"' \\"

func c14HeaderSafe(r *rand.Rand, n int) string {
	b := make([]byte, n)
	for i := range b {
		b[i] = c14Safe[r.Intn(len(c14Safe))]
		if r.Intn(8) == 0 {
			b[i] = byte(0x80 + r.Intn(0x80))
		}
	}
	s := strings.Trim(string(b), " \t")
	return s
}

var c14Users = []string{"admin", "", "u", "user@example.com", "\xc3\xa9lan", "a b", "x\x00y", "Basic", "a=b"}
var c14Pass = []string{"", "secret", "p:w", ":", "::", "p\xc3\xa4ss", " lead", "trail ", "a\nb", "\x00", "%41", "x y"}
var c14Realms = []string{"", "API", "my realm", "r\xc3\xa9"}
var c14RawAuth = []string{"", "Basic", "Basic ", "Basic eDp5", "basic eDp5", "BASIC eDp5", "Basic  eDp5", "Basic eDp5 ", "Basic eA==", "Basic eDp5eg", "Basic eDp5eg=", "Basic eDp5e===", "Basic !!!!",
	"Bearer eDp5", "Digest x", "Basic eDo=", "Basic Og==", "Basic eDp5\teg==", "Basic eDp5OnoK", "BasiceDp5", "Basic ZTp5=", "Basic eDp5====", "Basic =", "Basic e", "Basic eD", "Basic eDp", "Basic eD==", "Basic eR=="}
var c14Names = []string{"X-API-Key", "x-api-key", "Authorization", "api_key", "X-Token", "key", "access_token", "k.e-y"}
var c14QNames = []string{"api_key", "API_KEY", "default_key", "access_token", "key", "X-API-Key", "k.e-y", "other"}
var c14Hdrs = []string{"", "Bearer tok", "bearer tok", "BEARER tok", "Bearer ", "Bearer", "Bearer  two", "Basic eDp5", "Bearer a b", "Token t", "Bearer tok ", " Bearer tok", "BearerX", "Bearer \xc3\xa9"}

// c14GenWriter: a random credential writer; compositions nest at most two levels.
func c14GenWriter(r *rand.Rand, depth int) c14W {
	k := r.Intn(12)
	if depth >= 2 && k >= 9 {
		k = r.Intn(9)
	}
	switch {
	case k == 0:
		return c14W{K: "basic", A: Bs(c14Users[r.Intn(len(c14Users))]), B: Bs(c14Pass[r.Intn(len(c14Pass))])}
	case k == 1:
		return c14W{K: "bearer", A: Bs(c14HeaderSafe(r, 1+r.Intn(8)))}
	case k < 5:
		v := c14HeaderSafe(r, 1+r.Intn(8))
		if r.Intn(10) == 0 {
			v = ""
		}
		return c14W{K: "keyh", A: Bs(c14Names[r.Intn(len(c14Names))]), B: Bs(v)}
	case k < 7:
		v := c14HeaderSafe(r, 1+r.Intn(8))
		switch r.Intn(6) {
		case 0:
			v = c14Bytes(r, 1+r.Intn(6))
		case 1:
			v = ""
		}
		return c14W{K: "keyq", A: Bs(c14QNames[r.Intn(len(c14QNames))]), B: Bs(v)}
	case k == 7:
		return c14W{K: "pass"}
	case k == 8:
		if depth > 0 && r.Intn(2) == 0 {
			return c14W{K: "nil"}
		}
		return c14W{K: "badloc", A: "X-API-Key", B: "k"}
	default:
		w := c14W{K: "compose"}
		for n := r.Intn(4); n > 0; n-- {
			w.Ws = append(w.Ws, c14GenWriter(r, depth+1))
		}
		return w
	}
}

// Gen: the case of c14GenCase; a case whose request is built by the client goes through Runtime.Submit instead of
// CreateHttpRequest one time in three, half of those on a Runtime in debug mode.
func (p c14) Gen(r *rand.Rand, tier string, i int) any {
	in := c14GenCase(r, i).(c14In)
	switch in.Kind {
	case "basic", "basicraw", "apikey", "bearer", "default", "defaultx":
		switch r.Intn(6) {
		case 0:
			in.Via = "submit"
		case 1:
			in.Via = "debug"
		}
	}
	return in
}

func c14GenCase(r *rand.Rand, i int) any {
	if i%6 == 5 {
		return c14GenCross(r)
	}
	switch k := r.Intn(11); {
	case k == 10:
		return c14GenHist(r)
	case k < 3:
		in := c14In{Kind: "basic", Ctx: r.Intn(2) == 0, CbErr: r.Intn(4) == 0, Realm: Bs(c14Realms[r.Intn(len(c14Realms))])}
		switch r.Intn(4) {
		case 0:
			in.U = Bs(strings.ReplaceAll(c14Bytes(r, r.Intn(8)), ":", "_"))
		case 1:
			in.U = Bs(c14Users[r.Intn(len(c14Users))] + ":x") // outside the quantifier: a colon in the user name
		default:
			in.U = Bs(c14Users[r.Intn(len(c14Users))])
		}
		if r.Intn(2) == 0 {
			in.P = Bs(c14Bytes(r, r.Intn(10)))
		} else {
			in.P = Bs(c14Pass[r.Intn(len(c14Pass))])
		}
		return in
	case k == 3:
		a := c14RawAuth[r.Intn(len(c14RawAuth))]
		if r.Intn(3) == 0 {
			a = "Basic " + c14HeaderSafe(r, r.Intn(12))
		}
		return c14In{Kind: "basicraw", Auth: Bs(a), Ctx: r.Intn(2) == 0}
	case k < 6:
		in := c14In{Kind: "apikey", Name: Bs(c14Names[r.Intn(len(c14Names))]), InQuery: r.Intn(2) == 0, Ctx: r.Intn(2) == 0, CbErr: r.Intn(5) == 0}
		switch {
		case r.Intn(8) == 0:
			in.V = ""
		case in.InQuery && r.Intn(2) == 0:
			in.V = Bs(c14Bytes(r, 1+r.Intn(10)))
		default:
			in.V = Bs(c14HeaderSafe(r, 1+r.Intn(12)))
		}
		c14GenKeyURL(r, &in)
		return in
	case k == 9:
		in := c14In{Kind: "defaultx"}
		if r.Intn(5) != 0 {
			w := c14GenWriter(r, 0)
			in.OpW = &w
		}
		if r.Intn(6) != 0 {
			w := c14GenWriter(r, 0)
			in.DefW = &w
		}
		for n := r.Intn(3); n > 0; n-- {
			name := []string{"Authorization", "authorization", "X-API-Key", "X-Token", "X-Other"}[r.Intn(5)]
			in.PreH = append(in.PreH, c14KV{Bs(name), Bs(c14Hdrs[r.Intn(len(c14Hdrs))])})
		}
		for n := r.Intn(3) - 1; n > 0; n-- {
			name := []string{"api_key", "access_token", "other", "key"}[r.Intn(4)]
			in.PreQ = append(in.PreQ, c14KV{Bs(name), Bs([]string{"q1", "a b", "a&b=c", "", "x+y"}[r.Intn(5)])})
		}
		return in
	default:
		in := c14In{Kind: "bearer", Ctx: r.Intn(2) == 0, CbErr: r.Intn(5) == 0, Form: r.Intn(4)}
		if r.Intn(3) != 0 {
			in.Hdr = Bs(c14Hdrs[r.Intn(len(c14Hdrs))])
			if r.Intn(3) == 0 {
				in.Hdr = Bs("Bearer " + c14HeaderSafe(r, 1+r.Intn(10)))
			}
		}
		if r.Intn(2) == 0 {
			in.QTok = Bs([]string{"q1", "a b", "a&b=c", "\xc3\xa9", "x+y", "%41"}[r.Intn(6)])
		}
		if in.Form != 0 && r.Intn(3) != 0 {
			in.FTok = Bs([]string{"f1", "a b", "a&b=c", "\xc3\xa9", "x+y", "%41"}[r.Intn(6)])
		}
		ns := r.Intn(3)
		for j := 0; j < ns; j++ {
			in.Scopes = append(in.Scopes, Bs([]string{"read", "write", "admin", ""}[r.Intn(4)]))
		}
		return in
	}
}

// c14GenHist: a random history on one Runtime. The default credential is drawn from a small pool per history so that it is
// often put back to an earlier value; neighbouring steps differ in the setting, in the operation's own writer, or in what
// the parameters pre-set.
func c14GenHist(r *rand.Rand) c14In {
	in := c14In{Kind: "defhist"}
	pool := []*c14W{nil}
	for n := 2 + r.Intn(2); n > 0; n-- {
		w := c14GenWriter(r, 0)
		if r.Intn(2) == 0 {
			w = c14W{K: "bearer", A: Bs(fmt.Sprintf("TOK%d", r.Intn(1000)))}
		}
		pool = append(pool, &w)
	}
	var cur *c14W = pool[1+r.Intn(len(pool)-1)]
	for i, n := 0, 2+r.Intn(5); i < n; i++ {
		if i > 0 && r.Intn(3) != 0 {
			cur = pool[r.Intn(len(pool))]
		}
		st := c14Step{DefW: cur, Submit: r.Intn(3) == 0}
		st.Debug = r.Intn(3) == 0
		switch r.Intn(6) {
		case 0:
			w := c14GenWriter(r, 0)
			st.OpW = &w
		case 1:
			st.PreH = append(st.PreH, c14KV{"Authorization", Bs(c14Hdrs[1+r.Intn(len(c14Hdrs)-1)])})
		case 2:
			st.PreH = append(st.PreH, c14KV{"X-API-Key", "prekey"})
			st.PreQ = append(st.PreQ, c14KV{"api_key", "preq"})
		}
		in.Steps = append(in.Steps, st)
	}
	return in
}

type c14Principal struct{ id int }

var errC14 = errors.New("c14 callback refuses")

// c14Wire builds the request with the real client and reads it back as a server would.
func c14Wire(in c14In, auth runtime.ClientAuthInfoWriter, def runtime.ClientAuthInfoWriter, params func(runtime.ClientRequest) error, consumes string) (*http.Request, error) {
	base := "/"
	if in.Base != "" {
		base = string(in.Base)
	}
	rt := client.New("api.example.com", base, []string{"http"})
	rt.DefaultAuthentication = def
	rt.Debug = in.Via == "debug"
	if in.Via != "" {
		rt.Transport = &c14Capture{}
		rt.SetLogger(c14Quiet{})
	}
	_, sreq, err := c14WireOnPat(rt, string(in.Pat), auth, params, consumes, in.Via != "")
	return sreq, err
}

// c14Quiet swallows what a Runtime in debug mode logs.
type c14Quiet struct{}

func (c14Quiet) Printf(string, ...interface{}) {}
func (c14Quiet) Debugf(string, ...interface{}) {}

// c14Capture is the transport of the history cases that go through Submit: it writes the request out as a connection would.
type c14Capture struct {
	creq *http.Request
	buf  bytes.Buffer
	err  error
}

func (c *c14Capture) RoundTrip(req *http.Request) (*http.Response, error) {
	c.creq = req
	c.buf.Reset()
	c.err = req.Write(&c.buf)
	return &http.Response{StatusCode: 204, Status: "204 No Content", Proto: "HTTP/1.1", ProtoMajor: 1, ProtoMinor: 1,
		Header: http.Header{"Content-Type": {runtime.JSONMime}}, Body: http.NoBody, Request: req}, nil
}

// c14WireOn builds one request on the given Runtime (its DefaultAuthentication as it is now) and reads it back as a server
// would; it also returns the client-side request.
func c14WireOn(rt *client.Runtime, auth runtime.ClientAuthInfoWriter, params func(runtime.ClientRequest) error, consumes string, submit bool) (*http.Request, *http.Request, error) {
	return c14WireOnPat(rt, "", auth, params, consumes, submit)
}

// c14WireOnPat: the same with a path pattern of the caller's choice (empty: /things)
func c14WireOnPat(rt *client.Runtime, pattern string, auth runtime.ClientAuthInfoWriter, params func(runtime.ClientRequest) error, consumes string, submit bool) (*http.Request, *http.Request, error) {
	if pattern == "" {
		pattern = "/things"
	}
	op := &runtime.ClientOperation{
		ID: "op", Method: "POST", PathPattern: pattern,
		ProducesMediaTypes: []string{runtime.JSONMime}, ConsumesMediaTypes: []string{consumes},
		AuthInfo: auth,
		Params: runtime.ClientRequestWriterFunc(func(req runtime.ClientRequest, _ strfmt.Registry) error {
			if params != nil {
				return params(req)
			}
			return nil
		}),
		Reader: runtime.ClientResponseReaderFunc(func(runtime.ClientResponse, runtime.Consumer) (interface{}, error) { return nil, nil }),
	}
	if submit {
		capt, ok := rt.Transport.(*c14Capture)
		if !ok {
			return nil, nil, errors.New("c14: the Runtime has no capturing transport")
		}
		capt.creq, capt.err = nil, nil
		if _, err := rt.Submit(op); err != nil {
			return nil, nil, err
		}
		if capt.creq == nil {
			return nil, nil, errors.New("c14: Submit did not reach the transport")
		}
		if capt.err != nil {
			return nil, nil, capt.err
		}
		sreq, err := http.ReadRequest(bufio.NewReader(bytes.NewReader(capt.buf.Bytes())))
		return capt.creq, sreq, err
	}
	req, err := rt.CreateHttpRequest(op)
	if err != nil {
		return nil, nil, err
	}
	var buf bytes.Buffer
	if err := req.Write(&buf); err != nil {
		return nil, nil, err
	}
	sreq, err := http.ReadRequest(bufio.NewReader(&buf))
	return req, sreq, err
}

// c14Observe: every header that is not the transport's own (lower-cased name) and every query parameter, as received.
func c14Observe(sreq *http.Request) (hdrs, qry []c14KVs) {
	for k, vs := range sreq.Header {
		lk := strings.ToLower(k)
		if c14TransportHeaders[lk] {
			continue
		}
		hdrs = append(hdrs, c14KVs{K: Bs(lk), Vs: toBs(vs)})
	}
	for k, vs := range sreq.URL.Query() {
		qry = append(qry, c14KVs{K: Bs(k), Vs: toBs(vs)})
	}
	sort.Slice(hdrs, func(i, j int) bool { return hdrs[i].K < hdrs[j].K })
	sort.Slice(qry, func(i, j int) bool { return qry[i].K < qry[j].K })
	return hdrs, qry
}

func c14PreParams(preH, preQ []c14KV) func(runtime.ClientRequest) error {
	return func(req runtime.ClientRequest) error {
		for _, kv := range preH {
			if err := req.SetHeaderParam(string(kv.K), string(kv.V)); err != nil {
				return err
			}
		}
		for _, kv := range preQ {
			if err := req.SetQueryParam(string(kv.K), string(kv.V)); err != nil {
				return err
			}
		}
		return nil
	}
}

// c14RunHist: the requests of a history, one after the other on one Runtime.
func c14RunHist(in c14In) []c14StepObs {
	rt := client.New("api.example.com", "/", []string{"http"})
	rt.Transport = &c14Capture{}
	rt.SetLogger(c14Quiet{})
	out := make([]c14StepObs, len(in.Steps))
	type kept struct {
		req   *http.Request
		hdr   http.Header
		query string
	}
	keep := make([]*kept, len(in.Steps))
	for i, st := range in.Steps {
		rt.DefaultAuthentication = nil
		if st.DefW != nil {
			rt.DefaultAuthentication = c14Build(*st.DefW)
		}
		rt.Debug = st.Debug
		var opAuth runtime.ClientAuthInfoWriter
		if st.OpW != nil {
			opAuth = c14Build(*st.OpW)
		}
		creq, sreq, err := c14WireOn(rt, opAuth, c14PreParams(st.PreH, st.PreQ), runtime.JSONMime, st.Submit)
		if err != nil {
			out[i].Fail = err.Error()
			continue
		}
		out[i].Hdrs, out[i].Qry = c14Observe(sreq)
		keep[i] = &kept{req: creq, hdr: creq.Header.Clone(), query: creq.URL.RawQuery}
	}
	// the requests built earlier, looked at again now that the later ones exist
	for i, k := range keep {
		if k == nil {
			continue
		}
		out[i].Stable = reflect.DeepEqual(k.req.Header, k.hdr) && k.req.URL.RawQuery == k.query
		if !out[i].Stable {
			out[i].Note = fmt.Sprintf("request %d changed after it was built: headers %v -> %v, query %q -> %q", i, k.hdr, k.req.Header, k.query, k.req.URL.RawQuery)
		}
	}
	return out
}

// headers the transport writes by itself (never a credential of the cases: the key names of the generator avoid them)
var c14TransportHeaders = map[string]bool{"accept": true, "content-type": true, "content-length": true, "user-agent": true,
	"transfer-encoding": true, "accept-encoding": true, "connection": true}

// c14Build makes the real writer described by w (nil for the descriptions that stand for a nil writer).
func c14Build(w c14W) runtime.ClientAuthInfoWriter {
	switch w.K {
	case "basic":
		return client.BasicAuth(string(w.A), string(w.B))
	case "bearer":
		return client.BearerToken(string(w.A))
	case "keyh":
		return client.APIKeyAuth(string(w.A), "header", string(w.B))
	case "keyq":
		return client.APIKeyAuth(string(w.A), "query", string(w.B))
	case "badloc":
		return client.APIKeyAuth(string(w.A), "cookie", string(w.B))
	case "pass":
		return client.PassThroughAuth
	case "nil":
		return nil
	case "compose":
		ws := make([]runtime.ClientAuthInfoWriter, len(w.Ws))
		for i, x := range w.Ws {
			ws[i] = c14Build(x)
		}
		return client.Compose(ws...)
	}
	panic("c14: unknown writer kind " + w.K)
}

// c14IsNilWriter: the description stands for no writer at all.
func c14IsNilWriter(w *c14W) bool { return w == nil || w.K == "nil" || w.K == "badloc" }

// c14CoqWriter prints the writer as a term of Credentials.writer; a nil entry of a composition is skipped by Compose (WPass).
func c14CoqWriter(w c14W) string {
	switch w.K {
	case "basic":
		return fmt.Sprintf("(WBasic %s %s)", coqBytes(string(w.A)), coqBytes(string(w.B)))
	case "bearer":
		return fmt.Sprintf("(WBearer %s)", coqBytes(string(w.A)))
	case "keyh":
		return fmt.Sprintf("(WKey %s InHeader %s)", coqBytes(string(w.A)), coqBytes(string(w.B)))
	case "keyq":
		return fmt.Sprintf("(WKey %s InQuery %s)", coqBytes(string(w.A)), coqBytes(string(w.B)))
	case "pass", "nil", "badloc":
		return "WPass"
	case "compose":
		return "(WCompose " + coqList(w.Ws, c14CoqWriter) + ")"
	}
	panic("c14: unknown writer kind " + w.K)
}

func c14CoqOptWriter(w *c14W) string {
	if c14IsNilWriter(w) {
		return "None"
	}
	return "(Some " + c14CoqWriter(*w) + ")"
}

func c14CoqKV(kv c14KV) string { return coqPair(coqBytes(string(kv.K)), coqBytes(string(kv.V))) }
func c14CoqKVs(kv c14KVs) string {
	return coqPair(coqBytes(string(kv.K)), coqBytesList(bsList(kv.Vs)))
}

// c14WriterLabel: the kind of a writer for the distribution report.
func c14WriterLabel(w *c14W) string {
	if w == nil {
		return "none"
	}
	if w.K != "compose" {
		if w.K == "keyh" && c14WritesAuthz(*w) {
			return "keyh-authorization"
		}
		return w.K
	}
	switch {
	case len(w.Ws) == 0:
		return "compose-empty"
	case c14WritesAuthz(*w):
		return "compose-with-authorization-writer"
	}
	return "compose-without-authorization-writer"
}

// c14WritesAuthz: some member of the writer sets the Authorization header.
func c14WritesAuthz(w c14W) bool {
	switch w.K {
	case "basic", "bearer":
		return true
	case "keyh":
		return strings.EqualFold(string(w.A), "Authorization")
	case "compose":
		for _, x := range w.Ws {
			if c14WritesAuthz(x) {
				return true
			}
		}
	}
	return false
}

func (c14) Run(inAny any) any {
	in := inAny.(c14In)
	var obs c14Obs
	principal := &c14Principal{id: 7}
	var cbErr error
	if in.CbErr {
		cbErr = errC14
	}
	type ctxKey struct{}
	finish := func(applies bool, p interface{}, err error) {
		obs.Applies = applies
		if obs.Called == 0 {
			obs.POK = p == nil && err == nil
		} else {
			obs.POK = p == interface{}(principal) && err == cbErr && obs.Called == 1
		}
	}
	panicked, msg := recoverTo(func() {
		switch in.Kind {
		case "basic", "basicraw":
			var auth runtime.ClientAuthInfoWriter
			var params func(runtime.ClientRequest) error
			if in.Kind == "basic" {
				auth = client.BasicAuth(string(in.U), string(in.P))
			} else if in.Auth != "" {
				params = func(req runtime.ClientRequest) error { return req.SetHeaderParam("Authorization", string(in.Auth)) }
			}
			sreq, err := c14Wire(in, auth, nil, params, runtime.JSONMime)
			if err != nil {
				obs.Fail = err.Error()
				return
			}
			var a runtime.Authenticator
			if in.Ctx {
				a = security.BasicAuthRealmCtx(string(in.Realm), func(ctx context.Context, u, p string) (context.Context, interface{}, error) {
					obs.Called++
					obs.GotU, obs.GotP = Bs(u), Bs(p)
					return context.WithValue(ctx, ctxKey{}, 1), principal, cbErr
				})
			} else {
				a = security.BasicAuthRealm(string(in.Realm), func(u, p string) (interface{}, error) {
					obs.Called++
					obs.GotU, obs.GotP = Bs(u), Bs(p)
					return principal, cbErr
				})
			}
			applies, p, err := a.Authenticate(sreq)
			finish(applies, p, err)
			obs.Marker = Bs(security.FailedBasicAuth(sreq))
		case "apikey":
			loc := "header"
			if in.InQuery {
				loc = "query"
			}
			var opw, defw runtime.ClientAuthInfoWriter = client.APIKeyAuth(string(in.Name), loc, string(in.V)), nil
			if in.Def {
				opw, defw = nil, opw
			}
			sreq, err := c14Wire(in, opw, defw, nil, runtime.JSONMime)
			if err != nil {
				obs.Fail = err.Error()
				return
			}
			var a runtime.Authenticator
			// the server is configured with another spelling of the location, and of the header name
			sloc, sname := strings.ToUpper(loc[:1])+loc[1:], string(in.Name)
			if !in.InQuery {
				sname = strings.ToLower(sname)
			}
			if in.Ctx {
				a = security.APIKeyAuthCtx(sname, sloc, func(ctx context.Context, tok string) (context.Context, interface{}, error) {
					obs.Called++
					obs.GotTok = Bs(tok)
					return ctx, principal, cbErr
				})
			} else {
				a = security.APIKeyAuth(sname, sloc, func(tok string) (interface{}, error) {
					obs.Called++
					obs.GotTok = Bs(tok)
					return principal, cbErr
				})
			}
			applies, p, err := a.Authenticate(sreq)
			finish(applies, p, err)
		case "bearer":
			consumes := runtime.JSONMime
			switch in.Form {
			case 1:
				consumes = runtime.URLencodedFormMime
			case 2:
				consumes = runtime.MultipartFormMime
			}
			params := func(req runtime.ClientRequest) error {
				if in.Hdr != "" {
					if err := req.SetHeaderParam("Authorization", string(in.Hdr)); err != nil {
						return err
					}
				}
				if in.QTok != "" {
					if err := req.SetQueryParam("access_token", string(in.QTok)); err != nil {
						return err
					}
				}
				if in.Form != 0 {
					if err := req.SetFormParam("other", "1"); err != nil {
						return err
					}
					if in.FTok != "" {
						return req.SetFormParam("access_token", string(in.FTok))
					}
				}
				return nil
			}
			sreq, err := c14Wire(in, nil, nil, params, consumes)
			if err != nil {
				obs.Fail = err.Error()
				return
			}
			scopes := bsList(in.Scopes)
			var gotScopes []string
			var a runtime.Authenticator
			sawMarker := ""
			if in.Ctx {
				a = security.BearerAuthCtx("oauth-scheme", func(ctx context.Context, tok string, sc []string) (context.Context, interface{}, error) {
					obs.Called++
					obs.GotTok, gotScopes = Bs(tok), sc
					sawMarker = security.OAuth2SchemeNameCtx(ctx)
					return ctx, principal, cbErr
				})
			} else {
				a = security.BearerAuth("oauth-scheme", func(tok string, sc []string) (interface{}, error) {
					obs.Called++
					obs.GotTok, gotScopes = Bs(tok), sc
					return principal, cbErr
				})
			}
			applies, p, err := a.Authenticate(&security.ScopedAuthRequest{Request: sreq, RequiredScopes: scopes})
			finish(applies, p, err)
			if obs.Called > 0 {
				obs.ScopesOK = reflect.DeepEqual(gotScopes, scopes)
				obs.MarkerOK = security.OAuth2SchemeName(sreq) == "oauth-scheme" && (!in.Ctx || sawMarker == "oauth-scheme")
			} else {
				obs.ScopesOK = true
				obs.MarkerOK = security.OAuth2SchemeName(sreq) == ""
			}
		case "default":
			var opAuth, def runtime.ClientAuthInfoWriter
			if in.Op {
				opAuth = client.BearerToken("OP")
			}
			if in.Def {
				def = client.BearerToken("DEF")
			}
			var params func(runtime.ClientRequest) error
			if in.Preset != "" {
				params = func(req runtime.ClientRequest) error { return req.SetHeaderParam("Authorization", string(in.Preset)) }
			}
			sreq, err := c14Wire(in, opAuth, def, params, runtime.JSONMime)
			if err != nil {
				obs.Fail = err.Error()
				return
			}
			obs.Seen = Bs(sreq.Header.Get("Authorization"))
		case "defaultx":
			var opAuth, def runtime.ClientAuthInfoWriter
			if in.OpW != nil {
				opAuth = c14Build(*in.OpW)
			}
			if in.DefW != nil {
				def = c14Build(*in.DefW)
			}
			sreq, err := c14Wire(in, opAuth, def, c14PreParams(in.PreH, in.PreQ), runtime.JSONMime)
			if err != nil {
				obs.Fail = err.Error()
				return
			}
			obs.Hdrs, obs.Qry = c14Observe(sreq)
		case "defhist":
			obs.Steps = c14RunHist(in)
		case "cross":
			x := in.Cross
			sreq, err := c14CrossRequest(x)
			if err != nil {
				obs.Fail = err.Error()
				return
			}
			var a runtime.Authenticator
			tokCb := func(tok string) (interface{}, error) {
				obs.Called++
				obs.GotTok = Bs(tok)
				return principal, cbErr
			}
			tokCbCtx := func(ctx context.Context, tok string) (context.Context, interface{}, error) {
				obs.Called++
				obs.GotTok = Bs(tok)
				return ctx, principal, cbErr
			}
			switch x.Cred {
			case "basic":
				if in.Ctx {
					a = security.BasicAuthCtx(func(ctx context.Context, u, p string) (context.Context, interface{}, error) {
						obs.Called++
						obs.GotU, obs.GotP = Bs(u), Bs(p)
						return ctx, principal, cbErr
					})
				} else {
					a = security.BasicAuth(func(u, p string) (interface{}, error) {
						obs.Called++
						obs.GotU, obs.GotP = Bs(u), Bs(p)
						return principal, cbErr
					})
				}
			case "keyh", "keyq":
				loc := map[string]string{"keyh": "header", "keyq": "query"}[x.Cred]
				if in.Ctx {
					a = security.APIKeyAuthCtx(string(x.Name), loc, tokCbCtx)
				} else {
					a = security.APIKeyAuth(string(x.Name), loc, tokCb)
				}
			default:
				if in.Ctx {
					a = security.BearerAuthCtx("oauth-scheme", func(ctx context.Context, tok string, _ []string) (context.Context, interface{}, error) {
						return tokCbCtx(ctx, tok)
					})
				} else {
					a = security.BearerAuth("oauth-scheme", func(tok string, _ []string) (interface{}, error) { return tokCb(tok) })
				}
			}
			var applies bool
			var p interface{}
			if x.Cred == "bearer" {
				applies, p, err = a.Authenticate(&security.ScopedAuthRequest{Request: sreq, RequiredScopes: []string{"read"}})
			} else {
				applies, p, err = a.Authenticate(sreq)
			}
			finish(applies, p, err)
		}
	})
	if panicked {
		obs.Panic = msg
	}
	return obs
}

func (c14) Coq(inAny any, obsAny any) string {
	in, obs := inAny.(c14In), obsAny.(c14Obs)
	if in.Kind == "defhist" {
		steps := make([]string, len(in.Steps))
		for i, st := range in.Steps {
			so := c14StepObs{Fail: "not run"}
			if i < len(obs.Steps) {
				so = obs.Steps[i]
			}
			steps[i] = fmt.Sprintf("(mkstep %s %s %s %s %s %s %s %s)", c14CoqOptWriter(st.OpW), c14CoqOptWriter(st.DefW),
				coqList(st.PreH, c14CoqKV), coqList(st.PreQ, c14CoqKV), coqBool(so.Fail == "" && obs.Panic == ""), coqBool(so.Stable),
				coqList(so.Hdrs, c14CoqKVs), coqList(so.Qry, c14CoqKVs))
		}
		return "CDefaultHist [" + strings.Join(steps, "; ") + "]"
	}
	if obs.Fail != "" {
		// the transport refused the value (e.g. a control byte in a header): nothing reached the server
		return "CDefault false false [] []"
	}
	pok := obs.POK && obs.Panic == ""
	switch in.Kind {
	case "cross":
		x := in.Cross
		kind := map[string]string{"basic": "KBasic", "keyh": "KKeyHeader", "keyq": "KKeyQuery", "bearer": "KBearer"}[x.Cred]
		got := coqPair(coqBytes(string(obs.GotTok)), coqBytes(""))
		if x.Cred == "basic" {
			got = coqPair(coqBytes(string(obs.GotU)), coqBytes(string(obs.GotP)))
		}
		return fmt.Sprintf("CCross %s %s %s %s %s %s %s %s %s", kind, coqBytes(string(x.Name)), coqList(x.Hdrs, c14CoqKV), coqList(x.Qry, c14CoqKVs),
			coqList(x.Fields, c14CoqKVs), coqBool(c14CrossFormRead(x)), coqBool(obs.Applies), coqOpt(obs.Called > 0, got), coqBool(pok))
	case "basic":
		return fmt.Sprintf("CBasic %s %s %s %s %s %s %s %s", coqBytes(string(in.U)), coqBytes(string(in.P)), coqBytes(string(in.Realm)), coqBool(in.CbErr),
			coqBool(obs.Applies), coqOpt(obs.Called > 0, coqPair(coqBytes(string(obs.GotU)), coqBytes(string(obs.GotP)))), coqBytes(string(obs.Marker)), coqBool(pok))
	case "basicraw":
		return fmt.Sprintf("CBasicRaw %s %s %s", coqBytes(string(in.Auth)), coqBool(obs.Applies && pok),
			coqOpt(obs.Called > 0, coqPair(coqBytes(string(obs.GotU)), coqBytes(string(obs.GotP)))))
	case "apikey":
		return fmt.Sprintf("CApiKey %s %s %s %s %s %s", coqBytes(string(in.Name)), coqBool(in.InQuery), coqBytes(string(in.V)),
			coqBool(obs.Applies), coqOpt(obs.Called > 0, coqBytes(string(obs.GotTok))), coqBool(pok))
	case "bearer":
		return fmt.Sprintf("CBearer %s %s %s %s %s %s %s %s %s", coqBytes(string(in.Hdr)), coqBytes(string(in.QTok)), coqBytes(string(in.FTok)),
			coqBool(in.Form == 1 || in.Form == 2), coqBool(obs.Applies), coqOpt(obs.Called > 0, coqBytes(string(obs.GotTok))),
			coqBool(obs.ScopesOK), coqBool(obs.MarkerOK), coqBool(pok))
	case "default":
		return fmt.Sprintf("CDefault %s %s %s %s", coqBool(in.Op), coqBool(in.Def), coqBytes(string(in.Preset)), coqBytes(string(obs.Seen)))
	case "defaultx":
		return fmt.Sprintf("CDefaultX %s %s %s %s %s %s", c14CoqOptWriter(in.OpW), c14CoqOptWriter(in.DefW),
			coqList(in.PreH, c14CoqKV), coqList(in.PreQ, c14CoqKV), coqList(obs.Hdrs, c14CoqKVs), coqList(obs.Qry, c14CoqKVs))
	}
	panic("c14: unknown kind " + in.Kind)
}

func (c14) Classify(inAny any, obsAny any) []string { return nil }

func (c14) Category(inAny any, obsAny any) (string, bool) {
	in, obs := inAny.(c14In), obsAny.(c14Obs)
	if in.Kind == "defhist" {
		changes, own, preset, refused := 0, 0, 0, 0
		for i, st := range in.Steps {
			if i > 0 && !reflect.DeepEqual(st.DefW, in.Steps[i-1].DefW) {
				changes++
			}
			if !c14IsNilWriter(st.OpW) {
				own++
			}
			for _, kv := range st.PreH {
				if strings.EqualFold(string(kv.K), "Authorization") {
					preset++
					break
				}
			}
			if i < len(obs.Steps) && obs.Steps[i].Fail != "" {
				refused++
			}
		}
		b := func(n int) string {
			if n > 0 {
				return "yes"
			}
			return "no"
		}
		dbgs := 0
		for _, st := range in.Steps {
			if st.Debug && st.Submit {
				dbgs++
			}
		}
		return fmt.Sprintf("defhist/steps=%d/default-reassigned=%d/own-authinfo=%s/preset-authorization=%s/submit-in-debug-mode=%s/refused=%s", len(in.Steps), changes, b(own), b(preset), b(dbgs), b(refused)), true
	}
	if obs.Fail != "" {
		return in.Kind + "/refused-by-transport", false
	}
	if in.Via != "" {
		in2 := in
		in2.Via = ""
		cat, nt := c14{}.Category(in2, obs)
		return cat + "/via-" + in.Via, nt
	}
	v := "plain"
	if in.Ctx {
		v = "ctx"
	}
	app := "na"
	if obs.Applies {
		app = "applies"
	}
	switch in.Kind {
	case "cross":
		return fmt.Sprintf("cross/%s/%s/%s/%s", in.Cross.Cred, v, c14CrossLabel(in.Cross), app), true
	case "basic":
		t := "user-ok"
		if strings.Contains(string(in.U), ":") {
			t = "user-with-colon"
		}
		if in.CbErr {
			t += ",cberr"
		}
		return fmt.Sprintf("basic/%s/%s/%s", v, t, app), true
	case "basicraw":
		return fmt.Sprintf("basicraw/%s/%s", v, app), in.Auth != ""
	case "apikey":
		loc := "header"
		if in.InQuery {
			loc = "query"
		}
		if in.Def {
			loc += "/default-writer"
		}
		if strings.Contains(string(in.Base), "?") || strings.Contains(string(in.Pat), "?") {
			loc += "/static-query"
			for _, u := range []string{string(in.Base), string(in.Pat)} {
				if _, q, ok := strings.Cut(u, "?"); ok {
					if vs, err := url.ParseQuery(q); err == nil && vs.Has(string(in.Name)) {
						loc += "-same-name"
						break
					}
				}
			}
		}
		return fmt.Sprintf("apikey/%s/%s/%s", v, loc, app), in.V != ""
	case "bearer":
		var pl []string
		if in.Hdr != "" {
			if strings.HasPrefix(string(in.Hdr), "Bearer ") {
				pl = append(pl, "hdr")
			} else {
				pl = append(pl, "foreignhdr")
			}
		}
		if in.QTok != "" {
			pl = append(pl, "query")
		}
		if in.FTok != "" {
			pl = append(pl, []string{"", "urlform", "multipart", "jsonct-form"}[in.Form])
		}
		return fmt.Sprintf("bearer/%s/%s/%s", v, strings.Join(pl, "+"), app), len(pl) > 0
	case "default":
		return fmt.Sprintf("default/op=%v,def=%v,preset=%v", in.Op, in.Def, in.Preset != ""), in.Op || in.Def || in.Preset != ""
	case "defaultx":
		pre := "none"
		for _, kv := range in.PreH {
			if strings.EqualFold(string(kv.K), "Authorization") {
				pre = "authorization"
			} else if pre == "none" {
				pre = "other"
			}
		}
		if pre == "none" && len(in.PreQ) > 0 {
			pre = "other"
		}
		def := "none"
		if in.DefW != nil {
			def = "without-authorization-writer"
			if c14WritesAuthz(*in.DefW) {
				def = "with-authorization-writer"
			}
		}
		return fmt.Sprintf("defaultx/op=%s/def=%s/preset=%s", c14WriterLabel(in.OpW), def, pre),
			in.OpW != nil || in.DefW != nil || len(in.PreH) > 0 || len(in.PreQ) > 0
	}
	return in.Kind, false
}

// ---------- cross-location cases ----------

// c14CrossFormRead: the body is a form a server parses - multipart for every method, urlencoded for POST / PUT / PATCH only
// (net/http's ParseForm); this is what the model calls a form media type.
func c14CrossFormRead(x *c14Cross) bool {
	switch x.Form {
	case 2:
		return true
	case 1:
		return x.Method == "POST" || x.Method == "PUT" || x.Method == "PATCH"
	}
	return false
}

func c14CrossRequest(x *c14Cross) (*http.Request, error) {
	var qs []string
	for _, kv := range x.Qry {
		for _, v := range kv.Vs {
			qs = append(qs, url.QueryEscape(string(kv.K))+"="+url.QueryEscape(string(v)))
		}
	}
	target := "http://api.example.com/things"
	if len(qs) > 0 {
		target += "?" + strings.Join(qs, "&")
	}
	var body bytes.Buffer
	ct := ""
	switch x.Form {
	case 1, 3:
		var fs []string
		for _, kv := range x.Fields {
			for _, v := range kv.Vs {
				fs = append(fs, url.QueryEscape(string(kv.K))+"="+url.QueryEscape(string(v)))
			}
		}
		body.WriteString(strings.Join(fs, "&"))
		ct = runtime.URLencodedFormMime
		if x.Form == 3 {
			ct = runtime.JSONMime
		}
	case 2:
		w := multipart.NewWriter(&body)
		for _, kv := range x.Fields {
			for _, v := range kv.Vs {
				if err := w.WriteField(string(kv.K), string(v)); err != nil {
					return nil, err
				}
			}
		}
		if err := w.Close(); err != nil {
			return nil, err
		}
		ct = w.FormDataContentType()
	}
	var rd *bytes.Reader
	req, err := http.NewRequest(x.Method, target, nil)
	if x.Form != 0 {
		rd = bytes.NewReader(body.Bytes())
		req, err = http.NewRequest(x.Method, target, rd)
	}
	if err != nil {
		return nil, err
	}
	if ct != "" {
		req.Header.Set("Content-Type", ct)
	}
	for _, kv := range x.Hdrs {
		req.Header.Set(string(kv.K), string(kv.V))
	}
	var buf bytes.Buffer
	if err := req.Write(&buf); err != nil {
		return nil, err
	}
	return http.ReadRequest(bufio.NewReader(&buf))
}

// c14CrossLabel: is the declared location filled, and which other places carry the name of interest.
func c14CrossLabel(x *c14Cross) string {
	interest := map[string]bool{"authorization": true, "access_token": true}
	if x.Name != "" {
		interest[strings.ToLower(string(x.Name))] = true
	}
	has := func(place string) bool {
		switch place {
		case "header":
			for _, kv := range x.Hdrs {
				if interest[strings.ToLower(string(kv.K))] {
					return true
				}
			}
		case "cookie":
			for _, kv := range x.Hdrs {
				if strings.EqualFold(string(kv.K), "Cookie") {
					return true
				}
			}
		case "query":
			for _, kv := range x.Qry {
				if interest[strings.ToLower(string(kv.K))] {
					return true
				}
			}
		case "form":
			for _, kv := range x.Fields {
				if x.Form != 0 && interest[strings.ToLower(string(kv.K))] {
					return true
				}
			}
		}
		return false
	}
	var pl []string
	for _, p := range []string{"header", "query", "form", "cookie"} {
		if has(p) {
			if p == "form" {
				p = []string{"", "urlform", "multipart", "jsonct-form"}[x.Form]
			}
			pl = append(pl, p)
		}
	}
	if len(pl) == 0 {
		pl = []string{"nowhere"}
	}
	return "in:" + strings.Join(pl, "+")
}

func c14BasicValue(u, p string) string {
	return "Basic " + base64.StdEncoding.EncodeToString([]byte(u+":"+p))
}

// c14CrossBuild places, for one credential kind, the credential in its declared location (declared: 0 nowhere; 1 the
// location; for bearer 1 header, 2 query, 3 form) and another one of the same name in the other places chosen by decoys
// (bit 0 header, 1 query, 2 form, 3 cookie; a place that is the declared location itself is left alone).
func c14CrossBuild(cred, name string, declared, decoys, form int, method string, tok, other string) *c14Cross {
	x := &c14Cross{Cred: cred, Name: Bs(name), Method: method, Form: form}
	x.Qry = []c14KVs{{K: "page", Vs: []Bs{"2"}}}
	x.Hdrs = []c14KV{{K: "X-Request-Id", V: "r-17"}}
	if form != 0 {
		x.Fields = []c14KVs{{K: "comment", Vs: []Bs{"hello"}}}
	}
	nm := name
	hv, dv := tok, other // what a header holds: the credential / the other one
	switch cred {
	case "basic":
		nm = "Authorization"
		hv, dv = c14BasicValue("user", tok), c14BasicValue("mallory", other)
		tok, other = hv, dv
	case "bearer":
		nm = "access_token"
		hv, dv = "Bearer "+tok, "Bearer "+other
	}
	addH := func(k, v string) { x.Hdrs = append(x.Hdrs, c14KV{Bs(k), Bs(v)}) }
	addQ := func(k, v string) { x.Qry = append(x.Qry, c14KVs{Bs(k), []Bs{Bs(v)}}) }
	addF := func(k, v string) {
		if form != 0 {
			x.Fields = append(x.Fields, c14KVs{Bs(k), []Bs{Bs(v)}})
		}
	}
	// the declared location
	hdrTaken, qryTaken, formTaken := false, false, false
	switch {
	case declared == 0:
	case cred == "basic":
		addH("Authorization", hv)
		hdrTaken = true
	case cred == "keyh":
		addH(name, tok)
		hdrTaken = true
	case cred == "keyq":
		addQ(name, tok)
		qryTaken = true
	case cred == "bearer" && declared == 1:
		addH("Authorization", hv)
	case cred == "bearer" && declared == 2:
		addQ("access_token", tok)
		qryTaken = true
	case cred == "bearer" && declared == 3:
		addF("access_token", tok)
		formTaken = true
	}
	// the same name elsewhere
	if decoys&1 != 0 && !hdrTaken && cred != "basic" && cred != "keyh" {
		addH(nm, other) // a header named like the query key / like access_token
	}
	if decoys&2 != 0 && !qryTaken && cred != "keyq" {
		if cred == "bearer" {
			addQ("Authorization", dv) // access_token in the query is a declared place of bearer: the Authorization value as a query parameter instead
		} else {
			addQ(nm, other)
		}
	}
	if decoys&4 != 0 && !formTaken {
		if cred == "bearer" {
			addF("Authorization", dv)
			if form == 3 {
				addF("access_token", other) // a form-looking body under a JSON content type is not a form body
			}
		} else {
			addF(nm, other)
		}
	}
	if decoys&8 != 0 {
		addH("Cookie", nm+"="+url.QueryEscape(other)+"; session=s1")
	}
	return x
}

func c14EnumCross() []any {
	var out []any
	methods := []string{"POST", "PUT", "PATCH", "POST", "GET", "DELETE"}
	n := 0
	for _, cred := range []string{"basic", "keyh", "keyq", "bearer"} {
		maxDecl := 1
		if cred == "bearer" {
			maxDecl = 3
		}
		for declared := 0; declared <= maxDecl; declared++ {
			for form := 0; form <= 3; form++ {
				if cred == "bearer" && declared == 3 && form == 0 {
					continue
				}
				for decoys := 0; decoys < 16; decoys++ {
					if decoys&4 != 0 && form == 0 {
						continue
					}
					name := []string{"api_key", "X-API-Key", "token"}[n%3]
					x := c14CrossBuild(cred, name, declared, decoys, form, methods[n%len(methods)], "the-real-key", "from-elsewhere")
					out = append(out, c14In{Kind: "cross", Ctx: n%2 == 1, Cross: x})
					n++
				}
			}
		}
	}
	return out
}

var c14CrossNames = []string{"api_key", "X-API-Key", "token", "key", "access_token", "Authorization", "k.e-y", "API_KEY"}
var c14CrossToks = []string{"the-real-key", "t", "a b", "a&b=c", "x+y", "%41", "Bearer inner", "0"}

func c14GenCross(r *rand.Rand) c14In {
	cred := []string{"basic", "keyh", "keyq", "keyq", "bearer"}[r.Intn(5)]
	name := c14CrossNames[r.Intn(len(c14CrossNames))]
	declared := r.Intn(2)
	if cred == "bearer" {
		declared = r.Intn(4)
	}
	form := r.Intn(4)
	if cred == "bearer" && declared == 3 && form == 0 {
		form = 1 + r.Intn(2)
	}
	method := []string{"POST", "POST", "PUT", "PATCH", "GET", "DELETE"}[r.Intn(6)]
	tok, other := c14CrossToks[r.Intn(len(c14CrossToks))], c14CrossToks[r.Intn(len(c14CrossToks))]
	if r.Intn(3) == 0 {
		tok = c14HeaderSafe(r, 1+r.Intn(10))
	}
	tok, other = strings.TrimSpace(tok), strings.TrimSpace(other)
	if tok == "" {
		tok = "t0"
	}
	x := c14CrossBuild(cred, name, declared, r.Intn(16), form, method, tok, other+"#other")
	// more of the request: the name in another case (another parameter for query and form, the same header), empty values, a second value
	seenQ, seenF := map[string]bool{}, map[string]bool{}
	for _, kv := range x.Qry {
		seenQ[string(kv.K)] = true
	}
	for _, kv := range x.Fields {
		seenF[string(kv.K)] = true
	}
	for j := r.Intn(3); j > 0; j-- {
		k := []string{strings.ToUpper(name), strings.ToLower(name), name + "2", "access_token", "other"}[r.Intn(5)]
		v := []Bs{Bs(c14CrossToks[r.Intn(len(c14CrossToks))])}
		if r.Intn(4) == 0 {
			v = append([]Bs{""}, v...) // an empty first value
		}
		if r.Intn(2) == 0 && !seenQ[k] && !(cred == "bearer" && k == "access_token") {
			seenQ[k] = true
			x.Qry = append(x.Qry, c14KVs{Bs(k), v})
		} else if form != 0 && !seenF[k] && !(cred == "bearer" && k == "access_token") {
			seenF[k] = true
			x.Fields = append(x.Fields, c14KVs{Bs(k), v})
		}
	}
	r.Shuffle(len(x.Qry), func(a, b int) { x.Qry[a], x.Qry[b] = x.Qry[b], x.Qry[a] })
	r.Shuffle(len(x.Fields), func(a, b int) { x.Fields[a], x.Fields[b] = x.Fields[b], x.Fields[a] })
	return c14In{Kind: "cross", Ctx: r.Intn(2) == 0, CbErr: r.Intn(6) == 0, Cross: x}
}
