//go:build verif && (c15 || allprops)

package main

import (
	"bytes"
	"encoding/json"
	"encoding/xml"
	"errors"
	"fmt"
	"io"
	"math/rand"
	"reflect"
	"strings"

	"github.com/go-openapi/runtime"
	"github.com/go-openapi/runtime/yamlpc"
	"github.com/go-openapi/swag"
)

// C15 — built-in codecs. Cases:
//   consume  ByteStreamConsumer / TextConsumer on a scripted reader into one destination kind
//   produce  ByteStreamProducer / TextProducer from one source kind into a scripted writer
//   discard  DiscardConsumer / DiscardProducer
//   rt       JSON / XML / YAML producer -> consumer round trip on a supported value (differential only)
//
// The scripted reader and writer implement exactly StreamScripts.sread / swrite.

// ---------- scripts ----------

type c15Step struct {
	C Bs  `json:"c"`
	T int `json:"t,omitempty"` // 0 no terminal, 1 io.EOF, n >= 2 scripted error number n
}

type c15WStep struct {
	A int `json:"a"`           // bytes accepted at most
	E int `json:"e,omitempty"` // 0 nil, n >= 2 scripted error number n
}

type c15ScriptErr struct{ n int }

func (e *c15ScriptErr) Error() string { return fmt.Sprintf("scripted error %d", e.n) }

var c15ErrTable = map[int]*c15ScriptErr{}

func c15Err(n int) error {
	switch n {
	case 0:
		return nil
	case 1:
		return io.EOF
	}
	if e, ok := c15ErrTable[n]; ok {
		return e
	}
	e := &c15ScriptErr{n}
	c15ErrTable[n] = e
	return e
}

// c15Reader: one Read call takes the current step; a chunk that fits is delivered whole together with
// its terminal, otherwise the first len(p) bytes are delivered and the rest stays; terminals are sticky;
// a script that runs out of steps answers (0, io.EOF).
type c15Reader struct {
	steps  []c15Step
	dead   bool
	term   error
	reads  int
	closes int
}

func c15NewReader(steps []c15Step) *c15Reader {
	cp := make([]c15Step, len(steps))
	copy(cp, steps)
	return &c15Reader{steps: cp}
}

func (r *c15Reader) Read(p []byte) (int, error) {
	r.reads++
	if r.dead {
		return 0, r.term
	}
	if len(r.steps) == 0 {
		r.dead, r.term = true, io.EOF
		return 0, io.EOF
	}
	st := r.steps[0]
	if len(st.C) <= len(p) {
		n := copy(p, st.C)
		r.steps = r.steps[1:]
		t := c15Err(st.T)
		if t != nil {
			r.dead, r.term = true, t
		}
		return n, t
	}
	n := copy(p, st.C[:len(p)])
	r.steps[0].C = st.C[len(p):]
	return n, nil
}

// c15ReadCloser is a c15Reader that is also an io.Closer.
type c15ReadCloser struct{ r *c15Reader }

func (rc *c15ReadCloser) Read(p []byte) (int, error) { return rc.r.Read(p) }
func (rc *c15ReadCloser) Close() error               { rc.r.closes++; return nil }

// c15Writer: one Write call takes the next step (accept, err): stores min(accept, len p) bytes and
// returns that count with err; a script that runs out accepts everything.
type c15Writer struct {
	steps  []c15WStep
	got    []byte
	writes int
	closes int
}

func c15NewWriter(steps []c15WStep, pre string) *c15Writer {
	cp := make([]c15WStep, len(steps))
	copy(cp, steps)
	return &c15Writer{steps: cp, got: []byte(pre)}
}

func (w *c15Writer) Write(p []byte) (int, error) {
	w.writes++
	if len(w.steps) == 0 {
		w.got = append(w.got, p...)
		return len(p), nil
	}
	st := w.steps[0]
	w.steps = w.steps[1:]
	n := st.A
	if n > len(p) {
		n = len(p)
	}
	w.got = append(w.got, p[:n]...)
	return n, c15Err(st.E)
}

type c15WriteCloser struct{ w *c15Writer }

func (wc *c15WriteCloser) Write(p []byte) (int, error) { return wc.w.Write(p) }
func (wc *c15WriteCloser) Close() error                { wc.w.closes++; return nil }

// ---------- destination and source types ----------

type c15ReaderFromOnly struct{ buf bytes.Buffer }

func (d *c15ReaderFromOnly) ReadFrom(r io.Reader) (int64, error) { return d.buf.ReadFrom(r) }

type c15BinUnm struct {
	got []byte
	ret error
}

func (d *c15BinUnm) UnmarshalBinary(b []byte) error {
	d.got = append([]byte(nil), b...)
	return d.ret
}

type c15TextUnm struct {
	got []byte
	ret error
}

func (d *c15TextUnm) UnmarshalText(b []byte) error {
	d.got = append([]byte(nil), b...)
	return d.ret
}

type c15NamedString string
type c15NamedBytes []byte
type c15Plain struct {
	A string
	B int
}

// c15WTRC: io.WriterTo (a single Write of everything) that is also an io.ReadCloser.
type c15WTRC struct {
	content []byte
	closes  int
}

func (s *c15WTRC) WriteTo(w io.Writer) (int64, error) {
	n, err := w.Write(s.content)
	return int64(n), err
}
func (s *c15WTRC) Read(p []byte) (int, error) { return 0, io.EOF }
func (s *c15WTRC) Close() error               { s.closes++; return nil }

type c15BinMar struct {
	content []byte
	ret     error
}

func (s *c15BinMar) MarshalBinary() ([]byte, error) {
	if s.ret != nil {
		return nil, s.ret
	}
	return s.content, nil
}

type c15TextMar struct {
	content []byte
	ret     error
}

func (s *c15TextMar) MarshalText() ([]byte, error) {
	if s.ret != nil {
		return nil, s.ret
	}
	return s.content, nil
}

type c15Stringer struct{ content string }

func (s *c15Stringer) String() string { return s.content }

// ---------- input / observable ----------

type c15In struct {
	Kind     string     `json:"kind"`            // consume | produce | discard | rt
	Codec    string     `json:"codec,omitempty"` // bytestream | text | json | xml | yaml
	CloseOpt bool       `json:"close_opt,omitempty"`
	NilStrm  bool       `json:"nil_stream,omitempty"`
	Closable bool       `json:"closable,omitempty"`
	Steps    []c15Step  `json:"steps,omitempty"`  // reader script (consume) or payload reader script (produce, src=reader)
	WSteps   []c15WStep `json:"wsteps,omitempty"` // writer script (produce) or destination writer script (consume, dest=writer)
	WPre     Bs         `json:"wpre,omitempty"`   // what the sink already holds
	Dest     string     `json:"dest,omitempty"`
	Pre      Bs         `json:"pre,omitempty"` // what the destination already holds
	Ret      int        `json:"ret,omitempty"` // error number the (un)marshaler returns, 0 = nil
	Src      string     `json:"src,omitempty"`
	Content  Bs         `json:"content,omitempty"`
	PClos    bool       `json:"payload_closable,omitempty"`
	Shape    string     `json:"shape,omitempty"` // rt: which value
	Script   string     `json:"script,omitempty"` // label of the script shape (for the distribution report)
}

type c15Obs struct {
	Panicked bool   `json:"panicked,omitempty"`
	Panic    string `json:"panic,omitempty"`
	Err      string `json:"err,omitempty"`   // Coq term of the error class, "" = nil
	ErrText  string `json:"err_text,omitempty"`
	HasSt    bool   `json:"has_stored,omitempty"`
	Stored   Bs     `json:"stored,omitempty"`
	Got      Bs     `json:"got,omitempty"`
	Closes   int    `json:"closes,omitempty"`
	PCloses  int    `json:"pcloses,omitempty"`
	Reads    int    `json:"reads,omitempty"`
	Writes   int    `json:"writes,omitempty"`
	JOut     Bs     `json:"json_oracle,omitempty"`
	JErr     string `json:"json_oracle_err,omitempty"`
	OK       bool   `json:"ok,omitempty"`
	Detail   string `json:"detail,omitempty"`
}

type c15 struct{}

func init() { register(c15{}) }

func (c15) ID() string        { return "C15" }
func (c15) CoqModule() string { return "Check_C15" }
func (c15) Rule() string {
	return "byte stream and text codecs on scripted readers/writers (StreamScripts semantics): every destination kind (ReaderFrom, Writer, " +
		"BinaryUnmarshaler, TextUnmarshaler, *any holding string/[]byte/other, *[]byte, *string, named types, other pointers, typed-nil pointers, values, nil) " +
		"and source kind (WriterTo, WriterTo+ReadCloser, Reader, ReadCloser, BinaryMarshaler, error, []byte, string, pointers, named types, struct/slices via swag JSON, " +
		"TextMarshaler, Stringer, unsupported, typed-nil pointers, nil) x script shapes (one chunk, 1-byte chunks, zero-length reads, data+EOF, error at every offset, " +
		"short/failing writers with and without error) x contents (empty, text, binary, invalid UTF-8, a few KB) x ClosesStream on/off x closable or not x pre-populated or fresh; " +
		"JSON/XML/YAML producer->consumer round trips (differential). Non-trivial: a consume/produce case with a non-nil stream and a non-nil " +
		"destination/source whose script or content is not empty, or a round trip."
}

func (c15) Decode(raw json.RawMessage) (any, error) {
	var in c15In
	err := json.Unmarshal(raw, &in)
	return in, err
}

// ---------- error classes ----------

var c15OwnErrors = map[string]int{
	"ByteStreamConsumer requires a reader":    1,
	"TextConsumer requires a reader":          1,
	"ByteStreamProducer requires a writer":    1,
	"TextProducer requires a writer":          1,
	"nil destination for ByteStreamConsumer":  2,
	"nil data for ByteStreamProducer":         2,
	"no data given to produce text from":      2,
	"destination must be a pointer":           3,
	"nil pointer destination for ByteStreamConsumer": 6,
	"nil pointer destination for TextConsumer":       6,
	"nil pointer data for ByteStreamProducer":        6,
	"nil pointer data for TextProducer":              6,
}

func c15ErrClass(err error, jerr string) string {
	if err == nil {
		return ""
	}
	if se, ok := err.(*c15ScriptErr); ok {
		return fmt.Sprintf("(EScript %d)", se.n)
	}
	switch err {
	case io.EOF:
		return "EOF"
	case io.ErrShortWrite:
		return "EShortWrite"
	case io.ErrUnexpectedEOF:
		return "EUnexpectedEOF"
	case io.ErrNoProgress:
		return "ENoProgress"
	}
	msg := err.Error()
	if n, ok := c15OwnErrors[msg]; ok {
		return fmt.Sprintf("(EOther %d)", n)
	}
	switch {
	case strings.HasPrefix(msg, "text consumer: "), strings.HasPrefix(msg, "text producer: "):
		return "(EOther 5)"
	case strings.HasSuffix(msg, "can be resolved by supporting Writer/BinaryUnmarshaler interface"),
		strings.HasSuffix(msg, "can be resolved by supporting Reader/BinaryMarshaler interface"),
		strings.HasSuffix(msg, "can be resolved by supporting TextUnmarshaler interface"),
		strings.HasSuffix(msg, "is not a supported type by the TextProducer"):
		return "(EOther 4)"
	case jerr != "" && msg == jerr:
		return "(EOther 7)"
	}
	return "(EOther 9)"
}

// ---------- building destinations ----------

// c15Dests lists the destination variants and the Coq kind each stands for.
var c15Dests = []string{
	"nil", "buffer", "readerfrom", "writer", "binunm", "textunm",
	"any_string", "any_bytes", "any_int", "any_nil",
	"ptr_bytes", "ptr_named_bytes", "ptr_string", "ptr_named_string",
	"ptr_int", "ptr_struct", "ptr_ints",
	"nil_ptr_string", "nil_ptr_named_string", "nil_ptr_bytes", "nil_ptr_any", "nil_ptr_int", "nil_ptr_struct",
	"val_string", "val_bytes", "val_int", "val_struct",
}

type c15DestHandle struct {
	data   any
	stored func() (bool, string)
	writer *c15Writer
}

func c15NoContent() (bool, string) { return false, "" }

func c15MakeDest(in c15In) c15DestHandle {
	pre := string(in.Pre)
	switch in.Dest {
	case "nil":
		return c15DestHandle{data: nil, stored: c15NoContent}
	case "buffer":
		b := bytes.NewBufferString(pre)
		return c15DestHandle{data: b, stored: func() (bool, string) { return true, b.String() }}
	case "readerfrom":
		d := &c15ReaderFromOnly{}
		d.buf.WriteString(pre)
		return c15DestHandle{data: d, stored: func() (bool, string) { return true, d.buf.String() }}
	case "writer":
		w := c15NewWriter(in.WSteps, string(in.WPre))
		return c15DestHandle{data: w, writer: w, stored: func() (bool, string) { return true, string(w.got) }}
	case "binunm":
		d := &c15BinUnm{got: []byte(pre), ret: c15Err(in.Ret)}
		return c15DestHandle{data: d, stored: func() (bool, string) { return true, string(d.got) }}
	case "textunm":
		d := &c15TextUnm{got: []byte(pre), ret: c15Err(in.Ret)}
		return c15DestHandle{data: d, stored: func() (bool, string) { return true, string(d.got) }}
	case "any_string", "any_bytes", "any_int", "any_nil":
		var a any
		switch in.Dest {
		case "any_string":
			a = pre
		case "any_bytes":
			a = []byte(pre)
		case "any_int":
			a = 42
		}
		p := &a
		return c15DestHandle{data: p, stored: func() (bool, string) {
			switch v := (*p).(type) {
			case string:
				return true, v
			case []byte:
				return true, string(v)
			}
			return false, ""
		}}
	case "ptr_bytes":
		b := []byte(pre)
		return c15DestHandle{data: &b, stored: func() (bool, string) { return true, string(b) }}
	case "ptr_named_bytes":
		b := c15NamedBytes(pre)
		return c15DestHandle{data: &b, stored: func() (bool, string) { return true, string(b) }}
	case "ptr_string":
		s := pre
		return c15DestHandle{data: &s, stored: func() (bool, string) { return true, s }}
	case "ptr_named_string":
		s := c15NamedString(pre)
		return c15DestHandle{data: &s, stored: func() (bool, string) { return true, string(s) }}
	case "ptr_int":
		i := 7
		return c15DestHandle{data: &i, stored: c15NoContent}
	case "ptr_struct":
		return c15DestHandle{data: &c15Plain{A: "a", B: 1}, stored: c15NoContent}
	case "ptr_ints":
		l := []int{1, 2}
		return c15DestHandle{data: &l, stored: c15NoContent}
	case "nil_ptr_string":
		return c15DestHandle{data: (*string)(nil), stored: c15NoContent}
	case "nil_ptr_named_string":
		return c15DestHandle{data: (*c15NamedString)(nil), stored: c15NoContent}
	case "nil_ptr_bytes":
		return c15DestHandle{data: (*[]byte)(nil), stored: c15NoContent}
	case "nil_ptr_any":
		return c15DestHandle{data: (*any)(nil), stored: c15NoContent}
	case "nil_ptr_int":
		return c15DestHandle{data: (*int)(nil), stored: c15NoContent}
	case "nil_ptr_struct":
		return c15DestHandle{data: (*c15Plain)(nil), stored: c15NoContent}
	case "val_string":
		return c15DestHandle{data: pre, stored: c15NoContent}
	case "val_bytes":
		return c15DestHandle{data: []byte(pre), stored: c15NoContent}
	case "val_int":
		return c15DestHandle{data: 7, stored: c15NoContent}
	case "val_struct":
		return c15DestHandle{data: c15Plain{A: "a"}, stored: c15NoContent}
	}
	panic("unknown destination " + in.Dest)
}

func c15CoqErrOpt(n int) string {
	if n == 0 {
		return "None"
	}
	return fmt.Sprintf("(Some (EScript %d))", n)
}

func c15CoqWState(steps []c15WStep, pre string) string {
	return fmt.Sprintf("(mkW %s %s)", coqList(steps, func(s c15WStep) string {
		return coqPair(c15Nat(s.A), c15CoqErrOpt(s.E))
	}), coqBytes(pre))
}

func c15Nat(n int) string {
	if n < 1000 {
		return coqNat(n)
	}
	return coqNatBig(n)
}

func c15CoqDest(in c15In) string {
	pre := coqBytes(string(in.Pre))
	switch in.Dest {
	case "nil":
		return "DNil"
	case "buffer", "readerfrom":
		return "(DReaderFrom " + pre + ")"
	case "writer":
		return "(DWriter " + c15CoqWState(in.WSteps, string(in.WPre)) + ")"
	case "binunm":
		return fmt.Sprintf("(DBinUnm %s %s)", pre, c15CoqErrOpt(in.Ret))
	case "textunm":
		return fmt.Sprintf("(DTextUnm %s %s)", pre, c15CoqErrOpt(in.Ret))
	case "any_string":
		return "(DPtrAny (AString " + pre + "))"
	case "any_bytes":
		return "(DPtrAny (ABytes " + pre + "))"
	case "any_int", "any_nil":
		return "(DPtrAny AOther)"
	case "ptr_bytes", "ptr_named_bytes":
		return "(DPtrBytes " + pre + ")"
	case "ptr_string", "ptr_named_string":
		return "(DPtrString " + pre + ")"
	case "ptr_int", "ptr_struct", "ptr_ints":
		return "DPtrOther"
	case "nil_ptr_string", "nil_ptr_named_string":
		return "DNilPtrString"
	case "nil_ptr_bytes":
		return "DNilPtrBytes"
	case "nil_ptr_any":
		return "DNilPtrAny"
	case "nil_ptr_int", "nil_ptr_struct":
		return "DNilPtrOther"
	case "val_string", "val_bytes", "val_int", "val_struct":
		return "DNonPtr"
	}
	panic("unknown destination " + in.Dest)
}

// ---------- building sources ----------

var c15Srcs = []string{
	"nil", "buffer", "writerto_rc", "reader", "binmar", "error",
	"bytes", "ptr_bytes", "named_bytes", "string", "ptr_string", "named_string",
	"struct", "ptr_struct", "ints", "strings", "textmar", "stringer",
	"int", "map", "ptr_int",
	"nil_ptr_string", "nil_ptr_bytes", "nil_ptr_struct", "nil_ptr_int",
}

type c15SrcHandle struct {
	data    any
	pcloses func() int
}

func c15MakeSrc(in c15In) c15SrcHandle {
	content := string(in.Content)
	zero := func() int { return 0 }
	switch in.Src {
	case "nil":
		return c15SrcHandle{nil, zero}
	case "buffer":
		return c15SrcHandle{bytes.NewBufferString(content), zero}
	case "writerto_rc":
		s := &c15WTRC{content: []byte(content)}
		return c15SrcHandle{s, func() int { return s.closes }}
	case "reader":
		r := c15NewReader(in.Steps)
		if in.PClos {
			return c15SrcHandle{&c15ReadCloser{r}, func() int { return r.closes }}
		}
		return c15SrcHandle{r, zero}
	case "binmar":
		return c15SrcHandle{&c15BinMar{[]byte(content), c15Err(in.Ret)}, zero}
	case "error":
		return c15SrcHandle{errors.New(content), zero}
	case "bytes":
		return c15SrcHandle{[]byte(content), zero}
	case "ptr_bytes":
		b := []byte(content)
		return c15SrcHandle{&b, zero}
	case "named_bytes":
		return c15SrcHandle{c15NamedBytes(content), zero}
	case "string":
		return c15SrcHandle{content, zero}
	case "ptr_string":
		return c15SrcHandle{&content, zero}
	case "named_string":
		return c15SrcHandle{c15NamedString(content), zero}
	case "struct":
		return c15SrcHandle{c15Plain{A: content, B: len(content)}, zero}
	case "ptr_struct":
		return c15SrcHandle{&c15Plain{A: content, B: len(content)}, zero}
	case "ints":
		l := []int{}
		for i := 0; i < len(content) && i < 8; i++ {
			l = append(l, int(content[i]))
		}
		return c15SrcHandle{l, zero}
	case "strings":
		return c15SrcHandle{[]string{content, "x"}, zero}
	case "textmar":
		return c15SrcHandle{&c15TextMar{[]byte(content), c15Err(in.Ret)}, zero}
	case "stringer":
		return c15SrcHandle{&c15Stringer{content}, zero}
	case "int":
		return c15SrcHandle{42, zero}
	case "map":
		return c15SrcHandle{map[string]int{"a": 1}, zero}
	case "ptr_int":
		i := 42
		return c15SrcHandle{&i, zero}
	case "nil_ptr_string":
		return c15SrcHandle{(*string)(nil), zero}
	case "nil_ptr_bytes":
		return c15SrcHandle{(*[]byte)(nil), zero}
	case "nil_ptr_struct":
		return c15SrcHandle{(*c15Plain)(nil), zero}
	case "nil_ptr_int":
		return c15SrcHandle{(*int)(nil), zero}
	}
	panic("unknown source " + in.Src)
}

func c15CoqSteps(steps []c15Step) string {
	return coqList(steps, func(s c15Step) string {
		t := "None"
		switch {
		case s.T == 1:
			t = "(Some EOF)"
		case s.T >= 2:
			t = fmt.Sprintf("(Some (EScript %d))", s.T)
		}
		return coqPair(coqBytes(string(s.C)), t)
	})
}

func c15CoqSrc(in c15In) string {
	content := coqBytes(string(in.Content))
	switch in.Src {
	case "nil":
		return "SNil"
	case "buffer":
		return "(SBuffer " + content + ")"
	case "writerto_rc":
		return "(SWriterToRC " + content + ")"
	case "reader":
		return fmt.Sprintf("(SReader (Live %s) %s)", c15CoqSteps(in.Steps), coqBool(in.PClos))
	case "binmar":
		return fmt.Sprintf("(SBinMar %s %s)", content, c15CoqErrOpt(in.Ret))
	case "error":
		return "(SError " + content + ")"
	case "bytes", "ptr_bytes", "named_bytes":
		return "(SBytes " + content + ")"
	case "string", "ptr_string", "named_string":
		return "(SString " + content + ")"
	case "struct", "ptr_struct", "ints", "strings":
		return "SJson"
	case "textmar":
		return fmt.Sprintf("(STextMar %s %s)", content, c15CoqErrOpt(in.Ret))
	case "stringer":
		return "(SStringer " + content + ")"
	case "int", "map", "ptr_int":
		return "SUnsupported"
	case "nil_ptr_string", "nil_ptr_bytes", "nil_ptr_struct", "nil_ptr_int":
		return "SNilPtr"
	}
	panic("unknown source " + in.Src)
}

// ---------- running the real codecs ----------

func (c15) Run(inAny any) any {
	in := inAny.(c15In)
	var obs c15Obs
	switch in.Kind {
	case "consume":
		c15RunConsume(in, &obs)
	case "produce":
		c15RunProduce(in, &obs)
	case "discard":
		c15RunDiscard(in, &obs)
	case "rt":
		obs.Panicked, obs.Panic = recoverTo(func() { obs.OK, obs.Detail = c15RoundTrip(in) })
	default:
		panic("unknown kind " + in.Kind)
	}
	return obs
}

func c15RunConsume(in c15In, obs *c15Obs) {
	var cons runtime.Consumer
	switch in.Codec {
	case "bytestream":
		if in.CloseOpt {
			cons = runtime.ByteStreamConsumer(runtime.ClosesStream)
		} else {
			cons = runtime.ByteStreamConsumer()
		}
	case "text":
		cons = runtime.TextConsumer()
	default:
		panic("consume: codec " + in.Codec)
	}
	var rd io.Reader
	var sr *c15Reader
	if !in.NilStrm {
		sr = c15NewReader(in.Steps)
		if in.Closable {
			rd = &c15ReadCloser{sr}
		} else {
			rd = sr
		}
	}
	dest := c15MakeDest(in)
	var err error
	obs.Panicked, obs.Panic = recoverTo(func() { err = cons.Consume(rd, dest.data) })
	obs.Err = c15ErrClass(err, "")
	if err != nil {
		obs.ErrText = err.Error()
	}
	has, st := dest.stored()
	obs.HasSt, obs.Stored = has, Bs(st)
	if sr != nil {
		obs.Closes, obs.Reads = sr.closes, sr.reads
	}
}

func c15RunProduce(in c15In, obs *c15Obs) {
	var prod runtime.Producer
	switch in.Codec {
	case "bytestream":
		if in.CloseOpt {
			prod = runtime.ByteStreamProducer(runtime.ClosesStream)
		} else {
			prod = runtime.ByteStreamProducer()
		}
	case "text":
		prod = runtime.TextProducer()
	default:
		panic("produce: codec " + in.Codec)
	}
	var wr io.Writer
	var sw *c15Writer
	if !in.NilStrm {
		sw = c15NewWriter(in.WSteps, string(in.WPre))
		if in.Closable {
			wr = &c15WriteCloser{sw}
		} else {
			wr = sw
		}
	}
	// oracle: what swag.WriteJSON answers for this very kind of value (a second, identical value:
	// the oracle call must not consume the payload)
	jsrc := c15MakeSrc(in)
	if jsrc.data != nil {
		recoverTo(func() {
			b, jerr := swag.WriteJSON(jsrc.data)
			if jerr != nil {
				obs.JErr = jerr.Error()
			} else {
				obs.JOut = Bs(b)
			}
		})
	}
	src := c15MakeSrc(in)
	var err error
	obs.Panicked, obs.Panic = recoverTo(func() { err = prod.Produce(wr, src.data) })
	obs.Err = c15ErrClass(err, obs.JErr)
	if err != nil {
		obs.ErrText = err.Error()
	}
	if sw != nil {
		obs.Got, obs.Closes, obs.Writes = Bs(sw.got), sw.closes, sw.writes
	}
	obs.PCloses = src.pcloses()
}

func c15RunDiscard(in c15In, obs *c15Obs) {
	sr := c15NewReader(in.Steps)
	sw := c15NewWriter(nil, "")
	var e1, e2 error
	var dst string
	obs.Panicked, obs.Panic = recoverTo(func() {
		e1 = runtime.DiscardConsumer.Consume(&c15ReadCloser{sr}, &dst)
		e2 = runtime.DiscardProducer.Produce(&c15WriteCloser{sw}, string(in.Content))
	})
	if e1 != nil {
		obs.Err = c15ErrClass(e1, "")
	} else {
		obs.Err = c15ErrClass(e2, "")
	}
	obs.Reads, obs.Writes, obs.Closes = sr.reads, sw.writes, sr.closes+sw.closes
	if dst != "" {
		obs.Writes++
	}
}

// ---------- JSON / XML / YAML round trips (differential) ----------

type c15Doc struct {
	XMLName xml.Name `json:"-" yaml:"-" xml:"doc"`
	Name    string   `json:"name" yaml:"name" xml:"name"`
	N       int64    `json:"n" yaml:"n" xml:"n"`
	U       uint64   `json:"u" yaml:"u" xml:"u"`
	F       float64  `json:"f" yaml:"f" xml:"f"`
	B       bool     `json:"b" yaml:"b" xml:"b"`
	Tags    []string `json:"tags" yaml:"tags" xml:"tags>tag"`
	Inner   *c15Sub  `json:"inner,omitempty" yaml:"inner,omitempty" xml:"inner,omitempty"`
}

type c15Sub struct {
	K string `json:"k" yaml:"k" xml:"k"`
	V int    `json:"v" yaml:"v" xml:"v"`
}

func c15Codecs(name string) (runtime.Producer, runtime.Consumer) {
	switch name {
	case "json":
		return runtime.JSONProducer(), runtime.JSONConsumer()
	case "xml":
		return runtime.XMLProducer(), runtime.XMLConsumer()
	case "yaml":
		return yamlpc.YAMLProducer(), yamlpc.YAMLConsumer()
	}
	panic("rt: codec " + name)
}

// c15DocFrom derives a document deterministically from the content bytes.
func c15DocFrom(content string, safe bool, yamlSafe bool) c15Doc {
	clean := func(s string) string {
		var sb strings.Builder
		for i := 0; i < len(s); i++ {
			c := s[i]
			if c < 0x20 || c > 0x7e {
				if safe {
					c = 'a' + c%26
				} else if c == '\r' || c < 0x20 && c != '\n' && c != '\t' || c >= 0x7f {
					c = 'A' + c%26
				}
			}
			sb.WriteByte(c)
		}
		out := sb.String()
		// yaml.v3 v3.0.1 cannot round-trip a string that starts with a line break (it emits a block scalar with
		// a wrong indentation indicator: a sequence item no longer parses, a map value loses the line break).
		// That is the library, not the codec; such strings are not generated for YAML (notes/C15.md).
		if yamlSafe && strings.HasPrefix(out, "\n") {
			out = "n" + out[1:]
		}
		return out
	}
	var n int64
	var u uint64
	for i := 0; i < len(content); i++ {
		n = n*131 + int64(content[i])
		u = u*257 + uint64(content[i])
	}
	d := c15Doc{Name: clean(content), N: n, U: u, F: float64(n%100000) / 64, B: len(content)%2 == 1, Tags: []string{}}
	for i := 0; i+3 <= len(content) && i < 12; i += 3 {
		d.Tags = append(d.Tags, clean(content[i:i+3]))
	}
	if len(content) > 2 {
		d.Inner = &c15Sub{K: clean(content[:2]), V: int(content[2])}
	}
	return d
}

func c15OneByteSteps(b []byte) []c15Step {
	steps := make([]c15Step, 0, len(b)+1)
	for i := range b {
		steps = append(steps, c15Step{C: Bs(b[i : i+1])})
	}
	return steps
}

func c15RoundTrip(in c15In) (bool, string) {
	prod, cons := c15Codecs(in.Codec)
	content := string(in.Content)
	sink := c15NewWriter(nil, "")
	feed := func() io.Reader {
		// the consumer reads what the producer wrote through a scripted reader: 1-byte chunks or one chunk + EOF
		if len(content)%2 == 0 {
			return c15NewReader(c15OneByteSteps(sink.got))
		}
		return c15NewReader([]c15Step{{C: Bs(sink.got), T: 1}})
	}
	switch in.Shape {
	case "doc":
		doc := c15DocFrom(content, in.Codec == "xml", in.Codec == "yaml")
		if in.Codec != "xml" {
			doc.XMLName = xml.Name{}
		}
		if err := prod.Produce(sink, doc); err != nil {
			return false, "produce: " + err.Error()
		}
		var back c15Doc
		if err := cons.Consume(feed(), &back); err != nil {
			return false, "consume: " + err.Error()
		}
		if in.Codec == "xml" {
			back.XMLName = doc.XMLName
			if back.Tags == nil {
				back.Tags = []string{}
			}
		}
		if in.Codec == "yaml" && back.Tags == nil {
			back.Tags = []string{}
		}
		if !reflect.DeepEqual(doc, back) {
			return false, fmt.Sprintf("round trip differs: %+v vs %+v (wire %q)", doc, back, sink.got)
		}
		return true, ""
	case "bignum":
		// JSON numbers beyond float64 precision survive into interface{} destinations (UseNumber)
		digits := "9007199254740993"
		for i := 0; i < len(content); i++ {
			digits += string(rune('0' + content[i]%10))
		}
		if len(content)%3 == 1 {
			digits = "-" + digits
		}
		if len(content)%3 == 2 {
			digits += ".000000000000000000001"
		}
		val := map[string]any{"n": json.Number(digits), "l": []any{json.Number(digits), "s"}}
		if err := prod.Produce(sink, val); err != nil {
			return false, "produce: " + err.Error()
		}
		var back any
		if err := cons.Consume(feed(), &back); err != nil {
			return false, "consume: " + err.Error()
		}
		if !reflect.DeepEqual(any(val), back) {
			return false, fmt.Sprintf("number not preserved: %v vs %v (wire %q)", val, back, sink.got)
		}
		return true, ""
	case "html":
		// no HTML escaping: < > & reach the wire as they are, and come back
		s := "<a href=\"x\">&" + strings.Map(func(r rune) rune {
			if r < 0x20 || r > 0x7e {
				return 'h'
			}
			return r
		}, content) + "</a>"
		if err := prod.Produce(sink, s); err != nil {
			return false, "produce: " + err.Error()
		}
		if !bytes.Contains(sink.got, []byte("<a href=")) || !bytes.Contains(sink.got, []byte(">&")) || bytes.Contains(sink.got, []byte("\\u003c")) {
			return false, fmt.Sprintf("HTML characters were escaped on the wire: %q", sink.got)
		}
		var back string
		if err := cons.Consume(feed(), &back); err != nil {
			return false, "consume: " + err.Error()
		}
		if back != s {
			return false, fmt.Sprintf("string differs: %q vs %q", s, back)
		}
		return true, ""
	case "first":
		// one Decode: the consumer takes the first document and leaves the rest of the stream alone
		doc := c15DocFrom(content, false, false)
		doc.XMLName = xml.Name{}
		if err := prod.Produce(sink, doc); err != nil {
			return false, "produce: " + err.Error()
		}
		sink.got = append(sink.got, []byte(" {\"name\":\"second\"} trailing garbage")...)
		var back c15Doc
		if err := cons.Consume(feed(), &back); err != nil {
			return false, "consume: " + err.Error()
		}
		if back.Tags == nil {
			back.Tags = []string{}
		}
		if !reflect.DeepEqual(doc, back) {
			return false, fmt.Sprintf("first document differs: %+v vs %+v", doc, back)
		}
		return true, ""
	}
	panic("rt: shape " + in.Shape)
}

// ---------- Gallina ----------

func c15CoqCodec(s string) string {
	if s == "text" {
		return "Text"
	}
	return "ByteStream"
}

func c15CoqErr(cls string) string {
	if cls == "" {
		return "None"
	}
	return "(Some " + cls + ")"
}

func (c15) Coq(inAny any, obsAny any) string {
	in, obs := inAny.(c15In), obsAny.(c15Obs)
	switch in.Kind {
	case "consume":
		rd := "None"
		if !in.NilStrm {
			rd = fmt.Sprintf("(Some (%s, %s))", c15CoqSteps(in.Steps), coqBool(in.Closable))
		}
		return fmt.Sprintf("CConsume %s %s %s %s %s %s %s %s", c15CoqCodec(in.Codec), coqBool(in.CloseOpt), rd, c15CoqDest(in),
			coqBool(obs.Panicked), c15CoqErr(obs.Err), coqOpt(obs.HasSt, coqBytes(string(obs.Stored))), c15Nat(obs.Closes))
	case "produce":
		wr := "None"
		if !in.NilStrm {
			wr = fmt.Sprintf("(Some (%s, %s))", c15CoqWState(in.WSteps, string(in.WPre)), coqBool(in.Closable))
		}
		jerr := "None"
		if obs.JErr != "" {
			jerr = "(Some (EOther 7))"
		}
		return fmt.Sprintf("CProduce %s %s %s %s (%s, %s) %s %s %s %s %s", c15CoqCodec(in.Codec), coqBool(in.CloseOpt), wr, c15CoqSrc(in),
			coqBytes(string(obs.JOut)), jerr,
			coqBool(obs.Panicked), c15CoqErr(obs.Err), coqBytes(string(obs.Got)), c15Nat(obs.Closes), c15Nat(obs.PCloses))
	case "discard":
		return fmt.Sprintf("CDiscard %s %s %s %s %s", coqBool(obs.Panicked), c15CoqErr(obs.Err), c15Nat(obs.Reads), c15Nat(obs.Writes), c15Nat(obs.Closes))
	case "rt":
		f := map[string]int{"json": 0, "xml": 1, "yaml": 2}[in.Codec]
		sh := map[string]int{"doc": 0, "bignum": 1, "html": 2, "first": 3}[in.Shape]
		return fmt.Sprintf("CRoundTrip %d %d %s %s", f, sh, coqBool(obs.Panicked), coqBool(obs.OK))
	}
	panic("unknown kind " + in.Kind)
}

// ---------- known findings ----------

func c15Bytes(steps []c15Step) string {
	var sb strings.Builder
	for _, s := range steps {
		sb.WriteString(string(s.C))
		if s.T != 0 {
			break
		}
	}
	return sb.String()
}

func c15Term(steps []c15Step) int {
	for _, s := range steps {
		if s.T != 0 {
			return s.T
		}
	}
	return 1
}

func (c15) Classify(inAny any, obsAny any) []string {
	in, obs := inAny.(c15In), obsAny.(c15Obs)
	var kf []string
	// F-C15-2: text consumer, empty input, destination of a supported kind that already holds something:
	// nil is returned and the old content stays
	if in.Kind == "consume" && in.Codec == "text" && !in.NilStrm && !obs.Panicked && obs.Err == "" &&
		c15Bytes(in.Steps) == "" && c15Term(in.Steps) == 1 && len(in.Pre) > 0 &&
		(in.Dest == "ptr_string" || in.Dest == "ptr_named_string" || in.Dest == "textunm" && in.Ret == 0) &&
		obs.HasSt && obs.Stored == in.Pre {
		kf = append(kf, "text.empty_input_prepopulated_destination")
	}
	return kf
}

// ---------- categories ----------

func (c15) Category(inAny any, obsAny any) (string, bool) {
	in, obs := inAny.(c15In), obsAny.(c15Obs)
	out := "ok"
	switch {
	case obs.Panicked:
		out = "panic"
	case obs.Err != "":
		out = "err"
	}
	switch in.Kind {
	case "consume":
		opt := ""
		if in.CloseOpt {
			opt = "+close"
		}
		if in.NilStrm {
			return fmt.Sprintf("consume/%s%s/nil-reader/%s/%s", in.Codec, opt, in.Dest, out), false
		}
		pre := ""
		if len(in.Pre) > 0 || in.Dest == "writer" && len(in.WPre) > 0 {
			pre = "+pre"
		}
		return fmt.Sprintf("consume/%s%s/%s%s/%s/%s/%s", in.Codec, opt, in.Dest, pre, in.Script, c15ContentClass(c15Bytes(in.Steps)), out),
			in.Dest != "nil" && len(in.Steps) > 0
	case "produce":
		opt := ""
		if in.CloseOpt {
			opt = "+close"
		}
		if in.NilStrm {
			return fmt.Sprintf("produce/%s%s/nil-writer/%s/%s", in.Codec, opt, in.Src, out), false
		}
		content := string(in.Content)
		if in.Src == "reader" {
			content = c15Bytes(in.Steps)
		}
		return fmt.Sprintf("produce/%s%s/%s/%s/%s/%s", in.Codec, opt, in.Src, in.Script, c15ContentClass(content), out),
			in.Src != "nil" && (len(content) > 0 || len(in.Steps) > 0)
	case "discard":
		return "discard", true
	default:
		return fmt.Sprintf("rt/%s/%s/%s", in.Codec, in.Shape, out), true
	}
}

func c15ContentClass(s string) string {
	switch {
	case len(s) == 0:
		return "empty"
	case len(s) >= 1024:
		return "large"
	}
	ascii := true
	for i := 0; i < len(s); i++ {
		if s[i] < 0x20 && s[i] != '\n' && s[i] != '\t' || s[i] > 0x7e {
			ascii = false
		}
	}
	if ascii {
		return "text"
	}
	if !strings.ContainsRune(s, 0) && strings.ToValidUTF8(s, "") == s {
		return "utf8"
	}
	if strings.ToValidUTF8(s, "") != s {
		return "invalid-utf8"
	}
	return "binary"
}

// ---------- generation ----------

func c15Content(r *rand.Rand) string {
	switch r.Intn(12) {
	case 0:
		return ""
	case 1:
		b := make([]byte, 1+r.Intn(24))
		for i := range b {
			b[i] = byte(r.Intn(256))
		}
		return string(b)
	case 2:
		return []string{"\xff\xfe\xfd", "ok\xc3", "\xc3\x28", "a\x80b", "\xed\xa0\x80"}[r.Intn(5)] + c15Word(r)
	case 3:
		b := make([]byte, 1500+r.Intn(2600))
		for i := range b {
			b[i] = byte(r.Intn(256))
		}
		return string(b)
	case 4:
		return "\x00" + c15Word(r) + "\x00\x01"
	case 5:
		return "h\xc3\xa9llo w\xc3\xb6rld \xe2\x82\xac"
	case 6:
		return `{"n":12345678901234567890123,"f":0.1000000000000000055511151231257827}`
	default:
		return c15Word(r)
	}
}

func c15Word(r *rand.Rand) string {
	words := []string{"hello", "the quick brown fox", "a", "line1\nline2\n", "x,y,z", "  padded  ", "%d %s", "<b>&amp;</b>", "0123456789abcdef"}
	return words[r.Intn(len(words))]
}

// c15Script cuts content into a reader script of one of the shapes the property quantifies over.
func c15Script(r *rand.Rand, content string) ([]c15Step, string) {
	b := []byte(content)
	shape := r.Intn(9)
	if len(b) > 256 && (shape == 1 || shape == 4) {
		shape = 2
	}
	switch shape {
	case 0: // one chunk, EOF on the next call
		return []c15Step{{C: Bs(b)}}, "one-chunk"
	case 1: // 1-byte chunks
		return c15OneByteSteps(b), "1-byte"
	case 2: // random chunks
		return c15Cut(r, b, 0, false), "chunks"
	case 3: // data together with EOF
		steps := c15Cut(r, b, 0, false)
		if len(steps) == 0 {
			return []c15Step{{T: 1}}, "data+eof"
		}
		steps[len(steps)-1].T = 1
		return steps, "data+eof"
	case 4: // zero-length reads in between
		steps := c15Cut(r, b, 3, false)
		return steps, "zero-reads"
	case 5, 6: // error at an offset, with or without data in the failing call
		k := 0
		if len(b) > 0 {
			k = r.Intn(len(b) + 1)
		}
		steps := c15Cut(r, b[:k], r.Intn(2)*4, false)
		e := 2 + r.Intn(5)
		if shape == 5 || len(steps) == 0 {
			steps = append(steps, c15Step{T: e})
		} else {
			steps[len(steps)-1].T = e
		}
		// what would have followed
		steps = append(steps, c15Step{C: Bs(b[k:])})
		return steps, "error-at-offset"
	case 7: // explicit EOF step, then junk that must never be read
		steps := c15Cut(r, b, 0, false)
		steps = append(steps, c15Step{T: 1}, c15Step{C: "JUNK"})
		return steps, "eof-then-junk"
	default: // no steps at all for empty, else one chunk + EOF
		if len(b) == 0 {
			return nil, "no-steps"
		}
		return []c15Step{{C: Bs(b), T: 1}}, "data+eof"
	}
}

func c15Cut(r *rand.Rand, b []byte, zeroEvery int, _ bool) []c15Step {
	var steps []c15Step
	for len(b) > 0 {
		n := 1 + r.Intn(7)
		if len(b) > 64 {
			n = 1 + r.Intn(900)
		}
		if n > len(b) {
			n = len(b)
		}
		if zeroEvery > 0 && r.Intn(zeroEvery) == 0 {
			steps = append(steps, c15Step{})
		}
		steps = append(steps, c15Step{C: Bs(b[:n])})
		b = b[n:]
	}
	if zeroEvery > 0 {
		steps = append(steps, c15Step{}, c15Step{})
	}
	return steps
}

// c15WScript draws a writer script: lawful (accepts everything), short with error, short without error, error at once.
func c15WScript(r *rand.Rand, total int) ([]c15WStep, string) {
	switch r.Intn(8) {
	case 0, 1, 2:
		return nil, "accepting"
	case 3: // fails at some call, accepting part of it
		var steps []c15WStep
		for j := r.Intn(3); j > 0; j-- {
			steps = append(steps, c15WStep{A: 5000})
		}
		a := 0
		if total > 0 {
			a = r.Intn(total + 1)
		}
		return append(steps, c15WStep{A: a, E: 2 + r.Intn(5)}), "write-error"
	case 4: // short count without error (breaks the io.Writer contract)
		var steps []c15WStep
		for j := r.Intn(2); j > 0; j-- {
			steps = append(steps, c15WStep{A: 5000})
		}
		a := 0
		if total > 1 {
			a = r.Intn(total)
		}
		return append(steps, c15WStep{A: a}), "short-no-error"
	case 5: // error although everything was accepted
		return []c15WStep{{A: 5000, E: 2 + r.Intn(5)}}, "full-with-error"
	case 6: // error on the first call, nothing accepted
		return []c15WStep{{A: 0, E: 2 + r.Intn(5)}}, "write-error"
	default:
		return []c15WStep{{A: 5000}, {A: 5000}, {A: 5000}}, "accepting"
	}
}

func c15Codec(r *rand.Rand) string {
	if r.Intn(2) == 0 {
		return "bytestream"
	}
	return "text"
}

func (c15) Gen(r *rand.Rand, tier string, i int) any {
	k := r.Intn(20)
	switch {
	case k < 10:
		in := c15In{Kind: "consume", Codec: c15Codec(r), CloseOpt: r.Intn(2) == 0, Closable: r.Intn(3) != 0}
		if in.Codec == "text" {
			in.CloseOpt = false // the text codec has no such option
		}
		in.Dest = c15Dests[r.Intn(len(c15Dests))]
		if r.Intn(3) == 0 { // the supported kinds more often
			in.Dest = []string{"ptr_string", "ptr_bytes", "buffer", "writer", "binunm", "textunm", "any_string", "any_bytes", "ptr_named_string"}[r.Intn(9)]
		}
		content := c15Content(r)
		in.Steps, in.Script = c15Script(r, content)
		if r.Intn(3) == 0 {
			in.Pre = Bs(c15Word(r))
		}
		if in.Dest == "writer" {
			in.WSteps, _ = c15WScript(r, len(content))
			if r.Intn(3) == 0 {
				in.WPre = Bs(c15Word(r))
			}
		}
		if (in.Dest == "binunm" || in.Dest == "textunm") && r.Intn(4) == 0 {
			in.Ret = 2 + r.Intn(5)
		}
		if r.Intn(40) == 0 {
			in.NilStrm, in.Steps, in.Script = true, nil, ""
		}
		return in
	case k < 18:
		in := c15In{Kind: "produce", Codec: c15Codec(r), CloseOpt: r.Intn(2) == 0, Closable: r.Intn(3) != 0}
		if in.Codec == "text" {
			in.CloseOpt = false
		}
		in.Src = c15Srcs[r.Intn(len(c15Srcs))]
		if r.Intn(3) == 0 {
			in.Src = []string{"reader", "reader", "buffer", "bytes", "string", "binmar", "textmar", "writerto_rc"}[r.Intn(8)]
		}
		content := c15Content(r)
		if in.Src == "error" || in.Src == "stringer" || in.Src == "struct" || in.Src == "ptr_struct" || in.Src == "strings" {
			for len(content) > 300 {
				content = content[:200]
			}
		}
		var wlabel string
		if in.Src == "reader" {
			in.Steps, in.Script = c15Script(r, content)
			in.PClos = r.Intn(2) == 0
		} else {
			in.Content = Bs(content)
			in.Script = "direct"
		}
		in.WSteps, wlabel = c15WScript(r, len(content))
		in.Script += "/" + wlabel
		if r.Intn(4) == 0 {
			in.WPre = Bs(c15Word(r))
		}
		if (in.Src == "binmar" || in.Src == "textmar") && r.Intn(4) == 0 {
			in.Ret = 2 + r.Intn(5)
		}
		if r.Intn(40) == 0 {
			in.NilStrm, in.WSteps, in.WPre = true, nil, ""
		}
		return in
	default:
		codec := []string{"json", "xml", "yaml"}[r.Intn(3)]
		shape := "doc"
		if codec == "json" {
			shape = []string{"doc", "doc", "bignum", "html", "first"}[r.Intn(5)]
		}
		content := c15Content(r)
		if len(content) > 200 {
			content = content[:200]
		}
		return c15In{Kind: "rt", Codec: codec, Shape: shape, Content: Bs(content)}
	}
}

// Enumerate: every destination / source kind x both codecs x ClosesStream on/off against a fixed family of
// scripts (empty, one chunk, 1-byte chunks, data+EOF, zero-length reads, an error at every offset <= N).
func (c15) Enumerate(tier string) []any {
	var out []any
	content := "abc\xffde"
	type named struct {
		name  string
		steps []c15Step
	}
	scripts := []named{
		{"no-steps", nil},
		{"one-chunk", []c15Step{{C: Bs(content)}}},
		{"1-byte", c15OneByteSteps([]byte(content))},
		{"data+eof", []c15Step{{C: Bs(content[:2])}, {C: Bs(content[2:]), T: 1}}},
		{"zero-reads", []c15Step{{}, {C: Bs(content[:3])}, {}, {}, {C: Bs(content[3:])}, {}}},
		{"eof-only", []c15Step{{T: 1}}},
	}
	for k := 0; k <= len(content); k++ {
		// error reported by a call of its own after k bytes, and together with the k-th byte
		steps := append(c15OneByteSteps([]byte(content[:k])), c15Step{T: 2 + k}, c15Step{C: Bs(content[k:])})
		scripts = append(scripts, named{"error-at-offset", steps})
		if k > 0 {
			scripts = append(scripts, named{"error-at-offset", []c15Step{{C: Bs(content[:k]), T: 2 + k}, {C: Bs(content[k:])}}})
		}
	}
	for _, codec := range []string{"bytestream", "text"} {
		for _, closeOpt := range []bool{false, true} {
			if codec == "text" && closeOpt {
				continue
			}
			for _, dest := range c15Dests {
				for si, sc := range scripts {
					if tier == "quick" && si >= 6 && (si+len(dest))%3 != 0 {
						continue // quick tier: a third of the error offsets per destination
					}
					in := c15In{Kind: "consume", Codec: codec, CloseOpt: closeOpt, Closable: true, Dest: dest, Steps: sc.steps, Script: sc.name}
					out = append(out, in)
					if si < 2 {
						in.Pre = "OLD"
						in.WPre = "OLD"
						in.Closable = si == 0
						out = append(out, in)
					}
				}
				out = append(out, c15In{Kind: "consume", Codec: codec, CloseOpt: closeOpt, NilStrm: true, Dest: dest})
			}
			wscripts := []struct {
				name  string
				steps []c15WStep
			}{
				{"accepting", nil}, {"write-error", []c15WStep{{A: 2, E: 9}}}, {"short-no-error", []c15WStep{{A: 2}}},
				{"full-with-error", []c15WStep{{A: 5000, E: 9}}},
			}
			for _, src := range c15Srcs {
				for _, ws := range wscripts {
					in := c15In{Kind: "produce", Codec: codec, CloseOpt: closeOpt, Closable: true, Src: src, WSteps: ws.steps, Script: "direct/" + ws.name}
					if src == "reader" {
						for si, sc := range scripts {
							if tier == "quick" && si >= 6 && si%3 != 0 {
								continue
							}
							in.Steps, in.Script, in.PClos = sc.steps, sc.name+"/"+ws.name, si%2 == 0
							out = append(out, in)
						}
						continue
					}
					in.Content = Bs(content)
					out = append(out, in)
					in.Content, in.WPre, in.Closable = "", "OLD", false
					out = append(out, in)
				}
				out = append(out, c15In{Kind: "produce", Codec: codec, CloseOpt: closeOpt, NilStrm: true, Src: src, Content: Bs(content), PClos: true,
					Steps: scripts[1].steps})
				if src == "binmar" || src == "textmar" {
					out = append(out, c15In{Kind: "produce", Codec: codec, CloseOpt: closeOpt, Closable: true, Src: src, Content: Bs(content), Ret: 7, Script: "direct/accepting"})
				}
			}
		}
	}
	for _, dest := range []string{"binunm", "textunm"} {
		for _, codec := range []string{"bytestream", "text"} {
			out = append(out, c15In{Kind: "consume", Codec: codec, Closable: true, Dest: dest, Ret: 5, Steps: scripts[1].steps, Script: "one-chunk"})
		}
	}
	out = append(out, c15In{Kind: "discard", Steps: scripts[1].steps, Content: "x"})
	for _, codec := range []string{"json", "xml", "yaml"} {
		for _, c := range []string{"", "a", "hello world", "<tag>&\"quoted\"</tag>", "line1\nline2", "\xff\x00binary\x01"} {
			out = append(out, c15In{Kind: "rt", Codec: codec, Shape: "doc", Content: Bs(c)})
		}
	}
	for _, c := range []string{"", "1", "12", "123456789"} {
		out = append(out, c15In{Kind: "rt", Codec: "json", Shape: "bignum", Content: Bs(c)})
		out = append(out, c15In{Kind: "rt", Codec: "json", Shape: "html", Content: Bs(c)})
		out = append(out, c15In{Kind: "rt", Codec: "json", Shape: "first", Content: Bs(c)})
	}
	return out
}
