//go:build verif && (c15 || allprops)

package main

import (
	"bytes"
	"context"
	"encoding/json"
	"encoding/xml"
	"errors"
	"fmt"
	"io"
	"math"
	"math/big"
	"math/rand"
	"net/http"
	"os"
	"reflect"
	"sort"
	"strconv"
	"strings"
	"syscall"

	"github.com/go-openapi/runtime"
	"github.com/go-openapi/runtime/yamlpc"
	"github.com/go-openapi/swag"
)

// C15 — built-in codecs. Cases:
//   consume  ByteStreamConsumer / TextConsumer on a scripted reader into one destination kind
//   produce  ByteStreamProducer / TextProducer from one source kind into a scripted writer
//   discard  DiscardConsumer / DiscardProducer
//   rt       JSON / XML / YAML producer -> consumer round trip on a supported value (differential only)
//            shape slots: one number literal at every number slot of one destination shape, compared leaf by leaf as text
//
// The scripted reader and writer implement exactly StreamScripts.sread / swrite.

// ---------- scripts ----------

type c15Step struct {
	C Bs  `json:"c"`
	T int `json:"t,omitempty"` // 0 no terminal, 1 io.EOF, 2..99 scripted error number n, >= 100 a library error VALUE (c15LibErrs)
}

type c15WStep struct {
	A int `json:"a"`           // bytes accepted at most
	E int `json:"e,omitempty"` // 0 nil, n >= 2 scripted error number n
}

type c15ScriptErr struct{ n int }

func (e *c15ScriptErr) Error() string { return fmt.Sprintf("scripted error %d", e.n) }

var c15ErrTable = map[int]*c15ScriptErr{}

// c15TimeoutErr is a net.Error-like value (Timeout / Temporary answer true).
type c15TimeoutErr struct{}

func (*c15TimeoutErr) Error() string   { return "i/o timeout" }
func (*c15TimeoutErr) Timeout() bool   { return true }
func (*c15TimeoutErr) Temporary() bool { return true }

// c15LibErrs: error VALUES that real streams report (error number c15LibBase + index). A codec has to hand each of them
// back like any other read / write error: the sentinels of io (what net/http reports for a body shorter than its
// Content-Length, compress/* for a truncated stream), errors WRAPPING a sentinel (io.EOF included: only io.EOF itself ends a
// stream), context / deadline / connection errors. The Coq side sees the io sentinels under their own constructor and the
// others as one more scripted error identified by its number; all are classified by identity.
const c15LibBase = 100

var c15LibErrs = []struct {
	e   error
	coq string // "" = EScript <number>
}{
	{io.ErrUnexpectedEOF, "EUnexpectedEOF"},
	{io.ErrNoProgress, "ENoProgress"},
	{io.ErrShortWrite, "EShortWrite"},
	{io.ErrClosedPipe, ""},
	{fmt.Errorf("read body: %w", io.ErrUnexpectedEOF), ""},
	{fmt.Errorf("read body: %w", io.EOF), ""},
	{os.ErrDeadlineExceeded, ""},
	{context.Canceled, ""},
	{context.DeadlineExceeded, ""},
	{http.ErrBodyReadAfterClose, ""},
	{&c15TimeoutErr{}, ""},
	{fmt.Errorf("read tcp: %w", syscall.ECONNRESET), ""},
	{io.ErrShortBuffer, ""},
	{&os.PathError{Op: "read", Path: "/dev/stdin", Err: io.ErrUnexpectedEOF}, ""},
}

// c15CoqErrNum prints error number n (n >= 1) as a term of StreamScripts.err.
func c15CoqErrNum(n int) string {
	if n == 1 {
		return "EOF"
	}
	if n >= c15LibBase && n < c15LibBase+len(c15LibErrs) && c15LibErrs[n-c15LibBase].coq != "" {
		return c15LibErrs[n-c15LibBase].coq
	}
	return fmt.Sprintf("(EScript %d)", n)
}

// c15DrawWErr: the error of a failing Write: a scripted error, one time in three a library error value.
func c15DrawWErr(r *rand.Rand) int {
	if r.Intn(3) == 0 {
		return c15DrawLibErr(r)
	}
	return 2 + r.Intn(5)
}

func c15DrawLibErr(r *rand.Rand) int { return c15LibBase + r.Intn(len(c15LibErrs)) }

func c15Err(n int) error {
	switch n {
	case 0:
		return nil
	case 1:
		return io.EOF
	}
	if n >= c15LibBase && n < c15LibBase+len(c15LibErrs) {
		return c15LibErrs[n-c15LibBase].e
	}
	if e, ok := c15ErrTable[n]; ok {
		return e
	}
	e := &c15ScriptErr{n}
	c15ErrTable[n] = e
	return e
}

// c15Reader: one Read call takes the current step; a chunk that fits is delivered whole together with
// its terminal, otherwise the first len(p) bytes are delivered and the rest stays; terminals are sticky;
// a script that runs out of steps answers (0, io.EOF).
type c15Reader struct {
	steps  []c15Step
	dead   bool
	term   error
	reads  int
	closes int
}

func c15NewReader(steps []c15Step) *c15Reader {
	cp := make([]c15Step, len(steps))
	copy(cp, steps)
	return &c15Reader{steps: cp}
}

func (r *c15Reader) Read(p []byte) (int, error) {
	r.reads++
	if r.dead {
		return 0, r.term
	}
	if len(r.steps) == 0 {
		r.dead, r.term = true, io.EOF
		return 0, io.EOF
	}
	st := r.steps[0]
	if len(st.C) <= len(p) {
		n := copy(p, st.C)
		r.steps = r.steps[1:]
		t := c15Err(st.T)
		if t != nil {
			r.dead, r.term = true, t
		}
		return n, t
	}
	n := copy(p, st.C[:len(p)])
	r.steps[0].C = st.C[len(p):]
	return n, nil
}

// c15ReadCloser is a c15Reader that is also an io.Closer.
type c15ReadCloser struct{ r *c15Reader }

func (rc *c15ReadCloser) Read(p []byte) (int, error) { return rc.r.Read(p) }
func (rc *c15ReadCloser) Close() error               { rc.r.closes++; return nil }

// c15Writer: one Write call takes the next step (accept, err): stores min(accept, len p) bytes and
// returns that count with err; a script that runs out accepts everything.
type c15Writer struct {
	steps  []c15WStep
	got    []byte
	writes int
	closes int
	sticky bool  // (JSON / XML / YAML calls of a history) once a step has failed, every later Write fails too, accepting nothing
	failed error
}

func c15NewWriter(steps []c15WStep, pre string) *c15Writer {
	cp := make([]c15WStep, len(steps))
	copy(cp, steps)
	return &c15Writer{steps: cp, got: []byte(pre)}
}

func (w *c15Writer) Write(p []byte) (int, error) {
	w.writes++
	if w.sticky && w.failed != nil {
		return 0, w.failed
	}
	if len(w.steps) == 0 {
		w.got = append(w.got, p...)
		return len(p), nil
	}
	st := w.steps[0]
	w.steps = w.steps[1:]
	n := st.A
	if n > len(p) {
		n = len(p)
	}
	w.got = append(w.got, p[:n]...)
	w.failed = c15Err(st.E)
	return n, w.failed
}

type c15WriteCloser struct{ w *c15Writer }

func (wc *c15WriteCloser) Write(p []byte) (int, error) { return wc.w.Write(p) }
func (wc *c15WriteCloser) Close() error                { wc.w.closes++; return nil }

// ---------- destination and source types ----------

type c15ReaderFromOnly struct{ buf bytes.Buffer }

func (d *c15ReaderFromOnly) ReadFrom(r io.Reader) (int64, error) { return d.buf.ReadFrom(r) }

type c15BinUnm struct {
	got []byte
	ret error
}

func (d *c15BinUnm) UnmarshalBinary(b []byte) error {
	d.got = append([]byte(nil), b...)
	return d.ret
}

type c15TextUnm struct {
	got []byte
	ret error
}

func (d *c15TextUnm) UnmarshalText(b []byte) error {
	d.got = append([]byte(nil), b...)
	return d.ret
}

type c15NamedString string
type c15NamedBytes []byte
type c15Plain struct {
	A string
	B int
}

// c15WTRC: io.WriterTo (a single Write of everything) that is also an io.ReadCloser.
type c15WTRC struct {
	content []byte
	closes  int
}

func (s *c15WTRC) WriteTo(w io.Writer) (int64, error) {
	n, err := w.Write(s.content)
	return int64(n), err
}
func (s *c15WTRC) Read(p []byte) (int, error) { return 0, io.EOF }
func (s *c15WTRC) Close() error               { s.closes++; return nil }

type c15BinMar struct {
	content []byte
	ret     error
}

func (s *c15BinMar) MarshalBinary() ([]byte, error) {
	if s.ret != nil {
		return nil, s.ret
	}
	return s.content, nil
}

type c15TextMar struct {
	content []byte
	ret     error
}

func (s *c15TextMar) MarshalText() ([]byte, error) {
	if s.ret != nil {
		return nil, s.ret
	}
	return s.content, nil
}

type c15Stringer struct{ content string }

func (s *c15Stringer) String() string { return s.content }

// ---------- input / observable ----------

type c15In struct {
	Kind     string     `json:"kind"`            // consume | produce | discard | rt
	Codec    string     `json:"codec,omitempty"` // bytestream | text | json | xml | yaml
	CloseOpt bool       `json:"close_opt,omitempty"`
	NilStrm  bool       `json:"nil_stream,omitempty"`
	Closable bool       `json:"closable,omitempty"`
	Steps    []c15Step  `json:"steps,omitempty"`  // reader script (consume) or payload reader script (produce, src=reader)
	WSteps   []c15WStep `json:"wsteps,omitempty"` // writer script (produce) or destination writer script (consume, dest=writer)
	WPre     Bs         `json:"wpre,omitempty"`   // what the sink already holds
	Dest     string     `json:"dest,omitempty"`
	Pre      Bs         `json:"pre,omitempty"` // what the destination already holds
	Ret      int        `json:"ret,omitempty"` // error number the (un)marshaler returns, 0 = nil
	Src      string     `json:"src,omitempty"`
	Content  Bs         `json:"content,omitempty"`
	PClos    bool       `json:"payload_closable,omitempty"`
	Shape    string     `json:"shape,omitempty"` // rt: which value
	Slot     string     `json:"slot,omitempty"`  // rt/slots: destination shape (where the number slots are)
	Num      string     `json:"num,omitempty"`   // rt/slots: the number literal
	NumSrc   string     `json:"num_src,omitempty"` // rt/slots: how the source holds it: number (json.Number) | int (int64/uint64) | float (float64)
	Script   string     `json:"script,omitempty"` // label of the script shape (for the distribution report)
	Root     string      `json:"root,omitempty"`     // rt/names: name of the root element (XML)
	Fields   []c15NField `json:"fields,omitempty"`   // rt/names: the fields of the document, names and texts drawn from the pools
	Tree     *c15XNodeIn `json:"tree,omitempty"`     // rt/xtree: a generic XML element tree
	Calls    []c15In     `json:"calls,omitempty"`    // hist: the calls made through ONE producer value and ONE consumer value
	DocKind  string      `json:"doc_kind,omitempty"` // hist, json/xml/yaml call: doc (struct) | map
	ErrAt    int         `json:"err_at,omitempty"`   // hist, json/xml/yaml consume call: 0 healthy reader, k > 0 the reader fails inside the document
	ErrNo    int         `json:"err_no,omitempty"`   // ... with this scripted error
	Trail    Bs          `json:"trail,omitempty"`    // hist, json/xml consume call: what follows the document on the stream (one Decode leaves it alone)
}

type c15Obs struct {
	Panicked bool   `json:"panicked,omitempty"`
	Panic    string `json:"panic,omitempty"`
	Err      string `json:"err,omitempty"`   // Coq term of the error class, "" = nil
	ErrText  string `json:"err_text,omitempty"`
	HasSt    bool   `json:"has_stored,omitempty"`
	Stored   Bs     `json:"stored,omitempty"`
	Got      Bs     `json:"got,omitempty"`
	Closes   int    `json:"closes,omitempty"`
	PCloses  int    `json:"pcloses,omitempty"`
	Reads    int    `json:"reads,omitempty"`
	Writes   int    `json:"writes,omitempty"`
	JOut     Bs     `json:"json_oracle,omitempty"`
	JErr     string `json:"json_oracle_err,omitempty"`
	OK       bool   `json:"ok,omitempty"`
	Detail   string `json:"detail,omitempty"`
	Failed   bool     `json:"failed,omitempty"` // rt/slots: Produce or Consume returned an error (Detail says which)
	Want     []string `json:"want,omitempty"`   // rt/slots: leaves of the value given to the producer
	GotL     []string `json:"got_leaves,omitempty"` // rt/slots: leaves of the value the consumer rebuilt
	Wire     Bs       `json:"wire,omitempty"`   // rt/slots: what the producer wrote
	Imm      []c15Obs `json:"imm,omitempty"`    // hist: every call as observed right after it returned
	Fin      []c15Obs `json:"fin,omitempty"`    // hist: the same calls, destinations and sinks re-read after the last call
	Full     Bs       `json:"full,omitempty"`   // hist doc call: what a fresh producer writes for the value into an accepting sink
	FErr     string   `json:"fresh_err,omitempty"`    // hist doc call: error class of the same call on a fresh codec value
	FGot     Bs       `json:"fresh_got,omitempty"`    // hist doc produce: sink content of the same call on a fresh producer
	FLeaves  []string `json:"fresh_leaves,omitempty"` // hist doc consume: leaves of the destination of the same call on a fresh consumer
	Back     []string `json:"back,omitempty"`   // hist doc produce: leaves of what a fresh consumer rebuilds from the bytes this call added
	WFail    bool     `json:"wfail,omitempty"`  // hist doc produce: the writer script fails
	RFail    bool     `json:"rfail,omitempty"`  // hist doc consume: the reader script fails inside the document
}

type c15 struct{}

func init() { register(c15{}) }

func (c15) ID() string        { return "C15" }
func (c15) CoqModule() string { return "Check_C15" }
func (c15) Rule() string {
	return "byte stream and text codecs on scripted readers/writers (StreamScripts semantics): every destination kind (ReaderFrom, Writer, " +
		"BinaryUnmarshaler, TextUnmarshaler, *any holding string/[]byte/other, *[]byte, *string, named types, other pointers, typed-nil pointers, values, nil) " +
		"and source kind (WriterTo, WriterTo+ReadCloser, Reader, ReadCloser, BinaryMarshaler, error, []byte, string, pointers, named types, struct/slices via swag JSON, " +
		"TextMarshaler, Stringer, unsupported, typed-nil pointers, nil) x script shapes (one chunk, 1-byte chunks, zero-length reads, data+EOF, error at every offset, " +
		"short/failing writers with and without error) x contents (empty, text, binary, invalid UTF-8, a few KB) x ClosesStream on/off x closable or not x pre-populated or fresh; " +
		"JSON/XML/YAML producer->consumer round trips (differential), incl. one number literal (integers around/beyond 2^53 and the int64/uint64 limits, 20-60 digits, " +
		"long decimals, exponents beyond float64) at every number slot of every destination shape (interface slots reached through structs, slices, arrays, maps, pointers, " +
		"named and embedded types; typed int64/uint64/float64/json.Number/big.Int slots, XML attributes) compared leaf by leaf as exact decimal text; sources behind SEVERAL of the interfaces a producer dispatches on with a different rendering behind each (TextMarshaler+Stringer, TextMarshaler+error, error+Stringer, all three, " +
		"BinaryMarshaler+TextMarshaler+Stringer, a named string and a struct by value with MarshalText+String): the kind given to the model is the one the documented order selects; rt/textval: time.Time, *big.Float (200 bits), *big.Int, *big.Rat, net.IP, " +
		"*url.URL, an enum with wire and display form, an error with a wire form, produced and consumed back through the text (byte stream: time, URL) codec; rt/large: values of 64 KiB .. 4 MiB (generated: 24 KiB .. 3 MiB on a logarithmic scale) " +
		"as one long string, a long list, a top-level list, a map of many keys through JSON / YAML / XML / text / byte stream, read back in one chunk + EOF, in 50 021-byte chunks, or from a bytes.Reader. Non-trivial: a consume/produce case with a non-nil stream and a non-nil " +
		"destination/source whose script or content is not empty, or a round trip."
}

func (c15) Decode(raw json.RawMessage) (any, error) {
	var in c15In
	err := json.Unmarshal(raw, &in)
	return in, err
}

// ---------- error classes ----------

var c15OwnErrors = map[string]int{
	"ByteStreamConsumer requires a reader":    1,
	"TextConsumer requires a reader":          1,
	"ByteStreamProducer requires a writer":    1,
	"TextProducer requires a writer":          1,
	"nil destination for ByteStreamConsumer":  2,
	"nil data for ByteStreamProducer":         2,
	"no data given to produce text from":      2,
	"destination must be a pointer":           3,
	"nil pointer destination for ByteStreamConsumer": 6,
	"nil pointer destination for TextConsumer":       6,
	"nil pointer data for ByteStreamProducer":        6,
	"nil pointer data for TextProducer":              6,
}

func c15ErrClass(err error, jerr string) string {
	if err == nil {
		return ""
	}
	if se, ok := err.(*c15ScriptErr); ok {
		return fmt.Sprintf("(EScript %d)", se.n)
	}
	for i, le := range c15LibErrs {
		if err == le.e {
			return c15CoqErrNum(c15LibBase + i)
		}
	}
	switch err {
	case io.EOF:
		return "EOF"
	case io.ErrShortWrite:
		return "EShortWrite"
	case io.ErrUnexpectedEOF:
		return "EUnexpectedEOF"
	case io.ErrNoProgress:
		return "ENoProgress"
	}
	msg := err.Error()
	if n, ok := c15OwnErrors[msg]; ok {
		return fmt.Sprintf("(EOther %d)", n)
	}
	switch {
	case strings.HasPrefix(msg, "text consumer: "), strings.HasPrefix(msg, "text producer: "):
		return "(EOther 5)"
	case strings.HasSuffix(msg, "can be resolved by supporting Writer/BinaryUnmarshaler interface"),
		strings.HasSuffix(msg, "can be resolved by supporting Reader/BinaryMarshaler interface"),
		strings.HasSuffix(msg, "can be resolved by supporting TextUnmarshaler interface"),
		strings.HasSuffix(msg, "is not a supported type by the TextProducer"):
		return "(EOther 4)"
	case jerr != "" && msg == jerr:
		return "(EOther 7)"
	}
	return "(EOther 9)"
}

// ---------- building destinations ----------

// c15Dests lists the destination variants and the Coq kind each stands for.
var c15Dests = []string{
	"nil", "buffer", "readerfrom", "writer", "binunm", "textunm",
	"any_string", "any_bytes", "any_int", "any_nil",
	"ptr_bytes", "ptr_named_bytes", "ptr_string", "ptr_named_string",
	"ptr_int", "ptr_struct", "ptr_ints",
	"nil_ptr_string", "nil_ptr_named_string", "nil_ptr_bytes", "nil_ptr_any", "nil_ptr_int", "nil_ptr_struct",
	"val_string", "val_bytes", "val_int", "val_struct",
}

type c15DestHandle struct {
	data   any
	stored func() (bool, string)
	writer *c15Writer
}

func c15NoContent() (bool, string) { return false, "" }

func c15MakeDest(in c15In) c15DestHandle {
	pre := string(in.Pre)
	switch in.Dest {
	case "nil":
		return c15DestHandle{data: nil, stored: c15NoContent}
	case "buffer":
		b := bytes.NewBufferString(pre)
		return c15DestHandle{data: b, stored: func() (bool, string) { return true, b.String() }}
	case "readerfrom":
		d := &c15ReaderFromOnly{}
		d.buf.WriteString(pre)
		return c15DestHandle{data: d, stored: func() (bool, string) { return true, d.buf.String() }}
	case "writer":
		w := c15NewWriter(in.WSteps, string(in.WPre))
		return c15DestHandle{data: w, writer: w, stored: func() (bool, string) { return true, string(w.got) }}
	case "binunm":
		d := &c15BinUnm{got: []byte(pre), ret: c15Err(in.Ret)}
		return c15DestHandle{data: d, stored: func() (bool, string) { return true, string(d.got) }}
	case "textunm":
		d := &c15TextUnm{got: []byte(pre), ret: c15Err(in.Ret)}
		return c15DestHandle{data: d, stored: func() (bool, string) { return true, string(d.got) }}
	case "any_string", "any_bytes", "any_int", "any_nil":
		var a any
		switch in.Dest {
		case "any_string":
			a = pre
		case "any_bytes":
			a = []byte(pre)
		case "any_int":
			a = 42
		}
		p := &a
		return c15DestHandle{data: p, stored: func() (bool, string) {
			switch v := (*p).(type) {
			case string:
				return true, v
			case []byte:
				return true, string(v)
			}
			return false, ""
		}}
	case "ptr_bytes":
		b := []byte(pre)
		return c15DestHandle{data: &b, stored: func() (bool, string) { return true, string(b) }}
	case "ptr_named_bytes":
		b := c15NamedBytes(pre)
		return c15DestHandle{data: &b, stored: func() (bool, string) { return true, string(b) }}
	case "ptr_string":
		s := pre
		return c15DestHandle{data: &s, stored: func() (bool, string) { return true, s }}
	case "ptr_named_string":
		s := c15NamedString(pre)
		return c15DestHandle{data: &s, stored: func() (bool, string) { return true, string(s) }}
	case "ptr_int":
		i := 7
		return c15DestHandle{data: &i, stored: c15NoContent}
	case "ptr_struct":
		return c15DestHandle{data: &c15Plain{A: "a", B: 1}, stored: c15NoContent}
	case "ptr_ints":
		l := []int{1, 2}
		return c15DestHandle{data: &l, stored: c15NoContent}
	case "nil_ptr_string":
		return c15DestHandle{data: (*string)(nil), stored: c15NoContent}
	case "nil_ptr_named_string":
		return c15DestHandle{data: (*c15NamedString)(nil), stored: c15NoContent}
	case "nil_ptr_bytes":
		return c15DestHandle{data: (*[]byte)(nil), stored: c15NoContent}
	case "nil_ptr_any":
		return c15DestHandle{data: (*any)(nil), stored: c15NoContent}
	case "nil_ptr_int":
		return c15DestHandle{data: (*int)(nil), stored: c15NoContent}
	case "nil_ptr_struct":
		return c15DestHandle{data: (*c15Plain)(nil), stored: c15NoContent}
	case "val_string":
		return c15DestHandle{data: pre, stored: c15NoContent}
	case "val_bytes":
		return c15DestHandle{data: []byte(pre), stored: c15NoContent}
	case "val_int":
		return c15DestHandle{data: 7, stored: c15NoContent}
	case "val_struct":
		return c15DestHandle{data: c15Plain{A: "a"}, stored: c15NoContent}
	}
	panic("unknown destination " + in.Dest)
}

func c15CoqErrOpt(n int) string {
	if n == 0 {
		return "None"
	}
	return fmt.Sprintf("(Some %s)", c15CoqErrNum(n))
}

func c15CoqWState(steps []c15WStep, pre string) string {
	return fmt.Sprintf("(mkW %s %s)", coqList(steps, func(s c15WStep) string {
		return coqPair(c15Nat(s.A), c15CoqErrOpt(s.E))
	}), coqBytes(pre))
}

func c15Nat(n int) string {
	if n < 1000 {
		return coqNat(n)
	}
	return coqNatBig(n)
}

func c15CoqDest(in c15In) string {
	pre := coqBytes(string(in.Pre))
	switch in.Dest {
	case "nil":
		return "DNil"
	case "buffer", "readerfrom":
		return "(DReaderFrom " + pre + ")"
	case "writer":
		return "(DWriter " + c15CoqWState(in.WSteps, string(in.WPre)) + ")"
	case "binunm":
		return fmt.Sprintf("(DBinUnm %s %s)", pre, c15CoqErrOpt(in.Ret))
	case "textunm":
		return fmt.Sprintf("(DTextUnm %s %s)", pre, c15CoqErrOpt(in.Ret))
	case "any_string":
		return "(DPtrAny (AString " + pre + "))"
	case "any_bytes":
		return "(DPtrAny (ABytes " + pre + "))"
	case "any_int", "any_nil":
		return "(DPtrAny AOther)"
	case "ptr_bytes", "ptr_named_bytes":
		return "(DPtrBytes " + pre + ")"
	case "ptr_string", "ptr_named_string":
		return "(DPtrString " + pre + ")"
	case "ptr_int", "ptr_struct", "ptr_ints":
		return "DPtrOther"
	case "nil_ptr_string", "nil_ptr_named_string":
		return "DNilPtrString"
	case "nil_ptr_bytes":
		return "DNilPtrBytes"
	case "nil_ptr_any":
		return "DNilPtrAny"
	case "nil_ptr_int", "nil_ptr_struct":
		return "DNilPtrOther"
	case "val_string", "val_bytes", "val_int", "val_struct":
		return "DNonPtr"
	}
	panic("unknown destination " + in.Dest)
}

// ---------- building sources ----------

var c15Srcs = []string{
	"nil", "buffer", "writerto_rc", "reader", "binmar", "error",
	"bytes", "ptr_bytes", "named_bytes", "string", "ptr_string", "named_string",
	"struct", "ptr_struct", "ints", "strings", "textmar", "stringer",
	"int", "map", "ptr_int",
	"nil_ptr_string", "nil_ptr_bytes", "nil_ptr_struct", "nil_ptr_int",
	// one value behind SEVERAL of the interfaces the producers dispatch on, a different rendering behind each (c15c.go)
	"textmar_stringer", "textmar_error", "error_stringer", "textmar_error_stringer", "binmar_textmar", "enum", "val_textmar_stringer",
}

type c15SrcHandle struct {
	data    any
	pcloses func() int
}

func c15MakeSrc(in c15In) c15SrcHandle {
	content := string(in.Content)
	zero := func() int { return 0 }
	switch in.Src {
	case "nil":
		return c15SrcHandle{nil, zero}
	case "buffer":
		return c15SrcHandle{bytes.NewBufferString(content), zero}
	case "writerto_rc":
		s := &c15WTRC{content: []byte(content)}
		return c15SrcHandle{s, func() int { return s.closes }}
	case "reader":
		r := c15NewReader(in.Steps)
		if in.PClos {
			return c15SrcHandle{&c15ReadCloser{r}, func() int { return r.closes }}
		}
		return c15SrcHandle{r, zero}
	case "binmar":
		return c15SrcHandle{&c15BinMar{[]byte(content), c15Err(in.Ret)}, zero}
	case "error":
		return c15SrcHandle{errors.New(content), zero}
	case "bytes":
		return c15SrcHandle{[]byte(content), zero}
	case "ptr_bytes":
		b := []byte(content)
		return c15SrcHandle{&b, zero}
	case "named_bytes":
		return c15SrcHandle{c15NamedBytes(content), zero}
	case "string":
		return c15SrcHandle{content, zero}
	case "ptr_string":
		return c15SrcHandle{&content, zero}
	case "named_string":
		return c15SrcHandle{c15NamedString(content), zero}
	case "struct":
		return c15SrcHandle{c15Plain{A: content, B: len(content)}, zero}
	case "ptr_struct":
		return c15SrcHandle{&c15Plain{A: content, B: len(content)}, zero}
	case "ints":
		l := []int{}
		for i := 0; i < len(content) && i < 8; i++ {
			l = append(l, int(content[i]))
		}
		return c15SrcHandle{l, zero}
	case "strings":
		return c15SrcHandle{[]string{content, "x"}, zero}
	case "textmar":
		return c15SrcHandle{&c15TextMar{[]byte(content), c15Err(in.Ret)}, zero}
	case "stringer":
		return c15SrcHandle{&c15Stringer{content}, zero}
	case "int":
		return c15SrcHandle{42, zero}
	case "map":
		return c15SrcHandle{map[string]int{"a": 1}, zero}
	case "ptr_int":
		i := 42
		return c15SrcHandle{&i, zero}
	case "nil_ptr_string":
		return c15SrcHandle{(*string)(nil), zero}
	case "nil_ptr_bytes":
		return c15SrcHandle{(*[]byte)(nil), zero}
	case "nil_ptr_struct":
		return c15SrcHandle{(*c15Plain)(nil), zero}
	case "nil_ptr_int":
		return c15SrcHandle{(*int)(nil), zero}
	}
	if v := c15MakeMulti(in); v != nil {
		return c15SrcHandle{v, zero}
	}
	panic("unknown source " + in.Src)
}

func c15CoqSteps(steps []c15Step) string {
	return coqList(steps, func(s c15Step) string {
		t := "None"
		switch {
		case s.T >= 1:
			t = fmt.Sprintf("(Some %s)", c15CoqErrNum(s.T))
		}
		return coqPair(coqBytes(string(s.C)), t)
	})
}

func c15CoqSrc(in c15In) string {
	content := coqBytes(string(in.Content))
	switch in.Src {
	case "nil":
		return "SNil"
	case "buffer":
		return "(SBuffer " + content + ")"
	case "writerto_rc":
		return "(SWriterToRC " + content + ")"
	case "reader":
		return fmt.Sprintf("(SReader (Live %s) %s)", c15CoqSteps(in.Steps), coqBool(in.PClos))
	case "binmar":
		return fmt.Sprintf("(SBinMar %s %s)", content, c15CoqErrOpt(in.Ret))
	case "error":
		return "(SError " + content + ")"
	case "bytes", "ptr_bytes", "named_bytes":
		return "(SBytes " + content + ")"
	case "string", "ptr_string", "named_string":
		return "(SString " + content + ")"
	case "struct", "ptr_struct", "ints", "strings":
		return "SJson"
	case "textmar":
		return fmt.Sprintf("(STextMar %s %s)", content, c15CoqErrOpt(in.Ret))
	case "stringer":
		return "(SStringer " + content + ")"
	case "int", "map", "ptr_int":
		return "SUnsupported"
	case "nil_ptr_string", "nil_ptr_bytes", "nil_ptr_struct", "nil_ptr_int":
		return "SNilPtr"
	}
	if k := c15CoqMulti(in); k != "" {
		return k
	}
	panic("unknown source " + in.Src)
}

// ---------- running the real codecs ----------

func (c15) Run(inAny any) any {
	in := inAny.(c15In)
	var obs c15Obs
	switch in.Kind {
	case "consume":
		c15RunConsume(in, &obs)
	case "produce":
		c15RunProduce(in, &obs)
	case "discard":
		c15RunDiscard(in, &obs)
	case "hist":
		c15RunHist(in, &obs)
	case "rt":
		if in.Shape == "slots" {
			obs.Panicked, obs.Panic = recoverTo(func() { c15RunSlots(in, &obs) })
			break
		}
		if in.Shape == "names" || in.Shape == "xtree" {
			obs.Panicked, obs.Panic = recoverTo(func() { c15RunNames(in, &obs) })
			break
		}
		obs.Panicked, obs.Panic = recoverTo(func() { obs.OK, obs.Detail = c15RoundTrip(in) })
	default:
		panic("unknown kind " + in.Kind)
	}
	return obs
}

func c15StreamConsumer(in c15In) runtime.Consumer {
	switch in.Codec {
	case "bytestream":
		if in.CloseOpt {
			return runtime.ByteStreamConsumer(runtime.ClosesStream)
		}
		return runtime.ByteStreamConsumer()
	case "text":
		return runtime.TextConsumer()
	}
	panic("consume: codec " + in.Codec)
}

func c15StreamProducer(in c15In) runtime.Producer {
	switch in.Codec {
	case "bytestream":
		if in.CloseOpt {
			return runtime.ByteStreamProducer(runtime.ClosesStream)
		}
		return runtime.ByteStreamProducer()
	case "text":
		return runtime.TextProducer()
	}
	panic("produce: codec " + in.Codec)
}

func c15RunConsume(in c15In, obs *c15Obs) { c15ConsumeWith(c15StreamConsumer(in), in, obs) }

// c15ConsumeWith makes one Consume call through the given consumer value; the function it returns re-reads
// the destination and the counters into another observable later on.
func c15ConsumeWith(cons runtime.Consumer, in c15In, obs *c15Obs) func(*c15Obs) {
	var rd io.Reader
	var sr *c15Reader
	if !in.NilStrm {
		sr = c15NewReader(in.Steps)
		if in.Closable {
			rd = &c15ReadCloser{sr}
		} else {
			rd = sr
		}
	}
	dest := c15MakeDest(in)
	var err error
	obs.Panicked, obs.Panic = recoverTo(func() { err = cons.Consume(rd, dest.data) })
	obs.Err = c15ErrClass(err, "")
	if err != nil {
		obs.ErrText = err.Error()
	}
	reread := func(o *c15Obs) {
		has, st := dest.stored()
		o.HasSt, o.Stored = has, Bs(st)
		if sr != nil {
			o.Closes, o.Reads = sr.closes, sr.reads
		}
	}
	reread(obs)
	return reread
}

func c15RunProduce(in c15In, obs *c15Obs) { c15ProduceWith(c15StreamProducer(in), in, obs) }

func c15ProduceWith(prod runtime.Producer, in c15In, obs *c15Obs) func(*c15Obs) {
	var wr io.Writer
	var sw *c15Writer
	if !in.NilStrm {
		sw = c15NewWriter(in.WSteps, string(in.WPre))
		if in.Closable {
			wr = &c15WriteCloser{sw}
		} else {
			wr = sw
		}
	}
	// oracle: what swag.WriteJSON answers for this very kind of value (a second, identical value:
	// the oracle call must not consume the payload)
	jsrc := c15MakeSrc(in)
	if jsrc.data != nil {
		recoverTo(func() {
			b, jerr := swag.WriteJSON(jsrc.data)
			if jerr != nil {
				obs.JErr = jerr.Error()
			} else {
				obs.JOut = Bs(b)
			}
		})
	}
	src := c15MakeSrc(in)
	var err error
	obs.Panicked, obs.Panic = recoverTo(func() { err = prod.Produce(wr, src.data) })
	obs.Err = c15ErrClass(err, obs.JErr)
	if err != nil {
		obs.ErrText = err.Error()
	}
	reread := func(o *c15Obs) {
		if sw != nil {
			o.Got, o.Closes, o.Writes = Bs(sw.got), sw.closes, sw.writes
		}
		o.PCloses = src.pcloses()
	}
	reread(obs)
	return reread
}

func c15RunDiscard(in c15In, obs *c15Obs) {
	sr := c15NewReader(in.Steps)
	sw := c15NewWriter(nil, "")
	var e1, e2 error
	var dst string
	obs.Panicked, obs.Panic = recoverTo(func() {
		e1 = runtime.DiscardConsumer.Consume(&c15ReadCloser{sr}, &dst)
		e2 = runtime.DiscardProducer.Produce(&c15WriteCloser{sw}, string(in.Content))
	})
	if e1 != nil {
		obs.Err = c15ErrClass(e1, "")
	} else {
		obs.Err = c15ErrClass(e2, "")
	}
	obs.Reads, obs.Writes, obs.Closes = sr.reads, sw.writes, sr.closes+sw.closes
	if dst != "" {
		obs.Writes++
	}
}

// ---------- JSON / XML / YAML round trips (differential) ----------

type c15Doc struct {
	XMLName xml.Name `json:"-" yaml:"-" xml:"doc"`
	Name    string   `json:"name" yaml:"name" xml:"name"`
	N       int64    `json:"n" yaml:"n" xml:"n"`
	U       uint64   `json:"u" yaml:"u" xml:"u"`
	F       float64  `json:"f" yaml:"f" xml:"f"`
	B       bool     `json:"b" yaml:"b" xml:"b"`
	Tags    []string `json:"tags" yaml:"tags" xml:"tags>tag"`
	Inner   *c15Sub  `json:"inner,omitempty" yaml:"inner,omitempty" xml:"inner,omitempty"`
}

type c15Sub struct {
	K string `json:"k" yaml:"k" xml:"k"`
	V int    `json:"v" yaml:"v" xml:"v"`
}

func c15Codecs(name string) (runtime.Producer, runtime.Consumer) {
	switch name {
	case "json":
		return runtime.JSONProducer(), runtime.JSONConsumer()
	case "xml":
		return runtime.XMLProducer(), runtime.XMLConsumer()
	case "yaml":
		return yamlpc.YAMLProducer(), yamlpc.YAMLConsumer()
	case "text":
		return runtime.TextProducer(), runtime.TextConsumer()
	case "bytestream":
		return runtime.ByteStreamProducer(), runtime.ByteStreamConsumer()
	}
	panic("rt: codec " + name)
}

// c15DocFrom derives a document deterministically from the content bytes.
func c15DocFrom(content string, safe bool, yamlSafe bool) c15Doc {
	clean := func(s string) string {
		var sb strings.Builder
		for i := 0; i < len(s); i++ {
			c := s[i]
			if c < 0x20 || c > 0x7e {
				if safe {
					c = 'a' + c%26
				} else if c == '\r' || c < 0x20 && c != '\n' && c != '\t' || c >= 0x7f {
					c = 'A' + c%26
				}
			}
			sb.WriteByte(c)
		}
		out := sb.String()
		// yaml.v3 v3.0.1 cannot round-trip a string that starts with a line break (it emits a block scalar with
		// a wrong indentation indicator: a sequence item no longer parses, a map value loses the line break).
		// That is the library, not the codec; such strings are not generated for YAML (notes/C15.md).
		if yamlSafe && strings.HasPrefix(out, "\n") {
			out = "n" + out[1:]
		}
		return out
	}
	var n int64
	var u uint64
	for i := 0; i < len(content); i++ {
		n = n*131 + int64(content[i])
		u = u*257 + uint64(content[i])
	}
	d := c15Doc{Name: clean(content), N: n, U: u, F: float64(n%100000) / 64, B: len(content)%2 == 1, Tags: []string{}}
	for i := 0; i+3 <= len(content) && i < 12; i += 3 {
		d.Tags = append(d.Tags, clean(content[i:i+3]))
	}
	if len(content) > 2 {
		d.Inner = &c15Sub{K: clean(content[:2]), V: int(content[2])}
	}
	return d
}

func c15OneByteSteps(b []byte) []c15Step {
	steps := make([]c15Step, 0, len(b)+1)
	for i := range b {
		steps = append(steps, c15Step{C: Bs(b[i : i+1])})
	}
	return steps
}

func c15RoundTrip(in c15In) (bool, string) {
	prod, cons := c15Codecs(in.Codec)
	switch in.Shape {
	case "large":
		return c15RoundTripLarge(in, prod, cons)
	case "textval":
		return c15RoundTripTextVal(in, prod, cons)
	}
	content := string(in.Content)
	sink := c15NewWriter(nil, "")
	feed := func() io.Reader {
		// the consumer reads what the producer wrote through a scripted reader: 1-byte chunks or one chunk + EOF
		if len(content)%2 == 0 {
			return c15NewReader(c15OneByteSteps(sink.got))
		}
		return c15NewReader([]c15Step{{C: Bs(sink.got), T: 1}})
	}
	switch in.Shape {
	case "doc":
		doc := c15DocFrom(content, in.Codec == "xml", in.Codec == "yaml")
		if in.Codec != "xml" {
			doc.XMLName = xml.Name{}
		}
		if err := prod.Produce(sink, doc); err != nil {
			return false, "produce: " + err.Error()
		}
		var back c15Doc
		if err := cons.Consume(feed(), &back); err != nil {
			return false, "consume: " + err.Error()
		}
		if in.Codec == "xml" {
			back.XMLName = doc.XMLName
			if back.Tags == nil {
				back.Tags = []string{}
			}
		}
		if in.Codec == "yaml" && back.Tags == nil {
			back.Tags = []string{}
		}
		if !reflect.DeepEqual(doc, back) {
			return false, fmt.Sprintf("round trip differs: %+v vs %+v (wire %q)", doc, back, sink.got)
		}
		return true, ""
	case "bignum":
		// JSON numbers beyond float64 precision survive into interface{} destinations (UseNumber)
		digits := "9007199254740993"
		for i := 0; i < len(content); i++ {
			digits += string(rune('0' + content[i]%10))
		}
		if len(content)%3 == 1 {
			digits = "-" + digits
		}
		if len(content)%3 == 2 {
			digits += ".000000000000000000001"
		}
		val := map[string]any{"n": json.Number(digits), "l": []any{json.Number(digits), "s"}}
		if err := prod.Produce(sink, val); err != nil {
			return false, "produce: " + err.Error()
		}
		var back any
		if err := cons.Consume(feed(), &back); err != nil {
			return false, "consume: " + err.Error()
		}
		if !reflect.DeepEqual(any(val), back) {
			return false, fmt.Sprintf("number not preserved: %v vs %v (wire %q)", val, back, sink.got)
		}
		return true, ""
	case "html":
		// no HTML escaping: < > & reach the wire as they are, and come back
		s := "<a href=\"x\">&" + strings.Map(func(r rune) rune {
			if r < 0x20 || r > 0x7e {
				return 'h'
			}
			return r
		}, content) + "</a>"
		if err := prod.Produce(sink, s); err != nil {
			return false, "produce: " + err.Error()
		}
		if !bytes.Contains(sink.got, []byte("<a href=")) || !bytes.Contains(sink.got, []byte(">&")) || bytes.Contains(sink.got, []byte("\\u003c")) {
			return false, fmt.Sprintf("HTML characters were escaped on the wire: %q", sink.got)
		}
		var back string
		if err := cons.Consume(feed(), &back); err != nil {
			return false, "consume: " + err.Error()
		}
		if back != s {
			return false, fmt.Sprintf("string differs: %q vs %q", s, back)
		}
		return true, ""
	case "first":
		// one Decode: the consumer takes the first document and leaves the rest of the stream alone
		doc := c15DocFrom(content, false, false)
		doc.XMLName = xml.Name{}
		if err := prod.Produce(sink, doc); err != nil {
			return false, "produce: " + err.Error()
		}
		sink.got = append(sink.got, []byte(" {\"name\":\"second\"} trailing garbage")...)
		var back c15Doc
		if err := cons.Consume(feed(), &back); err != nil {
			return false, "consume: " + err.Error()
		}
		if back.Tags == nil {
			back.Tags = []string{}
		}
		if !reflect.DeepEqual(doc, back) {
			return false, fmt.Sprintf("first document differs: %+v vs %+v", doc, back)
		}
		return true, ""
	}
	panic("rt: shape " + in.Shape)
}

// ---------- rt/slots: one number at every number slot of a destination shape ----------
//
// The JSON consumer promises that numbers keep their format (UseNumber) wherever they land, not only in a
// top-level *interface{}; the typed integer / float slots of all three codecs must hold every value of their type.
// A case takes ONE number literal, puts it at every number slot of ONE destination shape, produces, consumes into a
// fresh destination of the very same type (through a scripted reader), and compares the leaves of the two values as
// texts: path = kind : exact decimal text. Nothing is compared as a float: a leaf that went through a float64 shows
// its rounded digits.

type c15SAny struct {
	ID any `json:"id" yaml:"id"`
}
type c15SSlice struct {
	Items []any `json:"items" yaml:"items"`
}
type c15SMap struct {
	M map[string]any `json:"m" yaml:"m"`
}
type c15SPtr struct {
	P  *any            `json:"p" yaml:"p"`
	PS *[]any          `json:"ps" yaml:"ps"`
	PM *map[string]any `json:"pm" yaml:"pm"`
}
type c15SOuter struct {
	Sub  c15SAny            `json:"sub" yaml:"sub"`
	PSub *c15SAny           `json:"psub" yaml:"psub"`
	L    []c15SAny          `json:"l" yaml:"l"`
	M    map[string]c15SAny `json:"m" yaml:"m"`
}

// C15Emb is exported because it is embedded (promoted fields of an embedded type).
type C15Emb struct {
	ID    any   `json:"id" yaml:"id"`
	Items []any `json:"items" yaml:"items"`
}
type c15SEmb struct {
	C15Emb `yaml:",inline"`
	X      string `json:"x" yaml:"x"`
}
type c15SMixed struct {
	I   int64       `json:"i" yaml:"i"`
	ID  any         `json:"id" yaml:"id"`
	U   uint64      `json:"u" yaml:"u"`
	JN  json.Number `json:"jn" yaml:"jn"`
	Any []any       `json:"any" yaml:"any"`
}
type c15NMap map[string]any
type c15NSlice []any
type c15NAny interface{}

type c15TSub struct {
	I int64   `json:"i" yaml:"i" xml:"i"`
	U uint64  `json:"u" yaml:"u" xml:"u"`
	F float64 `json:"f" yaml:"f" xml:"f"`
}
type c15Typed struct {
	I    int64       `json:"i" yaml:"i" xml:"i"`
	U    uint64      `json:"u" yaml:"u" xml:"u"`
	PI   *int64      `json:"pi" yaml:"pi" xml:"pi"`
	PU   *uint64     `json:"pu" yaml:"pu" xml:"pu"`
	LI   []int64     `json:"li" yaml:"li" xml:"li"`
	LU   []uint64    `json:"lu" yaml:"lu" xml:"lu"`
	F    float64     `json:"f" yaml:"f" xml:"f"`
	PF   *float64    `json:"pf" yaml:"pf" xml:"pf"`
	S    string      `json:"s" yaml:"s" xml:"s"`
	JN   json.Number `json:"jn" yaml:"jn" xml:"jn"`
	B    *big.Int    `json:"b" yaml:"b" xml:"b"`
	Sub  c15TSub     `json:"sub" yaml:"sub" xml:"sub"`
	PSub *c15TSub    `json:"psub" yaml:"psub" xml:"psub"`
	LSub []c15TSub   `json:"lsub" yaml:"lsub" xml:"lsub"`
}
type c15TMaps struct {
	MI map[string]int64   `json:"mi" yaml:"mi"`
	MU map[string]uint64  `json:"mu" yaml:"mu"`
	MF map[string]float64 `json:"mf" yaml:"mf"`
	MS map[string]c15TSub `json:"ms" yaml:"ms"`
}
type c15XAttr struct {
	XMLName xml.Name  `xml:"doc"`
	I       int64     `xml:"i,attr"`
	U       uint64    `xml:"u,attr"`
	F       float64   `xml:"f,attr"`
	S       string    `xml:"s,attr"`
	Sub     []c15XSub `xml:"sub>item"`
}
type c15XSub struct {
	I int64  `xml:"i,attr"`
	U uint64 `xml:",chardata"`
}

// c15TVals: the typed values derived from the literal.
type c15TVals struct {
	i int64
	u uint64
	f float64
	b *big.Int
	s string
}

func c15TypedVals(lit string) c15TVals {
	t := c15TVals{s: lit, b: new(big.Int)}
	mant := lit
	if k := strings.IndexAny(mant, "eE"); k >= 0 {
		mant = mant[:k]
	}
	neg := strings.HasPrefix(mant, "-")
	var digits strings.Builder
	for i := 0; i < len(mant); i++ {
		if mant[i] >= '0' && mant[i] <= '9' {
			digits.WriteByte(mant[i])
		}
	}
	if digits.Len() > 0 {
		t.b.SetString(digits.String(), 10)
	}
	if v, err := strconv.ParseInt(lit, 10, 64); err == nil {
		t.i = v
	} else {
		t.i = int64(new(big.Int).And(t.b, big.NewInt(math.MaxInt64)).Uint64())
		if neg {
			t.i = -t.i
		}
	}
	if v, err := strconv.ParseUint(lit, 10, 64); err == nil {
		t.u = v
	} else {
		t.u = new(big.Int).And(t.b, new(big.Int).SetUint64(math.MaxUint64)).Uint64()
	}
	if neg {
		t.b.Neg(t.b)
	}
	f, _ := strconv.ParseFloat(lit, 64)
	switch {
	case math.IsInf(f, 1):
		f = math.MaxFloat64
	case math.IsInf(f, -1):
		f = -math.MaxFloat64
	case math.IsNaN(f), f == 0:
		// no negative zero: yaml.v3 writes it as -0, which it reads back as the integer 0 (the library, not the codec)
		f = 0
	}
	t.f = f
	return t
}

// c15SlotLeaf: the value an interface slot of the source holds.
func c15SlotLeaf(codec, lit, numSrc string) any {
	if numSrc == "string" {
		return lit
	}
	if numSrc == "int" || codec == "yaml" && numSrc != "float" {
		if v, err := strconv.ParseInt(lit, 10, 64); err == nil {
			return v
		}
		if v, err := strconv.ParseUint(lit, 10, 64); err == nil {
			return v
		}
	}
	if codec == "json" {
		return json.Number(lit)
	}
	// YAML has no number type beyond int64 / uint64 / float64 (a json.Number is a string to it)
	return c15TypedVals(lit).f
}

type c15SlotDef struct {
	name   string
	codecs string // j, y, x
	iface  bool   // has interface slots (else: typed slots only)
	mk     func(n any, t c15TVals) any
	fresh  func() any
}

func c15TSubOf(t c15TVals) c15TSub { return c15TSub{I: t.i, U: t.u, F: t.f} }

var c15Slots = []c15SlotDef{
	{"any", "jy", true, func(n any, _ c15TVals) any { return map[string]any{"n": n, "l": []any{n, "s"}} }, func() any { return new(any) }},
	{"scalar", "jy", true, func(n any, _ c15TVals) any { return n }, func() any { return new(any) }},
	{"map", "jy", true, func(n any, _ c15TVals) any { return map[string]any{"n": n, "l": []any{n, "s"}, "m": map[string]any{"k": n}} },
		func() any { return new(map[string]any) }},
	{"slice", "jy", true, func(n any, _ c15TVals) any { return []any{n, "s", []any{n}, map[string]any{"k": n}} }, func() any { return new([]any) }},
	{"array", "jy", true, func(n any, _ c15TVals) any { return [2]any{n, []any{n}} }, func() any { return new([2]any) }},
	{"struct_any", "jy", true, func(n any, _ c15TVals) any { return c15SAny{ID: n} }, func() any { return new(c15SAny) }},
	{"struct_slice", "jy", true, func(n any, _ c15TVals) any { return c15SSlice{Items: []any{n, "s", n}} }, func() any { return new(c15SSlice) }},
	{"struct_map", "jy", true, func(n any, _ c15TVals) any { return c15SMap{M: map[string]any{"k": n, "l": []any{n}}} }, func() any { return new(c15SMap) }},
	{"struct_ptr", "jy", true, func(n any, _ c15TVals) any {
		n1, l, m := n, []any{n}, map[string]any{"k": n}
		return c15SPtr{P: &n1, PS: &l, PM: &m}
	}, func() any { return new(c15SPtr) }},
	{"struct_nested", "jy", true, func(n any, _ c15TVals) any {
		return c15SOuter{Sub: c15SAny{n}, PSub: &c15SAny{n}, L: []c15SAny{{n}, {"s"}}, M: map[string]c15SAny{"k": {n}}}
	}, func() any { return new(c15SOuter) }},
	{"struct_embedded", "jy", true, func(n any, _ c15TVals) any { return c15SEmb{C15Emb: C15Emb{ID: n, Items: []any{n}}, X: "x"} },
		func() any { return new(c15SEmb) }},
	{"struct_mixed", "jy", true, func(n any, t c15TVals) any {
		return c15SMixed{I: t.i, ID: n, U: t.u, JN: json.Number(t.s), Any: []any{n}}
	}, func() any { return new(c15SMixed) }},
	{"map_slice", "jy", true, func(n any, _ c15TVals) any { return map[string][]any{"k": {n, "s"}} }, func() any { return new(map[string][]any) }},
	{"map_map", "jy", true, func(n any, _ c15TVals) any { return map[string]map[string]any{"a": {"k": n}} },
		func() any { return new(map[string]map[string]any) }},
	{"slice_slice", "jy", true, func(n any, _ c15TVals) any { return [][]any{{n}, {"s", n}} }, func() any { return new([][]any) }},
	{"slice_map", "jy", true, func(n any, _ c15TVals) any { return []map[string]any{{"k": n}} }, func() any { return new([]map[string]any) }},
	{"slice_struct", "jy", true, func(n any, _ c15TVals) any { return []c15SAny{{n}, {[]any{n}}} }, func() any { return new([]c15SAny) }},
	{"named_map", "jy", true, func(n any, _ c15TVals) any { return c15NMap{"n": n} }, func() any { return new(c15NMap) }},
	{"named_slice", "jy", true, func(n any, _ c15TVals) any { return c15NSlice{n, "s"} }, func() any { return new(c15NSlice) }},
	{"named_any", "jy", true, func(n any, _ c15TVals) any { return map[string]c15NAny{"k": n, "l": []c15NAny{n}} },
		func() any { return new(map[string]c15NAny) }},
	{"ptr_ptr_any", "jy", true, func(n any, _ c15TVals) any { return []any{n} }, func() any { return new(*any) }},
	{"ptr_ptr_struct", "jy", true, func(n any, _ c15TVals) any { return c15SAny{n} }, func() any { return new(*c15SAny) }},
	{"ptr_ptr_slice", "jy", true, func(n any, _ c15TVals) any { return []any{n, "s"} }, func() any { return new(*[]any) }},
	// an interface that already holds a pointer: encoding/json decodes into what it points to
	{"any_holding_ptr", "j", true, func(n any, _ c15TVals) any { return c15SSlice{Items: []any{n}} }, func() any {
		var a any = new(c15SSlice)
		return &a
	}},
	{"typed", "jyx", false, func(_ any, t c15TVals) any {
		i, u, f := t.i, t.u, t.f
		sub := c15TSubOf(t)
		return c15Typed{I: t.i, U: t.u, PI: &i, PU: &u, LI: []int64{t.i, -t.i}, LU: []uint64{t.u, ^t.u}, F: t.f, PF: &f, S: t.s, JN: json.Number(t.s),
			B: new(big.Int).Set(t.b), Sub: sub, PSub: &sub, LSub: []c15TSub{sub, {I: math.MinInt64, U: math.MaxUint64, F: 0 - t.f}}}
	}, func() any { return new(c15Typed) }},
	{"typed_maps", "jy", false, func(_ any, t c15TVals) any {
		return c15TMaps{MI: map[string]int64{"a": t.i, "b": math.MaxInt64}, MU: map[string]uint64{"a": t.u, "b": math.MaxUint64},
			MF: map[string]float64{"a": t.f}, MS: map[string]c15TSub{"a": c15TSubOf(t)}}
	}, func() any { return new(c15TMaps) }},
	{"typed_attr", "x", false, func(_ any, t c15TVals) any {
		return c15XAttr{XMLName: xml.Name{Local: "doc"}, I: t.i, U: t.u, F: t.f, S: t.s, Sub: []c15XSub{{I: t.i, U: t.u}, {I: math.MinInt64, U: math.MaxUint64}}}
	}, func() any { return new(c15XAttr) }},
}

func c15SlotByName(name string) *c15SlotDef {
	for i := range c15Slots {
		if c15Slots[i].name == name {
			return &c15Slots[i]
		}
	}
	panic("rt/slots: unknown slot " + name)
}

func c15FloatText(f float64) string {
	if f == math.Trunc(f) && math.Abs(f) < 1e21 {
		return strconv.FormatFloat(f, 'f', -1, 64)
	}
	return strconv.FormatFloat(f, 'g', -1, 64)
}

var c15BigIntType = reflect.TypeOf(big.Int{})
var c15JSONNumberType = reflect.TypeOf(json.Number(""))
var c15XMLNameType = reflect.TypeOf(xml.Name{})

// c15Leaves walks a value in a fixed order and prints every leaf as path=kind:text.
func c15Leaves(v reflect.Value, path string, out *[]string) {
	emit := func(s string) { *out = append(*out, path+"="+s) }
	if !v.IsValid() {
		emit("nil")
		return
	}
	switch v.Type() {
	case c15BigIntType:
		if v.CanAddr() {
			emit("n:" + v.Addr().Interface().(*big.Int).String())
		} else {
			b := v.Interface().(big.Int)
			emit("n:" + b.String())
		}
		return
	case c15JSONNumberType:
		emit("n:" + v.String())
		return
	case c15XMLNameType:
		return
	}
	switch v.Kind() {
	case reflect.Interface, reflect.Ptr:
		if v.IsNil() {
			emit("nil")
			return
		}
		c15Leaves(v.Elem(), path, out)
	case reflect.Struct:
		for i := 0; i < v.NumField(); i++ {
			f := v.Type().Field(i)
			if f.PkgPath != "" && !f.Anonymous {
				continue
			}
			c15Leaves(v.Field(i), path+"."+f.Name, out)
		}
	case reflect.Map:
		type kv struct {
			k string
			v reflect.Value
		}
		var kvs []kv
		for it := v.MapRange(); it.Next(); {
			kvs = append(kvs, kv{fmt.Sprint(it.Key().Interface()), it.Value()})
		}
		sort.Slice(kvs, func(a, b int) bool { return kvs[a].k < kvs[b].k })
		if len(kvs) == 0 {
			emit("empty")
		}
		for _, e := range kvs {
			c15Leaves(e.v, path+"["+e.k+"]", out)
		}
	case reflect.Slice, reflect.Array:
		if v.Len() == 0 {
			emit("empty")
		}
		for i := 0; i < v.Len(); i++ {
			c15Leaves(v.Index(i), path+"["+strconv.Itoa(i)+"]", out)
		}
	case reflect.String:
		emit("s:" + v.String())
	case reflect.Int, reflect.Int8, reflect.Int16, reflect.Int32, reflect.Int64:
		emit("n:" + strconv.FormatInt(v.Int(), 10))
	case reflect.Uint, reflect.Uint8, reflect.Uint16, reflect.Uint32, reflect.Uint64:
		emit("n:" + strconv.FormatUint(v.Uint(), 10))
	case reflect.Float32, reflect.Float64:
		emit("n:" + c15FloatText(v.Float()))
	case reflect.Bool:
		emit("b:" + strconv.FormatBool(v.Bool()))
	default:
		emit("?:" + v.Type().String())
	}
}

func c15RunSlots(in c15In, obs *c15Obs) {
	prod, cons := c15Codecs(in.Codec)
	slot := c15SlotByName(in.Slot)
	src := slot.mk(c15SlotLeaf(in.Codec, in.Num, in.NumSrc), c15TypedVals(in.Num))
	c15Leaves(reflect.ValueOf(src), "", &obs.Want)
	sink := c15NewWriter(nil, "")
	if err := prod.Produce(sink, src); err != nil {
		obs.Failed, obs.Detail = true, "produce: "+err.Error()
		return
	}
	obs.Wire = Bs(sink.got)
	var rd io.Reader
	if len(in.Num)%2 == 0 {
		rd = c15NewReader(c15OneByteSteps(sink.got))
	} else {
		rd = c15NewReader([]c15Step{{C: Bs(sink.got), T: 1}})
	}
	dst := slot.fresh()
	if err := cons.Consume(rd, dst); err != nil {
		obs.Failed, obs.Detail = true, "consume: "+err.Error()
		return
	}
	c15Leaves(reflect.ValueOf(dst).Elem(), "", &obs.GotL)
}

// c15NumClass: what kind of literal (for the distribution report).
func c15NumClass(lit string) string {
	if strings.ContainsAny(lit, "eE") {
		return "exponent"
	}
	if strings.Contains(lit, ".") {
		return "decimal"
	}
	b, ok := new(big.Int).SetString(lit, 10)
	if !ok {
		return "other"
	}
	abs := new(big.Int).Abs(b)
	switch {
	case abs.Cmp(big.NewInt(1<<53)) <= 0:
		return "int53"
	case b.IsInt64():
		return "int64"
	case b.IsUint64():
		return "uint64"
	}
	return "bigint"
}

func c15Digits(r *rand.Rand, n int) string {
	b := make([]byte, n)
	for i := range b {
		b[i] = byte('0' + r.Intn(10))
	}
	if b[0] == '0' {
		b[0] = byte('1' + r.Intn(9))
	}
	return string(b)
}

// c15NumLit draws a number literal (valid JSON number syntax): integers around and beyond 2^53, the int64 / uint64
// limits, integers of 20 to 60 digits, long decimals, exponents beyond float64, and a few small ones.
func c15NumLit(r *rand.Rand) string {
	sign := func(s string) string {
		if r.Intn(3) == 0 {
			return "-" + s
		}
		return s
	}
	switch r.Intn(10) {
	case 0:
		return []string{"9007199254740993", "-9007199254740993", "9007199254740992", "9007199254740995", "18014398509481985"}[r.Intn(5)]
	case 1:
		return []string{"9223372036854775807", "-9223372036854775808", "9223372036854775808", "18446744073709551615", "18446744073709551616",
			"-9223372036854775809", "9223372036854775806"}[r.Intn(7)]
	case 2, 3: // 17 or 18 digits (fits an int64), last digit odd
		d := c15Digits(r, 16+r.Intn(2)) + string(rune('1'+2*r.Intn(5)))
		return sign(d)
	case 4: // 19 or 20 digits: int64, uint64 or neither
		return sign(c15Digits(r, 19+r.Intn(2)))
	case 5:
		return sign(c15Digits(r, 21+r.Intn(40)))
	case 6:
		return sign(c15Digits(r, 1+r.Intn(20)) + "." + c15Digits(r, 17+r.Intn(14)))
	case 7:
		return sign(c15Digits(r, 1+r.Intn(25)) + []string{"e400", "e-400", "E+5", "e30", "E-3", "e+308", "e0"}[r.Intn(7)])
	case 8:
		return []string{"0.1000000000000000055511151231257827", "1e400", "-1.5e-400", "1E+2", "123456789012345678901234567890e-10",
			"0.30000000000000004440892098500626", "1.7976931348623157e308", "5e-324", "4.9e-325"}[r.Intn(9)]
	default:
		return []string{"0", "-0", "1", "42", "-7", "1.5", "100", "0.1", "1e3"}[r.Intn(9)]
	}
}

// c15GenSlots draws one slots case for the codec.
func c15GenSlots(r *rand.Rand, codec string) c15In {
	var slots []string
	for _, sd := range c15Slots {
		if strings.Contains(sd.codecs, codec[:1]) {
			slots = append(slots, sd.name)
		}
	}
	in := c15In{Kind: "rt", Codec: codec, Shape: "slots", Slot: slots[r.Intn(len(slots))], Num: c15NumLit(r)}
	in.NumSrc = c15NumSrcFor(r, codec, in.Num)
	return in
}

// c15NumSrcFor: the source representations the codec can carry for this literal.
func c15NumSrcFor(r *rand.Rand, codec, lit string) string {
	_, e1 := strconv.ParseInt(lit, 10, 64)
	_, e2 := strconv.ParseUint(lit, 10, 64)
	isInt := e1 == nil || e2 == nil
	pick := r.Intn(6)
	switch codec {
	case "json":
		switch {
		case pick == 0:
			return "string"
		case isInt && pick < 3:
			return "int"
		}
		return "number"
	case "yaml":
		switch {
		case pick == 0:
			return "string"
		case isInt:
			return "int"
		}
		return "float"
	}
	return "int"
}

// ---------- Gallina ----------

func c15CoqCodec(s string) string {
	if s == "text" {
		return "Text"
	}
	return "ByteStream"
}

func c15CoqErr(cls string) string {
	if cls == "" {
		return "None"
	}
	return "(Some " + cls + ")"
}

func c15CoqConsume(in c15In, obs c15Obs) string {
	rd := "None"
	if !in.NilStrm {
		rd = fmt.Sprintf("(Some (%s, %s))", c15CoqSteps(in.Steps), coqBool(in.Closable))
	}
	return fmt.Sprintf("CConsume %s %s %s %s %s %s %s %s", c15CoqCodec(in.Codec), coqBool(in.CloseOpt), rd, c15CoqDest(in),
		coqBool(obs.Panicked), c15CoqErr(obs.Err), coqOpt(obs.HasSt, coqBytes(string(obs.Stored))), c15Nat(obs.Closes))
}

func c15CoqProduce(in c15In, obs c15Obs) string {
	wr := "None"
	if !in.NilStrm {
		wr = fmt.Sprintf("(Some (%s, %s))", c15CoqWState(in.WSteps, string(in.WPre)), coqBool(in.Closable))
	}
	jerr := "None"
	if obs.JErr != "" {
		jerr = "(Some (EOther 7))"
	}
	return fmt.Sprintf("CProduce %s %s %s %s (%s, %s) %s %s %s %s %s", c15CoqCodec(in.Codec), coqBool(in.CloseOpt), wr, c15CoqSrc(in),
		coqBytes(string(obs.JOut)), jerr,
		coqBool(obs.Panicked), c15CoqErr(obs.Err), coqBytes(string(obs.Got)), c15Nat(obs.Closes), c15Nat(obs.PCloses))
}

func (c15) Coq(inAny any, obsAny any) string {
	in, obs := inAny.(c15In), obsAny.(c15Obs)
	switch in.Kind {
	case "consume":
		return c15CoqConsume(in, obs)
	case "produce":
		return c15CoqProduce(in, obs)
	case "discard":
		return fmt.Sprintf("CDiscard %s %s %s %s %s", coqBool(obs.Panicked), c15CoqErr(obs.Err), c15Nat(obs.Reads), c15Nat(obs.Writes), c15Nat(obs.Closes))
	case "hist":
		return c15CoqHist(in, obs)
	case "rt":
		f := map[string]int{"json": 0, "xml": 1, "yaml": 2, "text": 3, "bytestream": 4}[in.Codec]
		if in.Shape == "slots" {
			return fmt.Sprintf("CNumSlots %d %s %s %s %s", f, coqBool(obs.Panicked), coqBool(obs.Failed), coqBytesList(obs.Want), coqBytesList(obs.GotL))
		}
		if in.Shape == "names" || in.Shape == "xtree" {
			return fmt.Sprintf("CDocLeaves %d %s %s %s %s", f, coqBool(obs.Panicked), coqBool(obs.Failed), coqBytesList(obs.Want), coqBytesList(obs.GotL))
		}
		sh := map[string]int{"doc": 0, "bignum": 1, "html": 2, "first": 3, "large": 4, "textval": 5}[in.Shape]
		return fmt.Sprintf("CRoundTrip %d %d %s %s", f, sh, coqBool(obs.Panicked), coqBool(obs.OK))
	}
	panic("unknown kind " + in.Kind)
}

// ---------- known findings ----------

func c15Bytes(steps []c15Step) string {
	var sb strings.Builder
	for _, s := range steps {
		sb.WriteString(string(s.C))
		if s.T != 0 {
			break
		}
	}
	return sb.String()
}

func c15Term(steps []c15Step) int {
	for _, s := range steps {
		if s.T != 0 {
			return s.T
		}
	}
	return 1
}

func (c15) Classify(inAny any, obsAny any) []string {
	in, obs := inAny.(c15In), obsAny.(c15Obs)
	var kf []string
	// F-C15-2: text consumer, empty input, destination of a supported kind that already holds something:
	// nil is returned and the old content stays
	if in.Kind == "consume" && in.Codec == "text" && !in.NilStrm && !obs.Panicked && obs.Err == "" &&
		c15Bytes(in.Steps) == "" && c15Term(in.Steps) == 1 && len(in.Pre) > 0 &&
		(in.Dest == "ptr_string" || in.Dest == "ptr_named_string" || in.Dest == "textunm" && in.Ret == 0) &&
		obs.HasSt && obs.Stored == in.Pre {
		kf = append(kf, "text.empty_input_prepopulated_destination")
	}
	return kf
}

// ---------- categories ----------

func (c15) Category(inAny any, obsAny any) (string, bool) {
	in, obs := inAny.(c15In), obsAny.(c15Obs)
	out := "ok"
	switch {
	case obs.Panicked:
		out = "panic"
	case obs.Err != "":
		out = "err"
	}
	switch in.Kind {
	case "consume":
		opt := ""
		if in.CloseOpt {
			opt = "+close"
		}
		if in.NilStrm {
			return fmt.Sprintf("consume/%s%s/nil-reader/%s/%s", in.Codec, opt, in.Dest, out), false
		}
		pre := ""
		if len(in.Pre) > 0 || in.Dest == "writer" && len(in.WPre) > 0 {
			pre = "+pre"
		}
		return fmt.Sprintf("consume/%s%s/%s%s/%s/%s/%s", in.Codec, opt, in.Dest, pre, in.Script, c15ContentClass(c15Bytes(in.Steps)), out),
			in.Dest != "nil" && len(in.Steps) > 0
	case "produce":
		opt := ""
		if in.CloseOpt {
			opt = "+close"
		}
		if in.NilStrm {
			return fmt.Sprintf("produce/%s%s/nil-writer/%s/%s", in.Codec, opt, in.Src, out), false
		}
		content := string(in.Content)
		if in.Src == "reader" {
			content = c15Bytes(in.Steps)
		}
		return fmt.Sprintf("produce/%s%s/%s/%s/%s/%s", in.Codec, opt, in.Src, in.Script, c15ContentClass(content), out),
			in.Src != "nil" && (len(content) > 0 || len(in.Steps) > 0)
	case "discard":
		return "discard", true
	case "hist":
		sig := ""
		for i, c := range in.Calls {
			op := "C"
			if c.Kind == "produce" {
				op = "P"
			}
			if i < len(obs.Imm) && (obs.Imm[i].Err != "" || obs.Imm[i].Panicked) {
				op += "!"
			}
			sig += op
		}
		return fmt.Sprintf("hist/%s/%s", in.Codec, sig), true
	default:
		if in.Shape == "names" || in.Shape == "xtree" {
			switch {
			case obs.Failed:
				out = "err"
			case !reflect.DeepEqual(obs.Want, obs.GotL):
				out = "differs"
			}
			void := "other-names"
			if c15HasVoidName(in) {
				void = "html-void-name"
			}
			return fmt.Sprintf("rt/%s/%s/%s/%s", in.Codec, in.Shape, void, out), true
		}
		if in.Shape == "slots" {
			switch {
			case obs.Failed:
				out = "err"
			case !reflect.DeepEqual(obs.Want, obs.GotL):
				out = "differs"
			}
			return fmt.Sprintf("rt/%s/slots/%s/%s/%s/%s", in.Codec, in.Slot, in.NumSrc, c15NumClass(in.Num), out), true
		}
		if !obs.Panicked && !obs.OK {
			out = "differs"
		}
		if in.Shape == "large" {
			return fmt.Sprintf("rt/%s/large/%s/%s/%s", in.Codec, in.Slot, c15SizeClass(in.Num), out), true
		}
		if in.Shape == "textval" {
			return fmt.Sprintf("rt/%s/textval/%s/%s", in.Codec, in.Slot, out), true
		}
		return fmt.Sprintf("rt/%s/%s/%s", in.Codec, in.Shape, out), true
	}
}

func c15ContentClass(s string) string {
	switch {
	case len(s) == 0:
		return "empty"
	case len(s) >= 1024:
		return "large"
	}
	ascii := true
	for i := 0; i < len(s); i++ {
		if s[i] < 0x20 && s[i] != '\n' && s[i] != '\t' || s[i] > 0x7e {
			ascii = false
		}
	}
	if ascii {
		return "text"
	}
	if !strings.ContainsRune(s, 0) && strings.ToValidUTF8(s, "") == s {
		return "utf8"
	}
	if strings.ToValidUTF8(s, "") != s {
		return "invalid-utf8"
	}
	return "binary"
}

// ---------- generation ----------

// c15Marks: byte sequences that text-handling code is tempted to treat as not part of the content when they stand at
// the start or the end of a payload: byte order marks (UTF-8, UTF-16 LE / BE, UTF-32), NUL, blanks, line ends, Ctrl-Z, DEL.
// The codecs store / write exactly the bytes read, these included - also when they are the whole payload.
var c15Marks = []string{"\xef\xbb\xbf", "\xff\xfe", "\xfe\xff", "\xff\xfe\x00\x00", "\x00", " ", "\t", "\n", "\r\n", "\r", "\x1a", "\x7f", "\xef\xbb", "\xef\xbb\xbf\xef\xbb\xbf"}

// c15Marked: a mark alone, in front of, behind or around a word.
func c15Marked(r *rand.Rand) string {
	m := c15Marks[r.Intn(len(c15Marks))]
	switch r.Intn(5) {
	case 0:
		return m
	case 1:
		return c15Word(r) + m
	case 2:
		return m + c15Word(r) + c15Marks[r.Intn(len(c15Marks))]
	default:
		return m + c15Word(r)
	}
}

// c15StreamContent: payloads of the byte stream / text codecs (the documents of the JSON / XML / YAML round trips keep
// c15Content: what a CR or a NUL inside a YAML / XML scalar becomes is the encoder's business, not this property's).
func c15StreamContent(r *rand.Rand) string {
	if r.Intn(6) == 0 {
		return c15Marked(r)
	}
	return c15Content(r)
}

func c15Content(r *rand.Rand) string {
	switch r.Intn(12) {
	case 0:
		return ""
	case 1:
		b := make([]byte, 1+r.Intn(24))
		for i := range b {
			b[i] = byte(r.Intn(256))
		}
		return string(b)
	case 2:
		return []string{"\xff\xfe\xfd", "ok\xc3", "\xc3\x28", "a\x80b", "\xed\xa0\x80"}[r.Intn(5)] + c15Word(r)
	case 3:
		b := make([]byte, 1500+r.Intn(2600))
		for i := range b {
			b[i] = byte(r.Intn(256))
		}
		return string(b)
	case 4:
		return "\x00" + c15Word(r) + "\x00\x01"
	case 5:
		return "h\xc3\xa9llo w\xc3\xb6rld \xe2\x82\xac"
	case 6:
		return `{"n":12345678901234567890123,"f":0.1000000000000000055511151231257827}`
	default:
		return c15Word(r)
	}
}

func c15Word(r *rand.Rand) string {
	words := []string{"hello", "the quick brown fox", "a", "line1\nline2\n", "x,y,z", "  padded  ", "%d %s", "<b>&amp;</b>", "0123456789abcdef"}
	return words[r.Intn(len(words))]
}

// c15Script cuts content into a reader script of one of the shapes the property quantifies over.
func c15Script(r *rand.Rand, content string) ([]c15Step, string) {
	b := []byte(content)
	shape := r.Intn(9)
	if len(b) > 256 && (shape == 1 || shape == 4) {
		shape = 2
	}
	switch shape {
	case 0: // one chunk, EOF on the next call
		return []c15Step{{C: Bs(b)}}, "one-chunk"
	case 1: // 1-byte chunks
		return c15OneByteSteps(b), "1-byte"
	case 2: // random chunks
		return c15Cut(r, b, 0, false), "chunks"
	case 3: // data together with EOF
		steps := c15Cut(r, b, 0, false)
		if len(steps) == 0 {
			return []c15Step{{T: 1}}, "data+eof"
		}
		steps[len(steps)-1].T = 1
		return steps, "data+eof"
	case 4: // zero-length reads in between
		steps := c15Cut(r, b, 3, false)
		return steps, "zero-reads"
	case 5, 6: // error at an offset, with or without data in the failing call
		k := 0
		if len(b) > 0 {
			k = r.Intn(len(b) + 1)
		}
		steps := c15Cut(r, b[:k], r.Intn(2)*4, false)
		e := 2 + r.Intn(5)
		if r.Intn(2) == 0 { // the VALUE of the error matters to careless code: half the faults carry a library error value
			e = c15DrawLibErr(r)
		}
		if shape == 5 || len(steps) == 0 {
			steps = append(steps, c15Step{T: e})
		} else {
			steps[len(steps)-1].T = e
		}
		// what would have followed
		steps = append(steps, c15Step{C: Bs(b[k:])})
		return steps, "error-at-offset"
	case 7: // explicit EOF step, then junk that must never be read
		steps := c15Cut(r, b, 0, false)
		steps = append(steps, c15Step{T: 1}, c15Step{C: "JUNK"})
		return steps, "eof-then-junk"
	default: // no steps at all for empty, else one chunk + EOF
		if len(b) == 0 {
			return nil, "no-steps"
		}
		return []c15Step{{C: Bs(b), T: 1}}, "data+eof"
	}
}

func c15Cut(r *rand.Rand, b []byte, zeroEvery int, _ bool) []c15Step {
	var steps []c15Step
	for len(b) > 0 {
		n := 1 + r.Intn(7)
		if len(b) > 64 {
			n = 1 + r.Intn(900)
		}
		if n > len(b) {
			n = len(b)
		}
		if zeroEvery > 0 && r.Intn(zeroEvery) == 0 {
			steps = append(steps, c15Step{})
		}
		steps = append(steps, c15Step{C: Bs(b[:n])})
		b = b[n:]
	}
	if zeroEvery > 0 {
		steps = append(steps, c15Step{}, c15Step{})
	}
	return steps
}

// c15WScript draws a writer script: lawful (accepts everything), short with error, short without error, error at once.
func c15WScript(r *rand.Rand, total int) ([]c15WStep, string) {
	switch r.Intn(8) {
	case 0, 1, 2:
		return nil, "accepting"
	case 3: // fails at some call, accepting part of it
		var steps []c15WStep
		for j := r.Intn(3); j > 0; j-- {
			steps = append(steps, c15WStep{A: 5000})
		}
		a := 0
		if total > 0 {
			a = r.Intn(total + 1)
		}
		return append(steps, c15WStep{A: a, E: c15DrawWErr(r)}), "write-error"
	case 4: // short count without error (breaks the io.Writer contract)
		var steps []c15WStep
		for j := r.Intn(2); j > 0; j-- {
			steps = append(steps, c15WStep{A: 5000})
		}
		a := 0
		if total > 1 {
			a = r.Intn(total)
		}
		return append(steps, c15WStep{A: a}), "short-no-error"
	case 5: // error although everything was accepted
		return []c15WStep{{A: 5000, E: c15DrawWErr(r)}}, "full-with-error"
	case 6: // error on the first call, nothing accepted
		return []c15WStep{{A: 0, E: c15DrawWErr(r)}}, "write-error"
	default:
		return []c15WStep{{A: 5000}, {A: 5000}, {A: 5000}}, "accepting"
	}
}

func c15Codec(r *rand.Rand) string {
	if r.Intn(2) == 0 {
		return "bytestream"
	}
	return "text"
}

func c15GenConsume(r *rand.Rand, codec string, maxLen int) c15In {
	in := c15In{Kind: "consume", Codec: codec, CloseOpt: r.Intn(2) == 0, Closable: r.Intn(3) != 0}
	if in.Codec == "text" {
		in.CloseOpt = false // the text codec has no such option
	}
	in.Dest = c15Dests[r.Intn(len(c15Dests))]
	if r.Intn(3) == 0 { // the supported kinds more often
		in.Dest = []string{"ptr_string", "ptr_bytes", "buffer", "writer", "binunm", "textunm", "any_string", "any_bytes", "ptr_named_string"}[r.Intn(9)]
	}
	content := c15StreamContent(r)
	if maxLen > 0 && len(content) > maxLen {
		content = content[:maxLen]
	}
	in.Steps, in.Script = c15Script(r, content)
	if r.Intn(3) == 0 {
		in.Pre = Bs(c15Word(r))
	}
	if in.Dest == "writer" {
		in.WSteps, _ = c15WScript(r, len(content))
		if r.Intn(3) == 0 {
			in.WPre = Bs(c15Word(r))
		}
	}
	if (in.Dest == "binunm" || in.Dest == "textunm") && r.Intn(4) == 0 {
		in.Ret = 2 + r.Intn(5)
	}
	if r.Intn(40) == 0 {
		in.NilStrm, in.Steps, in.Script = true, nil, ""
	}
	return in
}

func c15GenProduce(r *rand.Rand, codec string, maxLen int) c15In {
	in := c15In{Kind: "produce", Codec: codec, CloseOpt: r.Intn(2) == 0, Closable: r.Intn(3) != 0}
	if in.Codec == "text" {
		in.CloseOpt = false
	}
	in.Src = c15Srcs[r.Intn(len(c15Srcs))]
	if r.Intn(3) == 0 {
		in.Src = []string{"reader", "reader", "buffer", "bytes", "string", "binmar", "textmar", "writerto_rc"}[r.Intn(8)]
	} else if r.Intn(8) == 0 {
		in.Src = c15MultiSrcs[r.Intn(len(c15MultiSrcs))]
	}
	content := c15StreamContent(r)
	if maxLen > 0 && len(content) > maxLen {
		content = content[:maxLen]
	}
	if in.Src == "error" || in.Src == "stringer" || c15MultiHasRet(in.Src) || in.Src == "error_stringer" || in.Src == "enum" || in.Src == "struct" || in.Src == "ptr_struct" || in.Src == "strings" {
		for len(content) > 300 {
			content = content[:200]
		}
	}
	var wlabel string
	if in.Src == "reader" {
		in.Steps, in.Script = c15Script(r, content)
		in.PClos = r.Intn(2) == 0
	} else {
		in.Content = Bs(content)
		in.Script = "direct"
	}
	in.WSteps, wlabel = c15WScript(r, len(content))
	in.Script += "/" + wlabel
	if r.Intn(4) == 0 {
		in.WPre = Bs(c15Word(r))
	}
	if (in.Src == "binmar" || in.Src == "textmar" || c15MultiHasRet(in.Src)) && r.Intn(4) == 0 {
		in.Ret = 2 + r.Intn(5)
	}
	if r.Intn(40) == 0 {
		in.NilStrm, in.WSteps, in.WPre = true, nil, ""
	}
	return in
}

func (c15) Gen(r *rand.Rand, tier string, i int) any {
	// scheduled by case index, so that every seed runs them: values with a wire form and a display form through the
	// text codec, and documents far larger than any buffer or size cap (a dozen per quick run; they are compared in Go)
	if i%25 == 7 {
		return c15GenTextVal(r)
	}
	if i%330 == 11 {
		return c15GenLarge(r, tier)
	}
	k := r.Intn(26)
	switch {
	case k >= 24:
		return c15GenHist(r)
	case k >= 22:
		if r.Intn(4) == 0 {
			t := c15GenXNode(r, 0)
			return c15In{Kind: "rt", Codec: "xml", Shape: "xtree", Tree: &t}
		}
		return c15GenNames(r, []string{"xml", "xml", "json", "yaml"}[r.Intn(4)])
	case k >= 20:
		return c15GenSlots(r, []string{"json", "json", "json", "yaml", "yaml", "xml"}[r.Intn(6)])
	case k < 10:
		return c15GenConsume(r, c15Codec(r), 0)
	case k < 18:
		return c15GenProduce(r, c15Codec(r), 0)
	default:
		codec := []string{"json", "xml", "yaml"}[r.Intn(3)]
		shape := "doc"
		if codec == "json" {
			shape = []string{"doc", "doc", "bignum", "html", "first"}[r.Intn(5)]
		}
		content := c15Content(r)
		if len(content) > 200 {
			content = content[:200]
		}
		return c15In{Kind: "rt", Codec: codec, Shape: shape, Content: Bs(content)}
	}
}

// Enumerate: every destination / source kind x both codecs x ClosesStream on/off against a fixed family of
// scripts (empty, one chunk, 1-byte chunks, data+EOF, zero-length reads, an error at every offset <= N).
func (c15) Enumerate(tier string) []any {
	var out []any
	content := "abc\xffde"
	type named struct {
		name  string
		steps []c15Step
	}
	scripts := []named{
		{"no-steps", nil},
		{"one-chunk", []c15Step{{C: Bs(content)}}},
		{"1-byte", c15OneByteSteps([]byte(content))},
		{"data+eof", []c15Step{{C: Bs(content[:2])}, {C: Bs(content[2:]), T: 1}}},
		{"zero-reads", []c15Step{{}, {C: Bs(content[:3])}, {}, {}, {C: Bs(content[3:])}, {}}},
		{"eof-only", []c15Step{{T: 1}}},
	}
	for k := 0; k <= len(content); k++ {
		// error reported by a call of its own after k bytes, and together with the k-th byte
		steps := append(c15OneByteSteps([]byte(content[:k])), c15Step{T: 2 + k}, c15Step{C: Bs(content[k:])})
		scripts = append(scripts, named{"error-at-offset", steps})
		if k > 0 {
			scripts = append(scripts, named{"error-at-offset", []c15Step{{C: Bs(content[:k]), T: 2 + k}, {C: Bs(content[k:])}}})
		}
	}
	for _, codec := range []string{"bytestream", "text"} {
		for _, closeOpt := range []bool{false, true} {
			if codec == "text" && closeOpt {
				continue
			}
			for _, dest := range c15Dests {
				for si, sc := range scripts {
					if tier == "quick" && si >= 6 && (si+len(dest))%3 != 0 {
						continue // quick tier: a third of the error offsets per destination
					}
					in := c15In{Kind: "consume", Codec: codec, CloseOpt: closeOpt, Closable: true, Dest: dest, Steps: sc.steps, Script: sc.name}
					out = append(out, in)
					if si < 2 {
						in.Pre = "OLD"
						in.WPre = "OLD"
						in.Closable = si == 0
						out = append(out, in)
					}
				}
				out = append(out, c15In{Kind: "consume", Codec: codec, CloseOpt: closeOpt, NilStrm: true, Dest: dest})
			}
			// every mark (c15Marks) alone, in front of and behind a word, into the main destination kinds, fresh and pre-filled
			if !closeOpt {
				for mi, m := range c15Marks {
					for di, dest := range []string{"ptr_string", "ptr_bytes", "buffer", "textunm", "binunm", "ptr_named_string", "any_string", "writer"} {
						for pi, content := range []string{m, m + "hello", "hello" + m} {
							if tier == "quick" && pi > 0 && (mi+di+pi)%2 != 0 {
								continue
							}
							in := c15In{Kind: "consume", Codec: codec, Closable: true, Dest: dest, Script: "marked"}
							if (mi+di)%2 == 0 {
								in.Steps = []c15Step{{C: Bs(content)}}
							} else {
								in.Steps = append(c15OneByteSteps([]byte(content)), c15Step{T: 1})
							}
							if pi == 0 || (mi+di+pi)%3 == 0 {
								in.Pre, in.WPre = "OLD", "OLD"
							}
							out = append(out, in)
						}
					}
				}
			}
			wscripts := []struct {
				name  string
				steps []c15WStep
			}{
				{"accepting", nil}, {"write-error", []c15WStep{{A: 2, E: 9}}}, {"short-no-error", []c15WStep{{A: 2}}},
				{"full-with-error", []c15WStep{{A: 5000, E: 9}}},
			}
			for _, src := range c15Srcs {
				for _, ws := range wscripts {
					in := c15In{Kind: "produce", Codec: codec, CloseOpt: closeOpt, Closable: true, Src: src, WSteps: ws.steps, Script: "direct/" + ws.name}
					if src == "reader" {
						for si, sc := range scripts {
							if tier == "quick" && si >= 6 && si%3 != 0 {
								continue
							}
							in.Steps, in.Script, in.PClos = sc.steps, sc.name+"/"+ws.name, si%2 == 0
							out = append(out, in)
						}
						continue
					}
					in.Content = Bs(content)
					out = append(out, in)
					in.Content, in.WPre, in.Closable = "", "OLD", false
					out = append(out, in)
				}
				out = append(out, c15In{Kind: "produce", Codec: codec, CloseOpt: closeOpt, NilStrm: true, Src: src, Content: Bs(content), PClos: true,
					Steps: scripts[1].steps})
				if src == "binmar" || src == "textmar" || c15MultiHasRet(src) {
					out = append(out, c15In{Kind: "produce", Codec: codec, CloseOpt: closeOpt, Closable: true, Src: src, Content: Bs(content), Ret: 7, Script: "direct/accepting"})
				}
			}
		}
	}
	// every library error value (c15LibErrs) as the fault of a read: before the first byte, inside, after the last byte; reported by a
	// call of its own or together with data; into the main destination kinds of both codecs, and as the fault of a payload reader and
	// of a Write of the producers
	for li := range c15LibErrs {
		e := c15LibBase + li
		for ki, k := range []int{0, 3, len(content)} {
			for di, dest := range []string{"ptr_string", "ptr_bytes", "textunm", "buffer", "writer", "binunm", "any_string", "ptr_named_string"} {
				if tier == "quick" && di >= 5 && (li+ki+di)%3 != 0 {
					continue
				}
				for ci, codec := range []string{"bytestream", "text"} {
					in := c15In{Kind: "consume", Codec: codec, Closable: true, Dest: dest, Script: "lib-error-at-offset"}
					if (li+ki+di+ci)%2 == 0 || k == 0 {
						in.Steps = append(c15OneByteSteps([]byte(content[:k])), c15Step{T: e}, c15Step{C: Bs(content[k:])})
					} else {
						in.Steps = []c15Step{{C: Bs(content[:k]), T: e}, {C: Bs(content[k:])}}
					}
					in.CloseOpt = codec == "bytestream" && (li+di)%4 == 0
					if (li+ki+di)%5 == 0 {
						in.Pre, in.WPre = "OLD", "OLD"
					}
					out = append(out, in)
				}
			}
			out = append(out, c15In{Kind: "produce", Codec: "bytestream", CloseOpt: ki == 1, Closable: true, Src: "reader", PClos: li%2 == 0,
				Steps: []c15Step{{C: Bs(content[:k]), T: e}, {C: Bs(content[k:])}}, Script: "lib-error-at-offset/accepting"})
		}
		for _, codec := range []string{"bytestream", "text"} {
			for _, src := range []string{"bytes", "string", "buffer", "reader"} {
				in := c15In{Kind: "produce", Codec: codec, Closable: true, Src: src, WSteps: []c15WStep{{A: 2, E: e}}, Script: "direct/lib-write-error"}
				if src == "reader" {
					in.Steps, in.Script = scripts[1].steps, "one-chunk/lib-write-error"
				} else {
					in.Content = Bs(content)
				}
				out = append(out, in)
			}
		}
	}
	for _, dest := range []string{"binunm", "textunm"} {
		for _, codec := range []string{"bytestream", "text"} {
			out = append(out, c15In{Kind: "consume", Codec: codec, Closable: true, Dest: dest, Ret: 5, Steps: scripts[1].steps, Script: "one-chunk"})
		}
	}
	out = append(out, c15In{Kind: "discard", Steps: scripts[1].steps, Content: "x"})
	for _, codec := range []string{"json", "xml", "yaml"} {
		for _, c := range []string{"", "a", "hello world", "<tag>&\"quoted\"</tag>", "line1\nline2", "\xff\x00binary\x01"} {
			out = append(out, c15In{Kind: "rt", Codec: codec, Shape: "doc", Content: Bs(c)})
		}
	}
	for _, c := range []string{"", "1", "12", "123456789"} {
		out = append(out, c15In{Kind: "rt", Codec: "json", Shape: "bignum", Content: Bs(c)})
		out = append(out, c15In{Kind: "rt", Codec: "json", Shape: "html", Content: Bs(c)})
		out = append(out, c15In{Kind: "rt", Codec: "json", Shape: "first", Content: Bs(c)})
	}
	// every slot of every codec against a fixed family of literals, in every source representation the codec carries
	lits := []string{"9007199254740993", "-9223372036854775808", "18446744073709551615", "123456789012345678901234567890",
		"0.1000000000000000055511151231257827", "1e400", "42"}
	for _, sd := range c15Slots {
		for _, codec := range []string{"json", "yaml", "xml"} {
			if !strings.Contains(sd.codecs, codec[:1]) {
				continue
			}
			for li, lit := range lits {
				if tier == "quick" && !sd.iface && li%2 == 1 {
					continue
				}
				srcs := map[string][]string{"json": {"number", "int", "string"}, "yaml": {"int", "float", "string"}, "xml": {"int"}}[codec]
				if !sd.iface {
					srcs = srcs[:1]
				}
				for _, ns := range srcs {
					_, e1 := strconv.ParseInt(lit, 10, 64)
					_, e2 := strconv.ParseUint(lit, 10, 64)
					if ns == "int" && e1 != nil && e2 != nil {
						continue
					}
					if ns == "string" && li > 1 {
						continue
					}
					out = append(out, c15In{Kind: "rt", Codec: codec, Shape: "slots", Slot: sd.name, Num: lit, NumSrc: ns})
				}
			}
		}
	}
	out = append(out, c15EnumNames()...)
	out = append(out, c15EnumHist()...)
	out = append(out, c15EnumTextVal()...)
	out = append(out, c15EnumLarge(tier)...)
	return out
}
