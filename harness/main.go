// Command harness runs the real go-openapi/runtime code on generated cases and writes
// them, with the projected observables, as Gallina terms for the in-Coq correspondence run.
//
//	harness <prop> -tier quick|thorough -seed N -n N -outdir D -shard K [-cases-in file.jsonl]
//
// Every property plugs in through the Prop interface (see c07.go for the smallest example).
package main

import (
	"bufio"
	"encoding/json"
	"flag"
	"fmt"
	"math/rand"
	"os"
	"path/filepath"
	"sort"
	"strings"
)

// Prop is what one property contributes to the harness.
type Prop interface {
	// ID is the property id, e.g. "C07".
	ID() string
	// CoqModule is the module (under logical root V) that defines `case` and `check_case`.
	CoqModule() string
	// Enumerate returns the exhaustively enumerated cases of this tier (may be nil).
	Enumerate(tier string) []any
	// Gen draws the i-th random case (a JSON-marshalable input value).
	Gen(r *rand.Rand, tier string, i int) any
	// Decode rebuilds an input from its JSON form (corpus, replay).
	Decode(raw json.RawMessage) (any, error)
	// Run executes the implementation on the input and returns the projected observable
	// (JSON-marshalable). It must recover panics itself and report them in the observable.
	Run(in any) any
	// Coq renders input+observable as a Gallina term of type `case`.
	Coq(in any, obs any) string
	// Classify returns the names of the known-finding classifiers that accept this exact case.
	Classify(in any, obs any) []string
	// Category labels the case for the distribution report; nontrivial says whether it
	// exercises the property beyond the trivial path (rule stated in Rule()).
	Category(in any, obs any) (cat string, nontrivial bool)
	// Rule states how cases are generated and what makes one non-trivial.
	Rule() string
}

var registry = map[string]Prop{}

func register(p Prop) { registry[strings.ToUpper(p.ID())] = p }

type record struct {
	I          int             `json:"i"`
	Source     string          `json:"source"` // corpus | enum | gen | replay
	In         json.RawMessage `json:"in"`
	Obs        json.RawMessage `json:"obs"`
	KF         []string        `json:"kf,omitempty"`
	Cat        string          `json:"cat"`
	Nontrivial bool            `json:"nontrivial"`
}

// safeCategory shields the run from a Category implementation that calls into the library under test:
// the library may panic there on a seeded change; the case itself has already been observed under recover.
func safeCategory(p Prop, in any, obs any) (cat string, nt bool) {
	defer func() {
		if r := recover(); r != nil {
			cat, nt = "category-panicked", true
		}
	}()
	return p.Category(in, obs)
}

func main() {
	if len(os.Args) < 2 {
		fmt.Fprintln(os.Stderr, "usage: harness <prop> [flags]")
		os.Exit(2)
	}
	p, ok := registry[strings.ToUpper(os.Args[1])]
	if !ok {
		fmt.Fprintf(os.Stderr, "unknown property %q\n", os.Args[1])
		os.Exit(2)
	}
	fs := flag.NewFlagSet("harness", flag.ExitOnError)
	tier := fs.String("tier", "quick", "quick|thorough")
	seed := fs.Int64("seed", 1, "PRNG seed")
	n := fs.Int("n", 1000, "number of generated cases")
	outdir := fs.String("outdir", ".", "output directory")
	shard := fs.Int("shard", 400, "cases per Coq file")
	casesIn := fs.String("cases-in", "", "jsonl of inputs to run first (corpus/replay); with -only, nothing else runs")
	only := fs.Bool("only", false, "run only the cases of -cases-in")
	_ = fs.Parse(os.Args[2:])

	if err := os.MkdirAll(*outdir, 0o755); err != nil {
		panic(err)
	}
	type item struct {
		src string
		in  any
	}
	var items []item
	if *casesIn != "" {
		f, err := os.Open(*casesIn)
		if err == nil {
			sc := bufio.NewScanner(f)
			sc.Buffer(make([]byte, 1<<20), 1<<28)
			for sc.Scan() {
				line := strings.TrimSpace(sc.Text())
				if line == "" || strings.HasPrefix(line, "#") {
					continue
				}
				// accept either a bare input or a record with an "in" field
				var probe struct {
					In json.RawMessage `json:"in"`
				}
				raw := json.RawMessage(line)
				if json.Unmarshal(raw, &probe) == nil && len(probe.In) > 0 {
					raw = probe.In
				}
				in, err := p.Decode(raw)
				if err != nil {
					fmt.Fprintf(os.Stderr, "bad case in %s: %v\n", *casesIn, err)
					os.Exit(2)
				}
				src := "corpus"
				if *only {
					src = "replay"
				}
				items = append(items, item{src, in})
			}
			f.Close()
		} else if *only {
			fmt.Fprintln(os.Stderr, err)
			os.Exit(2)
		}
	}
	if !*only {
		for _, in := range p.Enumerate(*tier) {
			items = append(items, item{"enum", in})
		}
		r := rand.New(rand.NewSource(*seed))
		for i := 0; i < *n; i++ {
			items = append(items, item{"gen", p.Gen(r, *tier, i)})
		}
	}

	jf, err := os.Create(filepath.Join(*outdir, "cases.jsonl"))
	if err != nil {
		panic(err)
	}
	jw := bufio.NewWriter(jf)
	cats := map[string]int{}
	srcs := map[string]int{}
	distinct := map[string]bool{}
	nontrivialDistinct := 0
	var coqTerms []string
	for i, it := range items {
		obs := p.Run(it.in)
		inJ, err := json.Marshal(it.in)
		if err != nil {
			panic(err)
		}
		obsJ, err := json.Marshal(obs)
		if err != nil {
			panic(err)
		}
		cat, nt := safeCategory(p, it.in, obs)
		cats[cat]++
		srcs[it.src]++
		key := string(inJ)
		if !distinct[key] {
			distinct[key] = true
			if nt {
				nontrivialDistinct++
			}
		}
		rec := record{I: i, Source: it.src, In: inJ, Obs: obsJ, KF: p.Classify(it.in, obs), Cat: cat, Nontrivial: nt}
		b, _ := json.Marshal(rec)
		jw.Write(b)
		jw.WriteByte('\n')
		coqTerms = append(coqTerms, p.Coq(it.in, obs))
	}
	jw.Flush()
	jf.Close()

	// Coq case files
	nfiles := 0
	for start := 0; start < len(coqTerms); start += *shard {
		end := start + *shard
		if end > len(coqTerms) {
			end = len(coqTerms)
		}
		var sb strings.Builder
		fmt.Fprintf(&sb, "From Coq Require Import Uint63.\nFrom V Require Import %s.\nLocal Open Scope nat_scope.\n", p.CoqModule())
		sb.WriteString("Definition cases : list (N * case) := [\n")
		for i := start; i < end; i++ {
			sep := ";"
			if i == end-1 {
				sep = ""
			}
			fmt.Fprintf(&sb, " (%d%%N, %s)%s\n", i, coqTerms[i], sep)
		}
		sb.WriteString("].\nDefinition R := Eval vm_compute in bad_cases check_case cases.\nPrint R.\n")
		name := filepath.Join(*outdir, fmt.Sprintf("cases_%04d.v", nfiles))
		if err := os.WriteFile(name, []byte(sb.String()), 0o644); err != nil {
			panic(err)
		}
		nfiles++
	}

	catKeys := make([]string, 0, len(cats))
	for k := range cats {
		catKeys = append(catKeys, k)
	}
	sort.Strings(catKeys)
	stats := map[string]any{
		"property":            p.ID(),
		"tier":                *tier,
		"seed":                *seed,
		"evaluations":         len(items),
		"distinct":            len(distinct),
		"distinct_nontrivial": nontrivialDistinct,
		"categories":          cats,
		"sources":             srcs,
		"files":               nfiles,
		"rule":                p.Rule(),
	}
	sb, _ := json.MarshalIndent(stats, "", " ")
	os.WriteFile(filepath.Join(*outdir, "stats.json"), sb, 0o644)
}
