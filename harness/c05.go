//go:build verif && (c05 || allprops)

package main

import (
	"encoding/json"
	"fmt"
	"hash/fnv"
	"math/rand"
	"net/http"
	"net/http/httptest"
	"net/url"
	"sort"
	"strings"

	"github.com/go-openapi/runtime/middleware/denco"
)

// C05 — trie router core (middleware/denco). Case kinds:
//   tab    one Build, the dumped arrays, several lookups
//   look   one Build and many lookups without the dumped arrays (trie model + property only; the
//          continuation chunks of a big path list whose first chunk is a tab case)
//   order  the same records built in two orders, the same lookups against both
//   mux    denco.Mux handler selection for (method, URL.Path)
//   const  a constant of the Go source the model mirrors

type c05In struct {
	Kind    string   `json:"kind"`
	Pats    []Bs     `json:"pats,omitempty"`    // record i has key Pats[i] and value i
	Perm    []int    `json:"perm,omitempty"`    // order: second build order (indices into Pats)
	Paths   []Bs     `json:"paths,omitempty"`   // looked-up paths
	Methods []Bs     `json:"methods,omitempty"` // mux: method of handler i; requests use ReqM
	ReqM    []Bs     `json:"reqm,omitempty"`
	Name    string   `json:"name,omitempty"` // const
	Model   int      `json:"model,omitempty"`
	Origin  []string `json:"origin,omitempty"`  // how each path was produced (distribution report only)
	Flavour string   `json:"flavour,omitempty"` // which generator made the table (distribution report only)
	// tab / look / order: the exported option Router.SizeHint as set by the caller before Build (nil: left at
	// the default -1, Build computes it). It is documented as a capacity hint only: the answers are those of
	// the model, which has no such parameter. order: the second router gets the hint, the first the default.
	Hint *int `json:"hint,omitempty"`
	// tab / look / order: the caller keeps ONE []Record (a route table held by the application) and gives it to
	// Build more than once: Reuse = the number of earlier Builds (each on a fresh Router, thrown away) the slice went
	// through before the Build(s) of the case. order with Reuse > 0: the first router is built from the slice, the
	// second from a permuted copy of the slice made AFTER the first Build (what a route-table rebuild or an
	// order-independence test does). Build is a function of the pattern set: the answers are those of the model.
	Reuse int `json:"reuse,omitempty"`
	// mux: request i as the client spelled it on the wire (request target, percent-escapes and all), parsed
	// the way net/http parses a request line (url.ParseRequestURI: URL.Path decoded, URL.RawPath set when the
	// spelling is not the canonical one). Empty or not decoding to Paths[i]: the request carries URL.Path only.
	Targets []Bs `json:"targets,omitempty"`
}

type c05Param struct {
	N Bs `json:"n"`
	V Bs `json:"v"`
}

type c05Ans struct {
	Found    bool       `json:"found"`
	Value    int        `json:"value"`
	Params   []c05Param `json:"params,omitempty"`
	Panicked bool       `json:"panicked,omitempty"`
	Panic    string     `json:"panic,omitempty"`
}

type c05Node struct {
	Value int  `json:"value"`
	Names []Bs `json:"names"`
}

type c05Obs struct {
	BuildErr   string    `json:"build_err,omitempty"`
	BuildPanic string    `json:"build_panic,omitempty"`
	BC         []uint32  `json:"bc,omitempty"`
	Nodes      []c05Node `json:"nodes,omitempty"`
	Ans        []c05Ans  `json:"ans,omitempty"`
	Ans2       []c05Ans  `json:"ans2,omitempty"`
	Go         int       `json:"go,omitempty"`
	ReqForm    []string  `json:"req_form,omitempty"` // mux: path | target | target+rawpath | target-rejected
}

type c05 struct{}

func init() { register(c05{}) }

func (c05) ID() string        { return "C05" }
func (c05) CoqModule() string { return "Check_C05" }
func (c05) Rule() string {
	return "tables from a segment grammar (static words, :name, *wild, RESTCONF word=:name; shared prefixes inside and across segments, " +
		"static+parameterised siblings, trailing slashes, 1-40 records, shapes pairwise distinct) each with ~14 paths: 70% instantiations of a " +
		"random record with texts over an alphabet that over-weights : * # = / % and NUL, 15% one-edit mutants, 15% arbitrary bytes; every table's " +
		"BASE/CHECK and node arrays dumped and run through repr_check; order cases rebuild the same records shuffled; mux cases go through denco.Mux (one handler per case; half of the paths are requested under every method in a random order and some again at the end: the answer must not depend on earlier requests); " +
		"enumerated: every byte 0..255 as a whole segment and inside a segment against a fixed table; adversarial tables outside the domain " +
		"(termination byte / NUL in a key, two keys of one shape, duplicate names). Scheduled by case index, under every seed: 1 case in 10 'verbs' = " +
		"tables with parameter-free keys that hold ':' or '*' inside a segment (/v1/op:list, /g/a*b; such words also occur in the general segment grammar), " +
		"next to keys continuing the same prefix with a real parameter, looked up with the key itself and its near misses around the byte (byte dropped, replaced, " +
		"doubled, key cut there, text written as if the byte were a placeholder); 1 case in 10 'tails' = 10-40 parameterised routes sharing prefixes " +
		"(half of them with the dumped arrays and repr_check, half lookups only), ~90 paths each: a complete pattern (instantiated or verbatim) + a reserved byte " +
		"(# NUL : *) + nothing / what is left of another instantiated pattern from some offset, and 'guided' paths read off the real array: whenever a cell carries " +
		"the CHECK of a reserved byte the path that reaches it and walks on over fitting cells to an end-of-key cell; 1 case in 10 'long' = 1-6 routes of 100-300 bytes with 3-8 placeholders after runs of " +
		"1-4 literal resource words, little shared prefix (the array has ~one cell per key byte, far more than 64 per record; half of them with the dumped arrays and repr_check, " +
		"at most 3 routes then), 120-440 paths each: two instantiations of every key, every proper prefix ending at a segment boundary (after a literal run, after a parameter value, " +
		"with and without the following '/'), proper prefixes cut anywhere else (all or a sample), instantiations continued by more text or by the tail of another instantiation, " +
		"head of one instantiation + tail of another at segment boundaries, and every byte string the real array accepts (breadth-first walk over fitting cells to the end-of-key cells). " +
		"Enumerated fixed tables of the three families. Sizes beyond 16 bits, lookups only (look cases, the table spelled once): generated case 0 = one 'big' table of ~1 200 records " +
		"(services /<n>-<word> with 1-4 routes of 50-120 bytes each: P/:id/w1/w2/:k2/..., a route sharing /:id/w1/, a literal sibling of :id that spells the first route for a while, P/:id) grown until the " +
		"real array uses more than 2^16 + 4 000 cells, ~250 paths: instantiations of routes whose parameter nodes lie beyond cell 2^16 (read off the real array) and of a few that lie below, the same " +
		"with the literal sibling's word as the value (the walk follows the sibling and has to come back), prefixes, extensions, crossovers; generated case 20 = 'longpath': a key with a literal run of more " +
		"than 2^16 bytes in front of a placeholder plus a literal sibling, and a parameter value of more than 2^16 bytes; thorough tier: one of each (table up to 2^17 cells) per 500 cases. " +
		"Option Router.SizeHint: one generated tab/look/order case in three (by case index) and 7 of the 8 chunks of each byte-enumeration table are built by a caller who set SizeHint before Build to " +
		"0, 1, one below / equal to / one above the real maximal placeholder count, far above, or -2 (order: only the second router; the answers must be those of the model, which has no such parameter). " +
		"Mux requests: 65% are spelled as a request target and parsed as net/http does (url.ParseRequestURI), 15% canonically (URL.RawPath empty), 50% with escapes of the client's own on any byte with probability 1/2..1/7 " +
		"('/' as %2F, letters, '-', '.', lower-case hex; URL.RawPath set), 8 more requests per case instantiate a key with values holding an escaped separator, '%', space, non-ASCII; one enumerated table asked for with every single byte of " +
		"an instantiation escaped in turn; expected answer = the model's for the decoded URL.Path. One parameter text in six (every generator family that draws texts) is a value with a STRUCTURE that path-handling code is tempted to refuse or clean: " +
		"dot segments and look-alikes (.. . ... ..x x.. .hidden %2e%2e ..; back slashes, ~user, null, file names), for a catch-all 1-4 such segments or plain words joined by '/', now and then with a leading, trailing or doubled '/'; " +
		"enumerated: a file-server-like table (/static/*filepath, /api/v1/files/*path, /:tenant/assets/*rest, /static/css/:name, /dl/:a/:b, /static, /) against every text of 1-3 segments over {.. . ... ..x a <empty>} behind every literal prefix, also through the Mux handler. " +
		"Records given to Build more than once: every other order case builds its second router from a permuted copy of the caller's []Record made after the first Build, one tab/look case in four and two chunks of each byte-enumeration table " +
		"are built from a slice that went through one or two earlier Builds of other routers (Build is a function of the pattern set; answers = the model's). 1 case in 20 'ambig' (+ enumerated full tables of 4, 5, 6 levels) = tables that are ambiguous " +
		"level after level: on each of 3-6 (1 in 5: 8-12, sparse) consecutive levels both a literal and a ':param' continue, the patterns are all or a subset of the 2^d words, told apart by a last segment of their own / by shared last segments / not at all; " +
		"paths: the literals on every level + each pattern's tail (exactly that pattern matches, after up to 2^d - 1 failed parameter branches), instantiations with the level's literal or another word as the value, paths nobody matches, prefixes. Non-trivial: a table with a parameterised key and at least one lookup that is found with parameters or contains a reserved byte."
}

func (c05) Decode(raw json.RawMessage) (any, error) {
	var in c05In
	err := json.Unmarshal(raw, &in)
	return in, err
}

// ---------- running the real code ----------

func c05Lookup(rt *denco.Router, path string) (a c05Ans) {
	p, msg := recoverTo(func() {
		data, params, found := rt.Lookup(path)
		a.Found = found
		if found {
			a.Value = data.(int)
			for _, pr := range params {
				a.Params = append(a.Params, c05Param{Bs(pr.Name), Bs(pr.Value)})
			}
		}
	})
	if p {
		a = c05Ans{Panicked: true, Panic: msg}
	}
	return a
}

func c05Records(keys []string, order []int) []denco.Record {
	recs := make([]denco.Record, 0, len(keys))
	for _, i := range order {
		recs = append(recs, denco.NewRecord(keys[i], i))
	}
	return recs
}

func c05BuildRecs(recs []denco.Record, hint *int) (rt *denco.Router, errText, panicText string) {
	rt = denco.New()
	if hint != nil {
		rt.SizeHint = *hint
	}
	p, msg := recoverTo(func() {
		if err := rt.Build(recs); err != nil {
			errText = err.Error()
		}
	})
	if p {
		panicText = msg
	}
	return rt, errText, panicText
}

// c05Rebuilt gives the caller's slice to n Builds of routers that are thrown away.
func c05Rebuilt(recs []denco.Record, n int) {
	for ; n > 0; n-- {
		c05BuildRecs(recs, nil)
	}
}

func c05Build(keys []string, order []int, hint ...*int) (rt *denco.Router, errText, panicText string) {
	var h *int
	if len(hint) > 0 {
		h = hint[0]
	}
	return c05BuildRecs(c05Records(keys, order), h)
}

// c05BuildCase: the Build of a tab / look case, on a slice that went through in.Reuse earlier Builds.
func c05BuildCase(keys []string, in c05In) (rt *denco.Router, errText, panicText string) {
	recs := c05Records(keys, c05Iota(len(keys)))
	c05Rebuilt(recs, in.Reuse)
	return c05BuildRecs(recs, in.Hint)
}

func c05Iota(n int) []int {
	o := make([]int, n)
	for i := range o {
		o[i] = i
	}
	return o
}

func (c05) Run(in0 any) any {
	in := in0.(c05In)
	var obs c05Obs
	keys := bsList(in.Pats)
	switch in.Kind {
	case "tab":
		rt, e, p := c05BuildCase(keys, in)
		obs.BuildErr, obs.BuildPanic = e, p
		if e != "" || p != "" {
			return obs
		}
		bc, data, names, present := denco.VerifDump(rt)
		obs.BC = bc
		for i := range data {
			nd := c05Node{Names: []Bs{}}
			if present[i] {
				nd.Value = data[i].(int)
				nd.Names = toBs(names[i])
			}
			obs.Nodes = append(obs.Nodes, nd)
		}
		for _, path := range in.Paths {
			obs.Ans = append(obs.Ans, c05Lookup(rt, string(path)))
		}
	case "look":
		rt, e, p := c05BuildCase(keys, in)
		obs.BuildErr, obs.BuildPanic = e, p
		if e != "" || p != "" {
			return obs
		}
		for _, path := range in.Paths {
			obs.Ans = append(obs.Ans, c05Lookup(rt, string(path)))
		}
	case "order":
		var rt1, rt2 *denco.Router
		var e1, p1, e2, p2 string
		if in.Reuse > 0 {
			// one slice held by the caller: earlier Builds, the first router, then a permuted copy for the second
			recs := c05Records(keys, c05Iota(len(keys)))
			c05Rebuilt(recs, in.Reuse-1)
			rt1, e1, p1 = c05BuildRecs(recs, nil)
			recs2 := make([]denco.Record, 0, len(recs))
			for _, i := range in.Perm {
				recs2 = append(recs2, recs[i])
			}
			rt2, e2, p2 = c05BuildRecs(recs2, in.Hint)
		} else {
			rt1, e1, p1 = c05Build(keys, c05Iota(len(keys)))
			rt2, e2, p2 = c05Build(keys, in.Perm, in.Hint)
		}
		obs.BuildErr, obs.BuildPanic = e1+e2, p1+p2
		if obs.BuildErr != "" || obs.BuildPanic != "" {
			return obs
		}
		for _, path := range in.Paths {
			obs.Ans = append(obs.Ans, c05Lookup(rt1, string(path)))
			obs.Ans2 = append(obs.Ans2, c05Lookup(rt2, string(path)))
		}
	case "mux":
		mux := denco.NewMux()
		var hs []denco.Handler
		ran := -1
		var got denco.Params
		for i := range keys {
			i := i
			hs = append(hs, mux.Handler(string(in.Methods[i]), keys[i], func(w http.ResponseWriter, r *http.Request, ps denco.Params) {
				ran, got = i, ps
			}))
		}
		var h http.Handler
		p, msg := recoverTo(func() {
			var err error
			h, err = mux.Build(hs)
			if err != nil {
				obs.BuildErr = err.Error()
			}
		})
		if p {
			obs.BuildPanic = msg
		}
		if obs.BuildErr != "" || obs.BuildPanic != "" {
			return obs
		}
		for i, path := range in.Paths {
			ran, got = -1, nil
			u, form := &url.URL{Path: string(path)}, "path"
			if i < len(in.Targets) && len(in.Targets[i]) > 0 {
				// the request line as net/http reads it; taken only when it decodes to the path of the case
				pu, err := url.ParseRequestURI(string(in.Targets[i]))
				switch {
				case err != nil || pu.Path != string(path) || pu.RawQuery != "" || pu.Host != "" || pu.Scheme != "":
					form = "target-rejected"
				case pu.RawPath != "":
					u, form = pu, "target+rawpath"
				default:
					u, form = pu, "target"
				}
			}
			obs.ReqForm = append(obs.ReqForm, form)
			req := &http.Request{Method: string(in.ReqM[i]), URL: u, Header: http.Header{}}
			if form != "path" && form != "target-rejected" {
				req.RequestURI = string(in.Targets[i]) // as the server fills it in
			}
			var a c05Ans
			p, msg := recoverTo(func() { h.ServeHTTP(httptest.NewRecorder(), req) })
			switch {
			case p:
				a = c05Ans{Panicked: true, Panic: msg}
			case ran >= 0:
				a.Found, a.Value = true, ran
				for _, pr := range got {
					a.Params = append(a.Params, c05Param{Bs(pr.Name), Bs(pr.Value)})
				}
			}
			obs.Ans = append(obs.Ans, a)
		}
	case "const":
		obs.Go = denco.VerifConstants()[in.Name]
	}
	return obs
}

// ---------- Gallina ----------

func c05CoqNat(n int) string {
	// a nat numeral is elaborated into n applications of S: a table of a thousand records numbered by
	// numerals costs more to type-check (14 s) than to evaluate; beyond a few dozen use the primitive literal
	if n < 32 {
		return coqNat(n)
	}
	return coqNatBig(n)
}

func c05CoqAns(a c05Ans) string {
	switch {
	case a.Panicked:
		return "OPanic"
	case !a.Found:
		return "ONot"
	}
	return fmt.Sprintf("(OFound %s %s)", c05CoqNat(a.Value), coqList(a.Params, func(p c05Param) string {
		return coqPair(coqBytes(string(p.N)), coqBytes(string(p.V)))
	}))
}

func c05CoqPats(keys []Bs, order []int) string {
	return coqList(order, func(i int) string { return coqPair(coqBytes(string(keys[i])), c05CoqNat(i)) })
}

func (c05) Coq(in0 any, obs0 any) string {
	in, obs := in0.(c05In), obs0.(c05Obs)
	failed := obs.BuildErr != "" || obs.BuildPanic != ""
	switch in.Kind {
	case "tab":
		var ls []string
		for i, p := range in.Paths {
			a := c05Ans{}
			if i < len(obs.Ans) {
				a = obs.Ans[i]
			}
			ls = append(ls, coqPair(coqBytes(string(p)), c05CoqAns(a)))
		}
		if failed {
			ls = nil
		}
		return fmt.Sprintf("CTab %s %s %s %s %s", c05CoqPats(in.Pats, c05Iota(len(in.Pats))), coqBool(failed),
			coqList(obs.BC, func(c uint32) string { return coqN(uint64(c)) }),
			coqList(obs.Nodes, func(n c05Node) string {
				return coqPair(c05CoqNat(n.Value), coqBytesList(bsList(n.Names)))
			}),
			coqList(ls, func(s string) string { return s }))
	case "look":
		var ls []string
		if !failed {
			for i, p := range in.Paths {
				ls = append(ls, coqPair(coqBytes(string(p)), c05CoqAns(obs.Ans[i])))
			}
		}
		return fmt.Sprintf("CLook %s %s %s", c05CoqPats(in.Pats, c05Iota(len(in.Pats))), coqBool(failed),
			coqList(ls, func(s string) string { return s }))
	case "order":
		var ls []string
		if !failed {
			for i, p := range in.Paths {
				ls = append(ls, coqPair(coqBytes(string(p)), coqPair(c05CoqAns(obs.Ans[i]), c05CoqAns(obs.Ans2[i]))))
			}
		}
		return fmt.Sprintf("COrder %s %s %s", c05CoqPats(in.Pats, c05Iota(len(in.Pats))), c05CoqPats(in.Pats, in.Perm),
			coqList(ls, func(s string) string { return s }))
	case "mux":
		var hs, ls []string
		for i, k := range in.Pats {
			hs = append(hs, coqPair(coqBytes(string(in.Methods[i])), coqPair(coqBytes(string(k)), c05CoqNat(i))))
		}
		if !failed {
			for i, p := range in.Paths {
				ls = append(ls, coqPair(coqBytes(string(in.ReqM[i])), coqPair(coqBytes(string(p)), c05CoqAns(obs.Ans[i]))))
			}
		}
		return fmt.Sprintf("CMux %s %s", coqList(hs, func(s string) string { return s }), coqList(ls, func(s string) string { return s }))
	}
	return fmt.Sprintf("CConst %d %d", in.Model, obs.Go)
}

// ---------- shapes (only to keep generated tables inside / outside the domain on purpose) ----------

func c05IsParamKey(k string) bool {
	return strings.Contains(k, "/:") || strings.Contains(k, "/*") || strings.Contains(k, "=:")
}

// c05Shape erases the names of a key: 'l'+byte for literals, 'P', 'W'.
func c05Shape(k string) (shape string, names []string) {
	if !c05IsParamKey(k) {
		var sb strings.Builder
		for i := 0; i < len(k); i++ {
			sb.WriteByte('l')
			sb.WriteByte(k[i])
		}
		return sb.String(), nil
	}
	var sb strings.Builder
	for i := 0; i < len(k); {
		switch k[i] {
		case ':':
			j := i + 1
			for j < len(k) && k[j] != '/' {
				j++
			}
			names = append(names, k[i+1:j])
			sb.WriteByte('P')
			i = j
		case '*':
			names = append(names, k[i+1:])
			sb.WriteByte('W')
			i = len(k)
		default:
			sb.WriteByte('l')
			sb.WriteByte(k[i])
			i++
		}
	}
	return sb.String(), names
}

func c05KeyInDomain(k string) bool {
	if !c05IsParamKey(k) {
		return true
	}
	if strings.ContainsAny(k, "#\x00") {
		return false
	}
	_, names := c05Shape(k)
	seen := map[string]bool{}
	for _, n := range names {
		if seen[n] {
			return false
		}
		seen[n] = true
	}
	return true
}

func c05TableInDomain(keys []string) bool {
	seen := map[string]bool{}
	for _, k := range keys {
		if !c05KeyInDomain(k) {
			return false
		}
		s, _ := c05Shape(k)
		if seen[s] {
			return false
		}
		seen[s] = true
	}
	return true
}

// ---------- generators ----------

var c05Words = []string{"a", "b", "ab", "ba", "c", "abc", "users", "v1", "x", "a.b", "a-b", "%41", "a=b", "é"}
var c05Names = []string{"x", "y", "z", "id", "name", "w", "q"}
var c05Alphabet = []byte("ab/:*#=c%\x00ab//::**##")
var c05TextAlphabet = []byte("abcxyz019:*#=%\x00.-_~;,\xc3\xa9 ")

func c05Segment(r *rand.Rand, last bool, used map[string]bool) string {
	name := func() string {
		for tries := 0; tries < 20; tries++ {
			n := c05Names[r.Intn(len(c05Names))]
			if !used[n] {
				used[n] = true
				return n
			}
		}
		n := fmt.Sprintf("p%d", len(used))
		used[n] = true
		return n
	}
	switch k := r.Intn(20); {
	case k < 10:
		return c05Words[r.Intn(6)]
	case k < 11:
		return c05Words[r.Intn(len(c05Words))]
	case k < 12:
		if r.Intn(2) == 0 {
			return c05VerbWords[r.Intn(len(c05VerbWords))] // ':' or '*' in mid-segment
		}
		return c05Words[r.Intn(len(c05Words))]
	case k < 17:
		return ":" + name()
	case k < 18:
		if last {
			return "*" + name()
		}
		return c05Words[r.Intn(4)]
	default:
		return c05Words[r.Intn(4)] + "=:" + name()
	}
}

func c05Key(r *rand.Rand, existing []string) string {
	var sb strings.Builder
	used := map[string]bool{}
	n := 1 + r.Intn(4)
	// shared prefix with an existing key: copy some of its leading segments
	if len(existing) > 0 && r.Intn(3) > 0 {
		src := existing[r.Intn(len(existing))]
		segs := strings.Split(strings.TrimPrefix(src, "/"), "/")
		keep := r.Intn(len(segs) + 1)
		for _, s := range segs[:keep] {
			if strings.HasPrefix(s, "*") || s == "" {
				break
			}
			if strings.Contains(s, ":") {
				nm := s[strings.Index(s, ":")+1:]
				if r.Intn(2) == 0 { // same shape prefix under another name
					alt := c05Names[r.Intn(len(c05Names))]
					s = s[:strings.Index(s, ":")+1] + alt
					nm = alt
				}
				if used[nm] {
					break
				}
				used[nm] = true
			}
			sb.WriteByte('/')
			sb.WriteString(s)
		}
		// shared prefix inside a segment
		if r.Intn(4) == 0 {
			sb.WriteByte('/')
			sb.WriteString(c05Words[r.Intn(3)] + c05Words[r.Intn(3)])
		}
	}
	for i := 0; i < n; i++ {
		sb.WriteByte('/')
		sb.WriteString(c05Segment(r, i == n-1, used))
	}
	k := sb.String()
	if !strings.Contains(k, "*") && r.Intn(6) == 0 {
		k += "/"
	}
	return k
}

func c05Table(r *rand.Rand, size int) []string {
	seen := map[string]bool{}
	var keys []string
	for tries := 0; len(keys) < size && tries < size*6; tries++ {
		k := c05Key(r, keys)
		s, _ := c05Shape(k)
		if seen[s] || !c05KeyInDomain(k) {
			continue
		}
		seen[s] = true
		keys = append(keys, k)
	}
	if len(keys) == 0 {
		keys = []string{"/a/:x"}
	}
	return keys
}

// c05ShapedSegs: parameter values with a STRUCTURE that code handling paths is tempted to treat specially (refuse,
// clean, normalise): dot segments and their look-alikes, hidden files and file names, escaped dots, home
// directories, back slashes, words a decoder reads as no value. To the router they are plain text: a segment
// made of dots binds to ':name' like any other, and a catch-all carries every one of them through unchanged.
var c05ShapedSegs = []string{"..", ".", "...", "....", "..x", "x..", ".x", "x.", ".hidden", "a.b", "main.css", "v1.2.3", "a.tar.gz",
	"%2e%2e", "%2E%2E", "..;", "..%2f", "..\\x", "\\", "~", "~user", "-", "_", "+", "@", "null", "undefined", "index.html", "a b", "..", ".."}
var c05PlainSegs = []string{"a", "b", "css", "img", "x1", "secret", "etc", "main.css"}

// c05Shaped: one such segment for a ':name' value; for a catch-all 1-4 segments (shaped or plain words), now and
// then with a leading, trailing or doubled separator.
func c05Shaped(r *rand.Rand, slashOK bool) string {
	if !slashOK {
		return c05ShapedSegs[r.Intn(len(c05ShapedSegs))]
	}
	n := 1 + r.Intn(4)
	segs := make([]string, n)
	for i := range segs {
		if r.Intn(2) == 0 {
			segs[i] = c05ShapedSegs[r.Intn(len(c05ShapedSegs))]
		} else {
			segs[i] = c05PlainSegs[r.Intn(len(c05PlainSegs))]
		}
	}
	sep := "/"
	if r.Intn(10) == 0 {
		sep = "//"
	}
	t := strings.Join(segs, sep)
	if r.Intn(8) == 0 {
		t = "/" + t
	}
	if r.Intn(6) == 0 {
		t += "/"
	}
	return t
}

func c05Text(r *rand.Rand, slashOK bool) string {
	if r.Intn(6) == 0 {
		return c05Shaped(r, slashOK)
	}
	n := 0
	switch k := r.Intn(10); {
	case k < 1:
		n = 0
	case k < 6:
		n = 1 + r.Intn(2)
	default:
		n = 1 + r.Intn(6)
	}
	b := make([]byte, n)
	for i := range b {
		if r.Intn(3) == 0 {
			b[i] = c05Alphabet[r.Intn(len(c05Alphabet))]
		} else {
			b[i] = c05TextAlphabet[r.Intn(len(c05TextAlphabet))]
		}
		if b[i] == '/' && !slashOK {
			b[i] = 'a'
		}
	}
	return string(b)
}

// c05Hostile is a text that starts with a reserved byte and goes on with a fragment of some key of the
// table: if lookup wrongly follows a special edge, the following bytes have a chance to keep walking.
func c05Hostile(r *rand.Rand, slashOK bool, keys []string) string {
	k := keys[r.Intn(len(keys))]
	a := r.Intn(len(k))
	b := a + 1 + r.Intn(len(k)-a)
	frag := k[a:b]
	if !slashOK {
		frag = strings.ReplaceAll(frag, "/", "")
	}
	return string([]byte{":*#\x00"[r.Intn(4)]}) + frag
}

func c05InstantiateK(r *rand.Rand, key string, keys []string) string {
	if !c05IsParamKey(key) {
		return key
	}
	var sb strings.Builder
	for i := 0; i < len(key); {
		switch key[i] {
		case ':':
			for i < len(key) && key[i] != '/' {
				i++
			}
			if r.Intn(6) == 0 {
				sb.WriteString(c05Hostile(r, false, keys))
			} else {
				sb.WriteString(c05Text(r, false))
			}
		case '*':
			if r.Intn(3) == 0 {
				sb.WriteString(c05Hostile(r, true, keys))
			} else {
				sb.WriteString(c05Text(r, true))
			}
			i = len(key)
		default:
			sb.WriteByte(key[i])
			i++
		}
	}
	return sb.String()
}

func c05Instantiate(r *rand.Rand, key string) string {
	if !c05IsParamKey(key) {
		return key
	}
	var sb strings.Builder
	for i := 0; i < len(key); {
		switch key[i] {
		case ':':
			for i < len(key) && key[i] != '/' {
				i++
			}
			sb.WriteString(c05Text(r, false))
		case '*':
			sb.WriteString(c05Text(r, true))
			i = len(key)
		default:
			sb.WriteByte(key[i])
			i++
		}
	}
	return sb.String()
}

func c05Mutate(r *rand.Rand, p string) string {
	b := []byte(p)
	c := c05Alphabet[r.Intn(len(c05Alphabet))]
	switch r.Intn(3) {
	case 0:
		if len(b) > 0 {
			b[r.Intn(len(b))] = c
		}
	case 1:
		i := r.Intn(len(b) + 1)
		b = append(b[:i], append([]byte{c}, b[i:]...)...)
	default:
		if len(b) > 0 {
			i := r.Intn(len(b))
			b = append(b[:i], b[i+1:]...)
		}
	}
	return string(b)
}

func c05Arbitrary(r *rand.Rand) string {
	n := 1 + r.Intn(9)
	b := make([]byte, 0, n+1)
	if r.Intn(8) > 0 {
		b = append(b, '/')
	}
	for i := 0; i < n; i++ {
		if r.Intn(10) == 0 {
			b = append(b, byte(r.Intn(256)))
		} else {
			b = append(b, c05Alphabet[r.Intn(len(c05Alphabet))])
		}
	}
	return string(b)
}

func c05Paths(r *rand.Rand, keys []string, n int) (paths []Bs, origin []string) {
	for i := 0; i < n; i++ {
		var p, o string
		switch k := r.Intn(20); {
		case k < 14:
			key := keys[r.Intn(len(keys))]
			if !c05IsParamKey(key) && strings.ContainsAny(key, ":*") && r.Intn(2) == 0 {
				nm := c05NearMisses(r, key)
				p, o = nm[r.Intn(len(nm))], "nearmiss"
			} else {
				p, o = c05InstantiateK(r, key, keys), "inst"
			}
		case k < 17:
			p, o = c05Mutate(r, c05Instantiate(r, keys[r.Intn(len(keys))])), "mutant"
		default:
			p, o = c05Arbitrary(r), "arbitrary"
		}
		paths = append(paths, Bs(p))
		origin = append(origin, o)
	}
	return
}

func c05Size(r *rand.Rand, tier string) int {
	switch k := r.Intn(20); {
	case k < 12:
		return 1 + r.Intn(8)
	case k < 18:
		return 8 + r.Intn(13)
	default:
		if tier == "thorough" && r.Intn(10) == 0 {
			return 100 + r.Intn(100)
		}
		return 20 + r.Intn(21)
	}
}

var c05Adversarial = [][]string{
	{"/a/:x#y", "/b"},               // termination byte inside a parameterised key
	{"/a#b/:x"},                     // termination byte in a literal part
	{"/a/\x00b/:x", "/a/:y"},        // NUL in a parameterised key
	{"/a/*w", "/a/*v"},              // two wildcard keys of one shape
	{"/a/:x/b", "/a/:y/b"},          // two parameter keys of one shape
	{"/a/:x/:x"},                    // duplicate names: Build reports an error
	{"/:x/*w", "/:y/*w", "/a/:y/b"}, // shapes collide after the names are stripped
}

// ---------- reserved bytes inside a literal segment (keys such as /v1/operations:list, /v1/glob/a*b) ----------

// Words holding ':' or '*' that neither open a segment nor follow '='. In a key without "/:", "/*", "=:"
// they are plain text (the key is static); inside a parameterised key Build turns the byte into a
// placeholder, and so do tok / c05Shape.
var c05VerbWords = []string{"op:list", "a:b", "a*b", "ab:", "x*", "v1:x", "a:b:c", "a*:b", "\xc3\xa9:z", "users:get", "ab*c"}

func c05StaticSeg(r *rand.Rand) string { return c05Words[r.Intn(6)] }

// c05VerbKeys returns a static key with a reserved byte in mid-segment plus relatives of it: the same
// prefix continued by a real parameter, and (sometimes) a parameterised key that contains the word.
func c05VerbKeys(r *rand.Rand) []string {
	var pre strings.Builder
	for n := r.Intn(3); n > 0; n-- {
		pre.WriteByte('/')
		pre.WriteString(c05StaticSeg(r))
	}
	w := c05VerbWords[r.Intn(len(c05VerbWords))]
	cut := strings.IndexAny(w, ":*")
	key := pre.String() + "/" + w
	for n := r.Intn(3); n > 0; n-- {
		key += "/" + c05StaticSeg(r)
		if r.Intn(4) == 0 {
			key += string([]byte{":*"[r.Intn(2)]}) + "z" // still no "/:" "/*" "=:"
		}
	}
	out := []string{key}
	name := c05Names[r.Intn(len(c05Names))]
	switch r.Intn(6) {
	case 0, 1, 2:
		k := pre.String() + "/" + w[:cut] + "/:" + name
		if r.Intn(2) == 0 {
			k += "/" + c05StaticSeg(r)
		}
		out = append(out, k)
	case 3:
		out = append(out, pre.String()+"/"+w[:cut]+"/*"+name)
	case 4:
		out = append(out, pre.String()+"/"+w+"/:"+name) // here the word's ':' or '*' IS a placeholder
	}
	if r.Intn(3) == 0 {
		out = append(out, pre.String()+"/"+w[:cut]) // the literal part alone
	}
	return out
}

func c05VerbTable(r *rand.Rand, size int) []string {
	seen := map[string]bool{}
	var keys []string
	add := func(k string) {
		s, _ := c05Shape(k)
		if seen[s] || !c05KeyInDomain(k) {
			return
		}
		seen[s] = true
		keys = append(keys, k)
	}
	for tries := 0; len(keys) < size && tries < size*6; tries++ {
		if r.Intn(5) < 2 {
			for _, k := range c05VerbKeys(r) {
				add(k)
			}
		} else {
			add(c05Key(r, keys))
		}
	}
	return keys
}

// c05InstAsIf writes a text for EVERY ':' and '*' of the key, whether or not the key is parameterised:
// for a static key with a reserved byte in mid-segment these are the near misses that match once the
// byte is (wrongly) taken for a placeholder.
func c05InstAsIf(r *rand.Rand, key string) string {
	var sb strings.Builder
	for i := 0; i < len(key); {
		switch key[i] {
		case ':':
			for i < len(key) && key[i] != '/' {
				i++
			}
			sb.WriteString(c05Benign[r.Intn(len(c05Benign))])
		case '*':
			sb.WriteString([]string{"a/b/c", "bc", "/", "x"}[r.Intn(4)])
			i = len(key)
		default:
			sb.WriteByte(key[i])
			i++
		}
	}
	return sb.String()
}

// c05NearMisses: the key itself and its neighbours around every ':' / '*' it holds.
func c05NearMisses(r *rand.Rand, key string) []string {
	out := []string{key, c05InstAsIf(r, key), c05InstAsIf(r, key), key + "/x", key + "x"}
	for i := 0; i < len(key); i++ {
		if key[i] != ':' && key[i] != '*' {
			continue
		}
		out = append(out, key[:i], key[:i+1], key[:i]+key[i+1:], key[:i]+"x"+key[i+1:], key[:i]+"/"+key[i+1:],
			key[:i+1]+string(key[i])+key[i+1:], key[:i+1]+"x", key[:i]+"XYZ", key[:i]+"/a/b")
	}
	return out
}

func c05VerbPaths(r *rand.Rand, keys []string, limit int) (paths []Bs, origin []string) {
	var cand []string
	for _, k := range keys {
		if strings.ContainsAny(k, ":*") {
			cand = append(cand, c05NearMisses(r, k)...)
		}
	}
	r.Shuffle(len(cand), func(i, j int) { cand[i], cand[j] = cand[j], cand[i] })
	seen := map[string]bool{}
	for _, p := range cand {
		if len(paths) >= limit {
			break
		}
		if !seen[p] {
			seen[p] = true
			paths = append(paths, Bs(p))
			origin = append(origin, "nearmiss")
		}
	}
	return
}

// ---------- reserved byte right after a complete pattern, on tables of 10-40 parameterised routes ----------

var c05Res = []string{"users", "orgs", "repos", "teams", "gists", "issues", "pulls", "keys", "members", "followers",
	"comments", "star", "v1", "items", "tags", "a", "ab"}
var c05Benign = []string{"bob", "7", "o", "r1", "acme", "12", "x-y", "a.b", "\xc3\xa9", "u"}

func c05ApiKey(r *rand.Rand, existing []string) string {
	var sb strings.Builder
	used := map[string]bool{}
	if len(existing) > 0 && r.Intn(4) > 0 {
		src := existing[r.Intn(len(existing))]
		segs := strings.Split(strings.TrimPrefix(src, "/"), "/")
		for _, s := range segs[:r.Intn(len(segs)+1)] {
			if strings.HasPrefix(s, "*") || s == "" {
				break
			}
			if i := strings.Index(s, ":"); i >= 0 {
				used[s[i+1:]] = true
			}
			sb.WriteByte('/')
			sb.WriteString(s)
		}
	}
	name := func() string {
		for _, n := range append(c05Names, "user", "org", "owner", "repo", "number") {
			if !used[n] && r.Intn(3) == 0 {
				used[n] = true
				return n
			}
		}
		n := fmt.Sprintf("p%d", len(used))
		used[n] = true
		return n
	}
	n := 1 + r.Intn(3)
	for i := 0; i < n; i++ {
		sb.WriteByte('/')
		switch k := r.Intn(20); {
		case k < 11:
			sb.WriteString(c05Res[r.Intn(len(c05Res))])
		case k < 18:
			sb.WriteString(":" + name())
		case k < 19:
			sb.WriteString(c05Res[r.Intn(len(c05Res))] + "=:" + name())
		default:
			if i == n-1 {
				sb.WriteString("*" + name())
			} else {
				sb.WriteString(c05Res[r.Intn(len(c05Res))])
			}
		}
	}
	k := sb.String()
	if !c05IsParamKey(k) && r.Intn(8) > 0 {
		k += "/:" + name()
		if r.Intn(2) == 0 {
			k += "/" + c05Res[r.Intn(len(c05Res))]
		}
	}
	return k
}

func c05ApiTable(r *rand.Rand, size int) []string {
	seen := map[string]bool{}
	var keys []string
	for tries := 0; len(keys) < size && tries < size*8; tries++ {
		k := c05ApiKey(r, keys)
		s, _ := c05Shape(k)
		if seen[s] || !c05KeyInDomain(k) {
			continue
		}
		seen[s] = true
		keys = append(keys, k)
	}
	return keys
}

// c05BenignInst instantiates a key with short harmless texts (the hostile texts are the business of the
// other generators): the path is found, through the full literal text of the pattern.
func c05BenignInst(r *rand.Rand, key string) string {
	if !c05IsParamKey(key) {
		return key
	}
	return c05InstAsIf(r, key)
}

// c05TailOf: what is left of an instantiated key from some offset on.
func c05TailOf(r *rand.Rand, keys []string) string {
	p := c05BenignInst(r, keys[r.Intn(len(keys))])
	if r.Intn(2) == 0 {
		var cuts []int
		for i := 0; i < len(p); i++ {
			if p[i] == '/' {
				cuts = append(cuts, i, i+1)
			}
		}
		if len(cuts) > 0 {
			return p[cuts[r.Intn(len(cuts))]:]
		}
	}
	return p[r.Intn(len(p)):]
}

func c05ReservedByte(r *rand.Rand) byte {
	switch k := r.Intn(20); {
	case k < 12:
		return '#'
	case k < 15:
		return 0
	case k < 17:
		return ':'
	case k < 19:
		return '*'
	}
	return "/=a"[r.Intn(3)]
}

// c05BlindTail: a complete pattern (instantiated, or its literal text), a reserved byte, more text.
func c05BlindTail(r *rand.Rand, keys []string) string {
	k := keys[r.Intn(len(keys))]
	p := c05BenignInst(r, k)
	if r.Intn(6) == 0 {
		p = k
	}
	tail := ""
	switch t := r.Intn(20); {
	case t < 4:
	case t < 17:
		tail = c05TailOf(r, keys)
	default:
		tail = c05Text(r, true)
	}
	return p + string([]byte{c05ReservedByte(r)}) + tail
}

// The real array of the table, read through the hook, steers a second family of paths: wherever a cell
// carries the CHECK of a reserved byte ('#' end-of-key cells, ':' and '*' cells, unused cells with CHECK 0)
// a lookup that followed that byte as an edge would go on from the cell's BASE. c05Guided spells the paths
// that reach such a cell and then keep walking over cells that happen to fit, towards an end-of-key cell.
// Only the choice of inputs uses the array; what the answers must be is decided by the model and the spec.
type c05Arr []uint32

func (a c05Arr) edge(idx int, c byte) (int, bool) {
	if idx < 0 || idx >= len(a) {
		return 0, false
	}
	j := int(a[idx]>>10) ^ int(c)
	if j < len(a) && byte(a[j]) == c {
		return j, true
	}
	return 0, false
}

// astray walks from cell j as if it were a node; it returns the byte strings after which an end-of-key
// cell is in reach, and the longest string walked.
func (a c05Arr) astray(r *rand.Rand, j int) []string {
	var out []string
	cur, text := j, ""
	for step := 0; step < 48; step++ {
		if _, ok := a.edge(cur, '#'); ok {
			out = append(out, text)
		}
		var cs []int
		for c := 1; c < 256; c++ {
			if c == '#' || c == '*' {
				continue
			}
			if _, ok := a.edge(cur, byte(c)); ok {
				cs = append(cs, c)
			}
		}
		if len(cs) == 0 {
			break
		}
		c := byte(cs[r.Intn(len(cs))])
		cur, _ = a.edge(cur, c)
		if c == ':' {
			text += c05Benign[r.Intn(len(c05Benign))]
		} else {
			text += string([]byte{c})
		}
	}
	if text != "" && (len(out) == 0 || out[len(out)-1] != text) {
		out = append(out, text)
	}
	return out
}

func c05Guided(r *rand.Rand, bc []uint32, limit int) []string {
	a := c05Arr(bc)
	hits := map[byte][]string{}
	var plain []string
	visited := 0
	var dfs func(idx int, prefix string, depth int)
	dfs = func(idx int, prefix string, depth int) {
		if depth > 96 || visited > 6000 {
			return
		}
		visited++
		for _, rb := range []byte{'#', 0, ':', '*'} {
			j, ok := a.edge(idx, rb)
			if !ok {
				continue
			}
			conts := a.astray(r, j)
			for _, ct := range conts {
				hits[rb] = append(hits[rb], prefix+string([]byte{rb})+ct)
			}
			if len(conts) == 0 && rb == '#' {
				plain = append(plain, prefix+"#")
			}
		}
		for c := 1; c < 256; c++ {
			j, ok := a.edge(idx, byte(c))
			if !ok || c == '#' || c == '*' {
				continue
			}
			if c == ':' {
				dfs(j, prefix+c05Benign[r.Intn(len(c05Benign))], depth+1)
			} else {
				dfs(j, prefix+string([]byte{byte(c)}), depth+1)
			}
		}
	}
	if len(a) > 1 {
		dfs(1, "", 0)
	}
	// half of the budget to the end-of-key byte, the rest shared by NUL, ':' and '*'; unused shares move on
	var out []string
	share := map[byte]int{'#': limit / 2, 0: limit / 6, ':': limit / 6, '*': limit / 6}
	left := 0
	for _, rb := range []byte{0, ':', '*', '#'} {
		h := hits[rb]
		r.Shuffle(len(h), func(i, j int) { h[i], h[j] = h[j], h[i] })
		n := share[rb] + left
		if len(h) < n {
			left = n - len(h)
			n = len(h)
		} else {
			left = 0
		}
		out = append(out, h[:n]...)
	}
	r.Shuffle(len(plain), func(i, j int) { plain[i], plain[j] = plain[j], plain[i] })
	if len(plain) > 4 {
		plain = plain[:4]
	}
	return append(out, plain...)
}

func c05DumpBC(keys []string) []uint32 {
	rt, e, p := c05Build(keys, c05Iota(len(keys)))
	if e != "" || p != "" {
		return nil
	}
	bc, _, _, _ := denco.VerifDump(rt)
	return bc
}

func c05TailPaths(r *rand.Rand, keys []string, nPlain, nBlind, nGuided int) (paths []Bs, origin []string) {
	seen := map[string]bool{}
	add := func(p, o string) {
		if !seen[p] {
			seen[p] = true
			paths = append(paths, Bs(p))
			origin = append(origin, o)
		}
	}
	for i := 0; i < nPlain; i++ {
		add(c05BenignInst(r, keys[r.Intn(len(keys))]), "inst")
	}
	for i := 0; i < nBlind; i++ {
		add(c05BlindTail(r, keys), "tail")
	}
	if nGuided > 0 {
		for _, p := range c05Guided(r, c05DumpBC(keys), nGuided) {
			add(p, "guided")
		}
	}
	return
}

func c05GenVerbs(r *rand.Rand) c05In {
	keys := c05VerbTable(r, 3+r.Intn(10))
	paths, origin := c05VerbPaths(r, keys, 30)
	p2, o2 := c05Paths(r, keys, 6)
	return c05In{Kind: "tab", Pats: toBs(keys), Paths: append(paths, p2...), Origin: append(origin, o2...), Flavour: "verbs"}
}

func c05GenTails(r *rand.Rand, withArrays bool) c05In {
	keys := c05ApiTable(r, 10+r.Intn(31))
	for n := r.Intn(3); n > 0; n-- {
		k := "/" + c05Res[r.Intn(len(c05Res))] + "/" + c05Res[r.Intn(len(c05Res))]
		if c05TableInDomain(append(append([]string{}, keys...), k)) {
			keys = append(keys, k)
		}
	}
	paths, origin := c05TailPaths(r, keys, 5, 45, 40)
	kind := "look"
	if withArrays {
		kind = "tab"
	}
	return c05In{Kind: kind, Pats: toBs(keys), Paths: paths, Origin: origin, Flavour: "tails"}
}

// ---------- few, long, deeply nested routes (the array grows far beyond the number of records) ----------

// Resource words of REST-style paths: long literal runs, many distinct bytes, little sharing.
var c05LongRes = []string{"snapshots", "views", "backups", "locations", "schemas", "projects", "clusters", "subscriptions",
	"revisions", "operations", "instances", "organizations", "serviceAccounts", "notification-channels", "billing_accounts",
	"deployments", "environments", "workspaces", "repositories", "pull-requests", "attachments", "permissions", "role.bindings",
	"tenants", "datasets", "tables", "partitions", "node-pools", "firewall_rules", "certificates", "zones", "records", "members",
	"invitations", "audit-logs", "exports", "%7Eusers", "global", "regions", "keyRings", "cryptoKeys", "versions", "Jobs", "x1", "a"}
var c05LongHeads = []string{"v1", "v2", "v1beta1", "api", "api/v3", "rest", "admin", "internal/v1alpha"}
var c05LongVals = []string{"22", "48", "7", "81", "us-east1", "3f2a9c", "prod", "my-cluster", "a.b", "u", "x_y", "0", "\xc3\xa9",
	"2024-01-01", "ABC", "%41", "00000000-0000-4000-8000-000000000001", "k"}

// c05LongKey: 100-300 bytes, 3-8 placeholders, each after a run of one or more literal segments.
func c05LongKey(r *rand.Rand, existing []string) string {
	for tries := 0; ; tries++ {
		nPar := 3 + r.Intn(6)
		target := 100 + r.Intn(201)
		var sb strings.Builder
		used := map[string]bool{}
		name := func(w string) string {
			n := strings.TrimSuffix(strings.Map(func(c rune) rune {
				if c == '%' || c == '.' || c == '-' {
					return '_'
				}
				return c
			}, w), "s")
			if r.Intn(4) == 0 {
				n += []string{"_id", "Id", "Name"}[r.Intn(3)]
			}
			for used[n] {
				n += fmt.Sprintf("%d", len(used))
			}
			used[n] = true
			return n
		}
		// little shared prefix: one key in three starts with the first one or two literal segments of another
		if len(existing) > 0 && r.Intn(3) == 0 {
			segs := strings.Split(strings.TrimPrefix(existing[r.Intn(len(existing))], "/"), "/")
			for _, s := range segs[:1+r.Intn(2)] {
				if strings.ContainsAny(s, ":*") {
					break
				}
				sb.WriteString("/" + s)
			}
		}
		if sb.Len() == 0 {
			sb.WriteString("/" + c05LongHeads[r.Intn(len(c05LongHeads))])
		}
		per := target / nPar
		for p := 0; p < nPar; p++ {
			start, w := sb.Len(), ""
			for n := 0; n == 0 || (sb.Len()-start < per-16 && n < 4); n++ {
				w = c05LongRes[r.Intn(len(c05LongRes))]
				sb.WriteString("/" + w)
			}
			if r.Intn(14) == 0 {
				sb.WriteString("=:" + name(w)) // RESTCONF form
			} else {
				sb.WriteString("/:" + name(w))
			}
		}
		switch k := r.Intn(10); {
		case k < 5:
			sb.WriteString("/" + c05LongRes[r.Intn(len(c05LongRes))])
			if k == 0 {
				sb.WriteString("/" + c05LongRes[r.Intn(len(c05LongRes))])
			}
		case k < 6:
			sb.WriteString("/*" + name("rests"))
		case k < 7:
			sb.WriteString("/")
		}
		k := sb.String()
		if (len(k) >= 100 && len(k) <= 300 && c05KeyInDomain(k)) || tries > 50 {
			return k
		}
	}
}

func c05LongTable(r *rand.Rand, size int) []string {
	seen := map[string]bool{}
	var keys []string
	for tries := 0; len(keys) < size && tries < size*8; tries++ {
		k := c05LongKey(r, keys)
		s, _ := c05Shape(k)
		if seen[s] || !c05KeyInDomain(k) {
			continue
		}
		seen[s] = true
		keys = append(keys, k)
	}
	return keys
}

// c05LongInst instantiates a key with identifier-like values and returns, besides the path, the offsets
// at which a segment ends (before its '/') or begins (after it): the ends of literal runs and of
// parameter values, with and without the separator that follows.
func c05LongInst(r *rand.Rand, key string) (path string, cuts []int) {
	var sb strings.Builder
	for i := 0; i < len(key); {
		switch key[i] {
		case ':':
			for i < len(key) && key[i] != '/' {
				i++
			}
			if r.Intn(12) == 0 {
				sb.WriteString(c05Text(r, false))
			} else {
				sb.WriteString(c05LongVals[r.Intn(len(c05LongVals))])
			}
		case '*':
			if r.Intn(3) == 0 {
				sb.WriteString(c05Shaped(r, true))
			} else {
				sb.WriteString([]string{"a/b/c", "bc", "/", "x", "logs/2024/01.txt"}[r.Intn(5)])
			}
			i = len(key)
		case '/':
			cuts = append(cuts, sb.Len(), sb.Len()+1)
			sb.WriteByte('/')
			i++
		default:
			sb.WriteByte(key[i])
			i++
		}
	}
	return sb.String(), cuts
}

// c05Accepted spells the byte strings the real array accepts: a breadth-first walk from the root over every
// cell that fits (BASE xor byte in range, CHECK = byte), a value written for every ':' cell, down to each
// end-of-key or wildcard cell in reach. On an array that represents the trie of the keys these are one
// instantiation per key; when two nodes were given one BASE the children of one are reachable from the
// other and the walk spells the paths that cross over. As with c05Guided only the choice of inputs uses
// the array.
func c05Accepted(r *rand.Rand, bc []uint32, limit int) []string {
	a := c05Arr(bc)
	var out []string
	type at struct {
		idx    int
		prefix string
	}
	// breadth first, so that the shortest accepted strings come first even when the cells form a cycle
	frontier := []at{{1, ""}}
	for depth := 0; depth < 420 && len(frontier) > 0 && len(out) <= limit*8 && len(a) > 1; depth++ {
		var next []at
		for _, f := range frontier {
			if _, ok := a.edge(f.idx, '#'); ok {
				out = append(out, f.prefix)
			}
			if _, ok := a.edge(f.idx, '*'); ok {
				out = append(out, f.prefix+"r/s")
			}
			for c := 1; c < 256 && len(next) < 2000; c++ {
				j, ok := a.edge(f.idx, byte(c))
				if !ok || c == '#' || c == '*' {
					continue
				}
				if c == ':' {
					next = append(next, at{j, f.prefix + c05LongVals[r.Intn(len(c05LongVals))]})
				} else {
					next = append(next, at{j, f.prefix + string([]byte{byte(c)})})
				}
			}
		}
		frontier = next
	}
	if len(out) > limit {
		// the shortest ones (the readable counterexamples) and a sample of the rest
		sort.SliceStable(out, func(i, j int) bool { return len(out[i]) < len(out[j]) })
		rest := out[limit/2:]
		r.Shuffle(len(rest), func(i, j int) { rest[i], rest[j] = rest[j], rest[i] })
		out = out[:limit]
	}
	return out
}

// c05LongPaths: every key instantiated; every proper prefix of an instantiation that ends where a segment
// ends or begins; proper prefixes cut inside a literal run or a value (all of them when few, else sampled);
// the instantiation continued by more text; the head of one instantiation joined to the tail of another
// at segment boundaries; the paths the real array accepts.
func c05LongPaths(r *rand.Rand, keys []string, budget int) (paths []Bs, origin []string) {
	seen := map[string]bool{}
	add := func(p, o string) {
		if !seen[p] {
			seen[p] = true
			paths = append(paths, Bs(p))
			origin = append(origin, o)
		}
	}
	type inst struct {
		p    string
		cuts []int
	}
	var insts []inst
	for _, k := range keys {
		for n := 0; n < 2; n++ {
			p, cuts := c05LongInst(r, k)
			insts = append(insts, inst{p, cuts})
			add(p, "inst")
		}
	}
	var mid []string
	for n, in := range insts {
		for _, c := range in.cuts {
			if c < len(in.p) && (n%2 == 0 || r.Intn(3) == 0) {
				add(in.p[:c], "prefix")
			}
		}
		if n%2 == 0 {
			for c := 1; c < len(in.p); c++ {
				mid = append(mid, in.p[:c])
			}
		}
	}
	for _, in := range insts {
		w := c05LongRes[r.Intn(len(c05LongRes))]
		other := insts[r.Intn(len(insts))]
		tail := other.p
		if len(other.cuts) > 0 {
			tail = other.p[other.cuts[r.Intn(len(other.cuts))]:]
		}
		for _, ext := range []string{"/", "x", "/x", "/" + w, "/" + w + "/" + c05LongVals[r.Intn(len(c05LongVals))], tail,
			"/" + strings.TrimPrefix(tail, "/"), string([]byte{c05ReservedByte(r)}) + tail} {
			add(in.p+ext, "extended")
		}
	}
	for n := 0; n < 8*len(keys); n++ {
		x, y := insts[r.Intn(len(insts))], insts[r.Intn(len(insts))]
		if len(x.cuts) == 0 || len(y.cuts) == 0 {
			continue
		}
		add(x.p[:x.cuts[r.Intn(len(x.cuts))]]+y.p[y.cuts[r.Intn(len(y.cuts))]:], "crossover")
	}
	for _, p := range c05Accepted(r, c05DumpBC(keys), 60) {
		add(p, "accepted")
	}
	r.Shuffle(len(mid), func(i, j int) { mid[i], mid[j] = mid[j], mid[i] })
	for _, p := range mid {
		if len(paths) >= budget {
			break
		}
		add(p, "prefix-mid")
	}
	return
}

func c05GenLong(r *rand.Rand, withArrays bool) c05In {
	n := 1 + r.Intn(6)
	if withArrays {
		n = 1 + r.Intn(3) // the representation check is quadratic in the array
	}
	keys := c05LongTable(r, n)
	budget := 420
	if withArrays {
		budget = 260
	}
	paths, origin := c05LongPaths(r, keys, budget)
	kind := "look"
	if withArrays {
		kind = "tab"
	}
	return c05In{Kind: kind, Pats: toBs(keys), Paths: paths, Origin: origin, Flavour: "long"}
}

// ---------- tables that are ambiguous level after level ----------
//
// On every one of d consecutive levels both a literal segment and a ':param' continue: the patterns are (a subset
// of) the 2^d words over {literal_l, :p_l}, told apart by their last segment or not at all. A path that spells the
// literals on every level instantiates each of them as far as the tail allows, and the depth-first search has to
// give up many parameter branches (up to 2^d - 1, far more than the path has bytes or the table has levels) before
// it reaches the one that matches: whatever the lookup bounds, counts or remembers per path is exceeded here and
// nowhere in a table where every placeholder is tried once.

var c05AmbigLits = []string{"a", "a", "b", "ab", "v1", "x", "users"}
var c05AmbigVals = []string{"b", "7", "aa", "x-y", "t", "t0", "a.b", "\xc3\xa9"}

type c05AmbigTab struct {
	lits  []string // the literal of each level
	masks []int    // pattern j takes the literal on level l iff bit l of masks[j] is set
	tails []string // last segment of pattern j ("" = none)
	keys  []string
}

func (t c05AmbigTab) key(j int) string {
	var sb strings.Builder
	for l, lit := range t.lits {
		if t.masks[j]&(1<<l) != 0 {
			sb.WriteString("/" + lit)
		} else {
			fmt.Fprintf(&sb, "/:p%d", l)
		}
	}
	if t.tails[j] != "" {
		sb.WriteString("/" + t.tails[j])
	}
	return sb.String()
}

// c05AmbigTable: d levels; full = all 2^d words, else a random subset of at most limit words that holds the
// all-parameter and the all-literal word; tailPool = 0: a tail of its own for every pattern, -1: no tail, k > 0:
// tails t0..t(k-1) shared among the patterns (several patterns match one path: the preference decides).
func c05AmbigTable(r *rand.Rand, d int, sameLit, full bool, limit, tailPool int) c05AmbigTab {
	t := c05AmbigTab{}
	lit := c05AmbigLits[r.Intn(len(c05AmbigLits))]
	for l := 0; l < d; l++ {
		if !sameLit {
			lit = c05AmbigLits[r.Intn(len(c05AmbigLits))]
		}
		t.lits = append(t.lits, lit)
	}
	all := 1<<d - 1
	seen := map[int]bool{}
	add := func(m int) {
		if !seen[m] {
			seen[m] = true
			t.masks = append(t.masks, m)
		}
	}
	if full && 1<<d <= limit {
		for _, m := range r.Perm(1 << d) {
			add(m)
		}
	} else {
		add(0)
		add(all)
		n := limit/2 + r.Intn(limit/2+1)
		for tries := 0; len(t.masks) < n && len(t.masks) < 1<<d && tries < 40*limit; tries++ {
			m := r.Intn(1 << d)
			if r.Intn(3) == 0 { // mostly literal, a few placeholders: the branches the search visits first
				m |= r.Intn(1 << d)
			}
			add(m)
		}
		r.Shuffle(len(t.masks), func(i, j int) { t.masks[i], t.masks[j] = t.masks[j], t.masks[i] })
	}
	for j := range t.masks {
		switch {
		case tailPool < 0:
			t.tails = append(t.tails, "")
		case tailPool == 0:
			t.tails = append(t.tails, fmt.Sprintf("t%d", j))
		default:
			t.tails = append(t.tails, fmt.Sprintf("t%d", r.Intn(tailPool)))
		}
	}
	for j := range t.masks {
		t.keys = append(t.keys, t.key(j))
	}
	return t
}

// c05AmbigPaths: per pattern the path that spells the literal on every level (+ its tail), instantiations whose
// values are the level's literal or another word, and paths that nobody matches after the whole search.
func c05AmbigPaths(r *rand.Rand, t c05AmbigTab, perPat, budget int) (paths []Bs, origin []string) {
	seen := map[string]bool{}
	add := func(p, o string) {
		if !seen[p] && len(paths) < budget {
			seen[p] = true
			paths, origin = append(paths, Bs(p)), append(origin, o)
		}
	}
	lits := "/" + strings.Join(t.lits, "/")
	tail := func(j int) string {
		if t.tails[j] == "" {
			return ""
		}
		return "/" + t.tails[j]
	}
	for _, j := range r.Perm(len(t.masks)) {
		add(lits+tail(j), "ambig-literals")
	}
	for _, j := range r.Perm(len(t.masks)) {
		for n := 0; n < perPat; n++ {
			var sb strings.Builder
			for l, lit := range t.lits {
				switch {
				case t.masks[j]&(1<<l) != 0 || r.Intn(2) == 0:
					sb.WriteString("/" + lit)
				case r.Intn(8) == 0:
					sb.WriteString("/" + c05Text(r, false))
				default:
					sb.WriteString("/" + c05AmbigVals[r.Intn(len(c05AmbigVals))])
				}
			}
			add(sb.String()+tail(j), "ambig-mixed")
		}
	}
	for n := 0; n < 6; n++ {
		add(lits+"/"+[]string{"tX", "t", "", "t0/x", "t1#", ":p"}[n], "ambig-nobody")
		cut := 1 + r.Intn(len(t.lits))
		add("/"+strings.Join(t.lits[:cut], "/"), "ambig-prefix")
	}
	return
}

func c05GenAmbig(r *rand.Rand, withArrays bool) c05In {
	d := 3 + r.Intn(4)
	limit, full := 64, r.Intn(3) > 0
	if withArrays {
		limit = 32
	}
	if r.Intn(5) == 0 { // deep and sparse: more levels than any bound on the nesting would allow for
		d, full = 8+r.Intn(5), false
		limit = 40
	}
	tailPool := 0
	switch r.Intn(6) {
	case 0:
		tailPool = -1
	case 1:
		tailPool = 1 + r.Intn(4)
	}
	t := c05AmbigTable(r, d, r.Intn(2) == 0, full, limit, tailPool)
	paths, origin := c05AmbigPaths(r, t, 1, 150)
	kind := "look"
	if withArrays {
		kind = "tab"
	}
	return c05In{Kind: kind, Pats: toBs(t.keys), Paths: paths, Origin: origin, Flavour: "ambig"}
}

// c05EnumAmbig: the full tables of 4, 5 and 6 levels over one literal, a tail of its own per pattern.
func c05EnumAmbig(r *rand.Rand) []any {
	var out []any
	for d := 4; d <= 6; d++ {
		t := c05AmbigTable(r, d, true, true, 64, 0)
		paths, origin := c05AmbigPaths(r, t, 1, 200)
		kind := "look"
		if d == 4 {
			kind = "tab"
		}
		out = append(out, c05In{Kind: kind, Pats: toBs(t.keys), Paths: paths, Origin: origin, Flavour: "ambig"})
	}
	return out
}

// ---------- big tables (the double array outgrows 2^16 cells) and very long keys / paths ----------
//
// The lookup keeps (position in the path, node index) of every parameter node it passes, to come back to it.
// Both numbers are only bounded by the size of the table and of the path: the families below put parameter
// nodes beyond cell 65536 (a thousand or more records whose tails share little) and beyond byte 65536 of a
// key / path (a literal run of ~70 000 bytes in front of a placeholder), and look up paths that have to come
// back to such a node after a literal sibling led nowhere. No dumped arrays (the representation check is
// quadratic): trie model + property predicate, one case for the whole table so that its text is parsed once.

var c05BigLits = []string{"default", "latest", "current", "self", "all", "public", "-"}

// one service = records under one prefix P = /<number>-<word> (the number first: two services differ within
// their first bytes, which keeps the pairwise shape comparison of wf_patset cheap), with long tails:
//   P/:id/w1/w2/:k2/w3/w4/:k3/w5/:k4[/w6]     P/:id/w1/w7/:k5/w8[/w9/:k6]   (shares /:id/w1/ with the first)
//   P/lit/w1/w2/:k2/w3/w10/*rest   (a literal sibling of :id that spells the first record for a while)
//   P/:id                          (ends on the parameter)
func c05BigService(r *rand.Rand, n int) []string {
	w := func() string { return c05LongRes[r.Intn(len(c05LongRes)-2)] }
	ww := func(not string) string {
		for {
			if x := w(); x != not {
				return x
			}
		}
	}
	p := fmt.Sprintf("/%d-%s", 100+n, w())
	id := []string{"id", "uid", "name", "key"}[r.Intn(4)]
	w1, w2, w3, w4 := w(), w(), w(), w()
	a := p + "/:" + id + "/" + w1 + "/" + w2 + "/:k2/" + w3 + "/" + w4 + "/:k3/" + w() + "/:k4"
	if r.Intn(2) == 0 {
		a += "/" + w()
	}
	out := []string{a}
	if r.Intn(4) > 0 {
		b := p + "/:" + id + "/" + w1 + "/" + ww(w2) + "/:k5/" + w()
		if r.Intn(2) == 0 {
			b += "/" + w() + "/:k6"
		}
		out = append(out, b)
	}
	if r.Intn(2) == 0 {
		lit := c05BigLits[r.Intn(len(c05BigLits))]
		out = append(out, p+"/"+lit+"/"+w1+"/"+w2+"/:k2/"+w3+"/"+ww(w4)+"/*rest")
	}
	if r.Intn(4) == 0 {
		out = append(out, p+"/:"+id)
	}
	return out
}

// highest cell of the array that is in use
func c05UsedCells(bc []uint32) int {
	for i := len(bc) - 1; i >= 0; i-- {
		if bc[i]&0xfffffcff != 0 {
			return i + 1
		}
	}
	return 0
}

// c05BigTable adds services until the real array uses at least minCells cells.
func c05BigTable(r *rand.Rand, minCells int) (groups [][]string, keys []string, bc []uint32) {
	n, est := 0, 0
	for round := 0; round < 60; round++ {
		for est < minCells+minCells/100 {
			g := c05BigService(r, n)
			n++
			groups = append(groups, g)
			for _, k := range g {
				keys = append(keys, k)
				est += len(k) * 4 / 5 // about what a key adds to the array: its literal bytes beyond the service prefix
			}
		}
		bc = c05DumpBC(keys)
		used := c05UsedCells(bc)
		if used >= minCells || used == 0 {
			break
		}
		est = used // what was built so far counts for what it really took
	}
	return groups, keys, bc
}

// the highest node index at which the key takes a parameter or wildcard edge in the real array (0: none / not spelled)
func c05MaxParamNode(a c05Arr, key string) int {
	idx, best := 1, 0
	for i := 0; i < len(key); {
		c := key[i]
		j, ok := a.edge(idx, c)
		if !ok {
			return best
		}
		if c == ':' || c == '*' {
			if idx > best {
				best = idx
			}
			for i < len(key) && key[i] != '/' {
				i++
			}
		} else {
			i++
		}
		idx = j
	}
	return best
}

// c05InstWith instantiates key; a placeholder segment at the position of a literal segment of other (a key of
// the same service) takes that literal as its value: the walk follows the literal sibling first and has to come back
func c05InstWith(r *rand.Rand, key, other string) string {
	ks, os := strings.Split(key, "/"), strings.Split(other, "/")
	out := make([]string, 0, len(ks))
	for i, s := range ks {
		switch {
		case strings.HasPrefix(s, ":") && i < len(os) && os[i] != "" && !strings.ContainsAny(os[i], ":*"):
			v := os[i]
			switch r.Intn(4) {
			case 0:
				v += "x"
			case 1:
				if len(v) > 1 {
					v = v[:len(v)-1]
				}
			}
			out = append(out, v)
		case strings.HasPrefix(s, ":"):
			out = append(out, c05LongVals[r.Intn(len(c05LongVals))])
		case strings.HasPrefix(s, "*"):
			out = append(out, "logs/2024/01.txt")
		default:
			out = append(out, s)
		}
	}
	return strings.Join(out, "/")
}

func c05BigPaths(r *rand.Rand, groups [][]string, bc []uint32, nHigh, nLow int) (paths []Bs, origin []string) {
	a := c05Arr(bc)
	seen := map[string]bool{}
	add := func(p, o string) {
		if !seen[p] {
			seen[p] = true
			paths = append(paths, Bs(p))
			origin = append(origin, o)
		}
	}
	type ref struct{ g, k int }
	var high, low []ref
	for gi, g := range groups {
		for ki, k := range g {
			if c05MaxParamNode(a, k) >= 1<<16 {
				high = append(high, ref{gi, ki})
			} else {
				low = append(low, ref{gi, ki})
			}
		}
	}
	emit := func(rs []ref, n int, tag string) {
		r.Shuffle(len(rs), func(i, j int) { rs[i], rs[j] = rs[j], rs[i] })
		for i := 0; i < len(rs) && i < n; i++ {
			g := groups[rs[i].g]
			k := g[rs[i].k]
			p, cuts := c05LongInst(r, k)
			add(p, "inst-"+tag)
			// the same record reached only after a literal sibling of the service was followed
			for _, o := range g {
				if o != k && r.Intn(2) == 0 {
					add(c05InstWith(r, k, o), "backtrack-"+tag)
				}
			}
			switch r.Intn(6) {
			case 0:
				if len(cuts) > 0 {
					add(p[:cuts[r.Intn(len(cuts))]], "prefix-"+tag)
				}
			case 1:
				add(p+"/"+c05LongRes[r.Intn(len(c05LongRes))], "extended-"+tag)
			case 2:
				// head of this instantiation, tail of an instantiation of a sibling record
				q, qc := c05LongInst(r, g[r.Intn(len(g))])
				if len(cuts) > 0 && len(qc) > 0 {
					add(p[:cuts[r.Intn(len(cuts))]]+q[qc[r.Intn(len(qc))]:], "crossover-"+tag)
				}
			}
		}
	}
	emit(high, nHigh, "high")
	emit(low, nLow, "low")
	return
}

func c05GenBig(r *rand.Rand, minCells, nHigh, nLow int) c05In {
	groups, keys, bc := c05BigTable(r, minCells)
	paths, origin := c05BigPaths(r, groups, bc, nHigh, nLow)
	return c05In{Kind: "look", Pats: toBs(keys), Paths: paths, Origin: origin, Flavour: "big"}
}

// a literal run of n bytes made of resource words
func c05LiteralRun(r *rand.Rand, n int) string {
	var sb strings.Builder
	for sb.Len() < n {
		sb.WriteString("/" + c05LongRes[r.Intn(len(c05LongRes))])
	}
	return sb.String()[:n]
}

// c05GenLongPath: a small table in which a placeholder stands behind a literal run of more than 2^16 bytes (so
// does the position the lookup has to remember), with a literal sibling that leads nowhere; and a parameter value
// of more than 2^16 bytes in front of further segments. The text of the case is ~70 KB per long key or path:
// two keys and three paths in the quick tier, more paths in the thorough tier.
func c05GenLongPath(r *rand.Rand, tier string) c05In {
	n := 1<<16 + 100 + r.Intn(900)
	run := c05LiteralRun(r, n)
	if strings.HasSuffix(run, "/") {
		run += "z"
	}
	w1, w2 := c05LongRes[r.Intn(20)], c05LongRes[20+r.Intn(20)]
	keys := []string{run + "/:id/" + w1, run + "/latest/" + w2 + "/:n", "/blob/:sha/raw/:name", "/files/*path", "/blob/:sha"}
	var paths []Bs
	var origin []string
	add := func(p, o string) { paths, origin = append(paths, Bs(p)), append(origin, o) }
	val := c05LongVals[r.Intn(len(c05LongVals))]
	add(run+"/"+val+"/"+w1, "longkey-inst")
	add(run+"/latest/"+w1, "longkey-backtrack") // follows the literal sibling, must come back to :id at a position > 2^16
	long := strings.Repeat("0123456789abcdef", (1<<16)/16+2+r.Intn(30))
	add("/blob/"+long+"/raw/readme.txt", "longvalue-inst")
	add("/blob/x/raw/readme.txt", "inst")
	add("/files/a/b", "inst")
	if tier == "thorough" {
		add(run+"/latest/"+w2, "longkey-miss")
		add(run+"/latest/"+w2+"/"+val, "longkey-inst")
		add(run[:1<<16]+"/"+val+"/"+w1, "longkey-miss")
		add("/blob/"+long, "longvalue-inst")
		add("/files/"+long+"/raw", "longvalue-wild")
	}
	return c05In{Kind: "look", Pats: toBs(keys), Paths: paths, Origin: origin, Flavour: "longpath"}
}

// ---------- options and request spellings (drawn from a generator of their own, derived from the case, so
// that the tables and paths of a run are the same with and without them) ----------

func c05SubRand(in c05In, i int) *rand.Rand {
	h := fnv.New64a()
	fmt.Fprintf(h, "%d|%s", i, in.Kind)
	for _, k := range in.Pats {
		h.Write([]byte(k))
		h.Write([]byte{0xff})
	}
	for _, k := range in.Paths {
		h.Write([]byte(k))
		h.Write([]byte{0xfe})
	}
	return rand.New(rand.NewSource(int64(h.Sum64() >> 1)))
}

// c05MaxPlaceholders is the number Build computes for SizeHint when the caller left it alone.
func c05MaxPlaceholders(keys []string) int {
	m := 0
	for _, k := range keys {
		if !c05IsParamKey(k) {
			continue
		}
		if n := strings.Count(k, ":") + strings.Count(k, "*"); n > m {
			m = n
		}
	}
	return m
}

// c05HintChoice: the values a caller may give Router.SizeHint relative to the real maximum m: none at all,
// far below, just below, exact, just above, far above, and a negative one other than the default.
func c05HintChoice(keys []string, k int) *int {
	m := c05MaxPlaceholders(keys)
	v := 0
	switch k % 7 {
	case 0:
		v = 0
	case 1:
		v = 1
	case 2:
		v = m - 1
	case 3:
		v = m
	case 4:
		v = m + 1
	case 5:
		v = 2*m + 3
	default:
		v = -2
	}
	return &v
}

const c05Hex = "0123456789ABCDEF"

// c05EncodeTarget spells a path as a request target. Bytes that may not stand in a target as they are get a
// percent-escape; every other byte gets one with probability 1/rate (an escape the client did not need: letters,
// '-', '.', '/' as %2F, ...; rate 0 = never), bytes listed in force always; one escape in five in lower-case hex.
func c05EncodeTarget(r *rand.Rand, p string, force map[int]bool, rate int) string {
	var sb strings.Builder
	for i := 0; i < len(p); i++ {
		c := p[i]
		plain := c >= 'a' && c <= 'z' || c >= 'A' && c <= 'Z' || c >= '0' && c <= '9' || strings.IndexByte("-._~/$&+,:;=@", c) >= 0
		if !plain && strings.IndexByte("!'()*", c) >= 0 && r.Intn(2) == 0 {
			plain = true // accepted as they are, but not what the canonical spelling has
		}
		if i == 0 && c == '/' { // a request target starts with a bare '/'
			sb.WriteByte(c)
			continue
		}
		if plain && !force[i] && (rate == 0 || r.Intn(rate) != 0) {
			sb.WriteByte(c)
			continue
		}
		hi, lo := c05Hex[c>>4], c05Hex[c&15]
		if r.Intn(5) == 0 {
			hi, lo = strings.ToLower(string(hi))[0], strings.ToLower(string(lo))[0]
		}
		sb.WriteByte('%')
		sb.WriteByte(hi)
		sb.WriteByte(lo)
	}
	return sb.String()
}

var c05ValueWords = []string{"alice", "denco", "a", "b", "7", "x-y", "v1.2", "caf\xc3\xa9", "50%", "a b", "r_1", "~u", "x:y", "q=1", "a+b", "..", ".", "...", "..x", ".git"}

// c05InstEscaped instantiates a key with values that hold what a client has to escape, among them the
// separator itself: /user/:name asked for as /user/a%2Fb is the path /user/a/b. Returns the decoded path and
// the positions of the bytes that came from inside a value and must be escaped in the target.
func c05InstEscaped(r *rand.Rand, key string) (path string, force map[int]bool) {
	force = map[int]bool{}
	var sb strings.Builder
	value := func() {
		n := 1 + r.Intn(2)
		if r.Intn(3) == 0 {
			n = 1
		}
		for j := 0; j < n; j++ {
			if j > 0 || r.Intn(12) == 0 {
				force[sb.Len()] = true
				sb.WriteByte('/')
			}
			sb.WriteString(c05ValueWords[r.Intn(len(c05ValueWords))])
		}
		if r.Intn(12) == 0 {
			force[sb.Len()] = true
			sb.WriteByte('/')
		}
	}
	for i := 0; i < len(key); {
		switch {
		case !c05IsParamKey(key):
			sb.WriteByte(key[i])
			i++
		case key[i] == ':':
			for i < len(key) && key[i] != '/' {
				i++
			}
			value()
		case key[i] == '*':
			value()
			if r.Intn(2) == 0 {
				sb.WriteByte('/')
				value()
			}
			i = len(key)
		default:
			sb.WriteByte(key[i])
			i++
		}
	}
	return sb.String(), force
}

// c05MuxSpell chooses, for every request of a mux case, how the client spelled it: URL.Path only (as before),
// the canonical request target (URL.RawPath stays empty), or a target with escapes of the client's own (URL.RawPath
// set); and adds requests whose values hold an escaped separator. The expected answer is the model's for URL.Path.
func c05MuxSpell(r *rand.Rand, in c05In) c05In {
	keys := bsList(in.Pats)
	in.Targets = make([]Bs, len(in.Paths))
	for j, p := range in.Paths {
		switch k := r.Intn(20); {
		case k < 7:
		case k < 10:
			in.Targets[j] = Bs(c05EncodeTarget(r, string(p), nil, 0))
		default:
			in.Targets[j] = Bs(c05EncodeTarget(r, string(p), nil, 2+r.Intn(6)))
		}
	}
	ms := []string{"GET", "POST", "PUT", "DELETE"}
	for n := 0; n < 8; n++ {
		key := keys[r.Intn(len(keys))]
		p, force := c05InstEscaped(r, key)
		rate := 0
		if r.Intn(2) == 0 {
			rate = 3 + r.Intn(6)
		}
		m := string(in.Methods[r.Intn(len(in.Methods))])
		if r.Intn(5) == 0 {
			m = ms[r.Intn(len(ms))]
		}
		in.Paths, in.Origin, in.ReqM = append(in.Paths, Bs(p)), append(in.Origin, "escaped-value"), append(in.ReqM, Bs(m))
		in.Targets = append(in.Targets, Bs(c05EncodeTarget(r, p, force, rate)))
	}
	return in
}

func c05Decorate(in c05In, i int) c05In {
	if in.Flavour == "big" || in.Flavour == "longpath" {
		return in
	}
	switch in.Kind {
	case "tab", "look", "order":
		// one table in three is built by a caller who set Router.SizeHint
		if i%3 == 2 {
			in.Hint = c05HintChoice(bsList(in.Pats), i/3)
		}
		// the caller's []Record is given to Build more than once: every other order case (the second router is
		// built from a permuted copy made after the first Build), one tab / look case in four (the slice went
		// through one or two Builds of other routers first)
		switch {
		case in.Kind == "order" && i%2 == 0:
			in.Reuse = 1 + (i/2)%2
		case in.Kind != "order" && (i/2)%4 == 1:
			in.Reuse = 1 + (i/8)%2
		}
	case "mux":
		in = c05MuxSpell(c05SubRand(in, i), in)
	}
	return in
}

func (c05) Gen(r *rand.Rand, tier string, i int) any {
	in := c05GenBase(r, tier, i)
	// one case in 20: a table that is ambiguous level after level. It takes the place of the case drawn for this
	// index and draws from a generator derived from that case, so that every other case of the run is the one it
	// was before this family existed
	if i%20 == 8 && in.Flavour != "big" && in.Flavour != "longpath" {
		in = c05GenAmbig(c05SubRand(in, i), i%40 == 8 || tier == "thorough")
	}
	return c05Decorate(in, i)
}

func c05GenBase(r *rand.Rand, tier string, i int) c05In {
	// three families are scheduled by the case index, so that every seed runs them: reserved bytes inside a
	// literal segment of a key (i = 1 mod 10), reserved byte after a complete pattern on 10-40 routes (i = 6 mod 10),
	// few long deeply nested routes (i = 3 mod 10; with the dumped arrays and repr_check for i = 3 mod 20)
	// one table whose array outgrows 2^16 cells and one key / path longer than 2^16 bytes in every quick run (early
	// generated cases, so that their long evaluation starts at once, and a shard (20 cases) apart, so that they are
	// evaluated in parallel); a few bigger ones in the thorough tier
	switch {
	case i == 0:
		return c05GenBig(r, 1<<16+4000+r.Intn(3000), 100, 25)
	case i == 20:
		return c05GenLongPath(r, tier)
	case tier == "thorough" && i%500 == 250:
		return c05GenBig(r, 1<<16+4000+r.Intn(60000), 260, 60)
	case tier == "thorough" && i%500 == 270:
		return c05GenLongPath(r, tier)
	}
	switch i % 10 {
	case 1:
		return c05GenVerbs(r)
	case 6:
		return c05GenTails(r, i%20 == 6 || tier == "thorough")
	case 3:
		return c05GenLong(r, i%20 == 3 || tier == "thorough")
	}
	switch k := r.Intn(100); {
	case k < 70:
		keys := c05Table(r, c05Size(r, tier))
		paths, origin := c05Paths(r, keys, 14)
		// a few of the byte strings the real array accepts (one per key when the array represents the keys)
		for _, p := range c05Accepted(r, c05DumpBC(keys), 6) {
			paths, origin = append(paths, Bs(p)), append(origin, "accepted")
		}
		return c05In{Kind: "tab", Pats: toBs(keys), Paths: paths, Origin: origin}
	case k < 85:
		keys := c05Table(r, 2+r.Intn(12))
		paths, origin := c05Paths(r, keys, 10)
		return c05In{Kind: "order", Pats: toBs(keys), Perm: r.Perm(len(keys)), Paths: paths, Origin: origin}
	case k < 95:
		keys := c05Table(r, 2+r.Intn(8))
		ms := []string{"GET", "POST", "PUT"}
		in := c05In{Kind: "mux"}
		// the same key may be registered under several methods
		for _, key := range keys {
			for _, m := range ms {
				if r.Intn(2) == 0 {
					in.Pats = append(in.Pats, Bs(key))
					in.Methods = append(in.Methods, Bs(m))
				}
			}
		}
		if len(in.Pats) == 0 {
			in.Pats, in.Methods = []Bs{Bs(keys[0])}, []Bs{"GET"}
		}
		// history on ONE handler: the answer for (method, path) must not depend on what was asked before. Half of
		// the paths are requested once under a random method; the others under every method in a random order
		// (same path, different method: registered, unregistered, lower case), and a few come back at the end
		paths, origin := c05Paths(r, keys, 10)
		all := append(ms, "get", "DELETE")
		for j, p := range paths {
			if r.Intn(2) == 0 {
				in.Paths, in.Origin, in.ReqM = append(in.Paths, p), append(in.Origin, origin[j]), append(in.ReqM, Bs(all[r.Intn(len(all))]))
				continue
			}
			for _, k := range r.Perm(len(all)) {
				in.Paths, in.Origin, in.ReqM = append(in.Paths, p), append(in.Origin, origin[j]+"+every-method"), append(in.ReqM, Bs(all[k]))
			}
		}
		for n := 0; n < 4 && len(paths) > 0; n++ {
			j := r.Intn(len(paths))
			in.Paths, in.Origin, in.ReqM = append(in.Paths, paths[j]), append(in.Origin, origin[j]+"+again"), append(in.ReqM, Bs(ms[r.Intn(len(ms))]))
		}
		return in
	default:
		base := c05Adversarial[r.Intn(len(c05Adversarial))]
		keys := append([]string{}, base...)
		if r.Intn(2) == 0 {
			keys = append(keys, c05Table(r, 1+r.Intn(3))...)
		}
		paths, origin := c05Paths(r, keys, 8)
		return c05In{Kind: "tab", Pats: toBs(keys), Paths: paths, Origin: origin}
	}
}

var c05MidTables = [][]string{
	{"/v1/op:list", "/v1/op/:id", "/g/a*b", "/v1/op:list/:id"},
	{"/api/users:get", "/api/users/:id", "/api/users/:id/wait", "/files/a*b", "/files/*rest", "/x:", "/a=b:c", "/k/a*:b", "/api/users"},
	{"/a:b", "/a*b", "/a/:b", "/a/*b", "/a=:b"},
}

var c05ApiFixed = []string{
	"/projects/:project/jobs", "/projects/:project/jobs/:job", "/projects/:project/jobs/:job/logs", "/projects/:project/members",
	"/projects/:project/members/:member", "/groups/:group/projects", "/groups/:group/members", "/groups/:group/labels/:label",
	"/jobs/:job/artifacts/*path", "/jobs/:job/retry", "/runners/:runner/jobs", "/runners/:runner", "/labels/:label/issues",
	"/issues/:issue/notes/:note", "/issues/:issue/labels", "/search/kind=:kind/items", "/health", "/projects",
}

func c05AllNearMisses(r *rand.Rand, keys []string) []string {
	var out []string
	for _, k := range keys {
		out = append(out, c05NearMisses(r, k)...)
	}
	return out
}

func c05EnumTails(r *rand.Rand, keys []string) []any {
	seen := map[string]bool{}
	var paths []string
	add := func(p string) {
		if !seen[p] {
			seen[p] = true
			paths = append(paths, p)
		}
	}
	for _, p := range c05Guided(r, c05DumpBC(keys), 240) {
		add(p)
	}
	var insts, tails []string
	for _, k := range keys {
		p := c05BenignInst(r, k)
		insts = append(insts, p)
		for o := 0; o < len(p); o++ {
			tails = append(tails, p[o:])
		}
	}
	for _, p := range insts {
		add(p)
		for _, rb := range []byte{'#', 0, ':', '*'} {
			add(p + string([]byte{rb}))
		}
		for n := 0; n < 60; n++ {
			add(p + "#" + tails[r.Intn(len(tails))])
		}
		for n := 0; n < 6; n++ {
			add(p + string([]byte{"\x00:*"[r.Intn(3)]}) + tails[r.Intn(len(tails))])
		}
	}
	var out []any
	for lo := 0; lo < len(paths); lo += 300 {
		hi := lo + 300
		if hi > len(paths) {
			hi = len(paths)
		}
		in := c05In{Kind: "look", Pats: toBs(keys), Paths: toBs(paths[lo:hi]), Flavour: "tails"}
		if lo == 0 {
			in.Kind = "tab"
		}
		for range in.Paths {
			in.Origin = append(in.Origin, "enum")
		}
		out = append(out, in)
	}
	return out
}

// Four routes of 120-170 bytes that share almost nothing: the array has about one cell per key byte,
// i.e. some 150 cells per record.
var c05LongFixed = []string{
	"/api/v3/organizations/:org/workspaces/:workspace/repositories/:repo/pull-requests/:number/attachments/:attachment/permissions",
	"/v1/tenants/:tenant/datasets/:dataset/tables/:table/partitions/:partition/exports/:export/audit-logs/:entry/records/:record/versions",
	"/v1/regions/:region/node-pools/:pool/firewall_rules/:rule/certificates/:cert/zones/:zone/members/:member/invitations/:invitation/keyRings/:ring/cryptoKeys",
	"/internal/v1alpha/billing_accounts/:account/serviceAccounts/:sa/role.bindings/:binding/environments/:env/deployments/:deployment/revisions/*rest",
}

// c05EnumLong: a fixed table of long routes with EVERY proper prefix of one instantiation of every key,
// the boundary / extension / crossover paths of c05LongPaths and the paths the real array accepts.
func c05EnumLong(r *rand.Rand, keys []string) []any {
	ps, os := c05LongPaths(r, keys, 1<<20)
	var out []any
	for lo := 0; lo < len(ps); lo += 300 {
		hi := lo + 300
		if hi > len(ps) {
			hi = len(ps)
		}
		in := c05In{Kind: "look", Pats: toBs(keys), Paths: ps[lo:hi], Origin: os[lo:hi], Flavour: "long"}
		if lo == 0 {
			in.Kind = "tab"
		}
		out = append(out, in)
	}
	return out
}

// A fixed Mux table; every key instantiated once and asked for with each single byte of the path escaped in
// turn (a separator of the pattern as %2F, a literal byte, a byte of a value: URL.Path is the same path every
// time), in upper- and lower-case hex, plus values that hold an escaped separator, '%' and non-ASCII bytes.
var c05MuxFixed = []string{"/user/:name", "/repos/:owner/:repo", "/repos/:owner", "/files/*filepath", "/hello-world",
	"/a.b/c_d", "/v1/%41/:x", "/x/:y/z", "/x/:y/z/:w", "/r/k=:v/s"}

func c05EnumMux(r *rand.Rand) []any {
	in := c05In{Kind: "mux", Flavour: "escapes"}
	for i, k := range c05MuxFixed {
		in.Pats, in.Methods = append(in.Pats, Bs(k)), append(in.Methods, "GET")
		if i%3 == 1 {
			in.Pats, in.Methods = append(in.Pats, Bs(k)), append(in.Methods, "POST")
		}
	}
	add := func(m, p, target string) {
		in.Paths, in.ReqM, in.Targets, in.Origin = append(in.Paths, Bs(p)), append(in.ReqM, Bs(m)), append(in.Targets, Bs(target)), append(in.Origin, "enum")
	}
	for _, k := range c05MuxFixed {
		p := c05BenignInst(r, k)
		add("GET", p, "")
		add("GET", p, c05EncodeTarget(r, p, nil, 0))
		for j := 1; j < len(p); j++ {
			add("GET", p, c05EncodeTarget(r, p, map[int]bool{j: true}, 0))
		}
		for n := 0; n < 6; n++ {
			q, force := c05InstEscaped(r, k)
			add([]string{"GET", "POST"}[n%2], q, c05EncodeTarget(r, q, force, 0))
			add("GET", q, c05EncodeTarget(r, q, force, 4))
		}
	}
	return []any{in}
}

// c05EnumDots: a file-server-like table; every text of 1-3 segments over {.. . ... ..x a <empty>} behind the literal
// prefix of every route (as the catch-all text, as ':name' values, as a literal segment that is not there), and the
// same requests through the Mux handler (net/http hands the path of a request to a handler of its own as it is).
var c05DotsTable = []string{"/static/*filepath", "/api/v1/files/*path", "/:tenant/assets/*rest", "/static/css/:name", "/dl/:a/:b", "/static", "/"}

func c05EnumDots() []any {
	segs := []string{"..", ".", "...", "..x", "a", ""}
	var texts []string
	level := []string{""}
	for n := 0; n < 3; n++ {
		var next []string
		for _, t := range level {
			for _, s := range segs {
				u := s
				if n > 0 {
					u = t + "/" + s
				}
				next = append(next, u)
			}
		}
		texts = append(texts, next...)
		level = next
	}
	seen := map[string]bool{}
	var paths []string
	for _, pre := range []string{"/static/", "/api/v1/files/", "/acme/assets/", "/../assets/", "/static/css/", "/dl/", "/"} {
		for _, t := range texts {
			if p := pre + t; !seen[p] {
				seen[p] = true
				paths = append(paths, p)
			}
		}
	}
	var out []any
	for lo := 0; lo < len(paths); lo += 300 {
		hi := lo + 300
		if hi > len(paths) {
			hi = len(paths)
		}
		in := c05In{Kind: "look", Pats: toBs(c05DotsTable), Paths: toBs(paths[lo:hi]), Flavour: "dots"}
		if lo == 0 {
			in.Kind = "tab"
		}
		for range in.Paths {
			in.Origin = append(in.Origin, "enum")
		}
		out = append(out, in)
	}
	// through the handler: every 7th path, as URL.Path and as a request target
	mux := c05In{Kind: "mux", Flavour: "dots"}
	for _, k := range c05DotsTable {
		mux.Pats, mux.Methods = append(mux.Pats, Bs(k)), append(mux.Methods, "GET")
	}
	for i := 0; i < len(paths); i += 7 {
		t := ""
		if i%2 == 0 {
			t = paths[i]
		}
		mux.Paths, mux.ReqM, mux.Targets, mux.Origin = append(mux.Paths, Bs(paths[i])), append(mux.ReqM, "GET"), append(mux.Targets, Bs(t)), append(mux.Origin, "enum")
	}
	return append(out, mux)
}

func (c05) Enumerate(tier string) []any {
	var out []any
	consts := map[string]int{"ParamCharacter": 58, "WildcardCharacter": 42, "TerminationCharacter": 35, "SeparatorCharacter": 47,
		"PathParamCharacter": 61, "flagsBits": 10, "checkBits": 8, "paramTypeSingle": 256, "paramTypeWildcard": 512}
	names := make([]string, 0, len(consts))
	for k := range consts {
		names = append(names, k)
	}
	sort.Strings(names)
	for _, k := range names {
		out = append(out, c05In{Kind: "const", Name: k, Model: consts[k]})
	}
	// every byte as a whole segment, inside a segment, and as the head of a wildcard text
	tables := [][]string{
		{"/a/:id", "/a/:id/:name", "/x/*w", "/s"},
		{"/a/:y/b", "/:x/*w", "/:y/c"},
		{"/ab/cab/:y", "/cab", "/ab/:y/c", "/:y", "/ba/c/:x"},
	}
	for ti, keys := range tables {
		for lo := 0; lo < 256; lo += 32 {
			in := c05In{Kind: "tab", Pats: toBs(keys)}
			// the option Router.SizeHint: left alone for the first chunk of a table, then every choice of
			// c05HintChoice (0, 1, just below / equal to / above the real maximum, far above, negative)
			if lo > 0 {
				in.Hint = c05HintChoice(keys, lo/32-1+ti)
			}
			// two chunks of every table: the caller's slice went through one / two earlier Builds
			if lo == 64 || lo == 160 {
				in.Reuse = lo / 64
			}
			for c := lo; c < lo+32; c++ {
				ch := string([]byte{byte(c)})
				for _, p := range []string{"/a/" + ch, "/a/x" + ch + "y", "/a/" + ch + "/1", "/x/" + ch + "a/b", "/" + ch + "c/a", "/" + ch + "/" + ch + "/" + ch} {
					in.Paths = append(in.Paths, Bs(p))
					in.Origin = append(in.Origin, "enum")
				}
			}
			out = append(out, in)
		}
	}
	// reserved bytes inside a literal segment: fixed tables (the first is ex_table_mid of Properties_C05.v),
	// every key with its neighbours around each ':' / '*'
	er := rand.New(rand.NewSource(5))
	for _, keys := range c05MidTables {
		in := c05In{Kind: "tab", Pats: toBs(keys), Flavour: "verbs"}
		seen := map[string]bool{}
		for _, p := range append([]string{"/v1/opXYZ", "/g/a/b/c", "/g/axb", "/v1/op/7", "/v1/opX/7"}, c05AllNearMisses(er, keys)...) {
			if !seen[p] {
				seen[p] = true
				in.Paths = append(in.Paths, Bs(p))
				in.Origin = append(in.Origin, "enum")
			}
		}
		out = append(out, in)
	}
	// a reserved byte right after a complete pattern: a fixed table of parameterised routes; every pattern,
	// instantiated, followed by '#' and by what is left of every other instantiated pattern from every offset
	// (sampled down), by the other reserved bytes, and the paths its real array suggests
	out = append(out, c05EnumTails(er, c05ApiFixed)...)
	// few long routes: the array is far bigger than the record count; every proper prefix must be refused
	out = append(out, c05EnumLong(er, c05LongFixed)...)
	// the handler of Mux.Build against requests spelled with percent-escapes
	out = append(out, c05EnumMux(er)...)
	// catch-all and single-segment values made of dot segments and their look-alikes
	out = append(out, c05EnumDots()...)
	// both a literal and a parameter continue on every one of 4-6 levels: up to 2^d - 1 parameter branches fail
	out = append(out, c05EnumAmbig(rand.New(rand.NewSource(17)))...)
	// small-scope exhaustive part: every path up to a length over {a b / : * #} against small tables
	letters := []byte("ab/:*#")
	var all func(n int) []string
	all = func(n int) []string {
		if n == 0 {
			return []string{""}
		}
		var o []string
		for _, s := range all(n - 1) {
			for _, c := range letters {
				o = append(o, s+string(c))
			}
		}
		return o
	}
	addAll := func(keys []string, maxLen int) {
		var paths []string
		for n := 0; n <= maxLen; n++ {
			paths = append(paths, all(n)...)
		}
		for lo := 0; lo < len(paths); lo += 300 {
			hi := lo + 300
			if hi > len(paths) {
				hi = len(paths)
			}
			in := c05In{Kind: "tab", Pats: toBs(keys), Paths: toBs(paths[lo:hi])}
			for range in.Paths {
				in.Origin = append(in.Origin, "enum")
			}
			out = append(out, in)
		}
	}
	if tier != "thorough" {
		addAll([]string{"/a/:x", "/:x/b", "/a/*w", "/a/b"}, 4)
		return out
	}
	vocab := []string{"a", "b", ":x", "*w"}
	var pats []string
	for _, s1 := range vocab {
		pats = append(pats, "/"+s1)
		for _, s2 := range vocab {
			s2n := s2
			if s2 == ":x" && s1 == ":x" {
				s2n = ":y"
			}
			pats = append(pats, "/"+s1+"/"+s2n)
		}
	}
	for i := range pats {
		if c05TableInDomain([]string{pats[i]}) {
			addAll([]string{pats[i]}, 4)
		}
		for j := i + 1; j < len(pats); j++ {
			keys := []string{pats[i], pats[j]}
			if c05TableInDomain(keys) {
				addAll(keys, 4)
			}
		}
	}
	return out
}

// ---------- reporting ----------

func c05HasReserved(p string) bool { return strings.ContainsAny(p, ":*#\x00") }

func (c05) Category(in0 any, obs0 any) (string, bool) {
	in, obs := in0.(c05In), obs0.(c05Obs)
	if in.Kind == "const" {
		return "const", false
	}
	keys := bsList(in.Pats)
	dom := "wf"
	if !c05TableInDomain(keys) && in.Kind != "mux" {
		dom = "outside-domain"
	}
	if obs.BuildErr != "" {
		return in.Kind + "/" + dom + "/build-error", false
	}
	if obs.BuildPanic != "" {
		return in.Kind + "/" + dom + "/build-panic", true
	}
	size := "1-8"
	switch {
	case len(keys) > 100:
		size = ">100"
	case len(keys) > 20:
		size = "21-100"
	case len(keys) > 8:
		size = "9-20"
	}
	feat := map[string]bool{}
	for _, k := range keys {
		if strings.Contains(k, "=:") {
			feat["restconf"] = true
		}
		if strings.Contains(k, "*") && c05IsParamKey(k) {
			feat["wild"] = true
		}
		if strings.HasSuffix(k, "/") {
			feat["trailing"] = true
		}
		if !c05IsParamKey(k) {
			feat["static"] = true
		}
	}
	var fs []string
	for f := range feat {
		fs = append(fs, f)
	}
	sort.Strings(fs)
	anyParam, anyReserved, anyPanic := false, false, false
	for i, a := range obs.Ans {
		if a.Found && len(a.Params) > 0 {
			anyParam = true
		}
		if a.Panicked {
			anyPanic = true
		}
		if i < len(in.Paths) && c05HasReserved(string(in.Paths[i])) {
			anyReserved = true
		}
	}
	cat := fmt.Sprintf("%s/%s/n=%s/%s", in.Kind, dom, size, strings.Join(fs, "+"))
	if in.Flavour != "" {
		cat = fmt.Sprintf("%s[%s]/%s/n=%s/%s", in.Kind, in.Flavour, dom, size, strings.Join(fs, "+"))
	}
	for _, k := range keys {
		if !c05IsParamKey(k) && strings.ContainsAny(k, ":*") {
			cat += "/static-key-with-reserved-byte"
			break
		}
	}
	if in.Reuse > 0 {
		cat += "/records-reused"
	}
	if in.Hint != nil {
		switch m := c05MaxPlaceholders(keys); {
		case *in.Hint < 0:
			cat += "/sizehint<0"
		case *in.Hint < m:
			cat += "/sizehint<max"
		case *in.Hint == m:
			cat += "/sizehint=max"
		default:
			cat += "/sizehint>max"
		}
	}
	for _, f := range obs.ReqForm {
		if f == "target+rawpath" {
			cat += "/requests-with-rawpath"
			break
		}
	}
	if anyReserved {
		cat += "/reserved-bytes-in-path"
	}
	if anyPanic {
		cat += "/PANIC"
	}
	return cat, anyParam || anyReserved
}

func (c05) Classify(in0 any, obs0 any) []string {
	in := in0.(c05In)
	if in.Kind != "tab" && in.Kind != "look" {
		return nil
	}
	var out []string
	keys := bsList(in.Pats)
	shapes := map[string]bool{}
	for _, k := range keys {
		if c05IsParamKey(k) && strings.Contains(k, "#") {
			out = append(out, "denco.key_contains_termination_byte")
		}
		if c05IsParamKey(k) && strings.Contains(k, "\x00") {
			out = append(out, "denco.key_contains_nul")
		}
		s, _ := c05Shape(k)
		if shapes[s] && c05IsParamKey(k) {
			out = append(out, "denco.two_keys_of_one_shape")
		}
		shapes[s] = true
	}
	return out
}
