//go:build verif && (c02 || allprops)

package main

import (
	"bytes"
	"encoding/json"
	stderrors "errors"
	"fmt"
	"io"
	"math/rand"
	"net/http"
	"net/http/httptest"
	"reflect"
	"regexp"
	"sort"
	"strconv"
	"strings"

	"github.com/go-openapi/errors"
	"github.com/go-openapi/loads"
	"github.com/go-openapi/runtime"
	"github.com/go-openapi/runtime/middleware"
	"github.com/go-openapi/runtime/middleware/untyped"
	"github.com/go-openapi/runtime/security"
)

// C02 — security requirements are an OR of ANDs. One case = a requirement structure written into a generated
// swagger document (global and/or per operation), a per-scheme outcome table for scripted authenticators, an
// authorizer behaviour and one request. The real code is observed three ways on it:
//   direct   RouteAuthenticators.Authenticate on the route's authenticators (scheme orders set explicitly or read back)
//   authz    Context.Authorize, then SecurityPrincipalFrom/SecurityScopesFrom on the request it returns
//   handler  the untyped API handler (router -> newSecureAPI -> bind -> operation handler)
// Each observation is an event trace from instrumented authenticators, authorizer, consumer and handler.

type c02Scheme struct {
	Name   int   `json:"name"`
	Scopes []int `json:"scopes,omitempty"`
}

type c02Alt struct {
	Schemes []c02Scheme `json:"schemes"` // empty = the anonymous alternative {}
}

type c02Err struct {
	Code int `json:"code"` // 0 = a plain Go error
	Msg  int `json:"msg"`
}

type c02Out struct {
	Name int     `json:"name"`
	Kind string  `json:"kind"` // na | acc | nil | rej | rejp (error and a principal) | naerr (not applicable, with an error value)
	P    int     `json:"p,omitempty"`
	Err  *c02Err `json:"err,omitempty"`
}

type c02Deny struct {
	P   *int   `json:"p"` // nil = the nil principal
	Err c02Err `json:"err"`
}

type c02In struct {
	Alts     []c02Alt  `json:"alts"`
	Where    string    `json:"where"`              // op | global | op-over-global
	Explicit bool      `json:"explicit,omitempty"` // scheme orders of Alts are imposed; else read back from the route
	Unreg    []int     `json:"unreg,omitempty"`    // defined schemes without a registered authenticator
	Undef    []int     `json:"undef,omitempty"`    // schemes absent from securityDefinitions
	Outs     []c02Out  `json:"outs"`
	HasAz    bool      `json:"has_az,omitempty"`
	Deny     []c02Deny `json:"deny,omitempty"`
	BindOK   bool      `json:"bind_ok"`
}

type c02Ev struct {
	K  string `json:"k"` // auth | az | bind | handle | respond | panic
	S  int    `json:"s,omitempty"`
	Sc []int  `json:"sc,omitempty"`
	P  *int   `json:"p,omitempty"`
	C  int    `json:"c,omitempty"`
	M  int    `json:"m,omitempty"`
}

type c02Obs struct {
	Orders   [][]int `json:"orders"` // scheme order actually used, per alternative
	DTr      []c02Ev `json:"d_tr"`
	DApplies bool    `json:"d_applies"`
	DUsr     *int    `json:"d_usr"`
	DErr     *c02Err `json:"d_err"`
	DRoute   int     `json:"d_route"` // index of the alternative left in MatchedRoute.Authenticator, -1 none
	BTr      []c02Ev `json:"b_tr"`
	BKind    string  `json:"b_kind"` // granted | refused | panic | mismatch
	BUsr     *int    `json:"b_usr"`
	BScopes  []int   `json:"b_scopes"`
	BErr     *c02Err `json:"b_err"`
	ATr      []c02Ev `json:"a_tr"`
	Panic    string  `json:"panic,omitempty"`
}

type c02 struct{}

func init() { register(c02{}) }

func (c02) ID() string        { return "C02" }
func (c02) CoqModule() string { return "Check_C02" }
func (c02) Rule() string {
	return "enumeration: every ordered list of 1 (quick) / 1-3 (thorough) alternatives over the 16 ordered non-empty scheme lists of {s0,s1,s2} and {} " +
		"x all 4^3 outcome vectors (not applicable / principal / nil principal / rejected), explicit scheme orders; authorizer kind, registration, scopes, " +
		"placement (operation/global/operation over global) and parameter validity cycle with the index. Random stream: 1-4 alternatives x 0-3 of 4 schemes, " +
		"scopes, unregistered/undefined schemes, raw authenticator answers (error+principal, not-applicable+error), principal-specific authorizers, natural map order. " +
		"Non-trivial: at least one authenticator was called and the structure has >=2 schemes or >=2 alternatives."
}

func (c02) Decode(raw json.RawMessage) (any, error) {
	var in c02In
	err := json.Unmarshal(raw, &in)
	return in, err
}

// ---------- generation ----------

var c02OrderedAlts [][]int // 15 ordered non-empty lists over {0,1,2} and the empty one

func init() {
	var rec func(cur []int, used int)
	rec = func(cur []int, used int) {
		if len(cur) > 0 {
			c02OrderedAlts = append(c02OrderedAlts, append([]int(nil), cur...))
		}
		for k := 0; k < 3; k++ {
			if used&(1<<k) == 0 {
				rec(append(cur, k), used|1<<k)
			}
		}
	}
	rec(nil, 0)
	c02OrderedAlts = append(c02OrderedAlts, []int{})
}

var c02Kinds4 = []string{"na", "acc", "nil", "rej"}

func c02ErrFor(k, salt int) *c02Err {
	codes := []int{401, 403, 0, 400, 401}
	return &c02Err{Code: codes[(k+salt)%len(codes)], Msg: 11 + k}
}

// c02Secondary fills the cycling dimensions: those that are part of the built API (placement, registration,
// scopes, authorizer present) from the structure index sidx, those of the request (parameter validity, what the
// authorizer answers) from the case index idx.
func c02Secondary(in *c02In, sidx, idx int) {
	h := idx*2654435761 + 12345
	if h < 0 {
		h = -h
	}
	g := sidx*40507 + 977
	if g < 0 {
		g = -g
	}
	in.Where = []string{"op", "global", "op-over-global"}[g%3]
	g /= 3
	in.BindOK = h%4 != 0
	h /= 4
	azKind := h % 4
	if g%5 == 0 {
		azKind = -1
	} else {
		azKind++
	}
	g /= 5
	h /= 4
	switch azKind {
	case -1:
	case 1:
		in.HasAz = true
	case 2:
		in.HasAz = true
		in.Deny = []c02Deny{{P: nil, Err: c02Err{0, 31}}}
		for p := 1; p <= 4; p++ {
			pp := p
			in.Deny = append(in.Deny, c02Deny{P: &pp, Err: c02Err{0, 31}})
		}
	case 3:
		in.HasAz = true
		in.Deny = []c02Deny{{P: nil, Err: c02Err{418, 32}}}
		for p := 1; p <= 4; p++ {
			pp := p
			in.Deny = append(in.Deny, c02Deny{P: &pp, Err: c02Err{418, 32}})
		}
	case 4:
		in.HasAz = true
		pp := 1 + h%3
		in.Deny = []c02Deny{{P: &pp, Err: c02Err{403, 33}}}
	}
	if g%7 == 0 {
		in.Unreg = []int{(g / 7) % 3}
	} else if g%7 == 1 {
		in.Undef = []int{(g / 7) % 3}
	}
	g /= 7
	h = g
	// scopes: none, or a pattern
	if h%3 != 0 {
		for i := range in.Alts {
			for j := range in.Alts[i].Schemes {
				n := in.Alts[i].Schemes[j].Name
				switch (h/3 + n + i) % 4 {
				case 0:
					in.Alts[i].Schemes[j].Scopes = []int{n}
				case 1:
					in.Alts[i].Schemes[j].Scopes = []int{0, n + 1}
				case 2:
					in.Alts[i].Schemes[j].Scopes = []int{3, 0}
				}
			}
		}
	}
}

func c02EnumCase(altIdx []int, vec int, sidx, idx int) c02In {
	in := c02In{Explicit: true}
	for _, ai := range altIdx {
		var a c02Alt
		a.Schemes = []c02Scheme{}
		for _, n := range c02OrderedAlts[ai] {
			a.Schemes = append(a.Schemes, c02Scheme{Name: n})
		}
		in.Alts = append(in.Alts, a)
	}
	for k := 0; k < 3; k++ {
		kind := c02Kinds4[(vec>>(2*k))&3]
		o := c02Out{Name: k, Kind: kind}
		if kind == "acc" {
			o.P = k + 1
		}
		if kind == "rej" {
			o.Err = c02ErrFor(k, idx)
		}
		in.Outs = append(in.Outs, o)
	}
	c02Secondary(&in, sidx, idx)
	return in
}

func (c02) Enumerate(tier string) []any {
	var out []any
	idx := 0
	n := len(c02OrderedAlts)
	maxLen := 1
	if tier == "thorough" {
		maxLen = 3
	}
	var rec func(cur []int)
	sidx := 0
	rec = func(cur []int) {
		if len(cur) > 0 {
			for vec := 0; vec < 64; vec++ {
				out = append(out, c02EnumCase(cur, vec, sidx, idx))
				idx++
			}
			sidx++
		}
		if len(cur) == maxLen {
			return
		}
		for a := 0; a < n; a++ {
			rec(append(append([]int(nil), cur...), a))
		}
	}
	rec(nil)
	return out
}

func (c02) Gen(r *rand.Rand, tier string, i int) any {
	// half of the stream: a random member of the 2- and 3-alternative enumeration (complete in thorough)
	if r.Intn(2) == 0 {
		n := 2 + r.Intn(2)
		var alts []int
		for j := 0; j < n; j++ {
			alts = append(alts, r.Intn(len(c02OrderedAlts)))
		}
		return c02EnumCase(alts, r.Intn(64), r.Intn(1<<12), r.Intn(1<<20))
	}
	in := c02In{Explicit: r.Intn(10) < 7, BindOK: r.Intn(5) != 0}
	in.Where = []string{"op", "global", "op-over-global"}[r.Intn(3)]
	nalts := 1 + r.Intn(4)
	if r.Intn(25) == 0 {
		nalts = 0
	}
	for a := 0; a < nalts; a++ {
		alt := c02Alt{Schemes: []c02Scheme{}}
		ns := r.Intn(4)
		perm := r.Perm(4)
		for j := 0; j < ns; j++ {
			s := c02Scheme{Name: perm[j]}
			for c := 0; c < 4; c++ {
				if r.Intn(4) == 0 {
					s.Scopes = append(s.Scopes, c)
				}
			}
			r.Shuffle(len(s.Scopes), func(x, y int) { s.Scopes[x], s.Scopes[y] = s.Scopes[y], s.Scopes[x] })
			alt.Schemes = append(alt.Schemes, s)
		}
		in.Alts = append(in.Alts, alt)
	}
	kinds := []string{"na", "acc", "acc", "acc", "nil", "rej", "rej", "rejp", "naerr"}
	for k := 0; k < 4; k++ {
		o := c02Out{Name: k, Kind: kinds[r.Intn(len(kinds))]}
		switch o.Kind {
		case "acc":
			o.P = 1 + r.Intn(4) // different schemes may yield the same principal
		case "rej", "naerr":
			o.Err = c02ErrFor(k, r.Intn(5))
		case "rejp":
			o.P = 1 + r.Intn(4)
			o.Err = c02ErrFor(k, r.Intn(5))
		}
		in.Outs = append(in.Outs, o)
	}
	for k := 0; k < 4; k++ {
		switch r.Intn(12) {
		case 0:
			in.Unreg = append(in.Unreg, k)
		case 1:
			in.Undef = append(in.Undef, k)
		}
	}
	switch r.Intn(5) {
	case 0:
	case 1:
		in.HasAz = true
	default:
		in.HasAz = true
		codes := []int{0, 403, 418, 401}
		for p := 0; p <= 4; p++ {
			if r.Intn(3) == 0 {
				d := c02Deny{Err: c02Err{codes[r.Intn(len(codes))], 31 + p}}
				if p > 0 {
					pp := p
					d.P = &pp
				}
				in.Deny = append(in.Deny, d)
			}
		}
	}
	return in
}

// ---------- running the real code ----------

type c02Env struct {
	in   c02In
	outs map[int]c02Out
	deny []c02Deny
	log  []c02Ev
}

type c02Built struct {
	env *c02Env
	ctx *middleware.Context
	h   http.Handler
}

var c02Cache = map[string]*c02Built{}

func c02SchemeName(k int) string { return "s" + strconv.Itoa(k) }
func c02ScopeName(k int) string  { return "c" + strconv.Itoa(k) }
func c02ParseID(s string) int {
	n, err := strconv.Atoi(s[1:])
	if err != nil {
		return 99
	}
	return n
}

func c02MkErr(e *c02Err) error {
	if e == nil {
		return nil
	}
	if e.Code == 0 {
		return stderrors.New("m" + strconv.Itoa(e.Msg))
	}
	return errors.New(int32(e.Code), "m%d", e.Msg)
}

var c02MsgRe = regexp.MustCompile(`^m(\d+)$`)

func c02MsgID(s string) int {
	if m := c02MsgRe.FindStringSubmatch(s); m != nil {
		n, _ := strconv.Atoi(m[1])
		return n
	}
	return 0
}

func c02ReadErr(err error) *c02Err {
	if err == nil {
		return nil
	}
	if e, ok := err.(errors.Error); ok {
		return &c02Err{Code: int(e.Code()), Msg: c02MsgID(e.Error())}
	}
	return &c02Err{Code: 0, Msg: c02MsgID(err.Error())}
}

func c02Princ(v interface{}) *int {
	if v == nil {
		return nil
	}
	if n, ok := v.(int); ok {
		return &n
	}
	n := -1
	return &n
}

func c02ReqJSON(a c02Alt) map[string][]string {
	m := map[string][]string{}
	for _, s := range a.Schemes {
		sc := []string{}
		for _, c := range s.Scopes {
			sc = append(sc, c02ScopeName(c))
		}
		m[c02SchemeName(s.Name)] = sc
	}
	return m
}

func c02Contains(xs []int, x int) bool {
	for _, y := range xs {
		if x == y {
			return true
		}
	}
	return false
}

func c02Build(in c02In) *c02Built {
	keyObj := struct {
		A     []c02Alt
		W     string
		U, D  []int
		HasAz bool
	}{in.Alts, in.Where, in.Unreg, in.Undef, in.HasAz}
	kb, _ := json.Marshal(keyObj)
	if b, ok := c02Cache[string(kb)]; ok {
		return b
	}
	defs := map[string]any{}
	for k := 0; k < 4; k++ {
		if !c02Contains(in.Undef, k) {
			defs[c02SchemeName(k)] = map[string]any{"type": "apiKey", "name": "X-S" + strconv.Itoa(k), "in": "header"}
		}
	}
	reqs := []map[string][]string{}
	for _, a := range in.Alts {
		reqs = append(reqs, c02ReqJSON(a))
	}
	op := map[string]any{
		"operationId": "doX",
		"parameters": []any{
			map[string]any{"name": "n", "in": "query", "type": "integer", "required": true},
			map[string]any{"name": "b", "in": "body", "schema": map[string]any{"type": "object"}},
		},
		"responses": map[string]any{"200": map[string]any{"description": "ok"}},
	}
	doc := map[string]any{
		"swagger": "2.0", "info": map[string]any{"title": "t", "version": "1"},
		"consumes": []string{"application/json"}, "produces": []string{"application/json"},
		"securityDefinitions": defs,
		"paths":               map[string]any{"/x": map[string]any{"post": op}},
	}
	switch in.Where {
	case "global":
		doc["security"] = reqs
	case "op-over-global":
		doc["security"] = []map[string][]string{{"s0": {}}, {"s3": {"c3"}}}
		op["security"] = reqs
	default:
		op["security"] = reqs
	}
	raw, _ := json.Marshal(doc)
	spec, err := loads.Analyzed(json.RawMessage(raw), "")
	if err != nil {
		panic(err)
	}
	env := &c02Env{}
	api := untyped.NewAPI(spec)
	api.RegisterConsumer("application/json", runtime.ConsumerFunc(func(rd io.Reader, data interface{}) error {
		env.log = append(env.log, c02Ev{K: "bind"})
		return runtime.JSONConsumer().Consume(rd, data)
	}))
	api.RegisterProducer("application/json", runtime.JSONProducer())
	for k := 0; k < 4; k++ {
		if c02Contains(in.Undef, k) || c02Contains(in.Unreg, k) {
			continue
		}
		name := k
		api.RegisterAuth(c02SchemeName(k), runtime.AuthenticatorFunc(func(params interface{}) (bool, interface{}, error) {
			ev := c02Ev{K: "auth", S: name}
			if sr, ok := params.(*security.ScopedAuthRequest); ok {
				for _, sc := range sr.RequiredScopes {
					ev.Sc = append(ev.Sc, c02ParseID(sc))
				}
			} else {
				ev.Sc = []int{98}
			}
			env.log = append(env.log, ev)
			o := env.outs[name]
			switch o.Kind {
			case "acc":
				return true, o.P, nil
			case "nil":
				return true, nil, nil
			case "rej":
				return true, nil, c02MkErr(o.Err)
			case "rejp":
				return true, o.P, c02MkErr(o.Err)
			case "naerr":
				return false, nil, c02MkErr(o.Err)
			}
			return false, nil, nil
		}))
	}
	if in.HasAz {
		api.RegisterAuthorizer(runtime.AuthorizerFunc(func(_ *http.Request, p interface{}) error {
			pp := c02Princ(p)
			env.log = append(env.log, c02Ev{K: "az", P: pp})
			for _, d := range env.deny {
				if (d.P == nil) == (pp == nil) && (pp == nil || *pp == *d.P) {
					e := d.Err
					return c02MkErr(&e)
				}
			}
			return nil
		}))
	}
	api.RegisterOperation("post", "/x", runtime.OperationHandlerFunc(func(interface{}) (interface{}, error) {
		env.log = append(env.log, c02Ev{K: "handle"})
		return map[string]string{"r": "ok"}, nil
	}))
	b := &c02Built{env: env, ctx: middleware.NewContext(spec, api, nil)}
	// the router is created here; the builder middleware imposes the case's scheme orders on the matched route
	b.h = b.ctx.RoutesHandler(func(next http.Handler) http.Handler {
		return http.HandlerFunc(func(w http.ResponseWriter, r *http.Request) {
			if mr := middleware.MatchedRouteFrom(r); mr != nil {
				mr.Authenticators = c02Order(env.in, mr.Authenticators)
			}
			next.ServeHTTP(w, r)
		})
	})
	if len(c02Cache) > 300 {
		c02Cache = map[string]*c02Built{}
	}
	c02Cache[string(kb)] = b
	return b
}

func c02Request(in c02In) *http.Request {
	target := "/x?n=7"
	if !in.BindOK {
		target = "/x?n=seven"
	}
	req := httptest.NewRequest("POST", target, bytes.NewReader([]byte(`{"a":1}`)))
	req.Header.Set("Content-Type", "application/json")
	return req
}

// c02Order imposes (explicit) or reads back the scheme order of every alternative on a private copy.
func c02Order(in c02In, ras middleware.RouteAuthenticators) middleware.RouteAuthenticators {
	cp := append(middleware.RouteAuthenticators(nil), ras...)
	if in.Explicit && len(cp) == len(in.Alts) {
		for i := range cp {
			if len(in.Alts[i].Schemes) == 0 {
				continue
			}
			names := make([]string, 0, len(in.Alts[i].Schemes))
			for _, s := range in.Alts[i].Schemes {
				names = append(names, c02SchemeName(s.Name))
			}
			// only a permutation of what the builder produced may be imposed
			a, b := append([]string(nil), names...), append([]string(nil), cp[i].Schemes...)
			sort.Strings(a)
			sort.Strings(b)
			if reflect.DeepEqual(a, b) {
				cp[i].Schemes = names
			}
		}
	}
	return cp
}

func (c02) Run(inAny any) any {
	in := inAny.(c02In)
	var obs c02Obs
	obs.DRoute = -1
	b := c02Build(in)
	env := b.env
	env.outs = map[int]c02Out{}
	for _, o := range in.Outs {
		env.outs[o.Name] = o
	}
	env.deny = in.Deny
	env.in = in
	var msgs []string

	// ---- direct: RouteAuthenticators.Authenticate
	env.log = nil
	p, m := recoverTo(func() {
		mr, req, ok := b.ctx.RouteInfo(c02Request(in))
		if !ok {
			panic("route not found")
		}
		ras := c02Order(in, mr.Authenticators)
		for _, ra := range ras {
			var o []int
			if !ra.AllowsAnonymous() {
				for _, s := range ra.Schemes {
					o = append(o, c02ParseID(s))
				}
			}
			obs.Orders = append(obs.Orders, o)
		}
		route := &middleware.MatchedRoute{}
		applies, usr, err := ras.Authenticate(req, route)
		obs.DApplies, obs.DUsr, obs.DErr = applies, c02Princ(usr), c02ReadErr(err)
		if route.Authenticator != nil {
			for i := range ras {
				if ras[i].AllowsAnonymous() == route.Authenticator.AllowsAnonymous() &&
					reflect.DeepEqual(ras[i].Schemes, route.Authenticator.Schemes) &&
					reflect.DeepEqual(ras[i].Scopes, route.Authenticator.Scopes) {
					obs.DRoute = i
					break
				}
			}
		}
	})
	obs.DTr = env.log
	if p {
		obs.DTr = append(obs.DTr, c02Ev{K: "panic"})
		msgs = append(msgs, "direct: "+m)
	}

	// ---- Context.Authorize, as generated servers call it
	env.log = nil
	p, m = recoverTo(func() {
		mr, req, _ := b.ctx.RouteInfo(c02Request(in))
		mr.Authenticators = c02Order(in, mr.Authenticators)
		usr, r2, err := b.ctx.Authorize(req, mr)
		if err != nil {
			obs.BKind, obs.BErr = "refused", c02ReadErr(err)
			return
		}
		obs.BKind = "granted"
		obs.BUsr = c02Princ(usr)
		if r2 != nil {
			cp := c02Princ(middleware.SecurityPrincipalFrom(r2))
			if (cp == nil) != (obs.BUsr == nil) || (cp != nil && *cp != *obs.BUsr) {
				obs.BKind = "mismatch"
			}
			for _, sc := range middleware.SecurityScopesFrom(r2) {
				obs.BScopes = append(obs.BScopes, c02ParseID(sc))
			}
		} else if len(in.Alts) > 0 {
			obs.BKind = "mismatch"
		}
	})
	obs.BTr = env.log
	if p {
		obs.BKind = "panic"
		msgs = append(msgs, "authorize: "+m)
	}

	// ---- the untyped API handler
	env.log = nil
	rec := httptest.NewRecorder()
	p, m = recoverTo(func() {
		b.h.ServeHTTP(rec, c02Request(in))
	})
	obs.ATr = env.log
	if p {
		obs.ATr = append(obs.ATr, c02Ev{K: "panic"})
		msgs = append(msgs, "handler: "+m)
	} else {
		var body struct {
			Message string `json:"message"`
		}
		_ = json.Unmarshal(rec.Body.Bytes(), &body)
		obs.ATr = append(obs.ATr, c02Ev{K: "respond", C: rec.Code, M: c02MsgID(body.Message)})
	}
	obs.Panic = strings.Join(msgs, "; ")
	return obs
}

// ---------- Gallina ----------

func c02Nats(xs []int) string { return coqList(xs, func(x int) string { return strconv.Itoa(x) }) }

func c02OptNat(p *int) string {
	if p == nil {
		return "None"
	}
	return fmt.Sprintf("(Some %d)", *p)
}

func c02CoqErr(e c02Err) string {
	if e.Code == 0 {
		return fmt.Sprintf("(EPlain %d)", e.Msg)
	}
	return fmt.Sprintf("(EStatus %d %d)", e.Code, e.Msg)
}

func c02CoqOptErr(e *c02Err) string {
	if e == nil {
		return "None"
	}
	return "(Some " + c02CoqErr(*e) + ")"
}

func c02CoqTrace(tr []c02Ev) string {
	return coqList(tr, func(e c02Ev) string {
		switch e.K {
		case "auth":
			return fmt.Sprintf("AuthCalled %d %s", e.S, c02Nats(e.Sc))
		case "az":
			return "AuthorizerCalled " + c02OptNat(e.P)
		case "bind":
			return "Bind"
		case "handle":
			return "Handle None []"
		case "respond":
			return fmt.Sprintf("Respond %d %d", e.C, e.M)
		}
		return "Panicked"
	})
}

// c02ActualAlts returns the alternatives with the scheme order the implementation used.
func c02ActualAlts(in c02In, obs c02Obs) []c02Alt {
	out := make([]c02Alt, len(in.Alts))
	for i, a := range in.Alts {
		out[i] = c02Alt{Schemes: []c02Scheme{}}
		if i >= len(obs.Orders) || len(obs.Orders[i]) != len(a.Schemes) {
			out[i] = a
			continue
		}
		for _, n := range obs.Orders[i] {
			for _, s := range a.Schemes {
				if s.Name == n {
					out[i].Schemes = append(out[i].Schemes, s)
				}
			}
		}
	}
	return out
}

func (c02) Coq(inAny any, obsAny any) string {
	in, obs := inAny.(c02In), obsAny.(c02Obs)
	alts := coqList(c02ActualAlts(in, obs), func(a c02Alt) string {
		if len(a.Schemes) == 0 {
			return "Anon"
		}
		return "Reqs " + coqList(a.Schemes, func(s c02Scheme) string {
			reg := !c02Contains(in.Unreg, s.Name) && !c02Contains(in.Undef, s.Name)
			return fmt.Sprintf("mk_sreq %d %s %s", s.Name, c02Nats(s.Scopes), coqBool(reg))
		})
	})
	outs := coqList(in.Outs, func(o c02Out) string {
		var t string
		switch o.Kind {
		case "acc":
			t = fmt.Sprintf("Acc (Some %d)", o.P)
		case "nil":
			t = "Acc None"
		case "rej", "rejp":
			t = "Rej " + c02CoqErr(*o.Err)
		default:
			t = "NA"
		}
		return fmt.Sprintf("(%d, %s)", o.Name, t)
	})
	az := "None"
	if in.HasAz {
		az = "(Some " + coqList(in.Deny, func(d c02Deny) string { return coqPair(c02OptNat(d.P), c02CoqErr(d.Err)) }) + ")"
	}
	droute := "None"
	if obs.DRoute >= 0 {
		droute = fmt.Sprintf("(Some %d)", obs.DRoute)
	}
	var bres string
	switch obs.BKind {
	case "granted":
		bres = fmt.Sprintf("(Granted %s %s)", c02OptNat(obs.BUsr), c02Nats(obs.BScopes))
	case "refused":
		bres = "(Refused " + c02CoqErr(*obs.BErr) + ")"
	default:
		bres = "AuthPanic"
	}
	return fmt.Sprintf("CSec %s %s %s %s %s %s %s %s %s %s %s %s", alts, outs, az, coqBool(in.BindOK),
		c02CoqTrace(obs.DTr), coqBool(obs.DApplies), c02OptNat(obs.DUsr), c02CoqOptErr(obs.DErr), droute,
		c02CoqTrace(obs.BTr), bres, c02CoqTrace(obs.ATr))
}

// ---------- classification ----------

func (c02) Classify(inAny any, obsAny any) []string { return nil }

func (c02) Category(inAny any, obsAny any) (string, bool) {
	in, obs := inAny.(c02In), obsAny.(c02Obs)
	nschemes, anon := 0, false
	for _, a := range in.Alts {
		nschemes += len(a.Schemes)
		if len(a.Schemes) == 0 {
			anon = true
		}
	}
	verdict := "refused"
	for _, e := range obs.ATr {
		if e.K == "handle" {
			verdict = "ran"
		}
	}
	if verdict == "refused" && len(obs.ATr) > 0 {
		last := obs.ATr[len(obs.ATr)-1]
		if last.K == "respond" {
			verdict = strconv.Itoa(last.C)
		} else {
			verdict = "panic"
		}
	}
	az := "noaz"
	if in.HasAz {
		az = "az"
		if len(in.Deny) > 0 {
			az = "az-deny"
		}
	}
	an := ""
	if anon {
		an = "+anon"
	}
	order := "natural"
	if in.Explicit {
		order = "explicit"
	}
	extra := ""
	if len(in.Unreg)+len(in.Undef) > 0 {
		extra = "/unreg"
	}
	calls := 0
	for _, e := range obs.ATr {
		if e.K == "auth" {
			calls++
		}
	}
	cat := fmt.Sprintf("%dalt%s/%s/%s/%s/%s%s", len(in.Alts), an, in.Where, order, az, verdict, extra)
	return cat, calls >= 1 && (nschemes >= 2 || len(in.Alts) >= 2)
}
