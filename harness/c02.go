//go:build verif && (c02 || allprops)

package main

import (
	"bytes"
	"context"
	"encoding/json"
	stderrors "errors"
	"fmt"
	"io"
	"math/rand"
	"mime"
	"net/http"
	"net/http/httptest"
	"net/url"
	"reflect"
	"regexp"
	"sort"
	"strconv"
	"strings"

	"github.com/go-openapi/errors"
	"github.com/go-openapi/loads"
	"github.com/go-openapi/runtime"
	"github.com/go-openapi/runtime/middleware"
	"github.com/go-openapi/runtime/middleware/untyped"
	"github.com/go-openapi/runtime/security"
	"github.com/go-openapi/strfmt"
)

// C02 — security requirements are an OR of ANDs. One case = a requirement structure written into a generated
// swagger document (global and/or per operation), a per-scheme outcome table for scripted authenticators, an
// authorizer behaviour and one request. The real code is observed three ways on it:
//   direct   RouteAuthenticators.Authenticate on the route's authenticators (scheme orders set explicitly or read back)
//   authz    Context.Authorize, then SecurityPrincipalFrom/SecurityScopesFrom on the request it returns
//   handler  the untyped API handler (router -> newSecureAPI -> bind -> operation handler)
// Each observation is an event trace from instrumented authenticators, authorizer, consumer and handler.

type c02Scheme struct {
	Name   int   `json:"name"`
	Scopes []int `json:"scopes,omitempty"`
}

type c02Alt struct {
	Schemes []c02Scheme `json:"schemes"` // empty = the anonymous alternative {}
}

type c02Err struct {
	Code int `json:"code"` // 0 = a plain Go error
	Msg  int `json:"msg"`
	// Wrap > 0: an ordinary Go error (no status of its own, the model reads it as a plain error with message Msg) that
	// WRAPS the error described by Code (an errors.Error, or a plain error when Code = 0):
	// 1 = fmt.Errorf("m<Msg>: %w", inner), 2 = errors.Join(plain m<Msg>, inner), 3 = a type with an Unwrap method
	Wrap int `json:"wrap,omitempty"`
}

type c02WrapErr struct {
	msg   string
	inner error
}

func (e *c02WrapErr) Error() string { return e.msg }
func (e *c02WrapErr) Unwrap() error { return e.inner }

type c02Out struct {
	Name int     `json:"name"`
	Kind string  `json:"kind"` // na | acc | nil | rej | rejp (error and a principal) | naerr (not applicable, with an error value)
	P    int     `json:"p,omitempty"`
	Err  *c02Err `json:"err,omitempty"`
}

type c02Deny struct {
	P   *int   `json:"p"` // nil = the nil principal
	Err c02Err `json:"err"`
}

type c02Hdr struct {
	N string `json:"n"`
	V string `json:"v"`
}

// Scheme ids: 0..3 are s0..s3; 4..7 are their case twins S0..S3; 8..11 their padded twins "s0 ".."s3 " (a
// distinct securityDefinitions key that differs only by a trailing blank). Ids >= 4 exist only when listed in Twins.
type c02In struct {
	Alts     []c02Alt  `json:"alts"`
	Where    string    `json:"where"`              // op | global | op-over-global
	Explicit bool      `json:"explicit,omitempty"` // scheme orders of Alts are imposed; else read back from the route
	Unreg    []int     `json:"unreg,omitempty"`    // defined schemes without a registered authenticator
	Undef    []int     `json:"undef,omitempty"`    // schemes absent from securityDefinitions
	Twins    []int     `json:"twins,omitempty"`    // look-alike scheme ids (>= 4) present in securityDefinitions
	Outs     []c02Out  `json:"outs"`
	HasAz    bool      `json:"has_az,omitempty"`
	Deny     []c02Deny `json:"deny,omitempty"`
	BindOK   bool      `json:"bind_ok"`
	Method   string    `json:"method,omitempty"` // method the secured operation is declared under; "" = POST
	Hdrs     []c02Hdr  `json:"hdrs,omitempty"`   // extra request headers (CORS preflight, method override, ...)
	Hist     *c02Hist  `json:"hist,omitempty"`   // a history case: everything above except nothing is used
}

// a history case is written as {"hist": ...} alone
func (in c02In) MarshalJSON() ([]byte, error) {
	if in.Hist != nil {
		return json.Marshal(struct {
			Hist *c02Hist `json:"hist"`
		}{in.Hist})
	}
	type plain c02In
	return json.Marshal(plain(in))
}

// ---- history cases: several requests on ONE api whose schemes are checked by the library's own authenticators
// scheme kinds (fixed): 0 security.BearerAuth, 1 BearerAuthCtx (both read the bearer token), 2 APIKeyAuth (header X-K2),
// 3 APIKeyAuthCtx (query k3), 4 BasicAuth, 5 BasicAuthCtx (both read the basic user). The validation callbacks
// answer from the Grants table; those of 0 and 1 also check the scopes required by the operation.

type c02HOp struct {
	Method string   `json:"method"`
	Path   string   `json:"path"`
	Alts   []c02Alt `json:"alts"`
}

type c02Grant struct {
	S      int   `json:"s"`
	Tok    int   `json:"tok"`
	P      *int  `json:"p"` // nil = the callback answers (nil, nil)
	Scopes []int `json:"scopes,omitempty"`
}

type c02HCall struct {
	Op       int      `json:"op"`
	Bearer   *int     `json:"bearer,omitempty"`
	BearerIn string   `json:"bearer_in,omitempty"` // header (default) | query; forced to query when Basic is present too
	Basic    *int     `json:"basic,omitempty"`
	Key2     *int     `json:"key2,omitempty"`
	Key3     *int     `json:"key3,omitempty"`
	BindOK   bool     `json:"bind_ok"`
	Via      string   `json:"via"` // serve | authorize
	Hdrs     []c02Hdr `json:"hdrs,omitempty"`
	// Shape of the request entity. 0 = a JSON body with Content-Type application/json. 1 = NO body and the
	// Content-Type header Ct (absent when empty; possibly malformed: nothing in the stack has a reason to read it).
	// 2 / 3 = a urlencoded / multipart form body holding the fields Form (only sent with POST, PUT, PATCH; with
	// another method the request is sent as shape 1). A form field access_token is where a bearer scheme looks
	// last (RFC 6750 2.2); every other field, the extra query XQ and extra headers named like a key are decoys.
	Shape int      `json:"shape,omitempty"`
	Ct    string   `json:"ct,omitempty"`
	Form  []c02Hdr `json:"form,omitempty"`
	XQ    string   `json:"xq,omitempty"` // appended to the query string, e.g. "&X-K2=t1"
}

type c02Hist struct {
	Ops    []c02HOp   `json:"ops"`
	Grants []c02Grant `json:"grants"`
	HasAz  bool       `json:"has_az,omitempty"`
	Deny   []c02Deny  `json:"deny,omitempty"`
	Calls  []c02HCall `json:"calls"`
}

type c02HObs struct {
	Tr    []c02Ev `json:"tr"`
	Kind  string  `json:"kind,omitempty"` // authorize: granted | refused | panic | mismatch
	Usr   *int    `json:"usr,omitempty"`
	Sc    []int   `json:"sc,omitempty"`
	Err   *c02Err `json:"err,omitempty"`
	FTr   []c02Ev `json:"f_tr"`
	FKind string  `json:"f_kind,omitempty"`
	FUsr  *int    `json:"f_usr,omitempty"`
	FSc   []int   `json:"f_sc,omitempty"`
	FErr  *c02Err `json:"f_err,omitempty"`
}

type c02Ev struct {
	K  string `json:"k"` // auth | az | bind | handle | respond | panic
	S  int    `json:"s,omitempty"`
	Sc []int  `json:"sc,omitempty"`
	P  *int   `json:"p,omitempty"`
	C  int    `json:"c,omitempty"`
	M  int    `json:"m,omitempty"`
}

type c02Obs struct {
	Orders   [][]int   `json:"orders"` // scheme order actually used, per alternative
	DTr      []c02Ev   `json:"d_tr"`
	DApplies bool      `json:"d_applies"`
	DUsr     *int      `json:"d_usr"`
	DErr     *c02Err   `json:"d_err"`
	DRoute   int       `json:"d_route"` // index of the alternative left in MatchedRoute.Authenticator, -1 none
	BTr      []c02Ev   `json:"b_tr"`
	BKind    string    `json:"b_kind"` // granted | refused | panic | mismatch
	BUsr     *int      `json:"b_usr"`
	BScopes  []int     `json:"b_scopes"`
	BErr     *c02Err   `json:"b_err"`
	ATr      []c02Ev   `json:"a_tr"`
	Panic    string    `json:"panic,omitempty"`
	H        []c02HObs `json:"h,omitempty"`
}

type c02 struct{}

func init() { register(c02{}) }

func (c02) ID() string        { return "C02" }
func (c02) CoqModule() string { return "Check_C02" }
func (c02) Rule() string {
	return "enumeration: every ordered list of 1 (quick) / 1-3 (thorough) alternatives over the 16 ordered non-empty scheme lists of {s0,s1,s2} and {} " +
		"x all 4^3 outcome vectors (not applicable / principal / nil principal / rejected), explicit scheme orders; authorizer kind, registration, scopes, " +
		"placement (operation/global/operation over global) and parameter validity cycle with the index. Random stream: 1-4 alternatives x 0-3 of 4 schemes, " +
		"scopes, unregistered/undefined schemes, raw authenticator answers (error+principal, not-applicable+error), principal-specific authorizers, natural map order. " +
		"Every case also carries the method the operation is declared under (POST GET OPTIONS PUT DELETE HEAD PATCH) and 0-3 extra request headers " +
		"(CORS preflight, method override, forwarding, upgrade; in two picks of five an Accept header, acceptable to the operation or not - image/png, text/csv;q=0.5, application/xml ... - " +
		"which must not change a refusal, while a request let through is answered 406 before binding); the authorizer denies with a plain error, an errors.Error or an ordinary error that WRAPS " +
		"an errors.Error (percent-w, errors.Join, a type with Unwrap; inner codes 418 403 401 404 500 402 or a plain inner error), which carries no status itself, and schemes reject with such errors too; one structure in seven of the cycling dimension names a look-alike scheme (S0 / trailing blank) " +
		"with only one of the pair registered. One generated case in nine is a HISTORY: 2-4 operations (same path, different methods) on one api instance whose six schemes " +
		"are checked by security.BearerAuth/BearerAuthCtx/APIKeyAuth/APIKeyAuthCtx/BasicAuth/BasicAuthCtx over a grants table (bearer callbacks check the required scopes), " +
		"2-5 requests mostly presenting the same credential to operations requiring different scopes, each also served by a fresh instance. " +
		"About half of the calls of a history vary the request ENTITY: no body with an absent, unusual or unparsable Content-Type (application/json; charset, text/plain; =x, ;, a/b/c ...), or a urlencoded / multipart " +
		"form body (POST PUT PATCH; the operations consume the form types) whose fields, like an extra query parameter or header, are named after the credential parameters (k3, X-K2, access_token, Authorization) " +
		"while the credential is missing from - or rejected in - its proper place: only a bearer scheme may read the form field access_token, and only when header and query hold no token; one history in four probes the focus scheme this way in every call. " +
		"Non-trivial: at least one authenticator was called and the structure has >=2 schemes or >=2 alternatives; history: authenticators were asked in >=2 requests."
}

func (c02) Decode(raw json.RawMessage) (any, error) {
	var in c02In
	err := json.Unmarshal(raw, &in)
	return in, err
}

// ---------- generation ----------

var c02OrderedAlts [][]int // 15 ordered non-empty lists over {0,1,2} and the empty one

func init() {
	var rec func(cur []int, used int)
	rec = func(cur []int, used int) {
		if len(cur) > 0 {
			c02OrderedAlts = append(c02OrderedAlts, append([]int(nil), cur...))
		}
		for k := 0; k < 3; k++ {
			if used&(1<<k) == 0 {
				rec(append(cur, k), used|1<<k)
			}
		}
	}
	rec(nil, 0)
	c02OrderedAlts = append(c02OrderedAlts, []int{})
}

var c02Kinds4 = []string{"na", "acc", "nil", "rej"}

// status codes of the API errors that get wrapped into ordinary errors (0 = a plain error is wrapped)
var c02InnerCodes = []int{418, 403, 401, 404, 500, 402, 0}

func c02ErrFor(k, salt int) *c02Err {
	codes := []int{401, 403, 0, 400, 401}
	return &c02Err{Code: codes[(k+salt)%len(codes)], Msg: 11 + k}
}

// c02Secondary fills the cycling dimensions: those that are part of the built API (placement, registration,
// scopes, authorizer present) from the structure index sidx, those of the request (parameter validity, what the
// authorizer answers) from the case index idx.
func c02Secondary(in *c02In, sidx, idx int) {
	h := idx*2654435761 + 12345
	if h < 0 {
		h = -h
	}
	g := sidx*40507 + 977
	if g < 0 {
		g = -g
	}
	in.Where = []string{"op", "global", "op-over-global"}[g%3]
	in.Method = c02Methods[sidx%len(c02Methods)]
	in.Hdrs = c02HdrsFor(idx*7919 + 13)
	g /= 3
	in.BindOK = h%4 != 0
	h /= 4
	azKind := h % 6
	if g%5 == 0 {
		azKind = -1
	} else {
		azKind++
	}
	g /= 5
	h /= 6
	switch azKind {
	case -1:
	case 1:
		in.HasAz = true
	case 2:
		in.HasAz = true
		in.Deny = []c02Deny{{P: nil, Err: c02Err{Code: 0, Msg: 31}}}
		for p := 1; p <= 4; p++ {
			pp := p
			in.Deny = append(in.Deny, c02Deny{P: &pp, Err: c02Err{Code: 0, Msg: 31}})
		}
	case 3:
		in.HasAz = true
		in.Deny = []c02Deny{{P: nil, Err: c02Err{Code: 418, Msg: 32}}}
		for p := 1; p <= 4; p++ {
			pp := p
			in.Deny = append(in.Deny, c02Deny{P: &pp, Err: c02Err{Code: 418, Msg: 32}})
		}
	case 4:
		in.HasAz = true
		pp := 1 + h%3
		in.Deny = []c02Deny{{P: &pp, Err: c02Err{Code: 403, Msg: 33}}}
	case 5: // everybody is denied with an ordinary error that wraps an API error
		in.HasAz = true
		e := c02Err{Code: c02InnerCodes[(h/3)%len(c02InnerCodes)], Msg: 34, Wrap: 1 + h%3}
		in.Deny = []c02Deny{{P: nil, Err: e}}
		for p := 1; p <= 4; p++ {
			pp := p
			in.Deny = append(in.Deny, c02Deny{P: &pp, Err: e})
		}
	case 6: // one principal is denied with a wrapped API error
		in.HasAz = true
		pp := 1 + h%3
		in.Deny = []c02Deny{{P: &pp, Err: c02Err{Code: c02InnerCodes[(h/9)%len(c02InnerCodes)], Msg: 35, Wrap: 1 + (h/3)%3}}}
	}
	twin := 0
	if g%7 == 0 {
		in.Unreg = []int{(g / 7) % 3}
	} else if g%7 == 1 {
		in.Undef = []int{(g / 7) % 3}
	} else if g%7 == 2 {
		twin = 1 + (g/7)%4
	}
	g /= 7
	h = g
	// scopes: none, or a pattern
	if h%3 != 0 {
		for i := range in.Alts {
			for j := range in.Alts[i].Schemes {
				n := in.Alts[i].Schemes[j].Name
				switch (h/3 + n + i) % 4 {
				case 0:
					in.Alts[i].Schemes[j].Scopes = []int{n}
				case 1:
					in.Alts[i].Schemes[j].Scopes = []int{0, n + 1}
				case 2:
					in.Alts[i].Schemes[j].Scopes = []int{3, 0}
				}
			}
		}
	}
	if twin > 0 {
		c02Twin(in, twin)
	}
}

func c02EnumCase(altIdx []int, vec int, sidx, idx int) c02In {
	in := c02In{Explicit: true}
	for _, ai := range altIdx {
		var a c02Alt
		a.Schemes = []c02Scheme{}
		for _, n := range c02OrderedAlts[ai] {
			a.Schemes = append(a.Schemes, c02Scheme{Name: n})
		}
		in.Alts = append(in.Alts, a)
	}
	for k := 0; k < 3; k++ {
		kind := c02Kinds4[(vec>>(2*k))&3]
		o := c02Out{Name: k, Kind: kind}
		if kind == "acc" {
			o.P = k + 1
		}
		if kind == "rej" {
			o.Err = c02ErrFor(k, idx)
		}
		in.Outs = append(in.Outs, o)
	}
	c02Secondary(&in, sidx, idx)
	return in
}

func (c02) Enumerate(tier string) []any {
	var out []any
	idx := 0
	n := len(c02OrderedAlts)
	maxLen := 1
	if tier == "thorough" {
		maxLen = 3
	}
	var rec func(cur []int)
	sidx := 0
	rec = func(cur []int) {
		if len(cur) > 0 {
			for vec := 0; vec < 64; vec++ {
				out = append(out, c02EnumCase(cur, vec, sidx, idx))
				idx++
			}
			sidx++
		}
		if len(cur) == maxLen {
			return
		}
		for a := 0; a < n; a++ {
			rec(append(append([]int(nil), cur...), a))
		}
	}
	rec(nil)
	return out
}

func (c02) Gen(r *rand.Rand, tier string, i int) any {
	// one case in nine: a history on one api instance with the library's own authenticators
	if r.Intn(9) == 0 {
		return c02GenHist(r)
	}
	// half of the rest: a random member of the 2- and 3-alternative enumeration (complete in thorough)
	if r.Intn(2) == 0 {
		n := 2 + r.Intn(2)
		var alts []int
		for j := 0; j < n; j++ {
			alts = append(alts, r.Intn(len(c02OrderedAlts)))
		}
		return c02EnumCase(alts, r.Intn(64), r.Intn(1<<12), r.Intn(1<<20))
	}
	in := c02In{Explicit: r.Intn(10) < 7, BindOK: r.Intn(5) != 0}
	in.Where = []string{"op", "global", "op-over-global"}[r.Intn(3)]
	in.Method = c02Methods[r.Intn(len(c02Methods))]
	in.Hdrs = c02HdrsFor(r.Intn(1 << 24))
	nalts := 1 + r.Intn(4)
	if r.Intn(25) == 0 {
		nalts = 0
	}
	for a := 0; a < nalts; a++ {
		alt := c02Alt{Schemes: []c02Scheme{}}
		ns := r.Intn(4)
		perm := r.Perm(4)
		for j := 0; j < ns; j++ {
			s := c02Scheme{Name: perm[j]}
			for c := 0; c < 4; c++ {
				if r.Intn(4) == 0 {
					s.Scopes = append(s.Scopes, c)
				}
			}
			r.Shuffle(len(s.Scopes), func(x, y int) { s.Scopes[x], s.Scopes[y] = s.Scopes[y], s.Scopes[x] })
			alt.Schemes = append(alt.Schemes, s)
		}
		in.Alts = append(in.Alts, alt)
	}
	kinds := []string{"na", "acc", "acc", "acc", "nil", "rej", "rej", "rejp", "naerr"}
	for k := 0; k < 4; k++ {
		o := c02Out{Name: k, Kind: kinds[r.Intn(len(kinds))]}
		switch o.Kind {
		case "acc":
			o.P = 1 + r.Intn(4) // different schemes may yield the same principal
		case "rej", "naerr":
			o.Err = c02ErrFor(k, r.Intn(5))
		case "rejp":
			o.P = 1 + r.Intn(4)
			o.Err = c02ErrFor(k, r.Intn(5))
		}
		if o.Err != nil && o.Kind != "naerr" && r.Intn(6) == 0 {
			o.Err.Wrap = 1 + r.Intn(3) // the scheme rejects with an ordinary error wrapping an API error: no status of its own
		}
		in.Outs = append(in.Outs, o)
	}
	for k := 0; k < 4; k++ {
		switch r.Intn(12) {
		case 0:
			in.Unreg = append(in.Unreg, k)
		case 1:
			in.Undef = append(in.Undef, k)
		}
	}
	switch r.Intn(5) {
	case 0:
	case 1:
		in.HasAz = true
	default:
		in.HasAz = true
		codes := []int{0, 403, 418, 401}
		for p := 0; p <= 4; p++ {
			if r.Intn(3) == 0 {
				d := c02Deny{Err: c02Err{Code: codes[r.Intn(len(codes))], Msg: 31 + p}}
				if r.Intn(3) == 0 {
					d.Err = c02Err{Code: c02InnerCodes[r.Intn(len(c02InnerCodes))], Msg: 31 + p, Wrap: 1 + r.Intn(3)}
				}
				if p > 0 {
					pp := p
					d.P = &pp
				}
				in.Deny = append(in.Deny, d)
			}
		}
	}
	if r.Intn(8) == 0 {
		c02Twin(&in, 1+r.Intn(4))
	}
	return in
}

// ---------- running the real code ----------

type c02Env struct {
	in      c02In
	outs    map[int]c02Out
	deny    []c02Deny
	log     []c02Ev
	bound   bool     // a bind event was logged for the current request
	curAlts []c02Alt // history cases: the alternatives (with scheme orders) of the operation being called
}

func (e *c02Env) reset() { e.log, e.bound = nil, false }

// bind records that parameter binding ran (once per request): the JSON consumer for requests with a body, the
// validator of the string format of query parameter f for every method.
func (e *c02Env) bind() {
	if !e.bound {
		e.bound = true
		e.log = append(e.log, c02Ev{K: "bind"})
	}
}

type c02Fmt string

func (f c02Fmt) String() string                { return string(f) }
func (f c02Fmt) MarshalText() ([]byte, error)  { return []byte(f), nil }
func (f *c02Fmt) UnmarshalText(b []byte) error { *f = c02Fmt(b); return nil }

var _ strfmt.Format = new(c02Fmt)
var _ = context.Background

type c02Built struct {
	env *c02Env
	ctx *middleware.Context
	h   http.Handler
}

var c02Cache = map[string]*c02Built{}

func c02SchemeName(k int) string {
	b := strconv.Itoa(k % 4)
	switch k / 4 {
	case 0:
		return "s" + b
	case 1:
		return "S" + b
	}
	return "s" + b + " "
}
func c02SchemeID(name string) int {
	for k := 0; k < 12; k++ {
		if c02SchemeName(k) == name {
			return k
		}
	}
	return 99
}
func c02Defined(in c02In, k int) bool {
	if k < 4 {
		return !c02Contains(in.Undef, k)
	}
	return c02Contains(in.Twins, k)
}
func c02Registered(in c02In, k int) bool { return c02Defined(in, k) && !c02Contains(in.Unreg, k) }
func c02Method(in c02In) string {
	if in.Method == "" {
		return "POST"
	}
	return in.Method
}
func c02ScopeName(k int) string { return "c" + strconv.Itoa(k) }
func c02ParseID(s string) int {
	n, err := strconv.Atoi(s[1:])
	if err != nil {
		return 99
	}
	return n
}

func c02MkErr(e *c02Err) error {
	if e == nil {
		return nil
	}
	if e.Wrap > 0 {
		var inner error = stderrors.New("w" + strconv.Itoa(e.Msg))
		if e.Code != 0 {
			inner = errors.New(int32(e.Code), "w%d", e.Msg)
		}
		switch e.Wrap {
		case 1:
			return fmt.Errorf("m%d: %w", e.Msg, inner)
		case 2:
			return stderrors.Join(stderrors.New("m"+strconv.Itoa(e.Msg)), inner)
		default:
			return &c02WrapErr{msg: "m" + strconv.Itoa(e.Msg), inner: inner}
		}
	}
	if e.Code == 0 {
		return stderrors.New("m" + strconv.Itoa(e.Msg))
	}
	return errors.New(int32(e.Code), "m%d", e.Msg)
}

// the message id of an error text: m<id>, or the text of a wrapping error m<id>: w<id> / m<id>\nw<id> (the text of
// the wrapped error w<id> alone has no id: it reads as 0)
var c02MsgRe = regexp.MustCompile(`^m(\d+)(?:(?:: |\n)w\d+)?$`)

func c02MsgID(s string) int {
	if m := c02MsgRe.FindStringSubmatch(s); m != nil {
		n, _ := strconv.Atoi(m[1])
		return n
	}
	return 0
}

func c02ReadErr(err error) *c02Err {
	if err == nil {
		return nil
	}
	if e, ok := err.(errors.Error); ok {
		return &c02Err{Code: int(e.Code()), Msg: c02MsgID(e.Error())}
	}
	return &c02Err{Code: 0, Msg: c02MsgID(err.Error())}
}

func c02Princ(v interface{}) *int {
	if v == nil {
		return nil
	}
	if n, ok := v.(int); ok {
		return &n
	}
	n := -1
	return &n
}

func c02ReqJSON(a c02Alt) map[string][]string {
	m := map[string][]string{}
	for _, s := range a.Schemes {
		sc := []string{}
		for _, c := range s.Scopes {
			sc = append(sc, c02ScopeName(c))
		}
		m[c02SchemeName(s.Name)] = sc
	}
	return m
}

func c02Contains(xs []int, x int) bool {
	for _, y := range xs {
		if x == y {
			return true
		}
	}
	return false
}

func c02Build(in c02In) *c02Built {
	keyObj := struct {
		A       []c02Alt
		W       string
		U, D, T []int
		HasAz   bool
		M       string
	}{in.Alts, in.Where, in.Unreg, in.Undef, in.Twins, in.HasAz, c02Method(in)}
	kb, _ := json.Marshal(keyObj)
	if b, ok := c02Cache[string(kb)]; ok {
		return b
	}
	defs := map[string]any{}
	for k := 0; k < 12; k++ {
		if c02Defined(in, k) {
			defs[c02SchemeName(k)] = map[string]any{"type": "apiKey", "name": "X-S" + strconv.Itoa(k), "in": "header"}
		}
	}
	reqs := []map[string][]string{}
	for _, a := range in.Alts {
		reqs = append(reqs, c02ReqJSON(a))
	}
	op := map[string]any{
		"operationId": "doX",
		"parameters": []any{
			map[string]any{"name": "n", "in": "query", "type": "integer", "required": true},
			map[string]any{"name": "f", "in": "query", "type": "string", "format": "c02f"},
			map[string]any{"name": "b", "in": "body", "schema": map[string]any{"type": "object"}},
		},
		"responses": map[string]any{"200": map[string]any{"description": "ok"}},
	}
	doc := map[string]any{
		"swagger": "2.0", "info": map[string]any{"title": "t", "version": "1"},
		"consumes": []string{"application/json"}, "produces": []string{"application/json"},
		"securityDefinitions": defs,
		"paths":               map[string]any{"/x": map[string]any{strings.ToLower(c02Method(in)): op}},
	}
	switch in.Where {
	case "global":
		doc["security"] = reqs
	case "op-over-global":
		doc["security"] = []map[string][]string{{"s0": {}}, {"s3": {"c3"}}}
		op["security"] = reqs
	default:
		op["security"] = reqs
	}
	raw, _ := json.Marshal(doc)
	spec, err := loads.Analyzed(json.RawMessage(raw), "")
	if err != nil {
		panic(err)
	}
	env := &c02Env{}
	api := untyped.NewAPI(spec)
	c02Instrument(api, env)
	for k := 0; k < 12; k++ {
		if !c02Registered(in, k) {
			continue
		}
		name := k
		api.RegisterAuth(c02SchemeName(k), runtime.AuthenticatorFunc(func(params interface{}) (bool, interface{}, error) {
			ev := c02Ev{K: "auth", S: name}
			if sr, ok := params.(*security.ScopedAuthRequest); ok {
				for _, sc := range sr.RequiredScopes {
					ev.Sc = append(ev.Sc, c02ParseID(sc))
				}
			} else {
				ev.Sc = []int{98}
			}
			env.log = append(env.log, ev)
			o := env.outs[name]
			switch o.Kind {
			case "acc":
				return true, o.P, nil
			case "nil":
				return true, nil, nil
			case "rej":
				return true, nil, c02MkErr(o.Err)
			case "rejp":
				return true, o.P, c02MkErr(o.Err)
			case "naerr":
				return false, nil, c02MkErr(o.Err)
			}
			return false, nil, nil
		}))
	}
	if in.HasAz {
		api.RegisterAuthorizer(runtime.AuthorizerFunc(func(_ *http.Request, p interface{}) error {
			pp := c02Princ(p)
			env.log = append(env.log, c02Ev{K: "az", P: pp})
			for _, d := range env.deny {
				if (d.P == nil) == (pp == nil) && (pp == nil || *pp == *d.P) {
					e := d.Err
					return c02MkErr(&e)
				}
			}
			return nil
		}))
	}
	api.RegisterOperation(c02Method(in), "/x", runtime.OperationHandlerFunc(func(interface{}) (interface{}, error) {
		env.log = append(env.log, c02Ev{K: "handle"})
		return map[string]string{"r": "ok"}, nil
	}))
	b := &c02Built{env: env, ctx: middleware.NewContext(spec, api, nil)}
	// the router is created here; the builder middleware imposes the case's scheme orders on the matched route
	b.h = b.ctx.RoutesHandler(func(next http.Handler) http.Handler {
		return http.HandlerFunc(func(w http.ResponseWriter, r *http.Request) {
			if mr := middleware.MatchedRouteFrom(r); mr != nil {
				mr.Authenticators = c02Order(env.in, mr.Authenticators)
			}
			next.ServeHTTP(w, r)
		})
	})
	if len(c02Cache) > 300 {
		c02Cache = map[string]*c02Built{}
	}
	c02Cache[string(kb)] = b
	return b
}

// c02Instrument registers the consumer/producer and the string format whose validator reveals parameter binding.
func c02Instrument(api *untyped.API, env *c02Env) {
	api.RegisterConsumer("application/json", runtime.ConsumerFunc(func(rd io.Reader, data interface{}) error {
		env.bind()
		return runtime.JSONConsumer().Consume(rd, data)
	}))
	api.RegisterProducer("application/json", runtime.JSONProducer())
	api.RegisterFormat("c02f", new(c02Fmt), func(string) bool {
		env.bind()
		return true
	})
}

func c02NewRequest(method, path string, bindOK bool, query string, hdrs []c02Hdr) *http.Request {
	target := path + "?f=v&n=7"
	if !bindOK {
		target = path + "?f=v&n=seven"
	}
	target += query
	req := httptest.NewRequest(method, target, bytes.NewReader([]byte(`{"a":1}`)))
	req.Header.Set("Content-Type", "application/json")
	for _, h := range hdrs {
		req.Header.Add(h.N, h.V)
	}
	return req
}

func c02Request(in c02In) *http.Request {
	return c02NewRequest(c02Method(in), "/x", in.BindOK, "", in.Hdrs)
}

// c02Order imposes (explicit) or reads back the scheme order of every alternative on a private copy.
func c02Order(in c02In, ras middleware.RouteAuthenticators) middleware.RouteAuthenticators {
	return c02OrderAlts(in.Alts, in.Explicit, c02SchemeName, ras)
}

func c02OrderAlts(alts []c02Alt, explicit bool, name func(int) string, ras middleware.RouteAuthenticators) middleware.RouteAuthenticators {
	cp := append(middleware.RouteAuthenticators(nil), ras...)
	if explicit && len(cp) == len(alts) {
		for i := range cp {
			if len(alts[i].Schemes) == 0 {
				continue
			}
			names := make([]string, 0, len(alts[i].Schemes))
			for _, s := range alts[i].Schemes {
				names = append(names, name(s.Name))
			}
			// only a permutation of what the builder produced may be imposed
			a, b := append([]string(nil), names...), append([]string(nil), cp[i].Schemes...)
			sort.Strings(a)
			sort.Strings(b)
			if reflect.DeepEqual(a, b) {
				cp[i].Schemes = names
			}
		}
	}
	return cp
}

func (c02) Run(inAny any) any {
	in := inAny.(c02In)
	var obs c02Obs
	obs.DRoute = -1
	if in.Hist != nil {
		p, m := recoverTo(func() { obs.H = c02RunHist(in.Hist) })
		if p {
			obs.Panic = "history: " + m
		}
		return obs
	}
	b := c02Build(in)
	env := b.env
	env.outs = map[int]c02Out{}
	for _, o := range in.Outs {
		env.outs[o.Name] = o
	}
	env.deny = in.Deny
	env.in = in
	var msgs []string

	// ---- direct: RouteAuthenticators.Authenticate
	env.reset()
	p, m := recoverTo(func() {
		mr, req, ok := b.ctx.RouteInfo(c02Request(in))
		if !ok {
			panic("route not found")
		}
		ras := c02Order(in, mr.Authenticators)
		for _, ra := range ras {
			var o []int
			if !ra.AllowsAnonymous() {
				for _, s := range ra.Schemes {
					o = append(o, c02SchemeID(s))
				}
			}
			obs.Orders = append(obs.Orders, o)
		}
		route := &middleware.MatchedRoute{}
		applies, usr, err := ras.Authenticate(req, route)
		obs.DApplies, obs.DUsr, obs.DErr = applies, c02Princ(usr), c02ReadErr(err)
		if route.Authenticator != nil {
			for i := range ras {
				if ras[i].AllowsAnonymous() == route.Authenticator.AllowsAnonymous() &&
					reflect.DeepEqual(ras[i].Schemes, route.Authenticator.Schemes) &&
					reflect.DeepEqual(ras[i].Scopes, route.Authenticator.Scopes) {
					obs.DRoute = i
					break
				}
			}
		}
	})
	obs.DTr = env.log
	if p {
		obs.DTr = append(obs.DTr, c02Ev{K: "panic"})
		msgs = append(msgs, "direct: "+m)
	}

	// ---- Context.Authorize, as generated servers call it
	env.reset()
	p, m = recoverTo(func() {
		mr, req, _ := b.ctx.RouteInfo(c02Request(in))
		mr.Authenticators = c02Order(in, mr.Authenticators)
		usr, r2, err := b.ctx.Authorize(req, mr)
		if err != nil {
			obs.BKind, obs.BErr = "refused", c02ReadErr(err)
			return
		}
		obs.BKind = "granted"
		obs.BUsr = c02Princ(usr)
		if r2 != nil {
			cp := c02Princ(middleware.SecurityPrincipalFrom(r2))
			if (cp == nil) != (obs.BUsr == nil) || (cp != nil && *cp != *obs.BUsr) {
				obs.BKind = "mismatch"
			}
			for _, sc := range middleware.SecurityScopesFrom(r2) {
				obs.BScopes = append(obs.BScopes, c02ParseID(sc))
			}
		} else if len(in.Alts) > 0 {
			obs.BKind = "mismatch"
		}
	})
	obs.BTr = env.log
	if p {
		obs.BKind = "panic"
		msgs = append(msgs, "authorize: "+m)
	}

	// ---- the untyped API handler
	env.reset()
	rec := httptest.NewRecorder()
	p, m = recoverTo(func() {
		b.h.ServeHTTP(rec, c02Request(in))
	})
	obs.ATr = env.log
	if p {
		obs.ATr = append(obs.ATr, c02Ev{K: "panic"})
		msgs = append(msgs, "handler: "+m)
	} else {
		var body struct {
			Message string `json:"message"`
		}
		_ = json.Unmarshal(rec.Body.Bytes(), &body)
		ev := c02Ev{K: "respond", C: rec.Code, M: c02MsgID(body.Message)}
		if c02Method(in) == "HEAD" {
			ev.M = 0 // no body is promised for HEAD: the message is not an observable
		}
		obs.ATr = append(obs.ATr, ev)
	}
	obs.Panic = strings.Join(msgs, "; ")
	return obs
}

// ---------- Gallina ----------

func c02Nats(xs []int) string { return coqList(xs, func(x int) string { return strconv.Itoa(x) }) }

func c02OptNat(p *int) string {
	if p == nil {
		return "None"
	}
	return fmt.Sprintf("(Some %d)", *p)
}

func c02CoqErr(e c02Err) string {
	// an error that merely wraps an API error carries no status itself
	if e.Code == 0 || e.Wrap > 0 {
		return fmt.Sprintf("(EPlain %d)", e.Msg)
	}
	return fmt.Sprintf("(EStatus %d %d)", e.Code, e.Msg)
}

func c02CoqOptErr(e *c02Err) string {
	if e == nil {
		return "None"
	}
	return "(Some " + c02CoqErr(*e) + ")"
}

func c02CoqTrace(tr []c02Ev) string {
	return coqList(tr, func(e c02Ev) string {
		switch e.K {
		case "auth":
			return fmt.Sprintf("AuthCalled %d %s", e.S, c02Nats(e.Sc))
		case "az":
			return "AuthorizerCalled " + c02OptNat(e.P)
		case "bind":
			return "Bind"
		case "handle":
			return "Handle None []"
		case "respond":
			return fmt.Sprintf("Respond %d %d", e.C, e.M)
		}
		return "Panicked"
	})
}

// c02ActualAlts returns the alternatives with the scheme order the implementation used.
func c02ActualAlts(in c02In, obs c02Obs) []c02Alt {
	out := make([]c02Alt, len(in.Alts))
	for i, a := range in.Alts {
		out[i] = c02Alt{Schemes: []c02Scheme{}}
		if i >= len(obs.Orders) || len(obs.Orders[i]) != len(a.Schemes) {
			out[i] = a
			continue
		}
		for _, n := range obs.Orders[i] {
			for _, s := range a.Schemes {
				if s.Name == n {
					out[i].Schemes = append(out[i].Schemes, s)
				}
			}
		}
	}
	return out
}

func (c02) Coq(inAny any, obsAny any) string {
	in, obs := inAny.(c02In), obsAny.(c02Obs)
	if in.Hist != nil {
		return c02CoqHist(in.Hist, obs)
	}
	alts := coqList(c02ActualAlts(in, obs), func(a c02Alt) string {
		if len(a.Schemes) == 0 {
			return "Anon"
		}
		return "Reqs " + coqList(a.Schemes, func(s c02Scheme) string {
			reg := c02Registered(in, s.Name)
			return fmt.Sprintf("mk_sreq %d %s %s", s.Name, c02Nats(s.Scopes), coqBool(reg))
		})
	})
	outs := coqList(in.Outs, func(o c02Out) string {
		var t string
		switch o.Kind {
		case "acc":
			t = fmt.Sprintf("Acc (Some %d)", o.P)
		case "nil":
			t = "Acc None"
		case "rej", "rejp":
			t = "Rej " + c02CoqErr(*o.Err)
		default:
			t = "NA"
		}
		return fmt.Sprintf("(%d, %s)", o.Name, t)
	})
	az := "None"
	if in.HasAz {
		az = "(Some " + coqList(in.Deny, func(d c02Deny) string { return coqPair(c02OptNat(d.P), c02CoqErr(d.Err)) }) + ")"
	}
	droute := "None"
	if obs.DRoute >= 0 {
		droute = fmt.Sprintf("(Some %d)", obs.DRoute)
	}
	var bres string
	switch obs.BKind {
	case "granted":
		bres = fmt.Sprintf("(Granted %s %s)", c02OptNat(obs.BUsr), c02Nats(obs.BScopes))
	case "refused":
		bres = "(Refused " + c02CoqErr(*obs.BErr) + ")"
	default:
		bres = "AuthPanic"
	}
	return fmt.Sprintf("CSec %s %s %s %s %s %s %s %s %s %s %s %s %s %s", alts, outs, az, coqBool(in.BindOK), coqBool(c02FmtOK(in.Hdrs)), coqBool(c02Method(in) == "HEAD"),
		c02CoqTrace(obs.DTr), coqBool(obs.DApplies), c02OptNat(obs.DUsr), c02CoqOptErr(obs.DErr), droute,
		c02CoqTrace(obs.BTr), bres, c02CoqTrace(obs.ATr))
}

// ---------- classification ----------

func (c02) Classify(inAny any, obsAny any) []string { return nil }

func (c02) Category(inAny any, obsAny any) (string, bool) {
	in, obs := inAny.(c02In), obsAny.(c02Obs)
	if in.Hist != nil {
		return c02HistCategory(in.Hist, obs)
	}
	nschemes, anon := 0, false
	for _, a := range in.Alts {
		nschemes += len(a.Schemes)
		if len(a.Schemes) == 0 {
			anon = true
		}
	}
	verdict := "refused"
	for _, e := range obs.ATr {
		if e.K == "handle" {
			verdict = "ran"
		}
	}
	if verdict == "refused" && len(obs.ATr) > 0 {
		last := obs.ATr[len(obs.ATr)-1]
		if last.K == "respond" {
			verdict = strconv.Itoa(last.C)
		} else {
			verdict = "panic"
		}
	}
	az := "noaz"
	if in.HasAz {
		az = "az"
		if len(in.Deny) > 0 {
			az = "az-deny"
		}
		for _, d := range in.Deny {
			if d.Err.Wrap > 0 {
				az = "az-deny-wrapped"
			}
		}
	}
	an := ""
	if anon {
		an = "+anon"
	}
	order := "natural"
	if in.Explicit {
		order = "explicit"
	}
	extra := ""
	if len(in.Unreg)+len(in.Undef) > 0 {
		extra = "/unreg"
	}
	calls := 0
	for _, e := range obs.ATr {
		if e.K == "auth" {
			calls++
		}
	}
	if len(in.Twins) > 0 {
		extra += "/twin"
	}
	hd := ""
	for _, h := range in.Hdrs {
		if h.N == "Access-Control-Request-Method" {
			hd = "+preflight"
		}
	}
	if hd == "" && len(in.Hdrs) > 0 {
		hd = "+hdrs"
	}
	for _, h := range in.Hdrs {
		if h.N == "Accept" {
			if c02FmtOK(in.Hdrs) {
				hd += "+accept"
			} else {
				hd += "+accept-none"
			}
			break
		}
	}
	cat := fmt.Sprintf("%dalt%s/%s/%s%s/%s/%s/%s%s", len(in.Alts), an, in.Where, c02Method(in), hd, order, az, verdict, extra)
	return cat, calls >= 1 && (nschemes >= 2 || len(in.Alts) >= 2)
}

// ---------- history cases ----------

func c02HName(k int) string { return "h" + strconv.Itoa(k) }
func c02HID(name string) int {
	if len(name) == 2 && name[0] == 'h' && name[1] >= '0' && name[1] <= '9' {
		return int(name[1] - '0')
	}
	return 99
}

// error values of the validation callbacks (mirrored by h_unk / h_insuf in Check_C02.v)
func c02HUnk(s int) error {
	if s == 3 {
		return stderrors.New("m43")
	}
	return errors.New(401, "m%d", 40+s)
}
func c02HInsuf(s int) error { return errors.New(403, "m%d", 50+s) }

// c02HDoc is the analyzed swagger document of a history case: immutable input, shared by the instance that serves
// the whole history and the fresh instances (each of which gets its own API, authenticators, context and router).
func c02HDoc(h *c02Hist) *loads.Document {
	scopes := map[string]string{}
	for c := 0; c < 4; c++ {
		scopes[c02ScopeName(c)] = "scope"
	}
	defs := map[string]any{
		c02HName(0): map[string]any{"type": "oauth2", "flow": "implicit", "authorizationUrl": "http://a.example/authorize", "scopes": scopes},
		c02HName(1): map[string]any{"type": "oauth2", "flow": "implicit", "authorizationUrl": "http://b.example/authorize", "scopes": scopes},
		c02HName(2): map[string]any{"type": "apiKey", "name": "X-K2", "in": "header"},
		c02HName(3): map[string]any{"type": "apiKey", "name": "k3", "in": "query"},
		c02HName(4): map[string]any{"type": "basic"},
		c02HName(5): map[string]any{"type": "basic"},
	}
	paths := map[string]any{}
	for i, o := range h.Ops {
		reqs := []map[string][]string{}
		for _, a := range o.Alts {
			m := map[string][]string{}
			for _, s := range a.Schemes {
				sc := []string{}
				for _, c := range s.Scopes {
					sc = append(sc, c02ScopeName(c))
				}
				m[c02HName(s.Name)] = sc
			}
			reqs = append(reqs, m)
		}
		op := map[string]any{
			"operationId": "op" + strconv.Itoa(i),
			"security":    reqs,
			"parameters": []any{
				map[string]any{"name": "n", "in": "query", "type": "integer", "required": true},
				map[string]any{"name": "f", "in": "query", "type": "string", "format": "c02f"},
				map[string]any{"name": "b", "in": "body", "schema": map[string]any{"type": "object"}},
			},
			"responses": map[string]any{"200": map[string]any{"description": "ok"}},
		}
		item, _ := paths[o.Path].(map[string]any)
		if item == nil {
			item = map[string]any{}
			paths[o.Path] = item
		}
		item[strings.ToLower(o.Method)] = op
	}
	doc := map[string]any{
		"swagger": "2.0", "info": map[string]any{"title": "t", "version": "1"},
		"consumes": []string{"application/json", c02FormURL, c02FormMulti}, "produces": []string{"application/json"},
		"securityDefinitions": defs, "paths": paths,
	}
	raw, _ := json.Marshal(doc)
	spec, err := loads.Analyzed(json.RawMessage(raw), "")
	if err != nil {
		panic(err)
	}
	return spec
}

func c02HBuild(h *c02Hist, spec *loads.Document) *c02Built {
	env := &c02Env{deny: h.Deny}
	api := untyped.NewAPI(spec)
	c02Instrument(api, env)
	for _, mt := range []string{c02FormURL, c02FormMulti} {
		api.RegisterConsumer(mt, runtime.ConsumerFunc(func(rd io.Reader, _ interface{}) error {
			env.bind()
			_, _ = io.Copy(io.Discard, rd)
			return nil
		}))
	}
	lookup := func(s int, cred string, required []string, scoped bool) (interface{}, error) {
		id := -1
		if len(cred) > 1 {
			id = c02ParseID(cred)
		}
		for _, g := range h.Grants {
			if g.S == s && g.Tok == id {
				if scoped {
					for _, sc := range required {
						if !c02Contains(g.Scopes, c02ParseID(sc)) {
							return nil, c02HInsuf(s)
						}
					}
				}
				if g.P == nil {
					return nil, nil
				}
				return *g.P, nil
			}
		}
		return nil, c02HUnk(s)
	}
	auths := []runtime.Authenticator{
		security.BearerAuth(c02HName(0), func(tok string, sc []string) (interface{}, error) { return lookup(0, tok, sc, true) }),
		security.BearerAuthCtx(c02HName(1), func(ctx context.Context, tok string, sc []string) (context.Context, interface{}, error) {
			p, err := lookup(1, tok, sc, true)
			return ctx, p, err
		}),
		security.APIKeyAuth("X-K2", "header", func(tok string) (interface{}, error) { return lookup(2, tok, nil, false) }),
		security.APIKeyAuthCtx("k3", "query", func(ctx context.Context, tok string) (context.Context, interface{}, error) {
			p, err := lookup(3, tok, nil, false)
			return ctx, p, err
		}),
		security.BasicAuth(func(u, _ string) (interface{}, error) { return lookup(4, u, nil, false) }),
		security.BasicAuthCtx(func(ctx context.Context, u, _ string) (context.Context, interface{}, error) {
			p, err := lookup(5, u, nil, false)
			return ctx, p, err
		}),
	}
	for k, inner := range auths {
		k, inner := k, inner
		api.RegisterAuth(c02HName(k), runtime.AuthenticatorFunc(func(params interface{}) (bool, interface{}, error) {
			ev := c02Ev{K: "auth", S: k}
			if sr, ok := params.(*security.ScopedAuthRequest); ok {
				for _, sc := range sr.RequiredScopes {
					ev.Sc = append(ev.Sc, c02ParseID(sc))
				}
			} else {
				ev.Sc = []int{98}
			}
			env.log = append(env.log, ev)
			return inner.Authenticate(params)
		}))
	}
	if h.HasAz {
		api.RegisterAuthorizer(runtime.AuthorizerFunc(func(_ *http.Request, p interface{}) error {
			pp := c02Princ(p)
			env.log = append(env.log, c02Ev{K: "az", P: pp})
			for _, d := range env.deny {
				if (d.P == nil) == (pp == nil) && (pp == nil || *pp == *d.P) {
					e := d.Err
					return c02MkErr(&e)
				}
			}
			return nil
		}))
	}
	for _, o := range h.Ops {
		api.RegisterOperation(o.Method, o.Path, runtime.OperationHandlerFunc(func(interface{}) (interface{}, error) {
			env.log = append(env.log, c02Ev{K: "handle"})
			return map[string]string{"r": "ok"}, nil
		}))
	}
	b := &c02Built{env: env, ctx: middleware.NewContext(spec, api, nil)}
	b.h = b.ctx.RoutesHandler(func(next http.Handler) http.Handler {
		return http.HandlerFunc(func(w http.ResponseWriter, r *http.Request) {
			if mr := middleware.MatchedRouteFrom(r); mr != nil {
				mr.Authenticators = c02OrderAlts(env.curAlts, true, c02HName, mr.Authenticators)
			}
			next.ServeHTTP(w, r)
		})
	})
	return b
}

func c02HTok(id int) string { return "t" + strconv.Itoa(id) }

// c02HCreds is what the request of a call carries per scheme (scheme, token id), as the model sees it.
func c02HCreds(method string, c c02HCall) [][2]int {
	var out [][2]int
	if c.Bearer != nil {
		out = append(out, [2]int{0, *c.Bearer}, [2]int{1, *c.Bearer})
	} else if c02HasForm(method, c) {
		// no token in the Authorization header nor in the query: the first access_token field of a form body
		for _, f := range c.Form {
			if f.N == accessTokenField {
				if f.V != "" {
					id := 99 // not a token the grants table can know
					if len(f.V) > 1 {
						id = c02ParseID(f.V)
					}
					out = append(out, [2]int{0, id}, [2]int{1, id})
				}
				break
			}
		}
	}
	if c.Key2 != nil {
		out = append(out, [2]int{2, *c.Key2})
	}
	if c.Key3 != nil {
		out = append(out, [2]int{3, *c.Key3})
	}
	if c.Basic != nil {
		out = append(out, [2]int{4, *c.Basic}, [2]int{5, *c.Basic})
	}
	return out
}

const (
	c02FormURL       = "application/x-www-form-urlencoded"
	c02FormMulti     = "multipart/form-data"
	accessTokenField = "access_token"
	c02Boundary      = "c02boundary"
)

// c02HasForm: the call is sent with a form body (shapes 2 and 3 under a method whose body net/http parses as a form).
func c02HasForm(method string, c c02HCall) bool {
	return (c.Shape == 2 || c.Shape == 3) && (method == "POST" || method == "PUT" || method == "PATCH")
}

// c02HEntity replaces the JSON entity of the request by what the call's shape asks for.
func c02HEntity(req *http.Request, c c02HCall) {
	if c.Shape == 0 {
		return
	}
	var body []byte
	ct := c.Ct
	if c02HasForm(req.Method, c) {
		if c.Shape == 2 {
			ct = c02FormURL
			for i, f := range c.Form {
				if i > 0 {
					body = append(body, '&')
				}
				body = append(body, (url.QueryEscape(f.N) + "=" + url.QueryEscape(f.V))...)
			}
		} else {
			ct = c02FormMulti + "; boundary=" + c02Boundary
			for _, f := range c.Form {
				body = append(body, ("--" + c02Boundary + "\r\nContent-Disposition: form-data; name=\"" + f.N + "\"\r\n\r\n" + f.V + "\r\n")...)
			}
			body = append(body, ("--" + c02Boundary + "--\r\n")...)
		}
	}
	if len(body) == 0 {
		req.Body, req.ContentLength = http.NoBody, 0
	} else {
		req.Body, req.ContentLength = io.NopCloser(bytes.NewReader(body)), int64(len(body))
	}
	if ct == "" {
		req.Header.Del("Content-Type")
	} else {
		req.Header.Set("Content-Type", ct)
	}
}

func c02HRequest(h *c02Hist, c c02HCall) *http.Request {
	op := h.Ops[c.Op]
	q := c.XQ
	if c.Key3 != nil {
		q += "&k3=" + c02HTok(*c.Key3)
	}
	bearerQuery := c.Bearer != nil && (c.BearerIn == "query" || c.Basic != nil)
	if bearerQuery {
		q += "&access_token=" + c02HTok(*c.Bearer)
	}
	req := c02NewRequest(op.Method, op.Path, c.BindOK, q, c.Hdrs)
	c02HEntity(req, c)
	if c.Bearer != nil && !bearerQuery {
		req.Header.Set("Authorization", "Bearer "+c02HTok(*c.Bearer))
	}
	if c.Basic != nil {
		req.SetBasicAuth("u"+strconv.Itoa(*c.Basic), "pw")
	}
	if c.Key2 != nil {
		req.Header.Set("X-K2", c02HTok(*c.Key2))
	}
	return req
}

type c02HRes struct {
	tr   []c02Ev
	kind string
	usr  *int
	sc   []int
	err  *c02Err
	r2   *http.Request
}

func c02HReadBack(r2 *http.Request) (*int, []int) {
	var sc []int
	for _, s := range middleware.SecurityScopesFrom(r2) {
		sc = append(sc, c02ParseID(s))
	}
	return c02Princ(middleware.SecurityPrincipalFrom(r2)), sc
}

func c02SamePrinc(a, b *int) bool { return (a == nil) == (b == nil) && (a == nil || *a == *b) }

// c02HDo performs one call of a history on the given instance.
func c02HDo(b *c02Built, h *c02Hist, c c02HCall) c02HRes {
	var res c02HRes
	env := b.env
	env.reset()
	env.curAlts = h.Ops[c.Op].Alts
	req := c02HRequest(h, c)
	if c.Via == "authorize" {
		p, _ := recoverTo(func() {
			mr, rq, ok := b.ctx.RouteInfo(req)
			if !ok {
				panic("route not found")
			}
			mr.Authenticators = c02OrderAlts(env.curAlts, true, c02HName, mr.Authenticators)
			usr, r2, err := b.ctx.Authorize(rq, mr)
			if err != nil {
				res.kind, res.err = "refused", c02ReadErr(err)
				return
			}
			res.kind, res.usr = "granted", c02Princ(usr)
			if r2 == nil {
				res.kind = "mismatch"
				return
			}
			res.r2 = r2
			cp, sc := c02HReadBack(r2)
			res.sc = sc
			if !c02SamePrinc(cp, res.usr) {
				res.kind = "mismatch"
			}
		})
		res.tr = env.log
		if p {
			res.kind = "panic"
		}
		return res
	}
	rec := httptest.NewRecorder()
	p, _ := recoverTo(func() { b.h.ServeHTTP(rec, req) })
	res.tr = env.log
	if p {
		res.tr = append(res.tr, c02Ev{K: "panic"})
	} else {
		var body struct {
			Message string `json:"message"`
		}
		_ = json.Unmarshal(rec.Body.Bytes(), &body)
		ev := c02Ev{K: "respond", C: rec.Code, M: c02MsgID(body.Message)}
		if req.Method == "HEAD" {
			ev.M = 0
		}
		res.tr = append(res.tr, ev)
	}
	return res
}

// c02RunHist serves every call on ONE shared instance and, separately, on a fresh instance per call; what the
// earlier Authorize calls left in their requests is read again after the whole history has run.
func c02RunHist(h *c02Hist) []c02HObs {
	for _, c := range h.Calls {
		if c.Op < 0 || c.Op >= len(h.Ops) {
			panic("history: operation index out of range")
		}
	}
	doc := c02HDoc(h)
	shared := c02HBuild(h, doc)
	obs := make([]c02HObs, len(h.Calls))
	kept := make([]c02HRes, len(h.Calls))
	for i, c := range h.Calls {
		r := c02HDo(shared, h, c)
		kept[i] = r
		f := c02HDo(c02HBuild(h, doc), h, c)
		obs[i] = c02HObs{Tr: r.tr, Kind: r.kind, Usr: r.usr, Sc: r.sc, Err: r.err,
			FTr: f.tr, FKind: f.kind, FUsr: f.usr, FSc: f.sc, FErr: f.err}
	}
	for i, r := range kept {
		if r.r2 == nil || r.kind != "granted" {
			continue
		}
		cp, sc := c02HReadBack(r.r2)
		if !c02SamePrinc(cp, r.usr) || !reflect.DeepEqual(sc, r.sc) {
			obs[i].Kind = "mismatch"
		}
	}
	return obs
}

func c02CoqAuthz(kind string, usr *int, sc []int, err *c02Err) string {
	switch kind {
	case "granted":
		return fmt.Sprintf("(Granted %s %s)", c02OptNat(usr), c02Nats(sc))
	case "refused":
		if err != nil {
			return "(Refused " + c02CoqErr(*err) + ")"
		}
	}
	return "AuthPanic"
}

func c02CoqAz(hasAz bool, deny []c02Deny) string {
	if !hasAz {
		return "None"
	}
	return "(Some " + coqList(deny, func(d c02Deny) string { return coqPair(c02OptNat(d.P), c02CoqErr(d.Err)) }) + ")"
}

func c02CoqHist(h *c02Hist, obs c02Obs) string {
	ops := coqList(h.Ops, func(o c02HOp) string {
		return coqList(o.Alts, func(a c02Alt) string {
			if len(a.Schemes) == 0 {
				return "Anon"
			}
			return "Reqs " + coqList(a.Schemes, func(s c02Scheme) string {
				return fmt.Sprintf("mk_sreq %d %s true", s.Name, c02Nats(s.Scopes))
			})
		})
	})
	grants := coqList(h.Grants, func(g c02Grant) string {
		return fmt.Sprintf("mk_grant %d %d %s %s", g.S, g.Tok, c02OptNat(g.P), c02Nats(g.Scopes))
	})
	idx := make([]int, len(h.Calls))
	for i := range idx {
		idx[i] = i
	}
	calls := coqList(idx, func(i int) string {
		c := h.Calls[i]
		var o c02HObs
		if i < len(obs.H) {
			o = obs.H[i]
		} else {
			o = c02HObs{Tr: []c02Ev{{K: "panic"}}, FTr: []c02Ev{{K: "panic"}}, Kind: "panic", FKind: "panic"}
		}
		method := ""
		if c.Op >= 0 && c.Op < len(h.Ops) {
			method = h.Ops[c.Op].Method
		}
		creds := coqList(c02HCreds(method, c), func(p [2]int) string { return fmt.Sprintf("(%d, %d)", p[0], p[1]) })
		head := c.Op >= 0 && c.Op < len(h.Ops) && h.Ops[c.Op].Method == "HEAD"
		return fmt.Sprintf("mk_hcall %d %s %s %s %s %s %s %s %s %s", c.Op, creds, coqBool(c.BindOK), coqBool(c02FmtOK(c.Hdrs)), coqBool(c.Via == "authorize"), coqBool(head),
			c02CoqTrace(o.Tr), c02CoqAuthz(o.Kind, o.Usr, o.Sc, o.Err), c02CoqTrace(o.FTr), c02CoqAuthz(o.FKind, o.FUsr, o.FSc, o.FErr))
	})
	return fmt.Sprintf("CHist %s [0; 1] %s %s %s", ops, grants, c02CoqAz(h.HasAz, h.Deny), calls)
}

// ---------- generation of the new dimensions ----------

var c02Methods = []string{"POST", "GET", "OPTIONS", "PUT", "POST", "DELETE", "HEAD", "OPTIONS", "PATCH", "POST"}

var c02HdrPool = []c02Hdr{
	{"Access-Control-Request-Method", "POST"},
	{"Access-Control-Request-Method", "GET"},
	{"Origin", "http://evil.example"},
	{"Access-Control-Request-Headers", "authorization"},
	{"X-HTTP-Method-Override", "GET"},
	{"X-HTTP-Method-Override", "OPTIONS"},
	{"X-Forwarded-For", "127.0.0.1"},
	{"X-Forwarded-User", "admin"},
	{"Upgrade", "websocket"},
	{"Connection", "Upgrade"},
	{"X-Requested-With", "XMLHttpRequest"},
	{"Cookie", "session=1"},
}

// Accept headers, with whether they admit application/json (all the operations of the generated documents produce,
// and the API's default is). An unacceptable one must not change how a request is REFUSED; a request that is let
// through is answered 406 by the validation before parameter binding.
var c02AcceptPool = []struct {
	V  string
	OK bool
}{
	{"image/png", false},
	{"application/json", true},
	{"text/csv;q=0.5", false},
	{"*/*", true},
	{"application/xml", false},
	{"text/html, application/xhtml+xml;q=0.9", false},
	{"text/html, application/json;q=0.8", true},
	{"text/plain;q=0.9, image/*;q=0.5", false},
	{"application/*", true},
}

// c02FmtOK says whether some response format is acceptable to the request: no Accept header, or one that admits
// application/json. Values outside the pool (replay files) are put to the library's own negotiation.
func c02FmtOK(hdrs []c02Hdr) bool {
	var vals []string
	for _, h := range hdrs {
		if http.CanonicalHeaderKey(h.N) == "Accept" {
			vals = append(vals, h.V)
		}
	}
	if len(vals) == 0 {
		return true
	}
	if len(vals) == 1 {
		for _, a := range c02AcceptPool {
			if a.V == vals[0] {
				return a.OK
			}
		}
	}
	req := httptest.NewRequest("GET", "/x", nil)
	for _, v := range vals {
		req.Header.Add("Accept", v)
	}
	return middleware.NegotiateContentType(req, []string{"application/json"}, "") != ""
}

// c02HdrsFor picks 0-3 extra headers from a number: CORS preflight headers (the first pool entries) most often,
// at most one Accept header (acceptable or not to the operation), the other pool entries.
func c02HdrsFor(h int) []c02Hdr {
	if h < 0 {
		h = -h
	}
	if h%3 == 0 {
		return nil
	}
	h /= 3
	n := 1 + h%3
	h /= 3
	var out []c02Hdr
	accept := false
	for j := 0; j < n; j++ {
		region := h % 5
		h /= 5
		switch {
		case region <= 1 && !accept:
			accept = true
			out = append(out, c02Hdr{"Accept", c02AcceptPool[h%len(c02AcceptPool)].V})
			h /= len(c02AcceptPool)
		case region == 2:
			out = append(out, c02HdrPool[h%2]) // an Access-Control-Request-Method header
			h /= 2
		default:
			out = append(out, c02HdrPool[h%len(c02HdrPool)])
			h /= len(c02HdrPool)
		}
	}
	return out
}

// c02Twin rewrites the case for the look-alike dimension: kind 1/2 = the requirement names the case/padded twin of
// its first scheme and only the original has an authenticator; kind 3/4 = the requirement keeps the original name,
// which has no authenticator, while the twin has one (and accepts).
func c02Twin(in *c02In, kind int) {
	for i := range in.Alts {
		if len(in.Alts[i].Schemes) == 0 {
			continue
		}
		k := in.Alts[i].Schemes[0].Name
		if k >= 4 {
			return
		}
		fam := 4
		if kind%2 == 0 {
			fam = 8
		}
		t := k + fam
		in.Twins = append(in.Twins, t)
		if kind <= 2 {
			for a := range in.Alts {
				for j := range in.Alts[a].Schemes {
					if in.Alts[a].Schemes[j].Name == k {
						in.Alts[a].Schemes[j].Name = t
					}
				}
			}
			in.Unreg = append(in.Unreg, t)
		} else {
			if !c02Contains(in.Unreg, k) {
				in.Unreg = append(in.Unreg, k)
			}
			in.Outs = append(in.Outs, c02Out{Name: t, Kind: "acc", P: 1 + k})
		}
		return
	}
}

func c02RandScopes(r *rand.Rand, i int) []int {
	if r.Intn(8) == 0 {
		return nil
	}
	sc := []int{i % 4}
	if r.Intn(3) == 0 {
		if x := r.Intn(4); x != sc[0] {
			sc = append(sc, x)
		}
	}
	return sc
}

func c02GenHist(r *rand.Rand) c02In {
	h := &c02Hist{}
	methods := []string{"GET", "POST", "DELETE", "PUT", "OPTIONS", "HEAD", "PATCH"}
	perm := r.Perm(len(methods))
	nops := 2 + r.Intn(3)
	focus := []int{0, 0, 0, 1, 1, 1, 2, 3, 4, 5, 3, 2}[r.Intn(12)]
	scoped := focus <= 1
	for i := 0; i < nops; i++ {
		op := c02HOp{Method: methods[perm[i]], Path: "/x"}
		if r.Intn(4) == 0 {
			op.Path = "/y"
		}
		first := c02Scheme{Name: focus}
		if scoped {
			first.Scopes = c02RandScopes(r, i)
		}
		alt := c02Alt{Schemes: []c02Scheme{first}}
		if r.Intn(4) == 0 {
			o := r.Intn(6)
			if o != focus {
				sch := c02Scheme{Name: o}
				if o <= 1 {
					sch.Scopes = c02RandScopes(r, i+1)
				}
				alt.Schemes = append(alt.Schemes, sch)
				if r.Intn(2) == 0 {
					alt.Schemes[0], alt.Schemes[1] = alt.Schemes[1], alt.Schemes[0]
				}
			}
		}
		op.Alts = []c02Alt{alt}
		if r.Intn(3) == 0 {
			o := r.Intn(6)
			sch := c02Scheme{Name: o}
			if o <= 1 {
				sch.Scopes = c02RandScopes(r, i+2)
			}
			a2 := c02Alt{Schemes: []c02Scheme{sch}}
			if r.Intn(2) == 0 {
				op.Alts = append(op.Alts, a2)
			} else {
				op.Alts = []c02Alt{a2, alt}
			}
		}
		if r.Intn(10) == 0 {
			op.Alts = append(op.Alts, c02Alt{Schemes: []c02Scheme{}})
		}
		h.Ops = append(h.Ops, op)
	}
	ft := 1 + r.Intn(3)
	// the focus credential is granted what one of the operations requires (so it is accepted there), the other
	// operations require something else
	pp := 1 + r.Intn(5)
	fg := c02Grant{S: focus, Tok: ft, P: &pp}
	if scoped {
		for _, s := range h.Ops[r.Intn(nops)].Alts[0].Schemes {
			if s.Name == focus {
				fg.Scopes = append([]int(nil), s.Scopes...)
			}
		}
		if r.Intn(4) == 0 {
			fg.Scopes = append(fg.Scopes, r.Intn(4))
		}
	}
	if r.Intn(8) != 0 {
		h.Grants = append(h.Grants, fg)
	}
	for s := 0; s < 6; s++ {
		for tok := 1; tok <= 3; tok++ {
			if (s == focus && tok == ft) || r.Intn(4) == 0 {
				continue
			}
			g := c02Grant{S: s, Tok: tok}
			if r.Intn(12) != 0 {
				p := 1 + r.Intn(5)
				g.P = &p
			}
			if s <= 1 {
				for c := 0; c < 4; c++ {
					if r.Intn(2) == 0 {
						g.Scopes = append(g.Scopes, c)
					}
				}
			}
			h.Grants = append(h.Grants, g)
		}
	}
	if r.Intn(4) == 0 {
		h.HasAz = true
		codes := []int{0, 403, 418}
		for p := 0; p <= 5; p++ {
			if r.Intn(4) == 0 {
				d := c02Deny{Err: c02Err{Code: codes[r.Intn(len(codes))], Msg: 31 + p}}
				if r.Intn(3) == 0 {
					d.Err = c02Err{Code: c02InnerCodes[r.Intn(len(c02InnerCodes))], Msg: 31 + p, Wrap: 1 + r.Intn(3)}
				}
				if p > 0 {
					q := p
					d.P = &q
				}
				h.Deny = append(h.Deny, d)
			}
		}
	}
	ncalls := 2 + r.Intn(4)
	probe := r.Intn(4) == 0 // a history that probes WHERE the focus scheme looks for its credential
	order := r.Perm(nops)
	set := func(c *c02HCall, scheme, tok int) {
		t := tok
		switch scheme {
		case 0, 1:
			c.Bearer = &t
		case 2:
			c.Key2 = &t
		case 3:
			c.Key3 = &t
		default:
			c.Basic = &t
		}
	}
	for i := 0; i < ncalls; i++ {
		c := c02HCall{BindOK: r.Intn(7) != 0, Via: "serve"}
		if i < nops {
			c.Op = order[i]
		} else {
			c.Op = r.Intn(nops)
		}
		if r.Intn(3) == 0 {
			c.Via = "authorize"
		}
		for _, k := range []int{0, 2, 3, 4} {
			if r.Intn(6) == 0 {
				set(&c, k, 1+r.Intn(3))
			}
		}
		switch x := r.Intn(10); {
		case x < 8:
			set(&c, focus, ft)
		case x == 8:
			set(&c, focus, 1+r.Intn(3))
		}
		if c.Bearer != nil && r.Intn(4) == 0 {
			c.BearerIn = "query"
		}
		c.Hdrs = c02HdrsFor(r.Intn(1 << 24))
		c02GenShape(r, h, &c, focus, ft, probe)
		h.Calls = append(h.Calls, c)
	}
	return c02In{Hist: h}
}

// Content-Type values of body-less requests: well-formed ones, and ones mime.ParseMediaType refuses.
var c02CtPool = []string{
	"", "application/json", "text/plain", c02FormURL, c02FormMulti + "; boundary=" + c02Boundary, c02FormMulti, "application/octet-stream",
	"application/json; charset", "text/plain; =x", ";", "application/json;;", "a/b/c", "application/json; charset=\"utf-8", "text/html; charset=utf-8; charset=latin1", "/", "application/x-www-form-urlencoded; q",
}

// where each scheme kind looks for its credential, as a parameter name (decoys are put elsewhere under that name)
var c02CredNames = []string{accessTokenField, accessTokenField, "X-K2", "k3", "Authorization", "Authorization"}

// c02GenShape draws the entity shape of a call and decoy credentials: values placed where the scheme concerned
// does NOT look (a query api key in a form field or a header, a header api key in the query or a form field, a
// bearer token in a header named access_token) - except the form field access_token, which a bearer scheme does
// read when neither the Authorization header nor the query has a token. Half of the shaped calls lose the focus
// credential from its proper place, so that only the decoy (or nothing) is left.
func c02GenShape(r *rand.Rand, h *c02Hist, c *c02HCall, focus, ft int, probe bool) {
	x := r.Intn(20)
	if probe {
		x = 9 + x%11
	}
	if x < 9 {
		return
	}
	tok := func() string {
		if r.Intn(3) != 0 {
			return c02HTok(ft)
		}
		return c02HTok(1 + r.Intn(3))
	}
	if y := r.Intn(6); probe && y >= 4 {
		// the proper place holds a credential the scheme rejects (or another one), the decoy the good one
		bad := 1 + (ft+r.Intn(2))%3
		switch focus {
		case 0, 1:
			c.Bearer = &bad
		case 2:
			c.Key2 = &bad
		case 3:
			c.Key3 = &bad
		default:
			c.Basic = &bad
		}
	} else if y < 3 || probe {
		switch focus {
		case 0, 1:
			c.Bearer, c.BearerIn = nil, ""
		case 2:
			c.Key2 = nil
		case 3:
			c.Key3 = nil
		default:
			c.Basic = nil
		}
	}
	m := h.Ops[c.Op].Method
	if x < 14 && !(x >= 11 && (m == "POST" || m == "PUT" || m == "PATCH")) {
		c.Shape = 1
		c.Ct = c02CtPool[r.Intn(len(c02CtPool))]
	} else {
		c.Shape = 2 + r.Intn(2)
		c.Ct = c02CtPool[r.Intn(len(c02CtPool))] // used when the method carries no form
		n := 1 + r.Intn(3)
		for j := 0; j < n; j++ {
			name := c02CredNames[focus]
			if j > 0 || (!probe && r.Intn(3) == 0) {
				name = []string{accessTokenField, "X-K2", "k3", "n", "f", "Authorization", "x-k2", "K3"}[r.Intn(8)]
			}
			v := tok()
			if name == "n" {
				v = "7"
			}
			c.Form = append(c.Form, c02Hdr{name, v})
		}
	}
	z := r.Intn(6)
	if probe && z >= 3 && focus <= 3 {
		z = []int{2, 2, 0, 1}[focus]
	}
	switch z {
	case 0:
		c.XQ = "&X-K2=" + tok()
	case 1:
		c.Hdrs = append(c.Hdrs, c02Hdr{"k3", tok()})
	case 2:
		c.Hdrs = append(c.Hdrs, c02Hdr{"Access_token", tok()})
	}
}

func c02HistCategory(h *c02Hist, obs c02Obs) (string, bool) {
	ran, refused, asked := 0, 0, 0
	for i, o := range obs.H {
		called := false
		for _, e := range o.Tr {
			if e.K == "auth" {
				called = true
			}
		}
		if called {
			asked++
		}
		ok := o.Kind == "granted"
		if i < len(h.Calls) && h.Calls[i].Via != "authorize" {
			ok = false
			for _, e := range o.Tr {
				if e.K == "bind" {
					ok = true
				}
			}
		}
		if ok {
			ran++
		} else {
			refused++
		}
	}
	mix := "all-admitted"
	switch {
	case ran > 0 && refused > 0:
		mix = "mixed"
	case ran == 0:
		mix = "all-refused"
	}
	az := "noaz"
	if h.HasAz {
		az = "az"
	}
	focus := 9
	if len(h.Ops) > 0 && len(h.Ops[0].Alts) > 0 {
		for _, a := range h.Ops[0].Alts {
			for _, s := range a.Schemes {
				if focus == 9 {
					focus = s.Name
				}
			}
		}
	}
	shape := ""
	seen := map[string]bool{}
	for _, c := range h.Calls {
		lbl := ""
		method := ""
		if c.Op >= 0 && c.Op < len(h.Ops) {
			method = h.Ops[c.Op].Method
		}
		switch {
		case c02HasForm(method, c):
			lbl = "+form"
		case c.Shape != 0:
			lbl = "+nobody"
			if c.Ct != "" {
				if _, _, err := mime.ParseMediaType(c.Ct); err != nil {
					lbl = "+badct"
				}
			}
		}
		if lbl != "" && !seen[lbl] {
			seen[lbl] = true
		}
	}
	for _, l := range []string{"+form", "+nobody", "+badct"} {
		if seen[l] {
			shape += l
		}
	}
	return fmt.Sprintf("hist/%dops/%dcalls/h%d/%s/%s%s", len(h.Ops), len(h.Calls), focus, az, mix, shape), asked >= 2
}
