module verifharness

go 1.20

require (
	github.com/go-openapi/analysis v0.23.0
	github.com/go-openapi/errors v0.22.1
	github.com/go-openapi/loads v0.22.0
	github.com/go-openapi/runtime v0.0.0
	github.com/go-openapi/spec v0.21.0
	github.com/go-openapi/strfmt v0.23.0
	github.com/go-openapi/swag v0.23.1
	github.com/go-openapi/validate v0.24.0
)

require (
	github.com/asaskevich/govalidator v0.0.0-20230301143203-a9d515a09cc2 // indirect
	github.com/go-logr/logr v1.4.1 // indirect
	github.com/go-logr/stdr v1.2.2 // indirect
	github.com/go-openapi/jsonpointer v0.21.0 // indirect
	github.com/go-openapi/jsonreference v0.21.0 // indirect
	github.com/google/uuid v1.6.0 // indirect
	github.com/josharian/intern v1.0.0 // indirect
	github.com/mailru/easyjson v0.9.0 // indirect
	github.com/mitchellh/mapstructure v1.5.0 // indirect
	github.com/oklog/ulid v1.3.1 // indirect
	github.com/opentracing/opentracing-go v1.2.0 // indirect
	go.mongodb.org/mongo-driver v1.14.0 // indirect
	go.opentelemetry.io/otel v1.24.0 // indirect
	go.opentelemetry.io/otel/metric v1.24.0 // indirect
	go.opentelemetry.io/otel/trace v1.24.0 // indirect
	golang.org/x/sync v0.11.0 // indirect
	gopkg.in/yaml.v3 v3.0.1 // indirect
)

replace github.com/go-openapi/runtime => /repo
