//go:build verif && (c03 || allprops)

package main

import (
	"bufio"
	"bytes"
	"encoding"
	"encoding/json"
	"fmt"
	"hash/fnv"
	"io"
	"math"
	"math/rand"
	"mime/multipart"
	"net/http"
	"net/http/httptest"
	"net/url"
	"reflect"
	"sort"
	"strconv"
	"strings"

	oaerrors "github.com/go-openapi/errors"
	"github.com/go-openapi/loads"
	"github.com/go-openapi/runtime"
	"github.com/go-openapi/runtime/middleware"
	"github.com/go-openapi/runtime/middleware/untyped"
	"github.com/go-openapi/spec"
	"github.com/go-openapi/strfmt"
	"github.com/go-openapi/swag"
	"github.com/go-openapi/validate"
)

// C03 — parameter binding. Case kinds:
//   bind   one generated Swagger 2.0 description with one operation and one non-body parameter, one request
//          (parsed by http.ReadRequest from generated text) served through the real middleware.Context API handler
//          with a recording untyped handler. Observable: value and dynamic Go type received under the declared
//          name, or (status, error code, message names the parameter), or a recovered panic.
//   multi  one operation with several non-body parameters, one request: the names named by the error of the route's
//          UntypedRequestBinder.Bind (a set), status, whether the handler ran, the values received
//   file   one operation with one parameter of type file (in: formData), one POST with a multipart or an urlencoded
//          form body made of file parts and plain fields: status, error code, whether the handler ran, and the file
//          (name, content) it received
//   canon  http.CanonicalHeaderKey on one name (the model's canon_key)
//   int    strconv.ParseInt(txt, 10, 64) (the model's parse_int_dec)
//   split  swag.SplitByFormat (the model's split_by_format incl. strings.TrimSpace)
//   read   runtime.ReadSingleValue / ReadCollectionValue on runtime.Values

type c03Decl struct {
	Name       string                     `json:"name"`
	In         string                     `json:"in"`
	Type       string                     `json:"type"`
	Format     string                     `json:"format,omitempty"`
	ItemType   string                     `json:"item_type,omitempty"`
	ItemFormat string                     `json:"item_format,omitempty"`
	CF         string                     `json:"cf,omitempty"`
	Required   bool                       `json:"required,omitempty"`
	Default    json.RawMessage            `json:"default,omitempty"`
	AllowEmpty bool                       `json:"allow_empty,omitempty"`
	Extra      map[string]json.RawMessage `json:"extra,omitempty"`      // validations on the parameter
	ItemExtra  map[string]json.RawMessage `json:"item_extra,omitempty"` // validations on the items
}

type c03In struct {
	Kind      string   `json:"kind"`
	Decl      *c03Decl `json:"decl,omitempty"`
	Pairs     [][2]Bs  `json:"pairs,omitempty"`     // (key, value) occurrences sent in the parameter's location, in order
	PathValue Bs       `json:"path_value,omitempty"` // value of the path segment (path parameters)
	RawQuery  *Bs      `json:"raw_query,omitempty"`  // send this query string as is (malformed stream)
	Multipart bool     `json:"multipart,omitempty"`
	// values sent in locations OTHER than the declared one (cross-location decoys): the binder must not see them
	Decoys []c03Decoy `json:"decoys,omitempty"`
	// kind "multi": several non-body parameters of ONE operation and ONE request carrying (or omitting) each of them
	Params []c03MParam `json:"params,omitempty"`
	// kind "file": Decl = {name, in: formData, type: file, required}; Multipart = flavour of the body; its parts in order
	Parts []c03Part `json:"parts,omitempty"`
	S      Bs         `json:"s,omitempty"`
	CF        Bs       `json:"scf,omitempty"`
	Name      Bs       `json:"sname,omitempty"`
}

// one (key, value) sent in a location that is not the parameter's: "query", "header", "form" (the request then
// is a POST with a urlencoded or multipart body), "path" (the route becomes /x/{key}, val is the segment)
type c03Decoy struct {
	Loc string `json:"loc"`
	Key Bs     `json:"key"`
	Val Bs     `json:"val"`
}

// one part of the form body of a file case. Filename "" = a plain field (no filename attribute); in an urlencoded
// body every part is sent as the field name=data
type c03Part struct {
	Name     Bs `json:"name"`
	Filename Bs `json:"filename,omitempty"`
	Data     Bs `json:"data,omitempty"`
}

// one declared parameter of a multi case and what the request sends for it in its own location
type c03MParam struct {
	Decl      *c03Decl `json:"decl"`
	Pairs     [][2]Bs  `json:"pairs,omitempty"`
	PathValue Bs       `json:"path_value,omitempty"`
}

// per parameter of a multi case: its oracle tables, whether the composite error of Bind names it, what the handler got
type c03MObs struct {
	Tab    c03Tab `json:"tab"`
	Named  bool   `json:"named,omitempty"`
	HasVal bool   `json:"has_val,omitempty"`
	Val    string `json:"val,omitempty"`
	ValCoq string `json:"val_coq,omitempty"`
}

type c03Obs struct {
	Multi   []c03MObs `json:"multi,omitempty"`
	BindErr []string  `json:"bind_err,omitempty"` // the leaf messages of the error UntypedRequestBinder.Bind returns

	Panicked bool   `json:"panicked,omitempty"`
	Panic    string `json:"panic,omitempty"`
	Status   int    `json:"status,omitempty"`
	Code     int    `json:"code,omitempty"`
	Msg      string `json:"msg,omitempty"`
	Names    bool   `json:"names,omitempty"`
	Ran      bool   `json:"ran,omitempty"`
	Val      string `json:"val,omitempty"`     // Go-syntax rendering of the received value (for people)
	ValCoq   string `json:"val_coq,omitempty"` // the same as a gval term; "" = not expressible
	HasVal   bool   `json:"has_val,omitempty"`
	// what net/http and the router parsed (the model's sources), and the oracle tables
	Query  [][2]Bs `json:"query,omitempty"`
	Header [][2]Bs `json:"header,omitempty"`
	Path   [][2]Bs `json:"path,omitempty"`
	Form   [][2]Bs `json:"form,omitempty"`
	Regs   []string `json:"regs,omitempty"`
	Fmts   []c03FmtEnt   `json:"fmts,omitempty"`
	Floats []c03FloatEnt `json:"floats,omitempty"`
	Valid  int    `json:"valid,omitempty"` // 0 = validator passes (or binding failed); else first error code
	DefCoq string `json:"def_coq,omitempty"`
	Outcome string `json:"outcome,omitempty"`
	// kind "file": the file the handler received under the declared name (FileGot: its Data is not nil)
	FileGot  bool `json:"file_got,omitempty"`
	FileName Bs   `json:"file_name,omitempty"`
	FileData Bs   `json:"file_data,omitempty"`
	// direct kinds
	R     Bs   `json:"r,omitempty"`
	OK    bool `json:"ok,omitempty"`
	Z     int64 `json:"z,omitempty"`
	Items []Bs `json:"items,omitempty"`
}

type c03FmtEnt struct {
	F   string `json:"f"`
	T   Bs     `json:"t"`
	OK  bool   `json:"ok"`
	R   Bs     `json:"r,omitempty"`
}
type c03FloatEnt struct {
	T    Bs     `json:"t"`
	OK   bool   `json:"ok"`
	B64  uint64 `json:"b64,omitempty"`
	Ov32 bool   `json:"ov32,omitempty"`
	B32  uint32 `json:"b32,omitempty"`
}

type c03 struct{}

func init() { register(c03{}) }

func (c03) ID() string        { return "C03" }
func (c03) CoqModule() string { return "Check_C03" }
func (c03) Rule() string {
	return "bind: declaration lattice {query, header, path, formData urlencoded/multipart} x {string(+registered formats, byte), integer(int8..int64, none), " +
		"number(float, double, none), boolean, array of those x {csv, ssv, tsv, pipes, multi, none}} x required x default(absent/typed/ill-typed) x allowEmptyValue x validations; " +
		"texts: boundary literals of every width, signs, leading zeros, hex/underscore/exponent, inf/NaN, empty, whitespace, repeated keys, separators inside items, header names in lower/upper/mixed case; " +
		"a malformed stream (raw query strings); cross-location decoys: the declared name also (or only) sent in one or two of the OTHER locations (query string, form body urlencoded/multipart, header line, path segment) with another value, an invalid literal or empty - ignored by the expected outcome. canon/int/split/read: the exactly modelled library functions on structured and arbitrary bytes. " +
		"Non-trivial: a bind case where the declared name occurs in the request or a required/default rule decides (everything but an absent optional parameter without default), or the name is sent in another location; " +
		"an int text with a digit; a split text containing the separator or white space; a canon name with a letter."
}

func (c03) Decode(raw json.RawMessage) (any, error) {
	var in c03In
	err := json.Unmarshal(raw, &in)
	return in, err
}

// ------------------------------------------------------------------ generator

var c03IntTexts = []string{
	"0", "1", "-1", "5", "+5", "-0", "+0", "007", "-007", "00000000000000000000000000000012",
	"127", "128", "-128", "-129", "126", "-127",
	"32767", "32768", "-32768", "-32769", "32766",
	"2147483647", "2147483648", "-2147483648", "-2147483649", "2147483646",
	"9223372036854775807", "9223372036854775808", "-9223372036854775808", "-9223372036854775809", "9223372036854775806",
	"18446744073709551615", "18446744073709551616", "99999999999999999999999999", "-99999999999999999999999999",
	"0x10", "0X1F", "0b1", "0o7", "1_0", "1_000", " 5", "5 ", "\t5", "5\n", "5.0", "5.", "1e3", "1E3", "", "-", "+", "--5", "+-5", "-+5", "5-", "5+",
	"\xd9\xa3", "\xef\xbc\x95", "12a", "a12", "1 2", "1,2", "0.5", "NaN", "inf", "٣", "１２", "256", "-256", "255", "65535", "65536", "4294967295", "4294967296",
}

var c03FloatTexts = []string{
	"0", "1", "-1", "1.5", "-1.5", "+1.5", ".5", "5.", "1e3", "1E3", "1e-3", "1e+3", "0.1", "0.30000000000000004", "3.4028234663852886e38", "3.4028235e38", "3.5e38", "-3.5e38",
	"3.4028235677973366e38", "1e39", "1.7976931348623157e308", "1.8e308", "1e400", "-1e400", "4.9e-324", "1e-400", "1e-46", "1.401298464324817e-45",
	"inf", "Inf", "+Inf", "-inf", "infinity", "-Infinity", "NaN", "nan", "+nan", "0x1p-2", "0x1.8p1", "0X1P+2", "0x10", "1_0", "1_000.5", " 1", "1 ", "", "-", "e5", "1e", "1e+", "1.2.3", "1,5", "16777217", "9007199254740993",
	"\xd9\xa3", "0.0", "-0", "-0.0",
}

var c03BoolTexts = []string{
	"true", "false", "TRUE", "True", "tRuE", "1", "0", "yes", "YES", "no", "ok", "OK", "y", "Y", "n", "on", "ON", "off", "selected", "checked", "t", "T", "f", "enabled", "disabled", "", " true", "true ", "2", "-1", "yess", "tr\xc3\xbce", "Ok",
}

var c03StrTexts = []string{
	"", "a", "abc", "a b", " a ", "a,b", "a|b", "a\tb", "a b c", "é", "\xff\xfe", "a=b&c", "a%20b", "%", "+", "a+b", "\"q\"", "<s>", "a/b", "0", "null", "true", "\xe2\x80\x80x\xe2\x80\x80", "x\xc2\xa0", "long-" + "0123456789012345678901234567890123456789",
}

var c03FmtTexts = map[string][]string{
	"date":      {"2020-02-29", "2021-02-29", "2020-1-1", "2020-13-01", "0001-01-01", "9999-12-31", "", "today", "2020-02-29T00:00:00Z", " 2020-02-29"},
	"date-time": {"2020-01-01T10:00:00Z", "2020-01-01T10:00:00.123+02:00", "2020-01-01T10:00:00", "2020-01-01 10:00:00", "2020-01-01", "", "now", "2020-02-30T10:00:00Z", "1970-01-01T00:00:00.000Z"},
	"uuid":      {"a8098c1a-f86e-11da-bd1a-00112444be1e", "A8098C1A-F86E-11DA-BD1A-00112444BE1E", "a8098c1af86e11dabd1a00112444be1e", "not-a-uuid", "", "a8098c1a-f86e-11da-bd1a-00112444be1"},
	"byte":      {"aGVsbG8=", "aGVsbG8", "aGk=", "YQ==", "YQ", "!!!!", "", "aGVsbG8_", "-_-_", "+/+/", "a GVsbG8="},
	"duration":  {"3s", "1h", "1h30m", "2d", "1w", "3 s", "bad", "", "-5s", "1.5h", "3"},
	"email":     {"a@b.co", "not-an-email", "", "A@B.CO"},
	"ipv4":      {"127.0.0.1", "256.0.0.1", "", "1.2.3"},
	"hostname":  {"example.com", "-bad-", "", "a_b.c"},
	"password":  {"secret", "", "p w"},
	"uri":       {"http://a/b", "/rel", "", "not a uri"},
	"mac":       {"01:02:03:04:05:ab", "zz", ""},
	"bsonobjectid": {"507f1f77bcf86cd799439011", "bad", ""},
	"ulid":      {"01ARZ3NDEKTSV4RRFFQ69G5FAV", "bad", ""},
}
var c03FmtNames = []string{"date", "date-time", "uuid", "byte", "duration", "email", "ipv4", "hostname", "password", "uri", "mac", "bsonobjectid", "ulid"}

var c03Seps = map[string]string{"": ",", "csv": ",", "ssv": " ", "tsv": "\t", "pipes": "|", "multi": ","}
var c03CFs = []string{"", "csv", "ssv", "tsv", "pipes", "multi"}

var c03QueryNames = []string{"limit9", "tags7", "q_1", "a.b9", "id[]", "Limit9"}
var c03HeaderNames = []string{"X-Rate-Lim", "x-rate-lim", "X-RATE-LIM", "x-Rate-lIM", "X-Low7", "x-low7", "X_Under9", "x.dot9-a", "Trace7Id", "trace7id", "X-7up-9"}
var c03Spaces = []string{" ", "  ", "\t", "\n", "\r", "\v", "\f", "\xc2\xa0", "\xc2\x85", "\xe2\x80\x80", "\xe2\x80\x8a", "\xe2\x80\xa8", "\xe2\x80\xaf", "\xe2\x81\x9f", "\xe3\x80\x80", "\xe1\x9a\x80", "\xe2\x80\x8b", "\xc2", "\xe2\x80", "\x80"}

func c03Pick(r *rand.Rand, xs []string) string { return xs[r.Intn(len(xs))] }

type c03TypeChoice struct{ typ, format string }

func c03ScalarType(r *rand.Rand) c03TypeChoice {
	switch k := r.Intn(20); {
	case k < 8:
		return c03TypeChoice{"integer", c03Pick(r, []string{"int8", "int16", "int32", "int64", "", "", "int", "uint8", "int8", "int16", "int32", "int64", "", "byte"})}
	case k < 11:
		return c03TypeChoice{"number", c03Pick(r, []string{"float", "double", "", "", "decimal"})}
	case k < 13:
		return c03TypeChoice{"boolean", ""}
	case k < 16:
		return c03TypeChoice{"string", c03Pick(r, []string{"", "", "unknown-format", "binary"})}
	default:
		return c03TypeChoice{"string", c03Pick(r, c03FmtNames)}
	}
}

// a text for the scalar type: mostly from the type's corpus, sometimes another type's, sometimes random digits
func c03Text(r *rand.Rand, t c03TypeChoice) string {
	if r.Intn(12) == 0 {
		return c03Pick(r, c03StrTexts)
	}
	switch t.typ {
	case "integer":
		switch r.Intn(10) {
		case 0:
			return c03RandInt(r)
		case 1:
			return c03Pick(r, c03FloatTexts)
		}
		return c03Pick(r, c03IntTexts)
	case "number":
		if r.Intn(8) == 0 {
			return c03Pick(r, c03IntTexts)
		}
		return c03Pick(r, c03FloatTexts)
	case "boolean":
		return c03Pick(r, c03BoolTexts)
	default:
		if xs, ok := c03FmtTexts[t.format]; ok && r.Intn(6) != 0 {
			return c03Pick(r, xs)
		}
		return c03Pick(r, c03StrTexts)
	}
}

func c03RandInt(r *rand.Rand) string {
	// around a power of two, or random digits
	if r.Intn(2) == 0 {
		w := []uint{7, 8, 15, 16, 31, 32, 63, 64}[r.Intn(8)]
		v := new(c03Big).pow2(w)
		d := int64(r.Intn(5) - 2)
		s := v.addSmall(d)
		if r.Intn(2) == 0 {
			return "-" + s
		}
		return s
	}
	n := 1 + r.Intn(22)
	b := make([]byte, n)
	for i := range b {
		b[i] = byte('0' + r.Intn(10))
	}
	sign := []string{"", "", "-", "+"}[r.Intn(4)]
	return sign + string(b)
}

// tiny decimal helper (2^w + d as text) without importing math/big twice
type c03Big struct{}

func (*c03Big) pow2(w uint) *c03BigV {
	v := &c03BigV{digits: []int{1}}
	for i := uint(0); i < w; i++ {
		carry := 0
		for j := range v.digits {
			x := v.digits[j]*2 + carry
			v.digits[j] = x % 10
			carry = x / 10
		}
		if carry > 0 {
			v.digits = append(v.digits, carry)
		}
	}
	return v
}

type c03BigV struct{ digits []int } // least significant first

func (v *c03BigV) addSmall(d int64) string {
	ds := append([]int{}, v.digits...)
	ds[0] += int(d)
	for i := 0; i < len(ds); i++ {
		for ds[i] < 0 {
			ds[i] += 10
			ds[i+1]--
		}
		if ds[i] > 9 {
			if i+1 == len(ds) {
				ds = append(ds, 0)
			}
			ds[i+1] += ds[i] / 10
			ds[i] %= 10
		}
	}
	for len(ds) > 1 && ds[len(ds)-1] == 0 {
		ds = ds[:len(ds)-1]
	}
	var sb strings.Builder
	for i := len(ds) - 1; i >= 0; i-- {
		sb.WriteByte(byte('0' + ds[i]))
	}
	return sb.String()
}

func c03JSON(v any) json.RawMessage {
	b, err := json.Marshal(v)
	if err != nil {
		panic(err)
	}
	return b
}

// a default for the scalar type: typed (conforming), or ill-typed
func c03Default(r *rand.Rand, t c03TypeChoice, ill bool) json.RawMessage {
	if ill {
		switch t.typ {
		case "integer":
			return c03Pick3(r, c03JSON("abc"), c03JSON(1.5), c03JSON(true))
		case "number":
			return c03Pick3(r, c03JSON("1.5"), c03JSON(false), c03JSON([]int{1}))
		case "boolean":
			return c03Pick3(r, c03JSON("true"), c03JSON(1), c03JSON(0))
		default:
			if _, ok := c03FmtTexts[t.format]; ok && t.format != "password" {
				return c03Pick3(r, c03JSON(5), c03JSON("///not valid///"), c03JSON(true))
			}
			return c03Pick3(r, c03JSON(5), c03JSON(true), c03JSON([]string{"a"}))
		}
	}
	switch t.typ {
	case "integer":
		switch t.format {
		case "int8":
			return c03JSON([]int{0, 7, -128, 127, -1}[r.Intn(5)])
		case "int16":
			return c03JSON([]int{0, 7, -32768, 32767, 300}[r.Intn(5)])
		case "int32":
			return c03JSON([]int{0, 7, -2147483648, 2147483647, 70000}[r.Intn(5)])
		}
		return c03JSON([]int64{0, 7, -9007199254740992, 9007199254740992, 5000000000}[r.Intn(5)])
	case "number":
		return c03JSON([]float64{0, 1.5, -2.25, 1e10, 0.1}[r.Intn(5)])
	case "boolean":
		return c03JSON(r.Intn(2) == 0)
	default:
		switch t.format {
		case "date":
			return c03JSON("2020-02-29")
		case "date-time":
			return c03JSON("2020-01-01T10:00:00Z")
		case "uuid":
			return c03JSON("a8098c1a-f86e-11da-bd1a-00112444be1e")
		case "byte":
			return c03JSON("aGVsbG8=")
		case "duration":
			return c03JSON("3s")
		case "email":
			return c03JSON("a@b.co")
		case "ipv4":
			return c03JSON("127.0.0.1")
		case "hostname":
			return c03JSON("example.com")
		case "uri":
			return c03JSON("http://a/b")
		case "mac":
			return c03JSON("01:02:03:04:05:ab")
		case "bsonobjectid":
			return c03JSON("507f1f77bcf86cd799439011")
		case "ulid":
			return c03JSON("01ARZ3NDEKTSV4RRFFQ69G5FAV")
		}
		return c03JSON(c03Pick(r, []string{"dflt", "", "a b", "x,y"}))
	}
}

func c03Pick3(r *rand.Rand, a, b, c json.RawMessage) json.RawMessage {
	return []json.RawMessage{a, b, c}[r.Intn(3)]
}

func c03Validations(r *rand.Rand, t c03TypeChoice, array bool) map[string]json.RawMessage {
	if r.Intn(4) != 0 {
		return nil
	}
	m := map[string]json.RawMessage{}
	if array {
		switch r.Intn(3) {
		case 0:
			m["maxItems"] = c03JSON(2)
		case 1:
			m["minItems"] = c03JSON(2)
		default:
			m["uniqueItems"] = c03JSON(true)
		}
		return m
	}
	switch t.typ {
	case "integer", "number":
		switch r.Intn(4) {
		case 0:
			m["minimum"] = c03JSON(1)
		case 1:
			m["maximum"] = c03JSON(100)
		case 2:
			m["enum"] = c03JSON([]int{1, 5, 127})
		default:
			m["multipleOf"] = c03JSON(5)
		}
	case "string":
		if t.format != "" {
			return nil
		}
		switch r.Intn(4) {
		case 0:
			m["maxLength"] = c03JSON(3)
		case 1:
			m["minLength"] = c03JSON(2)
		case 2:
			m["pattern"] = c03JSON("^[a-z]+$")
		default:
			m["enum"] = c03JSON([]string{"a", "abc", "a b"})
		}
	default:
		return nil
	}
	return m
}

func c03GenDecl(r *rand.Rand) *c03Decl {
	d := &c03Decl{}
	d.In = []string{"query", "query", "header", "path", "formData", "formData"}[r.Intn(6)]
	switch d.In {
	case "header":
		d.Name = c03Pick(r, c03HeaderNames)
	case "path":
		d.Name = c03Pick(r, []string{"id9", "item_7"})
	default:
		d.Name = c03Pick(r, c03QueryNames)
	}
	array := r.Intn(3) == 0
	t := c03ScalarType(r)
	if array {
		d.Type = "array"
		d.ItemType, d.ItemFormat = t.typ, t.format
		d.CF = c03Pick(r, c03CFs)
		d.ItemExtra = c03Validations(r, t, false)
		d.Extra = c03Validations(r, t, true)
	} else {
		d.Type, d.Format = t.typ, t.format
		d.Extra = c03Validations(r, t, false)
	}
	d.Required = d.In == "path" || r.Intn(3) == 0
	d.AllowEmpty = r.Intn(4) == 0
	switch r.Intn(10) {
	case 0, 1, 2: // typed default
		if array {
			n := r.Intn(3)
			items := make([]json.RawMessage, n)
			for i := range items {
				items[i] = c03Default(r, t, false)
			}
			d.Default = c03JSON(items)
		} else {
			d.Default = c03Default(r, t, false)
		}
	case 3:
		if r.Intn(3) == 0 { // ill-typed default (outside the description language; recorded, not judged)
			if array {
				d.Default = c03Pick3(r, c03JSON("a,b"), c03JSON(5), c03JSON([]json.RawMessage{c03Default(r, t, true)}))
			} else {
				d.Default = c03Default(r, t, true)
			}
		}
	}
	return d
}

func c03ItemText(r *rand.Rand, d *c03Decl) string {
	t := c03TypeChoice{d.ItemType, d.ItemFormat}
	n := r.Intn(5)
	sep := c03Seps[d.CF]
	if r.Intn(10) == 0 { // a separator of another format
		sep = c03Pick(r, []string{",", " ", "\t", "|", ";"})
	}
	var parts []string
	for i := 0; i < n; i++ {
		it := c03Text(r, t)
		if r.Intn(3) != 0 { // mostly valid items so that whole arrays bind
			switch t.typ {
			case "integer":
				it = c03Pick(r, []string{"1", "5", "-7", "127", "+3", "007", "128", "-129", "40000", "3000000000"})
			case "number":
				it = c03Pick(r, []string{"1.5", "2", "-0.25", "1e3"})
			case "boolean":
				it = c03Pick(r, []string{"true", "false", "1", "no"})
			}
		}
		switch r.Intn(8) {
		case 0:
			it = c03Pick(r, c03Spaces) + it
		case 1:
			it = it + c03Pick(r, c03Spaces)
		case 2:
			it = ""
		}
		parts = append(parts, it)
	}
	return strings.Join(parts, sep)
}

func c03PathSafe(s string) string {
	// path values: non-empty, without the router's reserved bytes and '/' (C01/C05 territory)
	var sb strings.Builder
	for i := 0; i < len(s); i++ {
		switch s[i] {
		case ':', '*', '#', 0, '/':
		default:
			sb.WriteByte(s[i])
		}
	}
	if sb.Len() == 0 {
		return "0"
	}
	return sb.String()
}

func c03HeaderSafe(s string) string {
	// header values as net/http keeps them: no CR/LF/NUL, no leading/trailing blanks
	var sb strings.Builder
	for i := 0; i < len(s); i++ {
		c := s[i]
		if c == '\r' || c == '\n' || c == 0 || c == 0x0b || c == 0x0c {
			continue
		}
		sb.WriteByte(c)
	}
	return strings.Trim(sb.String(), " \t")
}

func c03HeaderVariant(r *rand.Rand, name string) string {
	b := []byte(name)
	switch r.Intn(4) {
	case 0:
		return strings.ToLower(name)
	case 1:
		return strings.ToUpper(name)
	case 2:
		for i := range b {
			if r.Intn(2) == 0 {
				b[i] = strings.ToUpper(string(b[i]))[0]
			} else {
				b[i] = strings.ToLower(string(b[i]))[0]
			}
		}
		return string(b)
	}
	return name
}

func (p c03) Gen(r *rand.Rand, tier string, i int) any {
	in := p.gen1(r, tier, i)
	if i%10 == 9 {
		// a multi-parameter case in the place of one case in ten; its choices come from a generator seeded
		// with the replaced draw, so that the stream of r (hence every other case) stays what it was
		raw, _ := json.Marshal(in)
		h := fnv.New64a()
		h.Write(raw)
		return c03GenMulti(rand.New(rand.NewSource(int64(h.Sum64()>>1))))
	}
	if i%20 == 13 {
		// a file case in the place of one case in twenty, same device
		raw, _ := json.Marshal(in)
		h := fnv.New64a()
		h.Write(raw)
		return c03GenFile(rand.New(rand.NewSource(int64(h.Sum64()>>1))))
	}
	return in
}

func (c03) gen1(r *rand.Rand, tier string, i int) any {
	switch k := r.Intn(40); {
	case k < 2:
		var s string
		switch r.Intn(3) {
		case 0:
			s = c03Pick(r, c03HeaderNames)
			s = c03HeaderVariant(r, s)
		case 1:
			s = c03Junk(r, "aZ-x_. 9:\xff@", 10)
		default:
			s = c03Pick(r, []string{"content-type", "ETAG", "x-forwarded-for", "a--b", "-a", "a-", "x-ÿ", "a b", "", "www-authenticate", "x-1a-b2"})
		}
		return c03In{Kind: "canon", S: Bs(s)}
	case k < 5:
		if r.Intn(3) == 0 {
			return c03In{Kind: "int", S: Bs(c03Junk(r, "0123456789+-_ xe.", 24))}
		}
		if r.Intn(2) == 0 {
			return c03In{Kind: "int", S: Bs(c03RandInt(r))}
		}
		return c03In{Kind: "int", S: Bs(c03Pick(r, c03IntTexts))}
	case k < 8:
		cf := c03Pick(r, c03CFs)
		if r.Intn(10) == 0 {
			cf = c03Pick(r, []string{"CSV", "foo", "Multi", " ssv"})
		}
		var s string
		if r.Intn(2) == 0 {
			alpha := []string{"a", "b", "1", ",", " ", "\t", "|", ",", c03Seps[cf]}
			alpha = append(alpha, c03Spaces...)
			n := r.Intn(14)
			for j := 0; j < n; j++ {
				s += alpha[r.Intn(len(alpha))]
			}
		} else {
			d := &c03Decl{ItemType: "string", CF: cf}
			s = c03ItemText(r, d)
		}
		return c03In{Kind: "split", S: Bs(s), CF: Bs(cf)}
	case k < 9:
		var ps [][2]Bs
		names := []string{"a", "b", "A"}
		for j := r.Intn(5); j > 0; j-- {
			ps = append(ps, [2]Bs{Bs(c03Pick(r, names)), Bs(c03Pick(r, []string{"", "1", "x,y", "p|q r", " z "}))})
		}
		return c03In{Kind: "read", Pairs: ps, Name: Bs(c03Pick(r, names)), CF: Bs(c03Pick(r, c03CFs))}
	}
	// bind
	d := c03GenDecl(r)
	in := c03In{Kind: "bind", Decl: d}
	text := func() string {
		if d.Type == "array" {
			if d.CF == "multi" && r.Intn(2) == 0 {
				return c03Text(r, c03TypeChoice{d.ItemType, d.ItemFormat})
			}
			return c03ItemText(r, d)
		}
		return c03Text(r, c03TypeChoice{d.Type, d.Format})
	}
	nocc := []int{0, 0, 1, 1, 1, 1, 1, 2, 2, 3}[r.Intn(10)]
	if d.In == "path" {
		in.PathValue = Bs(c03PathSafe(text()))
		if r.Intn(3) == 0 {
			c03GenDecoys(r, &in, text)
		}
		return in
	}
	noise := func() [2]Bs {
		if d.In == "header" {
			return [2]Bs{Bs(c03Pick(r, []string{"X-Other", "Accept-Language", "x-rate-limit", "X-Low"})), Bs(c03HeaderSafe(c03Pick(r, c03StrTexts)))}
		}
		return [2]Bs{Bs(c03Pick(r, []string{"other", "limit", "Tags7", "limit99"})), Bs(c03Pick(r, c03StrTexts))}
	}
	for j := 0; j < nocc; j++ {
		if r.Intn(4) == 0 {
			in.Pairs = append(in.Pairs, noise())
		}
		name := d.Name
		v := text()
		if r.Intn(9) == 0 {
			v = ""
		}
		if j < nocc-1 && r.Intn(3) == 0 {
			v = c03Pick(r, []string{"", "zzz", "1", "999999"})
		}
		if d.In == "header" {
			name = c03HeaderVariant(r, name)
			v = c03HeaderSafe(v)
		}
		in.Pairs = append(in.Pairs, [2]Bs{Bs(name), Bs(v)})
	}
	if r.Intn(4) == 0 {
		in.Pairs = append(in.Pairs, noise())
	}
	if d.In == "formData" {
		in.Multipart = r.Intn(3) == 0
	}
	if d.In == "query" && r.Intn(12) == 0 { // malformed stream: a raw query string
		raws := []string{d.Name + "=1&" + d.Name + "=%zz", d.Name, d.Name + "=", "=5", d.Name + "=1;" + d.Name + "=2", d.Name + "=a+b%20c", "&&" + d.Name + "=7&&", d.Name + "==7", d.Name + "=%41%", "%6cimit9=3", d.Name + "=1&" + d.Name}
		raw := Bs(c03Pick(r, raws))
		in.RawQuery = &raw
		in.Pairs = nil
	}
	if r.Intn(3) == 0 {
		c03GenDecoys(r, &in, text)
	}
	return in
}

func c03OwnLoc(d *c03Decl) string {
	if d.In == "formData" {
		return "form"
	}
	return d.In
}

// Cross-location decoys: the declared name (for headers up to case) is ALSO sent in one or two locations other than
// the declared one, carrying another value of the type, an invalid literal or the empty text; in one case out of four
// the declared location does not carry the name at all, so that the decoy is the only occurrence in the request and the
// required / default rules decide. The sources of the model are per location, so the expected outcome ignores the decoy.
func c03GenDecoys(r *rand.Rand, in *c03In, text func() string) {
	d := in.Decl
	own := c03OwnLoc(d)
	var locs []string
	for _, l := range []string{"query", "query", "form", "header", "path"} { // the query string is the classic confusion (Request.Form, FormValue)
		if l != own {
			locs = append(locs, l)
		}
	}
	if r.Intn(4) == 0 && d.In != "path" && in.RawQuery == nil { // the decoy is the only occurrence
		var keep [][2]Bs
		for _, p := range in.Pairs {
			if string(p[0]) == d.Name || (d.In == "header" && strings.EqualFold(string(p[0]), d.Name)) {
				continue
			}
			keep = append(keep, p)
		}
		in.Pairs = keep
	}
	n := 1
	if r.Intn(3) == 0 {
		n = 2
	}
	for i := 0; i < n; i++ {
		loc := c03Pick(r, locs)
		key := d.Name
		if d.In == "header" && r.Intn(2) == 0 {
			key = http.CanonicalHeaderKey(key)
		}
		var v string
		switch r.Intn(5) {
		case 0:
			v = c03Pick(r, []string{"zzz", "", "99999999999999999999", "1.5x", "a,b|c", "-"})
		default:
			v = text()
		}
		switch loc {
		case "header":
			if !c03IsToken(key) {
				continue
			}
			key, v = c03HeaderVariant(r, key), c03HeaderSafe(v)
		case "path":
			if !c03IsPathName(key) {
				continue
			}
			v = c03PathSafe(v)
		}
		in.Decoys = append(in.Decoys, c03Decoy{Loc: loc, Key: Bs(key), Val: Bs(v)})
		if r.Intn(5) == 0 && loc != "path" { // the decoy key repeated
			in.Decoys = append(in.Decoys, c03Decoy{Loc: loc, Key: Bs(key), Val: Bs(c03Pick(r, []string{"1", "2", "true", "x", ""}))})
		}
	}
	if own != "form" && r.Intn(3) == 0 {
		in.Multipart = true
	}
}

func c03Junk(r *rand.Rand, alpha string, max int) string {
	n := r.Intn(max + 1)
	b := make([]byte, n)
	for i := range b {
		b[i] = alpha[r.Intn(len(alpha))]
	}
	return string(b)
}

func (c03) Enumerate(tier string) []any {
	var out []any
	// every integer width x every boundary text, as a query parameter and as a header parameter
	for _, f := range []string{"int8", "int16", "int32", "int64", ""} {
		for _, txt := range c03IntTexts {
			out = append(out, c03In{Kind: "bind", Decl: &c03Decl{Name: "limit9", In: "query", Type: "integer", Format: f}, Pairs: [][2]Bs{{"limit9", Bs(txt)}}})
		}
	}
	for _, txt := range c03IntTexts {
		out = append(out, c03In{Kind: "int", S: Bs(txt)})
	}
	for _, f := range []string{"float", "double", ""} {
		for _, txt := range c03FloatTexts {
			out = append(out, c03In{Kind: "bind", Decl: &c03Decl{Name: "limit9", In: "query", Type: "number", Format: f}, Pairs: [][2]Bs{{"limit9", Bs(txt)}}})
		}
	}
	for _, txt := range c03BoolTexts {
		out = append(out, c03In{Kind: "bind", Decl: &c03Decl{Name: "limit9", In: "query", Type: "boolean"}, Pairs: [][2]Bs{{"limit9", Bs(txt)}}})
	}
	for _, n := range c03HeaderNames {
		for _, sent := range []string{n, strings.ToLower(n), strings.ToUpper(n)} {
			out = append(out, c03In{Kind: "bind", Decl: &c03Decl{Name: n, In: "header", Type: "integer", Format: "int32"}, Pairs: [][2]Bs{{Bs(sent), "42"}}})
		}
		out = append(out, c03In{Kind: "canon", S: Bs(n)})
	}
	out = append(out, c03EnumCross()...)
	out = append(out, c03EnumMulti()...)
	out = append(out, c03EnumFile()...)
	if tier == "thorough" {
		for _, f := range c03FmtNames {
			for _, txt := range c03FmtTexts[f] {
				for _, in := range []string{"query", "header", "formData"} {
					out = append(out, c03In{Kind: "bind", Decl: &c03Decl{Name: "X-Low7", In: in, Type: "string", Format: f}, Pairs: [][2]Bs{{"X-Low7", Bs(c03HeaderSafe(txt))}}})
				}
			}
		}
	}
	return out
}

// every declared location x every other location x {required scalar, scalar with default, required csv array, array with
// default} x {own value + decoy with another value, own value + decoy with an invalid literal, own empty + decoy,
// name absent from the own location + decoy}; form bodies in both encodings
func c03EnumCross() []any {
	var out []any
	names := map[string]string{"query": "limit9", "formData": "limit9", "header": "X-Low7", "path": "id9"}
	for _, own := range []string{"query", "formData", "header", "path"} {
		name := names[own]
		cf := "csv"
		if own == "query" || own == "formData" {
			cf = "multi"
		}
		decls := []c03Decl{
			{Name: name, In: own, Type: "integer", Format: "int32", Required: true},
			{Name: name, In: own, Type: "integer", Format: "int32", Required: own == "path", Default: c03JSON(7)},
			{Name: name, In: own, Type: "array", ItemType: "integer", ItemFormat: "int32", CF: "csv", Required: true},
			{Name: name, In: own, Type: "array", ItemType: "string", CF: cf, Required: own == "path", Default: c03JSON([]string{"d"})},
		}
		for _, other := range []string{"query", "form", "header", "path"} {
			if other == c03OwnLoc(&c03Decl{In: own}) {
				continue
			}
			for di := range decls {
				for sit := 0; sit < 4; sit++ {
					for _, mp := range []bool{false, true} {
						if mp && own != "formData" && other != "form" {
							continue
						}
						d := decls[di]
						in := c03In{Kind: "bind", Decl: &d, Multipart: mp}
						dv := "9"
						if sit == 1 {
							dv = "zzz"
						}
						ov := "5"
						if sit == 2 {
							ov = ""
						}
						if own == "path" {
							if sit >= 2 { // a path segment is never absent or empty
								continue
							}
							in.PathValue = Bs(ov)
						} else if sit != 3 {
							in.Pairs = [][2]Bs{{Bs(name), Bs(ov)}}
						}
						in.Decoys = []c03Decoy{{Loc: other, Key: Bs(name), Val: Bs(dv)}}
						out = append(out, in)
					}
				}
			}
		}
	}
	return out
}

// ------------------------------------------------------------------ running the implementation

func (d *c03Decl) paramJSON() map[string]any {
	p := map[string]any{"name": d.Name, "in": d.In, "type": d.Type}
	if d.Format != "" {
		p["format"] = d.Format
	}
	if d.Type == "array" {
		items := map[string]any{"type": d.ItemType}
		if d.ItemFormat != "" {
			items["format"] = d.ItemFormat
		}
		for k, v := range d.ItemExtra {
			items[k] = v
		}
		p["items"] = items
		if d.CF != "" {
			p["collectionFormat"] = d.CF
		}
	}
	if d.Required {
		p["required"] = true
	}
	if d.Default != nil {
		p["default"] = d.Default
	}
	if d.AllowEmpty {
		p["allowEmptyValue"] = true
	}
	for k, v := range d.Extra {
		p[k] = v
	}
	return p
}

func c03Encode(ps [][2]Bs) string {
	var parts []string
	for _, p := range ps {
		parts = append(parts, url.QueryEscape(string(p[0]))+"="+url.QueryEscape(string(p[1])))
	}
	return strings.Join(parts, "&")
}

// what goes where in the request: the occurrences of the declared location plus the cross-location decoys
type c03Shape struct {
	query   [][2]Bs
	header  [][2]Bs
	form    [][2]Bs
	hasForm bool   // a form body is sent: POST, urlencoded or multipart
	pathKey string // "" = the route is /x; else /x/{pathKey}
	pathVal string
}

func c03IsToken(s string) bool {
	if s == "" {
		return false
	}
	for i := 0; i < len(s); i++ {
		c := s[i]
		switch {
		case 'a' <= c && c <= 'z', 'A' <= c && c <= 'Z', '0' <= c && c <= '9':
		case strings.IndexByte("!#$%&'*+-.^_`|~", c) >= 0:
		default:
			return false
		}
	}
	return true
}

// names that can stand in a route template /x/{name}
func c03IsPathName(s string) bool {
	if s == "" {
		return false
	}
	for i := 0; i < len(s); i++ {
		c := s[i]
		switch {
		case 'a' <= c && c <= 'z', 'A' <= c && c <= 'Z', '0' <= c && c <= '9', c == '_', c == '-':
		default:
			return false
		}
	}
	return true
}

func c03ShapeOf(in c03In) c03Shape {
	d := in.Decl
	var sh c03Shape
	own := map[string]string{"query": "query", "header": "header", "formData": "form", "path": "path"}[d.In]
	switch own {
	case "query":
		sh.query = append(sh.query, in.Pairs...)
	case "header":
		sh.header = append(sh.header, in.Pairs...)
	case "form":
		sh.form, sh.hasForm = append(sh.form, in.Pairs...), true
	case "path":
		sh.pathKey, sh.pathVal = d.Name, string(in.PathValue)
	}
	for _, dc := range in.Decoys {
		if dc.Loc == own { // not a decoy
			continue
		}
		switch dc.Loc {
		case "query":
			sh.query = append(sh.query, [2]Bs{dc.Key, dc.Val})
		case "header":
			if c03IsToken(string(dc.Key)) {
				sh.header = append(sh.header, [2]Bs{dc.Key, Bs(c03HeaderSafe(string(dc.Val)))})
			}
		case "form":
			sh.form, sh.hasForm = append(sh.form, [2]Bs{dc.Key, dc.Val}), true
		case "path":
			if sh.pathKey == "" && c03IsPathName(string(dc.Key)) {
				sh.pathKey, sh.pathVal = string(dc.Key), c03PathSafe(string(dc.Val))
			}
		}
	}
	return sh
}

// the request text; http.ReadRequest parses it exactly as a server would
func c03RawRequest(in c03In) []byte {
	var rawQuery *Bs
	if in.Decl.In == "query" {
		rawQuery = in.RawQuery
	}
	return c03RawOf(c03ShapeOf(in), in.Multipart, rawQuery)
}

func c03RawOf(sh c03Shape, multipartBody bool, rawQuery *Bs) []byte {
	var sb bytes.Buffer
	method, target := "GET", "/x"
	var body []byte
	ctype := ""
	if sh.pathKey != "" {
		target += "/" + url.PathEscape(sh.pathVal)
	}
	if rawQuery != nil {
		target += "?" + string(*rawQuery)
	} else if len(sh.query) > 0 {
		target += "?" + c03Encode(sh.query)
	}
	if sh.hasForm {
		method = "POST"
		if multipartBody {
			var mb bytes.Buffer
			mw := multipart.NewWriter(&mb)
			_ = mw.SetBoundary("verifboundary")
			for _, p := range sh.form {
				w, err := mw.CreateFormField(string(p[0]))
				if err != nil {
					panic(err)
				}
				w.Write([]byte(p[1]))
			}
			mw.Close()
			body = mb.Bytes()
			ctype = "multipart/form-data; boundary=verifboundary"
		} else {
			body = []byte(c03Encode(sh.form))
			ctype = "application/x-www-form-urlencoded"
		}
	}
	fmt.Fprintf(&sb, "%s %s HTTP/1.1\r\nHost: verif\r\n", method, target)
	for _, p := range sh.header {
		fmt.Fprintf(&sb, "%s: %s\r\n", string(p[0]), string(p[1]))
	}
	if method == "POST" {
		fmt.Fprintf(&sb, "Content-Type: %s\r\nContent-Length: %d\r\n", ctype, len(body))
	}
	sb.WriteString("\r\n")
	sb.Write(body)
	return sb.Bytes()
}

func c03ReadRequest(raw []byte) *http.Request {
	req, err := http.ReadRequest(bufio.NewReader(bytes.NewReader(raw)))
	if err != nil {
		panic(fmt.Sprintf("harness: generated request does not parse: %v\n%q", err, raw))
	}
	return req
}

// ParseForm also parses the query string and reports its errors; the generated bodies always parse, so an error
// is the body's only when the (possibly raw, malformed) query string parses
func c03QueryParses(req *http.Request) bool {
	_, err := url.ParseQuery(req.URL.RawQuery)
	return err == nil
}

func c03Flatten(m map[string][]string) [][2]Bs {
	keys := make([]string, 0, len(m))
	for k := range m {
		keys = append(keys, k)
	}
	sort.Strings(keys)
	var out [][2]Bs
	for _, k := range keys {
		for _, v := range m[k] {
			out = append(out, [2]Bs{Bs(k), Bs(v)})
		}
	}
	return out
}

type c03Env struct {
	doc     *loads.Document
	api     *untyped.API
	ctx     *middleware.Context
	handler http.Handler
	param   spec.Parameter
	params  []spec.Parameter
	got     map[string]interface{}
	ran     bool
}

func c03Build(d *c03Decl, sh c03Shape) *c03Env { return c03BuildAll([]*c03Decl{d}, sh) }

// one operation declaring all of ds (in this order)
func c03BuildAll(ds []*c03Decl, sh c03Shape) *c03Env {
	path := "/x"
	if sh.pathKey != "" {
		path = "/x/{" + sh.pathKey + "}"
	}
	method := "get"
	params := make([]any, len(ds))
	for i, d := range ds {
		params[i] = d.paramJSON()
	}
	op := map[string]any{"operationId": "op", "parameters": params, "responses": map[string]any{"200": map[string]any{"description": "ok"}}, "produces": []string{"application/json"}}
	if sh.hasForm {
		method = "post"
		op["consumes"] = []string{"application/x-www-form-urlencoded", "multipart/form-data"}
	}
	docJSON := c03JSON(map[string]any{"swagger": "2.0", "info": map[string]any{"title": "t", "version": "1"}, "paths": map[string]any{path: map[string]any{method: op}}})
	doc, err := loads.Analyzed(docJSON, "")
	if err != nil {
		panic(fmt.Sprintf("harness: generated description does not load: %v\n%s", err, docJSON))
	}
	env := &c03Env{doc: doc}
	env.api = untyped.NewAPI(doc)
	env.api.RegisterConsumer("application/x-www-form-urlencoded", runtime.DiscardConsumer)
	env.api.RegisterConsumer("multipart/form-data", runtime.DiscardConsumer)
	env.api.RegisterOperation(method, path, runtime.OperationHandlerFunc(func(params interface{}) (interface{}, error) {
		env.ran = true
		if m, ok := params.(map[string]interface{}); ok {
			env.got = m
		}
		return map[string]string{"ok": "1"}, nil
	}))
	env.ctx = middleware.NewContext(doc, env.api, nil)
	env.handler = env.ctx.APIHandler(nil)
	pi := doc.Spec().Paths.Paths[path]
	if method == "post" {
		env.params = pi.Post.Parameters
	} else {
		env.params = pi.Get.Parameters
	}
	env.param = env.params[0]
	return env
}

// stype term of a scalar Go type; fmtName = the declared format whose registered type it must be
func c03SType(t reflect.Type, fmtName string, formats strfmt.Registry) (string, bool) {
	switch t {
	case reflect.TypeOf(true):
		return "SBool", true
	case reflect.TypeOf(""):
		return "SStr", true
	case reflect.TypeOf(int8(0)):
		return "(SInt 8)", true
	case reflect.TypeOf(int16(0)):
		return "(SInt 16)", true
	case reflect.TypeOf(int32(0)):
		return "(SInt 32)", true
	case reflect.TypeOf(int64(0)):
		return "(SInt 64)", true
	case reflect.TypeOf(float32(0)):
		return "SF32", true
	case reflect.TypeOf(float64(0)):
		return "SF64", true
	}
	if fmtName != "" {
		if tt, ok := formats.GetType(fmtName); ok && tt == t {
			return "(SFmt " + coqBytes(fmtName) + ")", true
		}
	}
	return "", false
}

// rendering of a value of a registered format type: its Go type and its text form
func c03RenderFmt(v reflect.Value) string {
	var txt string
	if m, ok := v.Interface().(encoding.TextMarshaler); ok {
		b, err := m.MarshalText()
		if err != nil {
			txt = "!marshal error: " + err.Error()
		} else {
			txt = string(b)
		}
	} else if v.Kind() == reflect.String {
		txt = v.String()
	} else {
		txt = fmt.Sprintf("%v", v.Interface())
	}
	return v.Type().String() + "|" + txt
}

func c03SVal(v reflect.Value, fmtName string, formats strfmt.Registry) (string, bool) {
	st, ok := c03SType(v.Type(), fmtName, formats)
	if !ok {
		return "", false
	}
	switch {
	case st == "SBool":
		return "(VBool " + coqBool(v.Bool()) + ")", true
	case st == "SStr":
		return "(VStr " + coqBytes(v.String()) + ")", true
	case strings.HasPrefix(st, "(SInt"):
		return fmt.Sprintf("(VInt %d %s)", v.Type().Bits(), coqZ(v.Int())), true
	case st == "SF32":
		return fmt.Sprintf("(VF32 (%d)%%Z)", math.Float32bits(float32(v.Float()))), true
	case st == "SF64":
		return fmt.Sprintf("(VF64 (%d)%%Z)", math.Float64bits(v.Float())), true
	default:
		return "(VFmt " + coqBytes(fmtName) + " " + coqBytes(c03RenderFmt(v)) + ")", true
	}
}

// gval term of a received value
func c03GVal(x interface{}, d *c03Decl, formats strfmt.Registry) (string, bool) {
	if x == nil {
		return "", false
	}
	v := reflect.ValueOf(x)
	if d.Type == "array" {
		if v.Kind() != reflect.Slice {
			return "", false
		}
		st, ok := c03SType(v.Type().Elem(), d.ItemFormat, formats)
		if !ok {
			return "", false
		}
		items := make([]string, v.Len())
		for i := range items {
			s, ok := c03SVal(v.Index(i), d.ItemFormat, formats)
			if !ok {
				return "", false
			}
			items[i] = s
		}
		return "(VSlice " + st + " " + coqList(items, func(s string) string { return s }) + ")", true
	}
	s, ok := c03SVal(v, d.Format, formats)
	if !ok {
		return "", false
	}
	return "(VScalar " + s + ")", true
}

// the Go type typeForSchema should give a scalar (type, format), as an stype term: used only to convert defaults
func c03TargetOf(typ, format string, formats strfmt.Registry) (reflect.Type, bool) {
	switch typ {
	case "boolean":
		return reflect.TypeOf(true), true
	case "string":
		if tt, ok := formats.GetType(format); ok {
			return tt, true
		}
		return reflect.TypeOf(""), true
	case "integer":
		switch format {
		case "int8":
			return reflect.TypeOf(int8(0)), true
		case "int16":
			return reflect.TypeOf(int16(0)), true
		case "int32":
			return reflect.TypeOf(int32(0)), true
		}
		return reflect.TypeOf(int64(0)), true
	case "number":
		if format == "float" {
			return reflect.TypeOf(float32(0)), true
		}
		return reflect.TypeOf(float64(0)), true
	}
	return nil, false
}

// a JSON default as a value of the declared scalar type, when it conforms to it
func c03DefaultSVal(raw json.RawMessage, typ, format string, formats strfmt.Registry) (string, bool) {
	var x interface{}
	if err := json.Unmarshal(raw, &x); err != nil {
		return "", false
	}
	tt, ok := c03TargetOf(typ, format, formats)
	if !ok {
		return "", false
	}
	switch typ {
	case "boolean":
		b, ok := x.(bool)
		if !ok {
			return "", false
		}
		return "(VBool " + coqBool(b) + ")", true
	case "integer":
		f, ok := x.(float64)
		if !ok || f != math.Trunc(f) || math.Abs(f) > 1<<53 {
			return "", false
		}
		bits := tt.Bits()
		lim := math.Ldexp(1, bits-1)
		if f < -lim || f >= lim {
			return "", false
		}
		return fmt.Sprintf("(VInt %d %s)", bits, coqZ(int64(f))), true
	case "number":
		f, ok := x.(float64)
		if !ok {
			return "", false
		}
		if format == "float" {
			if math.Abs(f) > math.MaxFloat32 {
				return "", false
			}
			return fmt.Sprintf("(VF32 (%d)%%Z)", math.Float32bits(float32(f))), true
		}
		return fmt.Sprintf("(VF64 (%d)%%Z)", math.Float64bits(f)), true
	case "string":
		s, ok := x.(string)
		if !ok {
			return "", false
		}
		if tt == reflect.TypeOf("") {
			return "(VStr " + coqBytes(s) + ")", true
		}
		v := reflect.New(tt)
		u, ok := v.Interface().(encoding.TextUnmarshaler)
		if !ok || u.UnmarshalText([]byte(s)) != nil {
			return "", false
		}
		return "(VFmt " + coqBytes(format) + " " + coqBytes(c03RenderFmt(v.Elem())) + ")", true
	}
	return "", false
}

func c03DefaultCoq(d *c03Decl, formats strfmt.Registry) string {
	if d.Default == nil {
		return "None"
	}
	if d.Type == "array" {
		var xs []json.RawMessage
		if err := json.Unmarshal(d.Default, &xs); err != nil {
			return "(Some DIll)"
		}
		items := make([]string, len(xs))
		for i, x := range xs {
			s, ok := c03DefaultSVal(x, d.ItemType, d.ItemFormat, formats)
			if !ok {
				return "(Some DIll)"
			}
			items[i] = s
		}
		return "(Some (DSlice " + coqList(items, func(s string) string { return s }) + "))"
	}
	s, ok := c03DefaultSVal(d.Default, d.Type, d.Format, formats)
	if !ok {
		return "(Some DIll)"
	}
	return "(Some (DScalar " + s + "))"
}

// The validations of a `type: string` parameter (format, enum, pattern, lengths) are defined on strings.
// The oracle puts to the validate library: the typed value where the library classifies the Go type
// itself (strfmt.Date, DateTime, Duration, Base64, ObjectId, plain string); otherwise the text form
// (the string of a named string type such as strfmt.Email; MarshalText of any other registered type).
func c03TextForm(v reflect.Value) (string, bool) {
	if v.Kind() == reflect.String {
		return v.String(), true
	}
	switch v.Interface().(type) {
	case strfmt.Date, strfmt.DateTime, strfmt.Duration, strfmt.Base64, strfmt.ObjectId:
		return "", false
	}
	if m, ok := v.Interface().(encoding.TextMarshaler); ok {
		if b, err := m.MarshalText(); err == nil {
			return string(b), true
		}
	}
	return "", false
}

func c03ValidationForm(val interface{}, d *c03Decl) interface{} {
	v := reflect.ValueOf(val)
	switch {
	case d.Type == "string" && v.Type() != reflect.TypeOf(""):
		if s, ok := c03TextForm(v); ok {
			return s
		}
	case d.Type == "array" && d.ItemType == "string" && v.Kind() == reflect.Slice && v.Type().Elem() != reflect.TypeOf(""):
		out := make([]string, v.Len())
		for i := range out {
			s, ok := c03TextForm(v.Index(i))
			if !ok {
				return val
			}
			out[i] = s
		}
		return out
	}
	return val
}

func c03OverflowFloat32(x float64) bool {
	if x < 0 {
		x = -x
	}
	return math.MaxFloat32 < x && x <= math.MaxFloat64
}

// the sources as net/http and the router parse them (from a separate copy of the request)
func c03Sources(env *c03Env, raw []byte, sh c03Shape, multipart bool, obs *c03Obs) {
	req := c03ReadRequest(raw)
	obs.Query = c03Flatten(req.URL.Query())
	obs.Header = c03Flatten(req.Header)
	if mr, _, ok := env.ctx.RouteInfo(req); ok {
		for _, p := range mr.Params {
			obs.Path = append(obs.Path, [2]Bs{Bs(p.Name), Bs(p.Value)})
		}
	}
	if sh.hasForm { // the fields of the form body alone (PostForm / MultipartForm.Value), whatever the declared location
		if multipart {
			if err := req.ParseMultipartForm(32 << 20); err != nil && (c03QueryParses(req) || req.MultipartForm == nil) {
				panic("harness: multipart body does not parse: " + err.Error())
			}
			obs.Form = c03Flatten(req.MultipartForm.Value)
		} else {
			if err := req.ParseForm(); err != nil && c03QueryParses(req) {
				panic("harness: form body does not parse: " + err.Error())
			}
			obs.Form = c03Flatten(req.PostForm)
		}
	}
}

// the oracle tables of one declared parameter against the recorded sources of the request (srcs.Query/Header/Path/Form):
// strfmt UnmarshalText and strconv.ParseFloat over every text of the parameter's location, its items and the empty
// text; the validate library's verdict on the value the binder alone produces (hook VerifBindParam)
type c03Tab struct {
	Regs       []string      `json:"regs,omitempty"`
	Fmts       []c03FmtEnt   `json:"fmts,omitempty"`
	Floats     []c03FloatEnt `json:"floats,omitempty"`
	Valid      int           `json:"valid,omitempty"`
	DefCoq     string        `json:"def_coq,omitempty"`
	BindFailed bool          `json:"bind_failed,omitempty"` // the binder alone (no validator) rejects the parameter
}

func c03Tables(d *c03Decl, param spec.Parameter, env *c03Env, raw []byte, srcs *c03Obs) c03Tab {
	var obs c03Tab
	formats := env.api.Formats()
	var src [][2]Bs
	switch d.In {
	case "query":
		src = srcs.Query
	case "header":
		src = srcs.Header
	case "path":
		src = srcs.Path
	default:
		src = srcs.Form
	}
	texts := []string{""}
	seen := map[string]bool{"": true}
	add := func(s string) {
		if !seen[s] {
			seen[s] = true
			texts = append(texts, s)
		}
	}
	for _, p := range src {
		add(string(p[1]))
		if d.Type == "array" {
			for _, it := range swag.SplitByFormat(string(p[1]), d.CF) {
				add(it)
			}
		}
	}
	styp, sfmt := d.Type, d.Format
	if d.Type == "array" {
		styp, sfmt = d.ItemType, d.ItemFormat
	}
	if styp == "string" {
		if tt, ok := formats.GetType(sfmt); ok {
			obs.Regs = append(obs.Regs, sfmt)
			for _, t := range texts {
				v := reflect.New(tt)
				ent := c03FmtEnt{F: sfmt, T: Bs(t)}
				if u, ok := v.Interface().(encoding.TextUnmarshaler); ok {
					if _, perr := recoverTo(func() { ent.OK = u.UnmarshalText([]byte(t)) == nil }); perr != "" {
						ent.OK = false
					}
					if ent.OK {
						ent.R = Bs(c03RenderFmt(v.Elem()))
					}
				}
				obs.Fmts = append(obs.Fmts, ent)
			}
		}
	}
	if styp == "number" {
		for _, t := range texts {
			f, err := strconv.ParseFloat(t, 64)
			ent := c03FloatEnt{T: Bs(t), OK: err == nil}
			if err == nil {
				ent.B64, ent.Ov32, ent.B32 = math.Float64bits(f), c03OverflowFloat32(f), math.Float32bits(float32(f))
			}
			obs.Floats = append(obs.Floats, ent)
		}
	}
	obs.DefCoq = c03DefaultCoq(d, formats)

	recoverTo(func() {
		req := c03ReadRequest(raw)
		var rp middleware.RouteParams
		if mr, _, ok := env.ctx.RouteInfo(req); ok {
			rp = mr.Params
		}
		val, tpe, err := middleware.VerifBindParam(param, env.doc.Spec(), formats, req, rp)
		if err != nil {
			obs.BindFailed = true
		}
		if err != nil || tpe == nil {
			return
		}
		p := param
		res := validate.NewParamValidator(&p, formats).Validate(c03ValidationForm(val, d))
		if res != nil && res.HasErrors() {
			obs.Valid = -1
			if e, ok := res.Errors[0].(oaerrors.Error); ok {
				obs.Valid = int(e.Code())
			}
		}
	})
	return obs
}

func (c03) Run(inAny any) any {
	in := inAny.(c03In)
	var obs c03Obs
	switch in.Kind {
	case "canon":
		obs.R = Bs(http.CanonicalHeaderKey(string(in.S)))
		return obs
	case "int":
		z, err := strconv.ParseInt(string(in.S), 10, 64)
		obs.OK, obs.Z = err == nil, z
		if err != nil {
			obs.Z = 0
		}
		return obs
	case "split":
		obs.Items = toBs(swag.SplitByFormat(string(in.S), string(in.CF)))
		return obs
	case "read":
		vals := runtime.Values{}
		for _, p := range in.Pairs {
			vals[string(p[0])] = append(vals[string(p[0])], string(p[1]))
		}
		obs.R = Bs(runtime.ReadSingleValue(vals, string(in.Name)))
		obs.Items = toBs(runtime.ReadCollectionValue(vals, string(in.Name), string(in.CF)))
		return obs
	}
	if in.Kind == "multi" {
		return c03RunMulti(in)
	}
	if in.Kind == "file" {
		return c03RunFile(in)
	}
	d := in.Decl
	raw := c03RawRequest(in)
	sh := c03ShapeOf(in)
	env := c03Build(d, sh)
	formats := env.api.Formats()

	// 1. the sources as net/http and the router parse them (a separate copy of the request)
	c03Sources(env, raw, sh, in.Multipart, &obs)

	// 2. oracle tables over every text of the parameter's location, its items, and the empty text
	// 3. the validate library's verdict on the value the binder alone produces (hook VerifBindParam)
	tab := c03Tables(d, env.param, env, raw, &obs)
	obs.Regs, obs.Fmts, obs.Floats, obs.Valid, obs.DefCoq = tab.Regs, tab.Fmts, tab.Floats, tab.Valid, tab.DefCoq

	// 4. the real thing
	rec := httptest.NewRecorder()
	obs.Panicked, obs.Panic = recoverTo(func() {
		env.handler.ServeHTTP(rec, c03ReadRequest(raw))
	})
	obs.Ran = env.ran
	if obs.Panicked {
		obs.Outcome = "panic"
		return obs
	}
	obs.Status = rec.Code
	if env.ran && rec.Code == 200 {
		x, ok := env.got[d.Name]
		if ok {
			obs.HasVal = true
			obs.Val = fmt.Sprintf("%T %#v", x, x)
			if len(obs.Val) > 300 {
				obs.Val = obs.Val[:300]
			}
			obs.ValCoq, _ = c03GVal(x, d, formats)
		}
		obs.Outcome = "bound"
		return obs
	}
	var body struct {
		Code    int    `json:"code"`
		Message string `json:"message"`
	}
	_ = json.Unmarshal(rec.Body.Bytes(), &body)
	obs.Code, obs.Msg = body.Code, body.Message
	obs.Names = strings.Contains(body.Message, d.Name)
	switch {
	case rec.Code == 422 && body.Code == 602:
		obs.Outcome = "422-required"
	case rec.Code == 422 && obs.Valid != 0:
		obs.Outcome = "422-validation"
	case rec.Code == 422:
		obs.Outcome = "422-type"
	default:
		obs.Outcome = fmt.Sprintf("status-%d", rec.Code)
	}
	return obs
}

// ------------------------------------------------------------------ Gallina

func c03Pairs(ps [][2]Bs) string {
	return coqList(ps, func(p [2]Bs) string { return coqPair(coqBytes(string(p[0])), coqBytes(string(p[1]))) })
}

func c03Kind(t string) string {
	switch t {
	case "string":
		return "KString"
	case "integer":
		return "KInteger"
	case "number":
		return "KNumber"
	case "boolean":
		return "KBoolean"
	case "array":
		return "KArray"
	}
	return "KFile"
}

func (c03) Coq(inAny any, obsAny any) string {
	in, obs := inAny.(c03In), obsAny.(c03Obs)
	switch in.Kind {
	case "canon":
		return fmt.Sprintf("CCanon %s %s", coqBytes(string(in.S)), coqBytes(string(obs.R)))
	case "int":
		return fmt.Sprintf("CInt %s %s", coqBytes(string(in.S)), coqOpt(obs.OK, coqZ(obs.Z)))
	case "split":
		return fmt.Sprintf("CSplit %s %s %s", coqBytes(string(in.S)), coqBytes(string(in.CF)), coqBytesList(bsList(obs.Items)))
	case "read":
		return fmt.Sprintf("CRead %s %s %s %s %s", c03Pairs(in.Pairs), coqBytes(string(in.Name)), coqBytes(string(in.CF)), coqBytes(string(obs.R)), coqBytesList(bsList(obs.Items)))
	}
	if in.Kind == "multi" {
		return c03CoqMulti(in, obs)
	}
	if in.Kind == "file" {
		return c03CoqFile(in, obs)
	}
	d := in.Decl
	decl := c03CoqDecl(d, obs.DefCoq)
	rq := c03CoqRequest(obs)
	fmts := c03CoqFmts(obs.Fmts)
	floats := c03CoqFloats(obs.Floats)
	valid := c03CoqValid(obs.Valid)
	var o string
	switch {
	case obs.Panicked:
		o = "OPanic"
	case obs.Outcome == "bound" && obs.HasVal && obs.ValCoq != "":
		o = "(OBound " + obs.ValCoq + ")"
	case obs.Outcome == "bound":
		o = "OOther"
	default:
		o = fmt.Sprintf("(OErr %s %s %s)", coqNatBig(obs.Status), coqNatBig(obs.Code), coqBool(obs.Names))
	}
	return fmt.Sprintf("CBind %s %s %s %s %s %s %s %s", decl, rq, coqBytesList(obs.Regs), fmts, floats, valid, coqBool(obs.Ran), o)
}

func (c03) Classify(inAny any, obsAny any) []string {
	in, obs := inAny.(c03In), obsAny.(c03Obs)
	if in.Kind == "multi" || in.Kind == "file" {
		return nil
	}
	// F-C03-4: a default that does not conform to the declared type (outside the description language) is
	// consulted and the binder panics in reflect instead of answering an error
	if in.Kind == "bind" && obs.Panicked && obs.DefCoq == "(Some DIll)" && strings.HasPrefix(obs.Panic, "reflect") {
		return []string{"binder.ill_typed_default_consulted"}
	}
	// F-C03-6: the validate library's type validator does not know strfmt.ULID: every bound ulid value is rejected
	if in.Kind == "bind" && (in.Decl.Format == "ulid" || in.Decl.ItemFormat == "ulid") && obs.Status == 422 && obs.Code == 601 &&
		strings.Contains(obs.Msg, "must be of type ulid: \"\"") {
		return []string{"binder.ulid_rejected_by_type_validator"}
	}
	return nil
}

func c03TypeClass(d *c03Decl) string {
	sc := func(t, f string) string {
		switch t {
		case "integer":
			switch f {
			case "int8", "int16", "int32", "int64":
				return f
			}
			return "int-noformat"
		case "number":
			switch f {
			case "float", "double":
				return f
			}
			return "number-noformat"
		case "boolean":
			return "bool"
		}
		if _, ok := c03FmtTexts[f]; ok {
			return "string:" + f
		}
		return "string"
	}
	if d.Type == "array" {
		cf := d.CF
		if cf == "" {
			cf = "nocf"
		}
		item := sc(d.ItemType, d.ItemFormat)
		switch {
		case strings.HasPrefix(item, "int"):
			item = "int"
		case strings.HasPrefix(item, "string:"):
			item = "string:fmt"
		case item == "float" || item == "double" || item == "number-noformat":
			item = "number"
		}
		return "array-" + cf + "/" + item
	}
	return sc(d.Type, d.Format)
}

// the locations other than the declared one in which the request carries the declared name (header: up to case)
func c03DecoyLocs(in c03In) []string {
	d := in.Decl
	sh := c03ShapeOf(in)
	same := func(k string) bool { return k == d.Name || strings.EqualFold(k, d.Name) }
	has := func(ps [][2]Bs) bool {
		for _, p := range ps {
			if same(string(p[0])) {
				return true
			}
		}
		return false
	}
	var out []string
	if d.In != "query" && has(sh.query) {
		out = append(out, "query")
	}
	if d.In != "header" && has(sh.header) {
		out = append(out, "header")
	}
	if d.In != "formData" && has(sh.form) {
		out = append(out, "form")
	}
	if d.In != "path" && sh.pathKey != "" && same(sh.pathKey) {
		out = append(out, "path")
	}
	return out
}

func (c03) Category(inAny any, obsAny any) (string, bool) {
	in, obs := inAny.(c03In), obsAny.(c03Obs)
	switch in.Kind {
	case "canon":
		return "canon", strings.ContainsAny(string(in.S), "abcdefghijklmnopqrstuvwxyzABCDEFGHIJKLMNOPQRSTUVWXYZ")
	case "int":
		return "int/" + map[bool]string{true: "ok", false: "err"}[obs.OK], strings.ContainsAny(string(in.S), "0123456789")
	case "split":
		return "split/" + string(in.CF), strings.ContainsAny(string(in.S), ",| \t")
	case "read":
		return "read", len(in.Pairs) > 0
	case "multi":
		return c03CategoryMulti(in, obs)
	case "file":
		return c03CategoryFile(in, obs)
	}
	d := in.Decl
	// does the declared name occur in the request (by the rule of the location)?
	var src [][2]Bs
	switch d.In {
	case "query":
		src = obs.Query
	case "header":
		src = obs.Header
	case "path":
		src = obs.Path
	default:
		src = obs.Form
	}
	occ, lastEmpty := 0, false
	for _, p := range src {
		if string(p[0]) == d.Name || (d.In == "header" && strings.EqualFold(string(p[0]), d.Name)) {
			occ++
			lastEmpty = len(p[1]) == 0
		}
	}
	sit := "absent"
	switch {
	case occ > 1:
		sit = "repeated"
	case occ == 1 && lastEmpty:
		sit = "empty"
	case occ == 1:
		sit = "value"
	}
	loc := d.In
	if d.In == "formData" && in.Multipart {
		loc = "formData-multipart"
	}
	// the flags that decide absent/empty cases; for present values only the raw-query stream is marked
	flags := ""
	if sit == "absent" || sit == "empty" {
		if d.Required {
			flags += "+req"
		}
		if d.Default != nil {
			if obs.DefCoq == "(Some DIll)" {
				flags += "+illdefault"
			} else {
				flags += "+default"
			}
		}
		if d.AllowEmpty && sit == "empty" {
			flags += "+allowempty"
		}
	}
	if in.RawQuery != nil {
		loc = "query-raw"
	}
	if d.In == "header" && d.Name != http.CanonicalHeaderKey(d.Name) {
		loc = "header-noncanonical"
	}
	// cross-location decoys: the other locations in which the declared name is sent as well
	xl := c03DecoyLocs(in)
	if len(xl) > 0 {
		flags += "+also-in:" + strings.Join(xl, ",")
	}
	cat := fmt.Sprintf("bind/%s/%s/%s%s/%s", loc, c03TypeClass(d), sit, flags, obs.Outcome)
	nontrivial := occ > 0 || d.Required || d.Default != nil || len(xl) > 0
	return cat, nontrivial
}


// ------------------------------------------------------------------ several parameters of one request (kind "multi")
//
// One operation declares k >= 2 non-body parameters (query, header, formData, at most one path parameter; names
// distinct, no name a substring of another), ONE request carries a text for each of them (or omits it), a random
// subset of the texts is invalid: unparsable for the type, breaking a declared validation (maximum, minimum, enum,
// multipleOf, pattern, min/maxLength, min/maxItems, uniqueItems), or missing although required. The request is
// bound by the route's real UntypedRequestBinder.Bind (matched by the real router) and served by the API handler.
// Observable: the set of declared names that the leaves of the returned error name; status and whether the handler
// ran; the values the handler received. Expected: exactly the parameters that the single-parameter judgement
// (model / specification, with the oracles of that parameter) rejects are named, whatever the map order.

var c03MultiNames = map[string][]string{
	"query":    {"limit9", "tags7", "q_1", "a.b9"},
	"header":   {"X-Rate-Lim", "x-low7", "Trace7Id"},
	"formData": {"fcolour3", "f.size8", "Fmode5"},
	"path":     {"id9"},
}

func c03MultiDecl(r *rand.Rand, in, name string) *c03Decl {
	d := &c03Decl{Name: name, In: in}
	array := r.Intn(4) == 0
	var t c03TypeChoice
	switch k := r.Intn(10); {
	case k < 4:
		t = c03TypeChoice{"integer", c03Pick(r, []string{"int8", "int32", "int64", ""})}
	case k < 6:
		t = c03TypeChoice{"number", c03Pick(r, []string{"float", "double", ""})}
	case k < 7:
		t = c03TypeChoice{"boolean", ""}
	case k < 9:
		t = c03TypeChoice{"string", ""}
	default:
		t = c03TypeChoice{"string", c03Pick(r, []string{"date", "uuid", "email", "duration"})}
	}
	val := func(array bool) map[string]json.RawMessage {
		if r.Intn(4) == 0 {
			return nil
		}
		for j := 0; j < 8; j++ {
			if m := c03Validations(r, t, array); m != nil {
				return m
			}
		}
		return nil
	}
	if array {
		d.Type = "array"
		d.ItemType, d.ItemFormat = t.typ, t.format
		d.CF = c03Pick(r, []string{"", "csv", "pipes", "ssv"})
		if in == "query" || in == "formData" {
			d.CF = c03Pick(r, c03CFs)
		}
		if r.Intn(2) == 0 {
			d.ItemExtra = val(false)
		} else {
			d.Extra = val(true)
		}
	} else {
		d.Type, d.Format = t.typ, t.format
		d.Extra = val(false)
	}
	d.Required = in == "path" || r.Intn(3) == 0
	if !d.Required && r.Intn(5) == 0 && !array {
		d.Default = c03Default(r, t, false)
	}
	return d
}

// a text for one scalar: half of the time one that every declared validation of the generator accepts, else one
// that some validation may refuse, else anything from the type's corpus (unparsable literals included)
func c03MultiScalarText(r *rand.Rand, t c03TypeChoice) string {
	switch k := r.Intn(10); {
	case k < 5:
		switch t.typ {
		case "integer":
			return "5"
		case "number":
			return c03Pick(r, []string{"5", "5.0", "1e1"})
		case "boolean":
			return c03Pick(r, []string{"true", "false", "1"})
		}
		if xs, ok := c03FmtTexts[t.format]; ok {
			return xs[0]
		}
		return c03Pick(r, []string{"abc", "a"})
	case k < 8:
		switch t.typ {
		case "integer":
			return c03Pick(r, []string{"101", "0", "-3", "7", "127", "1", "100", "120"})
		case "number":
			return c03Pick(r, []string{"100.5", "0.5", "-1", "7", "1e3", "127"})
		case "string":
			if t.format == "" {
				return c03Pick(r, []string{"abcd", "A", "a", "zz9", "a b", "toolong", "x"})
			}
		}
	}
	return c03Text(r, t)
}

func c03MultiText(r *rand.Rand, d *c03Decl) string {
	if d.Type != "array" {
		return c03MultiScalarText(r, c03TypeChoice{d.Type, d.Format})
	}
	sep := c03Seps[d.CF]
	var parts []string
	for n := r.Intn(4); n > 0; n-- {
		parts = append(parts, c03MultiScalarText(r, c03TypeChoice{d.ItemType, d.ItemFormat}))
	}
	return strings.Join(parts, sep)
}

func c03GenMulti(r *rand.Rand) c03In {
	in := c03In{Kind: "multi"}
	k := 2 + r.Intn(4)
	used := map[string]bool{}
	hasPath := false
	for len(in.Params) < k {
		loc := []string{"query", "query", "query", "header", "header", "formData", "formData", "path"}[r.Intn(8)]
		if loc == "path" && hasPath {
			continue
		}
		name := c03Pick(r, c03MultiNames[loc])
		if used[name] {
			continue
		}
		used[name] = true
		d := c03MultiDecl(r, loc, name)
		p := c03MParam{Decl: d}
		switch {
		case loc == "path":
			hasPath = true
			p.PathValue = Bs(c03PathSafe(c03MultiText(r, d)))
		case r.Intn(6) == 0: // not sent: required / default decide
		default:
			nocc := 1
			if r.Intn(6) == 0 {
				nocc = 2
			}
			for j := 0; j < nocc; j++ {
				v, nm := c03MultiText(r, d), name
				if loc == "header" {
					v, nm = c03HeaderSafe(v), c03HeaderVariant(r, name)
				}
				p.Pairs = append(p.Pairs, [2]Bs{Bs(nm), Bs(v)})
			}
		}
		in.Params = append(in.Params, p)
	}
	in.Multipart = r.Intn(3) == 0
	return in
}

// a fixed family (independent of the seed): every pair and some triples of {passes, breaks a validation, unparsable,
// required and missing} over integer / string / array parameters in different locations
func c03EnumMulti() []any {
	type variant struct {
		d    c03Decl
		good string
	}
	vs := []variant{
		{c03Decl{Name: "limit9", In: "query", Type: "integer", Format: "int32", Extra: map[string]json.RawMessage{"maximum": c03JSON(100)}}, "5"},
		{c03Decl{Name: "x-low7", In: "header", Type: "integer", Format: "int64", Extra: map[string]json.RawMessage{"minimum": c03JSON(1)}}, "5"},
		{c03Decl{Name: "q_1", In: "query", Type: "string", Extra: map[string]json.RawMessage{"enum": c03JSON([]string{"a", "abc", "a b"})}}, "abc"},
		{c03Decl{Name: "fcolour3", In: "formData", Type: "string", Extra: map[string]json.RawMessage{"pattern": c03JSON("^[a-z]+$")}}, "abc"},
		{c03Decl{Name: "tags7", In: "query", Type: "array", ItemType: "string", CF: "csv", Extra: map[string]json.RawMessage{"maxItems": c03JSON(2)}}, "a,b"},
		{c03Decl{Name: "id9", In: "path", Type: "string", Required: true, Extra: map[string]json.RawMessage{"maxLength": c03JSON(3)}}, "abc"},
	}
	bad := map[string][2]string{ // breaks the validation, unparsable for the type ("" = none)
		"limit9": {"101", "zzz"}, "x-low7": {"0", "1e3"}, "q_1": {"abcd", ""}, "fcolour3": {"A1", ""}, "tags7": {"a,b,c", ""}, "id9": {"abcd", ""},
	}
	// situation of one parameter: 0 passes, 1 breaks its validation, 2 unparsable, 3 required and not sent
	mk := func(v variant, sit int) (c03MParam, bool) {
		d := v.d
		p := c03MParam{Decl: &d}
		txt := v.good
		switch sit {
		case 1:
			txt = bad[d.Name][0]
		case 2:
			txt = bad[d.Name][1]
			if txt == "" {
				return p, false
			}
		case 3:
			if d.In == "path" {
				return p, false
			}
			d.Required = true
			return p, true
		}
		if d.In == "path" {
			p.PathValue = Bs(txt)
		} else {
			p.Pairs = [][2]Bs{{Bs(d.Name), Bs(txt)}}
		}
		return p, true
	}
	var out []any
	for a := 0; a < len(vs); a++ {
		for b := a + 1; b < len(vs); b++ {
			for sa := 0; sa < 4; sa++ {
				for sb := 0; sb < 4; sb++ {
					pa, oka := mk(vs[a], sa)
					pb, okb := mk(vs[b], sb)
					if !oka || !okb || (sa == 0 && sb == 0 && a > 0) {
						continue
					}
					out = append(out, c03In{Kind: "multi", Params: []c03MParam{pa, pb}, Multipart: (a+b)%2 == 1})
				}
			}
		}
	}
	// all six at once: every one breaking its validation; all but one; alternating with unparsable / missing
	for mode := 0; mode < 8; mode++ {
		in := c03In{Kind: "multi"}
		for i, v := range vs {
			sit := 1
			switch {
			case mode >= 1 && mode <= 6 && i == mode-1:
				sit = 0
			case mode == 7:
				sit = []int{1, 2, 1, 3, 0, 1}[i]
			}
			p, ok := mk(v, sit)
			if !ok {
				p, _ = mk(v, 1)
			}
			in.Params = append(in.Params, p)
		}
		out = append(out, in)
	}
	return out
}

func c03MultiShape(in c03In) c03Shape {
	var sh c03Shape
	for _, p := range in.Params {
		switch p.Decl.In {
		case "query":
			sh.query = append(sh.query, p.Pairs...)
		case "header":
			sh.header = append(sh.header, p.Pairs...)
		case "formData":
			sh.form, sh.hasForm = append(sh.form, p.Pairs...), true
		case "path":
			if sh.pathKey == "" {
				sh.pathKey, sh.pathVal = p.Decl.Name, string(p.PathValue)
			}
		}
	}
	return sh
}

func c03ErrLeaves(err error, out *[]string) {
	if err == nil {
		return
	}
	if ce, ok := err.(*oaerrors.CompositeError); ok {
		if ce == nil {
			return
		}
		for _, e := range ce.Errors {
			c03ErrLeaves(e, out)
		}
		return
	}
	*out = append(*out, err.Error())
}

func c03RunMulti(in c03In) c03Obs {
	var obs c03Obs
	ds := make([]*c03Decl, len(in.Params))
	for i, p := range in.Params {
		ds[i] = p.Decl
		for j := 0; j < i; j++ {
			a, b := strings.ToLower(ds[j].Name), strings.ToLower(p.Decl.Name)
			if strings.Contains(a, b) || strings.Contains(b, a) {
				panic("harness: multi case with names that contain each other: " + a + " " + b)
			}
		}
	}
	sh := c03MultiShape(in)
	raw := c03RawOf(sh, in.Multipart, nil)
	env := c03BuildAll(ds, sh)
	formats := env.api.Formats()
	c03Sources(env, raw, sh, in.Multipart, &obs)
	obs.Multi = make([]c03MObs, len(ds))
	for i, d := range ds {
		obs.Multi[i].Tab = c03Tables(d, env.params[i], env, raw, &obs)
	}

	// the route's real request binder on the request (what Context.BindAndValidate calls)
	obs.Panicked, obs.Panic = recoverTo(func() {
		req := c03ReadRequest(raw)
		mr, _, ok := env.ctx.RouteInfo(req)
		if !ok {
			panic("harness: the generated request does not match the generated route")
		}
		data := map[string]interface{}{}
		err := mr.Binder.Bind(req, mr.Params, mr.Consumer, &data)
		c03ErrLeaves(err, &obs.BindErr)
		if err != nil && len(obs.BindErr) == 0 {
			obs.BindErr = []string{err.Error()}
		}
	})
	for i, d := range ds {
		for _, m := range obs.BindErr {
			if strings.Contains(m, d.Name) {
				obs.Multi[i].Named = true
			}
		}
	}
	if obs.Panicked {
		obs.Outcome = "panic"
		return obs
	}
	// and the whole handler: status, whether the operation ran, the values it received
	rec := httptest.NewRecorder()
	obs.Panicked, obs.Panic = recoverTo(func() {
		env.handler.ServeHTTP(rec, c03ReadRequest(raw))
	})
	obs.Ran = env.ran
	if obs.Panicked {
		obs.Outcome = "panic"
		return obs
	}
	obs.Status = rec.Code
	if env.ran && rec.Code == 200 {
		for i, d := range ds {
			if x, ok := env.got[d.Name]; ok {
				m := &obs.Multi[i]
				m.HasVal = true
				m.Val = fmt.Sprintf("%T %#v", x, x)
				if len(m.Val) > 200 {
					m.Val = m.Val[:200]
				}
				m.ValCoq, _ = c03GVal(x, d, formats)
			}
		}
		obs.Outcome = "bound"
		return obs
	}
	obs.Outcome = fmt.Sprintf("status-%d", rec.Code)
	return obs
}

func c03CoqDecl(d *c03Decl, defCoq string) string {
	loc := map[string]string{"query": "LQuery", "header": "LHeader", "path": "LPath", "formData": "LForm"}[d.In]
	itemKind := "None"
	if d.Type == "array" {
		itemKind = "(Some " + c03Kind(d.ItemType) + ")"
	}
	return fmt.Sprintf("{| d_name := %s; d_in := %s; d_kind := %s; d_format := %s; d_item_kind := %s; d_item_format := %s; d_cf := %s; d_required := %s; d_default := %s; d_allow_empty := %s |}",
		coqBytes(d.Name), loc, c03Kind(d.Type), coqBytes(d.Format), itemKind, coqBytes(d.ItemFormat), coqBytes(d.CF), coqBool(d.Required), defCoq, coqBool(d.AllowEmpty))
}

func c03CoqRequest(obs c03Obs) string {
	return fmt.Sprintf("{| r_query := %s; r_header := %s; r_path := %s; r_form := %s |}", c03Pairs(obs.Query), c03Pairs(obs.Header), c03Pairs(obs.Path), c03Pairs(obs.Form))
}

func c03CoqFmts(es []c03FmtEnt) string {
	return coqList(es, func(e c03FmtEnt) string {
		return coqPair(coqPair(coqBytes(e.F), coqBytes(string(e.T))), coqOpt(e.OK, coqBytes(string(e.R))))
	})
}

func c03CoqFloats(es []c03FloatEnt) string {
	return coqList(es, func(e c03FloatEnt) string {
		return coqPair(coqBytes(string(e.T)), coqOpt(e.OK, fmt.Sprintf("((%d)%%Z, %s, (%d)%%Z)", e.B64, coqBool(e.Ov32), e.B32)))
	})
}

func c03CoqValid(valid int) string {
	if valid == 0 {
		return "None"
	}
	if valid < 0 {
		valid = 0
	}
	return fmt.Sprintf("(Some %s)", coqNatBig(valid))
}

// CMulti ps rq ran panicked status named; ps = list of MP decl regs fmts floats valid got
func c03CoqMulti(in c03In, obs c03Obs) string {
	type ent struct {
		p c03MParam
		o c03MObs
	}
	es := make([]ent, len(in.Params))
	var named []string
	for i := range in.Params {
		es[i] = ent{in.Params[i], obs.Multi[i]}
		if obs.Multi[i].Named {
			named = append(named, in.Params[i].Decl.Name)
		}
	}
	ps := coqList(es, func(e ent) string {
		got := "None"
		if e.o.HasVal && e.o.ValCoq != "" {
			got = "(Some " + e.o.ValCoq + ")"
		}
		return fmt.Sprintf("(MP %s %s %s %s %s %s)", c03CoqDecl(e.p.Decl, e.o.Tab.DefCoq), coqBytesList(e.o.Tab.Regs), c03CoqFmts(e.o.Tab.Fmts), c03CoqFloats(e.o.Tab.Floats), c03CoqValid(e.o.Tab.Valid), got)
	})
	return fmt.Sprintf("CMulti %s %s %s %s %s %s", ps, c03CoqRequest(obs), coqBool(obs.Ran), coqBool(obs.Panicked), coqNatBig(obs.Status), coqBytesList(named))
}

func c03CategoryMulti(in c03In, obs c03Obs) (string, bool) {
	byValid, byBinder, named := 0, 0, 0
	locs := map[string]bool{}
	for i, p := range in.Params {
		locs[p.Decl.In] = true
		o := obs.Multi[i]
		switch {
		case o.Tab.BindFailed:
			byBinder++
		case o.Tab.Valid != 0:
			byValid++
		}
		if o.Named {
			named++
		}
	}
	return fmt.Sprintf("multi/k=%d/locations=%d/rejected-by-validation=%d/rejected-by-type-or-required=%d/named=%d/%s", len(in.Params), len(locs), byValid, byBinder, named, obs.Outcome),
		byValid+byBinder > 0 || len(in.Params) >= 2
}

// ------------------------------------------------------------------ file parameters (kind "file")

var c03FileNames = []string{"upload9", "file", "Doc_1", "a.b9"}
var c03FileFilenames = []string{"a.txt", "b.bin", "x y.png", "UPPER.TXT", "noext", ".hidden", "r\u00e9sum\u00e9.pdf"}
var c03FileDatas = []string{"", "x", "hello\n", "a=b&c=d", "line1\r\nline2\r\n", "\x00\x01\xff\xfe", "--", "--verif", "Content-Disposition: form-data; name=\"upload9\"; filename=\"z\"\r\n\r\nz", "%41+%zz"}

// another spelling of the name that is a different name for a form body
func c03FileOtherName(r *rand.Rand, name string) string {
	switch r.Intn(4) {
	case 0:
		return strings.ToUpper(name)
	case 1:
		return name + "2"
	case 2:
		return name[:len(name)-1]
	}
	return "other"
}

func c03GenFile(r *rand.Rand) c03In {
	name := c03Pick(r, c03FileNames)
	in := c03In{Kind: "file", Decl: &c03Decl{Name: name, In: "formData", Type: "file", Required: r.Intn(3) != 0}, Multipart: r.Intn(5) < 3}
	data := func() Bs {
		if r.Intn(3) == 0 {
			return Bs(c03Junk(r, "ab \r\n\x00\xff=&%+;\"", 40))
		}
		return Bs(c03Pick(r, c03FileDatas))
	}
	n := []int{0, 1, 1, 1, 2, 2, 3, 4}[r.Intn(8)]
	for j := 0; j < n; j++ {
		p := c03Part{Name: Bs(name), Data: data()}
		if r.Intn(3) == 0 {
			p.Name = Bs(c03FileOtherName(r, name))
		}
		if r.Intn(4) != 0 {
			p.Filename = Bs(c03Pick(r, c03FileFilenames))
		}
		in.Parts = append(in.Parts, p)
	}
	return in
}

// {required, optional} x {multipart, urlencoded} x two names x the part configurations: nothing, the file, a file under
// another name / a case variant, a plain field of the name, field then file, two files, file among others, empty file
func c03EnumFile() []any {
	var out []any
	for _, name := range []string{"upload9", "file"} {
		other, upper := name+"2", strings.ToUpper(name)
		cfgs := [][]c03Part{
			nil,
			{{Name: Bs(name), Filename: "a.txt", Data: "hello\n"}},
			{{Name: Bs(other), Filename: "a.txt", Data: "hello\n"}},
			{{Name: Bs(upper), Filename: "a.txt", Data: "hello\n"}},
			{{Name: Bs(name), Data: "plain"}},
			{{Name: Bs(name), Data: "plain"}, {Name: Bs(name), Filename: "b.bin", Data: "\x00\x01\xff"}},
			{{Name: Bs(name), Filename: "a.txt", Data: "first"}, {Name: Bs(name), Filename: "b.bin", Data: "second"}},
			{{Name: Bs(other), Filename: "o.txt", Data: "o"}, {Name: "note", Data: "n"}, {Name: Bs(name), Filename: "x y.png", Data: "img"}},
			{{Name: Bs(name), Filename: "empty", Data: ""}},
			{{Name: "note", Data: "n"}},
		}
		for _, required := range []bool{true, false} {
			for _, mp := range []bool{true, false} {
				for _, cfg := range cfgs {
					out = append(out, c03In{Kind: "file", Decl: &c03Decl{Name: name, In: "formData", Type: "file", Required: required}, Multipart: mp, Parts: cfg})
				}
			}
		}
	}
	return out
}

func c03FileRaw(in c03In) []byte {
	var body []byte
	ctype := "application/x-www-form-urlencoded"
	if in.Multipart {
		var mb bytes.Buffer
		mw := multipart.NewWriter(&mb)
		_ = mw.SetBoundary("verifboundary")
		for _, p := range in.Parts {
			var w io.Writer
			var err error
			if p.Filename != "" {
				w, err = mw.CreateFormFile(string(p.Name), string(p.Filename))
			} else {
				w, err = mw.CreateFormField(string(p.Name))
			}
			if err != nil {
				panic(err)
			}
			w.Write([]byte(p.Data))
		}
		mw.Close()
		body = mb.Bytes()
		ctype = "multipart/form-data; boundary=verifboundary"
	} else {
		var ps [][2]Bs
		for _, p := range in.Parts {
			ps = append(ps, [2]Bs{p.Name, p.Data})
		}
		body = []byte(c03Encode(ps))
	}
	var sb bytes.Buffer
	fmt.Fprintf(&sb, "POST /x HTTP/1.1\r\nHost: verif\r\nContent-Type: %s\r\nContent-Length: %d\r\n\r\n", ctype, len(body))
	sb.Write(body)
	return sb.Bytes()
}

func c03RunFile(in c03In) c03Obs {
	var obs c03Obs
	d := in.Decl
	raw := c03FileRaw(in)
	env := c03BuildAll([]*c03Decl{d}, c03Shape{hasForm: true})
	rec := httptest.NewRecorder()
	obs.Panicked, obs.Panic = recoverTo(func() {
		env.handler.ServeHTTP(rec, c03ReadRequest(raw))
		if f, ok := env.got[d.Name].(runtime.File); ok && f.Data != nil {
			obs.FileGot = true
			b, err := io.ReadAll(f.Data)
			if err != nil {
				panic(fmt.Sprintf("reading the received file: %v", err))
			}
			obs.FileData = Bs(b)
			if f.Header != nil {
				obs.FileName = Bs(f.Header.Filename)
			}
		}
	})
	obs.Ran = env.ran
	if obs.Panicked {
		obs.Outcome = "panic"
		return obs
	}
	obs.Status = rec.Code
	if env.ran && rec.Code == 200 {
		obs.Outcome = "ran-without-file"
		if obs.FileGot {
			obs.Outcome = "ran-with-file"
		}
		return obs
	}
	var body struct {
		Code    int    `json:"code"`
		Message string `json:"message"`
	}
	_ = json.Unmarshal(rec.Body.Bytes(), &body)
	obs.Code, obs.Msg = body.Code, body.Message
	obs.Names = strings.Contains(body.Message, d.Name)
	obs.Outcome = fmt.Sprintf("status-%d", rec.Code)
	return obs
}

func c03CoqFile(in c03In, obs c03Obs) string {
	flavour := "FUrlencoded"
	if in.Multipart {
		flavour = "FMultipart"
	}
	parts := coqList(in.Parts, func(p c03Part) string {
		// an urlencoded body has fields only; the model does not look at them, they are printed as sent
		return fmt.Sprintf("(FPart %s %s %s)", coqBytes(string(p.Name)), coqOpt(p.Filename != "", coqBytes(string(p.Filename))), coqBytes(string(p.Data)))
	})
	got := coqOpt(obs.FileGot, coqPair(coqBytes(string(obs.FileName)), coqBytes(string(obs.FileData))))
	return fmt.Sprintf("CFile %s %s (FReq %s %s) %s %s %s %s %s %s", coqBool(in.Decl.Required), coqBytes(in.Decl.Name), flavour, parts,
		coqBool(obs.Ran), coqBool(obs.Panicked), coqNatBig(obs.Status), coqNatBig(obs.Code), coqBool(obs.Names), got)
}

func c03CategoryFile(in c03In, obs c03Obs) (string, bool) {
	flavour := "urlencoded"
	if in.Multipart {
		flavour = "multipart"
	}
	sent := "nothing-of-the-name"
	fileOf, fieldOf := false, false
	for _, p := range in.Parts {
		if string(p.Name) == in.Decl.Name {
			if p.Filename != "" {
				fileOf = true
			} else {
				fieldOf = true
			}
		}
	}
	switch {
	case fileOf && fieldOf:
		sent = "file-and-field"
	case fileOf:
		sent = "file"
	case fieldOf:
		sent = "field-only"
	case len(in.Parts) > 0:
		sent = "other-names-only"
	}
	req := "optional"
	if in.Decl.Required {
		req = "required"
	}
	return fmt.Sprintf("file/%s/%s/%s/%s", flavour, req, sent, obs.Outcome), in.Decl.Required || fileOf || fieldOf
}
