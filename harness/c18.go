//go:build verif && (c18 || allprops)

package main

import (
	"bytes"
	"crypto"
	"crypto/ecdsa"
	"crypto/ed25519"
	"crypto/elliptic"
	crand "crypto/rand"
	"crypto/rsa"
	"crypto/tls"
	"crypto/x509"
	"crypto/x509/pkix"
	"encoding/json"
	"encoding/pem"
	"fmt"
	"math/big"
	"math/rand"
	"net"
	"net/http"
	"os"
	"path/filepath"
	"reflect"
	"sort"
	"strconv"
	"strings"
	"sync"
	"time"

	"github.com/go-openapi/runtime/client"
)

// C18 — TLS client options. One case = one value of client.TLSClientOptions built from real material:
//
//	client certificates  1 fixtures/certs/myclient.crt (RSA)  2 fixtures/certs/myclient-ecc.crt (EC)  3 generated Ed25519
//	                     4 generated EC leaf issued by intermediate 5, which is issued by intermediate 6 (issued by the client issuer root)
//	certificate files    1 2 3 = that single certificate; 4 = a CHAIN file: leaf 4 + intermediate 5; 5 = leaf 4 + intermediates 5, 6;
//	                     6 = intermediate 5 first, then leaf 4 (wrong order: the key does not match the first block)
//	keys                 1 myclient.key (RSA, pairs with cert 1)  2 myclient-ecc.key (EC, pairs with cert 2)
//	                     3 generated Ed25519 (pairs with cert 3; unsupported when loaded)  4 generated RSA (pairs with nothing)
//	                     5 generated EC P-256 (pairs with nothing)  6 EC key on an unnamed curve (cannot be marshalled)
//	                     7 generated EC P-256 (pairs with certificate 4, i.e. with the chain files 4 and 5)
//	file slots           the ids above = a path to a PEM file with that material; 100 = a path that does not exist;
//	                     101 = a readable file without any PEM block
//	CA files             1 = generated CA 1 followed by fixtures myCA.crt (CA 2)   2 = fixtures/certs/myCA.crt alone   3 = CA 6 alone
//	CA ids               1 file CA (generated)  2 fixtures myCA  3 loaded CA  4 CA in the loaded pool  5 the process's system pool
//	                     (SSL_CERT_FILE points at a generated CA, so that trusting the system pool is observable)
//	                     6 a second generated CA (the other loaded CA, second member of the larger pool)
//	tokens (c18Tok)      loaded_ca 1 (printed true) = CA 3, 2 = CA 6;  pool 1 (true) = {4}, 2 = an EMPTY non-nil pool, 3 = {4, 6};
//	                     callback 1 (true) = callback A, 2 = callback B;  cache 1 (true) = session cache A, 2 = session cache B
//	server names         arbitrary bytes; the enumerated universe c18Names holds plain names, names with a trailing dot / several
//	                     dots / a bare dot, upper and mixed case, IP literals, a port, blanks, a wildcard, IDN forms, a NUL byte, a
//	                     long label. Every pass-through field therefore has at least two distinct non-zero values.
//
// A HISTORY case (c18HistIn) is 2-4 such option values used one after the other in this one process with the SAME three file
// paths (certificate, key, CA file of a directory private to the history): in a history step the file ids name the CONTENT the
// harness puts behind the shared path before the call (100 = the file is removed, 101 = replaced by PEM-free bytes, 0 = option unset,
// file left alone). Every call must answer what a fresh process would for the content of that moment; configurations returned by
// earlier calls are projected again after the last call.
//
// The real TLSClientAuth is called on every case; the returned *tls.Config is projected; for the security-relevant rows
// handshakes are made against in-process TLS servers whose certificates are signed by CA 1, 3, 4, 5, by an unknown CA, and
// one server that only speaks TLS <= 1.1 and one that speaks TLS <= 1.2.
type c18In struct {
	CertFile   int    `json:"cert_file,omitempty"`
	LoadedCert int    `json:"loaded_cert,omitempty"`
	KeyFile    int    `json:"key_file,omitempty"`
	LoadedKey  int    `json:"loaded_key,omitempty"`
	CAFile     int    `json:"ca_file,omitempty"`
	LoadedCA   c18Tok `json:"loaded_ca,omitempty"`
	Pool       c18Tok `json:"pool,omitempty"`
	ServerName Bs     `json:"server_name,omitempty"`
	Insecure   bool   `json:"insecure,omitempty"`
	Callback   c18Tok `json:"callback,omitempty"`
	Tickets    bool   `json:"tickets_disabled,omitempty"`
	Cache      c18Tok `json:"cache,omitempty"`
	// Via: the entry point the options go through: 0 = TLSClientAuth, 1 = TLSTransport, 2 = TLSClient. For 1 and 2 the
	// configuration observed is the one the returned transport will use (its TLSClientConfig; the zero configuration when
	// that is nil, which is what net/http then uses).
	Via int `json:"via,omitempty"`
}

// c18Tok: which of several distinct values an option carries (0 = unset). 1 is written `true` in JSON (the form older
// replay files use), any other value as a number.
type c18Tok int

func (t c18Tok) MarshalJSON() ([]byte, error) {
	if t == 1 {
		return []byte("true"), nil
	}
	return []byte(strconv.Itoa(int(t))), nil
}

func (t *c18Tok) UnmarshalJSON(b []byte) error {
	switch s := strings.TrimSpace(string(b)); s {
	case "true":
		*t = 1
	case "false", "null":
		*t = 0
	default:
		n, err := strconv.Atoi(s)
		if err != nil {
			return fmt.Errorf("c18: token %q: %v", s, err)
		}
		*t = c18Tok(n)
	}
	return nil
}

// c18Names: the enumerated universe of server names (the first three are the names the handshake summary speaks about).
var c18Names = []string{
	"", c18Dial, "other.test",
	c18Dial + ".", "api.example.com.", ".", "..", "c18.test..", ".c18.test", // root label, bare dots, leading dot
	"C18.TEST", "C18.Test", "Api.Example.COM.", // case
	"127.0.0.1", "127.0.0.1.", "::1", "[::1]", "c18.test:443", // address literals, port
	"localhost", "a", "-", "*.c18.test", " c18.test", "c18.test ", "c18.test\n", // single label, wildcard, blanks
	"xn--bcher-kva.example", "b\xc3\xbccher.example", "c18.test\x00", "\xff\xfe.", // IDN forms, NUL, non-UTF-8
	"l" + strings.Repeat("o", 70) + "ng.label.c18.test.",
}

// c18PlainName: the names for which Check_C18.hs_expected (byte equality with the DNS names of the server certificate) is
// what crypto/x509 does; handshakes are made only with these.
func c18PlainName(n Bs) bool { return n == "" || n == c18Dial || n == "other.test" }

type c18HS struct {
	Server int    `json:"server"`
	OK     bool   `json:"ok"`
	Chain  []int  `json:"client_chain,omitempty"` // every certificate the server received from the client, wire order
	Err    string `json:"err,omitempty"`
}

// c18Cert: one element of tls.Config.Certificates: ids of all DER blocks it presents (leaf first) and the key id.
type c18Cert struct {
	Chain []int `json:"chain"`
	Key   int   `json:"key"`
}

// c18HistIn: several calls in one process on the same file paths (see the comment above c18In).
type c18HistIn struct {
	Hist []c18In `json:"hist"`
}

// c18Late: the projection, after the last call of the history, of the configuration step Step returned, when it is no longer
// what it was when the call returned.
type c18Late struct {
	Step int    `json:"step"`
	Obs  c18Obs `json:"obs"`
}

type c18HistObs struct {
	Steps []c18Obs  `json:"steps"`
	Late  []c18Late `json:"late,omitempty"`
}

// c18HistPaths: the three shared paths of one history.
type c18HistPaths struct{ cert, key, ca string }

type c18Obs struct {
	Panicked bool   `json:"panicked,omitempty"`
	Panic    string `json:"panic,omitempty"`
	// oracles: what the standard library says about the material of this case
	LoadOK    bool  `json:"load_ok"`
	FileChain []int `json:"file_chain,omitempty"` // the CERTIFICATE blocks of the certificate file, in file order
	MarshalOK bool  `json:"marshal_ok"`
	X509OK    bool  `json:"x509_ok"`
	CAReadErr bool  `json:"ca_read_err,omitempty"`
	CARead    []int `json:"ca_read,omitempty"`
	// projection of the result
	Err         string   `json:"err,omitempty"` // "", cert, key, ca, other
	ErrText     string   `json:"err_text,omitempty"`
	MinVersion  int      `json:"min_version,omitempty"`
	Insecure    bool     `json:"insecure,omitempty"`
	ServerName  Bs       `json:"server_name,omitempty"`
	RootsSystem bool     `json:"roots_system,omitempty"`
	Roots       []int    `json:"roots,omitempty"`
	Certs       []c18Cert `json:"certs,omitempty"`
	Callback    int      `json:"callback,omitempty"`
	Tickets     bool     `json:"tickets_disabled,omitempty"`
	Cache       int      `json:"cache,omitempty"`
	RestZero    bool     `json:"rest_zero"`
	HS          []c18HS  `json:"handshakes,omitempty"`
}

type c18Server struct {
	id    int
	ca    int
	maxV  uint16
	cfg   *tls.Config
	ln    net.Listener
	resCh chan c18SrvRes
}

type c18SrvRes struct {
	err   error
	chain []int
}

type c18Mat struct {
	dir       string
	certs     map[int]*x509.Certificate
	unusable  map[int]*x509.Certificate // ids 7..12: LoadedCertificate VALUES that cannot be presented (no / unparsable Raw), see loadedCert
	keys      map[int]crypto.Signer
	certPath  map[int]string
	keyPath   map[int]string
	caPath    map[int]string
	cas       map[int]*x509.Certificate
	caBySubj  map[string]int
	servers   []*c18Server
	cbA, cbB  func([][]byte, [][]*x509.Certificate) error
	cacheA    tls.ClientSessionCache
	cacheB    tls.ClientSessionCache
	loadCache map[[2]int]bool
	histSeq   int
	mu        sync.Mutex
}

const c18Dial = "c18.test"

var (
	c18Once sync.Once
	c18M    *c18Mat
)

func c18Must[T any](v T, err error) T {
	if err != nil {
		panic(err)
	}
	return v
}

func c18PEMFile(path string) []*pem.Block {
	data := c18Must(os.ReadFile(path))
	var out []*pem.Block
	for {
		var b *pem.Block
		b, data = pem.Decode(data)
		if b == nil {
			return out
		}
		out = append(out, b)
	}
}

func c18Write(dir, name string, blocks ...*pem.Block) string {
	var buf bytes.Buffer
	for _, b := range blocks {
		_ = pem.Encode(&buf, b)
	}
	p := filepath.Join(dir, name)
	if err := os.WriteFile(p, buf.Bytes(), 0o600); err != nil {
		panic(err)
	}
	return p
}

var c18Serial int64 = 1000

func c18NewCA(cn string) (*x509.Certificate, *ecdsa.PrivateKey) {
	k := c18Must(ecdsa.GenerateKey(elliptic.P256(), crand.Reader))
	c18Serial++
	tpl := &x509.Certificate{SerialNumber: big.NewInt(c18Serial), Subject: pkix.Name{CommonName: cn},
		NotBefore: time.Now().Add(-time.Hour), NotAfter: time.Now().Add(240 * time.Hour),
		IsCA: true, BasicConstraintsValid: true, KeyUsage: x509.KeyUsageCertSign | x509.KeyUsageDigitalSignature}
	der := c18Must(x509.CreateCertificate(crand.Reader, tpl, tpl, &k.PublicKey, k))
	return c18Must(x509.ParseCertificate(der)), k
}

// c18NewInter: an intermediate CA certificate issued by parent.
func c18NewInter(cn string, parent *x509.Certificate, parentKey crypto.Signer) (*x509.Certificate, *ecdsa.PrivateKey) {
	k := c18Must(ecdsa.GenerateKey(elliptic.P256(), crand.Reader))
	c18Serial++
	tpl := &x509.Certificate{SerialNumber: big.NewInt(c18Serial), Subject: pkix.Name{CommonName: cn},
		NotBefore: time.Now().Add(-time.Hour), NotAfter: time.Now().Add(240 * time.Hour),
		IsCA: true, BasicConstraintsValid: true, KeyUsage: x509.KeyUsageCertSign | x509.KeyUsageDigitalSignature}
	der := c18Must(x509.CreateCertificate(crand.Reader, tpl, parent, &k.PublicKey, parentKey))
	return c18Must(x509.ParseCertificate(der)), k
}

func c18NewLeaf(cn string, ca *x509.Certificate, caKey crypto.Signer, pub crypto.PublicKey, names []string) *x509.Certificate {
	c18Serial++
	tpl := &x509.Certificate{SerialNumber: big.NewInt(c18Serial), Subject: pkix.Name{CommonName: cn},
		NotBefore: time.Now().Add(-time.Hour), NotAfter: time.Now().Add(240 * time.Hour), DNSNames: names,
		KeyUsage:    x509.KeyUsageDigitalSignature,
		ExtKeyUsage: []x509.ExtKeyUsage{x509.ExtKeyUsageServerAuth, x509.ExtKeyUsageClientAuth}}
	der := c18Must(x509.CreateCertificate(crand.Reader, tpl, ca, pub, caKey))
	return c18Must(x509.ParseCertificate(der))
}

func c18Material() *c18Mat {
	c18Once.Do(func() {
		m := &c18Mat{certs: map[int]*x509.Certificate{}, keys: map[int]crypto.Signer{}, certPath: map[int]string{},
			keyPath: map[int]string{}, caPath: map[int]string{}, cas: map[int]*x509.Certificate{}, caBySubj: map[string]int{},
			loadCache: map[[2]int]bool{}}
		dir, err := os.MkdirTemp(".", "c18mat-")
		if err != nil {
			dir = c18Must(os.MkdirTemp("", "c18mat-"))
		}
		m.dir = c18Must(filepath.Abs(dir))
		repo := os.Getenv("VERIF_REPO")
		if repo == "" {
			repo = "/repo"
		}
		fx := filepath.Join(repo, "fixtures", "certs")

		// client certificates and keys from the fixtures
		m.certPath[1] = filepath.Join(fx, "myclient.crt")
		m.certPath[2] = filepath.Join(fx, "myclient-ecc.crt")
		m.keyPath[1] = filepath.Join(fx, "myclient.key")
		m.keyPath[2] = filepath.Join(fx, "myclient-ecc.key")
		m.certs[1] = c18Must(x509.ParseCertificate(c18PEMFile(m.certPath[1])[0].Bytes))
		m.certs[2] = c18Must(x509.ParseCertificate(c18PEMFile(m.certPath[2])[0].Bytes))
		for _, b := range c18PEMFile(m.keyPath[1]) {
			if b.Type == "RSA PRIVATE KEY" {
				m.keys[1] = c18Must(x509.ParsePKCS1PrivateKey(b.Bytes))
			}
		}
		for _, b := range c18PEMFile(m.keyPath[2]) {
			if b.Type == "EC PRIVATE KEY" {
				m.keys[2] = c18Must(x509.ParseECPrivateKey(b.Bytes))
			}
		}
		if m.keys[1] == nil || m.keys[2] == nil {
			panic("c18: fixture keys not found")
		}
		// generated client material
		edPub, edKey := func() (ed25519.PublicKey, ed25519.PrivateKey) {
			p, k, e := ed25519.GenerateKey(crand.Reader)
			if e != nil {
				panic(e)
			}
			return p, k
		}()
		m.keys[3] = edKey
		selfCA, selfKey := c18NewCA("c18 client issuer")
		m.certs[3] = c18NewLeaf("c18 ed25519 client", selfCA, selfKey, edPub, nil)
		m.certPath[3] = c18Write(m.dir, "client3.crt", &pem.Block{Type: "CERTIFICATE", Bytes: m.certs[3].Raw})
		m.keyPath[3] = c18Write(m.dir, "client3.key", &pem.Block{Type: "PRIVATE KEY", Bytes: c18Must(x509.MarshalPKCS8PrivateKey(edKey))})
		rsa4 := c18Must(rsa.GenerateKey(crand.Reader, 2048))
		m.keys[4] = rsa4
		m.keyPath[4] = c18Write(m.dir, "key4.key", &pem.Block{Type: "RSA PRIVATE KEY", Bytes: x509.MarshalPKCS1PrivateKey(rsa4)})
		m.keys[5] = c18Must(ecdsa.GenerateKey(elliptic.P256(), crand.Reader))
		p256 := elliptic.P256().Params()
		odd := &elliptic.CurveParams{P: p256.P, N: p256.N, B: p256.B, Gx: p256.Gx, Gy: p256.Gy, BitSize: p256.BitSize, Name: "c18-unnamed"}
		k5 := m.keys[5].(*ecdsa.PrivateKey)
		m.keys[6] = &ecdsa.PrivateKey{PublicKey: ecdsa.PublicKey{Curve: odd, X: k5.X, Y: k5.Y}, D: k5.D}
		// a leaf below two intermediates, and certificate files holding the chain
		inter6, inter6Key := c18NewInter("c18 client intermediate B", selfCA, selfKey)
		inter5, inter5Key := c18NewInter("c18 client intermediate A", inter6, inter6Key)
		k7 := c18Must(ecdsa.GenerateKey(elliptic.P256(), crand.Reader))
		m.keys[7] = k7
		m.certs[4] = c18NewLeaf("c18 chained client", inter5, inter5Key, &k7.PublicKey, nil)
		m.certs[5], m.certs[6] = inter5, inter6
		pemOf := func(id int) *pem.Block { return &pem.Block{Type: "CERTIFICATE", Bytes: m.certs[id].Raw} }
		m.certPath[4] = c18Write(m.dir, "chain4.crt", pemOf(4), pemOf(5))
		m.certPath[5] = c18Write(m.dir, "chain5.crt", pemOf(4), pemOf(5), pemOf(6))
		m.certPath[6] = c18Write(m.dir, "chain6-wrong-order.crt", pemOf(5), pemOf(4))
		m.keyPath[7] = c18Write(m.dir, "key7.key", &pem.Block{Type: "EC PRIVATE KEY", Bytes: c18Must(x509.MarshalECPrivateKey(k7))})
		// loaded certificate values whose encoding cannot be presented: the slot is non-nil, so an identity was requested
		tmpl := func(pub crypto.PublicKey) *x509.Certificate { // filled in by hand, never went through CreateCertificate + ParseCertificate
			return &x509.Certificate{SerialNumber: big.NewInt(4242), Subject: pkix.Name{CommonName: "c18 template"}, NotBefore: time.Now().Add(-time.Hour),
				NotAfter: time.Now().Add(time.Hour), KeyUsage: x509.KeyUsageDigitalSignature, ExtKeyUsage: []x509.ExtKeyUsage{x509.ExtKeyUsageClientAuth}, PublicKey: pub}
		}
		withRaw := func(of int, raw []byte) *x509.Certificate { // the parsed fields of a good certificate around another encoding
			c := *m.certs[of]
			c.Raw = raw
			return &c
		}
		der1, der2 := m.certs[1].Raw, m.certs[2].Raw
		m.unusable = map[int]*x509.Certificate{
			7:  {},                                      // zero value
			8:  tmpl(m.keys[1].Public()),                // template carrying the public key of RSA key 1
			9:  tmpl(m.keys[2].Public()),                // template carrying the public key of EC key 2
			10: withRaw(1, []byte("c18: not DER at all")), // Raw is garbage
			11: withRaw(2, der2[:len(der2)/2]),          // Raw is a truncated encoding
			12: withRaw(1, append(append([]byte(nil), der1...), 0x30, 0x00)), // Raw has trailing bytes after the certificate
		}
		m.certPath[100] = filepath.Join(m.dir, "does-not-exist.crt")
		m.keyPath[100] = filepath.Join(m.dir, "does-not-exist.key")
		m.caPath[100] = filepath.Join(m.dir, "does-not-exist-ca.crt")
		garbage := filepath.Join(m.dir, "garbage.pem")
		if err := os.WriteFile(garbage, []byte("this is not PEM\n-----BEGIN NOTHING\n"), 0o600); err != nil {
			panic(err)
		}
		m.certPath[101], m.keyPath[101], m.caPath[101] = garbage, garbage, garbage

		// certificate authorities
		caKeys := map[int]crypto.Signer{}
		for _, id := range []int{1, 3, 4, 5, 6, 0} {
			c, k := c18NewCA(fmt.Sprintf("c18 CA %d", id))
			m.cas[id], caKeys[id] = c, k
		}
		m.cas[2] = c18Must(x509.ParseCertificate(c18PEMFile(filepath.Join(fx, "myCA.crt"))[0].Bytes))
		for id, c := range m.cas {
			if id != 0 {
				m.caBySubj[string(c.RawSubject)] = id
			}
		}
		m.caPath[1] = c18Write(m.dir, "ca1.pem", &pem.Block{Type: "CERTIFICATE", Bytes: m.cas[1].Raw}, &pem.Block{Type: "CERTIFICATE", Bytes: m.cas[2].Raw})
		m.caPath[2] = filepath.Join(fx, "myCA.crt")
		m.caPath[3] = c18Write(m.dir, "ca3.pem", &pem.Block{Type: "CERTIFICATE", Bytes: m.cas[6].Raw})
		// the system pool of this process
		sys := c18Write(m.dir, "system-roots.pem", &pem.Block{Type: "CERTIFICATE", Bytes: m.cas[5].Raw})
		emptyDir := filepath.Join(m.dir, "empty-cert-dir")
		_ = os.Mkdir(emptyDir, 0o700)
		os.Setenv("SSL_CERT_FILE", sys)
		os.Setenv("SSL_CERT_DIR", emptyDir)

		// servers
		mk := func(id, ca int, minV, maxV uint16) {
			k := c18Must(ecdsa.GenerateKey(elliptic.P256(), crand.Reader))
			leaf := c18NewLeaf(fmt.Sprintf("c18 server %d", id), m.cas[ca], caKeys[ca], &k.PublicKey, []string{c18Dial})
			s := &c18Server{id: id, ca: ca, maxV: maxV, resCh: make(chan c18SrvRes, 1)}
			s.cfg = &tls.Config{Certificates: []tls.Certificate{{Certificate: [][]byte{leaf.Raw}, PrivateKey: k}},
				MinVersion: minV, MaxVersion: maxV, ClientAuth: tls.RequestClientCert, SessionTicketsDisabled: true}
			s.ln = c18Must(net.Listen("tcp", "127.0.0.1:0"))
			go func() {
				for {
					conn, err := s.ln.Accept()
					if err != nil {
						return
					}
					_ = conn.SetDeadline(time.Now().Add(10 * time.Second))
					sc := tls.Server(conn, s.cfg)
					err = sc.Handshake()
					res := c18SrvRes{err: err}
					if err == nil {
						for _, pc := range sc.ConnectionState().PeerCertificates {
							res.chain = append(res.chain, m.certID(pc.Raw))
						}
					}
					s.resCh <- res
					_ = sc.Close()
				}
			}()
			m.servers = append(m.servers, s)
		}
		mk(1, 1, tls.VersionTLS12, tls.VersionTLS13)
		mk(2, 3, tls.VersionTLS12, tls.VersionTLS13)
		mk(3, 4, tls.VersionTLS12, tls.VersionTLS13)
		mk(4, 5, tls.VersionTLS12, tls.VersionTLS13)
		mk(5, 0, tls.VersionTLS12, tls.VersionTLS13)
		mk(6, 1, tls.VersionTLS10, tls.VersionTLS11)
		mk(7, 1, tls.VersionTLS10, tls.VersionTLS12)
		mk(8, 6, tls.VersionTLS12, tls.VersionTLS13)

		m.cbA = func([][]byte, [][]*x509.Certificate) error { return nil }
		m.cbB = func(raw [][]byte, _ [][]*x509.Certificate) error { // distinct code, hence a distinct function pointer
			if len(raw) > 1<<30 {
				return fmt.Errorf("c18: callback B")
			}
			return nil
		}
		m.cacheA = tls.NewLRUClientSessionCache(4)
		m.cacheB = tls.NewLRUClientSessionCache(8)
		c18M = m
	})
	return c18M
}

func (m *c18Mat) certID(der []byte) int {
	for id, c := range m.certs {
		if bytes.Equal(c.Raw, der) {
			return id
		}
	}
	return 98
}

func (m *c18Mat) keyID(k crypto.PrivateKey) int {
	s, ok := k.(crypto.Signer)
	if !ok {
		return 99
	}
	type eq interface{ Equal(crypto.PublicKey) bool }
	for _, id := range []int{1, 2, 3, 4, 5, 7} { // 6 shares its point with 5 but lives on another curve object
		if p, ok := m.keys[id].Public().(eq); ok && p.Equal(s.Public()) {
			return id
		}
	}
	return 99
}

// loadedCert: the value put in LoadedCertificate. 1..4 are parsed certificates, 7..12 values that cannot be presented.
func (m *c18Mat) loadedCert(id int) *x509.Certificate {
	if c, ok := m.unusable[id]; ok {
		return c
	}
	return m.certs[id]
}

func (m *c18Mat) loadedKey(id int) crypto.PrivateKey {
	switch id {
	case 0:
		return nil
	case 3:
		return m.keys[3].(ed25519.PrivateKey)
	}
	return m.keys[id]
}

func (m *c18Mat) options(in c18In, hp *c18HistPaths) (o client.TLSClientOptions) {
	if in.CertFile != 0 {
		o.Certificate = m.certPath[in.CertFile]
	}
	defer func() { // a history step: the shared paths, whatever content they hold now
		if hp == nil {
			return
		}
		if in.CertFile != 0 {
			o.Certificate = hp.cert
		}
		if in.KeyFile != 0 {
			o.Key = hp.key
		}
		if in.CAFile != 0 {
			o.CA = hp.ca
		}
	}()
	if in.LoadedCert != 0 {
		o.LoadedCertificate = m.loadedCert(in.LoadedCert)
	}
	if in.KeyFile != 0 {
		o.Key = m.keyPath[in.KeyFile]
	}
	if in.LoadedKey != 0 {
		o.LoadedKey = m.loadedKey(in.LoadedKey)
	}
	if in.CAFile != 0 {
		o.CA = m.caPath[in.CAFile]
	}
	if in.LoadedCA != 0 {
		o.LoadedCA = m.cas[c18LoadedCAID(in.LoadedCA)]
	}
	if in.Pool != 0 {
		p := x509.NewCertPool() // fresh: TLSClientAuth adds to the pool it is given
		for _, id := range c18PoolIDs(in.Pool) {
			p.AddCert(m.cas[id])
		}
		o.LoadedCAPool = p
	}
	o.ServerName = string(in.ServerName)
	o.InsecureSkipVerify = in.Insecure
	switch in.Callback {
	case 1:
		o.VerifyPeerCertificate = m.cbA
	case 2:
		o.VerifyPeerCertificate = m.cbB
	}
	o.SessionTicketsDisabled = in.Tickets
	switch in.Cache {
	case 1:
		o.ClientSessionCache = m.cacheA
	case 2:
		o.ClientSessionCache = m.cacheB
	}
	return o
}

func c18LoadedCAID(t c18Tok) int {
	if t == 2 {
		return 6
	}
	return 3
}

func c18PoolIDs(t c18Tok) []int {
	switch t {
	case 2:
		return []int{}
	case 3:
		return []int{4, 6}
	}
	return []int{4}
}

func c18Valid(in c18In) bool {
	ok := func(v int, allowed ...int) bool {
		for _, a := range allowed {
			if v == a {
				return true
			}
		}
		return false
	}
	return ok(in.CertFile, 0, 1, 2, 3, 4, 5, 6, 100, 101) && ok(in.LoadedCert, 0, 1, 2, 3, 4, 7, 8, 9, 10, 11, 12) && ok(in.KeyFile, 0, 1, 2, 3, 4, 7, 100, 101) &&
		ok(in.LoadedKey, 0, 1, 2, 3, 4, 5, 6, 7) && ok(in.CAFile, 0, 1, 2, 3, 100, 101) &&
		ok(int(in.LoadedCA), 0, 1, 2) && ok(int(in.Pool), 0, 1, 2, 3) && ok(int(in.Callback), 0, 1, 2) && ok(int(in.Cache), 0, 1, 2) &&
		ok(in.Via, 0, 1, 2)
}

type c18 struct{}

func init() { register(c18{}) }

func (c18) ID() string        { return "C18" }
func (c18) CoqModule() string { return "Check_C18" }
func (c18) Rule() string {
	return "EXHAUSTIVE products over real material. (1) option lattice, quick: certificate file {none, RSA fixture, missing path} x loaded certificate {none, RSA, EC} x " +
		"key file {none, matching RSA, EC (mismatched), missing path} x loaded key {none, RSA, other RSA (mismatched), EC, Ed25519 (unsupported)} x CA file {none, two-certificate file, missing path} x " +
		"loaded CA x loaded pool x server name {unset, set} x insecure x callback x tickets-disabled x session cache (69 120 rows). (2) pass-through values: {no, file, loaded identity} x {system roots, loaded CA} x " +
		"every server name of a 29-name universe (plain, trailing dot, bare dots, leading dot, upper/mixed case, IPv4/IPv6 literals, port, single label, wildcard, blanks, newline, punycode, UTF-8, NUL, non-UTF-8, 70-byte label) x insecure x " +
		"callback {none, A, B} x tickets-disabled x session cache {none, A, B}; the carried name is compared byte for byte. (3) root options with several values: CA file {none, two-certificate file, missing} x loaded CA {none, CA 3, CA 6} x " +
		"pool {none, {4}, empty, {4,6}} x server name x insecure. thorough adds Ed25519/garbage certificate and key files, " +
		"an unmarshalable EC key, a mismatched EC key, a single-certificate and a PEM-free CA file and a non-matching server name (callback/session options all off or all on), and larger products (2) and (3). " +
		"Random cases draw from the thorough universe; server names are universe members or random bytes with up to three edits (dots, case, blanks, stray bytes). Handshakes against 8 in-process servers (signed by each CA, by an unknown CA, TLS<=1.1 only, TLS<=1.2) for the rows with " +
		"default callback/session options, a plain server name and either a representative identity or no verification options; the server records EVERY certificate the client sent. " +
		"(4) certificate files holding a chain: leaf + 1 and leaf + 2 intermediates with the matching / a mismatched / no key, intermediate-first order, next to a loaded pair, and the chain's leaf loaded alone; the full list of DER blocks of Certificates[0] is compared with the blocks of the file. " +
		"HISTORIES (2-4 calls in one process on the same three file paths, the harness changing what sits behind the paths between the calls): (A) CA file rotated in place / replaced by PEM-free bytes / removed / restored, every ordered pair of 5 contents and every triple of 4, " +
		"(B) certificate + key files: every ordered pair a,b and triple a,b,a of 8 contents (RSA pair, EC pair, chain +1, chain +2, mismatched, certificate removed, key removed, PEM-free certificate), (C) the root option consulted switches between the calls, repeated content, everything at once; " +
		"(5) the entry points TLSTransport and TLSClient (input field via = 1, 2; one random case in three): {no, file, loaded, mismatched loaded identity, key only} x CA file x loaded CA x pool x server name x insecure x every callback / tickets / cache combination, " +
		"including no option at all and pass-through options alone; the configuration observed is the TLSClientConfig of the returned *http.Transport (the zero configuration when nil; a transport that is the shared http.DefaultTransport counts as not-rest-zero). " +
		"one random case in four is a random history. Every call is compared with the single-call model on the content of its moment, and configurations retained from earlier calls are projected again (and used for handshakes) after the last call. Non-trivial: at least one option set."
}

func (c18) Decode(raw json.RawMessage) (any, error) {
	var probe struct {
		Hist []json.RawMessage `json:"hist"`
	}
	if json.Unmarshal(raw, &probe) == nil && probe.Hist != nil {
		var h c18HistIn
		if err := json.Unmarshal(raw, &h); err != nil {
			return h, err
		}
		for _, st := range h.Hist {
			if !c18Valid(st) {
				return h, fmt.Errorf("c18: material id out of range: %s", raw)
			}
		}
		if len(h.Hist) == 0 {
			return h, fmt.Errorf("c18: empty history")
		}
		return h, nil
	}
	var in c18In
	if err := json.Unmarshal(raw, &in); err != nil {
		return in, err
	}
	if !c18Valid(in) {
		return in, fmt.Errorf("c18: material id out of range: %s", raw)
	}
	return in, nil
}

// c18Pass: one value of the three opaque pass-through options.
type c18Pass struct {
	cb    c18Tok
	tk    bool
	cache c18Tok
}

// c18Dims: one axis list per option; c18Product is their full product.
type c18Dims struct {
	certFiles, loadedCerts, keyFiles, loadedKeys, caFiles []int
	loadedCAs, pools                                      []c18Tok
	names                                                 []string
	insecure                                              []bool
	pass                                                  []c18Pass
}

// c18Unusable: the loaded-certificate ids whose value cannot be presented (c18Mat.unusable).
var c18Unusable = []int{7, 8, 9, 10, 11, 12}

// c18IDs: (certificate file, loaded certificate, key file, loaded key) tuples used where the identity is not the axis of interest.
type c18ID [4]int

func c18Product(d c18Dims, ids []c18ID, out []any, seen map[c18In]bool) []any {
	if ids == nil {
		for _, cf := range d.certFiles {
			for _, lc := range d.loadedCerts {
				for _, kf := range d.keyFiles {
					for _, lk := range d.loadedKeys {
						ids = append(ids, c18ID{cf, lc, kf, lk})
					}
				}
			}
		}
	}
	for _, id := range ids {
		for _, ca := range d.caFiles {
			for _, lca := range d.loadedCAs {
				for _, pool := range d.pools {
					for _, name := range d.names {
						for _, ins := range d.insecure {
							for _, p := range d.pass {
								in := c18In{CertFile: id[0], LoadedCert: id[1], KeyFile: id[2], LoadedKey: id[3], CAFile: ca, LoadedCA: lca,
									Pool: pool, ServerName: Bs(name), Insecure: ins, Callback: p.cb, Tickets: p.tk, Cache: p.cache}
								if !seen[in] {
									seen[in] = true
									out = append(out, in)
								}
							}
						}
					}
				}
			}
		}
	}
	return out
}

func c18PassAll(toks []c18Tok) []c18Pass {
	var all []c18Pass
	for _, cb := range toks {
		for _, tk := range []bool{false, true} {
			for _, cache := range toks {
				all = append(all, c18Pass{cb, tk, cache})
			}
		}
	}
	return all
}

func (c18) Enumerate(tier string) []any {
	bools := []bool{false, true}
	seen := map[c18In]bool{}
	// 1. the option lattice: presence/absence of every option with valid, mismatched and unreadable material (69 120 rows)
	out := c18Product(c18Dims{certFiles: []int{0, 1, 100}, loadedCerts: []int{0, 1, 2}, keyFiles: []int{0, 1, 2, 100}, loadedKeys: []int{0, 1, 4, 2, 3},
		caFiles: []int{0, 1, 100}, loadedCAs: []c18Tok{0, 1}, pools: []c18Tok{0, 1}, names: []string{"", c18Dial}, insecure: bools,
		pass: c18PassAll([]c18Tok{0, 1})}, nil, nil, seen)
	// 2. the pass-through values: every server name of the universe x insecure x {no, A, B} callback x tickets x {no, A, B} cache,
	//    with no / a file / a loaded identity and with the system roots / a loaded CA
	ids := []c18ID{{0, 0, 0, 0}, {1, 0, 1, 0}, {0, 2, 0, 2}}
	lcas := []c18Tok{0, 2}
	if tier == "thorough" {
		ids = append(ids, c18ID{0, 1, 0, 1}, c18ID{0, 1, 0, 4}, c18ID{0, 0, 1, 0})
		lcas = []c18Tok{0, 1, 2}
	}
	out = c18Product(c18Dims{caFiles: []int{0}, loadedCAs: lcas, pools: []c18Tok{0}, names: c18Names, insecure: bools,
		pass: c18PassAll([]c18Tok{0, 1, 2})}, ids, out, seen)
	// 3. the root options with more than one value each: either loaded CA, an empty / one-member / two-member pool
	out = c18Product(c18Dims{caFiles: []int{0, 1, 100}, loadedCAs: []c18Tok{0, 1, 2}, pools: []c18Tok{0, 1, 2, 3}, names: []string{"", c18Dial},
		insecure: bools, pass: []c18Pass{{0, false, 0}, {2, true, 2}}}, []c18ID{{0, 0, 0, 0}, {0, 1, 0, 1}}, out, seen)
	// 4. certificate files holding a chain (leaf + 1, leaf + 2 intermediates, wrong order), the leaf of the chain loaded alone
	out = c18Product(c18Dims{caFiles: []int{0, 1}, loadedCAs: []c18Tok{0, 1}, pools: []c18Tok{0}, names: []string{"", c18Dial}, insecure: bools,
		pass: []c18Pass{{0, false, 0}, {2, true, 2}}},
		[]c18ID{{4, 0, 7, 0}, {5, 0, 7, 0}, {6, 0, 7, 0}, {4, 0, 1, 0}, {4, 0, 0, 0}, {5, 1, 7, 1}, {0, 4, 0, 7}, {0, 4, 0, 2}, {1, 0, 7, 0}}, out, seen)
	// 5. the other two entry points (TLSTransport, TLSClient): the configuration their transport uses is the one of the options,
	//    whatever subset of the options is set (nothing at all, pass-through options alone, roots alone, ...)
	var direct []any
	direct = c18Product(c18Dims{caFiles: []int{0, 1}, loadedCAs: []c18Tok{0, 1}, pools: []c18Tok{0, 2}, names: []string{"", c18Dial}, insecure: bools,
		pass: c18PassAll([]c18Tok{0, 1, 2})}, []c18ID{{0, 0, 0, 0}, {1, 0, 1, 0}, {0, 2, 0, 2}, {0, 1, 0, 4}, {0, 0, 1, 0}}, direct, map[c18In]bool{})
	for _, via := range []int{1, 2} {
		for _, d := range direct {
			in := d.(c18In)
			in.Via = via
			out = append(out, in)
		}
	}
	// 6. the loaded-certificate slot holds a VALUE that cannot be presented (zero value, hand-made templates, garbage / truncated /
	//    over-long Raw) x every kind of loaded key (none, matching family, other family, unsupported type): an identity was requested,
	//    so an error is due whatever else is set; next to a certificate file the file form wins; through all three entry points
	var bad []c18ID
	for _, lc := range c18Unusable {
		for _, lk := range []int{0, 1, 2, 3, 4} {
			bad = append(bad, c18ID{0, lc, 0, lk}, c18ID{0, lc, 1, lk})
		}
		bad = append(bad, c18ID{1, lc, 1, 0}, c18ID{1, lc, 1, 1}, c18ID{100, lc, 0, 1})
	}
	out = c18Product(c18Dims{caFiles: []int{0, 1}, loadedCAs: []c18Tok{0}, pools: []c18Tok{0}, names: []string{"", c18Dial}, insecure: bools,
		pass: []c18Pass{{0, false, 0}, {2, true, 2}}}, bad, out, seen)
	direct = c18Product(c18Dims{caFiles: []int{0}, loadedCAs: []c18Tok{0, 2}, pools: []c18Tok{0}, names: []string{"", c18Dial}, insecure: bools,
		pass: []c18Pass{{0, false, 0}}}, bad, nil, map[c18In]bool{})
	for _, via := range []int{1, 2} {
		for _, d := range direct {
			in := d.(c18In)
			in.Via = via
			out = append(out, in)
		}
	}
	out = append(out, c18EnumHist(tier)...)
	if tier == "thorough" {
		out = c18Product(c18Dims{certFiles: []int{0, 1, 100}, loadedCerts: c18Unusable, keyFiles: []int{0, 1, 2, 100}, loadedKeys: []int{0, 1, 2, 3, 4, 5, 6, 7},
			caFiles: []int{0, 1, 100}, loadedCAs: []c18Tok{0, 1}, pools: []c18Tok{0, 1}, names: []string{"", c18Dial}, insecure: bools,
			pass: []c18Pass{{0, false, 0}, {1, true, 1}}}, nil, out, seen)
		out = c18Product(c18Dims{certFiles: []int{0, 1, 2, 3, 100, 101}, loadedCerts: []int{0, 1, 2, 3}, keyFiles: []int{0, 1, 2, 3, 4, 100, 101},
			loadedKeys: []int{0, 1, 2, 3, 4, 5, 6}, caFiles: []int{0, 1, 2, 100, 101}, loadedCAs: []c18Tok{0, 1}, pools: []c18Tok{0, 1},
			names: []string{"", c18Dial, "other.test"}, insecure: bools, pass: []c18Pass{{0, false, 0}, {1, true, 1}}}, nil, out, seen)
		// the chain files in a lattice of their own
		out = c18Product(c18Dims{certFiles: []int{4, 5, 6}, loadedCerts: []int{0, 1, 4}, keyFiles: []int{0, 1, 7, 100}, loadedKeys: []int{0, 1, 7},
			caFiles: []int{0, 1, 3, 100}, loadedCAs: []c18Tok{0, 1}, pools: []c18Tok{0, 1}, names: []string{"", c18Dial, "other.test"}, insecure: bools,
			pass: []c18Pass{{0, false, 0}, {1, true, 1}}}, nil, out, seen)
		out = c18Product(c18Dims{caFiles: []int{0, 1, 2, 100, 101}, loadedCAs: []c18Tok{0, 1, 2}, pools: []c18Tok{0, 1, 2, 3},
			names: []string{"", c18Dial, c18Dial + ".", "other.test"}, insecure: bools, pass: []c18Pass{{0, false, 0}, {1, false, 2}, {2, true, 1}}},
			[]c18ID{{0, 0, 0, 0}, {1, 0, 1, 0}, {0, 2, 0, 2}}, out, seen)
	}
	return out
}

// c18EnumHist: the enumerated histories. Within a history the calls differ in what sits behind the shared paths (and, in
// group C, in which root option is consulted); everything else is constant.
func c18EnumHist(tier string) []any {
	var out []any
	add := func(steps ...c18In) { out = append(out, c18HistIn{Hist: append([]c18In(nil), steps...)}) }
	// A. the CA file: rotated in place, replaced by PEM-free bytes, removed, restored
	type ctx struct {
		id   c18ID
		pool c18Tok
		name string
	}
	ctxs := []ctx{{c18ID{0, 0, 0, 0}, 0, ""}, {c18ID{1, 0, 1, 0}, 1, c18Dial}}
	if tier == "thorough" {
		ctxs = append(ctxs, ctx{c18ID{0, 0, 0, 0}, 1, c18Dial}, ctx{c18ID{0, 2, 0, 2}, 0, ""}, ctx{c18ID{5, 0, 7, 0}, 3, ""})
	}
	caStep := func(c ctx, ca int) c18In {
		return c18In{CertFile: c.id[0], LoadedCert: c.id[1], KeyFile: c.id[2], LoadedKey: c.id[3], CAFile: ca, Pool: c.pool, ServerName: Bs(c.name)}
	}
	cas2 := []int{1, 2, 3, 100, 101}
	cas3 := []int{1, 3, 100, 101}
	for _, c := range ctxs {
		for _, a := range cas2 {
			for _, b := range cas2 {
				if a != b {
					add(caStep(c, a), caStep(c, b))
				}
			}
		}
		for _, a := range cas3 {
			for _, b := range cas3 {
				for _, d := range cas3 {
					if a != b && b != d {
						add(caStep(c, a), caStep(c, b), caStep(c, d))
					}
				}
			}
		}
	}
	// B. the certificate and key files: another pair, a chain longer or shorter, a pair that no longer matches, a file removed
	// or replaced by PEM-free bytes, and back
	pairs := [][2]int{{1, 1}, {2, 2}, {4, 7}, {5, 7}, {1, 2}, {100, 1}, {1, 100}, {101, 1}}
	caCtx := []int{0, 1}
	if tier == "thorough" {
		pairs = append(pairs, [2]int{3, 3}, [2]int{6, 7}, [2]int{1, 101}, [2]int{2, 7})
		caCtx = []int{0, 1, 100}
	}
	idStep := func(p [2]int, ca int) c18In { return c18In{CertFile: p[0], KeyFile: p[1], CAFile: ca} }
	for _, ca := range caCtx {
		for _, a := range pairs {
			for _, b := range pairs {
				if a != b {
					add(idStep(a, ca), idStep(b, ca))
					add(idStep(a, ca), idStep(b, ca), idStep(a, ca))
				}
			}
		}
	}
	// C. the option consulted changes between the calls while the files change underneath; unchanged content; everything at once
	for _, a := range []int{1, 3} {
		b := 4 - a
		add(c18In{CAFile: a}, c18In{CAFile: b, LoadedCA: 1}, c18In{CAFile: b})
		add(c18In{CAFile: a}, c18In{Pool: 1}, c18In{CAFile: b})
		add(c18In{CAFile: a}, c18In{CAFile: a}, c18In{CAFile: b}, c18In{CAFile: b})
		add(c18In{CAFile: a, Pool: 1}, c18In{CAFile: b, Pool: 3}, c18In{CAFile: 100, Pool: 1})
		add(c18In{CAFile: a, Insecure: true}, c18In{CAFile: b, Insecure: true}, c18In{CAFile: 101, Insecure: true})
		add(c18In{CertFile: 1, KeyFile: 1, CAFile: a}, c18In{LoadedCert: 2, LoadedKey: 2, CAFile: b}, c18In{CertFile: 4, KeyFile: 7, CAFile: a},
			c18In{CertFile: 1, KeyFile: 1, CAFile: b})
		add(c18In{LoadedCert: 6 + a, LoadedKey: 1, CAFile: a}, c18In{LoadedCert: 1, LoadedKey: 1, CAFile: b}, c18In{LoadedCert: 9 + a, LoadedKey: 1, CAFile: b},
			c18In{LoadedCert: 2, LoadedKey: 2, CAFile: a})
		add(c18In{CertFile: 5, KeyFile: 7, CAFile: a, ServerName: c18Dial}, c18In{CertFile: 2, KeyFile: 2, CAFile: b, ServerName: c18Dial},
			c18In{CertFile: 100, KeyFile: 100, CAFile: 100, ServerName: c18Dial}, c18In{CertFile: 4, KeyFile: 7, CAFile: a, ServerName: c18Dial})
	}
	return out
}

// c18GenHist: a random history: a first call with file options, then 1-3 further calls each changing one or two things
// (mostly what sits behind a path).
func c18GenHist(r *rand.Rand) c18HistIn {
	pick := func(xs ...int) int { return xs[r.Intn(len(xs))] }
	st := c18In{CAFile: pick(0, 1, 1, 2, 3, 3, 100, 101), Pool: c18Tok(pick(0, 0, 1, 3)), Insecure: r.Intn(4) == 0}
	switch r.Intn(4) {
	case 0:
	case 1:
		st.LoadedCert = pick(1, 2, 4)
		st.LoadedKey = map[int]int{1: 1, 2: 2, 4: 7}[st.LoadedCert]
	default:
		p := [][2]int{{1, 1}, {2, 2}, {4, 7}, {5, 7}, {3, 3}}[r.Intn(5)]
		st.CertFile, st.KeyFile = p[0], p[1]
	}
	if r.Intn(3) == 0 {
		st.ServerName = Bs(c18Pick2(r, c18Dial, "other.test"))
	}
	h := c18HistIn{Hist: []c18In{st}}
	for n := 1 + r.Intn(3); n > 0; n-- {
		for k := 1 + r.Intn(2); k > 0; k-- {
			switch r.Intn(8) {
			case 0, 1, 2:
				st.CAFile = pick(1, 2, 3, 100, 101)
			case 3, 4:
				p := [][2]int{{1, 1}, {2, 2}, {4, 7}, {5, 7}, {6, 7}, {1, 2}, {100, 1}, {1, 100}, {101, 1}, {4, 101}}[r.Intn(10)]
				st.CertFile, st.KeyFile = p[0], p[1]
			case 5:
				st.LoadedCA = c18Tok(pick(0, 1, 2))
			case 6:
				st.Pool = c18Tok(pick(0, 1, 2, 3))
			default:
				st.CertFile, st.KeyFile = 0, 0
			}
		}
		st.Via = pick(0, 0, 1, 2)
		h.Hist = append(h.Hist, st)
	}
	return h
}

func c18Pick2(r *rand.Rand, a, b string) string {
	if r.Intn(2) == 0 {
		return a
	}
	return b
}

// c18GenName: a server name for the random stream: a member of the universe or random bytes, then up to three edits of the
// kind a normalising implementation would undo (trailing / leading dot, case, blanks, a stray byte).
func c18GenName(r *rand.Rand) Bs {
	var b []byte
	if r.Intn(4) == 0 {
		b = make([]byte, 1+r.Intn(12))
		for j := range b {
			b[j] = byte(r.Intn(256))
		}
	} else {
		b = []byte(c18Names[1+r.Intn(len(c18Names)-1)])
	}
	for n := r.Intn(4); n > 0; n-- {
		switch r.Intn(8) {
		case 0:
			b = append(b, '.')
		case 1:
			b = append([]byte{'.'}, b...)
		case 2:
			b = bytes.ToUpper(b)
		case 3:
			b = bytes.ToLower(b)
		case 4:
			if len(b) > 0 {
				j := r.Intn(len(b))
				switch c := b[j]; {
				case 'a' <= c && c <= 'z':
					b[j] = c - 32
				case 'A' <= c && c <= 'Z':
					b[j] = c + 32
				}
			}
		case 5:
			b = append(b, " \t\r\n"[r.Intn(4)])
		case 6:
			b = append([]byte{' '}, b...)
		default:
			j := r.Intn(len(b) + 1)
			b = append(b[:j:j], append([]byte{byte(r.Intn(256))}, b[j:]...)...)
		}
	}
	if len(b) == 0 {
		b = []byte{'.'}
	}
	return Bs(b)
}

func (c18) Gen(r *rand.Rand, tier string, i int) any {
	pick := func(xs ...int) int { return xs[r.Intn(len(xs))] }
	if i%4 == 3 {
		return c18GenHist(r)
	}
	in := c18In{CertFile: pick(0, 0, 1, 2, 3, 4, 5, 6, 100, 101), LoadedCert: pick(0, 0, 1, 2, 3, 4, 1, 2, 7, 8, 9, 10, 11, 12), KeyFile: pick(0, 0, 1, 2, 3, 4, 7, 7, 100, 101),
		LoadedKey: pick(0, 0, 1, 2, 3, 4, 5, 6, 7), CAFile: pick(0, 0, 1, 2, 3, 100, 101), LoadedCA: c18Tok(pick(0, 0, 1, 2)), Pool: c18Tok(pick(0, 0, 1, 2, 3)),
		Insecure: r.Intn(2) == 0, Callback: c18Tok(pick(0, 1, 2)), Tickets: r.Intn(2) == 0, Cache: c18Tok(pick(0, 1, 2))}
	if i%2 == 1 { // every other random case yields a configuration rather than (mostly) an identity error
		in.CertFile, in.KeyFile, in.LoadedCert, in.LoadedKey = 0, 0, pick(0, 1, 2, 4), 0
		in.LoadedKey = map[int]int{0: 0, 1: 1, 2: 2, 4: 7}[in.LoadedCert]
		if in.CAFile >= 100 {
			in.CAFile = pick(0, 1, 2, 3)
		}
		if r.Intn(3) == 0 { // a certificate file holding a chain
			in.LoadedCert, in.LoadedKey, in.CertFile, in.KeyFile = 0, 0, pick(4, 5), 7
		}
	}
	switch r.Intn(5) {
	case 0:
	case 1:
		in.ServerName = c18Dial
	default:
		in.ServerName = c18GenName(r)
	}
	if r.Intn(3) == 0 {
		in.Via = 1 + r.Intn(2)
	}
	return in
}

// c18AskX509KeyPair: the oracle x509_pair_ok for an arbitrary encoding: does tls.X509KeyPair accept the PEM of these DER bytes
// next to the PEM of this key (PKCS#8, which X509KeyPair understands for every key family)?
func c18AskX509KeyPair(der []byte, key crypto.PrivateKey) bool {
	kb, err := x509.MarshalPKCS8PrivateKey(key)
	if err != nil {
		return false
	}
	_, err = tls.X509KeyPair(pem.EncodeToMemory(&pem.Block{Type: "CERTIFICATE", Bytes: der}), pem.EncodeToMemory(&pem.Block{Type: "PRIVATE KEY", Bytes: kb}))
	return err == nil
}

// c18WantHS: rows on which handshakes are made.
func c18WantHS(in c18In) bool {
	if in.Callback != 0 || in.Tickets || in.Cache != 0 || !c18PlainName(in.ServerName) {
		return false
	}
	id := [4]int{in.CertFile, in.LoadedCert, in.KeyFile, in.LoadedKey}
	switch id {
	case [4]int{0, 0, 0, 0}, [4]int{1, 0, 1, 0}, [4]int{0, 1, 0, 1}, [4]int{0, 2, 0, 2}, [4]int{0, 0, 1, 0}, [4]int{4, 0, 7, 0}, [4]int{5, 0, 7, 0}, [4]int{0, 4, 0, 7}:
		return true
	}
	return in.CAFile == 0 && in.LoadedCA == 0 && in.Pool == 0 && in.ServerName == "" && in.Insecure
}

func (m *c18Mat) handshake(cfg *tls.Config, s *c18Server) c18HS {
	hs := c18HS{Server: s.id}
	conn, err := net.DialTimeout("tcp", s.ln.Addr().String(), 5*time.Second)
	if err != nil {
		panic("c18: cannot dial in-process server: " + err.Error())
	}
	defer conn.Close()
	_ = conn.SetDeadline(time.Now().Add(10 * time.Second))
	c := cfg.Clone()
	if c.ServerName == "" { // what http.Transport does with a TLSClientConfig that has no ServerName
		c.ServerName = c18Dial
	}
	tc := tls.Client(conn, c)
	err = tc.Handshake()
	if err == nil {
		// TLS 1.3: the client is done before the server has read the client's second flight; wait for the server's view
		var b [1]byte
		_ = conn.SetReadDeadline(time.Now().Add(10 * time.Second))
		_, _ = tc.Read(b[:]) // the server closes after its handshake
	}
	if err != nil {
		_ = conn.Close() // a client that gave up before sending anything must not leave the server waiting
	}
	res := <-s.resCh
	if err != nil {
		hs.Err = err.Error()
		return hs
	}
	if res.err != nil {
		hs.Err = "server: " + res.err.Error()
		return hs
	}
	hs.OK, hs.Chain = true, res.chain
	return hs
}

func (c18) Run(inAny any) any {
	m := c18Material()
	if h, ok := inAny.(c18HistIn); ok {
		return m.runHist(h)
	}
	in := inAny.(c18In)
	obs, cfg := m.runStep(in, nil)
	if cfg != nil && c18WantHS(in) {
		m.handshakes(cfg, &obs)
	}
	return obs
}

// c18Place: put the content of the file src behind dst (rewritten in place), or remove dst when src does not exist.
func c18Place(dst, src string) {
	data, err := os.ReadFile(src)
	if err != nil {
		if err := os.Remove(dst); err != nil && !os.IsNotExist(err) {
			panic(err)
		}
		return
	}
	if err := os.WriteFile(dst, data, 0o600); err != nil {
		panic(err)
	}
}

// runHist: the calls of a history, one after the other, on three paths private to this history. Handshakes and the second
// projection of every returned configuration are made after the last call.
func (m *c18Mat) runHist(h c18HistIn) c18HistObs {
	m.histSeq++
	dir := filepath.Join(m.dir, fmt.Sprintf("hist-%06d", m.histSeq))
	if err := os.Mkdir(dir, 0o700); err != nil {
		panic(err)
	}
	defer os.RemoveAll(dir)
	hp := &c18HistPaths{cert: filepath.Join(dir, "client.crt"), key: filepath.Join(dir, "client.key"), ca: filepath.Join(dir, "ca.pem")}
	var out c18HistObs
	cfgs := make([]*tls.Config, len(h.Hist))
	for i, st := range h.Hist {
		if st.CertFile != 0 {
			c18Place(hp.cert, m.certPath[st.CertFile])
		}
		if st.KeyFile != 0 {
			c18Place(hp.key, m.keyPath[st.KeyFile])
		}
		if st.CAFile != 0 {
			c18Place(hp.ca, m.caPath[st.CAFile])
		}
		obs, cfg := m.runStep(st, hp)
		out.Steps = append(out.Steps, obs)
		cfgs[i] = cfg
	}
	for i, cfg := range cfgs {
		if cfg == nil {
			continue
		}
		late := out.Steps[i]
		late.clearProjection()
		p, msg := recoverTo(func() { m.project(cfg, &late) })
		if p {
			late.Panicked, late.Panic = true, msg
			late.RestZero = false
		}
		if !reflect.DeepEqual(late, out.Steps[i]) {
			out.Late = append(out.Late, c18Late{Step: i, Obs: late})
		}
		if c18WantHS(h.Hist[i]) {
			m.handshakes(cfg, &out.Steps[i])
		}
	}
	return out
}

func (m *c18Mat) handshakes(cfg *tls.Config, obs *c18Obs) {
	p, msg := recoverTo(func() {
		for _, s := range m.servers {
			obs.HS = append(obs.HS, m.handshake(cfg, s))
		}
	})
	if p {
		obs.Panicked, obs.Panic = true, msg
		obs.RestZero = false
	}
}

func (o *c18Obs) clearProjection() {
	o.MinVersion, o.Insecure, o.ServerName, o.RootsSystem, o.Roots, o.Certs = 0, false, "", false, nil, nil
	o.Callback, o.Tickets, o.Cache, o.RestZero = 0, false, 0, false
}

// project: the security-relevant content of a configuration.
func (m *c18Mat) project(cfg *tls.Config, obs *c18Obs) {
	obs.MinVersion = int(cfg.MinVersion)
	obs.Insecure = cfg.InsecureSkipVerify
	obs.ServerName = Bs(cfg.ServerName)
	if cfg.RootCAs == nil {
		obs.RootsSystem = true
	} else {
		seen := map[int]bool{}
		for _, subj := range cfg.RootCAs.Subjects() { //nolint:staticcheck // the pool never comes from SystemCertPool here
			id, ok := m.caBySubj[string(subj)]
			if !ok {
				id = 99
			}
			if !seen[id] {
				seen[id] = true
				obs.Roots = append(obs.Roots, id)
			}
		}
		sort.Ints(obs.Roots)
	}
	for _, c := range cfg.Certificates {
		cc := c18Cert{Chain: []int{}, Key: m.keyID(c.PrivateKey)}
		for _, der := range c.Certificate {
			cc.Chain = append(cc.Chain, m.certID(der))
		}
		if c.Leaf != nil && (len(c.Certificate) == 0 || !bytes.Equal(c.Leaf.Raw, c.Certificate[0])) {
			cc.Chain = append(cc.Chain, 97) // a parsed leaf that is not the first block presented
		}
		obs.Certs = append(obs.Certs, cc)
	}
	if cfg.VerifyPeerCertificate != nil {
		obs.Callback = 9
		switch reflect.ValueOf(cfg.VerifyPeerCertificate).Pointer() {
		case reflect.ValueOf(m.cbA).Pointer():
			obs.Callback = 1
		case reflect.ValueOf(m.cbB).Pointer():
			obs.Callback = 2
		}
	}
	obs.Tickets = cfg.SessionTicketsDisabled
	if cfg.ClientSessionCache != nil {
		obs.Cache = 9
		switch cfg.ClientSessionCache {
		case m.cacheA:
			obs.Cache = 1
		case m.cacheB:
			obs.Cache = 2
		}
	}
	obs.RestZero = cfg.MaxVersion == 0 && cfg.CipherSuites == nil && cfg.VerifyConnection == nil && cfg.GetClientCertificate == nil &&
		cfg.GetCertificate == nil && cfg.GetConfigForClient == nil && cfg.Rand == nil && cfg.Time == nil && cfg.KeyLogWriter == nil &&
		cfg.CurvePreferences == nil && cfg.Renegotiation == tls.RenegotiateNever
}

// runStep: one call of the real TLSClientAuth. hp == nil: the fixed files of the material table; hp != nil: a history step,
// the file options name the shared paths. The oracles are asked about exactly the paths handed to TLSClientAuth, now.
func (m *c18Mat) runStep(in c18In, hp *c18HistPaths) (c18Obs, *tls.Config) {
	obs := c18Obs{MarshalOK: true}
	opts := m.options(in, hp)
	// oracles, asked of the standard library directly
	if in.CertFile != 0 && in.KeyFile != 0 {
		key := [2]int{in.CertFile, in.KeyFile}
		v, ok := m.loadCache[key]
		if !ok || hp != nil {
			_, err := tls.LoadX509KeyPair(opts.Certificate, opts.Key)
			v = err == nil
			if hp == nil {
				m.loadCache[key] = v
			}
		}
		obs.LoadOK = v
	}
	if in.CertFile != 0 {
		if data, err := os.ReadFile(opts.Certificate); err == nil {
			for {
				var b *pem.Block
				b, data = pem.Decode(data)
				if b == nil {
					break
				}
				if b.Type == "CERTIFICATE" {
					obs.FileChain = append(obs.FileChain, m.certID(b.Bytes))
				}
			}
		}
	}
	if k, ok := m.loadedKey(in.LoadedKey).(*ecdsa.PrivateKey); ok {
		_, err := x509.MarshalECPrivateKey(k)
		obs.MarshalOK = err == nil
	}
	if in.LoadedCert != 0 && in.LoadedKey != 0 {
		type eq interface{ Equal(crypto.PublicKey) bool }
		if lc := m.loadedCert(in.LoadedCert); m.unusable[in.LoadedCert] != nil {
			obs.X509OK = c18AskX509KeyPair(lc.Raw, m.loadedKey(in.LoadedKey)) // ask the standard library about this encoding
		} else if p, ok := lc.PublicKey.(eq); ok {
			obs.X509OK = p.Equal(m.keys[in.LoadedKey].Public())
		}
	}
	if in.CAFile != 0 {
		data, err := os.ReadFile(opts.CA)
		if err != nil {
			obs.CAReadErr = true
		} else {
			for {
				var b *pem.Block
				b, data = pem.Decode(data)
				if b == nil {
					break
				}
				if c, err := x509.ParseCertificate(b.Bytes); err == nil && b.Type == "CERTIFICATE" {
					id, ok := m.caBySubj[string(c.RawSubject)]
					if !ok {
						id = 99
					}
					obs.CARead = append(obs.CARead, id)
				}
			}
		}
	}

	var cfg *tls.Config
	var err error
	shared := false
	obs.Panicked, obs.Panic = recoverTo(func() {
		if in.Via == 0 {
			cfg, err = client.TLSClientAuth(opts)
			return
		}
		var rt http.RoundTripper
		if in.Via == 1 {
			rt, err = client.TLSTransport(opts)
		} else {
			var hc *http.Client
			hc, err = client.TLSClient(opts)
			if err == nil && hc == nil {
				err = fmt.Errorf("c18: nil client without error")
			}
			if err == nil {
				rt = hc.Transport // nil: net/http uses http.DefaultTransport
				if rt == nil {
					rt = http.DefaultTransport
				}
			}
		}
		if err != nil {
			return
		}
		shared = rt == http.DefaultTransport
		t, ok := rt.(*http.Transport)
		switch {
		case !ok || t == nil:
			err = fmt.Errorf("c18: the round tripper is a %T, its TLS configuration cannot be read", rt)
		case t.TLSClientConfig == nil:
			cfg = &tls.Config{} // what net/http handshakes with when the transport has no configuration
		default:
			cfg = t.TLSClientConfig
		}
	})
	switch {
	case obs.Panicked:
		cfg = nil
	case err != nil:
		cfg = nil
		obs.ErrText = err.Error()
		switch {
		case strings.HasPrefix(obs.ErrText, "tls client cert:"):
			obs.Err = "cert"
		case strings.HasPrefix(obs.ErrText, "tls client priv key:"):
			obs.Err = "key"
		case strings.HasPrefix(obs.ErrText, "tls client ca:"):
			obs.Err = "ca"
		default:
			obs.Err = "other"
		}
	case cfg == nil:
		obs.Err, obs.ErrText = "other", "nil config without error"
	default:
		p, msg := recoverTo(func() { m.project(cfg, &obs) })
		if p {
			obs.Panicked, obs.Panic = true, msg
		}
	}
	if obs.Err != "" {
		obs.RestZero = true
	}
	if obs.Panicked || shared { // the process-wide transport handed out: anybody's later change of it changes this caller's TLS settings
		obs.RestZero = false
	}
	return obs, cfg
}

// c18Nat: unary numerals are expensive to type-check; anything but a small id goes through a primitive integer.
func c18Nat(x int) string {
	if x >= 0 && x <= 9 {
		return coqNat(x)
	}
	return coqNatBig(x)
}
func c18Ints(xs []int) string { return coqList(xs, c18Nat) }
func c18OptNat(present bool, v int) string {
	return coqOpt(present, c18Nat(v))
}

func (c18) Coq(inAny any, obsAny any) string {
	if h, ok := inAny.(c18HistIn); ok {
		ho := obsAny.(c18HistObs)
		var terms []string
		for i, st := range h.Hist {
			terms = append(terms, c18CoqStep(st, ho.Steps[i]))
		}
		for _, l := range ho.Late {
			terms = append(terms, c18CoqStep(h.Hist[l.Step], l.Obs))
		}
		return "Hist [" + strings.Join(terms, ";\n   ") + "]"
	}
	return "One (" + c18CoqStep(inAny.(c18In), obsAny.(c18Obs)) + ")"
}

func c18CoqStep(in c18In, obs c18Obs) string {
	m := c18Material()
	lk := "None"
	if in.LoadedKey != 0 {
		kind := "KOther"
		switch m.loadedKey(in.LoadedKey).(type) {
		case *rsa.PrivateKey:
			kind = "KRsa"
		case *ecdsa.PrivateKey:
			kind = "KEc"
		}
		lk = fmt.Sprintf("(Some (%s, %d))", kind, in.LoadedKey)
	}
	o := fmt.Sprintf("(mkOpts %s %s %s %s %s %s %s %s %s %s %s %s)",
		c18OptNat(in.CertFile != 0, in.CertFile), c18OptNat(in.LoadedCert != 0, in.LoadedCert), c18OptNat(in.KeyFile != 0, in.KeyFile), lk,
		c18OptNat(in.CAFile != 0, in.CAFile), c18OptNat(in.LoadedCA != 0, c18LoadedCAID(in.LoadedCA)), coqOpt(in.Pool != 0, c18Ints(c18PoolIDs(in.Pool))),
		coqBytes(string(in.ServerName)), coqBool(in.Insecure), c18OptNat(in.Callback != 0, int(in.Callback)), coqBool(in.Tickets),
		c18OptNat(in.Cache != 0, int(in.Cache)))
	caRead := "None"
	if in.CAFile != 0 && !obs.CAReadErr {
		caRead = "(Some " + c18Ints(obs.CARead) + ")"
	}
	var res string
	switch obs.Err {
	case "cert":
		res = "(Error ECert)"
	case "key":
		res = "(Error EKey)"
	case "ca":
		res = "(Error ECA)"
	case "other":
		res = "(Error EOther)"
	default:
		if obs.Panicked && obs.MinVersion == 0 {
			res = "(Error EOther)"
			break
		}
		roots := "RSystem"
		if !obs.RootsSystem {
			roots = "(RPool " + c18Ints(obs.Roots) + ")"
		}
		certs := coqList(obs.Certs, func(c c18Cert) string { return coqPair(c18Ints(c.Chain), c18Nat(c.Key)) })
		res = fmt.Sprintf("(Config (mkCfg %s %s %s %s %s %s %s %s))", c18Nat(obs.MinVersion), coqBool(obs.Insecure), coqBytes(string(obs.ServerName)),
			roots, certs, c18OptNat(obs.Callback != 0, obs.Callback), coqBool(obs.Tickets), c18OptNat(obs.Cache != 0, obs.Cache))
	}
	hs := coqList(obs.HS, func(h c18HS) string {
		s := m.servers[h.Server-1]
		return fmt.Sprintf("(HS (mkSrv %d [%s] %s) %s %s)", s.ca, coqBytes(c18Dial), c18Nat(int(s.maxV)), coqBool(h.OK), c18Ints(h.Chain))
	})
	return fmt.Sprintf("CTLS %s %s %s %s %s %s %s %s [5] %s %s", o, coqBool(obs.LoadOK), c18Ints(obs.FileChain), coqBool(obs.MarshalOK), coqBool(obs.X509OK), caRead,
		res, coqBool(obs.RestZero), coqBytes(c18Dial), hs)
}

func (c18) Classify(any, any) []string { return nil }

func (c18) Category(inAny any, obsAny any) (string, bool) {
	if h, ok := inAny.(c18HistIn); ok {
		ho := obsAny.(c18HistObs)
		ca, id, opt := false, false, false
		for i := 1; i < len(h.Hist); i++ {
			a, b := h.Hist[i-1], h.Hist[i]
			ca = ca || a.CAFile != b.CAFile
			id = id || a.CertFile != b.CertFile || a.KeyFile != b.KeyFile
			a.CAFile, a.CertFile, a.KeyFile = b.CAFile, b.CertFile, b.KeyFile
			opt = opt || a != b
		}
		what := ""
		for _, x := range []struct {
			on bool
			s  string
		}{{ca, "ca-file"}, {id, "cert-key-files"}, {opt, "options"}} {
			if x.on {
				what += "+" + x.s
			}
		}
		if what == "" {
			what = "+nothing"
		}
		outs := make([]string, 0, len(ho.Steps))
		for _, o := range ho.Steps {
			switch {
			case o.Panicked:
				outs = append(outs, "panic")
			case o.Err != "":
				outs = append(outs, "error")
			default:
				outs = append(outs, "config")
			}
		}
		late := ""
		if len(ho.Late) > 0 {
			late = "/retained-config-changed"
		}
		return fmt.Sprintf("history-%d/changes%s/%s%s", len(h.Hist), what, strings.Join(outs, ","), late), true
	}
	in, obs := inAny.(c18In), obsAny.(c18Obs)
	var id string
	switch {
	case in.CertFile >= 4 && in.CertFile <= 6:
		id = "cert-chain-file"
	case in.CertFile != 0:
		id = "cert-file"
	case in.LoadedCert >= 7:
		id = "cert-loaded-unusable-value"
	case in.LoadedCert != 0:
		id = "cert-loaded"
	case in.KeyFile != 0 || in.LoadedKey != 0:
		id = "key-only"
	default:
		id = "no-identity"
	}
	var ca string
	switch {
	case in.LoadedCA != 0:
		ca = "loaded-ca"
	case in.CAFile != 0:
		ca = "ca-file"
	case in.Pool != 0:
		ca = "pool"
	default:
		ca = "system"
	}
	out := "config"
	switch {
	case obs.Panicked:
		out = "panic"
	case obs.Err != "":
		out = "error-" + obs.Err
	case len(obs.HS) > 0:
		out = "config+handshakes"
	}
	name := ""
	switch {
	case in.ServerName == "":
	case c18PlainName(in.ServerName):
		name = "/name"
	case strings.HasSuffix(string(in.ServerName), "."):
		name = "/name-trailing-dot"
	default:
		name = "/name-unusual"
	}
	nontrivial := in != c18In{}
	via := [...]string{"", "via-transport/", "via-client/"}[in.Via]
	return via + id + "/" + ca + "/" + out + name, nontrivial
}
