package main

import (
	"fmt"
	"math"
	"math/big"
	"strings"
)

// Gallina rendering helpers. Terms are printed for `Local Open Scope nat_scope`:
// byte values are bare nat numerals; Z and N values carry explicit scope keys.

func coqBytes(s string) string {
	if len(s) == 0 {
		return "[]"
	}
	var sb strings.Builder
	fmt.Fprintf(&sb, "(bs [%d", len(s))
	for i := 0; i < len(s); i += 7 {
		var v uint64
		for j := 6; j >= 0; j-- {
			v <<= 8
			if i+j < len(s) {
				v |= uint64(s[i+j])
			}
		}
		fmt.Fprintf(&sb, ";%d", v)
	}
	sb.WriteString("]%uint63)")
	return sb.String()
}

// coqNatBig renders a possibly large non-negative count as a nat via a primitive literal.
func coqNatBig(n int) string { return fmt.Sprintf("(nat_of_int %d%%uint63)", n) }

func coqList[T any](xs []T, f func(T) string) string {
	if len(xs) == 0 {
		return "[]"
	}
	parts := make([]string, len(xs))
	for i, x := range xs {
		parts[i] = f(x)
	}
	return "[" + strings.Join(parts, "; ") + "]"
}

func coqBytesList(xs []string) string { return coqList(xs, coqBytes) }

func coqBool(b bool) string {
	if b {
		return "true"
	}
	return "false"
}

func coqZ(z int64) string { return fmt.Sprintf("(%d)%%Z", z) }

func coqBigZ(z *big.Int) string { return "(" + z.String() + ")%Z" }

func coqN(n uint64) string { return fmt.Sprintf("%d%%N", n) }

func coqNat(n int) string { return fmt.Sprintf("%d", n) }

func coqOpt(present bool, term string) string {
	if !present {
		return "None"
	}
	return "(Some " + term + ")"
}

func coqPair(a, b string) string { return "(" + a + ", " + b + ")" }

// coqFloat renders a float64 as `FNum m k` (value m / 2^k), FInf or FNaN.
func coqFloat(f float64) string {
	switch {
	case math.IsNaN(f):
		return "FNaN"
	case math.IsInf(f, 0):
		return "FInf"
	case f == 0:
		return "(FNum 0%Z 0%Z)"
	}
	fr, exp := math.Frexp(f) // f = fr * 2^exp, 0.5 <= |fr| < 1
	m := int64(fr * (1 << 53))
	k := 53 - exp // f = m / 2^k
	if k < 0 {
		bm := new(big.Int).Lsh(big.NewInt(m), uint(-k))
		return fmt.Sprintf("(FNum %s 0%%Z)", coqBigZ(bm))
	}
	return fmt.Sprintf("(FNum %s %s)", coqZ(m), coqZ(int64(k)))
}

// recoverTo runs f and reports whether it panicked, with the panic text.
func recoverTo(f func()) (panicked bool, msg string) {
	defer func() {
		if r := recover(); r != nil {
			panicked = true
			msg = fmt.Sprint(r)
		}
	}()
	f()
	return
}
