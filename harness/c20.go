//go:build verif && (c20 || allprops)

package main

import (
	"bufio"
	"bytes"
	"encoding/json"
	"fmt"
	"html"
	"math/rand"
	"net/http"
	"net/http/httptest"
	"net/url"
	"os"
	"os/exec"
	"path"
	"regexp"
	"strconv"
	"strings"
	"sync"
	"unicode/utf8"

	"github.com/go-openapi/loads"
	"github.com/go-openapi/runtime"
	"github.com/go-openapi/runtime/middleware"
	"github.com/go-openapi/runtime/middleware/untyped"
)

// C20 — spec and docs middlewares. Case kinds:
//
//	clean / join / split   path.Clean, path.Join, path.Split against Lib/PathCleanD.v
//	spec                   middleware.Spec(base, bytes, next, WithSpecPath?, WithSpecDocument?) on one request
//	ui                     Redoc / RapiDoc / SwaggerUI / SwaggerUIOAuth2Callback with an option record (every field of the
//	                       flavour's option struct, the script / style / icon URLs included) on one request
//	api                    Context.APIHandler / APIHandlerSwaggerUI / APIHandlerRapiDoc with UI options on one request, plus
//	                       the spec reference of the served page, requested the way a browser does: resolved against the
//	                       page URL, percent-encoded into a request line, parsed by net/http, served by the same handler
//	hist                   2-4 members (ui / api inputs as above) BUILT in one process, chained (UI middlewares, each the next
//	                       handler of the one before, built innermost first as nested calls are; requests go to the head) or
//	                       side by side, and only then requested, each at its own document path(s) and some variants; every
//	                       body is compared with the page the same member serves when built alone and fetched at once
type c20In struct {
	Kind   string `json:"kind"`
	P      Bs     `json:"p,omitempty"`
	Elems  []Bs   `json:"elems,omitempty"`
	Req    Bs     `json:"req,omitempty"`
	Method string `json:"method,omitempty"`
	// spec
	Base     Bs   `json:"base,omitempty"`
	HasOPath bool `json:"has_spec_path,omitempty"`
	OPath    Bs   `json:"spec_path,omitempty"`
	HasODoc  bool `json:"has_spec_doc,omitempty"`
	ODoc     Bs   `json:"spec_doc,omitempty"`
	B        Bs   `json:"b,omitempty"`
	HasNext  bool `json:"has_next,omitempty"`
	// ui
	Flavour  int  `json:"flavour,omitempty"` // 0 redoc 1 rapidoc 2 swaggerui 3 oauth2 callback
	UBase    Bs   `json:"ui_base,omitempty"`
	UPath    Bs   `json:"ui_path,omitempty"`
	USpecURL Bs   `json:"ui_spec_url,omitempty"`
	UTitle   Bs   `json:"ui_title,omitempty"`
	UCb      Bs   `json:"ui_oauth_cb,omitempty"`
	Custom   bool `json:"custom_template,omitempty"`
	// flavour-specific options: the assets the page loads (Redoc: redoc_url; RapiDoc: rapidoc_url; SwaggerUI and its
	// OAuth2 callback: the other five)
	RedocURL         Bs `json:"redoc_url,omitempty"`
	RapiDocURL       Bs `json:"rapidoc_url,omitempty"`
	SwaggerURL       Bs `json:"swagger_url,omitempty"`
	SwaggerPresetURL Bs `json:"swagger_preset_url,omitempty"`
	SwaggerStylesURL Bs `json:"swagger_styles_url,omitempty"`
	Favicon32        Bs `json:"favicon32,omitempty"`
	Favicon16        Bs `json:"favicon16,omitempty"`
	// api
	CtxBase     Bs   `json:"ctx_base,omitempty"`
	SpecTitle   Bs   `json:"spec_title,omitempty"`
	HasOBase    bool `json:"has_o_base,omitempty"`
	HasOUIPath  bool `json:"has_o_path,omitempty"`
	HasOSpecURL bool `json:"has_o_spec_url,omitempty"`
	HasOTitle   bool `json:"has_o_title,omitempty"`
	HasOTpl     bool `json:"has_o_template,omitempty"` // WithTemplate(the flavour's custom template)
	// hist
	Chained bool      `json:"chained,omitempty"`
	Fresh   bool      `json:"fresh_oracle,omitempty"` // the alone pages come from one fresh process per member
	Members []c20In   `json:"members,omitempty"`
	Reqs    []c20HReq `json:"reqs,omitempty"`
}

// c20HReq: one request of a history, sent to member Target (to the head of the chain when chained).
type c20HReq struct {
	Target int    `json:"target"`
	Req    Bs     `json:"req"`
	Method string `json:"method,omitempty"`
}

// c20HObs: what that request got (serve: with the whole body).
type c20HObs struct {
	What     string `json:"what"` // serve | spec | next | 404 | router | other
	CType    string `json:"ctype,omitempty"`
	Status   int    `json:"status,omitempty"`
	Body     Bs     `json:"body,omitempty"`
	NextSame bool   `json:"next_same,omitempty"`
}

// c20Alone: the page a member serves when nothing else is built between building it and fetching the page; URLPath: the
// url.Parse oracle of an api member.
type c20Alone struct {
	HasPage bool `json:"has_page,omitempty"`
	Page    Bs   `json:"page,omitempty"`
	URLPath Bs   `json:"url_path,omitempty"`
}

type c20Obs struct {
	Panicked bool   `json:"panicked,omitempty"`
	Panic    string `json:"panic,omitempty"`
	R        Bs     `json:"r,omitempty"`
	D        Bs     `json:"d,omitempty"`
	F        Bs     `json:"f,omitempty"`
	// handler observation
	What     string `json:"what,omitempty"` // serve | next | 404 | other ; api: spec | ui | router | other
	CType    string `json:"ctype,omitempty"`
	Status   int    `json:"status,omitempty"`
	Body     Bs     `json:"body,omitempty"` // spec cases only
	NextSame bool   `json:"next_same,omitempty"`
	Skel     Bs     `json:"skel,omitempty"`
	BaseSkel Bs     `json:"base_skel,omitempty"`
	HasRef   bool   `json:"has_ref,omitempty"`
	Ref      Bs     `json:"ref,omitempty"`
	// the reference as a browser requests it: HasRefPath = it can be requested at all (resolves to an http(s) URL whose
	// request line net/http accepts), RefPath = r.URL.Path of that request; Want* = the same for SpecURL itself
	HasRefPath  bool `json:"has_ref_path,omitempty"`
	RefPath     Bs   `json:"ref_path,omitempty"`
	HasWantPath bool `json:"has_want_path,omitempty"`
	WantPath    Bs   `json:"want_path,omitempty"`
	// api
	URLPath   Bs   `json:"url_path,omitempty"`
	Abs       bool `json:"abs,omitempty"`
	RefServes bool `json:"ref_serves,omitempty"`
	HasPage   bool `json:"has_page,omitempty"`
	// hist
	H     []c20HObs  `json:"h,omitempty"`
	Alone []c20Alone `json:"alone,omitempty"`
}

type c20 struct{}

func init() { register(c20{}) }

func (c20) ID() string        { return "C20" }
func (c20) CoqModule() string { return "Check_C20" }
func (c20) Rule() string {
	return "path.Clean/Join/Split on paths assembled from slashes, dots, dot-dots, names, odd bytes; Spec with base path x WithSpecPath x WithSpecDocument (absent, empty, " +
		"with/without slashes, nested, dot segments); the four UI middlewares with base path / path / spec URL / title / callback URL absent or hostile (< > & ' \" and script text) and a custom template; " +
		"every flavour-specific option too (RedocURL, RapiDocURL, SwaggerURL / preset / styles / two favicons) absent, harmless or hostile, default template and a custom template per flavour that prints every field; " +
		"the three API-handler flavours with base path, UI path, spec URL (absent, absolute path, nested, absolute URL, scheme-relative, relative, directory; with percent-encoded bytes in a directory or in the " +
		"document name, raw spaces and non-ASCII, encoded slash / question mark / hash / percent, query string, fragment, invalid escapes), title and template options; request paths derived from the configured path " +
		"(exact, trailing slash, doubled slash, dot and dot-dot segments, prefix, extension, other case, unrelated, unrooted, empty) x methods; with and without next. " +
		"HISTORIES (about one case in 11): 2-4 UI middlewares of any flavour chained as next handlers of one another (the usual SwaggerUI + OAuth2 callback pair with the same options among them) or side by side, " +
		"or 2-4 API handlers of any flavour side by side (same context, different spec URL / UI path / title / flavour), neighbours differing in one option or in the flavour only; all are built first, then each is requested at its " +
		"own document path(s) and at variants, and every page is compared byte for byte with the page the same member serves when built alone. Non-trivial: the request path differs " +
		"from the configured path textually, or an option is set."
}

func (c20) Decode(raw json.RawMessage) (any, error) {
	var in c20In
	err := json.Unmarshal(raw, &in)
	if err == nil && in.Kind == "hist" {
		if len(in.Members) == 0 {
			return in, fmt.Errorf("c20: history without members")
		}
		for _, m := range in.Members {
			if (m.Kind != "ui" && m.Kind != "api") || m.Flavour < 0 || m.Flavour > 3 || (m.Kind == "api" && m.Flavour > 2) ||
				(in.Chained && m.Kind != "ui") || m.Kind != in.Members[0].Kind {
				return in, fmt.Errorf("c20: bad history member")
			}
		}
		for _, q := range in.Reqs {
			if q.Target < 0 || q.Target >= len(in.Members) {
				return in, fmt.Errorf("c20: request for a member that does not exist")
			}
		}
	}
	return in, err
}

// Enumerate: every web suffix / sibling name of c20WebSuffix appended to the document paths (UI and spec) of default-ish
// configurations and to their parents, for the spec middleware, the four UI flavours (with and without a next handler) and
// the three API handlers.
func (c20) Enumerate(tier string) []any {
	var out []any
	n := 0
	for _, sfx := range c20WebSuffix {
		for _, ext := range []func(string) string{func(t string) string { return t + sfx }, func(t string) string { return c20Sibling(t, sfx) }} {
			n++
			for fl := 0; fl < 4; fl++ {
				in := c20In{Kind: "ui", Method: "GET", HasNext: (n+fl)%3 != 0, Flavour: fl, UBase: Bs([]string{"", "/api", "/"}[(n+fl)%3]), UPath: Bs([]string{"", "docs", "ui/redoc"}[n%3]), UTitle: "t"}
				in.Req = Bs(ext(c20UITarget(in)))
				out = append(out, in)
			}
			sp := c20In{Kind: "spec", Method: "GET", HasNext: n%3 != 0, B: `{"swagger":"2.0"}`, Base: Bs([]string{"", "/api", "/"}[n%3])}
			sp.Req = Bs(ext(path.Join(c20OrDefault(string(sp.Base), "/"), "swagger.json")))
			out = append(out, sp)
			for fl := 0; fl < 3; fl++ {
				in := c20In{Kind: "api", Method: "GET", Flavour: fl, CtxBase: Bs([]string{"", "/api", "/api/v1"}[(n+fl)%3]), SpecTitle: "t"}
				if n%2 == 0 {
					in.HasOSpecURL, in.USpecURL = true, Bs([]string{"/spec/openapi.json", "/swagger.json"}[(n/2)%2])
				}
				ui, spec := c20APITargets(in)
				in.Req = Bs(ext([]string{ui, spec}[(n+fl)%2]))
				out = append(out, in)
			}
		}
	}
	return out
}

// ---------- generators ----------
var c20Pieces = []string{"/", "/", "/", ".", "..", "a", "b", "docs", "swagger.json", "api", "%2F", "\x00", "\xc3\xa9", " ", "...", ".a", "a.", "//", "/./", "/../"}

func c20Path(r *rand.Rand) string {
	var sb strings.Builder
	for n := r.Intn(8); n > 0; n-- {
		sb.WriteString(c20Pieces[r.Intn(len(c20Pieces))])
	}
	return sb.String()
}

func c20Pick(r *rand.Rand, xs ...string) string { return xs[r.Intn(len(xs))] }

var c20Methods = []string{"GET", "GET", "GET", "HEAD", "POST", "PUT", "DELETE", "OPTIONS", "PATCH"}

// c20WebSuffix: index documents, the usual names of specification documents and of the assets of the documentation UIs,
// common extensions - what gets appended to (or sits next to) a document path on a web server.
var c20WebSuffix = []string{"/index.html", "/index.htm", "/index", "/", "/index.html/", "/default.htm", "/index.php", "/index.json",
	"/swagger.json", "/swagger.yaml", "/openapi.json", "/openapi.yaml", "/doc.json", "/api-docs", "/v2/api-docs", "/spec",
	"/docs", "/ui", "/redoc", "/rapidoc", "/oauth2-callback", "/oauth2-redirect.html", "/favicon.ico", "/favicon-32x32.png", "/robots.txt",
	"/swagger-ui.css", "/swagger-ui-bundle.js", "/swagger-ui-standalone-preset.js", "/redoc.standalone.js", "/rapidoc-min.js", "/static/index.html",
	".html", ".htm", ".json", ".yaml", ".js", ".map", "index.html", "-ui", "~"}

// c20Sibling: the suffix under the parent of the document path (/api/docs + /index.html = /api/index.html)
func c20Sibling(target, sfx string) string {
	parent := "/"
	if i := strings.LastIndex(target, "/"); i > 0 {
		parent = target[:i]
	}
	if strings.HasPrefix(sfx, "/") {
		return strings.TrimSuffix(parent, "/") + sfx
	}
	return strings.TrimSuffix(parent, "/") + "/x" + sfx
}

// c20Req derives a request path from the path a middleware is configured on.
func c20Req(r *rand.Rand, target string) string {
	last := target
	if i := strings.LastIndex(target, "/"); i >= 0 {
		last = target[i+1:]
	}
	switch r.Intn(24) {
	case 18, 19, 20: // an extension of the document path by something a web server, a browser or a documentation tool asks for
		return target + c20WebSuffix[r.Intn(len(c20WebSuffix))]
	case 21, 22: // the same next to the document, under its parent
		return c20Sibling(target, c20WebSuffix[r.Intn(len(c20WebSuffix))])
	case 23: // ... written with a trailing slash / dot segments / a doubled slash
		p := target + c20WebSuffix[r.Intn(len(c20WebSuffix))]
		return c20Pick(r, p+"/", p+"/.", "/."+p, strings.Replace(p, "/", "//", 1), p+"/x/..")
	case 0, 1, 2, 3:
		return target
	case 4:
		return target + "/"
	case 5:
		return strings.Replace(target, "/", "//", 1+r.Intn(2))
	case 6:
		return "/." + target
	case 7:
		return target + "/."
	case 8:
		return target + "/x/.."
	case 9:
		return "/x/.." + target
	case 10:
		return target + "/../" + last
	case 11:
		if len(target) > 1 {
			return target[:len(target)-1]
		}
		return ""
	case 12:
		return target + c20Pick(r, "x", "/x", ".bak", "%2F", "/..")
	case 13:
		return strings.ToUpper(target)
	case 14:
		return strings.TrimPrefix(target, "/")
	case 15:
		return c20Pick(r, "", "/", "/pets", "/api/pets", "/docs", "/swagger.json", "/api/docs", "*")
	case 16:
		if i := strings.LastIndex(target, "/"); i > 0 {
			return target[:i]
		}
		return "/"
	default:
		return c20Path(r)
	}
}

var c20Hostile = []string{"<script>alert(1)</script>", "a&b", "it's", `say "hi"`, "</title><script>x</script>", "'><img src=x>", "x' onload='y", "A+B", "T\xc3\xa9l\xc3\xa9", "{{ .Title }}", "\\u003c", "<!--", "]]>"}

func c20Title(r *rand.Rand) string {
	if r.Intn(3) == 0 {
		return c20Pick(r, "", "My API", "t")
	}
	return c20Hostile[r.Intn(len(c20Hostile))]
}

// values for the options that name a script, a style sheet or an icon
var c20HostileURL = []string{`"></script><script>alert(1)</script><script src="`, `' onerror='alert(1)`, "javascript:alert(1)", `https://cdn.example/x.js?a=1&b=2`,
	`//evil.example/x.js"><img src=x>`, "</script>", `x.js' defer='`, "<svg/onload=alert(1)>", `data:text/html,<script>1</script>`, "https://cdn.example/caf\xc3\xa9 x.js", `\"><b>`}

func c20Asset(r *rand.Rand) Bs {
	switch r.Intn(6) {
	case 0, 1:
		return "" // the default
	case 2:
		return Bs(c20Pick(r, "/assets/x.js", "https://cdn.example/x.min.js", "x.css"))
	case 3:
		return Bs(c20Hostile[r.Intn(len(c20Hostile))])
	default:
		return Bs(c20HostileURL[r.Intn(len(c20HostileURL))])
	}
}

// spec URLs assembled from an origin, directories, a document name and a query / fragment; the path part has
// percent-encoded bytes (space, non-ASCII, reserved characters, letters), raw spaces and raw non-ASCII
var (
	c20SUOrigin = []string{"", "", "", "http://example.com", "https://example.com:8443", "//cdn.example"}
	c20SUDir    = []string{"/", "/", "/spec/", "/my%20specs/v1/", "/sp ecs/", "/caf\xc3\xa9/", "/caf%C3%A9/", "/a%2Fb/", "/x/../", "/%41pi/", "/./v%31/", "/a%25b/"}
	c20SUDoc    = []string{"swagger.json", "pet%20store.json", "pet store.json", "caf%C3%A9.json", "caf\xc3\xa9.json", "a+b.json", "a%2Bb.json", "100%25.json", "q%3Fa.json",
		"h%23a.json", "o'brien.json", "o%27brien.json", "a&b.json", "%7Euser.json", "a%2fb.json", "d%2E.json", "%2e%2e", "x%3Cy%3E.json", "s%22q.json", "%e2%82%ac.json", "a;b=c.json", "tab%09.json"}
	c20SUTail = []string{"", "", "", "?v=1", "?a=1&b=2", "#/paths", "?q=%2F#top"}
	// not URLs at all (url.Parse fails): the Spec middleware falls back to /swagger.json
	c20SUBad = []string{"/bad%zz.json", "/100%.json", "/spec/%", "http://exa mple.com/x.json", "/a\x7fb.json"}
)

func c20SpecURL(r *rand.Rand) string {
	if r.Intn(12) == 0 {
		return c20Pick(r, c20SUBad...)
	}
	d := c20Pick(r, c20SUDir...)
	if r.Intn(4) == 0 {
		d += strings.TrimPrefix(c20Pick(r, c20SUDir...), "/")
	}
	return c20Pick(r, c20SUOrigin...) + d + c20Pick(r, c20SUDoc...) + c20Pick(r, c20SUTail...)
}

func c20withSlash(b string) string {
	if !strings.HasPrefix(b, "/") {
		return "/" + b
	}
	return b
}

func c20OrDefault(s, d string) string {
	if s == "" {
		return d
	}
	return s
}

func (c20) Gen(r *rand.Rand, tier string, i int) any {
	m := c20Methods[r.Intn(len(c20Methods))]
	switch k := r.Intn(22); {
	case k < 3:
		return c20In{Kind: "clean", P: Bs(c20Path(r))}
	case k < 4:
		var el []Bs
		for n := r.Intn(5); n > 0; n-- {
			el = append(el, Bs(c20Pick(r, "", "", "/", "a", "docs", "/api/", "..", "x/../y", "swagger.json", c20Path(r))))
		}
		return c20In{Kind: "join", Elems: el}
	case k < 5:
		return c20In{Kind: "split", P: Bs(c20Path(r))}
	case k < 9:
		in := c20In{Kind: "spec", Method: m, HasNext: r.Intn(3) != 0, B: Bs(c20Pick(r, `{"swagger":"2.0"}`, "", "not json <b>", "{}\n"))}
		in.Base = Bs(c20Pick(r, "", "", "/", "/api", "api", "/api/", "/api//v1/", "/a/../b", ".", "/x y", "/\xc3\xa9"))
		if r.Intn(2) == 0 {
			in.HasOPath, in.OPath = true, Bs(c20Pick(r, "", "spec", "/spec/", "../x", "a/b", "."))
		}
		if r.Intn(2) == 0 {
			in.HasODoc, in.ODoc = true, Bs(c20Pick(r, "", "openapi.json", "dir/doc.json", "/doc.json", "a b.json", "..", "doc.json/"))
		}
		target := path.Join(c20OrDefault(string(in.Base), "/"), string(in.OPath), c20OrDefault(string(in.ODoc), "swagger.json"))
		in.Req = Bs(c20Req(r, target))
		return in
	case k < 15:
		return c20GenUI(r, m)
	case k < 20:
		return c20GenAPI(r, m)
	default:
		return c20GenHist(r)
	}
}

func c20GenUI(r *rand.Rand, m string) c20In {
	in := c20In{Kind: "ui", Method: m, HasNext: r.Intn(3) != 0, Flavour: r.Intn(4), Custom: r.Intn(6) == 0}
	in.UBase = Bs(c20Pick(r, "", "", "/", "/api", "api", "/api/", "/a/../b", "/<b>", "/it's"))
	in.UPath = Bs(c20Pick(r, "", "", "docs", "/docs/", "ui/redoc", "..", "d\"q", "<x>", "/", ".", "//"))
	in.USpecURL = Bs(c20Pick(r, "", "", "/swagger.json", "/spec/openapi.json", "http://example.com/x/y.json", "spec.json", "/s.json?a=1&b=2", "javascript:alert(1)", "/x'><script>y</script>", `/q"uote.json`, "/a b.json"))
	if r.Intn(4) == 0 {
		in.USpecURL = Bs(c20SpecURL(r))
	}
	in.UTitle = Bs(c20Title(r))
	switch in.Flavour {
	case 0:
		in.RedocURL = c20Asset(r)
	case 1:
		in.RapiDocURL = c20Asset(r)
	default:
		in.UCb = Bs(c20Pick(r, "", "", "", "/cb", "/cb/", "cb", "/a/../cb", "/docs/oauth2-callback", "'+alert(1)+'"))
		in.SwaggerURL, in.SwaggerPresetURL, in.SwaggerStylesURL, in.Favicon32, in.Favicon16 = c20Asset(r), c20Asset(r), c20Asset(r), c20Asset(r), c20Asset(r)
	}
	o := c20UIOpts(in)
	target := path.Join(c20OrDefault(o[0], "/"), c20OrDefault(o[1], "docs"))
	if in.Flavour == 3 {
		target = c20OrDefault(string(in.UCb), path.Join(target, "oauth2-callback"))
	}
	in.Req = Bs(c20Req(r, target))
	return in
}

func c20GenAPI(r *rand.Rand, m string) c20In {
	in := c20In{Kind: "api", Method: m, Flavour: r.Intn(3)}
	in.CtxBase = Bs(c20Pick(r, "", "/", "/api", "/api/v1", "api", "/api/"))
	in.SpecTitle = Bs(c20Title(r))
	base := string(in.CtxBase)
	if r.Intn(4) == 0 {
		in.HasOBase, in.UBase = true, Bs(c20Pick(r, "", "/", "/ui", "ui", "/api"))
		base = string(in.UBase)
	}
	if r.Intn(3) == 0 {
		in.HasOUIPath, in.UPath = true, Bs(c20Pick(r, "", "docs", "documentation", "ui/docs", "/docs/", "swagger.json", "/", "."))
	}
	if r.Intn(4) != 0 {
		in.HasOSpecURL, in.USpecURL = true, Bs(c20Pick(r, "", "/swagger.json", "/spec/openapi.json", "/spec/dir/doc.json", "/api/swagger.json",
			"http://example.com/x/y.json", "https://example.com/openapi.json", "/a/../b.json", "/docs", "/api/docs", "/pets",
			"spec.json", "dir/spec.json", "/spec/dir/", "/", "http://example.com", "http://example.com/"))
		if r.Intn(2) == 0 {
			in.USpecURL = Bs(c20SpecURL(r))
		}
	}
	if r.Intn(3) == 0 {
		in.HasOTitle, in.UTitle = true, Bs(c20Title(r))
	}
	in.HasOTpl = r.Intn(5) == 0
	uiTarget := path.Join(c20withSlash(base), c20OrDefault(string(in.UPath), "docs"))
	specTarget := "/swagger.json"
	if u, _ := url.Parse(string(in.USpecURL)); u != nil && u.Path != "" {
		d, f := path.Split(u.Path)
		specTarget = path.Join(c20OrDefault(d, "/"), c20OrDefault(f, "swagger.json"))
	}
	switch r.Intn(5) {
	case 0, 1:
		in.Req = Bs(c20Req(r, uiTarget))
	case 2, 3:
		in.Req = Bs(c20Req(r, specTarget))
	default:
		in.Req = Bs(c20Pick(r, path.Join(c20withSlash(string(in.CtxBase)), "pets"), "/pets", "/api/pets", "/nothing", "/", c20Path(r)))
	}
	return in
}

// c20UITarget: the path a ui member is configured on (as the generators compute it, with the real path.Join).
func c20UITarget(in c20In) string {
	o := c20UIOpts(in)
	target := path.Join(c20OrDefault(o[0], "/"), c20OrDefault(o[1], "docs"))
	if in.Flavour == 3 {
		target = c20OrDefault(string(in.UCb), path.Join(target, "oauth2-callback"))
	}
	return target
}

// c20APITargets: UI path and spec path of an api member.
func c20APITargets(in c20In) (string, string) {
	base := string(in.CtxBase)
	if in.HasOBase {
		base = string(in.UBase)
	}
	uiTarget := path.Join(c20withSlash(base), c20OrDefault(string(in.UPath), "docs"))
	specTarget := "/swagger.json"
	if in.HasOSpecURL {
		if u, _ := url.Parse(string(in.USpecURL)); u != nil && u.Path != "" {
			d, f := path.Split(u.Path)
			specTarget = path.Join(c20OrDefault(d, "/"), c20OrDefault(f, "swagger.json"))
		}
	}
	return uiTarget, specTarget
}

// c20GenHist: 2-4 members built in one process. A member is derived from its predecessor by changing the flavour only, one
// option only, or drawn afresh, so that neighbours differ in what a shared buffer / a coarse cache key would not notice.
func c20GenHist(r *rand.Rand) c20In {
	h := c20In{Kind: "hist", HasNext: r.Intn(3) != 0, Fresh: r.Intn(3) == 0}
	n := 2 + r.Intn(3)
	api := r.Intn(3) == 0
	h.Chained = !api && r.Intn(2) == 0
	clean := func(m c20In) c20In { m.Req, m.Method, m.HasNext = "", "", false; return m }
	if api {
		m := c20GenAPI(r, "")
		for len(h.Members) < n {
			h.Members = append(h.Members, clean(m))
			switch r.Intn(6) {
			case 0:
				m.Flavour = (m.Flavour + 1 + r.Intn(2)) % 3
			case 1, 2:
				m.HasOSpecURL, m.USpecURL = true, Bs(c20Pick(r, "/swagger.json", "/spec/openapi.json", "/v2/swagger.json", "/api/swagger.json", "https://example.com/openapi.json", c20SpecURL(r)))
			case 3:
				m.HasOUIPath, m.UPath = true, Bs(c20Pick(r, "docs", "documentation", "ui/docs", "help"))
			case 4:
				m.HasOTitle, m.UTitle = true, Bs(c20Pick(r, "Other API", "t", c20Title(r)))
			default:
				keepBase, keepTitle := m.CtxBase, m.SpecTitle
				m = c20GenAPI(r, "")
				if r.Intn(2) == 0 { // the same Context
					m.CtxBase, m.SpecTitle = keepBase, keepTitle
				}
			}
		}
	} else {
		m := c20GenUI(r, "")
		m.Custom = r.Intn(2) == 0
		for len(h.Members) < n {
			h.Members = append(h.Members, clean(m))
			switch r.Intn(7) {
			case 0, 1:
				if m.Flavour >= 2 { // the usual pair: SwaggerUI and its OAuth2 callback from the same options
					m.Flavour = 5 - m.Flavour
				} else {
					m.Flavour = 1 - m.Flavour
					m.RedocURL, m.RapiDocURL = m.RapiDocURL, m.RedocURL
				}
			case 2:
				m.UTitle = Bs(c20Pick(r, "Other API", "t", "A much longer title than the one before, so that the page grows", c20Title(r)))
			case 3:
				m.USpecURL = Bs(c20Pick(r, "/swagger.json", "/spec/openapi.json", "/v2/swagger.json", "https://example.com/openapi.json", c20SpecURL(r)))
			case 4:
				m.UPath = Bs(c20Pick(r, "docs", "documentation", "ui/docs", "help", "d2"))
			case 5:
				m.UBase = Bs(c20Pick(r, "/", "/api", "/v2", "/admin"))
			default:
				m = c20GenUI(r, "")
				m.Custom = r.Intn(2) == 0
			}
		}
	}
	// every member is asked for its own document(s), the first built first; sometimes a variant as well
	for k, m := range h.Members {
		var targets []string
		if m.Kind == "api" {
			ui, sp := c20APITargets(m)
			targets = []string{ui}
			if r.Intn(3) == 0 {
				targets = append(targets, sp)
			}
		} else {
			targets = []string{c20UITarget(m)}
		}
		for _, t := range targets {
			h.Reqs = append(h.Reqs, c20HReq{Target: k, Req: Bs(t), Method: "GET"})
		}
		if r.Intn(3) == 0 {
			h.Reqs = append(h.Reqs, c20HReq{Target: k, Req: Bs(c20Req(r, targets[0])), Method: c20Methods[r.Intn(len(c20Methods))]})
		}
	}
	if r.Intn(2) == 0 { // and once more the first one, after all the others
		h.Reqs = append(h.Reqs, h.Reqs[0])
	}
	return h
}

// c20HistObserve: one request of a history against handler h.
func c20HistObserve(h http.Handler, final *c20Next, api bool, raw []byte, q c20HReq) c20HObs {
	*final = c20Next{}
	req := c20Request(q.Method, string(q.Req))
	final.orig, final.origPath, final.origM = req, string(q.Req), req.Method
	rec := httptest.NewRecorder()
	h.ServeHTTP(rec, req)
	o := c20HObs{Status: rec.Code, CType: rec.Header().Get("Content-Type")}
	body := rec.Body.Bytes()
	switch {
	case api:
		switch c20Classify(rec, raw) {
		case "spec":
			o.What = "spec"
		case "ui":
			o.What, o.Body = "serve", Bs(body)
		default:
			o.What = "router"
		}
	case final.calls > 0:
		o.What = "next"
		o.NextSame = final.calls == 1 && final.same && rec.Code == http.StatusTeapot && len(body) == 0 && o.CType == "" && len(rec.Header()) == 1
	case rec.Code == http.StatusOK:
		o.What, o.Body = "serve", Bs(body)
	case rec.Code == http.StatusNotFound:
		o.What = "404"
	default:
		o.What = "other"
	}
	return o
}

func c20Member(m c20In, next http.Handler) (http.Handler, []byte) {
	if m.Kind == "api" {
		c := c20Context(string(m.CtxBase), string(m.SpecTitle))
		return c20APIHandler(m, c), c.raw
	}
	return c20UIHandler(m.Flavour, c20UIOpts(m), c20Assets(m), m.Custom, next), nil
}

// c20RunHist: build every member, THEN send the requests, then find out what each member serves when it is built alone
// (built and fetched at once, nothing else built in between).
func c20RunHist(in c20In, obs *c20Obs) {
	n := len(in.Members)
	if n == 0 {
		panic("c20: empty history")
	}
	final := &c20Next{}
	var fh http.Handler
	if in.HasNext {
		fh = final
	}
	hs := make([]http.Handler, n)
	raws := make([][]byte, n)
	if in.Chained {
		nh := fh
		for k := n - 1; k >= 0; k-- { // nested calls build the innermost middleware first
			if in.Members[k].Kind != "ui" {
				panic("c20: only UI middlewares can be chained")
			}
			hs[k], _ = c20Member(in.Members[k], nh)
			nh = hs[k]
		}
	} else {
		for k := range in.Members {
			hs[k], raws[k] = c20Member(in.Members[k], fh)
		}
	}
	for _, q := range in.Reqs {
		if q.Target < 0 || q.Target >= n {
			panic("c20: request for a member that does not exist")
		}
		k := q.Target
		if in.Chained {
			k = 0
		}
		obs.H = append(obs.H, c20HistObserve(hs[k], final, in.Members[k].Kind == "api", raws[k], q))
	}
	obs.Alone = make([]c20Alone, n)
	if !in.Fresh {
		for k, m := range in.Members {
			obs.Alone[k] = c20AloneOf(m)
		}
		return
	}
	// one fresh process per member: nothing at all was built before in that process, so no state of this one (a cache keyed
	// too coarsely, say) can reach the oracle
	exe, err := os.Executable()
	if err != nil {
		panic(err)
	}
	var wg sync.WaitGroup
	errs := make([]error, n)
	for k := range in.Members {
		wg.Add(1)
		go func(k int) {
			defer wg.Done()
			mj, _ := json.Marshal(in.Members[k])
			cmd := exec.Command(exe, c20AloneArg)
			cmd.Stdin = bytes.NewReader(mj)
			out, err := cmd.Output()
			if err == nil {
				err = json.Unmarshal(out, &obs.Alone[k])
			}
			errs[k] = err
		}(k)
	}
	wg.Wait()
	for _, err := range errs {
		if err != nil {
			panic("c20: fresh-process oracle: " + err.Error())
		}
	}
}

// c20AloneOf: build the member, nothing else, and fetch its page at once.
func c20AloneOf(m c20In) c20Alone {
	var a c20Alone
	h, raw := c20Member(m, nil)
	target := ""
	if m.Kind == "api" {
		target, _ = c20APITargets(m)
		su := ""
		if m.HasOSpecURL {
			su = string(m.USpecURL)
		}
		if u, _ := url.Parse(su); u != nil {
			a.URLPath = Bs(u.Path)
		}
	} else {
		target = c20UITarget(m)
	}
	rec := httptest.NewRecorder()
	h.ServeHTTP(rec, c20Request("GET", target))
	if rec.Code == 200 && strings.HasPrefix(rec.Header().Get("Content-Type"), "text/html") && (raw == nil || c20Classify(rec, raw) == "ui") {
		a.HasPage, a.Page = true, Bs(append([]byte(nil), rec.Body.Bytes()...))
	}
	return a
}

// The harness binary doubles as the fresh-process oracle: `harness c20-alone` reads one member (JSON) from stdin and prints
// what it serves when it is the only thing ever built in the process.
const c20AloneArg = "c20-alone"

func init() {
	if len(os.Args) == 2 && os.Args[1] == c20AloneArg {
		var m c20In
		if err := json.NewDecoder(os.Stdin).Decode(&m); err != nil || (m.Kind != "ui" && m.Kind != "api") {
			fmt.Fprintln(os.Stderr, "c20-alone: bad member", err)
			os.Exit(2)
		}
		out, _ := json.Marshal(c20AloneOf(m))
		os.Stdout.Write(out)
		os.Exit(0)
	}
}

// ---------- running the real code ----------
type c20Next struct {
	orig     *http.Request
	origPath string
	origM    string
	calls    int
	same     bool
}

func (n *c20Next) ServeHTTP(rw http.ResponseWriter, r *http.Request) {
	n.calls++
	n.same = r == n.orig && r.URL != nil && r.URL.Path == n.origPath && r.Method == n.origM && r.URL.RawPath == ""
	rw.Header().Set("X-C20-Next", "1")
	rw.WriteHeader(http.StatusTeapot)
}

func c20Request(method, p string) *http.Request {
	if method == "" {
		method = "GET"
	}
	req := httptest.NewRequest(method, "/", nil)
	req.URL.Path = p
	req.URL.RawPath = ""
	return req
}

// c20Observe runs h on one request and classifies what the middleware did.
func c20Observe(h http.Handler, next *c20Next, in c20In, obs *c20Obs, keepBody bool) []byte {
	req := c20Request(in.Method, string(in.Req))
	next.orig, next.origPath, next.origM = req, string(in.Req), req.Method
	rec := httptest.NewRecorder()
	h.ServeHTTP(rec, req)
	obs.Status = rec.Code
	obs.CType = rec.Header().Get("Content-Type")
	body := rec.Body.Bytes()
	switch {
	case next.calls > 0:
		obs.What = "next"
		// the middleware itself wrote nothing: the teapot status and the marker header are the next handler's
		obs.NextSame = next.calls == 1 && next.same && rec.Code == http.StatusTeapot && len(body) == 0 && obs.CType == "" && len(rec.Header()) == 1
	case rec.Code == http.StatusOK:
		obs.What = "serve"
		if keepBody {
			obs.Body = Bs(body)
		}
	case rec.Code == http.StatusNotFound:
		obs.What = "404"
	default:
		obs.What = "other"
	}
	return body
}

func c20Skeleton(b []byte) Bs {
	var out []byte
	for _, c := range b {
		if c == '<' || c == '>' || c == '"' || c == '\'' {
			out = append(out, c)
		}
	}
	return Bs(out)
}

// custom templates, one per option struct: every field is printed, in a text node, in double-quoted, single-quoted and
// unquoted attributes and in a script string; the element that carries the spec reference is the default template's
const (
	c20CustomHead = `<html><head><title>{{ .Title }}</title></head><body><a href="{{ .SpecURL }}">spec</a><p data-x='{{ .Path }}'>{{ .BasePath }}</p>`
	c20CustomRedoc = c20CustomHead + `
    <redoc spec-url='{{ .SpecURL }}'></redoc>
    <script src="{{ .RedocURL }}"> </script><i title='{{ .RedocURL }}'>{{ .RedocURL }}</i></body></html>`
	c20CustomRapiDoc = c20CustomHead + `
  <rapi-doc spec-url="{{ .SpecURL }}"></rapi-doc>
  <script type="module" src='{{ .RapiDocURL }}'></script><img alt={{ .RapiDocURL }} src="{{ .RapiDocURL }}"><b>{{ .RapiDocURL }}</b></body></html>`
	c20CustomSwagger = c20CustomHead + `<link rel="stylesheet" href='{{ .SwaggerStylesURL }}'><link rel="icon" href="{{ .Favicon32 }}"><link rel=icon href={{ .Favicon16 }}>
    <script src='{{ .SwaggerURL }}'> </script><script src="{{ .SwaggerPresetURL }}"> </script><span>{{ .SwaggerURL }} {{ .SwaggerPresetURL }} {{ .SwaggerStylesURL }} {{ .Favicon32 }} {{ .Favicon16 }}</span>
    <script>
      const ui = SwaggerUIBundle({
        url: '{{ .SpecURL }}',
        oauth2RedirectUrl: "{{ .OAuthCallbackURL }}", icon: '{{ .Favicon16 }}', bundle: "{{ .SwaggerURL }}"
      })
    </script><a href="{{ .OAuthCallbackURL }}">{{ .OAuthCallbackURL }}</a></body></html>`
)

func c20CustomTemplate(flavour int) string {
	switch flavour {
	case 0:
		return c20CustomRedoc
	case 1:
		return c20CustomRapiDoc
	}
	return c20CustomSwagger
}

// c20UIOpts: base, path, spec url, title, callback as given
func c20UIOpts(in c20In) [5]string {
	return [5]string{string(in.UBase), string(in.UPath), string(in.USpecURL), string(in.UTitle), string(in.UCb)}
}

// c20Assets: the flavour-specific option values, in the order of the option struct
func c20Assets(in c20In) []string {
	switch in.Flavour {
	case 0:
		return []string{string(in.RedocURL)}
	case 1:
		return []string{string(in.RapiDocURL)}
	}
	return []string{string(in.SwaggerURL), string(in.SwaggerPresetURL), string(in.SwaggerStylesURL), string(in.Favicon32), string(in.Favicon16)}
}

func c20UIHandler(flavour int, o [5]string, assets []string, custom bool, next http.Handler) http.Handler {
	tpl := ""
	if custom {
		tpl = c20CustomTemplate(flavour)
	}
	as := func(i int) string {
		if i < len(assets) {
			return assets[i]
		}
		return ""
	}
	switch flavour {
	case 0:
		return middleware.Redoc(middleware.RedocOpts{BasePath: o[0], Path: o[1], SpecURL: o[2], Title: o[3], Template: tpl, RedocURL: as(0)}, next)
	case 1:
		return middleware.RapiDoc(middleware.RapiDocOpts{BasePath: o[0], Path: o[1], SpecURL: o[2], Title: o[3], Template: tpl, RapiDocURL: as(0)}, next)
	}
	so := middleware.SwaggerUIOpts{BasePath: o[0], Path: o[1], SpecURL: o[2], Title: o[3], OAuthCallbackURL: o[4], Template: tpl,
		SwaggerURL: as(0), SwaggerPresetURL: as(1), SwaggerStylesURL: as(2), Favicon32: as(3), Favicon16: as(4)}
	if flavour == 2 {
		return middleware.SwaggerUI(so, next)
	}
	return middleware.SwaggerUIOAuth2Callback(so, next)
}

var (
	c20BaseMu   sync.Mutex
	c20BaseSkel = map[[2]int]Bs{}
)

// c20Baseline: the markup-significant bytes of the page the same middleware renders for harmless option values.
func c20Baseline(flavour int, custom bool) Bs {
	key := [2]int{flavour, 0}
	if custom {
		key[1] = 1
	}
	c20BaseMu.Lock()
	defer c20BaseMu.Unlock()
	if s, ok := c20BaseSkel[key]; ok {
		return s
	}
	h := c20UIHandler(flavour, [5]string{"/b", "p", "/s.json", "t", "/cb"}, []string{"/a0.js", "/a1.js", "/a2.css", "/a3.png", "/a4.png"}, custom, nil)
	target := "/b/p"
	if flavour == 3 {
		target = "/cb"
	}
	rec := httptest.NewRecorder()
	h.ServeHTTP(rec, c20Request("GET", target))
	if rec.Code != 200 {
		panic("c20: baseline page not served")
	}
	s := c20Skeleton(rec.Body.Bytes())
	c20BaseSkel[key] = s
	return s
}

var c20URLSafe = regexp.MustCompile(`^[A-Za-z0-9/._~:-]*$`)
var c20RefRe = []*regexp.Regexp{
	regexp.MustCompile(`<redoc spec-url='([^']*)'>`),
	regexp.MustCompile(`<rapi-doc spec-url="([^"]*)">`),
	regexp.MustCompile(`\n        url: '([^']*)',`),
}

// c20JSUnquote undoes the escaping of a JavaScript string literal.
func c20JSUnquote(s string) string {
	var sb strings.Builder
	for i := 0; i < len(s); i++ {
		if s[i] != '\\' || i+1 == len(s) {
			sb.WriteByte(s[i])
			continue
		}
		i++
		switch c := s[i]; c {
		case 'n':
			sb.WriteByte('\n')
		case 'r':
			sb.WriteByte('\r')
		case 't':
			sb.WriteByte('\t')
		case 'f':
			sb.WriteByte('\f')
		case 'v':
			sb.WriteByte('\v')
		case 'b':
			sb.WriteByte('\b')
		case 'u', 'x':
			n := 4
			if c == 'x' {
				n = 2
			}
			if i+n < len(s) {
				if v, err := strconv.ParseUint(s[i+1:i+1+n], 16, 32); err == nil {
					var buf [4]byte
					sb.Write(buf[:utf8.EncodeRune(buf[:], rune(v))])
					i += n
					continue
				}
			}
			sb.WriteByte(c)
		default:
			sb.WriteByte(c)
		}
	}
	return sb.String()
}

// c20Ref finds the spec URL a page refers to, as the browser's parser hands it to the component: the attribute value with
// character references resolved (Redoc, RapiDoc), resp. the value of the JavaScript string literal (SwaggerUI).
func c20Ref(flavour int, page []byte) (string, bool) {
	if flavour > 2 {
		return "", false
	}
	m := c20RefRe[flavour].FindSubmatch(page)
	if m == nil {
		return "", false
	}
	if flavour == 2 {
		return c20JSUnquote(string(m[1])), true
	}
	return html.UnescapeString(string(m[1])), true
}

// c20Browse: the request a browser showing the page at pagePath makes for ref. The reference is resolved against the page
// URL (RFC 3986), written into a request line in its percent-encoded form and parsed the way net/http's server does.
// ok = false: not a location that can be fetched over http at all (does not parse, another scheme, rejected request line).
func c20Browse(pagePath, ref string) (*http.Request, bool) {
	ru, err := url.Parse(ref)
	if err != nil {
		return nil, false
	}
	page := &url.URL{Scheme: "http", Host: "c20.example", Path: pagePath}
	abs := page.ResolveReference(ru)
	if (abs.Scheme != "http" && abs.Scheme != "https") || abs.Opaque != "" || abs.Host == "" {
		return nil, false
	}
	req, err := http.ReadRequest(bufio.NewReader(strings.NewReader("GET " + abs.RequestURI() + " HTTP/1.1\r\nHost: c20.example\r\n\r\n")))
	if err != nil || req.URL == nil {
		return nil, false
	}
	return req, true
}

// c20RefPaths records how the page's reference and the configured spec URL look to the server once a browser requests them.
func c20RefPaths(pagePath, ref, specURL string, obs *c20Obs) *http.Request {
	if w, ok := c20Browse(pagePath, c20OrDefault(specURL, "/swagger.json")); ok {
		obs.HasWantPath, obs.WantPath = true, Bs(w.URL.Path)
	}
	req, ok := c20Browse(pagePath, ref)
	if ok {
		obs.HasRefPath, obs.RefPath = true, Bs(req.URL.Path)
	}
	return req
}

type c20Ctx struct {
	ctx *middleware.Context
	raw []byte
}

var c20Ctxs = map[[2]string]*c20Ctx{}

func c20Context(base, title string) *c20Ctx {
	key := [2]string{base, title}
	if c, ok := c20Ctxs[key]; ok {
		return c
	}
	tj, _ := json.Marshal(title)
	bj, _ := json.Marshal(base)
	op := `{"get":{"produces":["application/json"],"responses":{"200":{"description":"ok"}}}}`
	doc := fmt.Sprintf(`{"swagger":"2.0","info":{"title":%s,"version":"1"},"basePath":%s,"paths":{"/pets":%s,"/docs":%s,"/swagger.json":%s}}`, tj, bj, op, op, op)
	spec, err := loads.Analyzed(json.RawMessage(doc), "")
	if err != nil {
		panic(err)
	}
	api := untyped.NewAPI(spec)
	h := runtime.OperationHandlerFunc(func(interface{}) (interface{}, error) { return map[string]string{"c20": "operation"}, nil })
	api.RegisterOperation("get", "/pets", h)
	api.RegisterOperation("get", "/docs", h)
	api.RegisterOperation("get", "/swagger.json", h)
	c := &c20Ctx{ctx: middleware.NewContext(spec, api, nil), raw: []byte(doc)}
	c20Ctxs[key] = c
	return c
}

func c20APIHandler(in c20In, c *c20Ctx) http.Handler {
	var opts []middleware.UIOption
	if in.HasOBase {
		opts = append(opts, middleware.WithUIBasePath(string(in.UBase)))
	}
	if in.HasOUIPath {
		opts = append(opts, middleware.WithUIPath(string(in.UPath)))
	}
	if in.HasOSpecURL {
		opts = append(opts, middleware.WithUISpecURL(string(in.USpecURL)))
	}
	if in.HasOTitle {
		opts = append(opts, middleware.WithUITitle(string(in.UTitle)))
	}
	if in.HasOTpl {
		opts = append(opts, middleware.WithTemplate(c20CustomTemplate(in.Flavour)))
	}
	switch in.Flavour {
	case 0:
		return c.ctx.APIHandler(nil, opts...)
	case 1:
		return c.ctx.APIHandlerRapiDoc(nil, opts...)
	default:
		return c.ctx.APIHandlerSwaggerUI(nil, opts...)
	}
}

func c20Classify(rec *httptest.ResponseRecorder, raw []byte) string {
	ct := rec.Header().Get("Content-Type")
	switch {
	case rec.Code == 200 && ct == "application/json" && string(rec.Body.Bytes()) == string(raw):
		return "spec"
	case rec.Code == 200 && strings.HasPrefix(ct, "text/html"):
		return "ui"
	default:
		return "router"
	}
}

func (c20) Run(inAny any) any {
	in := inAny.(c20In)
	var obs c20Obs
	obs.Panicked, obs.Panic = recoverTo(func() {
		switch in.Kind {
		case "clean":
			obs.R = Bs(path.Clean(string(in.P)))
		case "join":
			obs.R = Bs(path.Join(bsList(in.Elems)...))
		case "split":
			d, f := path.Split(string(in.P))
			obs.D, obs.F = Bs(d), Bs(f)
		case "spec":
			var opts []middleware.SpecOption
			if in.HasOPath {
				opts = append(opts, middleware.WithSpecPath(string(in.OPath)))
			}
			if in.HasODoc {
				opts = append(opts, middleware.WithSpecDocument(string(in.ODoc)))
			}
			next := &c20Next{}
			var nh http.Handler
			if in.HasNext {
				nh = next
			}
			c20Observe(middleware.Spec(string(in.Base), []byte(in.B), nh, opts...), next, in, &obs, true)
		case "ui":
			next := &c20Next{}
			var nh http.Handler
			if in.HasNext {
				nh = next
			}
			page := c20Observe(c20UIHandler(in.Flavour, c20UIOpts(in), c20Assets(in), in.Custom, nh), next, in, &obs, false)
			if obs.What == "serve" {
				obs.Skel = c20Skeleton(page)
				obs.BaseSkel = c20Baseline(in.Flavour, in.Custom)
				if ref, ok := c20Ref(in.Flavour, page); ok {
					obs.HasRef, obs.Ref = true, Bs(ref)
					c20RefPaths(string(in.Req), ref, string(in.USpecURL), &obs)
				}
			}
		case "hist":
			c20RunHist(in, &obs)
		case "api":
			c := c20Context(string(in.CtxBase), string(in.SpecTitle))
			h := c20APIHandler(in, c)
			rec := httptest.NewRecorder()
			h.ServeHTTP(rec, c20Request(in.Method, string(in.Req)))
			obs.Status, obs.CType = rec.Code, rec.Header().Get("Content-Type")
			obs.What = c20Classify(rec, c.raw)
			su := ""
			if in.HasOSpecURL {
				su = string(in.USpecURL)
			}
			u, _ := url.Parse(su)
			if u != nil {
				obs.URLPath = Bs(u.Path)
			}
			// absolute: no spec URL (the default /swagger.json), an absolute path or an http(s) URL — something url.Parse accepts
			obs.Abs = su == "" || (u != nil && u.Opaque == "" && ((u.Scheme == "" && strings.HasPrefix(su, "/")) || ((u.Scheme == "http" || u.Scheme == "https") && u.Host != "")))
			// the page, wherever the UI is configured, and its reference to the spec
			base := string(in.CtxBase)
			if in.HasOBase {
				base = string(in.UBase)
			}
			uiPath := path.Join(c20withSlash(base), c20OrDefault(string(in.UPath), "docs"))
			prec := httptest.NewRecorder()
			h.ServeHTTP(prec, c20Request("GET", uiPath))
			if c20Classify(prec, c.raw) == "ui" {
				obs.HasPage = true
				obs.Skel = c20Skeleton(prec.Body.Bytes())
				obs.BaseSkel = c20Baseline(in.Flavour, in.HasOTpl)
				if ref, ok := c20Ref(in.Flavour, prec.Body.Bytes()); ok {
					obs.HasRef, obs.Ref = true, Bs(ref)
					if breq := c20RefPaths(uiPath, ref, su, &obs); breq != nil {
						rrec := httptest.NewRecorder()
						h.ServeHTTP(rrec, breq)
						obs.RefServes = c20Classify(rrec, c.raw) == "spec"
					}
				}
			}
		}
	})
	return obs
}

// ---------- Gallina ----------
func c20CType(s string) (string, bool) {
	switch s {
	case "application/json":
		return "CTJson", true
	case "text/html; charset=utf-8":
		return "CTHtml", true
	case "text/plain":
		return "CTPlain", true
	}
	return "", false
}

func c20ObsTerm(obs c20Obs, withBody bool) string {
	if obs.Panicked {
		return "OOther"
	}
	ct, ok := c20CType(obs.CType)
	switch obs.What {
	case "serve":
		if !ok {
			return "OOther"
		}
		body := "[]"
		if withBody {
			body = coqBytes(string(obs.Body))
		}
		return fmt.Sprintf("(OServe %s %s)", ct, body)
	case "next":
		return fmt.Sprintf("(ONext %s)", coqBool(obs.NextSame))
	case "404":
		if !ok {
			return "OOther"
		}
		return fmt.Sprintf("(O404 %s)", ct)
	}
	return "OOther"
}

var c20Flavours = []string{"Redoc", "RapiDoc", "SwaggerUI", "OAuth2Callback"}

func c20B(s Bs) string { return coqBytes(string(s)) }

func (c20) Coq(inAny any, obsAny any) string {
	in, obs := inAny.(c20In), obsAny.(c20Obs)
	switch in.Kind {
	case "clean":
		return fmt.Sprintf("CClean %s %s", c20B(in.P), c20B(obs.R))
	case "join":
		return fmt.Sprintf("CJoin %s %s", coqBytesList(bsList(in.Elems)), c20B(obs.R))
	case "split":
		return fmt.Sprintf("CSplit %s %s %s", c20B(in.P), c20B(obs.D), c20B(obs.F))
	case "spec":
		return fmt.Sprintf("CSpec %s %s %s %s %s %s %s", c20B(in.Base), coqOpt(in.HasOPath, c20B(in.OPath)), coqOpt(in.HasODoc, c20B(in.ODoc)),
			c20B(in.B), coqBool(in.HasNext), c20B(in.Req), c20ObsTerm(obs, true))
	case "ui":
		o := c20UIOpts(in)
		return fmt.Sprintf("CUI %s (mkUI %s %s %s %s %s %s) %s %s %s %s %s %s %s %s", c20Flavours[in.Flavour], coqBytes(o[0]), coqBytes(o[1]), coqBytes(o[2]), coqBytes(o[3]), coqBytes(o[4]),
			coqBytesList(c20Assets(in)), coqBool(in.HasNext), c20B(in.Req), c20ObsTerm(obs, false), c20B(obs.Skel), c20B(obs.BaseSkel), coqOpt(obs.HasRef, c20B(obs.Ref)),
			coqOpt(obs.HasRefPath, c20B(obs.RefPath)), coqOpt(obs.HasWantPath, c20B(obs.WantPath)))
	case "hist":
		if obs.Panicked || len(obs.Alone) != len(in.Members) || len(obs.H) != len(in.Reqs) {
			// nothing sensible was observed: a member list without requests answered makes the case fail in Coq
			return fmt.Sprintf("CHist %s %s [] [(0, %s, HOOther)]", coqBool(in.Chained), coqBool(in.HasNext), coqBytes(""))
		}
		ms := make([]string, len(in.Members))
		for k, m := range in.Members {
			al := obs.Alone[k]
			if m.Kind == "api" {
				ms[k] = fmt.Sprintf("MAPI %s %s %s", []string{"Redoc", "RapiDoc", "SwaggerUI"}[m.Flavour], c20APITerm(m, al.URLPath), c20B(al.Page))
			} else {
				o := c20UIOpts(m)
				ms[k] = fmt.Sprintf("MUI %s (mkUI %s %s %s %s %s %s) %s", c20Flavours[m.Flavour], coqBytes(o[0]), coqBytes(o[1]), coqBytes(o[2]), coqBytes(o[3]), coqBytes(o[4]),
					coqBytesList(c20Assets(m)), c20B(al.Page))
			}
		}
		rs := make([]string, len(in.Reqs))
		for i, q := range in.Reqs {
			h := obs.H[i]
			ct, ok := c20CType(h.CType)
			t := "HOOther"
			switch h.What {
			case "serve":
				if ok {
					t = fmt.Sprintf("(HOServe %s %s)", ct, c20B(h.Body))
				}
			case "spec":
				t = "HOSpec"
			case "next":
				t = fmt.Sprintf("(HONext %s)", coqBool(h.NextSame))
			case "404":
				if ok {
					t = fmt.Sprintf("(HO404 %s)", ct)
				}
			case "router":
				t = "HORouter"
			}
			rs[i] = fmt.Sprintf("(%d, %s, %s)", q.Target, c20B(q.Req), t)
		}
		return fmt.Sprintf("CHist %s %s [%s] [%s]", coqBool(in.Chained), coqBool(in.HasNext), strings.Join(ms, ";\n   "), strings.Join(rs, ";\n   "))
	case "api":
		fl := []string{"Redoc", "RapiDoc", "SwaggerUI"}[in.Flavour]
		what := map[string]string{"spec": "OASpec", "ui": "OAUI", "router": "OARouter"}[obs.What]
		if what == "" || obs.Panicked {
			what = "OAOther"
		}
		a := c20APITerm(in, obs.URLPath)
		return fmt.Sprintf("CAPI %s %s %s %s %s %s %s %s %s %s", fl, a, c20B(in.Req), what, coqBool(obs.Abs), coqOpt(obs.HasRef, c20B(obs.Ref)),
			coqOpt(obs.HasRefPath, c20B(obs.RefPath)), coqOpt(obs.HasWantPath, c20B(obs.WantPath)), coqBool(obs.RefServes),
			coqOpt(obs.HasPage, coqPair(c20B(obs.Skel), c20B(obs.BaseSkel))))
	}
	panic("unknown kind " + in.Kind)
}

func c20APITerm(in c20In, urlPath Bs) string {
	return fmt.Sprintf("(mkAPI %s %s %s %s %s %s %s)", c20B(in.CtxBase), c20B(in.SpecTitle), coqOpt(in.HasOBase, c20B(in.UBase)), coqOpt(in.HasOUIPath, c20B(in.UPath)),
		coqOpt(in.HasOSpecURL, c20B(in.USpecURL)), coqOpt(in.HasOTitle, c20B(in.UTitle)), c20B(urlPath))
}

func (c20) Classify(inAny any, obsAny any) []string {
	in, obs := inAny.(c20In), obsAny.(c20Obs)
	// F-C20-2: the spec URL designates a directory (or has no path at all): its document name is empty
	if in.Kind == "api" && in.HasOSpecURL && in.USpecURL != "" && obs.Abs && !obs.RefServes &&
		(obs.URLPath == "" || strings.HasSuffix(string(obs.URLPath), "/")) {
		return []string{"docs.spec_url_without_document_name"}
	}
	return nil
}

func (c20) Category(inAny any, obsAny any) (string, bool) {
	in, obs := inAny.(c20In), obsAny.(c20Obs)
	switch in.Kind {
	case "clean", "join", "split":
		return "path/" + in.Kind, len(in.P) > 1 || len(in.Elems) > 1
	case "spec":
		return "spec/" + obs.What, in.HasOPath || in.HasODoc || in.Base != ""
	case "hist":
		shape := "side-by-side"
		if in.Chained {
			shape = "chained"
		}
		swaggerFamily := 0
		for _, m := range in.Members {
			if m.Flavour >= 2 {
				swaggerFamily++
			}
		}
		fam := ""
		if swaggerFamily >= 2 {
			fam = "/two-of-the-swagger-family"
		}
		served := 0
		for _, h := range obs.H {
			if h.What == "serve" {
				served++
			}
		}
		kind := "ui"
		if in.Members[0].Kind == "api" {
			kind = "api"
		}
		if in.Fresh {
			shape += "/fresh-process-oracle"
		}
		return fmt.Sprintf("hist/%s/%s/%d-members%s/%d-pages-served", kind, shape, len(in.Members), fam, served), true
	case "ui":
		t := "default-template"
		if in.Custom {
			t = "custom-template"
		}
		for _, a := range c20Assets(in) {
			if strings.ContainsAny(a, "<>\"'") {
				t += "/hostile-asset-url"
				break
			}
		}
		return "ui/" + c20Flavours[in.Flavour] + "/" + t + "/" + obs.What, true
	default:
		su := "spec-url-absent"
		if in.HasOSpecURL {
			u, _ := url.Parse(string(in.USpecURL))
			switch {
			case u != nil && u.IsAbs():
				su = "spec-url-absolute-url"
			case strings.HasPrefix(string(in.USpecURL), "/"):
				su = "spec-url-absolute-path"
			default:
				su = "spec-url-relative"
			}
			if obs.URLPath == "" || strings.HasSuffix(string(obs.URLPath), "/") {
				su += "-no-document"
			}
			switch {
			case u == nil:
				su = "spec-url-unparsable"
			case strings.ContainsAny(string(in.USpecURL), "% ") || !c20URLSafe.MatchString(string(obs.URLPath)):
				su += "-encoded"
			}
		}
		return "api/" + []string{"Redoc", "RapiDoc", "SwaggerUI"}[in.Flavour] + "/" + su + "/" + obs.What, true
	}
}
