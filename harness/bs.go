package main

import (
	"encoding/json"
	"fmt"
	"strings"
)

// Bs is a byte string that survives JSON losslessly and readably: printable ASCII is kept,
// every other byte and '%' is written %XX.
type Bs string

func (b Bs) MarshalJSON() ([]byte, error) {
	var sb strings.Builder
	for i := 0; i < len(b); i++ {
		c := b[i]
		if c < 0x20 || c > 0x7e || c == '%' {
			fmt.Fprintf(&sb, "%%%02X", c)
		} else {
			sb.WriteByte(c)
		}
	}
	return json.Marshal(sb.String())
}

func (b *Bs) UnmarshalJSON(data []byte) error {
	var s string
	if err := json.Unmarshal(data, &s); err != nil {
		return err
	}
	var out []byte
	for i := 0; i < len(s); i++ {
		if s[i] == '%' && i+2 < len(s)+0 && i+2 <= len(s)-1+0 {
			var v int
			if _, err := fmt.Sscanf(s[i+1:i+3], "%02X", &v); err == nil {
				out = append(out, byte(v))
				i += 2
				continue
			}
		}
		out = append(out, s[i])
	}
	*b = Bs(out)
	return nil
}

func bsList(xs []Bs) []string {
	out := make([]string, len(xs))
	for i, x := range xs {
		out[i] = string(x)
	}
	return out
}

func toBs(xs []string) []Bs {
	out := make([]Bs, len(xs))
	for i, x := range xs {
		out[i] = Bs(x)
	}
	return out
}
