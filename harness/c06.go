//go:build verif && (c06 || allprops)

package main

import (
	"bytes"
	"encoding/json"
	"fmt"
	"io"
	"strconv"
	"testing/iotest"
	"math/rand"
	"mime"
	"net/http"
	"net/http/httptest"
	"sort"
	"strings"

	"github.com/go-openapi/errors"
	"github.com/go-openapi/loads"
	"github.com/go-openapi/runtime"
	"github.com/go-openapi/runtime/middleware"
	"github.com/go-openapi/runtime/middleware/untyped"
)

// C06 — the content-type gate. One case = a consumes list (per operation or global) + the API default media type +
// the set of media types a consumer is registered for, and one request (method, Content-Type header lines, body
// presence signal). Observed on the real code:
//   typed    Context.BindValidRequest with a binder that decodes the body with route.Consumer (what generated servers do)
//   untyped  Context.BindAndValidate
//   handler  the untyped API handler
// Consumers are instrumented per media type.
//
// kind "hist": 2-5 requests answered one after the other by ONE Context of an API with several operations (the same path
// under different methods, other paths), each operation with its own consumes list; every request goes through one of the
// three entry points; every answer is compared with the model of the single request over the list of the operation it
// addresses AND with the answer a fresh Context gives to the same request.

// one operation of a hist API
type c06Op struct {
	Method   string `json:"method"`
	Path     string `json:"path"` // /x | /y | /x/{id}
	ID       string `json:"id,omitempty"`
	Declared []Bs   `json:"declared"`
	Params   string `json:"params,omitempty"` // what the operation declares to read, see c06In.Params
}

// one request of a history
type c06Step struct {
	Op    int    `json:"op"`
	CT    []Bs   `json:"ct"`
	Body  string `json:"body"`
	Entry int    `json:"entry"` // 0 BindValidRequest, 1 BindAndValidate, 2 the untyped handler
	Accept []Bs  `json:"accept,omitempty"` // Accept header lines (none = absent)
}

type c06StepObs struct {
	Consumes []Bs   `json:"consumes"`
	Keys     []Bs   `json:"keys"`
	HasBody  bool   `json:"has_body"`
	Asked    Bs     `json:"asked"`
	Parse    *Bs    `json:"parse"`
	Reparse  *Bs    `json:"reparse"`
	FormSt   int    `json:"form_st,omitempty"` // formData operations: net/http's own verdict on the request as a form (0 = fine)
	AccBad   bool   `json:"acc_bad,omitempty"` // see c06Obs.AccBad
	Hist     c06Res `json:"hist"` // inside the history (for the handler: Status 0 = 200)
	HistRan  bool   `json:"hist_ran"`
	Fresh    c06Res `json:"fresh"` // the same request on a fresh Context
	FreshRan bool   `json:"fresh_ran"`
}

type c06In struct {
	Kind       string    `json:"kind,omitempty"` // "" (one request, three entry points) | hist
	Ops        []c06Op   `json:"ops,omitempty"`
	Steps      []c06Step `json:"steps,omitempty"`
	Path       string    `json:"path,omitempty"` // request path, /x when empty
	Declared   []Bs      `json:"declared"`
	Global     bool      `json:"global,omitempty"`
	Default    Bs        `json:"default"`
	Registered []Bs      `json:"registered"`
	Method     string    `json:"method"`
	CT         []Bs      `json:"ct"`   // Content-Type header lines (none = absent)
	// cl | cl0hdr | chunked | chunked-empty | none, optionally followed by "+<n>" (the payload is n bytes long; ignored for
	// form operations, whose payload is a well-formed form) and "+eof" (the last bytes arrive together with io.EOF, as
	// net/http's body does when the end of the message is already buffered), "+1by1" (one byte per Read), "+1by1eof" (both)
	Body string `json:"body"`
	// the operation's parameter set: "" a body parameter | none (no parameter at all) | pqh (only path, query and header
	// parameters, all optional but the path one) | form (an optional formData parameter)
	Params string `json:"params,omitempty"`
	// Accept header lines of the request (none = absent). Every operation produces application/json; the gate has to answer
	// before (and whatever) the response format negotiation says
	Accept []Bs `json:"accept,omitempty"`
}

type c06Res struct {
	Status int `json:"status"` // 0 = no error
	Cons   *Bs `json:"cons"`
}

type c06Obs struct {
	Consumes  []Bs         `json:"consumes"`
	Keys      []Bs         `json:"keys"`
	HasBody   bool         `json:"has_body"`
	Asked     Bs           `json:"asked"`   // the value the harness itself handed to mime.ParseMediaType
	Parse     *Bs          `json:"parse"`   // ... and the media type answered (nil = error); independent of runtime.ContentType
	Reparse   *Bs          `json:"reparse"` // ParseMediaType on that media type again
	CTImpl    *Bs          `json:"ct_impl"` // what runtime.ContentType answers for the request's header (nil = error)
	T, U      c06Res       `json:"-"`
	TJ        c06Res       `json:"typed"`
	UJ        c06Res       `json:"untyped"`
	HStatus   int          `json:"h_status"`
	HCons     *Bs          `json:"h_cons"`
	HRan      bool         `json:"h_ran"`
	UPicked   *Bs          `json:"u_picked"`          // the consumer BindAndValidate left in route.Consumer
	FormSt    int          `json:"form_st,omitempty"` // formData operations: net/http's own verdict on the request as a form
	// oracle for the response format stage: middleware.NegotiateContentType, asked by the harness itself on a request of its own
	// with the route's produces list, finds NO acceptable format for the request's Accept header (negotiation is C07's subject)
	AccBad bool `json:"acc_bad,omitempty"`
	Panic     string       `json:"panic,omitempty"`
	RouteMiss bool         `json:"route_miss,omitempty"`
	Steps     []c06StepObs `json:"steps,omitempty"` // hist
}

type c06 struct{}

func init() { register(c06{}) }

func (c06) ID() string        { return "C06" }
func (c06) CoqModule() string { return "Check_C06" }
func (c06) Rule() string {
	return "consumes lists over concrete types, type/*, */*, entries with parameters, empty, per operation or global, with/without an API default, " +
		"declared entries that spell the API default nearly (the default extended by a few characters, with parameters, a proper prefix of it, types ending like it) with requests of the default type and of the near-miss type; " +
		"consumers registered for a subset; Content-Type from a grammar (case, parameters, OWS, quoted strings, duplicate lines, absent) plus malformed values " +
		"plus values with commas (inside and outside quoted strings, leading, trailing, several media types in one value, several header lines, an empty first line); " +
		"body signalled by Content-Length, chunked (ContentLength -1), an explicit Content-Length: 0 header, an empty chunked stream, or absent; " +
		"payload of 1, 2, 3, 4095-4097, 70000 bytes or the usual few, delivered at once with the end of the stream reported afterwards, together with the last bytes (as net/http does when the end of the message is buffered), or byte by byte; " +
		"charset parameters of every kind (utf-8, other encodings, quoted, unknown) among the Content-Type parameters; methods POST/PUT/PATCH/DELETE/GET; " +
		"the operation declares a body parameter, no parameter, only path/query/header parameters, or a formData parameter (then also form media types, well-formed forms). " +
		"Non-trivial: the request has a body and the consumes list has >=2 entries or a wildcard."
}

func (c06) Decode(raw json.RawMessage) (any, error) {
	var in c06In
	err := json.Unmarshal(raw, &in)
	return in, err
}

func (c06) Enumerate(tier string) []any {
	// every pool type against every single-entry and wildcard list, three body signals
	var out []any
	out = append(out, c06EnumerateHist()...)
	// what the request accepts in return x what it sends: every defect of the Content-Type (not admitted, unparsable, admitted
	// without a consumer) and none, with and without a body, under Accept headers that can and cannot be satisfied, for every
	// parameter set of the operation
	for _, acc := range []string{"application/xml", "text/html, image/*", "application/json;q=0", "application/json", "*/*"} {
		for _, ct := range []string{"application/json", "text/plain", "image/png", "a/", "text", ""} {
			for _, b := range []string{"cl", "chunked", "none"} {
				for _, l := range [][]Bs{{"application/json"}, {"application/*", "text/csv"}, {}} {
					for _, params := range []string{"", "none", "pqh", "form"} {
						in := c06In{Declared: l, Default: "application/json", Registered: []Bs{"application/json", "text/csv"}, Method: "POST", Body: b,
							Params: params, Accept: []Bs{Bs(acc)}}
						if ct != "" {
							in.CT = []Bs{Bs(ct)}
						}
						out = append(out, in)
					}
				}
			}
		}
	}
	// ... and as neighbouring requests on one Context
	for entry := 0; entry < 3; entry++ {
		ops := []c06Op{{Method: "POST", Path: "/x", Declared: []Bs{"application/json"}}, {Method: "PUT", Path: "/x", Declared: []Bs{"text/plain"}, Params: "none"}}
		for _, ct := range []string{"text/plain", "a/", "application/json"} {
			out = append(out, c06In{Kind: "hist", Default: "application/json", Registered: []Bs{"application/json", "text/plain"}, Ops: ops, Steps: []c06Step{
				{Op: 0, CT: []Bs{Bs(ct)}, Body: "cl", Entry: entry},
				{Op: 0, CT: []Bs{Bs(ct)}, Body: "cl", Entry: entry, Accept: []Bs{"application/xml"}},
				{Op: 1, CT: []Bs{Bs(ct)}, Body: "chunked", Entry: entry, Accept: []Bs{"application/xml"}},
				{Op: 0, CT: []Bs{Bs(ct)}, Body: "none", Entry: entry, Accept: []Bs{"application/xml"}},
				{Op: 0, CT: []Bs{Bs(ct)}, Body: "cl", Entry: entry, Accept: []Bs{"*/*"}}}})
		}
	}
	lists := [][]Bs{{"application/json"}, {"text/plain"}, {"application/*"}, {"*/*"}, {"text/*", "application/json"}, {}}
	for _, l := range lists {
		for _, ct := range []string{"application/json", "text/plain", "application/xml", "image/png", "APPLICATION/JSON", "text/plain; charset=utf-8", "", "a/", "text",
			"application/json, text/plain", "application/json,", "text/plain; note=\"a,b\"", "application/xml;q=1 , application/json"} {
			for _, b := range []string{"cl", "chunked", "none"} {
				for _, def := range []Bs{"", "application/json"} {
					in := c06In{Declared: l, Default: def, Registered: []Bs{"application/json", "text/plain", "application/xml"}, Method: "POST", Body: b}
					if ct != "" {
						in.CT = []Bs{Bs(ct)}
					}
					out = append(out, in)
				}
			}
		}
	}
	// the charset parameter says anything: it is not part of the comparison
	for _, l := range [][]Bs{{"application/json"}, {"text/*", "application/json; charset=utf-8"}, {}} {
		for _, mt := range []string{"application/json", "text/plain", "image/png"} {
			for _, cs := range []string{"iso-8859-1", "UTF-16", "\"windows-1252\"", "us-ascii", "utf-7", "x"} {
				for _, b := range []string{"cl", "chunked", "none"} {
					out = append(out, c06In{Declared: l, Default: "application/json", Registered: []Bs{"application/json", "text/plain", "application/xml"}, Method: "POST",
						Body: b, CT: []Bs{Bs(mt + "; charset=" + cs)}})
				}
			}
		}
	}
	// how long the body is and how it arrives: one byte, a few, more than a buffer; the end of the stream reported with the
	// last bytes or after them; byte by byte
	for _, l := range [][]Bs{{"application/json"}, {}} {
		for _, mt := range []string{"application/json", "text/plain", "image/png"} {
			for _, b := range []string{"cl", "chunked", "cl0hdr"} {
				for _, size := range []string{"+1", "+2", "+4097"} {
					for _, mode := range []string{"", "+eof", "+1by1", "+1by1eof"} {
						for _, k := range []string{"", "none"} {
							out = append(out, c06In{Declared: l, Default: "application/json", Registered: []Bs{"application/json", "text/plain"}, Method: "POST",
								Body: b + size + mode, CT: []Bs{Bs(mt)}, Params: k})
						}
					}
				}
			}
		}
	}
	// the operation's parameter set against the gate: operations that declare nothing to read from the body are gated all the same
	form := []Bs{"application/x-www-form-urlencoded", "multipart/form-data"}
	for _, k := range []string{"none", "pqh", "form"} {
		for _, l := range [][]Bs{{"application/json"}, {"application/x-www-form-urlencoded"}, {"multipart/form-data", "text/*"}, {}} {
			for _, ct := range []string{"application/json", "text/plain", "application/x-www-form-urlencoded", "multipart/form-data; boundary=xyz", "image/png", "a/", ""} {
				for _, b := range []string{"cl", "chunked", "none"} {
					in := c06In{Declared: l, Default: "application/json", Registered: append([]Bs{"application/json", "text/plain"}, form...), Method: "POST", Body: b, Params: k}
					if ct != "" {
						in.CT = []Bs{Bs(ct)}
					}
					out = append(out, in)
				}
			}
		}
	}
	// near-miss spellings of the API default as declared entries: the default is added all the same (the list names the default
	// only through an entry that IS the default, parameters aside), so a body of the default type is decoded by the default's consumer
	for _, def := range []Bs{"application/json", "text/csv", ""} {
		base := string(def)
		if base == "" {
			base = "application/json"
		}
		for _, e := range c06NearMiss(base) {
			key := c06EntryKey(e)
			for _, l := range [][]Bs{{Bs(e)}, {"text/plain", Bs(e)}} {
				for _, ct := range []string{base, key, "image/png"} {
					for _, b := range []string{"cl", "none"} {
						out = append(out, c06In{Declared: l, Default: def, Registered: []Bs{"application/json", "text/plain", "text/csv", Bs(key)}, Method: "POST",
							Body: b, CT: []Bs{Bs(ct)}})
					}
				}
			}
		}
	}
	return out
}

// c06NearMiss: declared entries whose spelling comes close to the media type base without being it: base extended by a few
// characters (other registered media types look like that: application/json-patch+json, application/json-seq, application/jsonl,
// application/json5), such an entry with parameters, base itself with parameters, a proper prefix of base, media types whose
// spelling ends with base or with its subtype (structured suffixes: application/merge-patch+json). All in lower case.
func c06NearMiss(base string) []string {
	var out []string
	for _, s := range []string{"-patch+json", "-seq", "l", "5", "x", "+x", ".v2"} {
		out = append(out, base+s)
	}
	out = append(out, base+"-seq; charset=utf-8", base+"x;version=1", base+"; charset=utf-8", base+";version=1")
	if i := strings.IndexByte(base, '/'); i > 0 {
		typ, sub := base[:i], base[i+1:]
		if len(sub) > 1 {
			out = append(out, base[:len(base)-1])
		}
		if len(sub) > 3 {
			out = append(out, base[:len(base)-2])
		}
		out = append(out, typ+"/merge-patch+"+sub, typ+"/x-"+sub, typ+"/vnd.api+"+sub, "x"+base, "x-"+typ+"/"+sub)
	}
	return out
}

// c06EntryKey: the media type an entry names (cut at its first semicolon)
func c06EntryKey(e string) string { return strings.SplitN(e, ";", 2)[0] }

// c06IsNear: the entry names another media type than base whose spelling begins or ends like base (or base like it)
func c06IsNear(e, base string) bool {
	k := strings.ToLower(c06EntryKey(e))
	base = strings.ToLower(base)
	if base == "" || k == base || strings.Contains(k, "*") {
		return false
	}
	sub := base[strings.IndexByte(base, '/')+1:]
	return strings.HasPrefix(k, base) || strings.HasPrefix(base, k) || strings.HasSuffix(k, sub)
}

func c06HasNear(declared []Bs, base Bs) bool {
	for _, e := range declared {
		if c06IsNear(string(e), string(base)) {
			return true
		}
	}
	return false
}

// c06NearDeclared: the declared list with one or two near-miss spellings of base put in (in place of the list, before it or
// after it) and the media types a consumer should be registered for so that the new entries can be served.
func c06NearDeclared(r *rand.Rand, base string, declared []Bs) ([]Bs, []Bs) {
	nm := c06NearMiss(base)
	var add, reg []Bs
	for n := 1 + r.Intn(2); n > 0; n-- {
		e := nm[r.Intn(len(nm))]
		if len(add) == 1 && string(add[0]) == e {
			continue
		}
		add = append(add, Bs(e))
		if r.Intn(3) != 0 {
			reg = append(reg, Bs(c06EntryKey(e)))
		}
	}
	switch r.Intn(4) {
	case 0:
		return append(append([]Bs{}, declared...), add...), reg
	case 1:
		return append(add, declared...), reg
	}
	return add, reg
}

// c06NearHeader: a Content-Type naming base or the media type of one of the near-miss entries, in the spellings of the grammar
func c06NearHeader(r *rand.Rand, declared []Bs, base string) []Bs {
	targets := []string{base, base}
	for _, e := range declared {
		if c06IsNear(string(e), base) {
			targets = append(targets, c06EntryKey(string(e)))
		}
	}
	v := c06Case(r, targets[r.Intn(len(targets))])
	if r.Intn(3) == 0 {
		v += []string{"; charset=utf-8", ";charset=UTF-8", " ; version=1", "; " + c06Charset(r)}[r.Intn(4)]
	}
	return []Bs{Bs(v)}
}

func c06AddRegistered(reg []Bs, more ...Bs) []Bs {
	for _, m := range more {
		found := false
		for _, x := range reg {
			if x == m {
				found = true
			}
		}
		if !found {
			reg = append(reg, m)
		}
	}
	return reg
}

var c06FormTypes = []string{"application/x-www-form-urlencoded", "multipart/form-data"}
var c06FormEntries = []string{"application/x-www-form-urlencoded", "multipart/form-data", "application/json", "multipart/*", "application/*", "*/*", "text/plain",
	"application/x-www-form-urlencoded; charset=utf-8"}

// c06FormHeader: a Content-Type naming a form media type (multipart mostly with a boundary), in the spellings of the grammar
func c06FormHeader(r *rand.Rand) []Bs {
	var v string
	if r.Intn(2) == 0 {
		v = c06Case(r, "application/x-www-form-urlencoded")
		if r.Intn(3) == 0 {
			v += []string{"; charset=utf-8", ";charset=UTF-8", " ; x=\"a;b\""}[r.Intn(3)]
		}
	} else {
		v = c06Case(r, "multipart/form-data")
		switch r.Intn(6) {
		case 0: // no boundary: not a form net/http can read
		case 1:
			v += "; charset=utf-8; boundary=\"b-1\""
		default:
			v += []string{"; boundary=xyz", ";boundary=xyz", "; BOUNDARY=q7", " ;  boundary=----b"}[r.Intn(4)]
		}
	}
	return []Bs{Bs(v)}
}

var c06Pool = []string{"application/json", "text/plain", "application/xml", "application/octet-stream", "image/png", "application/vnd.api+json", "text/csv"}
var c06Entries = []string{"application/json", "text/plain", "application/xml", "application/octet-stream", "image/png", "application/vnd.api+json",
	"application/*", "text/*", "*/*", "image/*", "application/json; charset=utf-8", "text/plain;charset=utf-8", "text/csv"}

func c06Case(r *rand.Rand, s string) string {
	switch r.Intn(6) {
	case 0:
		return strings.ToUpper(s)
	case 1:
		b := []byte(s)
		for i := range b {
			if r.Intn(3) == 0 && b[i] >= 'a' && b[i] <= 'z' {
				b[i] -= 32
			}
		}
		return string(b)
	}
	return s
}

// values with a comma: a Content-Type header holds ONE media type, so a comma is legal only inside a quoted
// parameter value; whether a given value parses is decided by mime.ParseMediaType (the oracle), not here
func c06CommaHeader(r *rand.Rand) []Bs {
	pick := func() string {
		if r.Intn(6) == 0 {
			return []string{"text/html", "image/jpeg", "application/x-yaml", "multipart/form-data"}[r.Intn(4)]
		}
		return c06Case(r, c06Pool[r.Intn(len(c06Pool))])
	}
	sp := func() string { return []string{"", "", " ", "  ", "\t"}[r.Intn(5)] }
	qv := []string{"\"a,b\"", "\",\"", "\"a, b; c\"", "\"a\\\",b\"", "\"x\", y=\"z\"", "\"a,b"} // the last one never closes
	a, b := pick(), pick()
	var v string
	switch r.Intn(12) {
	case 0: // several media types in one value
		v = a + sp() + "," + sp() + b
	case 1: // trailing
		v = a + sp() + "," + sp()
	case 2: // leading
		v = sp() + "," + sp() + a
	case 3: // inside a quoted parameter value (legal)
		v = a + sp() + ";" + sp() + "note=" + qv[r.Intn(len(qv))]
	case 4: // in an unquoted parameter value
		v = a + "; note=a,b"
	case 5: // after a parameter
		v = a + "; charset=utf-8" + sp() + "," + sp() + b
	case 6: // quoted comma, then a second media type
		v = a + "; note=" + qv[r.Intn(len(qv))] + sp() + "," + sp() + b + "; q=0.5"
	case 7: // three media types
		v = a + "," + b + "," + pick()
	case 8: // only commas
		v = []string{",", ",,", " , "}[r.Intn(3)]
	case 9: // quoted comma among other parameters
		v = a + "; charset=utf-8; note=" + qv[r.Intn(len(qv))] + "; version=1"
	case 10: // comma inside the media type itself
		v = []string{"application,json", "application/,json", "text/pl,ain", "a,b/c"}[r.Intn(4)]
	default: // second media type malformed / first malformed
		v = []string{a + ", /", "/ ," + a, a + ",;", a + ", " + b + ";"}[r.Intn(4)]
	}
	lines := []Bs{Bs(v)}
	switch r.Intn(8) {
	case 0: // a further header line: only the first counts
		lines = append(lines, Bs(b))
	case 1: // plain first line, the comma in a later one
		lines = []Bs{Bs(a), Bs(v)}
	case 2: // three lines
		lines = []Bs{Bs(a), Bs(v), Bs(b)}
	case 3: // an empty first line stands for the default, whatever follows
		lines = []Bs{"", Bs(v)}
	}
	return lines
}

// c06Charsets: charset parameter values (the property: parameters such as charset are ignored, whatever they say).
var c06Charsets = []string{"iso-8859-1", "ISO-8859-1", "utf-16", "UTF-16LE", "utf-7", "us-ascii", "ascii", "windows-1252", "\"windows-1252\"", "latin1", "ibm037", "utf8",
	"UTF-8", "x", "\"\"", "binary", "shift_jis", "utf-8x", "\"utf-8 \""}

func c06Charset(r *rand.Rand) string {
	return []string{"charset=", "charset=", "Charset=", "CHARSET="}[r.Intn(4)] + c06Charsets[r.Intn(len(c06Charsets))]
}

// c06Delivery: a body signal, one time in three with a payload length and / or a way of delivering it of its own.
func c06Delivery(r *rand.Rand, base string) string {
	if base == "none" || base == "chunked-empty" || r.Intn(3) != 0 {
		return base
	}
	if r.Intn(4) != 0 {
		base += "+" + []string{"1", "1", "1", "2", "3", "4095", "4096", "4097", "70000"}[r.Intn(9)]
	}
	if r.Intn(4) != 0 {
		base += "+" + []string{"eof", "eof", "1by1", "1by1eof"}[r.Intn(4)]
	}
	return base
}

// c06BodySpec: the parts of a body signal: the base signal, the payload length asked for (0 = the usual payload), the delivery.
func c06BodySpec(body string) (base string, size int, mode string) {
	parts := strings.Split(body, "+")
	base = parts[0]
	for _, p := range parts[1:] {
		if n, err := strconv.Atoi(p); err == nil && n > 0 && n <= 1<<20 {
			size = n
		} else {
			mode = p
		}
	}
	return
}

func c06Header(r *rand.Rand) []Bs {
	switch r.Intn(15) {
	case 0:
		return nil
	case 3, 4, 5:
		return c06CommaHeader(r)
	case 1:
		bad := []string{"a/", "/b", "a;b", ";", "application/json; charset", "text/plain; charset=\"utf-8", "application/json;char*", "application(", "a/b/c",
			"application/json; charset=utf-8; charset=ascii", " ", "text/plain;;", "application/json,text/plain", "\xff/\xfe", "application/ json"}
		return []Bs{Bs(bad[r.Intn(len(bad))])}
	case 2:
		return []Bs{Bs([]string{"text", "form-data", "x", "Text"}[r.Intn(4)])}
	}
	var mt string
	if r.Intn(8) == 0 {
		mt = []string{"application/x-yaml", "text/html", "image/jpeg", "application/jsonx", "applicatio/json", "application/jso", "multipart/form-data"}[r.Intn(7)]
	} else {
		mt = c06Pool[r.Intn(len(c06Pool))]
	}
	v := c06Case(r, mt)
	ws := []string{"", "", " ", "  ", "\t"}
	for n := r.Intn(3); n > 0; n-- {
		p := []string{"charset=utf-8", "charset=\"utf-8\"", "CHARSET=UTF-8", "boundary=xyz", "q=0.5", "version=1", "x=\"a;b\"", "x=\"a\\\"b\"", c06Charset(r), c06Charset(r)}[r.Intn(10)]
		v += ws[r.Intn(len(ws))] + ";" + ws[r.Intn(len(ws))] + p
	}
	if r.Intn(10) == 0 {
		v = " " + v
	}
	if r.Intn(10) == 0 {
		v += " "
	}
	lines := []Bs{Bs(v)}
	if r.Intn(10) == 0 { // a second header line: only the first counts
		lines = append(lines, Bs(c06Pool[r.Intn(len(c06Pool))]))
	}
	return lines
}

var c06HistSlots = [][2]string{{"POST", "/x"}, {"PUT", "/x"}, {"PATCH", "/x"}, {"DELETE", "/x"}, {"GET", "/x"}, {"POST", "/y"}, {"PUT", "/y"},
	{"PUT", "/x/{id}"}, {"PATCH", "/x/{id}"}, {"POST", "/x/{id}"}}

// c06EnumerateHist: operations on one path (and two elsewhere) with different consumes lists; every ordered pair of the
// first four, the same Content-Type sent to both, every combination of entry points worth telling apart; some triples.
func c06EnumerateHist() []any {
	ops := []c06Op{
		{Method: "PUT", Path: "/x", Declared: []Bs{"application/json"}},
		{Method: "PATCH", Path: "/x", Declared: []Bs{"application/xml"}},
		{Method: "POST", Path: "/x", Declared: []Bs{"text/*", "application/xml; charset=utf-8"}},
		{Method: "DELETE", Path: "/x", Declared: []Bs{}},
		{Method: "PUT", Path: "/y", Declared: []Bs{"text/plain"}},
		{Method: "PUT", Path: "/x/{id}", Declared: []Bs{"text/csv"}},
	}
	var out []any
	n := 0
	entries := [][2]int{{0, 0}, {1, 1}, {2, 2}, {0, 1}, {2, 0}, {1, 2}}
	for a := 0; a < 4; a++ {
		for b := 0; b < 4; b++ {
			if a == b {
				continue
			}
			for _, ct := range []string{"application/json", "application/xml", "text/plain"} {
				for _, e := range entries {
					n++
					in := c06In{Kind: "hist", Ops: ops, Default: Bs([]string{"application/json", "", "text/csv"}[n%3]),
						Registered: []Bs{"application/json", "text/plain", "application/xml", "text/csv"}}
					body := []string{"cl", "chunked"}[n%2]
					in.Steps = []c06Step{{Op: a, CT: []Bs{Bs(ct)}, Body: body, Entry: e[0]}, {Op: b, CT: []Bs{Bs(ct)}, Body: body, Entry: e[1]}}
					if n%4 == 0 { // ... and the first operation once more
						in.Steps = append(in.Steps, c06Step{Op: a, CT: []Bs{Bs(ct)}, Body: body, Entry: e[1]})
					}
					out = append(out, in)
				}
			}
		}
	}
	// same method, different paths; three and four operations in a row
	for _, order := range [][]int{{0, 4}, {4, 0}, {0, 5, 4}, {5, 0}, {1, 5}, {0, 1, 2, 3}, {3, 2, 1, 0}, {2, 0, 2, 1}} {
		for _, ct := range []string{"application/json", "text/plain", "text/csv; charset=utf-8", "APPLICATION/XML"} {
			n++
			in := c06In{Kind: "hist", Ops: ops, Default: "application/json", Registered: []Bs{"application/json", "text/plain", "application/xml", "text/csv"}}
			for k, o := range order {
				in.Steps = append(in.Steps, c06Step{Op: o, CT: []Bs{Bs(ct)}, Body: "cl", Entry: (n + k) % 3})
			}
			out = append(out, in)
		}
	}
	// operations of one path whose lists spell the API default nearly: the default itself, the default extended, the default
	// extended with parameters, the structured-suffix type, nothing; a request of the default type and of the extended type to both
	for _, def := range []string{"application/json", "text/csv"} {
		i := strings.IndexByte(def, '/')
		near := []c06Op{
			{Method: "PUT", Path: "/x", Declared: []Bs{Bs(def + "-seq")}},
			{Method: "PATCH", Path: "/x", Declared: []Bs{Bs(def)}},
			{Method: "POST", Path: "/x", Declared: []Bs{"text/plain", Bs(def + "l; charset=utf-8")}},
			{Method: "DELETE", Path: "/x", Declared: []Bs{Bs(def[:i] + "/merge-patch+" + def[i+1:])}},
			{Method: "GET", Path: "/x", Declared: []Bs{}},
		}
		for a := 0; a < len(near); a++ {
			for b := 0; b < len(near); b++ {
				if a == b {
					continue
				}
				for _, ct := range []string{def, def + "-seq"} {
					n++
					in := c06In{Kind: "hist", Ops: near, Default: Bs(def),
						Registered: []Bs{"application/json", "text/plain", "text/csv", Bs(def + "-seq"), Bs(def + "l")}}
					body := []string{"cl", "chunked"}[n%2]
					in.Steps = []c06Step{{Op: a, CT: []Bs{Bs(ct)}, Body: body, Entry: n % 3}, {Op: b, CT: []Bs{Bs(ct)}, Body: body, Entry: (n / 3) % 3}}
					out = append(out, in)
				}
			}
		}
	}
	return out
}

// c06GenHist: an API with 2-4 operations (half of the time all on one path), each with a consumes list of its own, and
// 2-5 requests whose Content-Type is mostly one of the types some operation lists, so that admission differs between
// neighbouring requests only through the operation addressed.
func c06GenHist(r *rand.Rand) c06In {
	cfg := c06Config(r)
	in := c06In{Kind: "hist", Default: cfg.Default, Registered: cfg.Registered}
	nops := 2 + r.Intn(3)
	slots := r.Perm(len(c06HistSlots))
	if r.Intn(2) == 0 {
		slots = r.Perm(5)
	}
	for i := 0; i < nops; i++ {
		sl := c06HistSlots[slots[i]]
		op := c06Op{Method: sl[0], Path: sl[1], Declared: c06Config(r).Declared}
		if r.Intn(3) == 0 {
			op.ID = fmt.Sprintf("op%d", i)
		}
		// what the operation declares to read: neighbouring operations (same path, other method) differ in it
		op.Params = []string{"", "", "", "none", "pqh", "pqh", "form"}[r.Intn(7)]
		if op.Params == "form" && r.Intn(2) == 0 {
			op.Declared = c06FormDeclared(r)
		}
		if r.Intn(4) == 0 { // near-miss spellings of THIS API's default
			var reg []Bs
			op.Declared, reg = c06NearDeclared(r, c06NearBase(in.Default), op.Declared)
			in.Registered = c06AddRegistered(in.Registered, reg...)
		}
		in.Ops = append(in.Ops, op)
	}
	var listed []string
	if in.Default != "" { // the default is on every list
		listed = append(listed, string(in.Default))
	}
	for _, op := range in.Ops {
		for _, e := range op.Declared {
			if !strings.Contains(string(e), "*") {
				listed = append(listed, strings.SplitN(string(e), ";", 2)[0])
			}
		}
	}
	nsteps := 2 + r.Intn(4)
	var ct []Bs
	for i := 0; i < nsteps; i++ {
		st := c06Step{Op: r.Intn(nops), Entry: r.Intn(3)}
		switch k := r.Intn(10); {
		case k < 3 && ct != nil: // the same header as the request before
		case k < 7 && len(listed) > 0:
			v := c06Case(r, listed[r.Intn(len(listed))])
			if r.Intn(3) == 0 {
				v += "; charset=utf-8"
			}
			ct = []Bs{Bs(v)}
		default:
			ct = c06Header(r)
		}
		if in.Ops[st.Op].Params == "form" && r.Intn(3) == 0 {
			ct = c06FormHeader(r)
		}
		st.CT = ct
		st.Body = c06Delivery(r, []string{"cl", "cl", "cl", "chunked", "chunked", "cl0hdr", "chunked-empty", "none"}[r.Intn(8)])
		if r.Intn(4) == 0 {
			st.Accept = c06Accept(r)
		}
		in.Steps = append(in.Steps, st)
	}
	return in
}

func (c06) Gen(r0 *rand.Rand, tier string, i int) any {
	if i%10 == 9 {
		return c06GenHist(r0)
	}
	// the route configuration comes from a pool of 300 (quick) / 3000 (thorough) configurations derived from the
	// seed, so that built APIs are reused; the request is drawn afresh
	pool := 300
	if tier == "thorough" {
		pool = 3000
	}
	r := rand.New(rand.NewSource(int64(r0.Intn(pool))*7919 + 17))
	in := c06Config(r)
	in.Method = []string{"POST", "POST", "PUT", "PATCH", "DELETE", "GET"}[r.Intn(6)]
	in.CT = c06Header(r0)
	in.Body = c06Delivery(r0, []string{"cl", "cl", "cl", "chunked", "chunked", "cl0hdr", "chunked-empty", "none"}[r0.Intn(8)])
	if in.Params == "form" && r0.Intn(2) == 0 {
		in.CT = c06FormHeader(r0)
	}
	if base := c06NearBase(in.Default); c06HasNear(in.Declared, Bs(base)) && r0.Intn(3) != 0 {
		// against near-miss entries: mostly a request of the default type or of the near-miss type itself
		in.CT = c06NearHeader(r0, in.Declared, base)
	}
	// one request in four also says what it accepts in return (drawn last: the other draws stay what they were)
	if r0.Intn(4) == 0 {
		in.Accept = c06Accept(r0)
	}
	return in
}

func c06NearBase(def Bs) string {
	if def == "" {
		return "application/json"
	}
	return string(def)
}

func c06FormDeclared(r *rand.Rand) []Bs {
	out := []Bs{}
	seen := map[string]bool{}
	for n := r.Intn(3); n >= 0; n-- {
		if e := c06FormEntries[r.Intn(len(c06FormEntries))]; !seen[e] {
			seen[e] = true
			out = append(out, Bs(e))
		}
	}
	return out
}

func c06Config(r *rand.Rand) c06In {
	in := c06In{Global: r.Intn(3) == 0}
	n := r.Intn(4)
	if r.Intn(10) == 0 {
		n = 0
	}
	seen := map[string]bool{}
	for j := 0; j < n; j++ {
		e := c06Entries[r.Intn(len(c06Entries))]
		if !seen[e] {
			seen[e] = true
			in.Declared = append(in.Declared, Bs(e))
		}
	}
	if in.Declared == nil {
		in.Declared = []Bs{}
	}
	switch r.Intn(4) {
	case 0:
		in.Default = ""
	case 1:
		in.Default = Bs(c06Pool[r.Intn(len(c06Pool))])
	default:
		in.Default = "application/json"
	}
	for _, p := range c06Pool {
		if r.Intn(3) != 0 {
			in.Registered = append(in.Registered, Bs(p))
		}
	}
	if in.Registered == nil {
		in.Registered = []Bs{}
	}
	// the operation's parameter set (drawn last: the configurations of earlier runs keep their lists)
	in.Params = []string{"", "", "", "", "", "none", "none", "pqh", "pqh", "pqh", "form", "form"}[r.Intn(12)]
	for _, f := range c06FormTypes { // consumers for the form types, on some APIs
		if r.Intn(3) != 0 {
			in.Registered = append(in.Registered, Bs(f))
		}
	}
	if in.Params == "form" && r.Intn(3) != 0 {
		in.Declared = c06FormDeclared(r)
	}
	// one configuration in five declares near-miss spellings of the API default (of JSON when there is no default) - drawn
	// last as well
	if r.Intn(5) == 0 {
		base := string(in.Default)
		if base == "" {
			base = "application/json"
		}
		var reg []Bs
		in.Declared, reg = c06NearDeclared(r, base, in.Declared)
		if r.Intn(4) != 0 { // mostly a consumer for the default itself
			reg = append(reg, Bs(base))
		}
		in.Registered = c06AddRegistered(in.Registered, reg...)
	}
	return in
}

// ---------- running ----------

type c06Env struct{ log []string }

type c06Built struct {
	env *c06Env
	ctx *middleware.Context
	h   http.Handler
}

var c06Cache = map[string]*c06Built{}

func c06Build(in c06In) *c06Built {
	kb, _ := json.Marshal(struct {
		D []Bs
		G bool
		F Bs
		R []Bs
		M string
		P string
	}{in.Declared, in.Global, in.Default, in.Registered, in.Method, in.Params})
	if b, ok := c06Cache[string(kb)]; ok {
		return b
	}
	opPath := c06OpPath(in.Params, "/x")
	op := map[string]any{
		"operationId": "doX",
		"responses":   map[string]any{"200": map[string]any{"description": "ok"}},
	}
	if ps := c06Params(in.Params, opPath); len(ps) > 0 {
		op["parameters"] = ps
	}
	doc := map[string]any{
		"swagger": "2.0", "info": map[string]any{"title": "t", "version": "1"},
		"produces": []string{"application/json"},
		"paths":    map[string]any{opPath: map[string]any{strings.ToLower(in.Method): op}},
	}
	if in.Global {
		doc["consumes"] = bsList(in.Declared)
	} else if len(in.Declared) > 0 {
		op["consumes"] = bsList(in.Declared)
	}
	raw, _ := json.Marshal(doc)
	spec, err := loads.Analyzed(json.RawMessage(raw), "")
	if err != nil {
		panic(err)
	}
	env := &c06Env{}
	api := untyped.NewAPI(spec)
	api.DefaultConsumes = string(in.Default)
	// untyped.NewAPI always registers a JSON consumer: replace it with an instrumented one
	for _, mt := range append([]Bs{"application/json"}, in.Registered...) {
		api.RegisterConsumer(string(mt), c06Consumer{env, string(mt)})
	}
	api.RegisterProducer("application/json", runtime.JSONProducer())
	api.RegisterOperation(strings.ToLower(in.Method), opPath, runtime.OperationHandlerFunc(func(interface{}) (interface{}, error) {
		env.log = append(env.log, "handle")
		return map[string]string{"r": "ok"}, nil
	}))
	b := &c06Built{env: env, ctx: middleware.NewContext(spec, api, nil)}
	b.h = b.ctx.RoutesHandler(nil)
	if len(c06Cache) > 3500 {
		c06Cache = map[string]*c06Built{}
	}
	c06Cache[string(kb)] = b
	return b
}

// an instrumented consumer, identifiable when found in route.Consumer
type c06Consumer struct {
	env *c06Env
	key string
}

func (c c06Consumer) Consume(rd io.Reader, data interface{}) error {
	c.env.log = append(c.env.log, "consume:"+c.key)
	_, _ = io.Copy(io.Discard, rd)
	return nil
}

func c06Picked(mr *middleware.MatchedRoute) *Bs {
	if mr == nil || mr.Consumer == nil {
		return nil
	}
	b := Bs("<foreign consumer>")
	if c, ok := mr.Consumer.(c06Consumer); ok {
		b = Bs(c.key)
	}
	return &b
}

// c06OpPath: an operation with only path/query/header parameters gets a path parameter
func c06OpPath(params, path string) string {
	if params == "pqh" && !strings.Contains(path, "{id}") {
		return path + "/{id}"
	}
	return path
}

// c06Params: the parameters of an operation of the given kind on the given path template
func c06Params(kind, path string) []any {
	var ps []any
	if strings.Contains(path, "{id}") {
		ps = append(ps, map[string]any{"name": "id", "in": "path", "type": "string", "required": true})
	}
	switch kind {
	case "none":
	case "pqh":
		ps = append(ps, map[string]any{"name": "q", "in": "query", "type": "string"}, map[string]any{"name": "X-H", "in": "header", "type": "string"})
	case "form":
		ps = append(ps, map[string]any{"name": "f", "in": "formData", "type": "string"})
	default:
		ps = append(ps, map[string]any{"name": "b", "in": "body", "schema": map[string]any{}})
	}
	return ps
}

// c06Payload: the bytes sent as the body. For a formData operation a well-formed form of the kind the header names
// (multipart with the header's own boundary when it has one, else url-encoded pairs); else a small JSON document.
func c06Payload(in c06In) []byte {
	if in.Params != "form" {
		if _, size, _ := c06BodySpec(in.Body); size > 0 {
			return []byte(strings.Repeat("7", size))
		}
		return []byte(`{"a":1}`)
	}
	if len(in.CT) > 0 {
		if mt, ps, err := mime.ParseMediaType(string(in.CT[0])); err == nil && mt == "multipart/form-data" && ps["boundary"] != "" {
			b := ps["boundary"]
			return []byte("--" + b + "\r\nContent-Disposition: form-data; name=\"f\"\r\n\r\n1\r\n--" + b + "--\r\n")
		}
	}
	return []byte("f=1&g=2")
}

// c06FormStage: what net/http itself makes of the request as a form, in the statuses the parameter stage of a formData
// operation answers: 415 unless the media type is a form type, 400 when the form cannot be read, 0 when all is well.
// Asked of the standard library on a request of its own, not of the code under test.
func c06FormStage(in c06In) int {
	if in.Params != "form" {
		return 0
	}
	asked := "application/octet-stream"
	if len(in.CT) > 0 && in.CT[0] != "" {
		asked = string(in.CT[0])
	}
	mt, _, err := mime.ParseMediaType(asked)
	if err != nil || (mt != "multipart/form-data" && mt != "application/x-www-form-urlencoded") {
		return 415
	}
	st := 0
	if p, _ := recoverTo(func() {
		req := c06Request(in)
		if mt == "multipart/form-data" {
			if err := req.ParseMultipartForm(32 << 20); err != nil {
				st = 400
				return
			}
		}
		if err := req.ParseForm(); err != nil {
			st = 400
		}
	}); p {
		st = 400
	}
	return st
}

type c06Reader struct{ r io.Reader } // hides the concrete reader type from net/http

func (c c06Reader) Read(p []byte) (int, error) { return c.r.Read(p) }
func (c06Reader) Close() error                 { return nil }

func c06Request(in c06In) *http.Request {
	path := in.Path
	if path == "" {
		path = strings.ReplaceAll(c06OpPath(in.Params, "/x"), "{id}", "7")
	}
	req := httptest.NewRequest(in.Method, path, nil)
	payload := c06Payload(in)
	base, _, mode := c06BodySpec(in.Body)
	var src io.Reader = bytes.NewReader(payload)
	switch mode {
	case "eof":
		src = iotest.DataErrReader(src)
	case "1by1":
		src = iotest.OneByteReader(src)
	case "1by1eof":
		src = iotest.DataErrReader(iotest.OneByteReader(src))
	}
	switch base {
	case "cl":
		req.Body = c06Reader{src}
		req.ContentLength = int64(len(payload))
	case "cl0hdr":
		req.Body = c06Reader{src}
		req.ContentLength = 0
		req.Header.Set("Content-Length", "0")
	case "chunked":
		req.Body = c06Reader{src}
		req.ContentLength = -1
		req.TransferEncoding = []string{"chunked"}
	case "chunked-empty":
		req.Body = c06Reader{bytes.NewReader(nil)}
		req.ContentLength = -1
		req.TransferEncoding = []string{"chunked"}
	default:
		req.Body = http.NoBody
		req.ContentLength = 0
	}
	if len(in.CT) > 0 {
		req.Header["Content-Type"] = bsList(in.CT)
	}
	if len(in.Accept) > 0 {
		req.Header["Accept"] = bsList(in.Accept)
	}
	return req
}

// c06AccBad: the response format oracle. The harness asks the negotiation function itself, on a request of its own, whether any
// of the route's produces satisfies the request's Accept header (no produces = nothing to refuse).
func c06AccBad(in c06In, produces []string) bool {
	if len(in.Accept) == 0 || len(produces) == 0 {
		return false
	}
	rq := httptest.NewRequest("GET", "/", nil)
	rq.Header["Accept"] = bsList(in.Accept)
	return middleware.NegotiateContentType(rq, produces, "") == ""
}

// Accept headers: ones application/json satisfies and ones it does not (two in three), one or several lines.
var c06AcceptGood = []string{"application/json", "*/*", "application/*", "text/html, application/json;q=0.5", "application/json; charset=utf-8", "application/xml;q=0.9, */*;q=0.1", ""}
var c06AcceptBad = []string{"application/xml", "text/html", "image/*", "text/plain;q=0.9, application/xml", "application/json;q=0", "application/jsonx", "text/*",
	"application/vnd.api+json", "application/x-www-form-urlencoded", "multipart/form-data", "application/octet-stream", "text/plain", "text/csv"}

func c06Accept(r *rand.Rand) []Bs {
	if r.Intn(3) == 0 {
		return []Bs{Bs(c06AcceptGood[r.Intn(len(c06AcceptGood))])}
	}
	a := []Bs{Bs(c06AcceptBad[r.Intn(len(c06AcceptBad))])}
	if r.Intn(5) == 0 {
		a = append(a, Bs(c06AcceptBad[r.Intn(len(c06AcceptBad))]))
	}
	return a
}

func c06FirstCode(err error) int {
	for err != nil {
		if ce, ok := err.(*errors.CompositeError); ok {
			if len(ce.Errors) == 0 {
				return int(ce.Code())
			}
			err = ce.Errors[0]
			continue
		}
		if e, ok := err.(errors.Error); ok {
			return int(e.Code())
		}
		return 599
	}
	return 0
}

func c06Consumed(log []string) *Bs {
	for _, l := range log {
		if strings.HasPrefix(l, "consume:") {
			b := Bs(l[len("consume:"):])
			return &b
		}
	}
	return nil
}

type c06Binder struct{ env *c06Env }

func (b c06Binder) BindRequest(r *http.Request, route *middleware.MatchedRoute) error {
	b.env.log = append(b.env.log, "bind")
	if runtime.HasBody(r) {
		if route.Consumer == nil {
			b.env.log = append(b.env.log, "consume:<nil consumer>")
			return nil
		}
		var v interface{}
		return route.Consumer.Consume(r.Body, &v)
	}
	return nil
}

// ---------- histories on one Context ----------

func c06BuildHist(in c06In) *c06Built {
	paths := map[string]any{}
	for _, op := range in.Ops {
		o := map[string]any{"responses": map[string]any{"200": map[string]any{"description": "ok"}}}
		if params := c06Params(op.Params, op.Path); len(params) > 0 {
			o["parameters"] = params
		}
		if op.ID != "" {
			o["operationId"] = op.ID
		}
		if len(op.Declared) > 0 {
			o["consumes"] = bsList(op.Declared)
		}
		item, _ := paths[op.Path].(map[string]any)
		if item == nil {
			item = map[string]any{}
			paths[op.Path] = item
		}
		item[strings.ToLower(op.Method)] = o
	}
	doc := map[string]any{
		"swagger": "2.0", "info": map[string]any{"title": "t", "version": "1"},
		"produces": []string{"application/json"}, "paths": paths,
	}
	raw, _ := json.Marshal(doc)
	spec, err := loads.Analyzed(json.RawMessage(raw), "")
	if err != nil {
		panic(err)
	}
	env := &c06Env{}
	api := untyped.NewAPI(spec)
	api.DefaultConsumes = string(in.Default)
	for _, mt := range append([]Bs{"application/json"}, in.Registered...) {
		api.RegisterConsumer(string(mt), c06Consumer{env, string(mt)})
	}
	api.RegisterProducer("application/json", runtime.JSONProducer())
	for _, op := range in.Ops {
		api.RegisterOperation(strings.ToLower(op.Method), op.Path, runtime.OperationHandlerFunc(func(interface{}) (interface{}, error) {
			env.log = append(env.log, "handle")
			return map[string]string{"r": "ok"}, nil
		}))
	}
	b := &c06Built{env: env, ctx: middleware.NewContext(spec, api, nil)}
	b.h = b.ctx.RoutesHandler(nil)
	return b
}

// c06StepIn is the request of one step, as a single-request input.
func c06StepIn(in c06In, st c06Step) c06In {
	op := in.Ops[st.Op]
	return c06In{Method: op.Method, Path: strings.ReplaceAll(op.Path, "{id}", "7"), CT: st.CT, Body: st.Body, Params: op.Params, Accept: st.Accept}
}

// c06Enter sends the request through one entry point of b: (first error status, consumer that ran, went through).
func c06Enter(b *c06Built, rq c06In, entry int) (c06Res, bool) {
	env := b.env
	env.log = nil
	var res c06Res
	ran := false
	p, _ := recoverTo(func() {
		switch entry {
		case 0:
			mr, r, _ := b.ctx.RouteInfo(c06Request(rq))
			err := b.ctx.BindValidRequest(r, mr, c06Binder{env})
			res = c06Res{Status: c06FirstCode(err), Cons: c06Consumed(env.log)}
			ran = err == nil
		case 1:
			mr, r, _ := b.ctx.RouteInfo(c06Request(rq))
			_, _, err := b.ctx.BindAndValidate(r, mr)
			res = c06Res{Status: c06FirstCode(err), Cons: c06Consumed(env.log)}
			ran = err == nil
		default:
			rec := httptest.NewRecorder()
			b.h.ServeHTTP(rec, c06Request(rq))
			res = c06Res{Status: rec.Code, Cons: c06Consumed(env.log)}
			if res.Status == 200 {
				res.Status = 0
			}
			for _, l := range env.log {
				if l == "handle" {
					ran = true
				}
			}
		}
	})
	if p {
		res = c06Res{Status: 598}
		ran = false
	}
	return res, ran
}

func c06RunHist(in c06In) any {
	var obs c06Obs
	p, m := recoverTo(func() {
		b := c06BuildHist(in)
		for _, st := range in.Steps {
			rq := c06StepIn(in, st)
			var so c06StepObs
			mr, _, ok := b.ctx.RouteInfo(c06Request(rq))
			if !ok {
				panic("route not found")
			}
			so.Consumes = toBs(mr.Consumes)
			for k := range mr.Consumers {
				so.Keys = append(so.Keys, Bs(k))
			}
			sort.Slice(so.Keys, func(i, j int) bool { return so.Keys[i] < so.Keys[j] })
			so.HasBody = runtime.HasBody(c06Request(rq))
			asked := ""
			if len(st.CT) > 0 {
				asked = string(st.CT[0])
			}
			if asked == "" {
				asked = "application/octet-stream"
			}
			so.Asked = Bs(asked)
			if mt, _, err := mime.ParseMediaType(asked); err == nil {
				pb := Bs(mt)
				so.Parse = &pb
				if mt2, _, err := mime.ParseMediaType(mt); err == nil {
					rp := Bs(mt2)
					so.Reparse = &rp
				}
			}
			so.FormSt = c06FormStage(rq)
			so.AccBad = c06AccBad(rq, mr.Produces)
			so.Hist, so.HistRan = c06Enter(b, rq, st.Entry)
			obs.Steps = append(obs.Steps, so)
		}
		// the same requests, each on a Context that has answered nothing before (the first one already was)
		for i, st := range in.Steps {
			so := &obs.Steps[i]
			if i == 0 {
				so.Fresh, so.FreshRan = so.Hist, so.HistRan
				continue
			}
			so.Fresh, so.FreshRan = c06Enter(c06BuildHist(in), c06StepIn(in, st), st.Entry)
		}
	})
	if p {
		obs.Panic = m
	}
	return obs
}

func (c06) Run(inAny any) any {
	in := inAny.(c06In)
	if in.Kind == "hist" {
		return c06RunHist(in)
	}
	var obs c06Obs
	b := c06Build(in)
	env := b.env
	var msgs []string

	// the facts the model takes as data
	mr, _, ok := b.ctx.RouteInfo(c06Request(in))
	if !ok {
		obs.RouteMiss = true
		return obs
	}
	obs.Consumes = toBs(mr.Consumes)
	for k := range mr.Consumers {
		obs.Keys = append(obs.Keys, Bs(k))
	}
	sort.Slice(obs.Keys, func(i, j int) bool { return obs.Keys[i] < obs.Keys[j] })
	obs.HasBody = runtime.HasBody(c06Request(in))
	// the parse oracle comes from the harness's own call of mime.ParseMediaType on the first header line as written
	// (the default media type when there is none or it is empty), NOT from runtime.ContentType, whose answer is an
	// observable compared with it
	asked := ""
	if len(in.CT) > 0 {
		asked = string(in.CT[0])
	}
	if asked == "" {
		asked = "application/octet-stream"
	}
	obs.Asked = Bs(asked)
	if mt, _, err := mime.ParseMediaType(asked); err == nil {
		p := Bs(mt)
		obs.Parse = &p
		if mt2, _, err := mime.ParseMediaType(mt); err == nil {
			rp := Bs(mt2)
			obs.Reparse = &rp
		}
	}
	obs.FormSt = c06FormStage(in)
	obs.AccBad = c06AccBad(in, mr.Produces)
	pp, pm := recoverTo(func() {
		if ct, _, err := runtime.ContentType(c06Request(in).Header); err == nil {
			p := Bs(ct)
			obs.CTImpl = &p
		}
	})
	if pp {
		msgs = append(msgs, "ContentType: "+pm)
	}

	// typed
	env.log = nil
	p, m := recoverTo(func() {
		mr, rq, _ := b.ctx.RouteInfo(c06Request(in))
		err := b.ctx.BindValidRequest(rq, mr, c06Binder{env})
		obs.T = c06Res{Status: c06FirstCode(err), Cons: c06Consumed(env.log)}
	})
	if p {
		obs.T = c06Res{Status: 598}
		msgs = append(msgs, "typed: "+m)
	}
	// untyped
	env.log = nil
	p, m = recoverTo(func() {
		mr, rq, _ := b.ctx.RouteInfo(c06Request(in))
		_, _, err := b.ctx.BindAndValidate(rq, mr)
		obs.U = c06Res{Status: c06FirstCode(err), Cons: c06Consumed(env.log)}
		obs.UPicked = c06Picked(mr)
	})
	if p {
		obs.U = c06Res{Status: 598}
		msgs = append(msgs, "untyped: "+m)
	}
	// handler
	env.log = nil
	rec := httptest.NewRecorder()
	p, m = recoverTo(func() { b.h.ServeHTTP(rec, c06Request(in)) })
	obs.HStatus = rec.Code
	if p {
		obs.HStatus = 598
		msgs = append(msgs, "handler: "+m)
	}
	obs.HCons = c06Consumed(env.log)
	for _, l := range env.log {
		if l == "handle" {
			obs.HRan = true
		}
	}
	obs.TJ, obs.UJ = obs.T, obs.U
	obs.Panic = strings.Join(msgs, "; ")
	return obs
}

// ---------- Gallina ----------

func c06OptBytes(b *Bs) string {
	if b == nil {
		return "None"
	}
	return "(Some " + coqBytes(string(*b)) + ")"
}

func c06OptStatus(s int) string {
	if s == 0 {
		return "None"
	}
	return fmt.Sprintf("(Some %d)", s)
}

func c06BodyFlags(body string) (clPos, hdr, nonempty bool) {
	body, _, _ = c06BodySpec(body)
	return body == "cl", body == "cl0hdr", body == "cl" || body == "chunked" || body == "cl0hdr"
}

func c06CoqHist(in c06In, obs c06Obs) string {
	head := fmt.Sprintf("CHist %s %s ", coqBytes(string(in.Default)), coqBytesList(c06APIConsumers(in)))
	if obs.Panic != "" || len(obs.Steps) != len(in.Steps) {
		return head + "[]" // the set-up failed: an empty history never corresponds
	}
	idx := make([]int, len(in.Steps))
	for i := range idx {
		idx[i] = i
	}
	return head + coqList(idx, func(i int) string {
		st, so := in.Steps[i], obs.Steps[i]
		clPos, hdr, nonempty := c06BodyFlags(st.Body)
		return fmt.Sprintf("(HStep %s %s %s %s %s %s %s %s %s %s %s %d %d %s %s %s %s %s %s %s %s)",
			coqBytesList(bsList(in.Ops[st.Op].Declared)), coqBytesList(bsList(so.Consumes)), coqBytesList(bsList(so.Keys)),
			coqBool(clPos), coqBool(hdr), coqBool(nonempty), coqBool(so.HasBody),
			coqBytesList(bsList(st.CT)), coqBytes(string(so.Asked)), c06OptBytes(so.Parse), c06OptBytes(so.Reparse), st.Entry,
			c06Kind(in.Ops[st.Op].Params), c06OptStatus(so.FormSt),
			c06OptStatus(so.Hist.Status), c06OptBytes(so.Hist.Cons), coqBool(so.HistRan),
			c06OptStatus(so.Fresh.Status), c06OptBytes(so.Fresh.Cons), coqBool(so.FreshRan), coqBool(!so.AccBad))
	})
}

func (c06) Coq(inAny any, obsAny any) string {
	in, obs := inAny.(c06In), obsAny.(c06Obs)
	if in.Kind == "hist" {
		return c06CoqHist(in, obs)
	}
	if obs.RouteMiss {
		return "CGate [] [] [] [] [] false false false true [] [] None None None None None None None 0 None false 0 None None true"
	}
	clPos, hdr, nonempty := c06BodyFlags(in.Body)
	return fmt.Sprintf("CGate %s %s %s %s %s %s %s %s %s %s %s %s %s %s %s %s %s %s %d %s %s %d %s %s %s",
		coqBytesList(bsList(in.Declared)), coqBytes(string(in.Default)), coqBytesList(c06APIConsumers(in)),
		coqBytesList(bsList(obs.Consumes)), coqBytesList(bsList(obs.Keys)),
		coqBool(clPos), coqBool(hdr), coqBool(nonempty), coqBool(obs.HasBody),
		coqBytesList(bsList(in.CT)), coqBytes(string(obs.Asked)),
		c06OptBytes(obs.Parse), c06OptBytes(obs.Reparse), c06OptBytes(obs.CTImpl),
		c06OptStatus(obs.T.Status), c06OptBytes(obs.T.Cons), c06OptStatus(obs.U.Status), c06OptBytes(obs.U.Cons),
		obs.HStatus, c06OptBytes(obs.HCons), coqBool(obs.HRan),
		c06Kind(in.Params), c06OptStatus(obs.FormSt), c06OptBytes(obs.UPicked), coqBool(!obs.AccBad))
}

func c06Kind(params string) int {
	switch params {
	case "none":
		return 1
	case "pqh":
		return 2
	case "form":
		return 3
	}
	return 0
}

// the media types a consumer is registered for on the API: the case's list, plus JSON (untyped.NewAPI registers it)
func c06APIConsumers(in c06In) []string {
	out := []string{"application/json"}
	for _, mt := range in.Registered {
		if string(mt) != "application/json" {
			out = append(out, string(mt))
		}
	}
	return out
}

func (c06) Classify(inAny any, obsAny any) []string { return nil }

// c06HistCategory: number of requests, whether two of them address one path under different methods, how many different
// consumes lists are met, the entry points used, the answers.
func c06HistCategory(in c06In, obs c06Obs) (string, bool) {
	paths := map[string]map[string]bool{}
	lists := map[string]bool{}
	entries := map[int]bool{}
	for _, st := range in.Steps {
		op := in.Ops[st.Op]
		if paths[op.Path] == nil {
			paths[op.Path] = map[string]bool{}
		}
		paths[op.Path][op.Method] = true
		lists[strings.Join(bsList(op.Declared), ",")] = true
		entries[st.Entry] = true
	}
	same := "other-paths"
	for _, ms := range paths {
		if len(ms) > 1 {
			same = "same-path"
		}
	}
	var es, as []string
	for e := range entries {
		es = append(es, []string{"typed", "untyped", "handler"}[e])
	}
	sort.Strings(es)
	seen := map[string]bool{}
	bodies := 0
	for _, so := range obs.Steps {
		a := fmt.Sprint(so.Hist.Status)
		if so.Hist.Cons != nil {
			a = "decoded"
		}
		if so.HasBody {
			bodies++
		}
		if !seen[a] {
			seen[a] = true
			as = append(as, a)
		}
	}
	sort.Strings(as)
	kinds := map[string]bool{}
	for _, st := range in.Steps {
		kinds[in.Ops[st.Op].Params] = true
	}
	cat := fmt.Sprintf("hist/steps%d/%s/lists%d/kinds%d/%s/%s", len(in.Steps), same, len(lists), len(kinds), strings.Join(es, "+"), strings.Join(as, "+"))
	return cat, len(in.Steps) >= 2 && len(lists) >= 2 && bodies >= 2
}

func (c06) Category(inAny any, obsAny any) (string, bool) {
	in, obs := inAny.(c06In), obsAny.(c06Obs)
	if in.Kind == "hist" {
		return c06HistCategory(in, obs)
	}
	wild, params := false, false
	for _, e := range obs.Consumes {
		if strings.Contains(string(e), "*") {
			wild = true
		}
		if strings.Contains(string(e), ";") {
			params = true
		}
	}
	hdr := "valid"
	switch {
	case len(in.CT) == 0:
		hdr = "absent"
	case obs.Parse == nil:
		hdr = "malformed"
	case len(in.CT) > 1:
		hdr = "duplicate"
	case strings.Contains(string(in.CT[0]), ";"):
		hdr = "params"
	}
	for _, l := range in.CT {
		if strings.Contains(string(l), ",") {
			hdr = "comma-" + hdr
			break
		}
	}
	lst := fmt.Sprintf("%dentries", len(obs.Consumes))
	if wild {
		lst += "+wild"
	}
	if params {
		lst += "+params"
	}
	if c06HasNear(in.Declared, Bs(c06NearBase(in.Default))) {
		lst += "+near" // a declared entry spells the default (JSON when there is none) nearly
	}
	if in.Default == "" {
		lst += "/nodefault"
	}
	sig, size, mode := c06BodySpec(in.Body)
	switch {
	case size == 1:
		sig += "+one-byte"
	case size > 0:
		sig += "+sized"
	}
	if mode != "" {
		sig += "+" + mode
	}
	for _, l := range in.CT {
		if v := strings.ToLower(string(l)); strings.Contains(v, "charset=") && !strings.Contains(v, "charset=utf-8") && !strings.Contains(v, "charset=\"utf-8\"") {
			hdr += "+other-charset"
			break
		}
	}
	if len(in.Accept) > 0 {
		if obs.AccBad {
			hdr += "+accept-unsatisfiable"
		} else {
			hdr += "+accept-ok"
		}
	}
	cat := fmt.Sprintf("%s/%s/%s/%s/%d", in.Method, sig, hdr, lst, obs.HStatus)
	if in.Params != "" {
		cat = "params-" + in.Params + "/" + cat
	}
	return cat, obs.HasBody && (len(obs.Consumes) >= 2 || wild)
}
