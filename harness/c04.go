//go:build verif && (c04 || allprops)

package main

import (
	"bufio"
	"bytes"
	"encoding/json"
	"fmt"
	"io"
	"math/rand"
	"mime"
	"mime/multipart"
	"net/textproto"
	"net/http"
	"net/http/httptest"
	"os"
	"sort"
	"strings"
	"sync"
	"crypto/sha256"

	"github.com/go-openapi/loads"
	"github.com/go-openapi/runtime"
	"github.com/go-openapi/runtime/client"
	"github.com/go-openapi/runtime/middleware"
	"github.com/go-openapi/runtime/middleware/untyped"
	"github.com/go-openapi/runtime/security"
	"github.com/go-openapi/strfmt"
)

// C04 — client and server agree. One case = one operation of a generated description + one tuple of values.
// The real client transport builds the request; it is serialised with req.Write, re-read with http.ReadRequest
// and served by the real middleware built from the same description; the handler records what it received
// and answers with a status, a header and a body which the caller's response reader must see intact.

type c04In struct {
	BasePath string `json:"base_path"`
	Method   string `json:"method"`
	Template string `json:"template"` // uses {p1} and optionally {p2}
	P1       Bs     `json:"p1"`
	P2       Bs     `json:"p2"`
	HasQ     bool   `json:"has_q"`
	Q1       Bs     `json:"q1"`
	QM       []Bs   `json:"qm,omitempty"`
	QN       int64  `json:"qn"`
	HasQN    bool   `json:"has_qn"`
	HasH     bool   `json:"has_h"`
	H        Bs     `json:"h"`
	Body     string `json:"body"` // none | form | multipart | json
	F1       Bs     `json:"f1"`
	FM       []Bs   `json:"fm,omitempty"`
	File     Bs     `json:"file"`
	FileName string `json:"file_name"`
	JSON     Bs     `json:"json"` // a string value sent as the JSON body
	Auth     bool   `json:"auth"`
	Produces string `json:"produces"` // json | text
	RespBody Bs     `json:"resp_body"`
	RespHdr  Bs     `json:"resp_hdr"`
	Seq      []c04Step `json:"seq,omitempty"`        // kind seq: successive calls against ONE server whose templates overlap
	ConsAlt  bool   `json:"consumes_alt,omitempty"` // the operation also lists application/json after its form media type
	FileSkip int    `json:"file_skip,omitempty"`    // the upload is a seekable reader handed over after this many bytes were already read
	Wire     string `json:"wire,omitempty"`     // "" = request serialised and re-parsed in process; "tcp" = a real loopback HTTP server and the default transport
	RespPad  int    `json:"resp_pad,omitempty"` // the response body is followed by this many padding bytes (large bodies are streamed by a real transport)
	Echo     int    `json:"echo,omitempty"`     // kind mp: the same upload is made once before, and what went over the wire then (the whole multipart body, delimiter lines included) is this call's file (1) or form field (2)
	RespCT   string `json:"resp_ct,omitempty"`  // the handler's responder sets this Content-Type itself (a type the operation does not list) and writes the body raw
	BSeq     []c04BStep `json:"bseq,omitempty"` // kind bseq: calls on ONE server of an operation with an optional body and one with an optional file, sent or left out
	AuthQ    bool   `json:"auth_q,omitempty"`   // the credential is an API key in the QUERY, under the name of the form field f1 (the form field must still arrive as set)
	Sign     bool   `json:"sign,omitempty"`     // the auth writer is a request-signing one: it reads the body through GetBody() before setting its header
	Stream   int    `json:"stream,omitempty"`   // body kind json only: 0 = a value the producer serialises, 1 = an io.Reader over the serialised bytes, 2 = an io.ReadCloser
	BigFile  int    `json:"big_file,omitempty"` // multipart only: the upload is this many bytes derived from FileSeed (compared by digest)
	FileSeed int64  `json:"file_seed,omitempty"`
	Kind     string `json:"kind,omitempty"`     // "hdr": one header parameter named HName with value H (any bytes), sent in process; the line on the wire is observed
	HName    string `json:"h_name,omitempty"`   // declared name of the header parameter (default X-H)
	Par      []c04In `json:"par,omitempty"`     // kind par: these calls are submitted at the same time, each against its own server
	// kind "mp": POST with a multipart body (form field f1 = F1, file up = File after FileSkip, any bytes); the document on the wire is observed.
	// kind "mpread": the document the real multipart.Writer renders from MpParts with boundary MpBoundary, changed by MpMut, is read by the real multipart.Reader.
	MpBoundary string      `json:"mp_boundary,omitempty"`
	MpParts    []c04MpPart `json:"mp_parts,omitempty"`
	MpMut      string      `json:"mp_mut,omitempty"` // "" | trunc | lf | lf-first | preamble | junk-before | pad | noeol | epilogue | one-dash | no-final | slow
	MpPos      int         `json:"mp_pos,omitempty"`
}

// c04MpPart is one part handed to the real multipart.Writer: header fields (distinct names) and content.
type c04MpPart struct {
	H [][2]string `json:"h"`
	C Bs          `json:"c"`
}

// c04Step is one call of a history: operation 0 is GET <prefix>/{p1}, operation 1 is GET <prefix>/{p1}/{p2}.
type c04Step struct {
	Op int `json:"op"`
	P1 Bs  `json:"p1"`
	P2 Bs  `json:"p2"`
}

// c04BStep is one call of a bseq history: Op 0 = POST <prefix>/b with an optional json body, Op 1 = POST <prefix>/u with a
// form field and an optional file. Send says whether the optional part is supplied in this call.
type c04BStep struct {
	Op   int  `json:"op"`
	Send bool `json:"send"`
	Val  Bs   `json:"val"`
}

type c04StepObs struct {
	Err    string `json:"err,omitempty"`
	RanOp  int    `json:"ran_op"` // -1 = no handler ran
	P1, P2 Bs
	Code   int `json:"code"`
}

type c04Obs struct {
	SeqObs []c04StepObs `json:"seq_obs,omitempty"`
	ParObs []c04Obs     `json:"par_obs,omitempty"`
	EchoVal  Bs         `json:"echo_val,omitempty"`  // kind mp with echo: the value derived from the earlier call's wire bytes
	WireHead Bs         `json:"wire_head,omitempty"` // kind hdr: the serialised request head
	MpDoc      Bs       `json:"mp_doc,omitempty"`      // kind mp: the request body as the server got it (only when at most 20 kB); kind mpread: the document read
	MpBoundary Bs       `json:"mp_boundary,omitempty"` // kind mp: the boundary parameter of the Content-Type the server got
	MpSeen     bool     `json:"mp_seen,omitempty"`     // kind mp: the body was captured
	MpReadOK   bool     `json:"mp_read_ok,omitempty"`  // kind mpread: the real Reader reached the end without an error
	MpRead     []Bs     `json:"mp_read,omitempty"`     // kind mpread: the contents of the parts it returned
	Signed Bs           `json:"signed,omitempty"` // what GetBody() gave the signing auth writer
	SignCalled bool     `json:"sign_called,omitempty"`
	Panicked  bool   `json:"panicked,omitempty"`
	Panic     string `json:"panic,omitempty"`
	SubmitErr string `json:"submit_err,omitempty"`
	Ran       bool   `json:"ran"`
	Status    int    `json:"server_status_when_not_run,omitempty"`
	Recv      map[string][]Bs `json:"recv,omitempty"` // what the handler received, by parameter
	AuthSeen  Bs     `json:"auth_seen,omitempty"`
	SeenCode  int    `json:"seen_code"`
	SeenHdr   Bs     `json:"seen_hdr"`
	SeenBody  Bs     `json:"seen_body"`
	Target    Bs     `json:"request_target,omitempty"`
}

type c04 struct{}

func init() { register(c04{}) }

func (c04) ID() string        { return "C04" }
func (c04) CoqModule() string { return "Check_C04" }
func (c04) Rule() string {
	return "operations from 5 templates x 4 base paths x {POST,PUT,GET} x body kinds {none, urlencoded form, multipart with file, json} x produces {json,text}; " +
		"values drawn from a corpus of hostile strings (slash, percent, plus, space, question mark, hash, colon, star, braces, quotes, non-ASCII, backslash, CR/LF-free header values) and random bytes; " +
		"int64 boundary values; repeated query/form values; file contents of length 0..5000; with/without client auth writer (header-only or a signing one that reads GetBody first); json bodies produced, or streamed as io.Reader / io.ReadCloser; histories of calls on one server; 4-8 uploads of 40 kB..3 MiB in flight at the same time (compared by digest); multipart framing (1 case in 10): the body on the wire against the model writer and reader, field and file contents empty, CR/LF heavy, with dashes, with line end + dashes + a prefix of / a full-length boundary look-alike, starting like a delimiter line, ending in a piece of a delimiter, lengths around 512 and 4096, binary; the model reader against the real multipart.Reader (1 case in 20) on 0-3 parts written by the real Writer with seven boundaries, contents containing the real delimiter followed by every kind of byte, as written or damaged (cut, bare LF line ends, preamble, padding, no final line end, epilogue, one dash, no closing delimiter, one byte at a time). Non-trivial: at least one supplied value contains a byte outside [A-Za-z0-9]."
}

func (c04) Decode(raw json.RawMessage) (any, error) {
	var in c04In
	err := json.Unmarshal(raw, &in)
	return in, err
}

func (c04) Enumerate(string) []any { return nil }

var c04Hostile = []string{"a/b", "a%b", "a?b=c&d", "a#b", "{id}", "{p2}", "a+b", "a b", "\"q\"", "<s>", "é√", "a\\b", ":", "*", "#", ":x", "*w", "a:b", "a*b", "a=b", "a;b", "a,b", "%2F", "%25", "%", "..x", "x..", "a/../b", "~", "$", "@", "!", "'", "(", ")", "日本", "a\tb", "x", "abc", "0", "-1", "+", " lead", "trail ", "%zz", "&", "="}
var c04Templates = []string{"/r/{p1}", "/r/{p1}/x/{p2}", "/{p1}/s", "/r/{p1}/{p2}", "/deep/a/b/{p1}"}
var c04Bases = []string{"", "/api", "/a/b", "/"}
var c04Ints = []int64{0, 1, -1, 9223372036854775807, -9223372036854775808, 2147483648, -2147483649, 42}

func c04Val(r *rand.Rand, headerSafe bool) Bs {
	var v string
	switch r.Intn(6) {
	case 0:
		n := 1 + r.Intn(12)
		b := make([]byte, n)
		for i := range b {
			if headerSafe {
				b[i] = byte(0x21 + r.Intn(0x7e-0x21))
			} else {
				b[i] = byte(1 + r.Intn(255))
			}
		}
		v = string(b)
	case 1:
		v = c04Hostile[r.Intn(len(c04Hostile))] + c04Hostile[r.Intn(len(c04Hostile))]
	default:
		v = c04Hostile[r.Intn(len(c04Hostile))]
	}
	if headerSafe { // HTTP itself strips optional whitespace around a field value and forbids control bytes
		v = strings.TrimSpace(strings.ReplaceAll(v, "\t", "_"))
		if v == "" {
			v = "h"
		}
	}
	return Bs(v)
}

func c04PathVal(r *rand.Rand) Bs {
	for {
		v := c04Val(r, false)
		if v != "" && v != "." && v != ".." { // outside the guarantee by design
			return v
		}
	}
}

func (c04) Gen(r *rand.Rand, tier string, i int) any {
	if i%25 == 7 { // uploads in flight at the same time: each handler must get its own file
		var in c04In
		k := 4 + r.Intn(5)
		for j := 0; j < k; j++ {
			in.Par = append(in.Par, c04In{BasePath: c04Bases[r.Intn(len(c04Bases))], Method: "POST", Template: c04Templates[r.Intn(len(c04Templates))],
				P1: c04PathVal(r), P2: c04PathVal(r), Body: "multipart", F1: c04Val(r, false), FileName: "f.bin", Produces: "json",
				BigFile: []int{40000, 300000, 1 << 20, 3 << 20}[r.Intn(4)], FileSeed: r.Int63(), RespBody: "ok", RespHdr: "h",
				Auth: r.Intn(4) == 0, Sign: true})
		}
		if r.Intn(5) == 0 { // one upload beyond the 32 MiB the server's form parser keeps in memory
			in.Par[0].BigFile = []int{32<<20 + 1, 33<<20 + 17, 40 << 20}[r.Intn(3)]
		}
		return in
	}
	if i%20 == 13 { // optional parts supplied and left out over a history on one server
		in := c04In{Kind: "bseq"}
		for j := 2 + r.Intn(5); j > 0; j-- {
			v := c04Val(r, false)
			if v == "" {
				v = "v"
			}
			in.BSeq = append(in.BSeq, c04BStep{Op: r.Intn(2), Send: r.Intn(2) == 0, Val: Bs(strings.ToValidUTF8(string(v), "?"))})
		}
		return in
	}
	if i%10 == 8 { // one header parameter; the line on the wire is compared with the model's writer and reader
		return c04In{Kind: "hdr", Method: "GET", Template: "/r/{p1}", P1: "a", Body: "none", Produces: "json", RespBody: "ok", RespHdr: "h",
			HasH: true, HName: c04HNames[r.Intn(len(c04HNames))], H: c04HdrVal(r)}
	}
	if i%10 == 6 { // multipart framing: the document on the wire is compared with the model's writer and reader
		in := c04In{Kind: "mp", Method: "POST", Template: "/r/{p1}", P1: "a", Body: "multipart", Produces: "json", RespBody: "ok", RespHdr: "h",
			FileName: "f.bin", F1: c04MpVal(r, 300), File: c04MpVal(r, 5000)}
		if r.Intn(4) == 0 && len(in.File) > 0 {
			in.FileSkip = 1 + r.Intn(len(in.File))
		}
		if r.Intn(4) == 0 {
			in.Echo, in.FileSkip = 1+r.Intn(2), 0
		}
		return in
	}
	if i%20 == 5 { // the model reader against the real multipart.Reader on documents with delimiter look-alikes and damage
		return c04GenMpRead(r)
	}
	if i%10 == 9 {
		in := c04In{BasePath: c04Bases[r.Intn(len(c04Bases))], Method: "GET", Template: []string{"/files", "/a/b", "/r"}[r.Intn(3)], Produces: "json"}
		pool := []Bs{c04PathVal(r), c04PathVal(r), "a", "b", "a/b", "x"}
		for j := 2 + r.Intn(4); j > 0; j-- {
			st := c04Step{Op: r.Intn(2), P1: pool[r.Intn(len(pool))], P2: pool[r.Intn(len(pool))]}
			if r.Intn(3) == 0 && len(in.Seq) > 0 { // the single value of this call spells the two values of the previous one
				prev := in.Seq[len(in.Seq)-1]
				st = c04Step{Op: 0, P1: prev.P1 + "/" + prev.P2}
			}
			in.Seq = append(in.Seq, st)
		}
		return in
	}
	in := c04In{
		BasePath: c04Bases[r.Intn(len(c04Bases))],
		Method:   []string{"POST", "PUT", "GET"}[r.Intn(3)],
		Template: c04Templates[r.Intn(len(c04Templates))],
		P1:       c04PathVal(r), P2: c04PathVal(r),
		HasQ: r.Intn(3) != 0, Q1: c04Val(r, false),
		HasQN: r.Intn(2) == 0, QN: c04Ints[r.Intn(len(c04Ints))],
		HasH: r.Intn(2) == 0, H: c04Val(r, true),
		Auth:     r.Intn(3) == 0,
		Produces: []string{"json", "text"}[r.Intn(2)],
		RespBody: Bs(strings.ToValidUTF8(string(c04Val(r, false)), "?")), RespHdr: c04Val(r, true),
		F1: c04Val(r, false), JSON: Bs(strings.ToValidUTF8(string(c04Val(r, false)), "?")),
		FileName: []string{"f.txt", "a b.bin", "q\"uote.txt", "dir/inner.dat", "back\\slash.txt"}[r.Intn(5)],
	}
	for j := r.Intn(4); j > 0; j-- {
		v := c04Val(r, false)
		if r.Intn(5) == 0 {
			v = "" // an empty item among the repeated values
		}
		in.QM = append(in.QM, v)
	}
	for j := r.Intn(4); j > 0; j-- {
		v := c04Val(r, false)
		if r.Intn(5) == 0 {
			v = ""
		}
		in.FM = append(in.FM, v)
	}
	if r.Intn(2) == 0 { // file names over an alphabet of quoting-relevant bytes
		const alpha = "ab.\\\"();=,:@<>[]? /\xc3\xa9"
		n := 1 + r.Intn(10)
		b := make([]byte, n)
		for j := range b {
			b[j] = alpha[r.Intn(len(alpha))]
		}
		in.FileName = string(b) + ".t"
	}
	in.ConsAlt = r.Intn(3) == 0
	in.Sign = in.Auth && r.Intn(2) == 0
	in.AuthQ = in.Auth && r.Intn(3) == 0
	if r.Intn(5) == 0 {
		in.RespCT = []string{"text/html; charset=utf-8", "text/html", "text/html;x=1"}[r.Intn(3)]
	}
	if in.AuthQ {
		in.Sign = false
	}
	in.Stream = r.Intn(3)
	if r.Intn(4) == 0 {
		in.Wire = "tcp"
		if r.Intn(3) == 0 {
			in.Wire = "h2"
		}
		in.RespPad = []int{0, 1500, 5000, 70000, 300000}[r.Intn(5)]
	}
	if in.Method != "GET" {
		in.Body = []string{"none", "form", "multipart", "json"}[r.Intn(4)]
	} else {
		in.Body = "none"
	}
	n := []int{0, 1, 11, 511, 512, 513, 5000}[r.Intn(7)]
	fb := make([]byte, n)
	for j := range fb {
		fb[j] = byte(r.Intn(256))
	}
	in.File = Bs(fb)
	if r.Intn(3) == 0 && len(in.File) > 0 {
		in.FileSkip = 1 + r.Intn(len(in.File)) // a seekable source handed over after a prefix was read
	}
	return in
}

const c04Hex = "0123456789abcdef"

func c04RandHex(r *rand.Rand, n int) string {
	b := make([]byte, n)
	for i := range b {
		b[i] = c04Hex[r.Intn(16)]
	}
	return string(b)
}

func c04RandOver(r *rand.Rand, alpha string, n int) string {
	b := make([]byte, n)
	for i := range b {
		b[i] = alpha[r.Intn(len(alpha))]
	}
	return string(b)
}

func c04RandBin(r *rand.Rand, n int) string {
	b := make([]byte, n)
	for i := range b {
		b[i] = byte(r.Intn(256))
	}
	return string(b)
}

// c04MpVal draws a form value or file content for the multipart framing cases: the bytes the framing is sensitive to.
// (The writer's boundary is 60 random hex digits, unknown here: these are look-alikes, not collisions.) big bounds the long ones.
func c04MpVal(r *rand.Rand, big int) Bs {
	switch r.Intn(12) {
	case 0:
		return ""
	case 1: // CR and LF heavy
		return Bs(c04RandOver(r, "\r\n\r\n-ab", r.Intn(40)))
	case 2: // dashes
		return Bs(c04RandOver(r, "--x", 1+r.Intn(12)) + "--" + c04RandOver(r, "-\r\ny", r.Intn(6)))
	case 3: // line end, two dashes, a prefix of a plausible boundary
		return Bs(c04RandOver(r, "ab", r.Intn(4)) + "\r\n--" + c04RandHex(r, r.Intn(60)) + c04RandOver(r, "\r\n- z", r.Intn(5)))
	case 4: // line end, two dashes, boundary-like hex of full length, then what would end a delimiter line
		return Bs(c04RandOver(r, "ab", r.Intn(4)) + "\r\n--" + c04RandHex(r, 60) + []string{"", "--", "\r\n", "--\r\n", " \r\n", "x"}[r.Intn(6)] + c04RandOver(r, "ab\r\n", r.Intn(4)))
	case 5: // starts like a delimiter line
		return Bs("--" + c04RandHex(r, []int{0, 1, 30, 60}[r.Intn(4)]) + []string{"", "\r\n", "--\r\n"}[r.Intn(3)] + c04RandOver(r, "ab", r.Intn(3)))
	case 6: // ends in a piece of a delimiter
		return Bs(c04RandOver(r, "abc", r.Intn(5)) + []string{"\r", "\r\n", "\r\n-", "\r\n--", "\n", "\r\r", "\r\n--" + c04RandHex(r, 8)}[r.Intn(7)])
	case 7: // a whole look-alike document inside the value
		return Bs("x\r\n--" + c04RandHex(r, 60) + "\r\nContent-Disposition: form-data; name=\"f1\"\r\n\r\ninjected\r\n--" + c04RandHex(r, 60) + "--\r\n")
	case 8: // lengths around the block sizes of the writer (512-byte sniffing) and of the reader (4096-byte peek buffer)
		n := []int{511, 512, 513, 1024, 3890, 3950, 4000, 4050, 4096, 4097, 4200}[r.Intn(11)] + r.Intn(3) - 1
		if n > big {
			n = big/2 + r.Intn(big/2)
		}
		return Bs(c04RandOver(r, "\r\n-a", n))
	case 9:
		n := 1 + r.Intn(600)
		if n > big {
			n = big
		}
		return Bs(c04RandBin(r, n))
	case 10: // only line ends
		return Bs(strings.Repeat("\r\n", r.Intn(4)) + []string{"", "\r", "\n"}[r.Intn(3)])
	}
	return Bs(c04RandBin(r, 1+r.Intn(12)))
}

var c04MpBoundaries = []string{"B", "abc123", "x-y", "a b", "0123456789abcdef0123456789abcdef0123456789abcdef0123456789ab", "--", "q'()+_,-./:=?z"}

// c04GenMpRead: parts whose contents contain the real boundary in every position that matters, then one kind of damage.
func c04GenMpRead(r *rand.Rand) c04In {
	b := c04MpBoundaries[r.Intn(len(c04MpBoundaries))]
	in := c04In{Kind: "mpread", MpBoundary: b}
	content := func() Bs {
		after := []string{"", "\r\n", "--", "--\r\n", " \t\r\n", "-", "-x", "x", "\n", "\r", " x\r\n", "\t", "--  \r\n"}[r.Intn(13)]
		tail := []string{"", "k: v\r\n\r\nw", "y", "\r\n"}[r.Intn(4)]
		switch r.Intn(8) {
		case 0:
			return Bs(c04RandOver(r, "ab\r\n-", r.Intn(6)) + "\r\n--" + b + after + tail)
		case 1:
			return Bs("--" + b + after + tail)
		case 2:
			return Bs(c04RandOver(r, "ab", r.Intn(3)) + "\n--" + b + after + tail)
		case 3:
			return Bs(c04RandOver(r, "ab", r.Intn(3)) + "\r\n--" + b[:r.Intn(len(b)+1)] + c04RandOver(r, "\r\n-", r.Intn(4)))
		case 4:
			return Bs("\r\n--" + b + "x\r\n--" + b + after + tail)
		case 5:
			return Bs(c04RandOver(r, "\r\n-a", 4060+r.Intn(70)) + "\r\n--" + b + after + tail)
		case 6:
			return ""
		}
		return c04MpVal(r, 300)
	}
	hdrs := [][][2]string{
		{{"Content-Disposition", "form-data; name=\"a\""}},
		{{"Content-Disposition", "form-data; name=\"up\"; filename=\"f.bin\""}, {"Content-Type", "application/octet-stream"}},
		{},
		{{"Content-Disposition", "form-data; name=\"a\""}, {"X-Extra", "1"}},
	}
	for k := []int{0, 1, 1, 2, 2, 3}[r.Intn(6)]; k > 0; k-- {
		in.MpParts = append(in.MpParts, c04MpPart{H: hdrs[r.Intn(len(hdrs))], C: content()})
	}
	in.MpMut = []string{"", "", "", "trunc", "lf", "lf-first", "preamble", "junk-before", "pad", "noeol", "epilogue", "one-dash", "no-final", "slow"}[r.Intn(14)]
	in.MpPos = r.Intn(1 << 16)
	return in
}

// c04MpHeaderBlock is the text of the header lines the Writer emits for a part (names sorted, as CreatePart does).
func c04MpHeaderBlock(h [][2]string) string {
	hs := append([][2]string(nil), h...)
	sort.Slice(hs, func(i, j int) bool { return hs[i][0] < hs[j][0] })
	var sb strings.Builder
	for _, kv := range hs {
		sb.WriteString(kv[0] + ": " + kv[1] + "\r\n")
	}
	return sb.String()
}

type c04SlowReader struct{ r io.Reader }

func (s c04SlowReader) Read(p []byte) (int, error) {
	if len(p) > 1 {
		p = p[:1]
	}
	return s.r.Read(p)
}

// c04RunMpRead: the real Writer renders the parts, the document is damaged as MpMut says, the real Reader reads it as
// ReadForm does (NextPart, each part to its end).
func c04RunMpRead(in c04In, obs *c04Obs) {
	var buf bytes.Buffer
	w := multipart.NewWriter(&buf)
	if err := w.SetBoundary(in.MpBoundary); err != nil {
		panic("boundary: " + err.Error())
	}
	for _, p := range in.MpParts {
		h := textproto.MIMEHeader{}
		for _, kv := range p.H {
			h[kv[0]] = []string{kv[1]}
		}
		pw, err := w.CreatePart(h)
		if err != nil {
			panic(err)
		}
		if _, err := pw.Write([]byte(p.C)); err != nil {
			panic(err)
		}
	}
	if err := w.Close(); err != nil {
		panic(err)
	}
	doc := buf.String()
	first := "--" + in.MpBoundary + "\r\n"
	final := "\r\n--" + in.MpBoundary + "--\r\n"
	switch in.MpMut {
	case "trunc": // cut inside the last part's content or the closing delimiter (never inside a header block)
		lo := len(doc) - len(final)
		if n := len(in.MpParts); n > 0 && !strings.Contains(string(in.MpParts[n-1].C), "--"+in.MpBoundary) { // a content with a delimiter in it may hold header lines
			lo -= len(in.MpParts[n-1].C)
		}
		doc = doc[:lo+in.MpPos%(len(doc)-lo)]
	case "lf":
		doc = strings.ReplaceAll(doc, "\r\n", "\n")
	case "lf-first":
		if strings.HasPrefix(doc, first) {
			doc = "--" + in.MpBoundary + "\n" + doc[len(first):]
		}
	case "preamble":
		doc = "this is a preamble\r\n--" + in.MpBoundary + "x\r\n\r\nstill preamble\r\n" + doc
	case "junk-before":
		doc = "junk" + doc
	case "pad":
		if strings.HasPrefix(doc, first) {
			doc = "--" + in.MpBoundary + " \t \r\n" + doc[len(first):]
		}
		doc = strings.TrimSuffix(doc, "--\r\n") + "--\t \r\n"
	case "noeol":
		doc = strings.TrimSuffix(doc, "\r\n")
	case "epilogue":
		doc += "epilogue\r\n--" + in.MpBoundary + "\r\n"
	case "one-dash":
		doc = strings.TrimSuffix(doc, "-\r\n") + "\r\n"
	case "no-final":
		doc = strings.TrimSuffix(doc, final)
	}
	obs.MpDoc = Bs(doc)
	var src io.Reader = strings.NewReader(doc)
	if in.MpMut == "slow" {
		src = c04SlowReader{src}
	}
	mr := multipart.NewReader(src, in.MpBoundary)
	for {
		p, err := mr.NextPart()
		if err == io.EOF {
			obs.MpReadOK = true
			return
		}
		if err != nil {
			return
		}
		c, err := io.ReadAll(p)
		if err != nil {
			return
		}
		obs.MpRead = append(obs.MpRead, Bs(c))
	}
}

func c04HName(in c04In) string {
	if in.HName == "" {
		return "X-H"
	}
	return in.HName
}

var c04HNames = []string{"X-H", "x-low-er", "X-MIXED-Case", "x_u.n~d", "X-9-a--b", "accept-Thing"}

// c04HdrVal draws header values over the bytes that matter on the wire: white space at the ends and inside, CR and LF,
// control bytes, DEL, bytes from 128 up, colons and commas.
func c04HdrVal(r *rand.Rand) Bs {
	const alpha = "ab:,;=\"  \t\t\r\n\x00\x01\x1f\x7f\x80\xc3\xa9\xff~!"
	n := r.Intn(10)
	b := make([]byte, n)
	for i := range b {
		if r.Intn(3) == 0 {
			b[i] = alpha[r.Intn(len(alpha))]
		} else {
			b[i] = byte(0x21 + r.Intn(0x5e))
		}
	}
	switch r.Intn(6) {
	case 0:
		return Bs(" " + string(b))
	case 1:
		return Bs(string(b) + "\t ")
	}
	return Bs(b)
}

func c04Spec(in c04In) string {
	params := []string{`{"name":"p1","in":"path","type":"string","required":true}`}
	if strings.Contains(in.Template, "{p2}") {
		params = append(params, `{"name":"p2","in":"path","type":"string","required":true}`)
	}
	params = append(params, `{"name":"q1","in":"query","type":"string"}`,
		`{"name":"qm","in":"query","type":"array","items":{"type":"string"},"collectionFormat":"multi"}`,
		`{"name":"qn","in":"query","type":"integer","format":"int64"}`,
		fmt.Sprintf(`{"name":%q,"in":"header","type":"string"}`, c04HName(in)))
	consumes := `["application/json"]`
	switch in.Body {
	case "form":
		consumes = `["application/x-www-form-urlencoded"]`
		if in.ConsAlt {
			consumes = `["application/x-www-form-urlencoded","application/json"]`
		}
		params = append(params, `{"name":"f1","in":"formData","type":"string"}`,
			`{"name":"fm","in":"formData","type":"array","items":{"type":"string"},"collectionFormat":"multi"}`)
	case "multipart":
		consumes = `["multipart/form-data"]`
		if in.ConsAlt {
			consumes = `["multipart/form-data","application/json"]`
		}
		params = append(params, `{"name":"f1","in":"formData","type":"string"}`, `{"name":"up","in":"formData","type":"file"}`)
	case "json":
		params = append(params, `{"name":"body","in":"body","schema":{"type":"object"}}`)
	}
	produces := `["application/json"]`
	if in.Produces == "text" {
		produces = `["text/plain"]`
	}
	base := ""
	if in.BasePath != "" {
		bp, _ := json.Marshal(in.BasePath)
		base = `"basePath":` + string(bp) + `,`
	}
	sec := ""
	secdef := ""
	if in.Auth {
		sec = `"security":[{"key":[]}],`
		secdef = `"securityDefinitions":{"key":{"type":"apiKey","in":"header","name":"X-Key"}},`
		if in.AuthQ {
			secdef = `"securityDefinitions":{"key":{"type":"apiKey","in":"query","name":"f1"}},`
		}
	}
	tpl, _ := json.Marshal(in.Template)
	return fmt.Sprintf(`{"swagger":"2.0","info":{"title":"t","version":"1"},%s%s"paths":{%s:{%q:{%s"consumes":%s,"produces":%s,"parameters":[%s],"responses":{"201":{"description":"ok","schema":{"type":"string"}}}}}}}`,
		base, secdef, tpl, strings.ToLower(in.Method), sec, consumes, produces, strings.Join(params, ","))
}

func c04Consumes(in c04In) []string {
	first := map[string]string{"none": "application/json", "json": "application/json", "form": "application/x-www-form-urlencoded", "multipart": "multipart/form-data"}[in.Body]
	if in.ConsAlt && (in.Body == "form" || in.Body == "multipart") {
		return []string{first, "application/json"}
	}
	return []string{first}
}

// c04Seekable is an upload source that can seek (as *os.File does), handed over at its current position.
type c04Seekable struct {
	*bytes.Reader
	name string
}

func (c04Seekable) Close() error   { return nil }
func (f c04Seekable) Name() string { return f.name }

type c04Transport struct {
	h      http.Handler
	target *Bs
	head   *Bs
	mp     *c04Obs // kind mp: the body and its boundary are captured here
}

func (t c04Transport) RoundTrip(req *http.Request) (*http.Response, error) {
	var buf bytes.Buffer
	if err := req.Write(&buf); err != nil {
		return nil, err
	}
	if i := bytes.IndexByte(buf.Bytes(), '\r'); i > 0 {
		*t.target = Bs(buf.Bytes()[:i])
	}
	if t.head != nil {
		if i := bytes.Index(buf.Bytes(), []byte("\r\n\r\n")); i > 0 {
			*t.head = Bs(buf.Bytes()[:i+4])
		}
	}
	sreq, err := http.ReadRequest(bufio.NewReader(&buf))
	if err != nil {
		return nil, fmt.Errorf("server could not parse the request: %w", err)
	}
	if t.mp != nil { // the body as the server reads it (transfer coding already removed)
		b, rerr := io.ReadAll(sreq.Body)
		if rerr != nil {
			return nil, fmt.Errorf("server could not read the request body: %w", rerr)
		}
		sreq.Body = io.NopCloser(bytes.NewReader(b))
		if _, params, perr := mime.ParseMediaType(sreq.Header.Get("Content-Type")); perr == nil && len(b) <= 20000 {
			t.mp.MpDoc, t.mp.MpBoundary, t.mp.MpSeen = Bs(b), Bs(params["boundary"]), true
		}
	}
	rec := httptest.NewRecorder()
	t.h.ServeHTTP(rec, sreq)
	resp := rec.Result()
	resp.Request = req
	return resp, nil
}

func c04Strs(v interface{}) []Bs {
	switch x := v.(type) {
	case nil:
		return nil
	case string:
		return []Bs{Bs(x)}
	case *string:
		if x == nil {
			return nil
		}
		return []Bs{Bs(*x)}
	case []string:
		return toBs(x)
	case int64:
		return []Bs{Bs(fmt.Sprint(x))}
	case []interface{}:
		var out []Bs
		for _, e := range x {
			out = append(out, c04Strs(e)...)
		}
		return out
	}
	return []Bs{Bs(fmt.Sprintf("?%T:%v", v, v))}
}

func c04RunSeq(in c04In, obs *c04Obs) {
	bp := ""
	if in.BasePath != "" {
		b, _ := json.Marshal(in.BasePath)
		bp = `"basePath":` + string(b) + `,`
	}
	t1, _ := json.Marshal(in.Template + "/{p1}")
	t2, _ := json.Marshal(in.Template + "/{p1}/{p2}")
	doc := fmt.Sprintf(`{"swagger":"2.0","info":{"title":"t","version":"1"},%s"produces":["application/json"],"paths":{%s:{"get":{"parameters":[{"name":"p1","in":"path","type":"string","required":true}],"responses":{"200":{"description":"ok","schema":{"type":"string"}}}}},%s:{"get":{"parameters":[{"name":"p1","in":"path","type":"string","required":true},{"name":"p2","in":"path","type":"string","required":true}],"responses":{"200":{"description":"ok","schema":{"type":"string"}}}}}}}`, bp, t1, t2)
	spec, err := loads.Analyzed(json.RawMessage(doc), "")
	if err != nil {
		panic("spec: " + err.Error())
	}
	api := untyped.NewAPI(spec)
	var cur *c04StepObs
	mk := func(op int) runtime.OperationHandler {
		return runtime.OperationHandlerFunc(func(data interface{}) (interface{}, error) {
			m := data.(map[string]interface{})
			cur.RanOp = op
			if v, ok := m["p1"].(string); ok {
				cur.P1 = Bs(v)
			}
			if v, ok := m["p2"].(string); ok {
				cur.P2 = Bs(v)
			}
			return "ok", nil
		})
	}
	api.RegisterOperation("get", in.Template+"/{p1}", mk(0))
	api.RegisterOperation("get", in.Template+"/{p1}/{p2}", mk(1))
	h := middleware.Serve(spec, api) // ONE server for the whole history
	var tgt Bs
	for _, st := range in.Seq {
		so := c04StepObs{RanOp: -1}
		cur = &so
		rt := client.New("example.test", in.BasePath, []string{"http"})
		rt.Transport = c04Transport{h: h, target: &tgt}
		pattern := in.Template + "/{p1}"
		if st.Op == 1 {
			pattern = in.Template + "/{p1}/{p2}"
		}
		st := st
		_, err := rt.Submit(&runtime.ClientOperation{ID: "op", Method: "GET", PathPattern: pattern, Schemes: []string{"http"},
			ProducesMediaTypes: []string{"application/json"}, ConsumesMediaTypes: []string{"application/json"},
			Params: runtime.ClientRequestWriterFunc(func(req runtime.ClientRequest, _ strfmt.Registry) error {
				_ = req.SetPathParam("p1", string(st.P1))
				if st.Op == 1 {
					_ = req.SetPathParam("p2", string(st.P2))
				}
				return nil
			}),
			Reader: runtime.ClientResponseReaderFunc(func(resp runtime.ClientResponse, _ runtime.Consumer) (interface{}, error) {
				so.Code = resp.Code()
				return nil, nil
			})})
		if err != nil {
			so.Err = err.Error()
		}
		obs.SeqObs = append(obs.SeqObs, so)
	}
}

// c04RunBSeq: optional parts over a history. One server; each call supplies or leaves out the optional body / file; a part
// left out must not arrive (in particular not the one an earlier call supplied).
func c04RunBSeq(in c04In, obs *c04Obs) {
	doc := `{"swagger":"2.0","info":{"title":"t","version":"1"},"produces":["application/json"],"paths":{` +
		`"/b":{"post":{"consumes":["application/json"],"parameters":[{"name":"body","in":"body","schema":{"type":"object"}}],"responses":{"200":{"description":"ok","schema":{"type":"string"}}}}},` +
		`"/u":{"post":{"consumes":["multipart/form-data"],"parameters":[{"name":"f1","in":"formData","type":"string"},{"name":"up","in":"formData","type":"file"}],"responses":{"200":{"description":"ok","schema":{"type":"string"}}}}}}}`
	spec, err := loads.Analyzed(json.RawMessage(doc), "")
	if err != nil {
		panic("spec: " + err.Error())
	}
	api := untyped.NewAPI(spec)
	api.RegisterConsumer("multipart/form-data", runtime.DiscardConsumer)
	var cur *c04Obs
	mk := func(op int) runtime.OperationHandler {
		return runtime.OperationHandlerFunc(func(data interface{}) (interface{}, error) {
			cur.Ran = true
			cur.Recv = map[string][]Bs{}
			for k, v := range data.(map[string]interface{}) {
				switch x := v.(type) {
				case runtime.File:
					if x.Data != nil {
						b, _ := io.ReadAll(x.Data)
						cur.Recv["up"] = []Bs{c04Digest(b)}
					}
				case *runtime.File:
					if x != nil && x.Data != nil {
						b, _ := io.ReadAll(x.Data)
						cur.Recv["up"] = []Bs{c04Digest(b)}
					}
				case map[string]interface{}:
					if sv, ok := x["v"].(string); ok && k == "body" {
						cur.Recv["body"] = []Bs{Bs(sv)}
					}
				default:
					if s := c04Strs(v); !c04AllEmpty(s) {
						cur.Recv[k] = s
					}
				}
			}
			return "ok", nil
		})
	}
	api.RegisterOperation("post", "/b", mk(0))
	api.RegisterOperation("post", "/u", mk(1))
	h := middleware.Serve(spec, api) // ONE server for the whole history
	var tgt Bs
	for _, st := range in.BSeq {
		var so c04Obs
		cur = &so
		st := st
		rt := client.New("example.test", "", []string{"http"})
		rt.Transport = c04Transport{h: h, target: &tgt}
		op := &runtime.ClientOperation{ID: "op", Method: "POST", PathPattern: "/b", Schemes: []string{"http"},
			ProducesMediaTypes: []string{"application/json"}, ConsumesMediaTypes: []string{"application/json"},
			Reader: runtime.ClientResponseReaderFunc(func(resp runtime.ClientResponse, _ runtime.Consumer) (interface{}, error) {
				so.SeenCode = resp.Code()
				return nil, nil
			})}
		if st.Op == 1 {
			op.PathPattern, op.ConsumesMediaTypes = "/u", []string{"multipart/form-data"}
		}
		op.Params = runtime.ClientRequestWriterFunc(func(req runtime.ClientRequest, _ strfmt.Registry) error {
			if st.Op == 0 {
				if st.Send {
					return req.SetBodyParam(map[string]string{"v": string(st.Val)})
				}
				return nil
			}
			_ = req.SetFormParam("f1", "x")
			if st.Send {
				return req.SetFileParam("up", runtime.NamedReader("f.bin", bytes.NewReader([]byte(st.Val))))
			}
			return nil
		})
		if _, err := rt.Submit(op); err != nil {
			so.SubmitErr = err.Error()
		}
		obs.ParObs = append(obs.ParObs, so)
	}
}

// c04BSupplied: what a bseq call supplies.
func c04BSupplied(st c04BStep) map[string][]Bs {
	m := map[string][]Bs{}
	if st.Op == 1 {
		m["f1"] = []Bs{"x"}
	}
	if st.Send {
		if st.Op == 0 {
			m["body"] = []Bs{st.Val}
		} else {
			m["up"] = []Bs{c04Digest([]byte(st.Val))}
		}
	}
	return m
}

// Forms beyond the 32 MiB the server's parser keeps in memory are spilled to temporary files, which nobody removes: for the
// time of a parallel case the harness points TMPDIR at a fresh directory of its own (per process and per case, so that
// checks running side by side cannot touch each other's files) and removes it afterwards.
func c04OwnTmp() (restore func()) {
	d, err := os.MkdirTemp("", "verif-c04-spill-")
	if err != nil {
		return func() {}
	}
	old, had := os.LookupEnv("TMPDIR")
	_ = os.Setenv("TMPDIR", d)
	return func() {
		if had {
			_ = os.Setenv("TMPDIR", old)
		} else {
			_ = os.Unsetenv("TMPDIR")
		}
		_ = os.RemoveAll(d)
	}
}

func (c04) Run(inAny any) any {
	in := inAny.(c04In)
	if len(in.Par) > 0 {
		defer c04OwnTmp()()
		var obs c04Obs
		obs.ParObs = make([]c04Obs, len(in.Par))
		var wg sync.WaitGroup
		start := make(chan struct{})
		for i := range in.Par {
			wg.Add(1)
			go func(i int) {
				defer wg.Done()
				<-start
				obs.ParObs[i] = c04RunOne(in.Par[i])
			}(i)
		}
		close(start)
		wg.Wait()
		return obs
	}
	if in.Kind == "mp" && in.Echo > 0 {
		first := in
		first.Echo = 0
		o1 := c04RunOne(first)
		val := Bs("dump of an earlier request:\r\n") + o1.MpDoc
		second := first
		if in.Echo == 1 {
			second.File, second.FileSkip = val, 0
		} else {
			second.F1 = val
		}
		o2 := c04RunOne(second)
		o2.EchoVal = val
		return o2
	}
	return c04RunOne(in)
}

// c04File is the upload of a case: the literal bytes, or BigFile pseudo-random bytes from FileSeed.
func c04File(in c04In) []byte {
	if in.BigFile == 0 {
		return []byte(in.File)
	}
	b := make([]byte, in.BigFile)
	rand.New(rand.NewSource(in.FileSeed)).Read(b)
	return b
}

// c04Digest stands for a large content in the case file: equal digests and lengths = equal contents.
func c04Digest(b []byte) Bs {
	if len(b) <= 6000 {
		return Bs(b)
	}
	h := sha256.Sum256(b)
	return Bs(fmt.Sprintf("sha256:%x len:%d", h, len(b)))
}

type c04OnlyReader struct{ r io.Reader }

func (o c04OnlyReader) Read(p []byte) (int, error) { return o.r.Read(p) }

func c04RunOne(in c04In) c04Obs {
	var obs c04Obs
	if len(in.Seq) > 0 {
		obs.Panicked, obs.Panic = recoverTo(func() { c04RunSeq(in, &obs) })
		return obs
	}
	if in.Kind == "mpread" {
		obs.Panicked, obs.Panic = recoverTo(func() { c04RunMpRead(in, &obs) })
		return obs
	}
	if in.Kind == "bseq" {
		obs.Panicked, obs.Panic = recoverTo(func() { c04RunBSeq(in, &obs) })
		return obs
	}
	obs.Panicked, obs.Panic = recoverTo(func() {
		spec, err := loads.Analyzed(json.RawMessage(c04Spec(in)), "")
		if err != nil {
			panic("spec: " + err.Error())
		}
		api := untyped.NewAPI(spec)
		api.RegisterConsumer("application/x-www-form-urlencoded", runtime.DiscardConsumer)
		api.RegisterConsumer("multipart/form-data", runtime.DiscardConsumer)
		api.RegisterProducer("text/plain", runtime.TextProducer())
		if in.Auth {
			api.RegisterAuth("key", runtime.AuthenticatorFunc(func(p interface{}) (bool, interface{}, error) {
				var r *http.Request
				switch x := p.(type) {
				case *http.Request:
					r = x
				case *security.ScopedAuthRequest:
					r = x.Request
				}
				if in.AuthQ {
					if v := r.URL.Query().Get("f1"); v != "" {
						obs.AuthSeen = Bs(v)
						return true, "principal", nil
					}
					return false, nil, nil
				}
				if v := r.Header.Get("X-Key"); v != "" {
					obs.AuthSeen = Bs(v)
					return true, "principal", nil
				}
				return false, nil, nil
			}))
		}
		api.RegisterOperation(strings.ToLower(in.Method), in.Template, runtime.OperationHandlerFunc(func(data interface{}) (interface{}, error) {
			obs.Ran = true
			obs.Recv = map[string][]Bs{}
			for k, v := range data.(map[string]interface{}) {
				if f, ok := v.(runtime.File); ok {
					b, _ := io.ReadAll(f.Data)
					obs.Recv["up"] = []Bs{c04Digest(b)}
					obs.Recv["up.name"] = []Bs{Bs(f.Header.Filename)}
					continue
				}
				if f, ok := v.(*runtime.File); ok && f != nil {
					b, _ := io.ReadAll(f.Data)
					obs.Recv["up"] = []Bs{c04Digest(b)}
					obs.Recv["up.name"] = []Bs{Bs(f.Header.Filename)}
					continue
				}
				if m, ok := v.(map[string]interface{}); ok && k == "body" {
					if sv, ok := m["v"].(string); ok {
						obs.Recv["body"] = []Bs{Bs(sv)}
					}
					continue
				}
				if k == "qn" && !in.HasQN {
					continue // an absent integer arrives as its zero value
				}
				if s := c04Strs(v); !c04AllEmpty(s) { // absent optional parameters arrive as zero values
					obs.Recv[k] = s
				}
			}
			return middleware.ResponderFunc(func(rw http.ResponseWriter, p runtime.Producer) {
				rw.Header().Set("X-Resp", string(in.RespHdr))
				if in.RespCT != "" { // the handler answers with a media type of its own
					rw.Header().Set("Content-Type", in.RespCT)
					rw.WriteHeader(201)
					_, _ = io.WriteString(rw, string(in.RespBody)+strings.Repeat("p", in.RespPad))
					return
				}
				rw.WriteHeader(201)
				_ = p.Produce(rw, string(in.RespBody)+strings.Repeat("p", in.RespPad))
			}), nil
		}))
		h := middleware.Serve(spec, api)
		rt := client.New("example.test", in.BasePath, []string{"http"})
		if in.Wire == "tcp" {
			srv := httptest.NewServer(h)
			defer srv.Close()
			rt = client.New(srv.Listener.Addr().String(), in.BasePath, []string{"http"})
		} else if in.Wire == "h2" { // HTTP/2 over TLS on the loopback: streamed bodies arrive without a length and without a transfer coding
			srv := httptest.NewUnstartedServer(h)
			srv.EnableHTTP2 = true
			srv.StartTLS()
			defer srv.Close()
			rt = client.NewWithClient(srv.Listener.Addr().String(), in.BasePath, []string{"https"}, srv.Client())
		} else {
			rt.Transport = c04Transport{h: h, target: &obs.Target}
			if in.Kind == "hdr" {
				rt.Transport = c04Transport{h: h, target: &obs.Target, head: &obs.WireHead}
			}
			if in.Kind == "mp" {
				rt.Transport = c04Transport{h: h, target: &obs.Target, mp: &obs}
			}
		}
		rt.Consumers["text/plain"] = runtime.TextConsumer()
		op := &runtime.ClientOperation{
			ID: "op", Method: in.Method, PathPattern: in.Template, Schemes: []string{"http"},
			ProducesMediaTypes: []string{map[string]string{"json": "application/json", "text": "text/plain"}[in.Produces]},
			ConsumesMediaTypes: c04Consumes(in),
			Params: runtime.ClientRequestWriterFunc(func(req runtime.ClientRequest, _ strfmt.Registry) error {
				_ = req.SetPathParam("p1", string(in.P1))
				if strings.Contains(in.Template, "{p2}") {
					_ = req.SetPathParam("p2", string(in.P2))
				}
				if in.HasQ {
					_ = req.SetQueryParam("q1", string(in.Q1))
				}
				if len(in.QM) > 0 {
					_ = req.SetQueryParam("qm", bsList(in.QM)...)
				}
				if in.HasQN {
					_ = req.SetQueryParam("qn", fmt.Sprint(in.QN))
				}
				if in.HasH {
					_ = req.SetHeaderParam(c04HName(in), string(in.H))
				}
				switch in.Body {
				case "form":
					_ = req.SetFormParam("f1", string(in.F1))
					if len(in.FM) > 0 {
						_ = req.SetFormParam("fm", bsList(in.FM)...)
					}
				case "multipart":
					_ = req.SetFormParam("f1", string(in.F1))
					if in.FileSkip > 0 && in.BigFile == 0 {
						rd := bytes.NewReader([]byte(in.File))
						_, _ = rd.Seek(int64(in.FileSkip), io.SeekStart) // the caller has already consumed a prefix
						_ = req.SetFileParam("up", c04Seekable{rd, in.FileName})
					} else {
						_ = req.SetFileParam("up", runtime.NamedReader(in.FileName, bytes.NewReader(c04File(in))))
					}
				case "json":
					switch in.Stream {
					case 1: // the caller streams the serialised document itself
						_ = req.SetBodyParam(c04OnlyReader{bytes.NewReader(c04JSONDoc(in))})
					case 2:
						_ = req.SetBodyParam(io.NopCloser(c04OnlyReader{bytes.NewReader(c04JSONDoc(in))}))
					default:
						_ = req.SetBodyParam(map[string]string{"v": string(in.JSON)})
					}
				}
				return nil
			}),
			Reader: runtime.ClientResponseReaderFunc(func(resp runtime.ClientResponse, cons runtime.Consumer) (interface{}, error) {
				obs.SeenCode = resp.Code()
				obs.SeenHdr = Bs(resp.GetHeader("X-Resp"))
				if in.RespCT != "" {
					obs.SeenHdr += Bs("|" + resp.GetHeader("Content-Type"))
				}
				if resp.Code() == 201 {
					var s string
					if err := cons.Consume(resp.Body(), &s); err != nil {
						return nil, err
					}
					if pad := strings.Repeat("p", in.RespPad); in.RespPad > 0 && strings.HasSuffix(s, pad) && len(s) == len(in.RespBody)+in.RespPad {
						s = s[:len(s)-in.RespPad] // the padding arrived intact: compare the rest
					} else if len(s) > 2000 {
						s = s[:2000] + "...(truncated for the report)"
					}
					obs.SeenBody = Bs(s)
				} else {
					b, _ := io.ReadAll(resp.Body())
					obs.SeenBody = Bs(b)
					obs.Status = resp.Code()
				}
				return nil, nil
			}),
		}
		if in.Auth {
			op.AuthInfo = client.APIKeyAuth("X-Key", "header", "secret-token")
			if in.AuthQ {
				op.AuthInfo = client.APIKeyAuth("f1", "query", "secret-token")
			} else if in.Sign { // a signing scheme: looks at the body first
				op.AuthInfo = runtime.ClientAuthInfoWriterFunc(func(req runtime.ClientRequest, _ strfmt.Registry) error {
					obs.SignCalled = true
					obs.Signed = c04Digest(req.GetBody())
					return req.SetHeaderParam("X-Key", "secret-token")
				})
			}
		}
		if _, err := rt.Submit(op); err != nil {

			obs.SubmitErr = err.Error()
		}
	})
	return obs
}

func c04JSONDoc(in c04In) []byte {
	b, _ := json.Marshal(map[string]string{"v": string(in.JSON)})
	return b
}

// supplied lists the values the caller set, by parameter, in the form the handler is expected to receive them
func c04AllEmpty(xs []Bs) bool {
	for _, x := range xs {
		if x != "" {
			return false
		}
	}
	return true
}

func c04Supplied(in c04In) map[string][]Bs {
	m := map[string][]Bs{"p1": {in.P1}}
	if strings.Contains(in.Template, "{p2}") {
		m["p2"] = []Bs{in.P2}
	}
	if in.HasQ && in.Q1 != "" {
		m["q1"] = []Bs{in.Q1}
	}
	if !c04AllEmpty(in.QM) { // a list of empty items only is indistinguishable from an absent parameter
		m["qm"] = in.QM
	}
	if in.HasQN {
		m["qn"] = []Bs{Bs(fmt.Sprint(in.QN))}
	}
	if in.HasH && in.H != "" {
		m[c04HName(in)] = []Bs{in.H}
	}
	switch in.Body {
	case "form":
		if in.F1 != "" {
			m["f1"] = []Bs{in.F1}
		}
		if !c04AllEmpty(in.FM) {
			m["fm"] = in.FM
		}
	case "multipart":
		if in.F1 != "" {
			m["f1"] = []Bs{in.F1}
		}
		skip := in.FileSkip
		if skip > len(in.File) {
			skip = len(in.File)
		}
		m["up"] = []Bs{in.File[skip:]}
		if in.BigFile > 0 {
			m["up"] = []Bs{c04Digest(c04File(in))}
		}
		name := in.FileName
		if i := strings.LastIndexAny(name, "/"); i >= 0 {
			name = name[i+1:]
		}
		m["up.name"] = []Bs{Bs(name)}
	case "json":
		m["body"] = []Bs{in.JSON}
	}
	return m
}

func c04Assoc(m map[string][]Bs) string {
	keys := make([]string, 0, len(m))
	for k := range m {
		keys = append(keys, k)
	}
	sort.Strings(keys)
	return coqList(keys, func(k string) string { return coqPair(coqBytes(k), coqBytesList(bsList(m[k]))) })
}

func (c04) Coq(inAny any, obsAny any) string {
	in, obs := inAny.(c04In), obsAny.(c04Obs)
	if len(in.Seq) > 0 {
		steps := make([]string, 0, len(in.Seq))
		for i, st := range in.Seq {
			var so c04StepObs
			if i < len(obs.SeqObs) {
				so = obs.SeqObs[i]
			} else {
				so.RanOp = -1
			}
			sup := map[string][]Bs{"p1": {st.P1}}
			rec := map[string][]Bs{}
			if so.RanOp >= 0 {
				rec["p1"] = []Bs{so.P1}
			}
			if st.Op == 1 {
				sup["p2"] = []Bs{st.P2}
			}
			if so.RanOp == 1 {
				rec["p2"] = []Bs{so.P2}
			}
			steps = append(steps, fmt.Sprintf("(%s, %s, %s, %s)", coqBool(so.Err != ""), coqBool(so.RanOp == st.Op), c04Assoc(sup), c04Assoc(rec)))
		}
		return fmt.Sprintf("CRoundSeq %s [%s]", coqBool(obs.Panicked), strings.Join(steps, "; "))
	}
	if in.Kind == "hdr" {
		line, next := c04HdrLines(obs.WireHead, c04HName(in))
		var recv Bs
		if v := obs.Recv[c04HName(in)]; len(v) == 1 {
			recv = v[0]
		}
		return fmt.Sprintf("CHdrWire %s %s %s %s %s %s %s", coqBytes(c04HName(in)), coqBytes(string(in.H)), coqBytes(string(line)), coqBytes(string(next)),
			coqBool(obs.Panicked || obs.SubmitErr != ""), coqBool(obs.Ran), coqBytes(string(recv)))
	}
	if in.Kind == "mp" && in.Echo > 0 {
		// whatever an earlier request looked like on the wire is just data for this one: it must arrive whole (a boundary
		// drawn afresh for every request cannot occur in data that existed before)
		sup := map[string][]Bs{"f1": {in.F1}, "up": {in.File}}
		if in.Echo == 1 {
			sup["up"] = []Bs{obs.EchoVal}
		} else {
			sup["f1"] = []Bs{obs.EchoVal}
		}
		rec := map[string][]Bs{"f1": {""}, "up": {""}}
		for _, k := range []string{"f1", "up"} {
			if v := obs.Recv[k]; len(v) == 1 {
				rec[k] = v
			}
		}
		if len(sup["f1"][0]) == 0 {
			sup["f1"] = []Bs{""}
		}
		return fmt.Sprintf("CRoundSeq %s [(%s, %s, %s, %s)]", coqBool(obs.Panicked), coqBool(obs.SubmitErr != ""), coqBool(obs.Ran), c04Assoc(sup), c04Assoc(rec))
	}
	if in.Kind == "mp" {
		one := func(k string) Bs { // an absent value is the empty byte string
			if v := obs.Recv[k]; len(v) == 1 {
				return v[0]
			}
			return ""
		}
		skip := in.FileSkip
		if skip > len(in.File) {
			skip = len(in.File)
		}
		return fmt.Sprintf("CMultipart %s %s %s %s %s %s %s %s %s %s",
			coqBytes(string(obs.MpBoundary)), coqBytes(string(obs.MpDoc)),
			coqBytes("Content-Disposition: form-data; name=\"f1\"\r\n"), coqBytes("Content-Disposition: form-data; name=\"up\"; filename=\""),
			coqBytes(string(in.F1)), coqBytes(string(in.File[skip:])),
			coqBool(obs.Panicked || obs.SubmitErr != "" || !obs.MpSeen), coqBool(obs.Ran),
			coqBytes(string(one("f1"))), coqBytes(string(one("up"))))
	}
	if in.Kind == "mpread" {
		sup := coqList(in.MpParts, func(p c04MpPart) string { return coqPair(coqBytes(c04MpHeaderBlock(p.H)), coqBytes(string(p.C))) })
		return fmt.Sprintf("CMpRead %s %s %s %s %s %s", coqBool(obs.Panicked), coqBytes(in.MpBoundary), coqBytes(string(obs.MpDoc)),
			coqBool(in.MpMut != "" && in.MpMut != "slow"), sup, coqOpt(obs.MpReadOK, coqBytesList(bsList(obs.MpRead))))
	}
	if in.Kind == "bseq" {
		steps := make([]string, 0, len(in.BSeq))
		for i, st := range in.BSeq {
			var so c04Obs
			if i < len(obs.ParObs) {
				so = obs.ParObs[i]
			}
			steps = append(steps, fmt.Sprintf("(%s, %s, %s, %s)", coqBool(so.Panicked || so.SubmitErr != ""), coqBool(so.Ran && so.SeenCode == 200), c04Assoc(c04BSupplied(st)), c04Assoc(so.Recv)))
		}
		return fmt.Sprintf("CRoundSeq %s [%s]", coqBool(obs.Panicked), strings.Join(steps, "; "))
	}
	if len(in.Par) > 0 {
		steps := make([]string, 0, len(in.Par))
		for i, sub := range in.Par {
			var so c04Obs
			if i < len(obs.ParObs) {
				so = obs.ParObs[i]
			}
			rest := so.Ran && c04AuthOK(sub, so) && so.SeenCode == 201 && so.SeenHdr == sub.RespHdr && so.SeenBody == sub.RespBody
			steps = append(steps, fmt.Sprintf("(%s, %s, %s, %s)", coqBool(so.Panicked || so.SubmitErr != ""), coqBool(rest), c04Assoc(c04Supplied(sub)), c04Assoc(so.Recv)))
		}
		return fmt.Sprintf("CRoundPar [%s]", strings.Join(steps, "; "))
	}
	return fmt.Sprintf("CRound %s %s %s %s %s %s %s %s %s %s",
		coqBool(obs.Panicked), coqBool(obs.SubmitErr != ""), coqBool(obs.Ran),
		c04Assoc(c04Supplied(in)), c04Assoc(obs.Recv),
		coqBool(c04AuthOK(in, obs)),
		coqPair(coqBytes(c04WantHdr(in)), coqBytes(string(in.RespBody))),
		coqNat(obs.SeenCode), coqPair(coqBytes(string(obs.SeenHdr)), coqBytes(string(obs.SeenBody))),
		coqBool(true))
}

// c04HdrLines finds the line of the named field in a serialised request head (names compare case-insensitively) and the
// line that follows it, both with their CRLF.
func c04HdrLines(head Bs, name string) (line, next Bs) {
	rest := string(head)
	for rest != "" {
		i := strings.Index(rest, "\r\n")
		if i < 0 {
			break
		}
		l := rest[:i+2]
		rest = rest[i+2:]
		if k, _, ok := strings.Cut(l, ":"); ok && strings.EqualFold(k, name) {
			j := strings.Index(rest, "\r\n")
			if j >= 0 {
				return Bs(l), Bs(rest[:j+2])
			}
			return Bs(l), Bs(rest)
		}
	}
	return "", ""
}

func c04WantHdr(in c04In) string {
	if in.RespCT != "" {
		return string(in.RespHdr) + "|" + in.RespCT
	}
	return string(in.RespHdr)
}

// c04AuthOK: the server saw the credential the auth writer set; a signing writer was called and, where the body is a
// document the caller fixed (json kinds), GetBody() gave it exactly that document.
func c04AuthOK(in c04In, obs c04Obs) bool {
	if !in.Auth {
		return true
	}
	if obs.AuthSeen != "secret-token" {
		return false
	}
	if in.Sign && !in.AuthQ {
		if !obs.SignCalled {
			return false
		}
		if in.Body == "json" && in.Stream%3 != 0 && obs.Signed != c04Digest(c04JSONDoc(in)) {
			return false
		}
		if in.Body == "json" && in.Stream%3 == 0 { // serialised by the producer: the same document up to JSON spelling
			var m map[string]string
			if json.Unmarshal([]byte(obs.Signed), &m) != nil || len(m) != 1 || m["v"] != string(in.JSON) {
				return false
			}
		}
	}
	return true
}

func (c04) Classify(inAny any, obsAny any) []string { return nil }

func (c04) Category(inAny any, obsAny any) (string, bool) {
	in := inAny.(c04In)
	if len(in.Par) > 0 {
		return fmt.Sprintf("parallel/%d-uploads-in-flight", len(in.Par)), true
	}
	if in.Kind == "bseq" {
		return fmt.Sprintf("history/%d-calls-optional-body-or-file", len(in.BSeq)), true
	}
	if in.Kind == "hdr" {
		cls := "value-survives-as-is"
		v := string(in.H)
		switch {
		case strings.ContainsAny(v, "\x00\x01\x1f\x7f"):
			cls = "control-byte"
		case strings.ContainsAny(v, "\r\n"):
			cls = "CR-or-LF"
		case v != strings.Trim(v, " \t"):
			cls = "white-space-at-an-end"
		case v == "":
			cls = "empty"
		}
		return "header-wire/" + cls, true
	}
	if in.Kind == "mp" && in.Echo > 0 {
		return []string{"", "multipart-echo/earlier-request-body-as-file", "multipart-echo/earlier-request-body-as-field"}[in.Echo], true
	}
	if in.Kind == "mp" {
		cls := func(v string) string {
			switch {
			case v == "":
				return "empty"
			case len(v) >= 3800:
				return "around-4096"
			case len(v) >= 500:
				return "around-512"
			case strings.Contains(v, "\r\n--") && len(v) >= 64:
				return "line-end-dashes-hex60"
			case strings.Contains(v, "\r\n--"):
				return "line-end-dashes-prefix"
			case strings.HasPrefix(v, "--"):
				return "starts-with-dashes"
			case strings.HasSuffix(v, "\r") || strings.HasSuffix(v, "\n"):
				return "ends-in-CR-or-LF"
			case strings.ContainsAny(v, "\r\n"):
				return "CR-LF-inside"
			case strings.Contains(v, "--"):
				return "dashes"
			}
			return "other-bytes"
		}
		skip := in.FileSkip
		if skip > len(in.File) {
			skip = len(in.File)
		}
		return "multipart-wire/f1:" + cls(string(in.F1)) + "/file:" + cls(string(in.File[skip:])), true
	}
	if in.Kind == "mpread" {
		obs := obsAny.(c04Obs)
		m := in.MpMut
		if m == "" {
			m = "as-written"
		}
		res := "refused"
		if obs.MpReadOK {
			res = fmt.Sprintf("read-%d-parts", len(obs.MpRead))
		}
		return fmt.Sprintf("multipart-reader/%d-parts-written/%s/%s", len(in.MpParts), m, res), true
	}
	if len(in.Seq) > 0 {
		return fmt.Sprintf("history/%d-calls-one-server", len(in.Seq)), true
	}
	plain := func(s Bs) bool {
		for i := 0; i < len(s); i++ {
			c := s[i]
			if !(c >= '0' && c <= '9' || c >= 'a' && c <= 'z' || c >= 'A' && c <= 'Z') {
				return false
			}
		}
		return true
	}
	nt := !plain(in.P1) || !plain(in.P2) || !plain(in.Q1) || !plain(in.F1)
	a := "noauth"
	if in.Auth {
		a = "auth"
		if in.Sign {
			a = "auth-signing"
		}
		if in.AuthQ {
			a = "auth-query-key-named-like-the-form-field"
		}
	}
	if in.Body == "json" {
		a += []string{"/produced", "/io.Reader", "/io.ReadCloser"}[in.Stream%3]
	}
	w := "inproc"
	if in.Wire == "tcp" {
		w = fmt.Sprintf("tcp-pad%d", in.RespPad)
	}
	if in.Wire == "h2" {
		w = fmt.Sprintf("http2-tls-pad%d", in.RespPad)
	}
	return fmt.Sprintf("%s/%s/%s/%s/%s", in.Method, in.Body, in.Produces, a, w), nt
}

var _ = multipart.ErrMessageTooLarge
