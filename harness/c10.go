//go:build verif && (c10 || allprops)

package main

import (
	"encoding/json"
	"fmt"
	"math/rand"
	"net/url"
	"path"
	"sort"
	"strings"

	"github.com/go-openapi/runtime"
	"github.com/go-openapi/runtime/client"
	"github.com/go-openapi/strfmt"
)

// C10 — client URLs. Cases:
//   url     Runtime.CreateHttpRequest on (base path, pattern, path params, query params, scheme lists, host),
//           run several times with the parameters written in several orders; the distinct results are the observable
//   scheme  scheme selection alone (exhaustive over short lists)
//   esc     url.PathEscape / PathUnescape / EscapedPath on one string (ties the library models)
//   join    path.Join of two strings

type c10KV struct {
	K Bs `json:"k"`
	V Bs `json:"v"`
}
type c10KVs struct {
	K  Bs   `json:"k"`
	Vs []Bs `json:"vs"`
}

type c10In struct {
	Kind    string   `json:"kind"`
	Base    Bs       `json:"base,omitempty"`
	Pattern Bs       `json:"pattern,omitempty"`
	PP      []c10KV  `json:"pp,omitempty"`
	QP      []c10KVs `json:"qp,omitempty"`
	RS      []Bs     `json:"rs,omitempty"`
	OS      []Bs     `json:"os,omitempty"`
	Host    Bs       `json:"host,omitempty"`
	V       Bs       `json:"v,omitempty"`
	A       Bs       `json:"a,omitempty"`
	B       Bs       `json:"b,omitempty"`
}

type c10Out struct {
	Err    bool     `json:"err,omitempty"`
	ErrMsg string   `json:"errmsg,omitempty"`
	Panic  string   `json:"panic,omitempty"`
	EPath  Bs       `json:"epath,omitempty"`
	Query  []c10KVs `json:"query,omitempty"`
	Scheme Bs       `json:"scheme,omitempty"`
	Host   Bs       `json:"host,omitempty"`
}

type c10Obs struct {
	Outs []c10Out `json:"outs,omitempty"`
	// esc
	PE    Bs   `json:"pe,omitempty"`
	UnOK  bool `json:"un_ok,omitempty"`
	Un    Bs   `json:"un,omitempty"`
	EP    Bs   `json:"ep,omitempty"`
	J     Bs   `json:"j,omitempty"`
	Panic string `json:"panic,omitempty"`
}

type c10 struct{}

func init() { register(c10{}) }

func (c10) ID() string        { return "C10" }
func (c10) CoqModule() string { return "Check_C10" }
func (c10) Rule() string {
	return "url: base paths (with/without leading or trailing slash, with query, with space/non-ASCII/escapes) x patterns of 1-5 segments " +
		"(literals incl. space, non-ASCII, percent escapes, dots; 0-4 placeholders alone or embedded in a segment; trailing slash; static query; " +
		"an adversarial share with stray braces, unreplaced placeholders, escaped separators) x values (arbitrary bytes, look-alike placeholders, " +
		"/ ? # % .. empty) x caller query sets colliding with the static ones x scheme lists; every case is run 12 times with the parameters " +
		"written in different orders. Parameter names are drawn without braces and slashes. scheme: exhaustive over lists up to length 2 x 3 " +
		"over {http, https, ws, empty}. esc/join: library models on hostile strings. Non-trivial: a url case with at least one placeholder " +
		"that has a value, or a static query; a scheme case with two or more schemes; every esc/join case."
}

func (c10) Decode(raw json.RawMessage) (any, error) {
	var in c10In
	err := json.Unmarshal(raw, &in)
	return in, err
}

func (c10) Enumerate(tier string) []any {
	var out []any
	alpha := []Bs{"http", "https", "ws", ""}
	var lists [][]Bs
	lists = append(lists, nil)
	for _, a := range alpha {
		lists = append(lists, []Bs{a})
	}
	for _, a := range alpha {
		for _, b := range alpha {
			lists = append(lists, []Bs{a, b})
		}
	}
	n2 := len(lists)
	for _, a := range alpha {
		for _, b := range alpha {
			for _, c := range alpha {
				lists = append(lists, []Bs{a, b, c})
			}
		}
	}
	for i := 0; i < n2; i++ {
		for _, os := range lists {
			out = append(out, c10In{Kind: "scheme", RS: lists[i], OS: os})
		}
	}
	// every single byte through the escaping functions
	for c := 0; c < 256; c++ {
		out = append(out, c10In{Kind: "esc", V: Bs([]byte{byte(c)})})
	}
	return out
}

var c10Bases = []string{"/", "/", "", "/api", "/api/", "api", "/api/v1", "/api/v1/", "/api?x=1", "/api/?k=b&k2=b2",
	"/v1?shared=base&bonly=1", "/v1?shared=base&shared=base2&q=0", "/a b", "/\xc3\xa9t\xc3\xa9", "/api%20x", "//api", "/api//v2", "/api/../v3", "/./x",
	"/api?broken=%zz&ok=1", "/api?a;b=1&c=2", "/b#frag", "/api?x=a+b%26c"}
var c10Lits = []string{"pets", "items", "v2", "a b", "\xc3\xa9", "a%20b", "x.y", "a:b", "~u", "a+b", "a;b", "a,b", "a=b", "a@b", "a&b", "a'b", "(x)", "*", "!",
	"..", ".", "a%2Fb", "100%25", "a%3Fb", "a%23b", "[x]", "a|b", "a\"b", "<x>", "a\\b", "a^b", "`"}
var c10Keys = []string{"id", "name", "other", "n", "petId", "a.b", "x-y", "a b", "\xc3\xa9", "id2", "k%"}
var c10Vals = []string{"x/y", "a?b", "a#b", "a%b", "..", ".", "", "{other}", "{id}", "{n}", "%2F", "%7Bn%7D", "a b", "\xc3\xa9\xe2\x88\x9a", "\x00", "a+b", "a&b=c",
	":", ";,", "plain123", "1", "42", "../..", "/", "//", "?", "#", "%", "{", "}", "{}", "a/b/c", "x\ty", "\x7f", "~", "a=b", "@", "$", "\xff\xfe"}
var c10QNames = []string{"a", "shared", "bonly", "k", "k2", "q", "x", "x y", "a&b", "ponly", "\xc3\xa9"}
var c10QVals = []string{"1", "caller", "", "a b", "a&b=c", "x/y", "\xc3\xa9", "%41", "a+b", "#"}
var c10Schemes = []string{"http", "https", "ws", "wss", "", "HTTPS"}

func c10Bytes(r *rand.Rand, n int) string {
	b := make([]byte, n)
	for i := range b {
		b[i] = byte(r.Intn(256))
	}
	return string(b)
}

func c10Val(r *rand.Rand) string {
	switch r.Intn(10) {
	case 0:
		return c10Bytes(r, r.Intn(6))
	case 1:
		return c10Vals[r.Intn(len(c10Vals))] + c10Vals[r.Intn(len(c10Vals))]
	default:
		return c10Vals[r.Intn(len(c10Vals))]
	}
}

func c10SchemeList(r *rand.Rand) []Bs {
	n := r.Intn(4)
	var out []Bs
	for i := 0; i < n; i++ {
		out = append(out, Bs(c10Schemes[r.Intn(len(c10Schemes))]))
	}
	return out
}

func (c10) Gen(r *rand.Rand, tier string, i int) any {
	switch k := r.Intn(20); {
	case k == 0:
		v := c10Val(r)
		if r.Intn(2) == 0 {
			v = url.PathEscape(v)
			if r.Intn(3) == 0 && len(v) > 0 { // damage an escape
				p := r.Intn(len(v))
				v = v[:p] + "%" + v[p:]
			}
		}
		return c10In{Kind: "esc", V: Bs(v)}
	case k == 1:
		parts := []string{"", "/", "a", "a/", "/a", "a/b", "..", "../", "/..", "./", ".", "a//b", "a/./b", "a/../b", "/a/../../b", "../../x", "a/b/../../..", "{id}", "a b"}
		a := parts[r.Intn(len(parts))] + parts[r.Intn(len(parts))]
		b := parts[r.Intn(len(parts))] + parts[r.Intn(len(parts))]
		return c10In{Kind: "join", A: Bs(a), B: Bs(b)}
	}
	in := c10In{Kind: "url", Host: "api.example.com:8080"}
	in.Base = Bs(c10Bases[r.Intn(len(c10Bases))])
	adversarial := r.Intn(6) == 0
	// keys used by this case
	nkeys := r.Intn(5)
	perm := r.Perm(len(c10Keys))
	var keys []string
	for j := 0; j < nkeys; j++ {
		keys = append(keys, c10Keys[perm[j]])
	}
	// pattern
	nseg := 1 + r.Intn(5)
	var sb strings.Builder
	used := 0
	for s := 0; s < nseg; s++ {
		sb.WriteByte('/')
		lit := func() string {
			l := c10Lits[r.Intn(len(c10Lits))]
			if !adversarial && r.Intn(3) != 0 {
				l = c10Lits[r.Intn(3)]
			}
			return l
		}
		switch c := r.Intn(10); {
		case c < 4 && len(keys) > 0:
			sb.WriteString("{" + keys[used%len(keys)] + "}")
			used++
		case c < 6 && len(keys) > 0:
			sb.WriteString(lit() + "{" + keys[used%len(keys)] + "}")
			used++
			if r.Intn(2) == 0 {
				sb.WriteString("-" + "{" + keys[used%len(keys)] + "}")
				used++
			}
			if r.Intn(2) == 0 {
				sb.WriteString(lit())
			}
		case c == 6 && adversarial:
			stray := []string{"{", "}", "{{id}", "{id}}", "{}", "{unset}", "{{id}a}", "}{", "{a/b}", "{id", "id}"}
			sb.WriteString(stray[r.Intn(len(stray))])
		default:
			sb.WriteString(lit())
		}
	}
	if r.Intn(4) == 0 {
		sb.WriteByte('/')
	}
	switch r.Intn(8) {
	case 0:
		sb.WriteString("?shared=pat&ponly=1")
	case 1:
		sb.WriteString("?a=p1&a=p2&k=pat")
	case 2:
		if adversarial {
			sb.WriteString("?")
		}
	case 3:
		if adversarial {
			sb.WriteString("#frag")
		}
	}
	in.Pattern = Bs(sb.String())
	if adversarial && r.Intn(10) == 0 {
		in.Pattern = Bs(strings.TrimPrefix(string(in.Pattern), "/"))
	}
	for _, k := range keys {
		if r.Intn(8) == 0 { // a placeholder without a value
			continue
		}
		in.PP = append(in.PP, c10KV{Bs(k), Bs(c10Val(r))})
	}
	if r.Intn(6) == 0 { // a value for a name the pattern does not use
		in.PP = append(in.PP, c10KV{"unused", Bs(c10Val(r))})
	}
	nq := r.Intn(4)
	qperm := r.Perm(len(c10QNames))
	for j := 0; j < nq; j++ {
		nv := r.Intn(3)
		if r.Intn(3) != 0 {
			nv = 1
		}
		var vs []Bs
		for x := 0; x < nv; x++ {
			vs = append(vs, Bs(c10QVals[r.Intn(len(c10QVals))]))
		}
		in.QP = append(in.QP, c10KVs{Bs(c10QNames[qperm[j]]), vs})
	}
	in.RS = c10SchemeList(r)
	in.OS = c10SchemeList(r)
	return in
}

const c10Runs = 12

func c10Once(in c10In, run int) (out c10Out) {
	pp := append([]c10KV(nil), in.PP...)
	distinct := true
	seen := map[string]bool{}
	for _, kv := range pp {
		if seen[string(kv.K)] {
			distinct = false
		}
		seen[string(kv.K)] = true
	}
	if distinct && len(pp) > 1 {
		// a different insertion order per run (Go also randomises the iteration itself)
		rot := run % len(pp)
		pp = append(pp[rot:], pp[:rot]...)
		if (run/len(pp))%2 == 1 {
			for a, b := 0, len(pp)-1; a < b; a, b = a+1, b-1 {
				pp[a], pp[b] = pp[b], pp[a]
			}
		}
	}
	panicked, msg := recoverTo(func() {
		rt := client.New(string(in.Host), "/", bsList(in.RS))
		rt.BasePath = string(in.Base)
		op := &runtime.ClientOperation{
			ID:                 "op",
			Method:             "GET",
			PathPattern:        string(in.Pattern),
			ProducesMediaTypes: []string{runtime.JSONMime},
			ConsumesMediaTypes: []string{runtime.JSONMime},
			Schemes:            bsList(in.OS),
			Params: runtime.ClientRequestWriterFunc(func(req runtime.ClientRequest, _ strfmt.Registry) error {
				for _, kv := range pp {
					if err := req.SetPathParam(string(kv.K), string(kv.V)); err != nil {
						return err
					}
				}
				for _, kv := range in.QP {
					if err := req.SetQueryParam(string(kv.K), bsList(kv.Vs)...); err != nil {
						return err
					}
				}
				return nil
			}),
			Reader: runtime.ClientResponseReaderFunc(func(runtime.ClientResponse, runtime.Consumer) (interface{}, error) { return nil, nil }),
		}
		req, err := rt.CreateHttpRequest(op)
		if err != nil {
			out.Err, out.ErrMsg = true, err.Error()
			return
		}
		out.EPath = Bs(req.URL.EscapedPath())
		q, _ := url.ParseQuery(req.URL.RawQuery)
		var names []string
		for k := range q {
			names = append(names, k)
		}
		sort.Strings(names)
		for _, k := range names {
			out.Query = append(out.Query, c10KVs{Bs(k), toBs(q[k])})
		}
		out.Scheme = Bs(req.URL.Scheme)
		out.Host = Bs(req.URL.Host)
	})
	if panicked {
		out = c10Out{Panic: msg}
	}
	return
}

func (c10) Run(inAny any) any {
	in := inAny.(c10In)
	var obs c10Obs
	switch in.Kind {
	case "url", "scheme":
		if in.Kind == "scheme" {
			in.Base, in.Pattern, in.Host = "/", "/x", "h"
		}
		seen := map[string]bool{}
		runs := c10Runs
		if len(in.PP) < 2 {
			runs = 2
		}
		for j := 0; j < runs; j++ {
			o := c10Once(in, j)
			o.ErrMsg = ""
			b, _ := json.Marshal(o)
			if !seen[string(b)] {
				seen[string(b)] = true
				obs.Outs = append(obs.Outs, o)
			}
		}
		sort.Slice(obs.Outs, func(a, b int) bool {
			x, _ := json.Marshal(obs.Outs[a])
			y, _ := json.Marshal(obs.Outs[b])
			return string(x) < string(y)
		})
	case "esc":
		panicked, msg := recoverTo(func() {
			obs.PE = Bs(url.PathEscape(string(in.V)))
			un, err := url.PathUnescape(string(in.V))
			if err == nil {
				obs.UnOK, obs.Un = true, Bs(un)
				u := &url.URL{Path: un, RawPath: string(in.V)}
				obs.EP = Bs(u.EscapedPath())
			}
		})
		if panicked {
			obs.Panic = msg
		}
	case "join":
		obs.J = Bs(path.Join(string(in.A), string(in.B)))
	}
	return obs
}

func c10CoqKVs(xs []c10KVs) string {
	return coqList(xs, func(kv c10KVs) string { return coqPair(coqBytes(string(kv.K)), coqBytesList(bsList(kv.Vs))) })
}

func c10CoqOut(o c10Out) string {
	switch {
	case o.Panic != "":
		return "IPanic"
	case o.Err:
		return "IErr"
	}
	return fmt.Sprintf("(IOk %s %s %s %s)", coqBytes(string(o.EPath)), c10CoqKVs(o.Query), coqBytes(string(o.Scheme)), coqBytes(string(o.Host)))
}

func (c10) Coq(inAny any, obsAny any) string {
	in, obs := inAny.(c10In), obsAny.(c10Obs)
	switch in.Kind {
	case "url":
		return fmt.Sprintf("CUrl %s %s %s %s %s %s %s %s", coqBytes(string(in.Base)), coqBytes(string(in.Pattern)),
			coqList(in.PP, func(kv c10KV) string { return coqPair(coqBytes(string(kv.K)), coqBytes(string(kv.V))) }),
			c10CoqKVs(in.QP), coqBytesList(bsList(in.RS)), coqBytesList(bsList(in.OS)), coqBytes(string(in.Host)),
			coqList(obs.Outs, c10CoqOut))
	case "scheme":
		got := "[]"
		if len(obs.Outs) == 1 && !obs.Outs[0].Err && obs.Outs[0].Panic == "" {
			got = coqBytes(string(obs.Outs[0].Scheme))
		}
		return fmt.Sprintf("CScheme %s %s %s", coqBytesList(bsList(in.RS)), coqBytesList(bsList(in.OS)), got)
	case "esc":
		return fmt.Sprintf("CEsc %s %s %s %s", coqBytes(string(in.V)), coqBytes(string(obs.PE)), coqOpt(obs.UnOK, coqBytes(string(obs.Un))), coqBytes(string(obs.EP)))
	case "join":
		return fmt.Sprintf("CJoin %s %s %s", coqBytes(string(in.A)), coqBytes(string(in.B)), coqBytes(string(obs.J)))
	}
	panic("c10: unknown kind " + in.Kind)
}

// c10Joined is the decoded joined pattern the client substitutes into (empty string when an input does not parse).
func c10Joined(in c10In) (string, bool) {
	b, err1 := url.Parse(string(in.Base))
	p, err2 := url.Parse(string(in.Pattern))
	if err1 != nil || err2 != nil {
		return "", false
	}
	return path.Join(b.Path, p.Path), true
}

// c10Substituted is the path handed to the URL parser (before the re-encoding of the literals), parameters in the listed order.
func c10Substituted(in c10In) (string, bool) {
	b, err1 := url.Parse(string(in.Base))
	p, err2 := url.Parse(string(in.Pattern))
	if err1 != nil || err2 != nil {
		return "", false
	}
	u := path.Join(b.Path, p.Path)
	m := map[string]string{}
	var order []string
	for _, kv := range in.PP {
		if _, ok := m[string(kv.K)]; !ok {
			order = append(order, string(kv.K))
		}
		m[string(kv.K)] = string(kv.V)
	}
	for _, k := range order {
		u = strings.ReplaceAll(u, "{"+k+"}", url.PathEscape(m[k]))
	}
	if p.Path != "" && p.Path != "/" && strings.HasSuffix(p.Path, "/") {
		u += "/"
	}
	return u, true
}

// c10StrayBrace reports a brace that is not part of a {name} placeholder (name free of braces and slashes).
func c10StrayBrace(s string) bool {
	for i := 0; i < len(s); i++ {
		switch s[i] {
		case '}':
			return true
		case '{':
			j := i + 1
			for j < len(s) && s[j] != '{' && s[j] != '}' && s[j] != '/' {
				j++
			}
			if j >= len(s) || s[j] != '}' {
				return true
			}
			i = j
		}
	}
	return false
}

func (c10) Classify(inAny any, obsAny any) []string {
	in, obs := inAny.(c10In), obsAny.(c10Obs)
	if in.Kind != "url" {
		return nil
	}
	joined, ok := c10Joined(in)
	if !ok {
		return nil
	}
	var out []string
	// F-C10-2: a percent sign among the decoded literals (the pattern or base path wrote %25)
	if strings.Contains(joined, "%") && len(obs.Outs) == 1 {
		out = append(out, "clienturl.percent_literal")
	}
	// F-C10-3: the substituted path begins with two slashes and is read as //authority (segments lost, or an error for a bad host)
	if u, ok := c10Substituted(in); ok && strings.HasPrefix(u, "//") && !strings.HasPrefix(u, "///") && len(obs.Outs) == 1 {
		out = append(out, "clienturl.leading_double_slash")
	}
	// F-C10-4: stray braces in the pattern make the sequential replacement depend on the map order
	if c10StrayBrace(joined) && len(obs.Outs) > 1 {
		out = append(out, "clienturl.stray_brace_order")
	}
	return out
}

func (c10) Category(inAny any, obsAny any) (string, bool) {
	in, obs := inAny.(c10In), obsAny.(c10Obs)
	switch in.Kind {
	case "scheme":
		return fmt.Sprintf("scheme/rs%d-os%d", len(in.RS), len(in.OS)), len(in.RS)+len(in.OS) >= 2
	case "esc":
		if !obs.UnOK {
			return "esc/bad-escape", true
		}
		return "esc/ok", true
	case "join":
		return "join", true
	}
	joined, ok := c10Joined(in)
	holes := 0
	for _, kv := range in.PP {
		if strings.Contains(joined, "{"+string(kv.K)+"}") {
			holes++
		}
	}
	var tags []string
	if !ok {
		tags = append(tags, "unparsable-input")
	}
	tags = append(tags, fmt.Sprintf("holes%d", holes))
	if strings.HasSuffix(strings.SplitN(string(in.Pattern), "?", 2)[0], "/") {
		tags = append(tags, "slash")
	}
	if strings.Contains(string(in.Pattern), "?") || strings.Contains(string(in.Base), "?") {
		tags = append(tags, "staticq")
	}
	if len(in.QP) > 0 {
		tags = append(tags, "callerq")
	}
	lit := joined
	for _, kv := range in.PP {
		lit = strings.ReplaceAll(lit, "{"+string(kv.K)+"}", "")
	}
	if lit != (&url.URL{Path: lit}).EscapedPath() || strings.ContainsAny(lit, "{}") {
		tags = append(tags, "oddliteral")
	}
	for _, kv := range in.PP {
		if strings.ContainsAny(string(kv.V), "/?#%{}") || kv.V == "" || strings.Contains(string(kv.V), "..") {
			tags = append(tags, "hostilevalue")
			break
		}
	}
	if len(in.RS)+len(in.OS) >= 2 {
		tags = append(tags, "schemes")
	}
	switch {
	case len(obs.Outs) == 1 && obs.Outs[0].Err:
		tags = append(tags, "ERR")
	case len(obs.Outs) == 1 && obs.Outs[0].Panic != "":
		tags = append(tags, "PANIC")
	case len(obs.Outs) > 1:
		tags = append(tags, "ORDER-DEPENDENT")
	}
	return "url/" + strings.Join(tags, ","), holes > 0 || strings.Contains(string(in.Pattern), "?") || strings.Contains(string(in.Base), "?")
}
