//go:build verif && (c10 || allprops)

package main

import (
	"encoding/json"
	"fmt"
	"math/rand"
	"net/url"
	"path"
	"sort"
	"strings"

	"github.com/go-openapi/runtime"
	"github.com/go-openapi/runtime/client"
	"github.com/go-openapi/strfmt"
)

// C10 — client URLs. Cases:
//   url     Runtime.CreateHttpRequest on (base path, pattern, path params, query params, scheme lists, host),
//           run several times with the parameters written in several orders; the distinct results are the observable.
//           The base path is handed to the REAL constructor (client.New / NewWithClient) - what the constructor makes of it
//           (path part and query string) is part of what is checked; a share of the cases assigns Runtime.BasePath directly.
//   scheme  scheme selection alone (exhaustive over short lists)
//   esc     url.PathEscape / PathUnescape / EscapedPath on one string (ties the library models)
//   join    path.Join of two strings
//   hist    several operations built in sequence on ONE Runtime (fixed host, base path and transport schemes; different patterns,
//           parameters, queries and operation scheme lists); per step the distinct results within the history and the distinct
//           results of the same request on a fresh Runtime

type c10KV struct {
	K Bs `json:"k"`
	V Bs `json:"v"`
}
type c10KVs struct {
	K  Bs   `json:"k"`
	Vs []Bs `json:"vs"`
}

// one operation of a history
type c10Step struct {
	Pattern Bs       `json:"pattern"`
	PP      []c10KV  `json:"pp,omitempty"`
	QP      []c10KVs `json:"qp,omitempty"`
	OS      []Bs     `json:"os,omitempty"`
	// caller query parameters that reach the request through the auth writer instead of the params writer (names disjoint from QP):
	// AuthVia "op" = ClientOperation.AuthInfo, "default" = Runtime.DefaultAuthentication
	AQ      []c10KVs `json:"aq,omitempty"`
	AuthVia string   `json:"authvia,omitempty"`
}

type c10In struct {
	Kind string `json:"kind"`
	// url, hist: how the Runtime gets its base path: "" = client.New(host, base, schemes), "withclient" = client.NewWithClient,
	// "direct" = the exported field Runtime.BasePath assigned after the constructor ran
	Ctor    string    `json:"ctor,omitempty"`
	Base    Bs        `json:"base,omitempty"`
	Pattern Bs        `json:"pattern,omitempty"`
	PP      []c10KV   `json:"pp,omitempty"`
	QP      []c10KVs  `json:"qp,omitempty"`
	AQ      []c10KVs  `json:"aq,omitempty"`
	AuthVia string    `json:"authvia,omitempty"`
	RS      []Bs      `json:"rs,omitempty"`
	OS      []Bs      `json:"os,omitempty"`
	Host    Bs        `json:"host,omitempty"`
	V       Bs        `json:"v,omitempty"`
	A       Bs        `json:"a,omitempty"`
	B       Bs        `json:"b,omitempty"`
	Steps   []c10Step `json:"steps,omitempty"`
}

type c10Out struct {
	Err    bool     `json:"err,omitempty"`
	ErrMsg string   `json:"errmsg,omitempty"`
	Panic  string   `json:"panic,omitempty"`
	EPath  Bs       `json:"epath,omitempty"`
	Query  []c10KVs `json:"query,omitempty"`
	Scheme Bs       `json:"scheme,omitempty"`
	Host   Bs       `json:"host,omitempty"`
}

type c10Obs struct {
	Outs []c10Out `json:"outs,omitempty"`
	// hist: per step, the distinct results inside the history and on a fresh Runtime
	Hist  [][]c10Out `json:"hist,omitempty"`
	Fresh [][]c10Out `json:"fresh,omitempty"`
	// esc
	PE    Bs     `json:"pe,omitempty"`
	UnOK  bool   `json:"un_ok,omitempty"`
	Un    Bs     `json:"un,omitempty"`
	EP    Bs     `json:"ep,omitempty"`
	J     Bs     `json:"j,omitempty"`
	Panic string `json:"panic,omitempty"`
}

type c10 struct{}

func init() { register(c10{}) }

func (c10) ID() string        { return "C10" }
func (c10) CoqModule() string { return "Check_C10" }
func (c10) Rule() string {
	return "url: base paths (with/without leading or trailing slash, with query, with space/non-ASCII/escapes; handed to the real constructor " +
		"client.New / NewWithClient, a fifth assigned to Runtime.BasePath directly; a quarter with static query names and values that look like " +
		"paths or URLs: double slashes, dot and dot-dot segments, trailing slashes, escaped separators - also in the pattern's query and " +
		"enumerated over a fixed table) x patterns of 1-5 segments " +
		"(literals incl. space, non-ASCII, percent escapes, dots; 0-4 placeholders alone or embedded in a segment; trailing slash; static query; " +
		"an adversarial share with stray braces, unreplaced placeholders, escaped separators) x values (arbitrary bytes, look-alike placeholders, " +
		"/ ? # % .. empty) x caller query sets colliding with the static ones x scheme lists; every case is run 12 times with the parameters " +
		"written in different orders. Parameter names are drawn without braces and slashes. scheme: exhaustive over lists up to length 2 x 3 " +
		"over {http, https, ws, empty}. esc/join: library models on hostile strings. hist: 2-4 operations built in sequence on ONE Runtime " +
		"(fixed host/base path/transport schemes, half of them without transport schemes; patterns, parameters, caller queries and operation " +
		"scheme lists differ per step; the same operation repeated with other values), every step compared with the model, with the " +
		"predicates, and with the same request on a fresh Runtime; exhaustive over pairs of operation scheme lists up to length 2 on a " +
		"Runtime without schemes. A third of the cases with caller query parameters have some of them written by an auth writer (operation AuthInfo or " +
		"Runtime.DefaultAuthentication; client.APIKeyAuth in the query) instead of the params writer, also enumerated against static parameters of " +
		"the same name. An eighth of the base paths and of the patterns fix query parameters WITHOUT a value (bare flag, blank value, blank twice, blank next to a value; " +
		"names colliding across base path, pattern and caller), also enumerated (6 base paths x 5 patterns x 3 caller sets). Non-trivial: a url case with at least one placeholder " +
		"that has a value, or a static query; a scheme case with two or more schemes; every esc/join case; a history of two or more steps."
}

func (c10) Decode(raw json.RawMessage) (any, error) {
	var in c10In
	err := json.Unmarshal(raw, &in)
	return in, err
}

func (c10) Enumerate(tier string) []any {
	var out []any
	alpha := []Bs{"http", "https", "ws", ""}
	var lists [][]Bs
	lists = append(lists, nil)
	for _, a := range alpha {
		lists = append(lists, []Bs{a})
	}
	for _, a := range alpha {
		for _, b := range alpha {
			lists = append(lists, []Bs{a, b})
		}
	}
	n2 := len(lists)
	for _, a := range alpha {
		for _, b := range alpha {
			for _, c := range alpha {
				lists = append(lists, []Bs{a, b, c})
			}
		}
	}
	for i := 0; i < n2; i++ {
		for _, os := range lists {
			out = append(out, c10In{Kind: "scheme", RS: lists[i], OS: os})
		}
	}
	// histories of two operations on one Runtime: a Runtime without schemes x all pairs of operation lists up to length 2;
	// a Runtime with one scheme x operation lists up to length 1
	step := func(pat string, os []Bs) c10Step {
		return c10Step{Pattern: Bs(pat), PP: []c10KV{{"id", "7"}}, OS: os}
	}
	for _, a := range lists[:n2] {
		for _, b := range lists[:n2] {
			out = append(out, c10In{Kind: "hist", Host: "h", Base: "/api", Steps: []c10Step{step("/first/{id}", a), step("/second/{id}/", b)}})
		}
	}
	for _, rs := range lists[1:5] {
		for _, a := range lists[:5] {
			for _, b := range lists[:5] {
				out = append(out, c10In{Kind: "hist", Host: "h", Base: "/api", RS: rs, Steps: []c10Step{step("/first/{id}", a), step("/second/{id}/", b)}})
			}
		}
	}
	// path-like static query values (see c10PQVals), each in the base path (four path parts, through client.New) and in the pattern
	for i, v := range c10PQVals {
		pp := []c10KV{{"id", "a/b"}}
		for _, part := range []string{"/api", "api", "/api/v1/", ""} {
			out = append(out, c10In{Kind: "url", Host: "h", Base: Bs(part + "?cb=" + v + "&mode=raw"), Pattern: "/pets/{id}", PP: pp})
		}
		out = append(out, c10In{Kind: "url", Host: "h", Base: Bs("/api?u/v=" + v), Pattern: Bs("/pets/{id}/?cb=" + v), PP: pp,
			Ctor: []string{"", "withclient", "direct"}[i%3]})
	}
	// a caller query parameter that collides with a static one of the base path and/or the pattern, written by the params
	// writer, by the operation's auth writer, or by the Runtime's default auth writer (API key in the query)
	for _, bp := range [][2]string{{"/api?api_key=anonymous", "/pets/{id}"}, {"/api", "/pets/{id}?api_key=anonymous"},
		{"/api?api_key=base&t=1", "/pets/{id}?api_key=pat"}, {"/api?other=1", "/pets/{id}?token=static"}} {
		for _, name := range []string{"api_key", "token"} {
			for _, vs := range [][]Bs{{"s3cr3t"}, {""}, {"k1", "k2"}, {}} {
				kv := []c10KVs{{Bs(name), vs}}
				pp := []c10KV{{"id", "7"}}
				out = append(out, c10In{Kind: "url", Host: "h", Base: Bs(bp[0]), Pattern: Bs(bp[1]), PP: pp, QP: kv})
				out = append(out, c10In{Kind: "url", Host: "h", Base: Bs(bp[0]), Pattern: Bs(bp[1]), PP: pp, AQ: kv, AuthVia: "op"})
				out = append(out, c10In{Kind: "url", Host: "h", Base: Bs(bp[0]), Pattern: Bs(bp[1]), PP: pp, AQ: kv, AuthVia: "default"})
			}
		}
	}
	// static parameters fixed without a value (flag, blank, blank twice, blank next to a value) in the base path and/or the
	// pattern x the caller leaving them alone or overriding them (no value, blank, a value)
	for i, b := range []string{"/api", "/api?wsdl", "/api?debug=", "/api?debug=1", "/api/?debug=&debug=", "api?debug=&debug=x&wsdl"} {
		for j, p := range []string{"/pets/{id}", "/pets/{id}?watch", "/pets/{id}?debug=", "/pets/?pretty=&format=full", "/pets/{id}/?debug=2&watch="} {
			for _, qp := range [][]c10KVs{nil, {{"debug", []Bs{""}}}, {{"debug", []Bs{"c"}}, {"watch", nil}}} {
				out = append(out, c10In{Kind: "url", Host: "h", Base: Bs(b), Pattern: Bs(p), PP: []c10KV{{"id", "7"}}, QP: qp,
					Ctor: []string{"", "withclient", "direct"}[(i+j)%3]})
			}
		}
	}
	// every single byte through the escaping functions
	for c := 0; c < 256; c++ {
		out = append(out, c10In{Kind: "esc", V: Bs([]byte{byte(c)})})
	}
	return out
}

var c10Bases = []string{"/", "/", "", "/api", "/api/", "api", "/api/v1", "/api/v1/", "/api?x=1", "/api/?k=b&k2=b2",
	"/v1?shared=base&bonly=1", "/v1?shared=base&shared=base2&q=0", "/a b", "/\xc3\xa9t\xc3\xa9", "/api%20x", "//api", "/api//v2", "/api/../v3", "/./x",
	"/api?broken=%zz&ok=1", "/api?a;b=1&c=2", "/b#frag", "/api?x=a+b%26c"}
var c10Lits = []string{"pets", "items", "v2", "a b", "\xc3\xa9", "a%20b", "x.y", "a:b", "~u", "a+b", "a;b", "a,b", "a=b", "a@b", "a&b", "a'b", "(x)", "*", "!",
	"..", ".", "a%2Fb", "100%25", "a%3Fb", "a%23b", "[x]", "a|b", "a\"b", "<x>", "a\\b", "a^b", "`"}
var c10Keys = []string{"id", "name", "other", "n", "petId", "a.b", "x-y", "a b", "\xc3\xa9", "id2", "k%"}
var c10Vals = []string{"x/y", "a?b", "a#b", "a%b", "..", ".", "", "{other}", "{id}", "{n}", "%2F", "%7Bn%7D", "a b", "\xc3\xa9\xe2\x88\x9a", "\x00", "a+b", "a&b=c",
	":", ";,", "plain123", "1", "42", "../..", "/", "//", "?", "#", "%", "{", "}", "{}", "a/b/c", "x\ty", "\x7f", "~", "a=b", "@", "$", "\xff\xfe"}
var c10QNames = []string{"a", "shared", "bonly", "k", "k2", "q", "x", "x y", "a&b", "ponly", "\xc3\xa9"}
var c10QVals = []string{"1", "caller", "", "a b", "a&b=c", "x/y", "\xc3\xa9", "%41", "a+b", "#", "/a//b/", "x/../y", "https://h//p/./"}
var c10Schemes = []string{"http", "https", "ws", "wss", "", "HTTPS"}

// static query strings whose names and values look like paths or URLs (double slashes, dot segments, trailing slashes, escaped
// separators): whatever is done to the PATH of a base path or pattern (joining, cleaning, trimming) must leave them as written
var c10PQNames = []string{"callback", "dir", "path", "next", "x", "shared", "k", "u/v", "a//b", "q", "bonly", "../up"}
var c10PQVals = []string{"https://example.com//hooks/", "/var/data/", "a/../b", "./y", "../..", "/a/./b", "x//y", "http://h:80/p/../q", "/", "//",
	"/.", "/..", "a/", "..", ".", "%2F%2F", "/a%2F..%2Fb/", "/../", "//host/share/", "a/./", "s3://bucket//key/../k2/", "/tail/..", "/./", "a/b/../../../c",
	"HTTP://Example.COM/A/", "/%2e%2e/x", "///", "1"}
var c10PQParts = []string{"/api", "/api/v1/", "api", "", "/", "/v1", "/a/b/", "v2/", "/api/../v3", "//dbl"}

func c10PathLikeQuery(r *rand.Rand) string {
	n := 1 + r.Intn(3)
	var parts []string
	for i := 0; i < n; i++ {
		v := c10PQVals[r.Intn(len(c10PQVals))]
		if r.Intn(5) == 0 {
			v += c10PQVals[r.Intn(len(c10PQVals))]
		}
		parts = append(parts, c10PQNames[r.Intn(len(c10PQNames))]+"="+v)
	}
	return strings.Join(parts, "&")
}

// static query parameters fixed WITHOUT a value: a bare flag (?wsdl), a blank value (?pretty=), several blank values, a blank
// value next to a real one, mixed with valued parameters. Names collide with the caller's names (c10QNames) and with each other
// across base path and pattern, so that blank-over-valued and valued-over-blank precedence is exercised.
var c10BlankNames = []string{"wsdl", "watch", "pretty", "debug", "shared", "k", "bonly", "ponly", "q", "x", "a", "x y"}

func c10BlankQuery(r *rand.Rand) string {
	n := 1 + r.Intn(3)
	var parts []string
	for i := 0; i < n; i++ {
		k := url.QueryEscape(c10BlankNames[r.Intn(len(c10BlankNames))])
		switch r.Intn(7) {
		case 0, 1:
			parts = append(parts, k)
		case 2, 3:
			parts = append(parts, k+"=")
		case 4:
			parts = append(parts, k+"=&"+k)
		case 5:
			parts = append(parts, k+"=&"+k+"=v"+fmt.Sprint(i))
		default:
			parts = append(parts, k+"="+[]string{"1", "full", "base", "a+b"}[r.Intn(4)])
		}
	}
	return strings.Join(parts, "&")
}

// c10BlankStatic: the query string of a base path or pattern fixes a parameter without a value
func c10BlankStatic(s string) bool {
	_, q, ok := strings.Cut(s, "?")
	if !ok {
		return false
	}
	q, _, _ = strings.Cut(q, "#")
	for _, part := range strings.Split(q, "&") {
		if part == "" {
			continue
		}
		if _, v, _ := strings.Cut(part, "="); v == "" {
			return true
		}
	}
	return false
}

// c10Base draws a base path: the fixed table, or (one in four) a path part followed by a path-like query string, or (one in
// eight) a path part followed by a query string with valueless parameters
func c10Base(r *rand.Rand) string {
	switch k := r.Intn(8); {
	case k < 2:
		return c10PQParts[r.Intn(len(c10PQParts))] + "?" + c10PathLikeQuery(r)
	case k == 2:
		return c10PQParts[r.Intn(len(c10PQParts))] + "?" + c10BlankQuery(r)
	}
	return c10Bases[r.Intn(len(c10Bases))]
}

// c10Ctor draws how the Runtime receives its base path (see c10In.Ctor)
func c10Ctor(r *rand.Rand) string {
	switch r.Intn(10) {
	case 0, 1:
		return "direct"
	case 2:
		return "withclient"
	}
	return ""
}

func c10Bytes(r *rand.Rand, n int) string {
	b := make([]byte, n)
	for i := range b {
		b[i] = byte(r.Intn(256))
	}
	return string(b)
}

func c10Val(r *rand.Rand) string {
	switch r.Intn(10) {
	case 0:
		return c10Bytes(r, r.Intn(6))
	case 1:
		return c10Vals[r.Intn(len(c10Vals))] + c10Vals[r.Intn(len(c10Vals))]
	default:
		return c10Vals[r.Intn(len(c10Vals))]
	}
}

func c10SchemeList(r *rand.Rand) []Bs {
	n := r.Intn(4)
	var out []Bs
	for i := 0; i < n; i++ {
		out = append(out, Bs(c10Schemes[r.Intn(len(c10Schemes))]))
	}
	return out
}

func (c10) Gen(r *rand.Rand, tier string, i int) any {
	switch k := r.Intn(20); {
	case k >= 2 && k <= 4:
		return c10GenHist(r)
	case k == 0:
		v := c10Val(r)
		if r.Intn(2) == 0 {
			v = url.PathEscape(v)
			if r.Intn(3) == 0 && len(v) > 0 { // damage an escape
				p := r.Intn(len(v))
				v = v[:p] + "%" + v[p:]
			}
		}
		return c10In{Kind: "esc", V: Bs(v)}
	case k == 1:
		parts := []string{"", "/", "a", "a/", "/a", "a/b", "..", "../", "/..", "./", ".", "a//b", "a/./b", "a/../b", "/a/../../b", "../../x", "a/b/../../..", "{id}", "a b"}
		a := parts[r.Intn(len(parts))] + parts[r.Intn(len(parts))]
		b := parts[r.Intn(len(parts))] + parts[r.Intn(len(parts))]
		return c10In{Kind: "join", A: Bs(a), B: Bs(b)}
	}
	return c10GenURL(r, r.Intn(6) == 0)
}

// c10GenHist: one Runtime (host, base path, transport schemes fixed), 2-4 operations that differ in pattern, parameters,
// caller query and scheme list. Half of the histories have a Runtime without schemes of its own (the operation decides).
func c10GenHist(r *rand.Rand) c10In {
	in := c10In{Kind: "hist", Host: "api.example.com:8080", Ctor: c10Ctor(r)}
	switch r.Intn(4) {
	case 0:
		in.Base = Bs(c10Base(r))
	default:
		plain := []string{"/", "/api", "/api/v1/", "/v1?shared=base&bonly=1", "/api/?k=b&k2=b2", ""}
		in.Base = Bs(plain[r.Intn(len(plain))])
	}
	if r.Intn(2) == 0 {
		in.RS = c10SchemeList(r)
	}
	n := 2 + r.Intn(3)
	for s := 0; s < n; s++ {
		u := c10GenURL(r, r.Intn(12) == 0)
		if r.Intn(3) == 0 { // short lists over the two schemes that matter most
			two := [][]Bs{{"http"}, {"https"}, {"http", "https"}, {"https", "http"}, {"ws", "http"}, nil}
			u.OS = two[r.Intn(len(two))]
		}
		if s > 0 && r.Intn(5) == 0 { // the same operation again with other values
			prev := in.Steps[s-1]
			u.Pattern = prev.Pattern
			u.PP = nil
			for _, kv := range prev.PP {
				u.PP = append(u.PP, c10KV{kv.K, Bs(c10Val(r))})
			}
		}
		in.Steps = append(in.Steps, c10Step{Pattern: u.Pattern, PP: u.PP, QP: u.QP, OS: u.OS, AQ: u.AQ, AuthVia: u.AuthVia})
	}
	return in
}

func c10GenURL(r *rand.Rand, adversarial bool) c10In {
	in := c10In{Kind: "url", Host: "api.example.com:8080", Ctor: c10Ctor(r)}
	in.Base = Bs(c10Base(r))
	// keys used by this case
	nkeys := r.Intn(5)
	perm := r.Perm(len(c10Keys))
	var keys []string
	for j := 0; j < nkeys; j++ {
		keys = append(keys, c10Keys[perm[j]])
	}
	// pattern
	nseg := 1 + r.Intn(5)
	var sb strings.Builder
	used := 0
	for s := 0; s < nseg; s++ {
		sb.WriteByte('/')
		lit := func() string {
			l := c10Lits[r.Intn(len(c10Lits))]
			if !adversarial && r.Intn(3) != 0 {
				l = c10Lits[r.Intn(3)]
			}
			return l
		}
		switch c := r.Intn(10); {
		case c < 4 && len(keys) > 0:
			sb.WriteString("{" + keys[used%len(keys)] + "}")
			used++
		case c < 6 && len(keys) > 0:
			sb.WriteString(lit() + "{" + keys[used%len(keys)] + "}")
			used++
			if r.Intn(2) == 0 {
				sb.WriteString("-" + "{" + keys[used%len(keys)] + "}")
				used++
			}
			if r.Intn(2) == 0 {
				sb.WriteString(lit())
			}
		case c == 6 && adversarial:
			stray := []string{"{", "}", "{{id}", "{id}}", "{}", "{unset}", "{{id}a}", "}{", "{a/b}", "{id", "id}"}
			sb.WriteString(stray[r.Intn(len(stray))])
		default:
			sb.WriteString(lit())
		}
	}
	if r.Intn(4) == 0 {
		sb.WriteByte('/')
	}
	switch r.Intn(8) {
	case 0:
		sb.WriteString("?shared=pat&ponly=1")
	case 1:
		sb.WriteString("?a=p1&a=p2&k=pat")
	case 2:
		if adversarial {
			sb.WriteString("?")
		}
	case 3:
		if adversarial {
			sb.WriteString("#frag")
		}
	case 4:
		sb.WriteString("?" + c10PathLikeQuery(r))
	case 5:
		sb.WriteString("?" + c10BlankQuery(r))
	}
	in.Pattern = Bs(sb.String())
	if adversarial && r.Intn(10) == 0 {
		in.Pattern = Bs(strings.TrimPrefix(string(in.Pattern), "/"))
	}
	for _, k := range keys {
		if r.Intn(8) == 0 { // a placeholder without a value
			continue
		}
		in.PP = append(in.PP, c10KV{Bs(k), Bs(c10Val(r))})
	}
	if r.Intn(6) == 0 { // a value for a name the pattern does not use
		in.PP = append(in.PP, c10KV{"unused", Bs(c10Val(r))})
	}
	nq := r.Intn(4)
	qperm := r.Perm(len(c10QNames))
	for j := 0; j < nq; j++ {
		nv := r.Intn(3)
		if r.Intn(3) != 0 {
			nv = 1
		}
		var vs []Bs
		for x := 0; x < nv; x++ {
			vs = append(vs, Bs(c10QVals[r.Intn(len(c10QVals))]))
		}
		in.QP = append(in.QP, c10KVs{Bs(c10QNames[qperm[j]]), vs})
	}
	// a third of the cases with caller query parameters: some of them are written by the auth writer (API key in the query)
	if len(in.QP) > 0 && r.Intn(3) == 0 {
		cut := r.Intn(len(in.QP)) // QP[cut:] move to the auth writer
		in.AQ = append([]c10KVs(nil), in.QP[cut:]...)
		in.QP = in.QP[:cut]
		in.AuthVia = []string{"op", "default"}[r.Intn(2)]
	}
	in.RS = c10SchemeList(r)
	in.OS = c10SchemeList(r)
	return in
}

// c10AuthWriter writes the given query parameters the way an API-key auth writer does: the real client.APIKeyAuth(name, query, v)
// for a single value, SetQueryParam with the value list otherwise; several of them composed with client.Compose.
func c10AuthWriter(aq []c10KVs) runtime.ClientAuthInfoWriter {
	var ws []runtime.ClientAuthInfoWriter
	for _, kv := range aq {
		kv := kv
		if len(kv.Vs) == 1 {
			ws = append(ws, client.APIKeyAuth(string(kv.K), "query", string(kv.Vs[0])))
			continue
		}
		ws = append(ws, runtime.ClientAuthInfoWriterFunc(func(req runtime.ClientRequest, _ strfmt.Registry) error {
			return req.SetQueryParam(string(kv.K), bsList(kv.Vs)...)
		}))
	}
	if len(ws) == 1 {
		return ws[0]
	}
	return client.Compose(ws...)
}

// c10CallerQ: every query parameter the caller sets, through the params writer or through the auth writer
func c10CallerQ(qp, aq []c10KVs) []c10KVs {
	return append(append([]c10KVs(nil), qp...), aq...)
}

const c10Runs = 12

// c10Order is the insertion order of the path parameters for one run (Go also randomises the iteration itself).
func c10Order(ppIn []c10KV, run int) []c10KV {
	pp := append([]c10KV(nil), ppIn...)
	distinct := true
	seen := map[string]bool{}
	for _, kv := range pp {
		if seen[string(kv.K)] {
			distinct = false
		}
		seen[string(kv.K)] = true
	}
	if distinct && len(pp) > 1 {
		rot := run % len(pp)
		pp = append(pp[rot:], pp[:rot]...)
		if (run/len(pp))%2 == 1 {
			for a, b := 0, len(pp)-1; a < b; a, b = a+1, b-1 {
				pp[a], pp[b] = pp[b], pp[a]
			}
		}
	}
	return pp
}

func c10NewRuntime(in c10In) *client.Runtime {
	switch in.Ctor {
	case "direct":
		rt := client.New(string(in.Host), "/", bsList(in.RS))
		rt.BasePath = string(in.Base)
		return rt
	case "withclient":
		return client.NewWithClient(string(in.Host), string(in.Base), bsList(in.RS), nil)
	}
	return client.New(string(in.Host), string(in.Base), bsList(in.RS))
}

// c10RtBase is the base path the property speaks about for this case: the constructor's argument with a slash in front
// when it has none (the documented behaviour of client.New), or the text assigned to the field.
func c10RtBase(in c10In) string {
	b := string(in.Base)
	if in.Ctor != "direct" && !strings.HasPrefix(b, "/") {
		b = "/" + b
	}
	return b
}

// c10Build builds one operation's request on the given Runtime and projects it.
func c10Build(rt *client.Runtime, st c10Step, run int) (out c10Out) {
	pp := c10Order(st.PP, run)
	panicked, msg := recoverTo(func() {
		op := &runtime.ClientOperation{
			ID:                 "op",
			Method:             "GET",
			PathPattern:        string(st.Pattern),
			ProducesMediaTypes: []string{runtime.JSONMime},
			ConsumesMediaTypes: []string{runtime.JSONMime},
			Schemes:            bsList(st.OS),
			Params: runtime.ClientRequestWriterFunc(func(req runtime.ClientRequest, _ strfmt.Registry) error {
				for _, kv := range pp {
					if err := req.SetPathParam(string(kv.K), string(kv.V)); err != nil {
						return err
					}
				}
				for _, kv := range st.QP {
					if err := req.SetQueryParam(string(kv.K), bsList(kv.Vs)...); err != nil {
						return err
					}
				}
				return nil
			}),
			Reader: runtime.ClientResponseReaderFunc(func(runtime.ClientResponse, runtime.Consumer) (interface{}, error) { return nil, nil }),
		}
		rt.DefaultAuthentication = nil
		if len(st.AQ) > 0 {
			if st.AuthVia == "default" {
				rt.DefaultAuthentication = c10AuthWriter(st.AQ)
			} else {
				op.AuthInfo = c10AuthWriter(st.AQ)
			}
		}
		req, err := rt.CreateHttpRequest(op)
		if err != nil {
			out.Err, out.ErrMsg = true, err.Error()
			return
		}
		out.EPath = Bs(req.URL.EscapedPath())
		q, _ := url.ParseQuery(req.URL.RawQuery)
		var names []string
		for k := range q {
			names = append(names, k)
		}
		sort.Strings(names)
		for _, k := range names {
			out.Query = append(out.Query, c10KVs{Bs(k), toBs(q[k])})
		}
		out.Scheme = Bs(req.URL.Scheme)
		out.Host = Bs(req.URL.Host)
	})
	if panicked {
		out = c10Out{Panic: msg}
	}
	return
}

func c10Once(in c10In, run int) (out c10Out) {
	var rt *client.Runtime
	if panicked, msg := recoverTo(func() { rt = c10NewRuntime(in) }); panicked {
		return c10Out{Panic: msg}
	}
	return c10Build(rt, c10Step{Pattern: in.Pattern, PP: in.PP, QP: in.QP, OS: in.OS, AQ: in.AQ, AuthVia: in.AuthVia}, run)
}

// c10Distinct collects distinct results (error texts dropped), sorted.
type c10Distinct struct {
	seen map[string]bool
	outs []c10Out
}

func (d *c10Distinct) add(o c10Out) {
	o.ErrMsg = ""
	b, _ := json.Marshal(o)
	if d.seen == nil {
		d.seen = map[string]bool{}
	}
	if !d.seen[string(b)] {
		d.seen[string(b)] = true
		d.outs = append(d.outs, o)
	}
}

func (d *c10Distinct) sorted() []c10Out {
	sort.Slice(d.outs, func(a, b int) bool {
		x, _ := json.Marshal(d.outs[a])
		y, _ := json.Marshal(d.outs[b])
		return string(x) < string(y)
	})
	return d.outs
}

func c10StepIn(in c10In, st c10Step) c10In {
	return c10In{Kind: "url", Ctor: in.Ctor, Base: in.Base, Host: in.Host, RS: in.RS, Pattern: st.Pattern, PP: st.PP, QP: st.QP, OS: st.OS, AQ: st.AQ, AuthVia: st.AuthVia}
}

func (c10) Run(inAny any) any {
	in := inAny.(c10In)
	var obs c10Obs
	switch in.Kind {
	case "url", "scheme":
		if in.Kind == "scheme" {
			in.Base, in.Pattern, in.Host = "/", "/x", "h"
		}
		runs := c10Runs
		if len(in.PP) < 2 {
			runs = 2
		}
		var d c10Distinct
		for j := 0; j < runs; j++ {
			d.add(c10Once(in, j))
		}
		obs.Outs = d.sorted()
	case "hist":
		runs := 2
		for _, st := range in.Steps {
			if len(st.PP) >= 2 {
				runs = c10Runs
			}
		}
		hist := make([]c10Distinct, len(in.Steps))
		for j := 0; j < runs; j++ {
			var rt *client.Runtime
			if panicked, msg := recoverTo(func() { rt = c10NewRuntime(in) }); panicked {
				for s := range in.Steps {
					hist[s].add(c10Out{Panic: msg})
				}
				continue
			}
			for s, st := range in.Steps { // the same Runtime for every step
				hist[s].add(c10Build(rt, st, j))
			}
		}
		for s, st := range in.Steps {
			obs.Hist = append(obs.Hist, hist[s].sorted())
			var d c10Distinct
			for j := 0; j < runs; j++ {
				d.add(c10Once(c10StepIn(in, st), j))
			}
			obs.Fresh = append(obs.Fresh, d.sorted())
		}
	case "esc":
		panicked, msg := recoverTo(func() {
			obs.PE = Bs(url.PathEscape(string(in.V)))
			un, err := url.PathUnescape(string(in.V))
			if err == nil {
				obs.UnOK, obs.Un = true, Bs(un)
				u := &url.URL{Path: un, RawPath: string(in.V)}
				obs.EP = Bs(u.EscapedPath())
			}
		})
		if panicked {
			obs.Panic = msg
		}
	case "join":
		obs.J = Bs(path.Join(string(in.A), string(in.B)))
	}
	return obs
}

func c10CoqKVs(xs []c10KVs) string {
	return coqList(xs, func(kv c10KVs) string { return coqPair(coqBytes(string(kv.K)), coqBytesList(bsList(kv.Vs))) })
}

func c10CoqOut(o c10Out) string {
	switch {
	case o.Panic != "":
		return "IPanic"
	case o.Err:
		return "IErr"
	}
	return fmt.Sprintf("(IOk %s %s %s %s)", coqBytes(string(o.EPath)), c10CoqKVs(o.Query), coqBytes(string(o.Scheme)), coqBytes(string(o.Host)))
}

func (c10) Coq(inAny any, obsAny any) string {
	in, obs := inAny.(c10In), obsAny.(c10Obs)
	switch in.Kind {
	case "url":
		return fmt.Sprintf("CUrl %s %s %s %s %s %s %s %s %s", coqBool(in.Ctor != "direct"), coqBytes(string(in.Base)), coqBytes(string(in.Pattern)),
			coqList(in.PP, func(kv c10KV) string { return coqPair(coqBytes(string(kv.K)), coqBytes(string(kv.V))) }),
			c10CoqKVs(c10CallerQ(in.QP, in.AQ)), coqBytesList(bsList(in.RS)), coqBytesList(bsList(in.OS)), coqBytes(string(in.Host)),
			coqList(obs.Outs, c10CoqOut))
	case "hist":
		type hs struct {
			st          c10Step
			outs, fresh []c10Out
		}
		var steps []hs
		for i, st := range in.Steps {
			steps = append(steps, hs{st, obs.Hist[i], obs.Fresh[i]})
		}
		return fmt.Sprintf("CHist %s %s %s %s %s", coqBool(in.Ctor != "direct"), coqBytes(string(in.Base)), coqBytesList(bsList(in.RS)), coqBytes(string(in.Host)),
			coqList(steps, func(h hs) string {
				return fmt.Sprintf("(HStep %s %s %s %s %s %s)", coqBytes(string(h.st.Pattern)),
					coqList(h.st.PP, func(kv c10KV) string { return coqPair(coqBytes(string(kv.K)), coqBytes(string(kv.V))) }),
					c10CoqKVs(c10CallerQ(h.st.QP, h.st.AQ)), coqBytesList(bsList(h.st.OS)), coqList(h.outs, c10CoqOut), coqList(h.fresh, c10CoqOut))
			}))
	case "scheme":
		got := "[]"
		if len(obs.Outs) == 1 && !obs.Outs[0].Err && obs.Outs[0].Panic == "" {
			got = coqBytes(string(obs.Outs[0].Scheme))
		}
		return fmt.Sprintf("CScheme %s %s %s", coqBytesList(bsList(in.RS)), coqBytesList(bsList(in.OS)), got)
	case "esc":
		return fmt.Sprintf("CEsc %s %s %s %s", coqBytes(string(in.V)), coqBytes(string(obs.PE)), coqOpt(obs.UnOK, coqBytes(string(obs.Un))), coqBytes(string(obs.EP)))
	case "join":
		return fmt.Sprintf("CJoin %s %s %s", coqBytes(string(in.A)), coqBytes(string(in.B)), coqBytes(string(obs.J)))
	}
	panic("c10: unknown kind " + in.Kind)
}

// c10Joined is the decoded joined pattern the client substitutes into (empty string when an input does not parse).
func c10Joined(in c10In) (string, bool) {
	b, err1 := url.Parse(c10RtBase(in))
	p, err2 := url.Parse(string(in.Pattern))
	if err1 != nil || err2 != nil {
		return "", false
	}
	return path.Join(b.Path, p.Path), true
}

// c10Substituted is the path handed to the URL parser (before the re-encoding of the literals), parameters in the listed order.
func c10Substituted(in c10In) (string, bool) {
	b, err1 := url.Parse(c10RtBase(in))
	p, err2 := url.Parse(string(in.Pattern))
	if err1 != nil || err2 != nil {
		return "", false
	}
	u := path.Join(b.Path, p.Path)
	m := map[string]string{}
	var order []string
	for _, kv := range in.PP {
		if _, ok := m[string(kv.K)]; !ok {
			order = append(order, string(kv.K))
		}
		m[string(kv.K)] = string(kv.V)
	}
	for _, k := range order {
		u = strings.ReplaceAll(u, "{"+k+"}", url.PathEscape(m[k]))
	}
	if p.Path != "" && p.Path != "/" && strings.HasSuffix(p.Path, "/") {
		u += "/"
	}
	return u, true
}

// c10PathLikeStatic: the query string of a base path or pattern contains something a path normalisation would rewrite
func c10PathLikeStatic(s string) bool {
	_, q, ok := strings.Cut(s, "?")
	if !ok {
		return false
	}
	return strings.Contains(q, "//") || strings.Contains(q, "/.") || strings.HasSuffix(q, "/") || strings.Contains(q, "./")
}

// c10StrayBrace reports a brace that is not part of a {name} placeholder (name free of braces and slashes).
func c10StrayBrace(s string) bool {
	for i := 0; i < len(s); i++ {
		switch s[i] {
		case '}':
			return true
		case '{':
			j := i + 1
			for j < len(s) && s[j] != '{' && s[j] != '}' && s[j] != '/' {
				j++
			}
			if j >= len(s) || s[j] != '}' {
				return true
			}
			i = j
		}
	}
	return false
}

func (c10) Classify(inAny any, obsAny any) []string {
	in, obs := inAny.(c10In), obsAny.(c10Obs)
	switch in.Kind {
	case "url":
		return c10ClassifyURL(in, obs.Outs, obs.Outs)
	case "hist":
		// a history falls under an open finding only if the step concerned gives, inside the history, exactly what a
		// fresh Runtime gives (the finding is about one request; a difference between the two is never excused)
		var out []string
		for i, st := range in.Steps {
			if i >= len(obs.Hist) || i >= len(obs.Fresh) {
				break
			}
			a, _ := json.Marshal(obs.Hist[i])
			b, _ := json.Marshal(obs.Fresh[i])
			stray := false
			if joined, ok := c10Joined(c10StepIn(in, st)); ok {
				stray = c10StrayBrace(joined)
			}
			if string(a) != string(b) && !stray {
				return nil
			}
			for _, k := range c10ClassifyURL(c10StepIn(in, st), obs.Hist[i], obs.Fresh[i]) {
				dup := false
				for _, x := range out {
					dup = dup || x == k
				}
				if !dup {
					out = append(out, k)
				}
			}
		}
		return out
	}
	return nil
}

func c10ClassifyURL(in c10In, outs, outs2 []c10Out) []string {
	joined, ok := c10Joined(in)
	if !ok {
		return nil
	}
	var out []string
	// F-C10-2: a percent sign among the decoded literals (the pattern or base path wrote %25)
	if strings.Contains(joined, "%") && len(outs) == 1 {
		out = append(out, "clienturl.percent_literal")
	}
	// F-C10-3: the substituted path begins with two slashes and is read as //authority (segments lost, or an error for a bad host)
	if u, ok := c10Substituted(in); ok && strings.HasPrefix(u, "//") && !strings.HasPrefix(u, "///") && len(outs) == 1 {
		out = append(out, "clienturl.leading_double_slash")
	}
	// F-C10-5: the substituted path is relative (a base path without a leading slash whose segments a dot-dot segment of the
	// pattern removed, or an empty one) and its first segment holds a colon: the URL parser reads scheme:opaque, the path is lost
	if u, ok := c10Substituted(in); ok && !strings.HasPrefix(u, "/") && len(outs) == 1 {
		first := u
		if i := strings.IndexByte(first, '/'); i >= 0 {
			first = first[:i]
		}
		if strings.Contains(first, ":") {
			out = append(out, "clienturl.relative_first_segment_colon")
		}
	}
	// F-C10-4: stray braces in the pattern make the sequential replacement depend on the map order
	if c10StrayBrace(joined) && (len(outs) > 1 || len(outs2) > 1) {
		out = append(out, "clienturl.stray_brace_order")
	}
	return out
}

func (c10) Category(inAny any, obsAny any) (string, bool) {
	in, obs := inAny.(c10In), obsAny.(c10Obs)
	switch in.Kind {
	case "scheme":
		return fmt.Sprintf("scheme/rs%d-os%d", len(in.RS), len(in.OS)), len(in.RS)+len(in.OS) >= 2
	case "esc":
		if !obs.UnOK {
			return "esc/bad-escape", true
		}
		return "esc/ok", true
	case "join":
		return "join", true
	case "hist":
		picks := map[string]bool{}
		stateless := true
		for i := range in.Steps {
			if i < len(obs.Fresh) && len(obs.Fresh[i]) > 0 {
				picks[string(obs.Fresh[i][0].Scheme)] = true
			}
			a, _ := json.Marshal(obs.Hist[i])
			b, _ := json.Marshal(obs.Fresh[i])
			stateless = stateless && string(a) == string(b)
		}
		tag := fmt.Sprintf("hist/steps%d", len(in.Steps))
		if len(in.RS) == 0 {
			tag += ",no-transport-schemes"
		}
		if len(picks) > 1 {
			tag += ",schemes-differ"
		}
		if !stateless {
			tag += ",DIFFERS-FROM-FRESH"
		}
		return tag, len(in.Steps) >= 2
	}
	joined, ok := c10Joined(in)
	holes := 0
	for _, kv := range in.PP {
		if strings.Contains(joined, "{"+string(kv.K)+"}") {
			holes++
		}
	}
	var tags []string
	if !ok {
		tags = append(tags, "unparsable-input")
	}
	tags = append(tags, fmt.Sprintf("holes%d", holes))
	if strings.HasSuffix(strings.SplitN(string(in.Pattern), "?", 2)[0], "/") {
		tags = append(tags, "slash")
	}
	if strings.Contains(string(in.Pattern), "?") || strings.Contains(string(in.Base), "?") {
		tags = append(tags, "staticq")
	}
	if c10PathLikeStatic(string(in.Base)) || c10PathLikeStatic(string(in.Pattern)) {
		tags = append(tags, "pathlike-staticq")
	}
	if c10BlankStatic(string(in.Base)) || c10BlankStatic(string(in.Pattern)) {
		tags = append(tags, "blank-staticq")
	}
	if in.Ctor != "" {
		tags = append(tags, in.Ctor)
	}
	if len(in.QP) > 0 {
		tags = append(tags, "callerq")
	}
	if len(in.AQ) > 0 {
		if in.AuthVia == "default" {
			tags = append(tags, "authq-default")
		} else {
			tags = append(tags, "authq-op")
		}
	}
	lit := joined
	for _, kv := range in.PP {
		lit = strings.ReplaceAll(lit, "{"+string(kv.K)+"}", "")
	}
	if lit != (&url.URL{Path: lit}).EscapedPath() || strings.ContainsAny(lit, "{}") {
		tags = append(tags, "oddliteral")
	}
	for _, kv := range in.PP {
		if strings.ContainsAny(string(kv.V), "/?#%{}") || kv.V == "" || strings.Contains(string(kv.V), "..") {
			tags = append(tags, "hostilevalue")
			break
		}
	}
	if len(in.RS)+len(in.OS) >= 2 {
		tags = append(tags, "schemes")
	}
	switch {
	case len(obs.Outs) == 1 && obs.Outs[0].Err:
		tags = append(tags, "ERR")
	case len(obs.Outs) == 1 && obs.Outs[0].Panic != "":
		tags = append(tags, "PANIC")
	case len(obs.Outs) > 1:
		tags = append(tags, "ORDER-DEPENDENT")
	}
	return "url/" + strings.Join(tags, ","), holes > 0 || strings.Contains(string(in.Pattern), "?") || strings.Contains(string(in.Base), "?")
}
