//go:build verif && (c01 || allprops)

package main

import (
	"bufio"
	"encoding/json"
	"fmt"
	"math/rand"
	"net/http"
	"net/http/httptest"
	"net/url"
	"path"
	"regexp"
	"sort"
	"strings"

	"github.com/go-openapi/loads"
	"github.com/go-openapi/runtime"
	"github.com/go-openapi/runtime/middleware"
	"github.com/go-openapi/runtime/middleware/untyped"
	"github.com/go-openapi/spec"
	"github.com/go-openapi/strfmt"
	"github.com/go-openapi/swag"
)

// C01 — spec-driven dispatch (middleware/router.go over denco). Case kinds:
//   spec   one generated Swagger 2.0 document served by the real middleware and ~20 requests:
//          every request line is parsed by http.ReadRequest, then (a) looked up with the public
//          middleware.DefaultRouter (Lookup, OtherMethods), (b) served through Context.APIHandler or
//          Context.RoutesHandler with one recording untyped handler per operation
//   clean  path.Clean on a string       join  path.Join on two strings      unesc  url.PathUnescape

type c01Op struct {
	M Bs `json:"m"` // method key of the path item (lower case in the document)
	T Bs `json:"t"` // path template
}

type c01Req struct {
	M      Bs     `json:"m"`                // method as written on the request line
	Target Bs     `json:"target"`           // request target as written on the request line
	Direct bool   `json:"direct,omitempty"` // not delivered through net/http: Target is handed to Router.Lookup as the path
	Origin string `json:"origin,omitempty"`
}

type c01In struct {
	Kind string   `json:"kind"`
	Base Bs       `json:"base,omitempty"`
	Ops  []c01Op  `json:"ops,omitempty"`
	Reqs []c01Req `json:"reqs,omitempty"`
	Via  string   `json:"via,omitempty"` // api | routes
	S    Bs       `json:"s,omitempty"`
	S2   Bs       `json:"s2,omitempty"`
	Fam  string   `json:"fam,omitempty"` // generator family (distribution report only)
}

type c01Param struct {
	N Bs `json:"n"`
	V Bs `json:"v"`
}

type c01ReqObs struct {
	Parsed  bool       `json:"parsed"`
	Method  Bs         `json:"method,omitempty"` // Request.Method
	Esc     Bs         `json:"esc,omitempty"`    // Request.URL.EscapedPath()
	Found   bool       `json:"found,omitempty"`  // Router.Lookup
	Pattern Bs         `json:"pattern,omitempty"`
	Op      int        `json:"op,omitempty"`
	Params  []c01Param `json:"params,omitempty"`
	LPanic  string     `json:"lpanic,omitempty"`
	Others  []Bs       `json:"others,omitempty"` // Router.OtherMethods, sorted
	Served  bool       `json:"served,omitempty"`
	Ran     int        `json:"ran"` // operation whose handler ran, -1 none
	Got     []c01Param `json:"got,omitempty"`
	Status  int        `json:"status,omitempty"`
	Allow   []Bs       `json:"allow,omitempty"`
	SPanic  string     `json:"spanic,omitempty"`
}

type c01Obs struct {
	Err  string      `json:"err,omitempty"`
	Reqs []c01ReqObs `json:"reqs,omitempty"`
	Out  Bs          `json:"out,omitempty"`
	Ok   bool        `json:"ok,omitempty"`
}

type c01 struct{}

func init() { register(c01{}) }

func (c01) ID() string        { return "C01" }
func (c01) CoqModule() string { return "Check_C01" }
func (c01) Rule() string {
	return "spec cases: base path in {\"\", /, /api, /api/, /a/b}; 1-12 templates grown from a shared-prefix pool (literal and {name} siblings, 0-3 placeholders, " +
		"pairwise distinct denco shapes per method), ~12% of the documents with a composite segment ({a}.{b}, {name}--{ver}, {a}.json ...); random non-empty subsets of the 7 verbs; " +
		"~20 requests per document written as raw request lines and parsed by http.ReadRequest: instantiations of a random operation with values from a corpus holding " +
		"%2F %25 : * # ; = . .. e-acute { } + ~ and sibling literals, then //, /./, /x/../, leading /../, trailing /, dropped/extra segment, query string; method = registered, other verb, " +
		"case-mangled or unknown; plus targets handed to Router.Lookup directly (invalid escapes, relative paths, empty). Half of the documents are served by Context.APIHandler, half by " +
		"Context.RoutesHandler; MatchedRouteFrom is read by a Builder middleware; every MatchedRoute answered by Router.Lookup is kept and compared again after the last request of the document. " +
		"One generated case in eight (by case index) is a 'relnames' document: templates whose placeholder names are prefixes / suffixes / infixes of one another (id idx id2, item itemId, a ab abc, Id, d, tem ...) " +
		"in both orders, with literal segments spelled like the names, one in three with such a placeholder inside a composite segment (requested with strict instantiations only); two enumerated documents of that kind. " +
		"One generated case in sixteen is a 'backtrack' document: <prefix>/{p1}/../{pd}/<t> (d = 1..3) next to <prefix>/l1/../lj/{qj}/<tj> for every j <= d under one verb, requested with <prefix>/l1/../lj/v../<t>, " +
		"which follows the literal siblings first and fits the outer template only. Neighbours: after about 38% of the served requests one to three requests follow at once that differ from their predecessor in one dimension only (one byte of the target spelled the other way, %XX <-> byte, so that the " +
		"percent-decoded path is the same and the encoded one is not; another verb; the letter case of the method; another value / cleaning detour; the query string; nothing), one in three followed by the first one again; " +
		"MatchedRouteFrom of every served request is retained like the Router.Lookup answers; two enumerated documents of that kind. Placeholder values include escapes and raw bytes that are not well-formed UTF-8 (%E9, %FF%FE, %C3, %ED%A0%80, %C0%AF ...). clean/join/unesc cases compare the three library models with path.Clean, path.Join, url.PathUnescape. " +
		"Non-trivial: a document with a parameterised template where at least one request ran a handler with parameters and at least one was answered 405 or 404."
}

func (c01) Decode(raw json.RawMessage) (any, error) {
	var in c01In
	err := json.Unmarshal(raw, &in)
	return in, err
}

func (c01) Enumerate(tier string) []any {
	var out []any
	for _, s := range []string{"", "/", ".", "..", "/..", "/.", "a", "a/", "/a/", "//", "/a//b", "/a/./b", "/a/../b", "/a/b/..", "/../a", "../a", "a/../..", "a/../../b", "./a", "/a/b/../../..", "/%2F/../x", "/a/...", "/a/.b", "/a/..b/", "a//b/./c/..", "../../", "/a/b/"} {
		out = append(out, c01In{Kind: "clean", S: Bs(s)})
	}
	for _, b := range []string{"", "/", "/api", "/api/", "/a/b", "api", "/a/../b", "."} {
		for _, t := range []string{"", "/", "/x", "/x/", "x", "/x/{id}", "/../x", "/./x//y"} {
			out = append(out, c01In{Kind: "join", S: Bs(b), S2: Bs(t)})
		}
	}
	for _, s := range []string{"", "%", "%2", "%2F", "%2f", "%zz", "a%25b", "%25%32%35", "+", "a+b%20c", "%4", "%G0", "%0G", "%C3%A9", "\xc3\xa9", "%00", "%7B%7D", "a%", "%%"} {
		out = append(out, c01In{Kind: "unesc", S: Bs(s)})
	}
	// placeholder names that are prefixes / suffixes / infixes of one another, in both orders
	mk := func(base, via string, ops []string, targets []string) c01In {
		in := c01In{Kind: "spec", Base: Bs(base), Via: via, Fam: "relnames"}
		for _, o := range ops {
			f := strings.SplitN(o, " ", 2)
			in.Ops = append(in.Ops, c01Op{M: Bs(f[0]), T: Bs(f[1])})
		}
		for _, t := range targets {
			f := strings.SplitN(t, " ", 2)
			in.Reqs = append(in.Reqs, c01Req{M: Bs(f[0]), Target: Bs(f[1]), Origin: "relnames"})
		}
		return in
	}
	out = append(out, mk("/api", "api",
		[]string{"get /items/{itemId}/related/{item}", "get /items/{itemId}", "get /u/{a}/{ab}", "put /u/{ab}/x/{a}", "get /v/{idx}/{id2}/{id}",
			"post /w/{xid}/{id}", "delete /w/{itemId}/{tem}", "get /id/{id}/idx/{idx}", "patch /n/{filename}/{name}/{am}"},
		[]string{"GET /api/items/42/related/shoe", "GET /api/items/42", "GET /api/u/1/2", "PUT /api/u/1/x/2", "GET /api/u/1/x/2", "GET /api/v/7/8/9",
			"POST /api/w/p/q", "DELETE /api/w/p/q", "get /api/id/1/idx/2", "PATCH /api/n/f.txt/n%2Fm/am", "GET /api/items/a%2Fb/related/%25", "GET /api//items/./42/related/x/../shoe/"}))
	out = append(out, mk("", "routes",
		[]string{"get /c/{itemId}.{b}/y/{item}", "put /c/{ab}/{a}-{b}", "get /d/{idx}/{id}.json", "post /e/{a}.{ab}", "post /f/{ab}--{a}/{abc}", "delete /g/{id}/{d}_{idx}"},
		[]string{"GET /c/42.x/y/shoe", "PUT /c/1/2-3", "GET /d/7/8.json", "POST /e/1.2", "POST /f/1--2/3", "DELETE /g/1/2_3", "POST /c/42.x/y/shoe", "GET /c//42.x/./y/shoe"}))
	// neighbouring requests on one Context: the same percent-decoded path under two spellings, one after the other
	for _, v := range []struct{ base, via string }{{"/api", "routes"}, {"", "api"}} {
		in := mk(v.base, v.via,
			[]string{"get /files/{name}", "get /files/{dir}/{name}", "put /files/{name}", "get /d/{a}/x", "get /d/x", "delete /k/{key}"},
			[]string{"GET /files/a%2Fb", "GET /files/a/b", "GET /files/a%2Fb", "GET /files/a/b", "PUT /files/a%2Fb", "PUT /files/a/b", "PUT /files/a%2Fb",
				"GET /d/%2E%2E/x", "GET /d/../x", "GET /d/z/x", "GET /d/z%2Fx", "GET /files/%61", "GET /files/a", "get /files/c%2Fd", "get /files/c/d",
				"DELETE /k/caf%E9", "DELETE /k/caf%C3%A9", "DELETE /k/%FF%FE", "DELETE /k/%FE%FF", "DELETE /k/%FF", "GET /k/%FF", "DELETE /k/a%2Fb", "DELETE /k/a/b"})
		in.Fam = "neighbours"
		for i := range in.Reqs {
			in.Reqs[i].Target = Bs(v.base) + in.Reqs[i].Target
			in.Reqs[i].Origin = "neighbours"
		}
		out = append(out, in)
	}
	return out
}

// ---------- generator ----------

var c01Bases = []string{"", "/", "/api", "/api/", "/a/b"}
var c01Verbs = []string{"get", "put", "post", "delete", "options", "head", "patch"}
var c01Lits = []string{"a", "b", "ab", "abc", "b.c", "a-b", "x1", "v1", "items", "a=b", "g", "files", "z~", "a;b", "a,b", "$x", "a@b", "A", "..."}
var c01Names = []string{"id", "x", "y", "name", "p1", "ver", "a", "b", "item-id", "Key", "idx", "ab", "item", "itemId"}

// placeholder names one of which is a substring of the other (short, long): prefixes, suffixes, infixes.
// A router that locates a placeholder in the template by anything less than the full {name} confuses them.
var c01RelPairs = [][2]string{{"id", "idx"}, {"id", "id2"}, {"item", "itemId"}, {"a", "ab"}, {"ab", "abc"}, {"a", "abc"}, // prefix
	{"Id", "itemId"}, {"d", "id"}, {"b", "ab"}, {"id", "xid"}, {"name", "filename"}, // suffix
	{"tem", "itemId"}, {"d", "idx"}, {"b", "abc"}, {"x", "p1x2"}, {"am", "names"}} // infix
var c01RelSeps = []string{".", "-", "--", "_", "::", "@", ".v"}
var c01CompSegs = []string{"{a}.{b}", "{name}--{ver}", "{a}.json", "{x}_{y}_{z}", "{a}-{b}", "{id}.tar.gz", "{a}::{b}", "{p1}@{id}"}
var c01Values = []string{"x", "abc", "b", "a", "ab", "items", "1", "%2F", "a%2Fb", "%2f", "%25", "%2525", "a%25", ":", ":id", "a:b", "*", "*w", "a*", "#", "%23", "a%23b", ";", "a;b=c", "=", "a=b", "=:",
	".", "..", "...", "%2E%2E", "%2e", ".a", "\xc3\xa9", "%C3%A9", "%20", "a%20b", "a+b", "~", "$", ",", "%00", "%7Bx%7D", "{x}", "{id}", "x.y", "x.y.z", ".y", "x.", "abc--1", "abc-1", "--", "a.json", ".json", "a.jsonl",
	"x_y_z", "x_y", "v.tar.gz", "a::b", "a@b", "%3A", "%2A", "%", "%zz",
	// escapes (and raw bytes) that do not spell well-formed UTF-8: Latin-1, binary keys, a truncated sequence, a surrogate, an
												// overlong form, a lone continuation byte, and pairs that differ only in the invalid bytes. A value is a byte string.
												"caf%E9", "%E9", "%FF%FE", "%FE%FF", "%FF", "%C3", "a%C3", "%ED%A0%80", "%C0%AF", "%80", "%BF%80", "a%FFb%FEc", "a%FEb%FFc", "%F0%9F%98", "%E9t%E9", "\xe9", "k\xff", "%EF%BF%BD", "%C3%A9%FF"}
var c01BadCompSegs = []string{"{a}x{b", "{a}x}b{c}", "{a}}{b}", "{a}}", "{x}-{y", "{a}.}{b}"} // unbalanced braces after a placeholder
var c01PlaceholderRe = regexp.MustCompile(`\{([^{}/]+)\}`)

func c01Pick(r *rand.Rand, xs []string) string { return xs[r.Intn(len(xs))] }

// analysis.ParamsFor keys the parameters of an operation by swag.ToGoName(name): two placeholders such as
// {itemId} and {item-id} (or {id} and {Id}) are one entry there and the binder drops one of them. That is
// outside the router; the generator keeps such names out of one template.
func c01NameClash(names map[string]bool, nm string) bool {
	if names[nm] {
		return true
	}
	g := swag.ToGoName(nm)
	for k := range names {
		if swag.ToGoName(k) == g {
			return true
		}
	}
	return false
}

// denco shape of a full path: placeholders (whole or composite segments) as ":"
func c01Shape(full string) string {
	segs := strings.Split(full, "/")
	for i, s := range segs {
		if strings.HasPrefix(s, "{") {
			segs[i] = ":"
		}
	}
	return strings.Join(segs, "/")
}

func c01GenTemplates(r *rand.Rand, composite bool) []string {
	n := 1 + r.Intn(12)
	if r.Intn(3) == 0 {
		n = 1 + r.Intn(4)
	}
	var tpls [][]string
	seen := map[string]bool{}
	compLeft := 0
	if composite {
		compLeft = 1 + r.Intn(2)
	}
	for tries := 0; len(tpls) < n && tries < 200; tries++ {
		var segs []string
		if len(tpls) > 0 && r.Intn(10) < 7 {
			// share a prefix with an earlier template
			prev := tpls[r.Intn(len(tpls))]
			segs = append(segs, prev[:r.Intn(len(prev)+1)]...)
		}
		target := 1 + r.Intn(4)
		names := map[string]bool{}
		nph := 0
		for _, s := range segs {
			for _, m := range c01PlaceholderRe.FindAllStringSubmatch(s, -1) {
				names[m[1]] = true
				nph++
			}
		}
		for len(segs) < target {
			k := r.Intn(10)
			switch {
			case compLeft > 0 && k < 3 && nph == 0:
				cs := c01Pick(r, c01CompSegs)
				if r.Intn(5) == 0 {
					cs = c01Pick(r, c01BadCompSegs)
				}
				ok := true
				for _, m := range c01PlaceholderRe.FindAllStringSubmatch(cs, -1) {
					if c01NameClash(names, m[1]) {
						ok = false
					}
				}
				if !ok {
					continue
				}
				for _, m := range c01PlaceholderRe.FindAllStringSubmatch(cs, -1) {
					names[m[1]] = true
					nph++
				}
				segs = append(segs, cs)
				compLeft--
			case k < 4 && nph < 3:
				nm := c01Pick(r, c01Names)
				if c01NameClash(names, nm) {
					continue
				}
				names[nm] = true
				nph++
				segs = append(segs, "{"+nm+"}")
			default:
				segs = append(segs, c01Pick(r, c01Lits))
			}
		}
		if len(segs) == 0 {
			continue
		}
		t := "/" + strings.Join(segs, "/")
		if seen[t] {
			continue
		}
		seen[t] = true
		tpls = append(tpls, segs)
	}
	out := make([]string, 0, len(tpls)+1)
	for _, s := range tpls {
		out = append(out, "/"+strings.Join(s, "/"))
	}
	if r.Intn(12) == 0 && !seen["/"] {
		out = append(out, "/")
	}
	return out
}

func c01Mangle(r *rand.Rand, m string) string {
	switch r.Intn(3) {
	case 0:
		return strings.ToLower(m)
	case 1:
		b := []byte(strings.ToLower(m))
		b[r.Intn(len(b))] -= 32
		return string(b)
	default:
		b := []byte(strings.ToUpper(m))
		b[r.Intn(len(b))] += 32
		return string(b)
	}
}

func c01Instantiate(r *rand.Rand, full string) string {
	segs := strings.Split(full, "/")
	for i, s := range segs {
		if strings.Contains(s, "{") {
			if strings.Count(s, "{") == 1 && strings.HasSuffix(s, "}") || r.Intn(3) == 0 {
				segs[i] = c01Pick(r, c01Values)
			} else {
				// composite: mostly fill the placeholders one by one
				segs[i] = c01PlaceholderRe.ReplaceAllStringFunc(s, func(string) string {
					return c01Pick(r, []string{"x", "abc", "1", "a%2Fb", "%25", "v", ":", "x.y", "", "a-b", "%E9", "%FF%FE"})
				})
			}
		}
	}
	return strings.Join(segs, "/")
}

// every placeholder, whole-segment or inside a composite segment, gets a non-empty text without
// separator bytes (letters and digits, some percent-encoded)
func c01InstantiateStrict(r *rand.Rand, full string) string {
	return c01PlaceholderRe.ReplaceAllStringFunc(full, func(string) string {
		return c01Pick(r, []string{"x", "abc", "1", "42", "shoe", "v", "a%2Fb", "%25", "%C3%A9", "a%20b", "id", "item", "ab", "d", "caf%E9", "%FF%FE", "k%C3", "%ED%A0%80"})
	})
}

func c01MutatePath(r *rand.Rand, p string) (string, string) {
	slashes := []int{}
	for i := 0; i < len(p); i++ {
		if p[i] == '/' {
			slashes = append(slashes, i)
		}
	}
	at := func() int { return slashes[r.Intn(len(slashes))] }
	switch r.Intn(14) {
	case 0:
		i := at()
		return p[:i] + "/" + p[i:], "dupslash"
	case 1:
		i := at()
		return p[:i] + "/." + p[i:], "dot"
	case 2:
		i := at()
		return p[:i] + "/zz/.." + p[i:], "dotdot"
	case 3:
		return "/.." + p, "lead-dotdot"
	case 4:
		return p + "/", "trailing"
	case 5:
		return p + "//", "trailing2"
	case 6:
		return p + "/.", "trailing-dot"
	case 7:
		return p + "/x/..", "trailing-dotdot"
	case 8:
		i := slashes[len(slashes)-1]
		if i == 0 {
			return "/", "dropseg"
		}
		return p[:i], "dropseg"
	case 9:
		return p + "/" + c01Pick(r, c01Values), "extraseg"
	case 10:
		return p + "?a=b/c&d=%2F", "query"
	case 11:
		i := at()
		return p[:i] + "/./" + p[i:], "dot+dup"
	default:
		return p, "plain"
	}
}

func c01IsHex(c byte) bool {
	return c >= '0' && c <= '9' || c >= 'a' && c <= 'f' || c >= 'A' && c <= 'F'
}

// the same target with one byte spelled the other way: a %XX triple replaced by the byte it stands for, or a
// byte replaced by its triple. The percent-DECODED path stays what it was, the still encoded path (which is
// what the router reads) does not: /files/a%2Fb and /files/a/b, /x/%2E%2E and /x/.., /x/%61 and /x/a.
func c01Reencode(r *rand.Rand, t string) (string, bool) {
	p, qs := t, ""
	if i := strings.IndexByte(t, '?'); i >= 0 {
		p, qs = t[:i], t[i:]
	}
	var pref, all []int // positions: of a decodable triple, or of a plain byte
	for i := 1; i < len(p); i++ {
		if p[i] == '%' {
			if i+2 < len(p) && c01IsHex(p[i+1]) && c01IsHex(p[i+2]) {
				var b byte
				fmt.Sscanf(p[i+1:i+3], "%02x", &b)
				if b > 0x20 && b < 0x7f && b != '?' && b != '#' && b != '%' {
					all = append(all, i)
					pref = append(pref, i)
				}
				i += 2
			}
			continue
		}
		if p[i] > 0x20 && p[i] < 0x7f {
			all = append(all, i)
			if p[i] == '/' || p[i] == '.' {
				pref = append(pref, i)
			}
		}
	}
	if len(all) == 0 {
		return t, false
	}
	from := all
	if len(pref) > 0 && r.Intn(10) < 7 {
		from = pref
	}
	i := from[r.Intn(len(from))]
	if p[i] == '%' {
		var b byte
		fmt.Sscanf(p[i+1:i+3], "%02x", &b)
		return p[:i] + string([]byte{b}) + p[i+3:] + qs, true
	}
	f := "%%%02X"
	if r.Intn(4) == 0 {
		f = "%%%02x"
	}
	return p[:i] + fmt.Sprintf(f, p[i]) + p[i+1:] + qs, true
}

// a request that follows prev immediately and differs from it in ONE dimension, the others kept as they were
// written: the spelling of a byte (same decoded path), the method, the letter case of the method, the value of
// a placeholder / a cleaning detour, the query string, or nothing at all. Whatever the middleware remembers of
// a request (a route, a parameter list, an Allow set) must not answer its neighbour.
func c01Neighbour(r *rand.Rand, prev c01Req, inst func() string) c01Req {
	q := c01Req{M: prev.M, Target: prev.Target}
	switch k := r.Intn(100); {
	case k < 50:
		if t, ok := c01Reencode(r, string(prev.Target)); ok {
			q.Target, q.Origin = Bs(t), "next:reencoded"
			if r.Intn(4) == 0 {
				if t2, ok := c01Reencode(r, t); ok {
					q.Target = Bs(t2)
				}
			}
			return q
		}
		fallthrough
	case k < 62:
		q.M, q.Origin = Bs(strings.ToUpper(c01Pick(r, c01Verbs))), "next:method"
	case k < 68:
		q.M, q.Origin = Bs(c01Mangle(r, string(prev.M))), "next:method-case,case"
	case k < 82:
		// another instantiation of the same operation, or the same path by another detour
		if r.Intn(2) == 0 {
			q.Target, q.Origin = Bs(inst()), "next:value"
		} else {
			t, how := c01MutatePath(r, strings.SplitN(string(prev.Target), "?", 2)[0])
			q.Target, q.Origin = Bs(t), "next:"+how
		}
	case k < 90:
		if strings.Contains(string(prev.Target), "?") {
			q.Target = Bs(strings.SplitN(string(prev.Target), "?", 2)[0])
		} else {
			q.Target = prev.Target + Bs(c01Pick(r, []string{"?x=1", "?", "?a=%2F&b=/", "?/x"}))
		}
		q.Origin = "next:query"
	default:
		q.Origin = "next:same"
	}
	return q
}

func c01GenSpec(r *rand.Rand) c01In {
	composite := r.Intn(8) == 0
	return c01SpecFrom(r, c01GenTemplates(r, composite), false)
}

// templates whose placeholder names are substrings of one another (c01RelPairs), in both orders, in
// whole-segment and in composite positions, next to literal segments spelled like the names
func c01GenRelTemplates(r *rand.Rand, composite bool) []string {
	n := 2 + r.Intn(4)
	var out []string
	seen := map[string]bool{}
	lit := func() string {
		if r.Intn(3) == 0 {
			pr := c01RelPairs[r.Intn(len(c01RelPairs))]
			return pr[r.Intn(2)] // a literal segment spelled like a placeholder name
		}
		return c01Pick(r, c01Lits)
	}
	for tries := 0; len(out) < n && tries < 100; tries++ {
		pr := c01RelPairs[r.Intn(len(c01RelPairs))]
		names := []string{pr[0], pr[1]}
		if r.Intn(2) == 0 {
			names[0], names[1] = names[1], names[0]
		}
		if r.Intn(3) == 0 {
			// a third name, related to the pair or not
			third := c01Pick(r, c01Names)
			if r.Intn(2) == 0 {
				p2 := c01RelPairs[r.Intn(len(c01RelPairs))]
				third = p2[r.Intn(2)]
			}
			if !c01NameClash(map[string]bool{names[0]: true, names[1]: true}, third) {
				names = append(names, third)
				r.Shuffle(len(names), func(i, j int) { names[i], names[j] = names[j], names[i] })
			}
		}
		segs := []string{lit()}
		if len(out) > 0 && r.Intn(2) == 0 {
			segs[0] = strings.Split(out[r.Intn(len(out))], "/")[1] // share the first segment
			if strings.Contains(segs[0], "{") {
				segs[0] = lit()
			}
		}
		compAt := -1
		if composite {
			compAt = r.Intn(len(names))
		}
		for i := 0; i < len(names); i++ {
			switch {
			case i == compAt && i+1 < len(names) && r.Intn(2) == 0:
				// two related names inside one segment
				segs = append(segs, "{"+names[i]+"}"+c01Pick(r, c01RelSeps)+"{"+names[i+1]+"}")
				i++
			case i == compAt:
				segs = append(segs, "{"+names[i]+"}"+c01Pick(r, []string{".json", "-x", ".tar.gz", "_", "@v1"}))
			default:
				segs = append(segs, "{"+names[i]+"}")
			}
			if i+1 < len(names) && r.Intn(2) == 0 {
				segs = append(segs, lit())
			}
		}
		if r.Intn(3) == 0 {
			segs = append(segs, lit())
		}
		t := "/" + strings.Join(segs, "/")
		if seen[t] {
			continue
		}
		seen[t] = true
		out = append(out, t)
		if r.Intn(3) == 0 {
			// the same template cut after its first placeholder: a sibling that shares the prefix
			if j := strings.Index(t, "}/"); j > 0 && !seen[t[:j+1]] {
				seen[t[:j+1]] = true
				out = append(out, t[:j+1])
			}
		}
	}
	return out
}

// nested backtracking: an outer template with d placeholders in a row, <prefix>/{p1}/../{pd}/<t>, and for every
// j <= d a template that spells the first j of them as literals and goes on with a placeholder of its own,
// <prefix>/l1/../lj/{qj}/<tj>, all under one method. The request <prefix>/l1/../lj/v../<t> follows the literal
// siblings first, fits none of them and instantiates the outer template only: the router has to come back past j
// placeholder nodes that it met on the way down.
func c01GenSpecBacktrack(r *rand.Rand) c01In {
	d := 1 + r.Intn(3)
	var prefix []string
	for k := r.Intn(3); k > 0; k-- {
		prefix = append(prefix, c01Pick(r, c01Lits))
	}
	names := map[string]bool{}
	name := func() string {
		for {
			nm := c01Pick(r, c01Names)
			if !c01NameClash(names, nm) {
				names[nm] = true
				return nm
			}
		}
	}
	lits := make([]string, d)
	for i := range lits {
		lits[i] = c01Pick(r, c01Lits)
	}
	tail := c01Pick(r, c01Lits)
	outer := append([]string{}, prefix...)
	for i := 0; i < d; i++ {
		outer = append(outer, "{"+name()+"}")
	}
	outer = append(outer, tail)
	tpls := []string{"/" + strings.Join(outer, "/")}
	for j := 1; j <= d; j++ {
		tj := c01Pick(r, c01Lits)
		for tj == tail {
			tj = c01Pick(r, c01Lits)
		}
		names = map[string]bool{}
		segs := append(append([]string{}, prefix...), lits[:j]...)
		segs = append(segs, "{"+name()+"}", tj)
		if r.Intn(3) == 0 {
			segs = append(segs, c01Pick(r, c01Lits))
		}
		tpls = append(tpls, "/"+strings.Join(segs, "/"))
	}
	if r.Intn(2) == 0 {
		// unrelated templates around them
		seen := map[string]bool{}
		for _, t := range tpls {
			seen[c01Shape(t)] = true
		}
		for _, t := range c01GenTemplates(r, false) {
			if len(tpls) < 8 && !seen[c01Shape(t)] {
				seen[c01Shape(t)] = true
				tpls = append(tpls, t)
			}
		}
	}
	in := c01SpecFrom(r, tpls, false)
	in.Fam = "backtrack"
	// every template of the family under one verb
	verb := c01Pick(r, c01Verbs)
	have := map[string]bool{}
	for _, op := range in.Ops {
		if string(op.M) == verb {
			have[c01Shape(string(op.T))] = true
		}
	}
	for _, t := range tpls[:d+1] {
		if !have[c01Shape(t)] {
			have[c01Shape(t)] = true
			in.Ops = append(in.Ops, c01Op{M: Bs(verb), T: Bs(t)})
		}
	}
	// the requests that need the way back, at random places among the others
	vals := []string{"x", "abc", "1", "a%2Fb", "%25", "v", "items", "%FF"}
	for j := 1; j <= d; j++ {
		segs := append(append([]string{}, prefix...), lits[:j]...)
		for i := j; i < d; i++ {
			if r.Intn(2) == 0 {
				segs = append(segs, lits[i]) // spelled like the literal sibling one level further down
			} else {
				segs = append(segs, c01Pick(r, vals))
			}
		}
		segs = append(segs, tail)
		q := c01Req{M: Bs(strings.ToUpper(verb)), Target: Bs(path.Join("/", string(in.Base), strings.Join(segs, "/"))), Origin: "backtrack"}
		at := r.Intn(len(in.Reqs) + 1)
		in.Reqs = append(in.Reqs[:at], append([]c01Req{q}, in.Reqs[at:]...)...)
	}
	return in
}

func c01GenSpecRel(r *rand.Rand) c01In {
	composite := r.Intn(3) == 0
	in := c01SpecFrom(r, c01GenRelTemplates(r, composite), composite)
	in.Fam = "relnames"
	return in
}

// strict: composite segments are only instantiated strictly (every placeholder a non-empty text free of
// separator bytes) and the segment count of a target is never changed, so that no request of the document
// falls under the open finding about composite segments (its classifier speaks for the whole case)
func c01SpecFrom(r *rand.Rand, tpls []string, strict bool) c01In {
	in := c01In{Kind: "spec", Base: Bs(c01Pick(r, c01Bases)), Via: "api"}
	if r.Intn(2) == 0 {
		in.Via = "routes"
	}
	inst := func(full string) string {
		if strict {
			return c01InstantiateStrict(r, full)
		}
		return c01Instantiate(r, full)
	}
	mutate := func(p string) (string, string) {
		for {
			q, how := c01MutatePath(r, p)
			if strict && (how == "dropseg" || how == "extraseg") {
				continue
			}
			return q, how
		}
	}
	used := map[string]bool{} // method + shape
	for _, t := range tpls {
		k := 1 + r.Intn(3)
		if r.Intn(4) == 0 {
			k = 1 + r.Intn(7)
		}
		perm := r.Perm(len(c01Verbs))[:k]
		sort.Ints(perm)
		for _, vi := range perm {
			key := c01Verbs[vi] + " " + c01Shape(t)
			if used[key] {
				continue
			}
			used[key] = true
			in.Ops = append(in.Ops, c01Op{M: Bs(c01Verbs[vi]), T: Bs(t)})
		}
	}
	nreq := 16 + r.Intn(9)
	for i := 0; i < nreq; i++ {
		op := in.Ops[r.Intn(len(in.Ops))]
		full := path.Join(string(in.Base), string(op.T))
		var q c01Req
		k := r.Intn(100)
		switch {
		case k < 80 || strict && k >= 86:
			p := inst(full)
			p, how := mutate(p)
			if r.Intn(3) == 0 {
				var how2 string
				p, how2 = mutate(p)
				how += "+" + how2
			}
			q.Target, q.Origin = Bs(p), "inst:"+how
		case k < 86:
			// the template without the base path, or with another base path
			q.Target, q.Origin = Bs(c01Pick(r, []string{"", "/api", "/a/b", "/a"})+inst(string(op.T))), "otherbase"
		case k < 92:
			q.Target, q.Origin = Bs(c01Pick(r, []string{"/", "//", "/.", "/..", "/api", "/api/", "/a/b/", "/" + c01Pick(r, c01Values), "/a/" + c01Pick(r, c01Values), "/api/" + c01Pick(r, c01Lits)})), "short"
		default:
			q.Direct = true
			q.Target = Bs(c01Pick(r, []string{"", ".", "api/a", full + "/%zz", full + "%", "/%", c01Instantiate(r, full) + "%2", strings.TrimPrefix(c01Instantiate(r, full), "/"),
				strings.ReplaceAll(c01Instantiate(r, full), "{", "%"), "../" + full, full + "/../" + c01Pick(r, c01Values), "*"}))
			q.Origin = "direct"
		}
		m := string(op.M)
		switch mk := r.Intn(100); {
		case mk < 45:
			q.M = Bs(strings.ToUpper(m))
		case mk < 75:
			q.M = Bs(strings.ToUpper(c01Pick(r, c01Verbs)))
		case mk < 93:
			if r.Intn(2) == 0 {
				m = c01Pick(r, c01Verbs)
			}
			q.M = Bs(c01Mangle(r, m))
			q.Origin += ",case"
		default:
			q.M = Bs(c01Pick(r, []string{"FOO", "TRACE", "PROPFIND", "Get1", "GETX"}))
			q.Origin += ",unknown-method"
		}
		in.Reqs = append(in.Reqs, q)
		// neighbours: one to three requests that follow at once and differ in one dimension only
		for !q.Direct && len(q.Target) > 1 && i+1 < nreq && r.Intn(100) < 38 {
			var nb c01Req
			for {
				nb = c01Neighbour(r, q, func() string { return inst(full) })
				if strict && (strings.Contains(nb.Origin, "dropseg") || strings.Contains(nb.Origin, "extraseg") || nb.Origin == "next:reencoded") {
					continue // see above: nothing that changes the segment count or the separators of a composite document
				}
				break
			}
			in.Reqs = append(in.Reqs, nb)
			i++
			if r.Intn(3) == 0 {
				// ... and back again: A, A', A
				in.Reqs = append(in.Reqs, c01Req{M: q.M, Target: q.Target, Origin: "next:back"})
				i++
			}
			q = nb
		}
	}
	return in
}

func c01RandString(r *rand.Rand, alphabet []string, maxn int) string {
	var sb strings.Builder
	n := r.Intn(maxn + 1)
	for i := 0; i < n; i++ {
		sb.WriteString(alphabet[r.Intn(len(alphabet))])
	}
	return sb.String()
}

func (c01) Gen(r *rand.Rand, tier string, i int) any {
	if i%8 == 3 {
		// scheduled by case index so that every seed runs the family
		return c01GenSpecRel(r)
	}
	if i%16 == 5 {
		return c01GenSpecBacktrack(r)
	}
	switch k := r.Intn(100); {
	case k < 45:
		return c01GenSpec(r)
	case k < 65:
		return c01In{Kind: "clean", S: Bs(c01RandString(r, []string{"/", "/", "/", ".", ".", "..", "a", "b", "ab", "%2F", "..."}, 14))}
	case k < 80:
		return c01In{Kind: "join", S: Bs(c01RandString(r, []string{"/", "/", ".", "..", "a", "api", "b"}, 6)), S2: Bs(c01RandString(r, []string{"/", "/", ".", "..", "a", "{id}", "x", "{a}.{b}"}, 8))}
	default:
		return c01In{Kind: "unesc", S: Bs(c01RandString(r, []string{"%", "%", "2", "F", "f", "5", "a", "g", "G", "+", "/", "%25", "%2F", "\xc3", "\x00", "0", "C3", "A9"}, 10))}
	}
}

// ---------- running the real code ----------

type c01rapi struct{ a *untyped.API }

func (r c01rapi) HandlerFor(m, p string) (http.Handler, bool) {
	_, ok := r.a.OperationHandlerFor(m, p)
	return http.NotFoundHandler(), ok
}
func (r c01rapi) ServeErrorFor(string) func(http.ResponseWriter, *http.Request, error) {
	return r.a.ServeError
}
func (r c01rapi) ConsumersFor(mt []string) map[string]runtime.Consumer { return r.a.ConsumersFor(mt) }
func (r c01rapi) ProducersFor(mt []string) map[string]runtime.Producer { return r.a.ProducersFor(mt) }
func (r c01rapi) AuthenticatorsFor(s map[string]spec.SecurityScheme) map[string]runtime.Authenticator {
	return r.a.AuthenticatorsFor(s)
}
func (r c01rapi) Authorizer() runtime.Authorizer { return r.a.Authorizer() }
func (r c01rapi) Formats() strfmt.Registry       { return r.a.Formats() }
func (r c01rapi) DefaultProduces() string        { return r.a.DefaultProduces }
func (r c01rapi) DefaultConsumes() string        { return r.a.DefaultConsumes }

func c01Doc(in c01In) []byte {
	paths := map[string]map[string]any{}
	for i, op := range in.Ops {
		t := string(op.T)
		if paths[t] == nil {
			paths[t] = map[string]any{}
		}
		params := []any{}
		for _, m := range c01PlaceholderRe.FindAllStringSubmatch(t, -1) {
			params = append(params, map[string]any{"name": m[1], "in": "path", "required": true, "type": "string"})
		}
		paths[t][string(op.M)] = map[string]any{
			"operationId": fmt.Sprintf("op%d", i),
			"parameters":  params,
			"responses":   map[string]any{"200": map[string]any{"description": "ok"}},
		}
	}
	doc := map[string]any{
		"swagger":  "2.0",
		"info":     map[string]any{"title": "t", "version": "1"},
		"consumes": []string{"application/json"},
		"produces": []string{"application/json"},
		"paths":    paths,
	}
	if in.Base != "" {
		doc["basePath"] = string(in.Base)
	}
	b, err := json.Marshal(doc)
	if err != nil {
		panic(err)
	}
	return b
}

func c01SortedParams(ps []c01Param) []c01Param {
	sort.Slice(ps, func(i, j int) bool { return ps[i].N < ps[j].N })
	return ps
}

func c01RouteParams(rp middleware.RouteParams) []c01Param {
	out := make([]c01Param, 0, len(rp))
	for _, p := range rp {
		out = append(out, c01Param{Bs(p.Name), Bs(p.Value)})
	}
	return out
}

func c01SameParams(a, b []c01Param) bool {
	if len(a) != len(b) {
		return false
	}
	for i := range a {
		if a[i] != b[i] {
			return false
		}
	}
	return true
}

func c01RunSpec(in c01In, obs *c01Obs) {
	doc, err := loads.Analyzed(json.RawMessage(c01Doc(in)), "")
	if err != nil {
		obs.Err = "load: " + err.Error()
		return
	}
	api := untyped.NewAPI(doc)
	ran := -1
	var got map[string]interface{}
	opIndex := map[string]int{}
	for i, op := range in.Ops {
		i := i
		opIndex[fmt.Sprintf("op%d", i)] = i
		api.RegisterOperation(string(op.M), string(op.T), runtime.OperationHandlerFunc(func(params interface{}) (interface{}, error) {
			ran = i
			got, _ = params.(map[string]interface{})
			return map[string]string{"ok": "1"}, nil
		}))
	}
	ctx := middleware.NewContext(doc, api, nil)
	var seen *middleware.MatchedRoute
	builder := func(next http.Handler) http.Handler {
		return http.HandlerFunc(func(w http.ResponseWriter, r *http.Request) {
			seen = middleware.MatchedRouteFrom(r)
			next.ServeHTTP(w, r)
		})
	}
	var h http.Handler
	if in.Via == "routes" {
		h = ctx.RoutesHandler(builder)
	} else {
		h = ctx.APIHandler(builder)
	}
	router := middleware.DefaultRouter(doc, c01rapi{api})

	// answers of Router.Lookup retained across the later requests of the document and inspected again at the end:
	// a matched route belongs to its request for as long as the request is being served
	type c01Kept struct {
		at int
		mr *middleware.MatchedRoute
	}
	var kept []c01Kept
	defer func() {
		for _, k := range kept {
			ro := &obs.Reqs[k.at]
			if ro.LPanic == "" && (string(ro.Pattern) != k.mr.PathPattern || !c01SameParams(ro.Params, c01RouteParams(k.mr.Params))) {
				ro.LPanic = "the MatchedRoute of this request changed while later requests were routed"
			}
		}
	}()

	for _, q := range in.Reqs {
		var ro c01ReqObs
		ro.Ran = -1
		var req *http.Request
		if q.Direct {
			ro.Parsed, ro.Method, ro.Esc = true, q.M, q.Target
		} else {
			rd := bufio.NewReader(strings.NewReader(string(q.M) + " " + string(q.Target) + " HTTP/1.1\r\nHost: x\r\n\r\n"))
			var err error
			req, err = http.ReadRequest(rd)
			if err != nil {
				obs.Reqs = append(obs.Reqs, ro)
				continue
			}
			ro.Parsed, ro.Method, ro.Esc = true, Bs(req.Method), Bs(req.URL.EscapedPath())
		}
		// (a) the router itself
		var mr *middleware.MatchedRoute
		if p, msg := recoverTo(func() {
			var ok bool
			mr, ok = router.Lookup(string(ro.Method), string(ro.Esc))
			if !ok {
				mr = nil
			}
		}); p {
			ro.LPanic = msg
		}
		if mr != nil {
			ro.Found, ro.Pattern, ro.Params = true, Bs(mr.PathPattern), c01RouteParams(mr.Params)
			ro.Op = opIndex[mr.Operation.ID]
			kept = append(kept, c01Kept{len(obs.Reqs), mr})
		}
		if p, msg := recoverTo(func() {
			others := router.OtherMethods(string(ro.Method), string(ro.Esc))
			sort.Strings(others)
			ro.Others = toBs(others)
		}); p {
			ro.LPanic = "othermethods: " + msg
		}
		// (b) the served handler
		if req != nil {
			ro.Served = true
			ran, got, seen = -1, nil, nil
			rec := httptest.NewRecorder()
			if p, msg := recoverTo(func() { h.ServeHTTP(rec, req) }); p {
				ro.SPanic = msg
			} else {
				ro.Status = rec.Code
				for _, line := range rec.Header()["Allow"] {
					for _, a := range strings.Split(line, ",") {
						ro.Allow = append(ro.Allow, Bs(strings.TrimSpace(a)))
					}
				}
				sort.Slice(ro.Allow, func(i, j int) bool { return ro.Allow[i] < ro.Allow[j] })
				ro.Ran = ran
				if ran >= 0 {
					for k, v := range got {
						ro.Got = append(ro.Got, c01Param{Bs(k), Bs(fmt.Sprint(v))})
					}
					c01SortedParams(ro.Got)
				}
				// MatchedRouteFrom, as the middleware chain saw it, must be what Router.Lookup answers
				if seen != nil && ro.LPanic == "" {
					if !ro.Found || string(ro.Pattern) != seen.PathPattern || ro.Op != opIndex[seen.Operation.ID] || !c01SameParams(ro.Params, c01RouteParams(seen.Params)) {
						ro.LPanic = "MatchedRouteFrom differs from Router.Lookup"
					}
				}
				if seen == nil && ran >= 0 {
					ro.LPanic = "handler ran without a matched route"
				}
				if seen != nil && ro.Found && ro.LPanic == "" {
					// the route the middleware chain handed to this request is retained as well
					kept = append(kept, c01Kept{len(obs.Reqs), seen})
				}
			}
		}
		obs.Reqs = append(obs.Reqs, ro)
	}
}

func (c01) Run(inAny any) any {
	in := inAny.(c01In)
	var obs c01Obs
	p, msg := recoverTo(func() {
		switch in.Kind {
		case "spec":
			c01RunSpec(in, &obs)
		case "clean":
			obs.Out = Bs(path.Clean(string(in.S)))
		case "join":
			obs.Out = Bs(path.Join(string(in.S), string(in.S2)))
		case "unesc":
			s, err := url.PathUnescape(string(in.S))
			obs.Out, obs.Ok = Bs(s), err == nil
		}
	})
	if p {
		obs.Err = "panic: " + msg
	}
	return obs
}

// ---------- Gallina ----------

func c01CoqParams(ps []c01Param) string {
	return coqList(ps, func(p c01Param) string { return coqPair(coqBytes(string(p.N)), coqBytes(string(p.V))) })
}

func (c01) Coq(inAny any, obsAny any) string {
	in, obs := inAny.(c01In), obsAny.(c01Obs)
	switch in.Kind {
	case "clean":
		return fmt.Sprintf("CClean %s %s", coqBytes(string(in.S)), coqBytes(string(obs.Out)))
	case "join":
		return fmt.Sprintf("CJoin %s %s %s", coqBytes(string(in.S)), coqBytes(string(in.S2)), coqBytes(string(obs.Out)))
	case "unesc":
		return fmt.Sprintf("CUnesc %s %s", coqBytes(string(in.S)), coqOpt(obs.Ok, coqBytes(string(obs.Out))))
	case "spec":
		ops := coqList(in.Ops, func(o c01Op) string { return coqPair(coqBytes(string(o.M)), coqBytes(string(o.T))) })
		var reqs []c01ReqObs
		if obs.Err != "" {
			// the document could not be served at all: one request that reports a panic
			reqs = []c01ReqObs{{Parsed: true, LPanic: obs.Err, Ran: -1}}
		}
		for _, ro := range obs.Reqs {
			if ro.Parsed {
				reqs = append(reqs, ro)
			}
		}
		rs := coqList(reqs, func(ro c01ReqObs) string {
			lo := "ONone"
			if ro.LPanic != "" {
				lo = "OPanic"
			} else if ro.Found {
				lo = fmt.Sprintf("(OFound %s %d %s)", coqBytes(string(ro.Pattern)), ro.Op, c01CoqParams(ro.Params))
			}
			po := "PNotServed"
			if ro.Served {
				switch {
				case ro.SPanic != "":
					po = "PPanicked"
				case ro.Ran >= 0:
					po = fmt.Sprintf("(PRan %d %s)", ro.Ran, c01CoqParams(ro.Got))
				default:
					po = fmt.Sprintf("(PStatus %d %s)", ro.Status, coqBytesList(bsList(ro.Allow)))
				}
			}
			return coqPair(coqBytes(string(ro.Method)), coqPair(coqBytes(string(ro.Esc)), coqPair(lo, coqPair(coqBytesList(bsList(ro.Others)), po))))
		})
		return fmt.Sprintf("CSpec %s %s %s", coqBytes(string(in.Base)), ops, rs)
	}
	panic("unknown kind " + in.Kind)
}

// ---------- classifiers ----------

// strict instantiation of a composite segment: separators from the left, last literal ends the
// segment, every value non-empty
func c01CompStrict(tseg, s string) bool {
	parts := c01PlaceholderRe.Split(tseg, -1) // literals around the placeholders; parts[0] is the text before the first
	if parts[0] != "" {
		return true // not of the form this classifier speaks about
	}
	lits := parts[1:]
	for i, l := range lits {
		if i == len(lits)-1 {
			return strings.HasSuffix(s, l) && len(s) > len(l)
		}
		j := strings.Index(s, l)
		if j <= 0 {
			return false
		}
		s = s[j+len(l):]
	}
	return false
}

func c01IsComposite(seg string) bool {
	return strings.HasPrefix(seg, "{") && !(strings.Count(seg, "{") == 1 && strings.HasSuffix(seg, "}"))
}

// a request falls under router.composite_segment_template when its cleaned path has the segments
// of a template with a composite segment, the other segments fitting, while the composite segment
// is not strictly instantiated (missing separator or suffix, or an empty text)
func c01CompositeMiss(in c01In, esc string) bool {
	cp := path.Clean(esc)
	if !strings.HasPrefix(cp, "/") {
		return false
	}
	ps := strings.Split(cp, "/")
	for _, op := range in.Ops {
		ts := strings.Split(path.Join(string(in.Base), string(op.T)), "/")
		if len(ts) != len(ps) {
			continue
		}
		miss, fits := false, true
		for i := range ts {
			switch {
			case c01IsComposite(ts[i]):
				if !c01CompStrict(ts[i], ps[i]) {
					miss = true
				}
			case strings.HasPrefix(ts[i], "{"):
				if ps[i] == "" {
					fits = false
				}
			default:
				if ts[i] != ps[i] {
					fits = false
				}
			}
		}
		if fits && miss {
			return true
		}
	}
	return false
}

func (c01) Classify(inAny any, obsAny any) []string {
	in, obs := inAny.(c01In), obsAny.(c01Obs)
	if in.Kind != "spec" {
		return nil
	}
	// a panic (or an inconsistency between MatchedRouteFrom and Router.Lookup) anywhere in the case is
	// never covered by the known finding
	for _, ro := range obs.Reqs {
		if ro.LPanic != "" || ro.SPanic != "" {
			return nil
		}
	}
	if obs.Err != "" {
		return nil
	}
	for _, ro := range obs.Reqs {
		if ro.Parsed && c01CompositeMiss(in, string(ro.Esc)) {
			return []string{"router.composite_segment_template"}
		}
	}
	return nil
}

func (c01) Category(inAny any, obsAny any) (string, bool) {
	in, obs := inAny.(c01In), obsAny.(c01Obs)
	if in.Kind != "spec" {
		return in.Kind, in.Kind == "clean" && strings.Contains(string(in.S), "..")
	}
	comp, param := false, false
	for _, op := range in.Ops {
		for _, s := range strings.Split(string(op.T), "/") {
			if c01IsComposite(s) {
				comp = true
			} else if strings.HasPrefix(s, "{") {
				param = true
			}
		}
	}
	nt := "1-3"
	tset := map[string]bool{}
	for _, op := range in.Ops {
		tset[string(op.T)] = true
	}
	if len(tset) > 7 {
		nt = "8-13"
	} else if len(tset) > 3 {
		nt = "4-7"
	}
	var ranP, r405, r404, r422, pan, enc, caseM, dots bool
	for i, ro := range obs.Reqs {
		if !ro.Parsed {
			continue
		}
		if ro.Ran >= 0 && len(ro.Got) > 0 {
			ranP = true
		}
		switch ro.Status {
		case 405:
			r405 = true
		case 404:
			r404 = true
		case 422:
			r422 = true
		}
		if ro.LPanic != "" || ro.SPanic != "" {
			pan = true
		}
		if strings.Contains(string(ro.Esc), "%2F") || strings.Contains(string(ro.Esc), "%25") {
			enc = true
		}
		if i < len(in.Reqs) && strings.Contains(in.Reqs[i].Origin, "case") {
			caseM = true
		}
		if strings.Contains(string(ro.Esc), "/.") || strings.Contains(string(ro.Esc), "//") {
			dots = true
		}
	}
	flag := func(b bool, s string) string {
		if b {
			return s
		}
		return ""
	}
	cat := fmt.Sprintf("spec base=%q tpl=%s via=%s%s%s [%s%s%s%s%s%s%s%s]", string(in.Base), nt, in.Via, flag(comp, " composite"), flag(in.Fam != "", " "+in.Fam),
		flag(ranP, "run "), flag(r405, "405 "), flag(r404, "404 "), flag(r422, "422 "), flag(pan, "PANIC "), flag(enc, "%2F/%25 "), flag(caseM, "case "), flag(dots, "dots"))
	return cat, param && ranP && (r405 || r404)
}
