//go:build verif && (c15 || allprops)

package main

import (
	"bytes"
	"encoding/xml"
	"errors"
	"fmt"
	"io"
	"math"
	"math/big"
	"math/rand"
	"net"
	"net/url"
	"reflect"
	"strconv"
	"strings"
	"time"

	"github.com/go-openapi/runtime"
)

// C15, fifth round.
//
// (1) Sources behind SEVERAL of the interfaces the producers dispatch on (encoding.TextMarshaler, error, fmt.Stringer,
//     encoding.BinaryMarshaler, plain string / struct kinds), with a DIFFERENT rendering behind each interface, so that the
//     order in which a producer tries the interfaces is observable: MarshalText gives T:<content>, Error E:<content>,
//     String S:<content>, MarshalBinary B:<content>. The kind handed to the model is the one the documented order selects
//     (text: TextMarshaler, error, Stringer, then the reflect kinds; byte stream: WriterTo, Reader, BinaryMarshaler, error,
//     then the reflect kinds).
// (2) rt/textval: real-world values with a wire form and a display form (time.Time, *big.Float, *big.Int, *big.Rat,
//     net.IP, *url.URL, an enum, a status error) produced and consumed back through the text / byte stream codec.
// (3) rt/large: values whose encoding is far larger than any buffer or plausible size cap (64 KiB, 1 MiB, 4 MiB) through
//     all five codecs. Compared in Go (CRoundTrip): differential only, like the other round trips.

// ---------- (1) multi-interface sources ----------

var c15MultiSrcs = []string{"textmar_stringer", "textmar_error", "error_stringer", "textmar_error_stringer", "binmar_textmar", "enum", "val_textmar_stringer"}

// c15MultiHasRet: the source has a marshaler that can be told to fail (in.Ret).
func c15MultiHasRet(src string) bool {
	switch src {
	case "textmar_stringer", "textmar_error", "textmar_error_stringer", "binmar_textmar", "val_textmar_stringer":
		return true
	}
	return false
}

type c15MBase struct {
	C   string
	ret error
}

func (b c15MBase) text() ([]byte, error) {
	if b.ret != nil {
		return nil, b.ret
	}
	return []byte("T:" + b.C), nil
}
func (b c15MBase) bin() ([]byte, error) {
	if b.ret != nil {
		return nil, b.ret
	}
	return []byte("B:" + b.C), nil
}

type c15TextStr struct{ b c15MBase }

func (s *c15TextStr) MarshalText() ([]byte, error) { return s.b.text() }
func (s *c15TextStr) String() string               { return "S:" + s.b.C }

type c15TextErr struct{ b c15MBase }

func (s *c15TextErr) MarshalText() ([]byte, error) { return s.b.text() }
func (s *c15TextErr) Error() string                { return "E:" + s.b.C }

type c15ErrStr struct{ b c15MBase }

func (s *c15ErrStr) Error() string  { return "E:" + s.b.C }
func (s *c15ErrStr) String() string { return "S:" + s.b.C }

type c15TextErrStr struct{ b c15MBase }

func (s *c15TextErrStr) MarshalText() ([]byte, error) { return s.b.text() }
func (s *c15TextErrStr) Error() string                { return "E:" + s.b.C }
func (s *c15TextErrStr) String() string               { return "S:" + s.b.C }

type c15BinText struct{ b c15MBase }

func (s *c15BinText) MarshalBinary() ([]byte, error) { return s.b.bin() }
func (s *c15BinText) MarshalText() ([]byte, error)   { return s.b.text() }
func (s *c15BinText) String() string                 { return "S:" + s.b.C }

// c15Enum: a named string handed over BY VALUE (wire form and display form differ from the string itself).
type c15Enum string

func (e c15Enum) MarshalText() ([]byte, error) { return []byte("T:" + string(e)), nil }
func (e c15Enum) String() string               { return "S:" + string(e) }

// c15ValTextStr: a struct handed over by value.
type c15ValTextStr struct{ B c15MBase }

func (s c15ValTextStr) MarshalText() ([]byte, error) { return s.B.text() }
func (s c15ValTextStr) String() string               { return "S:" + s.B.C }

func c15MakeMulti(in c15In) any {
	b := c15MBase{C: string(in.Content), ret: c15Err(in.Ret)}
	switch in.Src {
	case "textmar_stringer":
		return &c15TextStr{b}
	case "textmar_error":
		return &c15TextErr{b}
	case "error_stringer":
		return &c15ErrStr{b}
	case "textmar_error_stringer":
		return &c15TextErrStr{b}
	case "binmar_textmar":
		return &c15BinText{b}
	case "enum":
		return c15Enum(in.Content)
	case "val_textmar_stringer":
		return c15ValTextStr{b}
	}
	return nil
}

// c15CoqMulti: the kind the documented order of the codec selects for the value, with the rendering of THAT interface.
func c15CoqMulti(in c15In) string {
	c := string(in.Content)
	tm := fmt.Sprintf("(STextMar %s %s)", coqBytes("T:"+c), c15CoqErrOpt(in.Ret))
	er := "(SError " + coqBytes("E:"+c) + ")"
	text := in.Codec == "text"
	switch in.Src {
	case "textmar_stringer", "val_textmar_stringer":
		return tm // byte stream: a struct / pointer to struct, written as JSON (the model treats STextMar so)
	case "textmar_error", "textmar_error_stringer":
		if text {
			return tm
		}
		return er
	case "error_stringer":
		return er
	case "binmar_textmar":
		if text {
			return tm
		}
		return fmt.Sprintf("(SBinMar %s %s)", coqBytes("B:"+c), c15CoqErrOpt(in.Ret))
	case "enum":
		if text {
			return "(STextMar " + coqBytes("T:"+c) + " None)"
		}
		return "(SString " + coqBytes(c) + ")"
	}
	return ""
}

// ---------- (2) rt/textval ----------

// c15Color: wire form (MarshalText / UnmarshalText) red | green | blue | #rrggbb, display form Color(RED).
type c15Color struct{ rgb uint32 }

var c15ColorNames = map[uint32]string{0xff0000: "red", 0x00ff00: "green", 0x0000ff: "blue"}

func (c c15Color) String() string {
	if n, ok := c15ColorNames[c.rgb]; ok {
		return "Color(" + strings.ToUpper(n) + ")"
	}
	return fmt.Sprintf("Color(%d,%d,%d)", c.rgb>>16&255, c.rgb>>8&255, c.rgb&255)
}
func (c c15Color) MarshalText() ([]byte, error) {
	if n, ok := c15ColorNames[c.rgb]; ok {
		return []byte(n), nil
	}
	return []byte(fmt.Sprintf("#%06x", c.rgb)), nil
}
func (c *c15Color) UnmarshalText(b []byte) error {
	for v, n := range c15ColorNames {
		if n == string(b) {
			c.rgb = v
			return nil
		}
	}
	if len(b) == 7 && b[0] == '#' {
		v, err := strconv.ParseUint(string(b[1:]), 16, 32)
		if err == nil {
			c.rgb = uint32(v)
			return nil
		}
	}
	return fmt.Errorf("invalid color %q", b)
}

// c15Status: an error value with a wire form (the code) and a message.
type c15Status struct{ code int }

func (s *c15Status) Error() string                { return fmt.Sprintf("status %d: request failed", s.code) }
func (s *c15Status) MarshalText() ([]byte, error) { return []byte(strconv.Itoa(s.code)), nil }
func (s *c15Status) UnmarshalText(b []byte) error {
	n, err := strconv.Atoi(string(b))
	if err != nil {
		return fmt.Errorf("invalid status %q", b)
	}
	s.code = n
	return nil
}

var c15TextValKinds = []string{"time", "ptr_time", "bigfloat", "bigint", "bigrat", "ip", "color", "ptr_color", "status", "url"}

// c15TextValue builds the value of the kind from its literal and a fresh destination for it; eq compares.
func c15TextValue(kind, lit string) (src any, dst any, eq func() (bool, string), err error) {
	show := func(a, b any) string { return fmt.Sprintf("got %v, want %v", b, a) }
	switch kind {
	case "time", "ptr_time":
		t, e := time.Parse(time.RFC3339Nano, lit)
		if e != nil {
			return nil, nil, nil, e
		}
		back := new(time.Time)
		src = t
		if kind == "ptr_time" {
			src = &t
		}
		return src, back, func() (bool, string) { return back.Equal(t), show(t, *back) }, nil
	case "bigfloat":
		f, _, e := big.ParseFloat(lit, 10, 200, big.ToNearestEven)
		if e != nil {
			return nil, nil, nil, e
		}
		back := new(big.Float).SetPrec(200)
		return f, back, func() (bool, string) { return back.Cmp(f) == 0, show(f.Text('g', 70), back.Text('g', 70)) }, nil
	case "bigint":
		n, ok := new(big.Int).SetString(lit, 10)
		if !ok {
			return nil, nil, nil, errors.New("bigint literal")
		}
		back := new(big.Int)
		return n, back, func() (bool, string) { return back.Cmp(n) == 0, show(n, back) }, nil
	case "bigrat":
		q, ok := new(big.Rat).SetString(lit)
		if !ok {
			return nil, nil, nil, errors.New("bigrat literal")
		}
		back := new(big.Rat)
		return q, back, func() (bool, string) { return back.Cmp(q) == 0, show(q, back) }, nil
	case "ip":
		ip := net.ParseIP(lit)
		if ip == nil {
			return nil, nil, nil, errors.New("ip literal")
		}
		back := new(net.IP)
		return ip, back, func() (bool, string) { return back.Equal(ip), show(ip, *back) }, nil
	case "color", "ptr_color":
		var c c15Color
		if e := c.UnmarshalText([]byte(lit)); e != nil {
			return nil, nil, nil, e
		}
		back := new(c15Color)
		src = c
		if kind == "ptr_color" {
			src = &c
		}
		return src, back, func() (bool, string) { return *back == c, show(c, *back) }, nil
	case "status":
		n, e := strconv.Atoi(lit)
		if e != nil {
			return nil, nil, nil, e
		}
		back := new(c15Status)
		return &c15Status{n}, back, func() (bool, string) { return back.code == n, show(n, back.code) }, nil
	case "url":
		u, e := url.Parse(lit)
		if e != nil {
			return nil, nil, nil, e
		}
		back := new(url.URL)
		return u, back, func() (bool, string) { return reflect.DeepEqual(u, back), show(u, back) }, nil
	}
	return nil, nil, nil, errors.New("textval kind " + kind)
}

func c15RoundTripTextVal(in c15In, prod runtime.Producer, cons runtime.Consumer) (bool, string) {
	src, dst, eq, err := c15TextValue(in.Slot, in.Num)
	if err != nil {
		panic("rt/textval: " + err.Error())
	}
	sink := c15NewWriter(nil, "")
	if err := prod.Produce(sink, src); err != nil {
		return false, "produce: " + err.Error()
	}
	var rd io.Reader
	if len(in.Num)%2 == 0 {
		rd = c15NewReader(c15OneByteSteps(sink.got))
	} else {
		rd = c15NewReader([]c15Step{{C: Bs(sink.got), T: 1}})
	}
	if err := cons.Consume(rd, dst); err != nil {
		return false, fmt.Sprintf("consume of %q: %v", sink.got, err)
	}
	if ok, d := eq(); !ok {
		return false, fmt.Sprintf("round trip differs: %s (wire %q)", d, sink.got)
	}
	return true, ""
}

func c15TextValLit(r *rand.Rand, kind string) string {
	switch kind {
	case "time", "ptr_time":
		// years 1..9998, any nanosecond (also none, also trailing zeros), UTC or a whole-minute offset
		sec := int64(-62135596800+400*86400) + r.Int63n(int64(9990)*365*86400)
		if r.Intn(3) == 0 {
			sec = 1500000000 + r.Int63n(500000000)
		}
		var ns int64
		switch r.Intn(4) {
		case 0:
		case 1:
			ns = int64(r.Intn(1000)) * 1000000
		default:
			ns = r.Int63n(1000000000)
		}
		loc := time.UTC
		if r.Intn(2) == 0 {
			loc = time.FixedZone("", (r.Intn(27*4)-13*4)*900)
		}
		return time.Unix(sec, ns).In(loc).Format(time.RFC3339Nano)
	case "bigfloat":
		s := c15Digits(r, 1+r.Intn(6)) + "." + c15Digits(r, 12+r.Intn(40))
		switch r.Intn(4) {
		case 0:
			s = "-" + s
		case 1:
			s += fmt.Sprintf("e%d", r.Intn(600)-300)
		}
		return s
	case "bigint":
		s := c15Digits(r, 1+r.Intn(60))
		if r.Intn(3) == 0 {
			s = "-" + s
		}
		return s
	case "bigrat":
		return c15Digits(r, 1+r.Intn(30)) + "/" + c15Digits(r, 1+r.Intn(30))
	case "ip":
		if r.Intn(2) == 0 {
			return fmt.Sprintf("%d.%d.%d.%d", r.Intn(256), r.Intn(256), r.Intn(256), r.Intn(256))
		}
		return []string{"::1", "2001:db8::68", "fe80::1ff:fe23:4567:890a", "::ffff:192.0.2.1", "2001:db8:0:0:1::1"}[r.Intn(5)]
	case "color", "ptr_color":
		if r.Intn(3) == 0 {
			return []string{"red", "green", "blue"}[r.Intn(3)]
		}
		return fmt.Sprintf("#%06x", r.Intn(1<<24))
	case "status":
		return strconv.Itoa(100 + r.Intn(500))
	case "url":
		return []string{"https://example.com/a/b?x=1&y=2#frag", "http://user:pw@host:8080/p%20q", "mailto:someone@example.com", "/relative/path?q=a+b",
			"https://xn--bcher-kva.example/%E2%82%AC", "//host/only"}[r.Intn(6)]
	}
	panic("textval kind " + kind)
}

func c15TextValCodec(kind string, alt bool) string {
	// the byte stream codec carries the kinds with a binary form (MarshalBinary / UnmarshalBinary);
	// *url.URL has no UnmarshalText: byte stream only
	if kind == "url" || alt && (kind == "time" || kind == "ptr_time") {
		return "bytestream"
	}
	return "text"
}

func c15GenTextVal(r *rand.Rand) c15In {
	kind := c15TextValKinds[r.Intn(len(c15TextValKinds))]
	return c15In{Kind: "rt", Codec: c15TextValCodec(kind, r.Intn(4) == 0), Shape: "textval", Slot: kind, Num: c15TextValLit(r, kind)}
}

func c15EnumTextVal() []any {
	var out []any
	fixed := map[string][]string{
		"time":      {"2024-02-29T13:14:15.123456789Z", "1999-12-31T23:59:59+05:30", "0001-01-01T00:00:00Z", "2038-01-19T03:14:08.5-08:00"},
		"ptr_time":  {"2024-02-29T13:14:15.123456789Z", "2006-01-02T15:04:05-07:00"},
		"bigfloat":  {"1.2345678901234567890123", "-0.000000000000000000012345678901234567", "3.14159265358979323846264338327950288e100", "1.5"},
		"bigint":    {"0", "-1", "123456789012345678901234567890"},
		"bigrat":    {"1/3", "-22/7", "123456789012345678901/1000000007"},
		"ip":        {"192.0.2.1", "::1", "2001:db8::68"},
		"color":     {"red", "#0a0b0c"},
		"ptr_color": {"blue", "#ffffff"},
		"status":    {"404", "503"},
		"url":       {"https://example.com/a/b?x=1&y=2#frag", "http://user:pw@host:8080/p%20q"},
	}
	for _, kind := range c15TextValKinds {
		for _, lit := range fixed[kind] {
			if c15TextValCodec(kind, false) == "text" {
				out = append(out, c15In{Kind: "rt", Codec: "text", Shape: "textval", Slot: kind, Num: lit})
			}
			if c15TextValCodec(kind, true) != "text" {
				out = append(out, c15In{Kind: "rt", Codec: "bytestream", Shape: "textval", Slot: kind, Num: lit})
			}
		}
	}
	return out
}

// ---------- (3) rt/large ----------

func c15SizeClass(num string) string {
	n, _ := strconv.Atoi(num)
	switch {
	case n < 1<<16:
		return "<64K"
	case n < 1<<20:
		return "64K-1M"
	case n < 1<<21:
		return "1M-2M"
	case n < 1<<22:
		return "2M-4M"
	}
	return ">=4M"
}

var c15LargeLayouts = map[string][]string{
	"json":       {"name", "tags", "toplist", "map"},
	"yaml":       {"name", "tags", "toplist", "map"},
	"xml":        {"name", "tags"},
	"text":       {"string"},
	"bytestream": {"string", "bytes"},
}

func c15LargeSalt(in c15In) string {
	var sb strings.Builder
	for _, c := range []byte(in.Content) {
		sb.WriteByte("abcdefghijklmnopqrstuvwxyz0123456789"[int(c)%36])
	}
	if sb.Len() == 0 {
		return "x"
	}
	return sb.String()
}

func c15LargeItems(target int, salt string) []string {
	var l []string
	for i, n := 0, 0; n < target; i++ {
		s := fmt.Sprintf("item-%06d-%s-%s", i, salt, strings.Repeat("x", 8+i%23))
		l = append(l, s)
		n += len(s)
	}
	return l
}

func c15LargeText(target int, salt string) string {
	var sb strings.Builder
	for i := 0; sb.Len() < target; i++ {
		sb.WriteString("abcdefghij")
		if i%7 == 0 {
			sb.WriteString(salt)
		}
		if i%1000 == 999 {
			sb.WriteString(strconv.Itoa(i)) // no two far-apart stretches are the same
		}
	}
	return sb.String()
}

func c15LargeFeed(got []byte, target int) io.Reader {
	switch target % 3 {
	case 0: // everything in one chunk, together with EOF
		return c15NewReader([]c15Step{{C: Bs(got), T: 1}})
	case 1: // chunks of an odd size, EOF on its own
		var steps []c15Step
		for b := got; len(b) > 0; {
			n := 50021
			if n > len(b) {
				n = len(b)
			}
			steps = append(steps, c15Step{C: Bs(b[:n])})
			b = b[n:]
		}
		return c15NewReader(steps)
	}
	return bytes.NewReader(got)
}

func c15RoundTripLarge(in c15In, prod runtime.Producer, cons runtime.Consumer) (bool, string) {
	target, err := strconv.Atoi(in.Num)
	if err != nil || target <= 0 || target > 64<<20 {
		panic("rt/large: size " + in.Num)
	}
	salt := c15LargeSalt(in)
	var src, dst any
	var same func() (bool, string)
	lens := func(a, b int, what string) string { return fmt.Sprintf("produced %d %s, consumed %d", a, what, b) }
	switch in.Slot {
	case "name", "tags":
		doc := c15Doc{Name: "n", N: int64(target), U: 7, F: 0.5, B: true, Tags: []string{"t"}, Inner: &c15Sub{K: "k", V: 1}}
		if in.Codec == "xml" {
			doc.XMLName = xml.Name{Local: "doc"}
		}
		if in.Slot == "name" {
			doc.Name = c15LargeText(target, salt)
		} else {
			doc.Tags = c15LargeItems(target, salt)
		}
		back := new(c15Doc)
		src, dst = doc, back
		same = func() (bool, string) {
			if reflect.DeepEqual(doc, *back) {
				return true, ""
			}
			return false, lens(len(doc.Name), len(back.Name), "bytes of name") + "; " + lens(len(doc.Tags), len(back.Tags), "tags")
		}
	case "toplist":
		l := c15LargeItems(target, salt)
		back := new([]string)
		src, dst = l, back
		same = func() (bool, string) { return reflect.DeepEqual(l, *back), lens(len(l), len(*back), "items") }
	case "map":
		m := map[string]any{}
		for i, s := range c15LargeItems(target, salt) {
			m[fmt.Sprintf("k%06d", i)] = s
		}
		back := new(map[string]any)
		src, dst = m, back
		same = func() (bool, string) { return reflect.DeepEqual(m, *back), lens(len(m), len(*back), "keys") }
	case "string":
		s := c15LargeText(target, salt)
		back := new(string)
		src, dst = s, back
		same = func() (bool, string) { return s == *back, lens(len(s), len(*back), "bytes") }
	case "bytes":
		s := []byte(c15LargeText(target, salt))
		back := new([]byte)
		src, dst = s, back
		same = func() (bool, string) { return bytes.Equal(s, *back), lens(len(s), len(*back), "bytes") }
	default:
		panic("rt/large: layout " + in.Slot)
	}
	sink := c15NewWriter(nil, "")
	if err := prod.Produce(sink, src); err != nil {
		return false, "produce: " + err.Error()
	}
	if len(sink.got) < target {
		return false, fmt.Sprintf("the producer wrote %d bytes for a value of at least %d", len(sink.got), target)
	}
	if err := cons.Consume(c15LargeFeed(sink.got, target), dst); err != nil {
		return false, fmt.Sprintf("consume of %d bytes: %v", len(sink.got), err)
	}
	if ok, d := same(); !ok {
		return false, fmt.Sprintf("round trip differs (%d bytes on the wire): %s", len(sink.got), d)
	}
	return true, ""
}

func c15LargeIn(codec, layout string, target int, salt string) c15In {
	return c15In{Kind: "rt", Codec: codec, Shape: "large", Slot: layout, Num: strconv.Itoa(target), Content: Bs(salt)}
}

// c15GenLarge: sizes drawn on a logarithmic scale between 24 KiB and 3 MiB (thorough: 9 MiB).
func c15GenLarge(r *rand.Rand, tier string) c15In {
	codec := []string{"json", "yaml", "yaml", "xml", "text", "bytestream"}[r.Intn(6)]
	ls := c15LargeLayouts[codec]
	top := 3.0 * (1 << 20)
	if tier != "quick" {
		top *= 3
	}
	lo := 24.0 * 1024
	target := int(lo * math.Exp(r.Float64()*math.Log(top/lo)))
	return c15LargeIn(codec, ls[r.Intn(len(ls))], target, c15Word(r)[:1])
}

// c15EnumLarge: every codec x layout just beyond 64 KiB and just beyond 1 MiB, one value beyond 4 MiB per codec.
func c15EnumLarge(tier string) []any {
	var out []any
	for _, codec := range []string{"json", "yaml", "xml", "text", "bytestream"} {
		for li, layout := range c15LargeLayouts[codec] {
			out = append(out, c15LargeIn(codec, layout, 1<<16+1000+li, "a"))
			out = append(out, c15LargeIn(codec, layout, 1<<20+5000+li, "b"))
			if li == 0 || tier != "quick" {
				out = append(out, c15LargeIn(codec, layout, 1<<22+70000+li, "c"))
			}
		}
	}
	return out
}
