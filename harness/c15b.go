//go:build verif && (c15 || allprops)

package main

import (
	"encoding/xml"
	"fmt"
	"io"
	"math/rand"
	"reflect"
	"strings"

	"github.com/go-openapi/runtime"
)

// C15, second file:
//   rt/names  JSON / XML / YAML round trip of a document whose element / attribute / key names and texts are DRAWN
//             (struct types built with reflect.StructOf, so that every name of the pool can be a field tag)
//   rt/xtree  XML round trip of a generic element tree (names, namespaces, attributes, text in the VALUE, not in tags)
//   hist      ONE producer value and ONE consumer value used for several calls, some of which fail

// ---------- rt/names ----------

type c15NField struct {
	Name string      `json:"name"`          // XML: local or "namespace local" (or a>b for a list); JSON / YAML: the part after the last space
	Kind string      `json:"kind"`          // text | int | attr | list | sub
	Val  Bs          `json:"val,omitempty"` // text / attr: the string; int: digits; list: items separated by |
	Sub  []c15NField `json:"sub,omitempty"`
}

// the names of the HTML void elements (encoding/xml.HTMLAutoClose) in several spellings, names with dashes, dots,
// underscores, digits, mixed case, names that differ only in case, names that look like keywords of a format
var c15NamePool = []string{
	"link", "meta", "br", "img", "input", "hr", "base", "param", "area", "col", "frame", "basefont", "isindex",
	"Link", "META", "Br", "IMG", "Input", "source", "track", "wbr", "embed",
	"name", "id", "a", "b", "x", "item", "value", "title", "body", "head", "html", "p", "script", "style", "table", "td", "li",
	"first-name", "last.name", "snake_case", "camelCase", "PascalCase", "ALLCAPS", "h1", "x2y", "a-b.c_d", "_private", "n0", "v1.2-beta",
	"null", "true", "false", "yes", "no", "on", "off", "y", "n", "nil", "type", "xmlns-like", "XMLName", "Attr", "amp", "lt", "nbsp",
}

var c15NSPool = []string{"urn:x", "http://www.w3.org/1999/xhtml", "urn:example:a-b", "http://example.com/ns/1", "x"}

// texts with entity-like and CDATA-like content, markup characters, quotes, padding, line breaks inside
var c15TextPool = []string{
	"", "plain", "two words", "&nbsp;", "a &amp; b", "&lt;tag&gt;", "&#38;&#x26;", "&unknown;", "& alone", "<![CDATA[x]]>", "]]>", "<br>", "<link>t</link>",
	"<!-- c -->", "<?pi x?>", "\"quoted\" 'single'", "  padded  ", "line1\nline2", "tab\there", "h\xc3\xa9llo \xe2\x82\xac", "a: b", "# not a comment", "- dash",
	"{curly}", "[square]", "x,y;z", "100%", "back\\slash", "0", "007", "1e3", "null", "true", "~", "*star", "!bang", "@at", "`tick`", "end with colon:", "k=v",
}

func c15LocalName(name string) string {
	if i := strings.LastIndexByte(name, ' '); i >= 0 {
		return name[i+1:]
	}
	return name
}

func c15NTag(codec string, f c15NField) reflect.StructTag {
	if codec == "xml" {
		if f.Kind == "attr" {
			return reflect.StructTag(fmt.Sprintf(`xml:"%s,attr"`, f.Name))
		}
		return reflect.StructTag(fmt.Sprintf(`xml:"%s"`, f.Name))
	}
	return reflect.StructTag(fmt.Sprintf(`%s:"%s"`, codec, c15LocalName(f.Name)))
}

var c15StringType = reflect.TypeOf("")
var c15Int64Type = reflect.TypeOf(int64(0))
var c15StringsType = reflect.TypeOf([]string(nil))

// c15NType builds the struct type of a list of fields: field i is called F<i> and carries the drawn name in its tag.
func c15NType(codec, root string, fields []c15NField) reflect.Type {
	var sf []reflect.StructField
	if root != "" && codec == "xml" {
		sf = append(sf, reflect.StructField{Name: "XMLName", Type: c15XMLNameType, Tag: reflect.StructTag(fmt.Sprintf(`xml:"%s"`, root))})
	}
	for i, f := range fields {
		var t reflect.Type
		switch f.Kind {
		case "text", "attr":
			t = c15StringType
		case "int":
			t = c15Int64Type
		case "list":
			t = c15StringsType
		case "sub":
			t = c15NType(codec, "", f.Sub)
		default:
			panic("rt/names: kind " + f.Kind)
		}
		sf = append(sf, reflect.StructField{Name: fmt.Sprintf("F%d", i), Type: t, Tag: c15NTag(codec, f)})
	}
	return reflect.StructOf(sf)
}

func c15NFill(v reflect.Value, fields []c15NField) {
	for i, f := range fields {
		fv := v.FieldByName(fmt.Sprintf("F%d", i))
		switch f.Kind {
		case "text", "attr":
			fv.SetString(string(f.Val))
		case "int":
			var n int64
			for j := 0; j < len(f.Val) && j < 18; j++ {
				n = n*10 + int64(f.Val[j]%10)
			}
			if len(f.Val)%2 == 1 {
				n = -n
			}
			fv.SetInt(n)
		case "list":
			if len(f.Val) > 0 {
				fv.Set(reflect.ValueOf(strings.Split(string(f.Val), "|")))
			}
		case "sub":
			c15NFill(fv, f.Sub)
		}
	}
}

// ---------- rt/xtree ----------

type c15XAttrIn struct {
	Space string `json:"space,omitempty"`
	Local string `json:"local"`
	Val   Bs     `json:"val,omitempty"`
}

type c15XNodeIn struct {
	Space string       `json:"space,omitempty"`
	Local string       `json:"local"`
	Attrs []c15XAttrIn `json:"attrs,omitempty"`
	Text  Bs           `json:"text,omitempty"`
	Kids  []c15XNodeIn `json:"kids,omitempty"`
}

type c15XNode struct {
	XMLName xml.Name
	Attrs   []xml.Attr `xml:",any,attr"`
	Text    string     `xml:",chardata"`
	Kids    []c15XNode `xml:",any"`
}

func c15XBuild(n c15XNodeIn) c15XNode {
	out := c15XNode{XMLName: xml.Name{Space: n.Space, Local: n.Local}, Text: string(n.Text)}
	for _, a := range n.Attrs {
		out.Attrs = append(out.Attrs, xml.Attr{Name: xml.Name{Space: a.Space, Local: a.Local}, Value: string(a.Val)})
	}
	for _, k := range n.Kids {
		out.Kids = append(out.Kids, c15XBuild(k))
	}
	return out
}

// c15XLeaves prints an element tree leaf by leaf. Namespace declarations, which the encoder adds and the decoder hands
// back as attributes, are not part of the value.
func c15XLeaves(n c15XNode, path string, out *[]string) {
	path += "/{" + n.XMLName.Space + "}" + n.XMLName.Local
	*out = append(*out, path)
	for _, a := range n.Attrs {
		if a.Name.Space == "xmlns" || a.Name.Space == "" && a.Name.Local == "xmlns" {
			continue
		}
		*out = append(*out, path+"@{"+a.Name.Space+"}"+a.Name.Local+"="+a.Value)
	}
	*out = append(*out, path+"#"+n.Text)
	for i, k := range n.Kids {
		c15XLeaves(k, fmt.Sprintf("%s[%d]", path, i), out)
	}
}

func c15FeedFor(wire []byte, oneByte bool) io.Reader {
	if oneByte {
		return c15NewReader(c15OneByteSteps(wire))
	}
	return c15NewReader([]c15Step{{C: Bs(wire), T: 1}})
}

func c15RunNames(in c15In, obs *c15Obs) {
	prod, cons := c15Codecs(in.Codec)
	var src, dst any
	leaves := func(v any, out *[]string) { c15Leaves(reflect.ValueOf(v).Elem(), "", out) }
	if in.Shape == "xtree" {
		if in.Tree == nil {
			panic("rt/xtree: no tree")
		}
		n := c15XBuild(*in.Tree)
		src, dst = &n, new(c15XNode)
		leaves = func(v any, out *[]string) { c15XLeaves(*v.(*c15XNode), "", out) }
	} else {
		t := c15NType(in.Codec, in.Root, in.Fields)
		sv := reflect.New(t)
		c15NFill(sv.Elem(), in.Fields)
		src, dst = sv.Interface(), reflect.New(t).Interface()
	}
	leaves(src, &obs.Want)
	sink := c15NewWriter(nil, "")
	// the producer gets the value or a pointer to it
	given := src
	if len(obs.Want)%2 == 0 {
		given = reflect.ValueOf(src).Elem().Interface()
	}
	if err := prod.Produce(sink, given); err != nil {
		obs.Failed, obs.Detail = true, "produce: "+err.Error()
		return
	}
	obs.Wire = Bs(sink.got)
	if err := cons.Consume(c15FeedFor(sink.got, len(sink.got)%2 == 0), dst); err != nil {
		obs.Failed, obs.Detail = true, "consume: "+err.Error()
		return
	}
	leaves(dst, &obs.GotL)
}

// ---------- rt/names, rt/xtree: generation ----------

func c15DrawNames(r *rand.Rand, n int, codec string, forAttr bool) []string {
	seen := map[string]bool{}
	var out []string
	for len(out) < n {
		name := c15NamePool[r.Intn(len(c15NamePool))]
		if r.Intn(3) == 0 { // the void-element names more often
			name = c15NamePool[r.Intn(22)]
		}
		if codec != "xml" && name == "XMLName" {
			continue
		}
		key := name
		if codec == "json" {
			key = strings.ToLower(name) // encoding/json matches keys case-insensitively when no exact match exists: keep them apart
		}
		if seen[key] {
			continue
		}
		seen[key] = true
		if codec == "xml" && r.Intn(5) == 0 {
			name = c15NSPool[r.Intn(len(c15NSPool))] + " " + name
		}
		out = append(out, name)
	}
	return out
}

func c15DrawText(r *rand.Rand, codec string) string {
	t := c15TextPool[r.Intn(len(c15TextPool))]
	if r.Intn(3) == 0 {
		t2 := t + c15TextPool[r.Intn(len(c15TextPool))]
		// yaml.v3 v3.0.1 cannot read back its own block scalar with an indentation indicator (a text that starts with a
		// blank or a line break and holds a line break, as a sequence item: `- |4-`): third-party, see notes/C15.md; not generated
		if !(codec == "yaml" && strings.ContainsAny(t2, "\n") && strings.ContainsAny(t2[:1], " \n\t")) {
			t = t2
		}
	}
	return t
}

func c15GenFields(r *rand.Rand, codec string, depth int) []c15NField {
	n := 1 + r.Intn(5)
	names := c15DrawNames(r, n, codec, false)
	fields := make([]c15NField, n)
	for i := range fields {
		f := c15NField{Name: names[i]}
		switch k := r.Intn(10); {
		case k < 4:
			f.Kind, f.Val = "text", Bs(c15DrawText(r, codec))
		case k < 5:
			f.Kind, f.Val = "int", Bs(c15Digits(r, 1+r.Intn(12)))
		case k < 7:
			f.Kind, f.Val = "attr", Bs(c15DrawText(r, codec))
			f.Name = c15LocalName(f.Name) // no namespaced attributes in tags
		case k < 8:
			f.Kind = "list"
			var items []string
			for j := r.Intn(4); j > 0; j-- {
				items = append(items, strings.ReplaceAll(c15DrawText(r, codec), "|", "/"))
			}
			f.Val = Bs(strings.Join(items, "|"))
			if codec == "xml" && r.Intn(2) == 0 {
				f.Name = c15LocalName(c15NamePool[r.Intn(len(c15NamePool))]) + ">" + c15LocalName(f.Name)
			}
		default:
			if depth >= 2 {
				f.Kind, f.Val = "text", Bs(c15DrawText(r, codec))
			} else {
				f.Kind, f.Sub = "sub", c15GenFields(r, codec, depth+1)
			}
		}
		fields[i] = f
	}
	// two fields of one struct must not claim the same XML path
	if codec == "xml" {
		seen := map[string]bool{}
		for i := range fields {
			key := fields[i].Kind[:1] + strings.SplitN(c15LocalName(fields[i].Name), ">", 2)[0]
			if fields[i].Kind != "attr" {
				key = "e" + strings.SplitN(c15LocalName(fields[i].Name), ">", 2)[0]
			}
			if seen[key] {
				fields[i].Name = fmt.Sprintf("%s-%d", strings.ReplaceAll(c15LocalName(fields[i].Name), ">", "-"), i)
			}
			seen[key] = true
		}
	}
	return fields
}

func c15GenNames(r *rand.Rand, codec string) c15In {
	in := c15In{Kind: "rt", Codec: codec, Shape: "names", Fields: c15GenFields(r, codec, 0)}
	if codec == "xml" {
		in.Root = c15DrawNames(r, 1, codec, false)[0]
	}
	return in
}

func c15GenXNode(r *rand.Rand, depth int) c15XNodeIn {
	n := c15XNodeIn{Local: c15DrawNames(r, 1, "xtree", false)[0]}
	if r.Intn(4) == 0 {
		n.Space = c15NSPool[r.Intn(len(c15NSPool))]
	}
	for i, a := range c15DrawNames(r, r.Intn(3), "xtree", true) {
		at := c15XAttrIn{Local: a, Val: Bs(c15DrawText(r, "xml"))}
		if i == 1 && r.Intn(2) == 0 {
			at.Space = c15NSPool[r.Intn(len(c15NSPool))]
		}
		n.Attrs = append(n.Attrs, at)
	}
	if r.Intn(2) == 0 {
		n.Text = Bs(c15DrawText(r, "xml"))
	}
	if depth < 3 {
		for k := r.Intn(4 - depth); k > 0; k-- {
			n.Kids = append(n.Kids, c15GenXNode(r, depth+1))
		}
	}
	return n
}

// ---------- hist ----------

// the values of the JSON / XML / YAML calls of a history
func c15HistValue(codec, kind, content string) (src any, fresh func() any) {
	doc := c15DocFrom(content, codec == "xml", codec == "yaml")
	if codec != "xml" {
		doc.XMLName = xml.Name{}
	}
	if kind == "map" && codec != "xml" {
		tags := []any{}
		for _, t := range doc.Tags {
			tags = append(tags, t)
		}
		m := map[string]any{"name": doc.Name, "b": doc.B, "tags": tags, "n": doc.N % 1000000}
		if doc.Inner != nil {
			m["inner"] = map[string]any{"k": doc.Inner.K}
		}
		return m, func() any { return new(map[string]any) }
	}
	return doc, func() any { return new(c15Doc) }
}

func c15HistLeaves(v any) []string {
	var out []string
	rv := reflect.ValueOf(v)
	if rv.Kind() == reflect.Ptr {
		rv = rv.Elem()
	}
	c15Leaves(rv, "", &out)
	// a nil and an empty list of tags are the same document
	for i := range out {
		if strings.HasSuffix(out[i], "=nil") && strings.Contains(out[i], "Tags") {
			out[i] = strings.TrimSuffix(out[i], "nil") + "empty"
		}
	}
	return out
}

func c15HistReader(in c15In, wire []byte) (io.Reader, bool) {
	if in.ErrAt > 0 && len(wire) >= 4 {
		k := 1 + (in.ErrAt-1)%(len(wire)-2)
		e := in.ErrNo
		if e < 2 {
			e = 2
		}
		var steps []c15Step
		if in.Closable { // 1-byte chunks up to the failure
			steps = c15OneByteSteps(wire[:k])
			steps = append(steps, c15Step{T: e})
		} else {
			steps = []c15Step{{C: Bs(wire[:k]), T: e}}
		}
		return c15NewReader(append(steps, c15Step{C: Bs(wire[k:])})), true
	}
	if len(in.Trail) > 0 {
		wire = append(append([]byte(nil), wire...), in.Trail...)
	}
	return c15FeedFor(wire, in.Closable), false
}

type c15HistCall struct {
	obs    c15Obs
	reread func(*c15Obs)
}

func c15RunHist(in c15In, obs *c15Obs) {
	calls := make([]c15HistCall, len(in.Calls))
	switch in.Codec {
	case "bytestream", "text":
		cons, prod := c15StreamConsumer(in), c15StreamProducer(in)
		for i, call := range in.Calls {
			call.Codec, call.CloseOpt = in.Codec, in.CloseOpt
			switch call.Kind {
			case "consume":
				calls[i].reread = c15ConsumeWith(cons, call, &calls[i].obs)
			case "produce":
				calls[i].reread = c15ProduceWith(prod, call, &calls[i].obs)
			default:
				panic("hist: call kind " + call.Kind)
			}
		}
	case "json", "xml", "yaml":
		c15RunDocHist(in, calls)
	default:
		panic("hist: codec " + in.Codec)
	}
	for i := range calls {
		obs.Imm = append(obs.Imm, calls[i].obs)
		fin := calls[i].obs
		if calls[i].reread != nil {
			calls[i].reread(&fin)
		}
		obs.Fin = append(obs.Fin, fin)
	}
}

func c15HistWFail(steps []c15WStep) bool {
	for _, s := range steps {
		if s.E != 0 {
			return true
		}
	}
	return false
}

// c15DocProduce makes one Produce call of a history through the given producer value.
func c15DocProduce(prod runtime.Producer, call c15In, src any) (sink *c15Writer, cls string, panicked bool, msg string) {
	sink = c15NewWriter(call.WSteps, string(call.WPre))
	sink.sticky = true
	var err error
	panicked, msg = recoverTo(func() { err = prod.Produce(sink, src) })
	return sink, c15ErrClass(err, ""), panicked, msg
}

func c15RunDocHist(in c15In, calls []c15HistCall) {
	// first, on fresh codec values: the document of every call, then every call as it is
	type prep struct {
		src   any
		fresh func() any
		full  []byte
	}
	preps := make([]prep, len(in.Calls))
	for i, call := range in.Calls {
		p := &preps[i]
		p.src, p.fresh = c15HistValue(in.Codec, call.DocKind, string(call.Content))
		fp, _ := c15Codecs(in.Codec)
		sink := c15NewWriter(nil, "")
		recoverTo(func() { _ = fp.Produce(sink, p.src) })
		p.full = append([]byte(nil), sink.got...)
		calls[i].obs.Full = Bs(p.full)
		calls[i].obs.Want = c15HistLeaves(p.src)
	}
	for i, call := range in.Calls {
		o := &calls[i].obs
		fp, fc := c15Codecs(in.Codec)
		switch call.Kind {
		case "produce":
			sink, cls, _, _ := c15DocProduce(fp, call, preps[i].src)
			o.FErr, o.FGot = cls, Bs(sink.got)
		case "consume":
			rd, _ := c15HistReader(call, preps[i].full)
			dst := preps[i].fresh()
			var err error
			recoverTo(func() { err = fc.Consume(rd, dst) })
			o.FErr, o.FLeaves = c15ErrClass(err, ""), c15HistLeaves(dst)
		default:
			panic("hist: call kind " + call.Kind)
		}
	}
	// then the history: ONE producer value, ONE consumer value
	prod, cons := c15Codecs(in.Codec)
	for i, call := range in.Calls {
		i, call := i, call
		o := &calls[i].obs
		switch call.Kind {
		case "produce":
			o.WFail = c15HistWFail(call.WSteps)
			sink, cls, panicked, msg := c15DocProduce(prod, call, preps[i].src)
			o.Err, o.Panicked, o.Panic = cls, panicked, msg
			calls[i].reread = func(o *c15Obs) {
				o.Got = Bs(sink.got)
				o.Back = nil
				// what a fresh consumer rebuilds from the bytes this call added to the sink
				if o.Err == "" && !o.Panicked && len(sink.got) >= len(call.WPre) {
					_, fc := c15Codecs(in.Codec)
					dst := preps[i].fresh()
					var err error
					recoverTo(func() { err = fc.Consume(c15FeedFor(sink.got[len(call.WPre):], i%2 == 0), dst) })
					if err != nil {
						o.Back = []string{"consume: " + err.Error()}
					} else {
						o.Back = c15HistLeaves(dst)
					}
				}
			}
			calls[i].reread(o)
		case "consume":
			rd, rfail := c15HistReader(call, preps[i].full)
			o.RFail = rfail
			dst := preps[i].fresh()
			var err error
			o.Panicked, o.Panic = recoverTo(func() { err = cons.Consume(rd, dst) })
			o.Err = c15ErrClass(err, "")
			if err != nil {
				o.ErrText = err.Error()
			}
			calls[i].reread = func(o *c15Obs) { o.GotL = c15HistLeaves(dst) }
			calls[i].reread(o)
		}
	}
}

// ---------- hist: Gallina ----------

func c15CoqCall(parent c15In, call c15In, o c15Obs) string {
	f := map[string]int{"json": 0, "xml": 1, "yaml": 2}[parent.Codec]
	switch parent.Codec {
	case "bytestream", "text":
		call.Codec, call.CloseOpt = parent.Codec, parent.CloseOpt
		if call.Kind == "consume" {
			return "K" + strings.TrimPrefix(c15CoqConsume(call, o), "C")
		}
		return "K" + strings.TrimPrefix(c15CoqProduce(call, o), "C")
	}
	if call.Kind == "produce" {
		return fmt.Sprintf("KDocProd %d %s %s %s %s %s %s %s %s %s %s", f, coqBool(o.WFail), coqBytes(string(call.WPre)), coqBytes(string(o.Full)),
			c15CoqErr(o.FErr), coqBytes(string(o.FGot)), coqBool(o.Panicked), c15CoqErr(o.Err), coqBytes(string(o.Got)), coqBytesList(o.Want), coqBytesList(o.Back))
	}
	return fmt.Sprintf("KDocCons %d %s %s %s %s %s %s %s", f, coqBool(o.RFail), c15CoqErr(o.FErr), coqBytesList(o.FLeaves),
		coqBool(o.Panicked), c15CoqErr(o.Err), coqBytesList(o.Want), coqBytesList(o.GotL))
}

func c15CoqHist(in c15In, obs c15Obs) string {
	list := func(os []c15Obs) string {
		var parts []string
		for i, o := range os {
			parts = append(parts, c15CoqCall(in, in.Calls[i], o))
		}
		return "[" + strings.Join(parts, "; ") + "]"
	}
	return fmt.Sprintf("CHist %s %s", list(obs.Imm), list(obs.Fin))
}

// ---------- hist: generation ----------

// c15HistFailing: a writer script that fails at offset k (and from then on: the writer of a JSON / XML / YAML call is sticky).
func c15HistFailing(k, e int) []c15WStep {
	return []c15WStep{{A: k, E: e}}
}

func c15GenDocCall(r *rand.Rand, codec string) c15In {
	content := c15Content(r)
	if len(content) > 60 {
		content = content[:60]
	}
	call := c15In{Content: Bs(content), DocKind: []string{"doc", "doc", "map"}[r.Intn(3)], Closable: r.Intn(2) == 0}
	if r.Intn(5) < 3 {
		call.Kind = "produce"
		if r.Intn(2) == 0 {
			k := r.Intn(6)
			if r.Intn(2) == 0 {
				k = r.Intn(120)
			}
			call.WSteps = c15HistFailing(k, 2+r.Intn(5))
		}
		if r.Intn(4) == 0 {
			call.WPre = Bs(c15Word(r))
		}
	} else {
		call.Kind = "consume"
		if r.Intn(2) == 0 {
			call.ErrAt, call.ErrNo = 1+r.Intn(150), 2+r.Intn(5)
		} else if r.Intn(3) == 0 {
			switch codec {
			case "json":
				call.Trail = Bs([]string{" {\"name\":\"second\"} trailing garbage", "{\"name\":\"stale\",\"tags\":[\"s\"]}\n", "]"}[r.Intn(3)])
			case "xml":
				call.Trail = Bs([]string{"<doc><name>stale</name></doc>", "\n<!-- trailing -->", "garbage <"}[r.Intn(3)])
			}
		}
	}
	return call
}

func c15GenHist(r *rand.Rand) c15In {
	codec := []string{"json", "json", "xml", "yaml", "text", "bytestream", "bytestream"}[r.Intn(7)]
	in := c15In{Kind: "hist", Codec: codec}
	n := 2 + r.Intn(4)
	doc := codec == "json" || codec == "xml" || codec == "yaml"
	if codec == "bytestream" {
		in.CloseOpt = r.Intn(2) == 0
	}
	for len(in.Calls) < n {
		var call c15In
		switch {
		case doc:
			call = c15GenDocCall(r, codec)
		case r.Intn(2) == 0:
			call = c15GenConsume(r, codec, 400)
		default:
			call = c15GenProduce(r, codec, 400)
		}
		// a neighbour of the previous call: the same call with ONE dimension changed
		if len(in.Calls) > 0 && r.Intn(2) == 0 {
			prev := in.Calls[len(in.Calls)-1]
			next := prev
			switch r.Intn(4) {
			case 0: // same everything, healthy stream
				next.WSteps, next.ErrAt = nil, 0
				if !doc && prev.Kind == "consume" {
					next.Steps = []c15Step{{C: Bs(c15Bytes(prev.Steps)), T: 1}}
					next.Script = "data+eof"
				}
			case 1: // same stream, other content
				if doc || prev.Kind == "produce" && prev.Src != "reader" {
					next.Content = call.Content
				} else if call.Kind == prev.Kind {
					next.Steps, next.Script = call.Steps, call.Script
				}
			case 2: // same content, other destination / source kind
				if doc {
					next.DocKind = map[string]string{"doc": "map", "map": "doc", "": "map"}[prev.DocKind]
				} else if call.Kind == prev.Kind {
					next.Dest, next.Src, next.Pre, next.Ret = call.Dest, call.Src, call.Pre, call.Ret
					if next.Src == "reader" || prev.Src == "reader" {
						next = call
					}
				}
			default: // the other direction
				next = call
			}
			call = next
		}
		call.Codec, call.CloseOpt = "", false
		in.Calls = append(in.Calls, call)
	}
	// the after-effect of a failure shows in a later call of the same direction: after the last failing Produce comes a
	// healthy Produce, after the last failing Consume a healthy Consume
	if doc {
		for _, dir := range []string{"produce", "consume"} {
			lastFail, lastOK := -1, -1
			for i, c := range in.Calls {
				if c.Kind != dir {
					continue
				}
				if len(c.WSteps) > 0 || c.ErrAt > 0 {
					lastFail = i
				} else {
					lastOK = i
				}
			}
			if lastFail > lastOK {
				again := in.Calls[lastFail]
				again.WSteps, again.ErrAt = nil, 0
				if r.Intn(2) == 0 {
					again.Content = Bs(c15Word(r))
				}
				in.Calls = append(in.Calls, again)
			}
		}
	}
	c15HistAvoidKnown(&in)
	return in
}

// c15HistAvoidKnown: the situation of the open finding F-C15-2 (text consumer, empty input, destination that already
// holds something) is reported by the single-call cases; inside a history it would hide the history.
func c15HistAvoidKnown(in *c15In) {
	if in.Codec != "text" {
		return
	}
	for i := range in.Calls {
		c := &in.Calls[i]
		if c.Kind == "consume" && c15Bytes(c.Steps) == "" {
			c.Pre = ""
		}
	}
}

func c15EnumHist() []any {
	var out []any
	e := 3
	for _, codec := range []string{"json", "xml", "yaml"} {
		kinds := []string{"doc", "map"}
		if codec == "xml" {
			kinds = []string{"doc"}
		}
		for _, kind := range kinds {
			for _, k := range []int{0, 1, 7, 30, 5000} {
				// a produce that fails at offset k, then the same and another document on healthy writers, then a consume
				fail := c15In{Kind: "produce", Content: "first document", DocKind: kind, WSteps: c15HistFailing(k, e)}
				ok1 := c15In{Kind: "produce", Content: "first document", DocKind: kind}
				ok2 := c15In{Kind: "produce", Content: "another", DocKind: kind, WPre: "OLD"}
				rd := c15In{Kind: "consume", Content: "another", DocKind: kind, Closable: k%2 == 0}
				out = append(out, c15In{Kind: "hist", Codec: codec, Calls: []c15In{fail, ok1, ok2, rd}})
				out = append(out, c15In{Kind: "hist", Codec: codec, Calls: []c15In{ok1, fail, ok2}})
			}
			for _, k := range []int{1, 2, 9, 40} {
				// a consume whose reader fails inside the document, then healthy ones
				bad := c15In{Kind: "consume", Content: "first document", DocKind: kind, ErrAt: k, ErrNo: e, Closable: k%2 == 0}
				ok1 := c15In{Kind: "consume", Content: "first document", DocKind: kind}
				ok2 := c15In{Kind: "consume", Content: "zz", DocKind: kind, Closable: true}
				if codec == "json" {
					ok1.Trail = " {\"name\":\"stale\"} trailing"
				}
				if codec == "xml" {
					ok1.Trail = "<doc><name>stale</name></doc>"
				}
				pr := c15In{Kind: "produce", Content: "zz", DocKind: kind}
				out = append(out, c15In{Kind: "hist", Codec: codec, Calls: []c15In{bad, ok1, ok2, pr, ok1}})
			}
		}
	}
	content := "abc\xffde"
	for _, codec := range []string{"bytestream", "text"} {
		for _, closeOpt := range []bool{false, true} {
			if codec == "text" && closeOpt {
				continue
			}
			dests := []string{"ptr_bytes", "ptr_string", "any_bytes", "any_string", "buffer", "binunm"}
			srcs := []string{"bytes", "string", "buffer", "reader", "binmar"}
			if codec == "text" {
				dests = []string{"ptr_string", "ptr_named_string", "textunm"}
				srcs = []string{"string", "textmar", "stringer", "struct"}
			}
			for _, d := range dests {
				bad := c15In{Kind: "consume", Closable: true, Dest: d, Steps: []c15Step{{C: Bs(content[:3]), T: 4}, {C: Bs(content[3:])}}, Script: "error-at-offset"}
				ok1 := c15In{Kind: "consume", Closable: true, Dest: d, Steps: []c15Step{{C: Bs(content)}}, Script: "one-chunk"}
				ok2 := c15In{Kind: "consume", Dest: d, Steps: c15OneByteSteps([]byte("other content, longer than the first")), Script: "1-byte"}
				ok3 := c15In{Kind: "consume", Closable: true, Dest: d, Steps: []c15Step{{C: "x", T: 1}}, Script: "data+eof"}
				out = append(out, c15In{Kind: "hist", Codec: codec, CloseOpt: closeOpt, Calls: []c15In{ok1, ok2, ok3}})
				out = append(out, c15In{Kind: "hist", Codec: codec, CloseOpt: closeOpt, Calls: []c15In{bad, ok1, ok3, ok2}})
			}
			for _, sname := range srcs {
				mk := func(c string, ws []c15WStep, label string) c15In {
					call := c15In{Kind: "produce", Closable: true, Src: sname, WSteps: ws, Script: "direct/" + label}
					if sname == "reader" {
						call.Steps, call.PClos, call.Script = []c15Step{{C: Bs(c)}}, true, "one-chunk/"+label
					} else {
						call.Content = Bs(c)
					}
					return call
				}
				bad := mk(content, []c15WStep{{A: 2, E: 9}, {A: 0, E: 9}, {A: 0, E: 9}}, "write-error")
				bad0 := mk(content, []c15WStep{{A: 0, E: 9}, {A: 0, E: 9}}, "write-error")
				ok1 := mk(content, nil, "accepting")
				ok2 := mk("other content, longer than the first", nil, "accepting")
				out = append(out, c15In{Kind: "hist", Codec: codec, CloseOpt: closeOpt, Calls: []c15In{bad, ok1, ok2}})
				out = append(out, c15In{Kind: "hist", Codec: codec, CloseOpt: closeOpt, Calls: []c15In{ok2, bad0, ok1, ok1}})
			}
		}
	}
	return out
}

func c15EnumNames() []any {
	var out []any
	// every name of the pool once as an element that carries text and is followed by a sibling, once as an attribute,
	// once as the element of a list, in all three codecs
	for _, codec := range []string{"xml", "json", "yaml"} {
		for i, name := range c15NamePool {
			if codec != "xml" && name == "XMLName" {
				continue
			}
			text := c15TextPool[1+i%(len(c15TextPool)-1)]
			sib := "after"
			if strings.EqualFold(name, sib) {
				sib = "after2"
			}
			fields := []c15NField{{Name: name, Kind: "text", Val: Bs(text)}, {Name: sib, Kind: "text", Val: "kept"},
				{Name: "sub-" + name, Kind: "sub", Sub: []c15NField{{Name: name, Kind: "list", Val: "p|q"}, {Name: "n.after", Kind: "int", Val: "42"}}}}
			in := c15In{Kind: "rt", Codec: codec, Shape: "names", Fields: fields}
			if codec == "xml" {
				in.Root = "doc"
				if i%4 == 0 {
					in.Root = name
				}
				in.Fields = append(in.Fields, c15NField{Name: name, Kind: "attr", Val: Bs(text)})
				if i%3 == 0 {
					in.Fields[0].Name = "urn:x " + name
				}
			}
			out = append(out, in)
		}
	}
	for i, name := range c15NamePool {
		if i%2 == 1 {
			continue
		}
		t := c15XNodeIn{Local: "root", Kids: []c15XNodeIn{
			{Local: name, Text: Bs(c15TextPool[1+i%(len(c15TextPool)-1)]), Attrs: []c15XAttrIn{{Local: "id", Val: "1"}}, Kids: []c15XNodeIn{{Local: "inner", Text: "t"}}},
			{Local: "after", Text: "kept"}}}
		if i%3 == 0 {
			t.Kids[0].Space = "urn:x"
		}
		out = append(out, c15In{Kind: "rt", Codec: "xml", Shape: "xtree", Tree: &t})
	}
	return out
}

var c15VoidNames = map[string]bool{"link": true, "meta": true, "br": true, "img": true, "input": true, "hr": true, "base": true, "param": true,
	"area": true, "col": true, "frame": true, "basefont": true, "isindex": true}

func c15HasVoidName(in c15In) bool {
	var inFields func(fs []c15NField) bool
	inFields = func(fs []c15NField) bool {
		for _, f := range fs {
			for _, part := range strings.Split(c15LocalName(f.Name), ">") {
				if c15VoidNames[strings.ToLower(part)] {
					return true
				}
			}
			if inFields(f.Sub) {
				return true
			}
		}
		return false
	}
	var inTree func(n c15XNodeIn) bool
	inTree = func(n c15XNodeIn) bool {
		if c15VoidNames[strings.ToLower(n.Local)] {
			return true
		}
		for _, k := range n.Kids {
			if inTree(k) {
				return true
			}
		}
		return false
	}
	if in.Tree != nil && inTree(*in.Tree) {
		return true
	}
	return c15VoidNames[strings.ToLower(c15LocalName(in.Root))] || inFields(in.Fields)
}
